(* Lemmas about the controller message loop model (Model/MsgLoop.v). *)
From V Require Import Model.Select Model.MsgLoop.

(* ---------------------------------------------------------------- the association list *)
Lemma lookup_update_same i f m :
  lookup i (update i f m) = option_map f (lookup i m).
Proof.
  induction m as [|[j e] r IH]; [reflexivity|].
  cbn [update map fst snd lookup] in *. destruct (j =? i) eqn:E; cbn [lookup fst]; rewrite E; [reflexivity|exact IH].
Qed.

Lemma lookup_update_other i j f m : i <> j ->
  lookup j (update i f m) = lookup j m.
Proof.
  intros Hne. induction m as [|[k e] r IH]; [reflexivity|].
  cbn [update map fst snd lookup] in *. destruct (k =? i) eqn:E; cbn [lookup fst].
  - apply Z.eqb_eq in E. subst k. destruct (Z.eqb_spec i j); [contradiction|exact IH].
  - destruct (k =? j); [reflexivity|exact IH].
Qed.

Lemma lookup_remove_same i m : lookup i (remove i m) = None.
Proof.
  induction m as [|[j e] r IH]; [reflexivity|].
  cbn [remove]. destruct (j =? i) eqn:E; [exact IH|]. cbn [lookup]. rewrite E. exact IH.
Qed.

Lemma lookup_remove_other i j m : i <> j -> lookup j (remove i m) = lookup j m.
Proof.
  intros Hne. induction m as [|[k e] r IH]; [reflexivity|].
  cbn [remove lookup]. destruct (k =? i) eqn:E.
  - apply Z.eqb_eq in E. subst k. destruct (Z.eqb_spec i j); [contradiction|exact IH].
  - cbn [lookup]. destruct (k =? j); [reflexivity|exact IH].
Qed.

Lemma update_absent i f m : lookup i m = None -> update i f m = m.
Proof.
  induction m as [|[j e] r IH]; intros H; [reflexivity|].
  cbn [lookup] in H. cbn [update map fst snd]. destruct (j =? i); [discriminate|].
  f_equal. apply IH. exact H.
Qed.

Lemma remove_absent i m : lookup i m = None -> remove i m = m.
Proof.
  induction m as [|[j e] r IH]; intros H; [reflexivity|].
  cbn [lookup] in H. cbn [remove]. destruct (j =? i); [discriminate|].
  f_equal. apply IH. exact H.
Qed.

Lemma lookup_progress t j m :
  lookup j (progress t m) =
  option_map (fun e => mkEntry (option_map (progress_snap t) (e_snap e)) (e_usable e)) (lookup j m).
Proof.
  induction m as [|[k e] r IH]; [reflexivity|].
  cbn [progress map fst snd lookup] in *. destruct (k =? j); [reflexivity|exact IH].
Qed.

Lemma core_progress t s : snap_core (progress_snap t s) = snap_core s.
Proof. unfold progress_snap. destruct (before t (snap_time s)); reflexivity. Qed.

(* keys *)
Definition keys (m : cmap) : list Z := map fst m.

Lemma keys_update i f m : keys (update i f m) = keys m.
Proof.
  unfold keys, update. rewrite map_map. apply map_ext. intros [j e]. cbn. destruct (j =? i); reflexivity.
Qed.

Lemma keys_progress t m : keys (progress t m) = keys m.
Proof. unfold keys, progress. rewrite map_map. apply map_ext. intros [j e]. reflexivity. Qed.

Lemma in_keys_remove i j m : In j (keys (remove i m)) -> In j (keys m) /\ j <> i.
Proof.
  induction m as [|[k e] r IH]; [intros []|].
  cbn [remove]. destruct (Z.eqb_spec k i) as [->|Hne].
  - intros H. destruct (IH H) as [H1 H2]. split; [right; exact H1|exact H2].
  - cbn. intros [<-|H]; [split; [left; reflexivity|exact Hne]|].
    destruct (IH H) as [H1 H2]. split; [right; exact H1|exact H2].
Qed.

Lemma nodup_remove i m : NoDup (keys m) -> NoDup (keys (remove i m)).
Proof.
  induction m as [|[k e] r IH]; intros H; [constructor|].
  cbn in H. inversion H as [|? ? Hn Hr]; subst. cbn [remove].
  destruct (k =? i); [apply IH; exact Hr|].
  cbn. constructor; [|apply IH; exact Hr].
  intros Hin. apply in_keys_remove in Hin. destruct Hin as [Hin _]. apply Hn. exact Hin.
Qed.

Lemma nodup_insert i e m : NoDup (keys m) -> NoDup (keys (insert i e m)).
Proof.
  intros H. unfold insert. cbn. constructor; [|apply nodup_remove; exact H].
  intros Hin. apply in_keys_remove in Hin. destruct Hin as [_ Hne]. apply Hne. reflexivity.
Qed.

Lemma in_lookup j e m : NoDup (keys m) -> (In (j, e) m <-> lookup j m = Some e).
Proof.
  induction m as [|[k e'] r IH]; intros Hnd.
  - split; [intros []|discriminate].
  - cbn in Hnd. inversion Hnd as [|? ? Hn Hr]; subst. cbn [lookup In].
    destruct (Z.eqb_spec k j) as [->|Hne].
    + split.
      * intros [Heq|Hin]; [inversion Heq; reflexivity|].
        exfalso. apply Hn. unfold keys. change j with (fst (j, e)). apply in_map. exact Hin.
      * intros Heq. inversion Heq. left. reflexivity.
    + rewrite <- (IH Hr). split.
      * intros [Heq|Hin]; [inversion Heq; contradiction|exact Hin].
      * intros Hin. right. exact Hin.
Qed.

(* ---------------------------------------------------------------- the per-source view *)
Definition view_m (i : Z) (m : cmap) : view :=
  option_map (fun e => (option_map snap_core (e_snap e), e_usable e)) (lookup i m).

Lemma view_of_m i c : view_of i c = view_m i (c_map c).
Proof. reflexivity. Qed.

Lemma view_progress t j m : view_m j (progress t m) = view_m j m.
Proof.
  unfold view_m. rewrite lookup_progress. destruct (lookup j m) as [e|]; [|reflexivity].
  cbn. destruct (e_snap e) as [s|]; [|reflexivity]. cbn. rewrite core_progress. reflexivity.
Qed.

Lemma update_clock_map W c t :
  c_map (fst (update_clock W c t)) = c_map c \/
  c_map (fst (update_clock W c t)) = progress t (c_map c).
Proof.
  unfold update_clock. destruct (existsb _ _); [left; reflexivity|].
  destruct (w_select W _); right; reflexivity.
Qed.

Lemma view_update_clock W c t j : view_of j (fst (update_clock W c t)) = view_of j c.
Proof.
  rewrite !view_of_m. destruct (update_clock_map W c t) as [-> | ->]; [reflexivity|].
  apply view_progress.
Qed.

Lemma view_handle W c i o j :
  view_of j (fst (handle W c (i, o))) = if i =? j then src_step (view_of j c) o else view_of j c.
Proof.
  destruct o as [[s|b|]|]; cbn [handle].
  - (* Measure *)
    destruct (lookup i (c_map c)) as [e|] eqn:Hl.
    + rewrite view_update_clock. rewrite !view_of_m. cbn [c_map with_map]. unfold store, view_m.
      destruct (Z.eqb_spec i j) as [->|Hne].
      * rewrite lookup_update_same, Hl. reflexivity.
      * rewrite lookup_update_other by exact Hne. reflexivity.
    + cbn [fst]. destruct (Z.eqb_spec i j) as [->|Hne]; [|reflexivity].
      rewrite view_of_m. unfold view_m. rewrite Hl. reflexivity.
  - (* SetUsable *)
    cbn [fst]. rewrite !view_of_m. cbn [c_map with_map]. unfold view_m.
    destruct (Z.eqb_spec i j) as [->|Hne].
    + rewrite lookup_update_same. destruct (lookup j (c_map c)); reflexivity.
    + rewrite lookup_update_other by exact Hne. reflexivity.
  - (* DropSrc *)
    cbn [fst]. rewrite !view_of_m. cbn [c_map with_map]. unfold view_m.
    destruct (Z.eqb_spec i j) as [->|Hne].
    + rewrite lookup_remove_same. reflexivity.
    + rewrite lookup_remove_other by exact Hne. reflexivity.
  - (* add_source *)
    cbn [fst]. rewrite !view_of_m. cbn [c_map with_map]. unfold view_m, insert. cbn [lookup].
    destruct (Z.eqb_spec i j) as [->|Hne]; [reflexivity|].
    rewrite lookup_remove_other by exact Hne. reflexivity.
Qed.

Lemma run_from_app W tr1 : forall c tr2,
  fst (run_from W c (tr1 ++ tr2)) = fst (run_from W (fst (run_from W c tr1)) tr2).
Proof.
  induction tr1 as [|ev r IH]; intros c tr2; [reflexivity|].
  cbn [app run_from]. destruct (handle W c ev) as [c1 o] eqn:Hh.
  specialize (IH c1 tr2).
  destruct (run_from W c1 (r ++ tr2)) as [c2 os]. destruct (run_from W c1 r) as [c3 os3].
  cbn [fst] in *. exact IH.
Qed.

Lemma state_after_snoc W tr ev :
  state_after W (tr ++ [ev]) = fst (handle W (state_after W tr) ev).
Proof.
  unfold state_after. rewrite run_from_app. cbn [run_from].
  destruct (handle W _ ev). reflexivity.
Qed.

Lemma ops_of_cons i ev tr :
  ops_of i (ev :: tr) = if fst ev =? i then snd ev :: ops_of i tr else ops_of i tr.
Proof. unfold ops_of. cbn [filter]. destruct (fst ev =? i); reflexivity. Qed.

Lemma ops_of_app i a b : ops_of i (a ++ b) = ops_of i a ++ ops_of i b.
Proof. unfold ops_of. rewrite filter_app, map_app. reflexivity. Qed.

Lemma view_run_from W j tr : forall c,
  view_of j (fst (run_from W c tr)) = fold_left src_step (ops_of j tr) (view_of j c).
Proof.
  induction tr as [|[i o] r IH]; intros c; [reflexivity|].
  cbn [run_from]. destruct (handle W c (i, o)) as [c1 out] eqn:Hh.
  specialize (IH c1). destruct (run_from W c1 r) as [c2 os]. cbn [fst] in *.
  rewrite IH, ops_of_cons. cbn [fst snd].
  pose proof (view_handle W c i o j) as Hv. rewrite Hh in Hv. cbn [fst] in Hv. rewrite Hv.
  destruct (i =? j); reflexivity.
Qed.

(* the controller's knowledge of source j is a function of source j's own events, in their order *)
Lemma view_state_after W j tr : view_of j (state_after W tr) = src_view (ops_of j tr).
Proof. unfold state_after, src_view. rewrite view_run_from. reflexivity. Qed.

(* ---------------------------------------------------------------- key uniqueness is invariant *)
Lemma nodup_handle W c ev : NoDup (keys (c_map c)) -> NoDup (keys (c_map (fst (handle W c ev)))).
Proof.
  intros H. destruct ev as [i [[s|b|]|]]; cbn [handle].
  - destruct (lookup i (c_map c)); [|exact H].
    destruct (update_clock_map W (with_map (store i s (c_map c)) c) (snap_update s)) as [-> | ->];
      cbn [c_map with_map]; unfold store; rewrite ?keys_progress, keys_update; exact H.
  - cbn [fst c_map with_map]. rewrite keys_update. exact H.
  - cbn [fst c_map with_map]. apply nodup_remove. exact H.
  - cbn [fst c_map with_map]. apply nodup_insert. exact H.
Qed.

Lemma nodup_run_from W tr : forall c, NoDup (keys (c_map c)) -> NoDup (keys (c_map (fst (run_from W c tr)))).
Proof.
  induction tr as [|ev r IH]; intros c H; [exact H|].
  cbn [run_from]. pose proof (nodup_handle W c ev H) as H1.
  destruct (handle W c ev) as [c1 o]. cbn [fst] in H1. specialize (IH c1 H1).
  destruct (run_from W c1 r). exact IH.
Qed.

Lemma nodup_state_after W tr : NoDup (keys (c_map (state_after W tr))).
Proof. unfold state_after. apply nodup_run_from. constructor. Qed.

(* ---------------------------------------------------------------- candidates *)
Lemma candidates_in m s :
  In s (candidates m) <-> exists j e, In (j, e) m /\ e_usable e = true /\ e_snap e = Some s.
Proof.
  unfold candidates. rewrite in_flat_map. split.
  - intros [[j e] [Hin Hs]]. cbn [snd] in Hs. destruct (e_usable e) eqn:Hu; [|destruct Hs].
    destruct (e_snap e) as [s'|] eqn:Hsn; [|destruct Hs]. destruct Hs as [<-|[]].
    exists j, e. auto.
  - intros (j & e & Hin & Hu & Hsn). exists (j, e). split; [exact Hin|].
    cbn [snd]. rewrite Hu, Hsn. left. reflexivity.
Qed.

Lemma candidates_view m : NoDup (keys m) -> forall k,
  In k (map snap_core (candidates m)) <-> exists j, view_m j m = Some (Some k, true).
Proof.
  intros Hnd k. rewrite in_map_iff. split.
  - intros (s & Hk & Hin). apply candidates_in in Hin. destruct Hin as (j & e & Hin & Hu & Hsn).
    exists j. unfold view_m. apply (in_lookup j e m Hnd) in Hin. rewrite Hin. cbn. rewrite Hsn, Hu, <- Hk. reflexivity.
  - intros (j & Hv). unfold view_m in Hv. destruct (lookup j m) as [e|] eqn:Hl; [|discriminate].
    cbn in Hv. destruct (e_snap e) as [s|] eqn:Hsn; [|discriminate]. cbn in Hv. inversion Hv as [[Hk Hu]].
    exists s. split; [reflexivity|]. apply candidates_in. exists j, e. split; [|auto].
    apply (in_lookup j e m Hnd). exact Hl.
Qed.

(* whenever select is reached while handling ev after the schedule prefix pre, its argument is
   exactly the set of (progressed) snapshots of the sources that -- by their OWN events so far --
   are registered, were last reported usable, and have delivered a snapshot *)
Lemma select_input_spec W pre ev L :
  select_input (state_after W pre) ev = Some L ->
  forall k, In k (map snap_core L) <-> exists j, src_view (ops_of j (pre ++ [ev])) = Some (Some k, true).
Proof.
  intros Hsi k.
  assert (Hmap : L = candidates (c_map (state_after W (pre ++ [ev])))).
  { rewrite state_after_snoc. destruct ev as [i [[s|b|]|]]; cbn [select_input] in Hsi; try discriminate.
    cbn [handle]. destruct (lookup i (c_map (state_after W pre))); [|discriminate].
    unfold update_clock. cbn [c_map with_map]. destruct (existsb _ _); [discriminate|].
    inversion Hsi; subst L. destruct (w_select W _); reflexivity. }
  subst L. rewrite (candidates_view _ (nodup_state_after W (pre ++ [ev]))).
  split; intros [j Hj]; exists j; rewrite <- view_of_m, view_state_after in *; exact Hj.
Qed.

(* what select returns is what is used: used_sources are ids of candidates *)
Lemma used_sources_are_candidates W pre ev L c' o u :
  (forall l s, In s (w_select W l) -> In s l) ->
  select_input (state_after W pre) ev = Some L ->
  handle W (state_after W pre) ev = (c', o) -> o_used o = Some u ->
  forall i, In i u -> exists s, In s L /\ snap_id s = i.
Proof.
  intros Hsub Hsi Hh Hu i Hin.
  destruct ev as [j [[s|b|]|]]; cbn [select_input] in Hsi; try discriminate.
  cbn [handle] in Hh. destruct (lookup j (c_map (state_after W pre))); [|discriminate].
  unfold update_clock in Hh. cbn [c_map c_startup c_slew c_nsteer with_map] in Hh. destruct (existsb _ _); [discriminate|].
  inversion Hsi; subst L. clear Hsi.
  destruct (w_select W _) as [|x r] eqn:Hsel; inversion Hh; subst o; cbn [o_used] in Hu; [discriminate|].
  inversion Hu; subst u. change (In i (map snap_id (x :: r))) in Hin.
  apply in_map_iff in Hin. destruct Hin as (y & Hy & Hiny).
  exists y. split; [|exact Hy]. apply Hsub. rewrite Hsel. exact Hiny.
Qed.

(* no select, no clock call: every clock call of a handled message comes from the consensus branch *)
Lemma clock_calls_need_selection W c ev c' o :
  handle W c ev = (c', o) -> o_clock o <> [] ->
  exists L sel, select_input c ev = Some L /\ w_select W L = sel /\ sel <> [] /\
                o_used o = Some (map snap_id sel).
Proof.
  intros Hh Hc. destruct ev as [j [[s|b|]|]]; cbn [handle] in Hh;
    try (inversion Hh; subst o; cbn in Hc; contradiction).
  cbn [select_input]. destruct (lookup j (c_map c)); [|inversion Hh; subst o; cbn in Hc; contradiction].
  unfold update_clock in Hh. cbn [c_map c_startup c_slew c_nsteer with_map] in Hh.
  destruct (existsb _ _); [inversion Hh; subst o; cbn in Hc; contradiction|].
  destruct (w_select W _) as [|x r] eqn:Hsel; inversion Hh; subst o; [cbn in Hc; contradiction|].
  eexists. eexists. split; [reflexivity|]. split; [exact Hsel|]. split; [discriminate|reflexivity].
Qed.

(* ---------------------------------------------------------------- after removal *)
Lemma handle_unregistered W c i o :
  lookup i (c_map c) = None -> handle W c (i, Some o) = (c, out0).
Proof.
  intros Hl. destruct c as [m st]. cbn [c_map with_map] in Hl. destruct o as [s|b|]; cbn [handle c_map c_startup].
  - rewrite Hl. reflexivity.
  - rewrite update_absent by exact Hl. reflexivity.
  - rewrite remove_absent by exact Hl. reflexivity.
Qed.

Lemma view_none_lookup i c : view_of i c = None -> lookup i (c_map c) = None.
Proof. unfold view_of. destruct (lookup i (c_map c)); [discriminate|reflexivity]. Qed.

Lemma src_view_none_stays os : (forall o, In o os -> o <> None) -> fold_left src_step os None = None.
Proof.
  induction os as [|o r IH]; intros H; [reflexivity|].
  cbn [fold_left]. destruct o as [[s|b|]|]; cbn [src_step].
  - apply IH. intros x Hx. apply H. right. exact Hx.
  - apply IH. intros x Hx. apply H. right. exact Hx.
  - apply IH. intros x Hx. apply H. right. exact Hx.
  - exfalso. apply (H None); [left; reflexivity|reflexivity].
Qed.

Lemma fold_src_step_app os1 os2 v :
  fold_left src_step (os1 ++ os2) v = fold_left src_step os2 (fold_left src_step os1 v).
Proof. apply fold_left_app. Qed.

(* a message of a source that is not registered (never added, or removed and not added again)
   changes nothing and emits nothing *)
Lemma ignored_when_unregistered W tr i o :
  src_view (ops_of i tr) = None ->
  handle W (state_after W tr) (i, Some o) = (state_after W tr, out0).
Proof.
  intros Hv. apply handle_unregistered. apply view_none_lookup. rewrite view_state_after. exact Hv.
Qed.

Lemma ignored_after_removal W tr1 tr2 i o :
  (forall ev, In ev tr2 -> ev <> (i, None)) ->
  handle W (state_after W (tr1 ++ (i, Some DropSrc) :: tr2)) (i, Some o)
  = (state_after W (tr1 ++ (i, Some DropSrc) :: tr2), out0).
Proof.
  intros Hno. apply ignored_when_unregistered.
  rewrite ops_of_app, ops_of_cons. cbn [fst snd]. rewrite Z.eqb_refl.
  unfold src_view. rewrite fold_src_step_app. cbn [fold_left src_step].
  apply src_view_none_stays. intros x Hx Hnone. subst x.
  unfold ops_of in Hx. apply in_map_iff in Hx. destruct Hx as ([j y] & Hy & Hin).
  cbn [snd] in Hy. subst y. apply filter_In in Hin. destruct Hin as [Hin Hj]. cbn [fst] in Hj.
  apply Z.eqb_eq in Hj. subst j. apply (Hno _ Hin). reflexivity.
Qed.

(* ---------------------------------------------------------------- per-source order *)
(* the log of snapshots the controller stores: (source, serial) in the order they are stored *)
Fixpoint stored_log (W : world) (c : ctl) (tr : list event) : list (Z * Z) :=
  match tr with
  | [] => []
  | ev :: r =>
      let here := match ev with
                  | (i, Some (Measure s)) =>
                      match lookup i (c_map c) with Some _ => [(i, snap_serial s)] | None => [] end
                  | _ => []
                  end in
      here ++ stored_log W (fst (handle W c ev)) r
  end.

(* per source: which of its measurements are accepted, from its own events *)
Fixpoint accepted (v : view) (os : list (option op)) : list Z :=
  match os with
  | [] => []
  | o :: r =>
      match o, v with
      | Some (Measure s), Some _ => [snap_serial s]
      | _, _ => []
      end ++ accepted (src_step v o) r
  end.

Fixpoint measures (sc : list op) : list Z :=
  match sc with
  | [] => []
  | Measure s :: r => snap_serial s :: measures r
  | _ :: r => measures r
  end.

Lemma stored_log_proj W j tr : forall c,
  map snd (filter (fun p => fst p =? j) (stored_log W c tr)) = accepted (view_of j c) (ops_of j tr).
Proof.
  induction tr as [|[i o] r IH]; intros c; [reflexivity|].
  cbn [stored_log]. rewrite filter_app, map_app, IH, ops_of_cons. cbn [fst snd].
  rewrite (view_handle W c i o j).
  destruct (Z.eqb_spec i j) as [->|Hne].
  - cbn [accepted]. f_equal.
    destruct o as [[s|b|]|]; try reflexivity.
    unfold view_of. destruct (lookup j (c_map c)); cbn; [rewrite Z.eqb_refl|]; reflexivity.
  - replace (map snd (filter _ _)) with (@nil Z); [reflexivity|].
    destruct o as [[s|b|]|]; try reflexivity.
    destruct (lookup i (c_map c)); [|reflexivity]. cbn.
    destruct (Z.eqb_spec i j); [contradiction|reflexivity].
Qed.

Lemma script_ok_tail x r : script_ok (x :: r) -> script_ok r.
Proof. intros H a b Hr. apply (H (x :: a) b). rewrite Hr. reflexivity. Qed.

Lemma accepted_script sc : script_ok sc -> forall e,
  accepted (Some e) (map Some sc) = measures sc.
Proof.
  induction sc as [|x r IH]; intros Hok e; [reflexivity|].
  pose proof (script_ok_tail x r Hok) as Hr.
  destruct x as [s|b|]; cbn [map accepted measures src_step app].
  - destruct e as [sn u]. f_equal. apply IH. exact Hr.
  - destruct e as [sn u]. apply IH. exact Hr.
  - assert (r = []) by (apply (Hok [] r); reflexivity). subst r. reflexivity.
Qed.

(* in every interleaving, the snapshots the controller stores for source j are exactly the
   measurements of j's script, in the order the source produced them *)
Lemma per_source_order W scripts tr j sc :
  interleaving scripts tr -> scripts j = Some sc -> script_ok sc ->
  map snd (filter (fun p => fst p =? j) (stored_log W ctl_init tr)) = measures sc.
Proof.
  intros Hint Hs Hok. rewrite stored_log_proj. rewrite (Hint j), Hs.
  unfold task_events. cbn [accepted src_step app]. apply accepted_script. exact Hok.
Qed.

(* ---------------------------------------------------------------- the timer path *)
(* only the consensus branch returns next_update = Some: it is the start of a slew, which needs
   desired_freq == 0 before and leaves it non-zero *)
Lemma next_update_needs_selection W c ev c' o :
  handle W c ev = (c', o) -> o_next o = true ->
  exists L sel, select_input c ev = Some L /\ w_select W L = sel /\ sel <> [] /\
                o_used o = Some (map snap_id sel) /\ In 5 (o_clock o) /\
                c_slew c = false /\ c_slew c' = true.
Proof.
  intros Hh Hn. destruct ev as [j [[s|b|]|]]; cbn [handle] in Hh;
    try (inversion Hh; subst o; cbn in Hn; discriminate).
  cbn [select_input]. destruct (lookup j (c_map c)); [|inversion Hh; subst o; cbn in Hn; discriminate].
  unfold update_clock in Hh. cbn [c_map c_startup c_slew c_nsteer with_map] in Hh.
  destruct (existsb _ _); [inversion Hh; subst o; cbn in Hn; discriminate|].
  destruct (w_select W _) as [|x r] eqn:Hsel; inversion Hh; subst o c'; [cbn in Hn; discriminate|].
  cbn [o_next o_used o_clock c_slew] in *. clear Hh.
  eexists. eexists. split; [reflexivity|]. split; [exact Hsel|]. split; [discriminate|]. split; [reflexivity|].
  unfold steer in *. destruct (c_slew c); cbn [negb andb] in *.
  - destruct (wi_freq _); cbn in Hn; discriminate.
  - destruct (wi_offset _); cbn [andb] in *.
    + destruct (wi_big _); cbn in Hn; [discriminate|]. cbn [fst snd]. split; [|split; reflexivity].
      apply in_or_app. right. left. reflexivity.
    + destruct (wi_freq _); cbn in Hn; discriminate.
Qed.

(* a handled message never ends a slew *)
Lemma handle_slew_kept W c ev : c_slew c = true -> c_slew (fst (handle W c ev)) = true.
Proof.
  intros Hs. destruct ev as [j [[s|b|]|]]; cbn [handle]; try exact Hs.
  destruct (lookup j (c_map c)); [|exact Hs].
  unfold update_clock. cbn [c_map c_startup c_slew c_nsteer with_map].
  destruct (existsb _ _); [exact Hs|].
  destruct (w_select W _); [exact Hs|]. cbn [fst c_slew]. unfold steer. rewrite Hs. cbn [negb andb].
  destruct (wi_freq _); reflexivity.
Qed.

Lemma trun_from_app W tr1 : forall s tr2,
  fst (trun_from W s (tr1 ++ tr2)) = fst (trun_from W (fst (trun_from W s tr1)) tr2).
Proof.
  induction tr1 as [|te r IH]; intros s tr2; [reflexivity|].
  cbn [app trun_from]. destruct (thandle W s te) as [s1 o] eqn:Hh.
  specialize (IH s1 tr2).
  destruct (trun_from W s1 (r ++ tr2)) as [s2 os]. destruct (trun_from W s1 r) as [s3 os3].
  cbn [fst] in *. exact IH.
Qed.

Lemma tstate_after_snoc W tr te :
  tstate_after W (tr ++ [te]) = fst (thandle W (tstate_after W tr) te).
Proof.
  unfold tstate_after. rewrite trun_from_app. cbn [trun_from].
  destruct (thandle W _ te). reflexivity.
Qed.

(* an enabled sleeper means a slew is in progress *)
Lemma timer_means_slew W tr :
  l_timer (tstate_after W tr) = true -> c_slew (l_ctl (tstate_after W tr)) = true.
Proof.
  induction tr as [|te tr IH] using rev_ind; [discriminate|].
  rewrite tstate_after_snoc. destruct te as [ev|]; cbn [thandle].
  - cbn [fst l_timer l_ctl]. intros Ht. apply orb_true_iff in Ht. destruct Ht as [Ht|Hn].
    + apply handle_slew_kept. apply IH. exact Ht.
    + destruct (handle W (l_ctl (tstate_after W tr)) ev) as [c' o] eqn:Hh. cbn [fst snd] in *.
      destruct (next_update_needs_selection W _ _ _ _ Hh Hn) as (L & sel & _ & _ & _ & _ & _ & _ & Hs).
      exact Hs.
  - destruct (l_timer (tstate_after W tr)) eqn:Ht; cbn [fst l_timer]; [discriminate|].
    intros H. rewrite Ht in H. discriminate.
Qed.

(* an enabled sleeper was armed by a message of the schedule, and has not fired since *)
Lemma timer_armed_by W tr :
  l_timer (tstate_after W tr) = true ->
  exists pre ev post, tr = pre ++ Msg ev :: post /\ (forall x, In x post -> x <> TimeUpdate) /\
                      o_next (snd (handle W (l_ctl (tstate_after W pre)) ev)) = true.
Proof.
  induction tr as [|te tr IH] using rev_ind; [discriminate|].
  rewrite tstate_after_snoc. destruct te as [ev|]; cbn [thandle].
  - cbn [fst l_timer]. intros Ht. destruct (o_next (snd (handle W (l_ctl (tstate_after W tr)) ev))) eqn:Hn.
    + exists tr, ev, []. split; [reflexivity|]. split; [intros x []|exact Hn].
    + rewrite orb_false_r in Ht. destruct (IH Ht) as (pre & ev0 & post & -> & Hno & Harm).
      exists pre, ev0, (post ++ [Msg ev]). split; [rewrite <- app_assoc; reflexivity|]. split; [|exact Harm].
      intros x Hx. apply in_app_or in Hx. destruct Hx as [Hx|[<-|[]]]; [apply Hno; exact Hx|discriminate].
  - destruct (l_timer (tstate_after W tr)) eqn:Ht; cbn [fst l_timer]; [discriminate|].
    intros H. rewrite Ht in H. discriminate.
Qed.

(* every clock call of the loop: a message handled on a non-empty selection, or the timer expiry
   that ends the slew started by such a message *)
Theorem clock_calls_consensus_or_slew_end W pre te s' o :
  thandle W (tstate_after W pre) te = (s', o) -> o_clock o <> [] ->
  (exists ev L sel, te = Msg ev /\ select_input (l_ctl (tstate_after W pre)) ev = Some L /\
                    w_select W L = sel /\ sel <> [] /\ o_used o = Some (map snap_id sel))
  \/
  (te = TimeUpdate /\ o_clock o = [5] /\ o_used o = None /\ o_next o = false /\
   c_slew (l_ctl (tstate_after W pre)) = true /\ c_slew (l_ctl s') = false /\ l_timer s' = false /\
   exists pre1 ev post L sel c1 o1,
     pre = pre1 ++ Msg ev :: post /\ (forall x, In x post -> x <> TimeUpdate) /\
     select_input (l_ctl (tstate_after W pre1)) ev = Some L /\ w_select W L = sel /\ sel <> [] /\
     handle W (l_ctl (tstate_after W pre1)) ev = (c1, o1) /\
     o_used o1 = Some (map snap_id sel) /\ o_next o1 = true /\ In 5 (o_clock o1) /\
     c_slew (l_ctl (tstate_after W pre1)) = false /\ c_slew c1 = true).
Proof.
  intros Hh Hc. destruct te as [ev|]; cbn [thandle] in Hh.
  - left. destruct (handle W (l_ctl (tstate_after W pre)) ev) as [c' o'] eqn:Hhe. cbn [fst snd] in Hh.
    inversion Hh; subst o' s'. clear Hh.
    destruct (clock_calls_need_selection W _ _ _ _ Hhe Hc) as (L & sel & H1 & H2 & H3 & H4).
    exists ev, L, sel. auto.
  - right. destruct (l_timer (tstate_after W pre)) eqn:Ht; [|inversion Hh; subst o; cbn in Hc; contradiction].
    cbn [time_update fst snd o_next] in Hh. inversion Hh; subst o s'. clear Hh.
    split; [reflexivity|]. split; [reflexivity|]. split; [reflexivity|]. split; [reflexivity|].
    split; [apply timer_means_slew; exact Ht|]. split; [reflexivity|]. split; [reflexivity|].
    destruct (timer_armed_by W pre Ht) as (pre1 & ev & post & Hpre & Hno & Harm).
    destruct (handle W (l_ctl (tstate_after W pre1)) ev) as [c1 o1] eqn:Hhe. cbn [snd] in Harm.
    destruct (next_update_needs_selection W _ _ _ _ Hhe Harm) as (L & sel & H1 & H2 & H3 & H4 & H5 & H6 & H7).
    exists pre1, ev, post, L, sel, c1, o1. repeat (split; [assumption|]). assumption.
Qed.

(* the local form: what one step of the loop can do to the clock *)
Lemma thandle_calls W s te s' o :
  thandle W s te = (s', o) -> o_clock o <> [] ->
  (exists ev L sel, te = Msg ev /\ select_input (l_ctl s) ev = Some L /\ w_select W L = sel /\ sel <> [] /\
                    o_used o = Some (map snap_id sel))
  \/ (te = TimeUpdate /\ l_timer s = true /\ o_clock o = [5] /\ o_used o = None /\ l_timer s' = false).
Proof.
  intros Hh Hc. destruct te as [ev|]; cbn [thandle] in Hh.
  - left. destruct (handle W (l_ctl s) ev) as [c' o'] eqn:Hhe. cbn [fst snd] in Hh.
    inversion Hh; subst o' s'. clear Hh.
    destruct (clock_calls_need_selection W _ _ _ _ Hhe Hc) as (L & sel & H1 & H2 & H3 & H4).
    exists ev, L, sel. auto.
  - right. destruct (l_timer s) eqn:Ht; [|inversion Hh; subst o; cbn in Hc; contradiction].
    cbn [time_update fst snd o_next] in Hh. inversion Hh; subst o s'. auto.
Qed.

(* ---------------------------------------------------------------- timer expiries and the source map *)
(* the map after handling a message depends on the map only *)
Lemma handle_map_only W c1 c2 ev :
  c_map c1 = c_map c2 -> c_map (fst (handle W c1 ev)) = c_map (fst (handle W c2 ev)).
Proof.
  intros H. destruct ev as [j [[s|b|]|]]; cbn [handle fst c_map with_map]; rewrite ?H; try reflexivity.
  destruct (lookup j (c_map c2)); [|exact H].
  unfold update_clock. cbn [c_map c_startup c_slew c_nsteer with_map]. rewrite ?H.
  destruct (existsb _ _); [cbn [fst c_map with_map]; rewrite ?H; reflexivity|].
  destruct (w_select W _); reflexivity.
Qed.

Lemma trun_map W tr : forall s c,
  c_map (l_ctl s) = c_map c ->
  c_map (l_ctl (fst (trun_from W s tr))) = c_map (fst (run_from W c (msgs tr))).
Proof.
  induction tr as [|te r IH]; intros s c H; [exact H|].
  cbn [trun_from]. destruct (thandle W s te) as [s1 o] eqn:Hh.
  destruct te as [ev|]; cbn [thandle] in Hh.
  - change (msgs (Msg ev :: r)) with (ev :: msgs r). cbn [run_from].
    destruct (handle W c ev) as [c1 o1] eqn:Hc.
    pose proof (handle_map_only W (l_ctl s) c ev H) as Hm. rewrite Hc in Hm. cbn [fst] in Hm.
    inversion Hh; subst s1 o. clear Hh.
    specialize (IH (mkL (fst (handle W (l_ctl s) ev)) (l_timer s || o_next (snd (handle W (l_ctl s) ev)))) c1 Hm).
    destruct (trun_from W _ r) as [s2 os]. destruct (run_from W c1 (msgs r)) as [c2 os2]. exact IH.
  - change (msgs (TimeUpdate :: r)) with (msgs r).
    assert (Hm : c_map (l_ctl s1) = c_map c).
    { destruct (l_timer s); inversion Hh; subst; cbn; exact H. }
    specialize (IH s1 c Hm). destruct (trun_from W s1 r) as [s2 os]. exact IH.
Qed.

(* timer expiries are invisible to the source map: it is the map of the schedule's messages *)
Lemma tstate_map W tr : c_map (l_ctl (tstate_after W tr)) = c_map (state_after W (msgs tr)).
Proof. unfold tstate_after, state_after. apply trun_map. reflexivity. Qed.

Lemma select_input_map_only c1 c2 ev : c_map c1 = c_map c2 -> select_input c1 ev = select_input c2 ev.
Proof. intros H. destruct ev as [j [[s|b|]|]]; cbn [select_input]; rewrite ?H; reflexivity. Qed.

Lemma view_tstate_after W j tr : view_of j (l_ctl (tstate_after W tr)) = src_view (ops_of j (msgs tr)).
Proof. rewrite view_of_m, tstate_map, <- view_of_m. apply view_state_after. Qed.

Lemma msgs_app a b : msgs (a ++ b) = msgs a ++ msgs b.
Proof. unfold msgs. apply flat_map_app. Qed.

Lemma select_input_spec_timed W pre ev L :
  select_input (l_ctl (tstate_after W pre)) ev = Some L ->
  forall k, In k (map snap_core L) <-> exists j, src_view (ops_of j (msgs (pre ++ [Msg ev]))) = Some (Some k, true).
Proof.
  intros Hsi. rewrite (select_input_map_only _ (state_after W (msgs pre)) ev (tstate_map W pre)) in Hsi.
  rewrite msgs_app. change (msgs [Msg ev]) with [ev]. apply (select_input_spec W (msgs pre) ev L Hsi).
Qed.
