(* Proofs about the reach register / reset decision of Model/SrcCore.v (C11) *)
From V Require Import Model.SrcCore Model.SrcSpec Proofs.CookieStash Proofs.SrcCore.
From V Require Import Gen.ConstSource.
From Coq Require Import Arith PeanoNat ZifyBool.
Ltac Zify.zify_post_hook ::= Z.div_mod_to_equations.

(* census of the code sites that touch the modelled fields (constants translator):
   one shift, one set-bit (+1 in a unit test), two writes of the deny flag *)
Lemma reach_site_census :
  N_REACH_POLL_CALLS = 1 /\ N_REACH_RECEIVED_CALLS = 2 /\ N_DENY_FLAG_WRITES = 2.
Proof. repeat split. Qed.

(* ---------- the register as a window of the record ---------- *)
Lemma bits_range : forall n h, 0 <= bits n h < 2 ^ Z.of_nat n.
Proof.
  induction n; intros h; [simpl; lia|].
  destruct h as [|b t]; [simpl bits; split; [lia|apply Z.pow_pos_nonneg; lia]|].
  cbn [bits]. rewrite Nat2Z.inj_succ, Z.pow_succ_r by lia.
  specialize (IHn t). destruct b; lia.
Qed.

Lemma bits_mod : forall n h, bits (S n) h mod 2 ^ Z.of_nat n = bits n h.
Proof.
  induction n; intros h.
  - simpl. rewrite Z.mod_1_r. destruct h; reflexivity.
  - destruct h as [|b t]; [reflexivity|].
    change (bits (S (S n)) (b :: t)) with ((if b then 1 else 0) + 2 * bits (S n) t).
    change (bits (S n) (b :: t)) with ((if b then 1 else 0) + 2 * bits n t).
    rewrite <- (IHn t). rewrite Nat2Z.inj_succ, Z.pow_succ_r by lia.
    pose proof (bits_range (S n) t) as [Hx _].
    assert (0 < 2 ^ Z.of_nat n) by (apply Z.pow_pos_nonneg; lia).
    destruct b.
    + replace (1 + 2 * bits (S n) t) with (2 * bits (S n) t + 1) by lia.
      rewrite Z.add_mul_mod_distr_l by lia. lia.
    + replace (0 + 2 * bits (S n) t) with (2 * bits (S n) t + 0) by lia.
      rewrite Z.add_mul_mod_distr_l by lia. lia.
Qed.

(* reach.poll(): shifting the register = recording a new, unanswered attempt *)
Lemma bits_shift : forall h, (bits 8 h * 2) mod 256 = bits 8 (false :: h).
Proof.
  intros. change (bits 8 (false :: h)) with (0 + 2 * bits 7 h).
  rewrite <- (bits_mod 7 h). change (2 ^ Z.of_nat 7) with 128.
  pose proof (bits_range 8 h). lia.
Qed.

(* received_packet(): setting bit 0 = marking the newest attempt answered *)
Lemma bits_set : forall b t, Z.lor (bits 8 (b :: t)) 1 = bits 8 (true :: t).
Proof.
  intros. rewrite lor1_val by (apply (bits_range 8)).
  change (bits 8 (b :: t)) with ((if b then 1 else 0) + 2 * bits 7 t).
  change (bits 8 (true :: t)) with (1 + 2 * bits 7 t).
  destruct b; lia.
Qed.

Lemma bits_zero_iff : forall n h, bits n h = 0 <-> none_answered n h.
Proof.
  unfold none_answered. induction n; intros h.
  - simpl. split; auto. intros _ i Hi. lia.
  - destruct h as [|b t].
    + simpl. split; auto. intros _ i _. destruct i; reflexivity.
    + cbn [bits]. pose proof (bits_range n t) as Hrg. split.
      * intros H i Hi. destruct b; [lia|]. destruct i; [reflexivity|].
        simpl. apply IHn; lia.
      * intros H. pose proof (H 0%nat ltac:(lia)) as H0. simpl in H0. subst b.
        assert (bits n t = 0); [|lia]. apply IHn. intros i Hi. apply (H (S i)). lia.
Qed.

Lemma tz_zero : forall n, tz n 0 = Z.of_nat n.
Proof. induction n; [reflexivity|]. cbn [tz]. change (Z.odd 0) with false. cbn iota. change (0 / 2) with 0. lia. Qed.

Lemma tz_bits : forall n h,
  tz n (bits n h) = match since_last h with Some k => Z.min (Z.of_nat n) k | None => Z.of_nat n end.
Proof.
  induction n; intros h.
  - simpl. destruct (since_last h) as [k|] eqn:E; auto.
    assert (0 <= k); [|lia]. clear - E. revert k E. induction h as [|b t]; simpl; intros; [discriminate|].
    destruct b; [inversion E; lia|]. destruct (since_last t); simpl in E; [|discriminate].
    inversion E. specialize (IHt z eq_refl). lia.
  - destruct h as [|b t].
    + apply tz_zero.
    + cbn [bits since_last]. destruct b.
      * cbn [tz]. replace (Z.odd (1 + 2 * bits n t)) with true.
        -- lia.
        -- symmetry. rewrite Z.odd_add_mul_2. reflexivity.
      * cbn [tz]. replace (Z.odd (0 + 2 * bits n t)) with false.
        -- replace ((0 + 2 * bits n t) / 2) with (bits n t) by lia.
           rewrite IHn. destruct (since_last t); cbn [option_map]; lia.
        -- symmetry. rewrite Z.odd_add_mul_2. reflexivity.
Qed.

Lemma bits_testbit : forall n h i, (i < n)%nat ->
  Z.testbit (bits n h) (Z.of_nat i) = nth i h false.
Proof.
  induction n; intros h i Hi; [lia|].
  destruct h as [|b t]; [change (bits (S n) []) with 0; rewrite Z.testbit_0_l; destruct i; reflexivity|].
  cbn [bits]. replace ((if b then 1 else 0) + 2 * bits n t) with (2 * bits n t + Z.b2z b)
    by (destruct b; cbn [Z.b2z]; lia).
  destruct i as [|i].
  - simpl Z.of_nat. rewrite Z.testbit_0_r. reflexivity.
  - rewrite Nat2Z.inj_succ, Z.testbit_succ_r by lia. simpl nth. apply IHn. lia.
Qed.

Section ReachProofs.
Context {C : Type}.
Variable dflt : C.
Variable clen : C -> Z.

Notation src := (src C).
Notation event := (event C).
Notation action := (action C).
Notation step := (step dflt clen).
Notation run := (run dflt clen).
Notation final := (final dflt clen).
Notation handle_timer := (handle_timer dflt clen).
Notation hist_run := (hist_run dflt clen).

(* ---------- the abstraction invariant ---------- *)
Definition reach_abs (h : list bool) (st : src) : Prop :=
  reach st = bits 8 h /\ tries st = Z.min (Z.of_nat (length h)) usize_max /\
  (pending st = true -> h <> []).

Lemma reach_abs_new : forall b, reach_abs [] (src_new dflt b).
Proof. intros. unfold reach_abs, src_new; cbn [reach tries pending]. repeat split; try discriminate. Qed.

Lemma timer_fields : forall st, reset_due st = false ->
  reach (snd (handle_timer st)) = (reach st * 2) mod 256 /\
  tries (snd (handle_timer st)) = Z.min (tries st + 1) usize_max /\
  deny (snd (handle_timer st)) = deny st /\
  (pending (snd (handle_timer st)) = true -> True).
Proof.
  intros st Hd. unfold SrcCore.handle_timer. rewrite Hd.
  destruct (nts st) as [s|]; [|cbn; auto].
  destruct (get dflt s) as [[c|] s']; [|cbn; auto].
  match goal with |- context [if ?b then _ else _] => destruct b end; cbn; auto.
Qed.

Lemma reach_abs_step : forall h st e, reach_abs h st ->
  reach_abs (hist_step h st e) (snd (step st e)).
Proof.
  intros h st e Ha. pose proof Ha as (Hr & Ht & Hp). destruct e; cbn [step hist_step].
  - destruct (reset_due st) eqn:Hd.
    + unfold SrcCore.handle_timer. rewrite Hd. cbn [snd]. exact Ha.
    + destruct (timer_fields st Hd) as (E1 & E2 & _).
      unfold reach_abs. rewrite E1, E2, Hr, Ht. split; [apply bits_shift|]. split; [|discriminate].
      cbn [length]. unfold usize_max. lia.
  - unfold handle_usable. destruct (pending st) eqn:Ep; [|exact Ha].
    destruct h as [|b t]; [exfalso; apply Hp; auto|].
    unfold reach_abs; cbn [snd reach tries pending]. rewrite Hr. split; [apply bits_set|].
    split; [exact Ht|discriminate].
  - unfold handle_deny. destruct (pending st) eqn:Ep; [|exact Ha].
    destruct (nts st); [exact Ha|]. unfold reach_abs; cbn [snd reach tries pending]. auto.
  - exact Ha.
  - unfold reach_abs; cbn [snd reach tries pending]. auto.
Qed.

Lemma hist_run_cons : forall h st e r,
  hist_run h st (e :: r) = hist_run (hist_step h st e) (snd (step st e)) r.
Proof. reflexivity. Qed.

Lemma reach_abs_run : forall evs h st, reach_abs h st ->
  reach_abs (hist_run h st evs) (final st evs).
Proof.
  induction evs as [|e r IH]; intros h st H; [exact H|].
  rewrite hist_run_cons, final_cons. apply IH. apply reach_abs_step. exact H.
Qed.

(* C11_reach_abs / C11_unanswered on every reachable state *)
Theorem reach_is_record : forall evs b,
  let st := final (src_new dflt b) evs in
  let h := hist_run [] (src_new dflt b) evs in
  reach st = bits 8 h /\
  tries st = Z.min (Z.of_nat (length h)) usize_max /\
  unanswered_polls st = match since_last h with Some k => Z.min 8 k | None => 8 end.
Proof.
  intros. destruct (reach_abs_run evs [] _ (reach_abs_new b)) as (Hr & Ht & _).
  fold st h in Hr, Ht. repeat split; auto.
  unfold unanswered_polls, tz8. rewrite Hr. apply (tz_bits 8).
Qed.

(* ---------- when is the reset due ---------- *)
Lemma reset_due_record : forall h st, reach_abs h st ->
  (reset_due st = true <-> (3 <= length h)%nat /\ none_answered 8 h).
Proof.
  intros h st (Hr & Ht & _). unfold reset_due, STARTUP_TRIES_THRESHOLD.
  rewrite <- (bits_zero_iff 8 h), <- Hr. unfold usize_max in Ht. split.
  - intros H. apply andb_prop in H. destruct H as [H1 H2]. split; lia.
  - intros [H1 H2]. apply andb_true_intro. split; lia.
Qed.

(* records that can arise: a fourth attempt is only made after an answer *)
Definition hist_ok (h : list bool) : Prop := (length h <= 3)%nat \/ In true h.

Lemma none_answered_no_true : forall h, none_answered (length h) h -> ~ In true h.
Proof.
  unfold none_answered. intros h H Hin. apply In_nth with (d := false) in Hin.
  destruct Hin as (i & Hi & E). rewrite H in E by auto. discriminate.
Qed.

Lemma hist_ok_step : forall h st e, reach_abs h st -> hist_ok h -> hist_ok (hist_step h st e).
Proof.
  intros h st e Ha Hk. destruct e; cbn [hist_step]; auto.
  - destruct (reset_due st) eqn:Hd; auto.
    assert (~ ((3 <= length h)%nat /\ none_answered 8 h)) as Hn.
    { intro X. apply (reset_due_record h st Ha) in X. congruence. }
    destruct (Nat.le_gt_cases 3 (length h)) as [H3|H3].
    + right. right. destruct Hk as [Hk|Hk]; auto.
      (* length exactly 3 and not all unanswered *)
      destruct (in_dec Bool.bool_dec true h) as [Hin|Hnin]; auto. exfalso. apply Hn. split; auto.
      intros i _. destruct (nth_in_or_default i h false) as [Hi|Hi]; auto.
      destruct (nth i h false) eqn:E; auto. exfalso. apply Hnin. exact Hi.
    + left. simpl. lia.
  - destruct (pending st); auto. destruct h as [|b t]; auto. right. left. reflexivity.
Qed.

Lemma hist_ok_run : forall evs h st, reach_abs h st -> hist_ok h -> hist_ok (hist_run h st evs).
Proof.
  induction evs as [|e r IH]; intros h st Ha Hk; [exact Hk|].
  rewrite hist_run_cons. apply IH; [apply reach_abs_step; auto|apply hist_ok_step; auto].
Qed.

(* C11_reset_conditions *)
Theorem reset_due_iff : forall evs b,
  let st := final (src_new dflt b) evs in
  let h := hist_run [] (src_new dflt b) evs in
  (reset_due st = true <-> (3 <= length h)%nat /\ none_answered 8 h) /\
  ((3 <= length h)%nat /\ none_answered 8 h <->
   h = [false; false; false] \/ ((8 <= length h)%nat /\ none_answered 8 h)).
Proof.
  intros. pose proof (reach_abs_run evs [] _ (reach_abs_new b)) as Ha. fold st h in Ha.
  assert (hist_ok h) as Hk by (apply hist_ok_run; [apply reach_abs_new|left; simpl; lia]).
  split; [apply reset_due_record; auto|]. split.
  - intros [H3 Hn]. destruct (Nat.le_gt_cases 8 (length h)) as [H8|H8]; [right; auto|]. left.
    assert (~ In true h) as Hnt.
    { apply none_answered_no_true. intros i Hi. apply Hn. lia. }
    destruct Hk as [Hk|Hk]; [|contradiction].
    destruct h as [|a [|b0 [|c [|d t]]]]; simpl in *; try lia.
    pose proof (Hn 0%nat ltac:(lia)). pose proof (Hn 1%nat ltac:(lia)). pose proof (Hn 2%nat ltac:(lia)).
    simpl in *. subst. reflexivity.
  - intros [E|[H8 Hn]]; [rewrite E; split; [simpl; lia|]|split; [lia|auto]].
    intros i _. destruct i as [|[|[|[|i]]]]; reflexivity.
Qed.

(* ---------- what a due reset does (C11_reset) ---------- *)
Theorem reset_action : forall st, reset_due st = true ->
  handle_timer st = ((if deny st then [Demobilize] else [Reset]), st).
Proof. intros st H. unfold SrcCore.handle_timer. rewrite H. reflexivity. Qed.

Lemma reset_due_kept : forall st e, reset_due st = true ->
  match e with Usable _ => False | _ => True end ->
  reset_due (snd (step st e)) = true.
Proof.
  intros st e Hd He. destruct e; cbn [step]; try contradiction; auto.
  - rewrite reset_action by auto. exact Hd.
  - unfold handle_deny. destruct (pending st); auto. destruct (nts st); auto.
Qed.

(* nothing further is sent: until a usable answer arrives every timer gives
   the single action Reset or Demobilize and no request *)
Theorem reset_silent : forall evs st, reset_due st = true -> no_usable evs ->
  forall o, In o (run st evs) ->
    forallb is_send (fst o) = false \/ fst o = [] .
Proof.
  induction evs as [|e r IH]; intros st Hd Hn o Ho; [destruct Ho|].
  rewrite run_cons in Ho. destruct Ho as [<-|Ho].
  - cbn [fst]. assert (match e with Usable _ => False | _ => True end) as He by (apply Hn; left; auto).
    destruct e; try contradiction; cbn [step]; auto.
    + rewrite reset_action by auto. left. cbn [fst]. destruct (deny st); reflexivity.
    + unfold handle_deny. destruct (pending st); auto. destruct (nts st); auto.
  - apply (IH (snd (step st e))); [apply reset_due_kept; auto; apply Hn; left; auto
                                 |intros x Hx; apply Hn; right; auto|exact Ho].
Qed.

Theorem reset_silent_timer : forall evs st, reset_due st = true -> no_usable evs ->
  forall a s', In (a, s') (run st evs) -> a = [] \/ a = [Reset] \/ a = [Demobilize].
Proof.
  induction evs as [|e r IH]; intros st Hd Hn a s' Ho; [destruct Ho|].
  rewrite run_cons in Ho. destruct Ho as [E|Ho].
  - inversion E; subst. assert (match e with Usable _ => False | _ => True end) as He by (apply Hn; left; auto).
    destruct e; try contradiction; cbn [step]; auto.
    + rewrite reset_action by auto. cbn [fst]. destruct (deny st); auto.
    + unfold handle_deny. destruct (pending st); auto. destruct (nts st); auto.
  - apply (IH (snd (step st e))) with (s' := s'); [apply reset_due_kept; auto; apply Hn; left; auto
                                 |intros x Hx; apply Hn; right; auto|exact Ho].
Qed.

(* a reset / demobilise action at a timer happens exactly when the reset is due
   (plain sources; NTS sources additionally reset when they run out of cookies) *)
Theorem timer_resets_iff_due : forall st, nts st = None ->
  (existsb is_reset (fst (handle_timer st)) = true <-> reset_due st = true) /\
  (reset_due st = false -> fst (handle_timer st) = [SendPlain]).
Proof.
  intros st En. unfold SrcCore.handle_timer. rewrite En. destruct (reset_due st); cbn [fst].
  - split; [|discriminate]. destruct (deny st); simpl; tauto.
  - split; auto. simpl. split; discriminate.
Qed.

Lemma plain_final : forall evs, nts (final (src_new dflt false) evs) = None.
Proof.
  intros e. generalize (src_new dflt false) (eq_refl : nts (src_new dflt false) = None).
  induction e as [|x r IH]; intros st Hs; auto. rewrite final_cons. apply IH.
  destruct x; cbn [step]; auto.
  - unfold SrcCore.handle_timer. destruct (reset_due st); auto. rewrite Hs. reflexivity.
  - unfold handle_usable. destruct (pending st); auto. cbn. rewrite Hs. reflexivity.
  - unfold handle_deny. destruct (pending st); auto. rewrite Hs. reflexivity.
  - cbn. rewrite Hs. reflexivity.
Qed.

(* plain source, any history: the next timer resets/demobilises iff at least three
   attempts were made and none of the last eight was answered; otherwise it polls *)
Theorem plain_timer_reset_iff : forall evs,
  let st := final (src_new dflt false) evs in
  let h := hist_run [] (src_new dflt false) evs in
  (fst (handle_timer st) = (if deny st then [Demobilize] else [Reset]) /\ snd (handle_timer st) = st
   <-> (3 <= length h)%nat /\ none_answered 8 h) /\
  (~ ((3 <= length h)%nat /\ none_answered 8 h) -> fst (handle_timer st) = [SendPlain]).
Proof.
  intros. destruct (reset_due_iff evs false) as [H1 _]. fold st h in H1.
  pose proof (plain_final evs) as Hs. fold st in Hs.
  destruct (timer_resets_iff_due st Hs) as [H2 H3]. split.
  - rewrite <- H1. split.
    + intros [Ha _]. apply H2. rewrite Ha. destruct (deny st); reflexivity.
    + intros Hd. rewrite reset_action by auto. auto.
  - intros Hn. apply H3. destruct (reset_due st); auto. exfalso. apply Hn. apply H1. reflexivity.
Qed.

(* ---------- the deny flag ---------- *)
(* for a plain source the flag says: an (unauthenticated) DENY/RSTR answer to the
   outstanding request was seen and no usable answer since *)
Lemma deny_pending : forall evs b,
  deny (final (src_new dflt b) evs) = true -> pending (final (src_new dflt b) evs) = true.
Proof.
  intros evs b. set (st0 := src_new dflt b).
  assert (deny st0 = true -> pending st0 = true) as H0 by (unfold st0, src_new; cbn; discriminate).
  clearbody st0. revert st0 H0. induction evs as [|e r IH]; intros st H0; [exact H0|].
  rewrite final_cons. apply IH. clear IH. destruct e; cbn [step]; auto.
  - unfold SrcCore.handle_timer. destruct (reset_due st); auto.
    destruct (nts st) as [s|]; [|cbn; auto].
    destruct (get dflt s) as [[c|] s']; [|cbn; auto].
    match goal with |- context [if ?b then _ else _] => destruct b end; cbn; auto.
  - unfold handle_usable. destruct (pending st) eqn:Ep; [cbn; intros X; discriminate X|cbn [snd]; rewrite Ep; exact H0].
  - unfold handle_deny. destruct (pending st) eqn:Ep.
    + destruct (nts st); cbn [snd pending deny]; intros; auto.
    + cbn [snd]. rewrite Ep. exact H0.
Qed.

Theorem deny_flag_iff : forall evs,
  let st0 := src_new dflt false in
  deny (final st0 evs) = true <->
  exists e1 e2, evs = e1 ++ DenyKiss :: e2 /\ pending (final st0 e1) = true /\ no_usable e2.
Proof.
  intros evs st0. assert (forall e, nts (final st0 e) = None) as Hplain.
  { intros e. unfold st0. generalize (src_new dflt false) (eq_refl : nts (src_new dflt false) = None).
    induction e as [|x r IH]; intros st Hs; auto. rewrite final_cons. apply IH.
    destruct x; cbn [step]; auto.
    - unfold SrcCore.handle_timer. destruct (reset_due st); auto. rewrite Hs. reflexivity.
    - unfold handle_usable. destruct (pending st); auto. cbn. rewrite Hs. reflexivity.
    - unfold handle_deny. destruct (pending st); auto. rewrite Hs. reflexivity.
    - cbn. rewrite Hs. reflexivity. }
  split.
  - (* -> : by induction from the right *)
    induction evs as [|e r IH] using rev_ind; intros Hd; [discriminate|].
    rewrite final_app in Hd. cbn [SrcCore.final fold_left] in Hd.
    set (st := final st0 r) in *.
    destruct e; cbn [step] in Hd.
    + (* Timer keeps the flag *)
      assert (deny st = true) as Hd'.
      { revert Hd. unfold SrcCore.handle_timer. destruct (reset_due st); auto.
        rewrite (Hplain r : nts st = None). cbn. auto. }
      destruct (IH Hd') as (e1 & e2 & -> & Hp & Hn). exists e1, (e2 ++ [Timer]). split; [rewrite <- app_assoc; reflexivity|].
      split; auto. intros x Hx. apply in_app_or in Hx. destruct Hx as [Hx|[<-|[]]]; auto. apply Hn; auto.
    + (* Usable *)
      revert Hd. unfold handle_usable. destruct (pending st) eqn:Ep; [cbn; discriminate|].
      intros Hd. pose proof (deny_pending r false Hd). unfold st in Ep. unfold st0 in *. congruence.
    + (* DenyKiss *)
      destruct (pending st) eqn:Ep.
      * exists r, []. repeat split; auto. intros x [].
      * revert Hd. unfold handle_deny. rewrite Ep. intros Hd.
        pose proof (deny_pending r false Hd). unfold st in Ep. unfold st0 in *. congruence.
    + destruct (IH Hd) as (e1 & e2 & -> & Hp & Hn). exists e1, (e2 ++ [Other]). split; [rewrite <- app_assoc; reflexivity|].
      split; auto. intros x Hx. apply in_app_or in Hx. destruct Hx as [Hx|[<-|[]]]; auto. apply Hn; auto.
    + cbn in Hd. destruct (IH Hd) as (e1 & e2 & -> & Hp & Hn). exists e1, (e2 ++ [StoreCookie c]).
      split; [rewrite <- app_assoc; reflexivity|].
      split; auto. intros x Hx. apply in_app_or in Hx. destruct Hx as [Hx|[<-|[]]]; auto. apply Hn; auto.
  - intros (e1 & e2 & -> & Hp & Hn). rewrite final_app. rewrite final_cons.
    set (st := final st0 e1) in *.
    assert (deny (snd (step st DenyKiss)) = true /\ nts (snd (step st DenyKiss)) = None) as [Hd Hs].
    { cbn [step]. unfold handle_deny. rewrite Hp, (Hplain e1 : nts st = None). cbn. auto. }
    generalize dependent (snd (step st DenyKiss)). clear - Hn.
    induction e2 as [|x r IH]; intros s Hd Hs; auto. rewrite final_cons.
    assert (match x with Usable _ => False | _ => True end) as Hx by (apply Hn; left; auto).
    apply IH; [intros y Hy; apply Hn; right; auto| |].
    + destruct x; try contradiction; cbn [step]; auto.
      * unfold SrcCore.handle_timer. destruct (reset_due s); auto. rewrite Hs. cbn. auto.
      * unfold handle_deny. destruct (pending s); auto. rewrite Hs. reflexivity.
    + destruct x; try contradiction; cbn [step]; auto.
      * unfold SrcCore.handle_timer. destruct (reset_due s); auto. rewrite Hs. reflexivity.
      * unfold handle_deny. destruct (pending s); auto. rewrite Hs. reflexivity.
      * cbn. rewrite Hs. reflexivity.
Qed.

(* ---------- a source that keeps answering is never reset ---------- *)
Theorem prompt_never_reset : forall evs,
  prompt false evs ->
  forall o, In o (run (src_new dflt false) evs) -> existsb is_reset (fst o) = false.
Proof.
  intros evs.
  set (st0 := src_new dflt false).
  assert (nts st0 = None) as Hs0 by reflexivity.
  assert (tries st0 = 0 \/ Z.odd (reach st0) = true) as H0 by (left; reflexivity).
  assert (0 <= reach st0 < 256) as Hr0 by (cbn; lia).
  clearbody st0. revert st0 Hs0 H0 Hr0.
  (* invariant: not awaiting => never polled or newest attempt answered; awaiting => request outstanding *)
  assert (forall evs (aw : bool) st, nts st = None -> 0 <= reach st < 256 ->
            (if aw then pending st = true else (tries st = 0 \/ Z.odd (reach st) = true)) ->
            prompt aw evs -> forall o, In o (run st evs) -> existsb is_reset (fst o) = false) as G.
  { clear evs. induction evs as [|e r IH]; intros aw st Hs Hr Hi Hp o Ho; [destruct Ho|].
    rewrite run_cons in Ho. destruct e; cbn [prompt] in Hp.
    - destruct Hp as [-> Hp]. 
      assert (reset_due st = false) as Hd.
      { unfold reset_due, STARTUP_TRIES_THRESHOLD. destruct Hi as [Hi|Hi]; [rewrite Hi; apply andb_false_r|].
        destruct (Z.eqb_spec (reach st) 0) as [E|E]; [rewrite E in Hi; discriminate|reflexivity]. }
      assert (step st Timer = ([SendPlain], mkSrc ((reach st * 2) mod 256) (Z.min (tries st + 1) usize_max) (deny st) true None)) as Es.
      { cbn [step]. unfold SrcCore.handle_timer. rewrite Hd, Hs. reflexivity. }
      rewrite Es in Ho. cbn [fst snd] in Ho. destruct Ho as [<-|Ho]; [reflexivity|].
      refine (IH true _ _ _ _ Hp o Ho); cbn; auto; lia.
    - assert (exists st', step st (Usable cs) = ([], st') /\ nts st' = None /\ 0 <= reach st' < 256 /\
                (tries st' = 0 \/ Z.odd (reach st') = true)) as (st' & Es & Hs' & Hr' & Hi').
      { cbn [step]. unfold handle_usable. destruct aw.
        - rewrite Hi. eexists. split; [reflexivity|]. cbn. rewrite Hs. split; auto.
          pose proof (lor1_range _ Hr). split; auto. right. rewrite lor1_val by auto.
          rewrite Z.add_comm, Z.odd_add_mul_2. reflexivity.
        - destruct (pending st).
          + eexists. split; [reflexivity|]. cbn. rewrite Hs. split; auto.
            pose proof (lor1_range _ Hr). split; auto. right. rewrite lor1_val by auto.
            rewrite Z.add_comm, Z.odd_add_mul_2. reflexivity.
          + exists st. auto. }
      rewrite Es in Ho. cbn [fst snd] in Ho. destruct Ho as [<-|Ho]; [reflexivity|].
      exact (IH false st' Hs' Hr' Hi' Hp o Ho).
    - assert (exists st', step st DenyKiss = ([], st') /\ nts st' = None /\ reach st' = reach st /\
                tries st' = tries st /\ pending st' = pending st) as (st' & Es & Hs' & E1 & E2 & E3).
      { cbn [step]. unfold handle_deny. destruct (pending st) eqn:Ep; [|exists st; auto].
        rewrite Hs. eexists. split; [reflexivity|]. cbn. auto. }
      rewrite Es in Ho. cbn [fst snd] in Ho. destruct Ho as [<-|Ho]; [reflexivity|].
      refine (IH aw st' Hs' _ _ Hp o Ho); [rewrite E1; auto|destruct aw; rewrite ?E1, ?E2, ?E3; auto].
    - cbn [step fst snd] in Ho. destruct Ho as [<-|Ho]; [reflexivity|]. exact (IH aw st Hs Hr Hi Hp o Ho).
    - cbn [step fst snd] in Ho. destruct Ho as [<-|Ho]; [reflexivity|].
      refine (IH aw _ _ _ _ Hp o Ho); cbn; rewrite ?Hs; auto. }
  intros st0 Hs0 H0 Hr0 Hp. eapply (G evs false); eauto.
Qed.

End ReachProofs.
