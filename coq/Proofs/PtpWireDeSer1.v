(* C41, parse then serialise: general lemmas (two's complement re-encoding, byte facts by
   exhaustive evaluation, position-wise maps). *)
From V Require Import Model.PtpWire Proofs.WireBytes Proofs.PtpWireHeader.
From Coq Require Import ZifyBool.
Ltac Zify.zify_post_hook ::= Z.div_mod_to_equations.

Lemma be_mod : forall n v, be n v = be n (v mod 256 ^ Z.of_nat n).
Proof.
  induction n; intros v; [reflexivity|].
  cbn [be]. rewrite Nat2Z.inj_succ, Z.pow_succ_r by lia.
  pose proof (Z.pow_pos_nonneg 256 (Z.of_nat n) ltac:(lia) ltac:(lia)) as P.
  rewrite (Z.rem_mul_r v 256 (256 ^ Z.of_nat n)) by lia.
  set (q := (v / 256) mod 256 ^ Z.of_nat n).
  replace ((v mod 256 + 256 * q) / 256) with q by lia.
  replace ((v mod 256 + 256 * q) mod 256) with (v mod 256) by lia.
  rewrite (IHn (v / 256)). fold q.
  rewrite (IHn q). unfold q. rewrite Z.mod_mod by lia. reflexivity.
Qed.

Lemma pow256 : forall n, 256 ^ Z.of_nat n = 2 ^ (8 * Z.of_nat n).
Proof. intros. change 256 with (2 ^ 8). rewrite <- Z.pow_mul_r by lia. reflexivity. Qed.

(* re-encoding a two's complement reading gives the bytes back *)
Lemma be_signed : forall l, bytes_ok l -> (0 < length l)%nat ->
  be (length l) (to_signed (8 * Z.of_nat (length l)) (unbe l)) = l.
Proof.
  intros l H Hn. rewrite be_mod, pow256.
  pose proof (unbe_range l H) as R. rewrite pow256 in R.
  rewrite wrap_to_signed by lia. apply be_unbe. exact H.
Qed.

Lemma be_wrapped : forall l, bytes_ok l -> be (length l) (unbe l mod 256 ^ Z.of_nat (length l)) = l.
Proof. intros l H. rewrite <- be_mod. apply be_unbe. exact H. Qed.

(* byte facts, by evaluation of all 256 values *)
Ltac byte_brute x Hx p :=
  let B := fresh "B" in
  assert (forallb p (zrange 256) = true) as B by (vm_compute; reflexivity);
  let B1 := fresh "B" in
  pose proof (forall_range _ _ B x Hx) as B1; cbv beta in B1; clear B.

Lemma version_byte_back : forall x, 0 <= x < 256 ->
  Z.lor ((((x / 16)) * 16) mod 256) (Z.land x 15) = x /\ 0 <= Z.land x 15 < 16 /\ 0 <= x / 16 < 16.
Proof.
  intros x Hx.
  byte_brute x Hx (fun x => (Z.lor ((((x / 16)) * 16) mod 256) (Z.land x 15) =? x) && (Z.land x 15 <? 16) && (0 <=? Z.land x 15)).
  apply andb_prop in B0. destruct B0 as [B0 B2]. apply andb_prop in B0. destruct B0 as [B0 B1].
  apply Z.eqb_eq in B0. split; [exact B0|]. split; lia.
Qed.

Lemma flags6_back : forall x, 0 <= x < 256 ->
  b2z (bit 0 x) + 2 * b2z (bit 1 x) + 4 * b2z (bit 2 x) + 32 * b2z (bit 5 x) + 64 * b2z (bit 6 x) = Z.land x 103.
Proof.
  intros x Hx.
  byte_brute x Hx (fun x => b2z (bit 0 x) + 2 * b2z (bit 1 x) + 4 * b2z (bit 2 x) + 32 * b2z (bit 5 x) + 64 * b2z (bit 6 x) =? Z.land x 103).
  apply Z.eqb_eq in B0. exact B0.
Qed.

Lemma flags7_back : forall x, 0 <= x < 256 ->
  b2z (bit 0 x) + 2 * b2z (bit 1 x) + 4 * b2z (bit 2 x) + 8 * b2z (bit 3 x) + 16 * b2z (bit 4 x)
  + 32 * b2z (bit 5 x) + 64 * b2z (bit 6 x) = Z.land x 127.
Proof.
  intros x Hx.
  byte_brute x Hx (fun x => b2z (bit 0 x) + 2 * b2z (bit 1 x) + 4 * b2z (bit 2 x) + 8 * b2z (bit 3 x) + 16 * b2z (bit 4 x)
                            + 32 * b2z (bit 5 x) + 64 * b2z (bit 6 x) =? Z.land x 127).
  apply Z.eqb_eq in B0. exact B0.
Qed.

Lemma acc_back : forall x, 0 <= x < 256 -> acc_encodable (acc_from_prim x) = true.
Proof. intros x Hx. byte_brute x Hx (fun x => acc_encodable (acc_from_prim x)). exact B0. Qed.

Lemma tsrc_back : forall x, 0 <= x < 256 ->
  tsrc_to_prim (tsrc_from_prim x) = x /\ tsrc_encodable (tsrc_from_prim x) = true.
Proof.
  intros x Hx. byte_brute x Hx (fun x => (tsrc_to_prim (tsrc_from_prim x) =? x) && tsrc_encodable (tsrc_from_prim x)).
  apply andb_prop in B0. destruct B0 as [B0 B1]. apply Z.eqb_eq in B0. auto.
Qed.

Lemma nibbles : forall x, 0 <= x < 256 -> Z.land x 240 = 16 * (x / 16) /\ Z.land x 15 = x mod 16.
Proof.
  intros x Hx. byte_brute x Hx (fun x => (Z.land x 240 =? 16 * (x / 16)) && (Z.land x 15 =? x mod 16)).
  apply andb_prop in B0. destruct B0 as [B0 B1]. apply Z.eqb_eq in B0, B1. auto.
Qed.

Lemma lor_hi_lo : forall h l, 0 <= h < 16 -> 0 <= l < 256 -> Z.lor (h * 256) l = h * 256 + l.
Proof.
  intros h l Hh Hl.
  assert (forallb (fun h => forallb (fun l => Z.lor (h * 256) l =? h * 256 + l) (zrange 256)) (zrange 16) = true) as C
    by (vm_compute; reflexivity).
  pose proof (forall_range _ _ C h ltac:(lia)) as C1. cbv beta in C1.
  pose proof (forall_range _ _ C1 l ltac:(lia)) as C2. cbv beta in C2. apply Z.eqb_eq in C2. exact C2.
Qed.

(* first and sixth header bytes: the sdoId / message type packing read back and written again *)
Lemma byte0_back : forall b0 b5, 0 <= b0 < 256 -> 0 <= b5 < 256 ->
  let sdo := Z.lor ((Z.land b0 240) * 16) b5 in
  Z.lor ((((sdo / 256) mod 256) * 16) mod 256) (Z.land (Z.land b0 15) 15) = b0
  /\ sdo mod 256 = b5 /\ 0 <= sdo < 4096.
Proof.
  intros b0 b5 H0 H5. cbv zeta.
  destruct (nibbles b0 H0) as [N1 N2]. rewrite N1.
  replace (16 * (b0 / 16) * 16) with ((b0 / 16) * 256) by lia.
  rewrite lor_hi_lo by lia.
  replace (((b0 / 16 * 256 + b5) / 256) mod 256) with (b0 / 16) by lia.
  replace ((b0 / 16 * 256 + b5) mod 256) with b5 by lia.
  destruct (version_byte_back b0 H0) as (V & _).
  replace (Z.land (Z.land b0 15) 15) with (Z.land b0 15).
  2:{ rewrite N2. byte_brute b0 H0 (fun x => Z.land (x mod 16) 15 =? x mod 16). apply Z.eqb_eq in B0. rewrite B0. reflexivity. }
  rewrite V. split; [reflexivity|]. split; [reflexivity|lia].
Qed.

(* position-wise maps *)
Lemma mapi_from_app : forall {A B} (f : nat -> A -> B) a b i,
  mapi_from f i (a ++ b) = mapi_from f i a ++ mapi_from f (i + length a) b.
Proof.
  intros A B f a. induction a as [|x r IH]; intros b i; cbn [app mapi_from length].
  - rewrite Nat.add_0_r. reflexivity.
  - rewrite IH. replace (S i + length r)%nat with (i + S (length r))%nat by lia. reflexivity.
Qed.

Lemma mapi_from_id : forall (f : nat -> Z -> Z) l i, (forall j x, (i <= j)%nat -> f j x = x) -> mapi_from f i l = l.
Proof.
  intros f l. induction l as [|x r IH]; intros i H; cbn; [reflexivity|].
  rewrite H by lia. rewrite IH; [reflexivity|]. intros j y Hj. apply H. lia.
Qed.

Lemma norm_tail : forall ty i x, In ty types -> (34 + type_size ty <= i)%nat -> norm_byte ty i x = x.
Proof.
  intros ty i x Hin Hi. unfold types in Hin. cbn [In] in Hin.
  unfold norm_byte.
  repeat (destruct Hin as [<-|Hin]; [cbn [type_size Z.eqb Pos.eqb] in Hi; cbn [Z.eqb Pos.eqb andb];
    repeat (match goal with |- context [if ?c then _ else _] => let E := fresh in destruct c eqn:E; [exfalso; lia|] end); reflexivity|]).
  destruct Hin.
Qed.

Lemma zeros_byte : forall i a b n, byte i (slice a b (repeat 0 n)) = 0.
Proof.
  intros. unfold byte, slice.
  assert (forall l, Forall (eq 0) l -> forall k, nth k l 0 = 0) as N.
  { induction l as [|y r IH]; intros Hf k; destruct k; cbn; try reflexivity.
    - inversion Hf; subst; reflexivity. - inversion Hf; subst. apply IH. assumption. }
  apply N. apply Forall_firstn_, Forall_skipn_. apply Forall_forall. intros y Hy. apply repeat_spec in Hy. auto.
Qed.
