(* Saturation of NtpDuration::from_seconds on the binary64 model, for ALL
   64-bit patterns of magnitude >= 2^31 (and the infinities).  Uses Flocq only
   to show that converting an integer below 2^53 to binary64 is exact
   ([sf_of_Z_exact], through binary_normalize_correct); everything else is
   integer reasoning on (sign, mantissa, exponent). *)
From V Require Import Model.TimeTypes Model.FloatConv Proofs.TimeTypes.
From Flocq Require Import Core.Core IEEE754.BinarySingleNaN IEEE754.PrimFloat.
From Coq Require Import ZifyBool Reals Lra.
Local Open Scope Z_scope.

Definition sf_trunc (x : spec_float) : Z :=
  match x with
  | S754_finite s m e =>
      let a := if 0 <=? e then Z.pos m * 2 ^ e else Z.pos m / 2 ^ (- e) in
      if s then - a else a
  | _ => 0
  end.

Lemma sf_of_Z_exact : forall z, Z.abs z < 2 ^ 53 -> sf_trunc (sf_of_Z z) = z.
Proof.
  intros z Hz. unfold sf_of_Z.
  change (SpecFloat.binary_normalize prec emax z 0 false) with
         (SpecFloat.binary_normalize FloatOps.prec FloatOps.emax z 0 false).
  rewrite binary_normalize_equiv.
  pose proof (binary_normalize_correct 53 1024 PrimFloat.Hprec PrimFloat.Hmax mode_NE z 0 false) as H.
  cbv zeta in H.
  assert (Hx : F2R (Float radix2 z 0) = IZR z).
  { unfold F2R. simpl. lra. }
  rewrite Hx in H.
  assert (Hg : generic_format radix2 (fexp 53 1024) (IZR z)).
  { apply generic_format_FLT. apply (FLT_spec radix2 (3 - 1024 - 53) 53 (IZR z) (Float radix2 z 0)).
    - symmetry. exact Hx.
    - simpl. exact Hz.
    - simpl. lia. }
  rewrite round_generic in H; [|apply valid_rnd_N|exact Hg].
  rewrite Rlt_bool_true in H.
  2:{ rewrite <- abs_IZR. change (bpow radix2 1024) with (IZR (2 ^ 1024)).
      apply IZR_lt. assert (2 ^ 53 < 2 ^ 1024) by (apply Z.pow_lt_mono_r; lia). lia. }
  destruct H as [HR [Hfin _]].
  set (b := binary_normalize FloatOps.prec FloatOps.emax PrimFloat.Hprec PrimFloat.Hmax mode_NE z 0 false) in *.
  change (binary_normalize 53 1024 PrimFloat.Hprec PrimFloat.Hmax mode_NE z 0 false) with b in HR, Hfin.
  destruct b as [s|s| |s m e Hb]; simpl in Hfin; try discriminate.
  - simpl in HR. simpl. apply eq_IZR. lra.
  - cbn [B2SF sf_trunc]. unfold B2R, F2R in HR. cbn [Fnum Fexp] in HR.
    destruct (Z.leb_spec 0 e).
    + rewrite <- IZR_Zpower in HR by assumption. rewrite <- mult_IZR in HR. apply eq_IZR in HR.
      change (Zpower radix2 e) with (2 ^ e) in HR.
      destruct s; cbn [cond_Zopp] in HR; rewrite <- HR; ring.
    + assert (He : (bpow radix2 e * bpow radix2 (- e) = 1)%R).
      { rewrite <- bpow_plus. replace (e + - e) with 0 by lia. reflexivity. }
      assert (HR' : IZR (cond_Zopp s (Z.pos m)) = IZR (z * 2 ^ (- e))).
      { rewrite mult_IZR. change (2 ^ (- e)) with (Zpower radix2 (- e)).
        rewrite IZR_Zpower by lia. rewrite <- HR. rewrite Rmult_assoc, He. lra. }
      apply eq_IZR in HR'.
      assert (0 < 2 ^ (- e)) by (apply Z.pow_pos_nonneg; lia).
      destruct s; cbn [cond_Zopp] in HR'.
      * assert (Hm : Z.pos m = (- z) * 2 ^ (- e)) by lia. rewrite Hm. rewrite Z.div_mul by lia. lia.
      * rewrite HR'. rewrite Z.div_mul by lia. lia.
Qed.

Lemma sf_to_int_trunc : forall bits y,
  match y with S754_infinity _ => False | S754_nan => False | _ => True end ->
  sf_to_int bits y = clampZ (- 2 ^ (bits - 1)) (2 ^ (bits - 1) - 1) (sf_trunc y).
Proof.
  intros bits y Hy. destruct y as [s|s| |s m e]; try contradiction; cbn [sf_to_int sf_trunc].
  - unfold clampZ. assert (0 < 2 ^ (bits - 1) \/ 2 ^ (bits - 1) = 0) as [H|H].
    { destruct (Z.le_gt_cases 0 (bits - 1)).
      - left. apply Z.pow_pos_nonneg; lia.
      - right. apply Z.pow_neg_r. lia. }
    all: lia.
  - reflexivity.
Qed.

(* decomposition of a finite 64-bit pattern with biased exponent E >= 1 *)
Lemma sf_of_bits_normal : forall b, 0 <= b < 2 ^ 64 ->
  let E := (b / 2 ^ 52) mod 2 ^ 11 in
  1 <= E <= 2046 ->
  exists m, sf_of_bits b = S754_finite (Z.testbit b 63) m (E - 1075) /\
            2 ^ 52 <= Z.pos m < 2 ^ 53.
Proof.
  intros b Hb E HE. unfold sf_of_bits. fold E.
  destruct (Z.eqb_spec E 0); [lia|]. destruct (Z.eqb_spec E 2047); [lia|].
  pose proof (Z.mod_pos_bound b (2 ^ 52) ltac:(lia)) as Hm.
  exists (Z.to_pos (b mod 2 ^ 52 + 2 ^ 52)). split; [reflexivity|].
  rewrite Z2Pos.id by lia. change (2 ^ 53) with (2 ^ 52 + 2 ^ 52). lia.
Qed.

Lemma from_seconds_big_pos : forall m e,
  2 ^ 52 <= Z.pos m < 2 ^ 53 -> -21 <= e ->
  from_seconds (S754_finite false m e) = i64_max.
Proof.
  intros m e Hm He.
  assert (Hi : 2 ^ 31 <= sf_to_int 64 (sf_floor (S754_finite false m e))).
  { cbn [sf_floor]. destruct (Z.leb_spec 0 e).
    - cbn [sf_to_int]. destruct (Z.leb_spec 0 e); [|lia].
      assert (0 < 2 ^ e) by (apply Z.pow_pos_nonneg; lia).
      unfold clampZ. change (2 ^ (64 - 1)) with (2 ^ 63). pows. change (2^31) with 2147483648.
      change (2 ^ 52) with 4503599627370496 in Hm. nia.
    - cbv zeta.
      assert (Hd : 0 < 2 ^ (- e)) by (apply Z.pow_pos_nonneg; lia).
      assert (Hd2 : 2 ^ (- e) <= 2 ^ 21) by (apply Z.pow_le_mono_r; lia).
      assert (Hq : 2 ^ 31 <= Z.pos m / 2 ^ (- e)).
      { apply Z.div_le_lower_bound; [lia|]. change (2 ^ 31) with 2147483648.
        change (2 ^ 21) with 2097152 in Hd2. change (2 ^ 52) with 4503599627370496 in Hm. nia. }
      assert (Hq2 : Z.pos m / 2 ^ (- e) < 2 ^ 53).
      { apply Z.div_lt_upper_bound; [lia|]. nia. }
      destruct (Z.eqb_spec (Z.pos m / 2 ^ (- e)) 0) as [E0|_]; [change (2 ^ 31) with 2147483648 in Hq; lia|].
      set (q := Z.pos m / 2 ^ (- e)) in *.
      assert (Hfin : match sf_of_Z q with S754_infinity _ => False | S754_nan => False | _ => True end).
      { pose proof (sf_of_Z_exact q ltac:(change (2 ^ 31) with 2147483648 in Hq; lia)) as Hex.
        destruct (sf_of_Z q); try exact I; cbn [sf_trunc] in Hex; change (2 ^ 31) with 2147483648 in Hq; lia. }
      rewrite sf_to_int_trunc by exact Hfin.
      rewrite sf_of_Z_exact by (change (2 ^ 31) with 2147483648 in Hq; lia).
      unfold clampZ. change (2 ^ (64 - 1)) with (2 ^ 63). pows. change (2^31) with 2147483648 in *.
      change (2 ^ 53) with 9007199254740992 in Hq2. lia. }
  unfold from_seconds. cbv zeta.
  set (i := sf_to_int 64 (sf_floor (S754_finite false m e))) in *.
  change (2 ^ 31) with 2147483648 in *.
  repeat match goal with
         | |- context [?a <=? ?b] => destruct (Z.leb_spec a b)
         | |- context [?a <? ?b] => destruct (Z.ltb_spec a b)
         end; cbn [andb]; try lia; reflexivity.
Qed.

Lemma from_seconds_big_neg : forall m e,
  2 ^ 52 <= Z.pos m < 2 ^ 53 -> -21 <= e ->
  from_seconds (S754_finite true m e) = i64_min.
Proof.
  intros m e Hm He.
  destruct (Z.leb_spec 0 e) as [Hpos|Hneg].
  - (* integral value, at most -2^52 *)
    assert (Hi : sf_to_int 64 (sf_floor (S754_finite true m e)) < - 2 ^ 31).
    { cbn [sf_floor]. destruct (Z.leb_spec 0 e); [|lia]. cbn [sf_to_int].
      destruct (Z.leb_spec 0 e); [|lia].
      assert (0 < 2 ^ e) by (apply Z.pow_pos_nonneg; lia).
      unfold clampZ. change (2 ^ (64 - 1)) with (2 ^ 63). pows. change (2^31) with 2147483648.
      change (2 ^ 52) with 4503599627370496 in Hm. nia. }
    unfold from_seconds. cbv zeta.
    set (i := sf_to_int 64 (sf_floor (S754_finite true m e))) in *.
    change (2 ^ 31) with 2147483648 in *.
    repeat match goal with
           | |- context [?a <=? ?b] => destruct (Z.leb_spec a b)
           | |- context [?a <? ?b] => destruct (Z.ltb_spec a b)
           end; cbn [andb]; try lia; reflexivity.
  - assert (Hd : 0 < 2 ^ (- e)) by (apply Z.pow_pos_nonneg; lia).
    assert (Hd2 : 2 ^ (- e) <= 2 ^ 21) by (apply Z.pow_le_mono_r; lia).
    pose proof (Z.div_mod (Z.pos m) (2 ^ (- e)) ltac:(lia)) as Hdm.
    pose proof (Z.mod_pos_bound (Z.pos m) (2 ^ (- e)) Hd) as Hr.
    assert (Hq : 2 ^ 31 <= Z.pos m / 2 ^ (- e)).
    { apply Z.div_le_lower_bound; [lia|]. change (2 ^ 31) with 2147483648.
      change (2 ^ 21) with 2097152 in Hd2. change (2 ^ 52) with 4503599627370496 in Hm. nia. }
    assert (Hq2 : Z.pos m / 2 ^ (- e) < 2 ^ 52).
    { apply Z.div_lt_upper_bound; [lia|].
      assert (2 <= 2 ^ (- e)) by (change 2 with (2 ^ 1) at 1; apply Z.pow_le_mono_r; lia).
      change (2 ^ 53) with (2 * 2 ^ 52) in Hm. nia. }
    set (q := Z.pos m / 2 ^ (- e)) in *. set (r := Z.pos m mod 2 ^ (- e)) in *.
    set (z := - (if r =? 0 then q else q + 1)).
    assert (Hz : - 2 ^ 52 <= z <= - 2 ^ 31) by (unfold z; destruct (r =? 0); lia).
    assert (Hzabs : Z.abs z < 2 ^ 53) by (change (2 ^ 53) with (2 * 2 ^ 52); change (2^31) with 2147483648 in Hz; lia).
    assert (Hfl : sf_floor (S754_finite true m e) = sf_of_Z z).
    { cbn [sf_floor]. destruct (Z.leb_spec 0 e); [lia|]. reflexivity. }
    assert (Hfin : match sf_of_Z z with S754_infinity _ => False | S754_nan => False | _ => True end).
    { pose proof (sf_of_Z_exact z Hzabs) as Hex.
      destruct (sf_of_Z z); try exact I; cbn [sf_trunc] in Hex; change (2 ^ 31) with 2147483648 in Hz; lia. }
    assert (Hi : sf_to_int 64 (sf_floor (S754_finite true m e)) = z).
    { rewrite Hfl, sf_to_int_trunc by exact Hfin. rewrite sf_of_Z_exact by exact Hzabs.
      unfold clampZ. change (2 ^ (64 - 1)) with (2 ^ 63). pows.
      change (2 ^ 31) with 2147483648 in Hz. change (2 ^ 52) with 4503599627370496 in Hz. lia. }
    destruct (Z.eq_dec z (- 2 ^ 31)) as [Ez|Nz].
    + (* the single double -2^31 *)
      assert (Hr0 : r = 0 /\ q = 2 ^ 31).
      { unfold z in Ez. destruct (Z.eqb_spec r 0); lia. }
      destruct Hr0 as [Hr0 Hq0].
      assert (Hme : Z.pos m = 2 ^ 31 * 2 ^ (- e)) by lia.
      assert (Hk : - e = 21).
      { assert (2 ^ 21 <= 2 ^ (- e)).
        { change (2 ^ 52) with (2 ^ 31 * 2 ^ 21) in Hm. change (2 ^ 31) with 2147483648 in *. nia. }
        apply Z.pow_le_mono_r_iff in H; lia. }
      assert (He' : e = -21) by lia. subst e.
      assert (Hm' : m = 4503599627370496%positive).
      { apply Pos2Z.inj. rewrite Hme. reflexivity. }
      subst m. vm_compute. reflexivity.
    + unfold from_seconds. cbv zeta. rewrite Hi.
      change (2 ^ 31) with 2147483648 in *.
      repeat match goal with
             | |- context [?a <=? ?b] => destruct (Z.leb_spec a b)
             | |- context [?a <? ?b] => destruct (Z.ltb_spec a b)
             end; cbn [andb]; try lia; reflexivity.
Qed.

(* all 64-bit patterns that encode a number of magnitude >= 2^31 (biased
   exponent >= 1023 + 31), including the infinities, excluding NaN *)
Lemma from_seconds_saturates_bits : forall b, 0 <= b < 2 ^ 64 ->
  1054 <= (b / 2 ^ 52) mod 2 ^ 11 ->
  ((b / 2 ^ 52) mod 2 ^ 11 = 2047 -> b mod 2 ^ 52 = 0) ->
  from_seconds (sf_of_bits b) = if Z.testbit b 63 then i64_min else i64_max.
Proof.
  intros b Hb HE Hnan.
  pose proof (Z.mod_pos_bound (b / 2 ^ 52) (2 ^ 11) ltac:(lia)) as HEr.
  change (2 ^ 11) with 2048 in *.
  destruct (Z.eq_dec ((b / 2 ^ 52) mod 2048) 2047) as [Einf|Efin].
  - specialize (Hnan Einf). unfold sf_of_bits. change (2 ^ 11) with 2048. rewrite Einf, Hnan.
    cbn [Z.eqb]. destruct (Z.testbit b 63); vm_compute; reflexivity.
  - destruct (sf_of_bits_normal b Hb) as [m [Hx Hm]].
    { change (2 ^ 11) with 2048. lia. }
    rewrite Hx. change (2 ^ 11) with 2048.
    destruct (Z.testbit b 63).
    + apply from_seconds_big_neg; [exact Hm|lia].
    + apply from_seconds_big_pos; [exact Hm|lia].
Qed.

Lemma valid_sf_of_bits : forall b, 0 <= b < 2 ^ 64 ->
  valid_binary prec emax (sf_of_bits b) = true.
Proof.
  intros b Hb. unfold sf_of_bits.
  pose proof (Z.mod_pos_bound (b / 2 ^ 52) (2 ^ 11) ltac:(lia)) as HE.
  pose proof (Z.mod_pos_bound b (2 ^ 52) ltac:(lia)) as Hm.
  set (E := (b / 2 ^ 52) mod 2 ^ 11) in *. set (mt := b mod 2 ^ 52) in *.
  destruct (Z.eqb_spec E 0).
  - destruct (Z.eqb_spec mt 0); [reflexivity|].
    cbn [valid_binary]. unfold SpecFloat.bounded, SpecFloat.canonical_mantissa.
    rewrite Zpos_digits2_pos. rewrite Z2Pos.id by lia.
    pose proof (Zdigits_le_Zpower radix2 52 mt) as Hd.
    assert (Hd' : Zdigits radix2 mt <= 52) by (apply Hd; change (Zpower radix2 52) with (2 ^ 52); lia).
    pose proof (Zdigits_gt_0 radix2 mt ltac:(lia)) as Hd0.
    unfold SpecFloat.fexp, SpecFloat.emin, prec, emax.
    apply andb_true_intro. split.
    + apply Zeq_bool_true. lia.
    + apply Z.leb_le. lia.
  - destruct (Z.eqb_spec E 2047).
    + destruct (Z.eqb_spec mt 0); reflexivity.
    + cbn [valid_binary]. unfold SpecFloat.bounded, SpecFloat.canonical_mantissa.
      rewrite Zpos_digits2_pos. rewrite Z2Pos.id by lia.
      rewrite (Zdigits_unique radix2 (mt + 2 ^ 52) 53).
      2:{ change (Zpower radix2 (53 - 1)) with (2 ^ 52). change (Zpower radix2 53) with (2 ^ 52 + 2 ^ 52). lia. }
      unfold SpecFloat.fexp, SpecFloat.emin, prec, emax. change (2 ^ 11) with 2048 in HE.
      apply andb_true_intro. split.
      * apply Zeq_bool_true. lia.
      * apply Z.leb_le. lia.
Qed.

Notation bf := (binary_float FloatOps.prec FloatOps.emax).
Notation Bsub := (@Bminus FloatOps.prec FloatOps.emax PrimFloat.Hprec PrimFloat.Hmax mode_NE).
Notation Bmul := (@Bmult FloatOps.prec FloatOps.emax PrimFloat.Hprec PrimFloat.Hmax mode_NE).

Lemma fsub_B : forall x y : bf, fsub (B2SF x) (B2SF y) = B2SF (Bsub x y).
Proof.
  intros x y. unfold fsub.
  change (SFsub prec emax) with (SFsub FloatOps.prec FloatOps.emax).
  case x as [sx|sx| |sx mx ex Bx]; case y as [sy|sy| |sy my ey By];
    [now (trivial || simpl; case Bool.eqb).. | ].
  simpl. unfold Zminus. rewrite <- cond_Zopp_negb. apply binary_normalize_equiv.
Qed.

Lemma fmul_B : forall x y : bf, fmul (B2SF x) (B2SF y) = B2SF (Bmul x y).
Proof.
  intros x y. unfold fmul.
  change (SFmul prec emax) with (SFmul FloatOps.prec FloatOps.emax).
  case x as [sx|sx| |sx mx ex Bx]; case y as [sy|sy| |sy my ey By]; [now trivial.. | ].
  simpl. rewrite B2SF_SF2B. apply binary_round_aux_equiv.
Qed.

(* B-level view of integer -> binary64 conversion *)
Lemma sf_of_Z_B : forall z, Z.abs z < 2 ^ 53 ->
  exists yB : bf, sf_of_Z z = B2SF yB /\ B2R yB = IZR z /\ is_finite yB = true.
Proof.
  intros z Hz. unfold sf_of_Z.
  change (SpecFloat.binary_normalize prec emax z 0 false) with
         (SpecFloat.binary_normalize FloatOps.prec FloatOps.emax z 0 false).
  rewrite binary_normalize_equiv.
  pose proof (binary_normalize_correct 53 1024 PrimFloat.Hprec PrimFloat.Hmax mode_NE z 0 false) as H.
  cbv zeta in H.
  assert (Hx : F2R (Float radix2 z 0) = IZR z) by (unfold F2R; simpl; lra).
  rewrite Hx in H.
  assert (Hg : generic_format radix2 (fexp 53 1024) (IZR z)).
  { apply generic_format_FLT. apply (FLT_spec radix2 (3 - 1024 - 53) 53 (IZR z) (Float radix2 z 0)).
    - symmetry. exact Hx.
    - simpl. exact Hz.
    - simpl. lia. }
  rewrite round_generic in H; [|apply valid_rnd_N|exact Hg].
  rewrite Rlt_bool_true in H.
  2:{ rewrite <- abs_IZR. change (bpow radix2 1024) with (IZR (2 ^ 1024)).
      apply IZR_lt. assert (2 ^ 53 < 2 ^ 1024) by (apply Z.pow_lt_mono_r; lia). lia. }
  destruct H as [HR [Hfin _]].
  eexists. split; [reflexivity|]. split; [exact HR|exact Hfin].
Qed.

(* truncation of a finite B-level float whose real value lies in [0, n] *)
Lemma sf_trunc_bounds : forall (yB : bf) n, is_finite yB = true ->
  (0 <= B2R yB <= IZR n)%R -> 0 <= sf_trunc (B2SF yB) <= n.
Proof.
  intros yB n Hfin [H0 Hn]. destruct yB as [s|s| |s m e Hb]; simpl in Hfin; try discriminate.
  - cbn [B2SF sf_trunc]. simpl in Hn. apply le_IZR in Hn. lia.
  - cbn [B2SF sf_trunc]. unfold B2R, F2R in H0, Hn. cbn [Fnum Fexp] in H0, Hn.
    assert (Hbp : (0 < bpow radix2 e)%R) by apply bpow_gt_0.
    destruct s.
    + (* negative nonzero value contradicts 0 <= B2R *)
      exfalso. cbn [cond_Zopp] in H0. rewrite opp_IZR in H0.
      assert (0 < IZR (Z.pos m))%R by (apply IZR_lt; lia). nra.
    + cbn [cond_Zopp] in H0, Hn. destruct (Z.leb_spec 0 e).
      * rewrite <- IZR_Zpower in Hn by assumption. rewrite <- mult_IZR in Hn. apply le_IZR in Hn.
        change (Zpower radix2 e) with (2 ^ e) in Hn.
        assert (0 < 2 ^ e) by (apply Z.pow_pos_nonneg; lia). nia.
      * assert (Hd : 0 < 2 ^ (- e)) by (apply Z.pow_pos_nonneg; lia).
        split; [apply Z.div_pos; lia|].
        assert (He : (bpow radix2 e * bpow radix2 (- e) = 1)%R).
        { rewrite <- bpow_plus. replace (e + - e) with 0 by lia. reflexivity. }
        assert (Hle : (IZR (Z.pos m) <= IZR (n * 2 ^ (- e)))%R).
        { rewrite mult_IZR. change (2 ^ (- e)) with (Zpower radix2 (- e)). rewrite IZR_Zpower by lia.
          assert (0 < bpow radix2 (- e))%R by apply bpow_gt_0.
          replace (IZR (Z.pos m)) with (IZR (Z.pos m) * bpow radix2 e * bpow radix2 (- e))%R
            by (rewrite Rmult_assoc, He; lra).
          apply Rmult_le_compat_r; lra. }
        apply le_IZR in Hle.
        apply Z.div_le_upper_bound; lia.
Qed.

(* the floor step of from_seconds, for a finite non-zero double of magnitude
   below 2^31 given by its B-level representation *)
Lemma floor_spec : forall s m e (Hb : SpecFloat.bounded FloatOps.prec FloatOps.emax m e = true),
  Z.pos m < 2 ^ 53 -> (0 <= e -> Z.pos m * 2 ^ e < 2 ^ 31) -> (e < 0 -> Z.pos m / 2 ^ (- e) < 2 ^ 31) ->
  let x := S754_finite s m e in
  let xB : bf := B754_finite s m e Hb in
  exists z (flB : bf),
    sf_floor x = B2SF flB /\ is_finite flB = true /\ B2R flB = IZR z /\
    (0 <= B2R xB - IZR z < 1)%R /\ sf_to_int 64 (sf_floor x) = z /\
    - 2 ^ 31 <= z < 2 ^ 31 /\ (if s then z <= -1 else 0 <= z).
Proof.
  intros s m e Hb Hm Hpos Hneg x xB.
  assert (HxR : B2R xB = (IZR (cond_Zopp s (Z.pos m)) * bpow radix2 e)%R) by reflexivity.
  destruct (Z.leb_spec 0 e) as [He|He].
  - (* integral value *)
    specialize (Hpos He). assert (Hp : 0 < 2 ^ e) by (apply Z.pow_pos_nonneg; lia).
    set (z := cond_Zopp s (Z.pos m) * 2 ^ e).
    exists z, xB. 
    assert (Hfl : sf_floor x = x).
    { unfold x. cbn [sf_floor]. destruct (Z.leb_spec 0 e); [reflexivity|lia]. }
    assert (HzR : B2R xB = IZR z).
    { rewrite HxR. unfold z. rewrite mult_IZR. change (2 ^ e) with (Zpower radix2 e).
      rewrite IZR_Zpower by assumption. reflexivity. }
    assert (Hzr : - 2 ^ 31 < z < 2 ^ 31 /\ (if s then z <= -1 else 0 <= z)).
    { unfold z. change (2 ^ 31) with 2147483648 in *. destruct s; cbn [cond_Zopp]; split; nia. }
    rewrite Hfl. split; [reflexivity|]. split; [reflexivity|]. split; [exact HzR|].
    split; [rewrite HzR; lra|]. split.
    + unfold x. cbn [sf_to_int]. destruct (Z.leb_spec 0 e); [|lia].
      unfold clampZ. change (2 ^ (64 - 1)) with (2 ^ 63). pows. change (2 ^ 31) with 2147483648 in *.
      unfold z in *. destruct s; cbn [cond_Zopp] in *; nia.
    + split; [lia|tauto].
  - specialize (Hneg He).
    assert (Hd : 0 < 2 ^ (- e)) by (apply Z.pow_pos_nonneg; lia).
    pose proof (Z.div_mod (Z.pos m) (2 ^ (- e)) ltac:(lia)) as Hdm.
    pose proof (Z.mod_pos_bound (Z.pos m) (2 ^ (- e)) Hd) as Hr.
    set (d := 2 ^ (- e)) in *. set (q := Z.pos m / d) in *. set (r := Z.pos m mod d) in *.
    assert (Hq0 : 0 <= q) by (apply Z.div_pos; lia).
    assert (HdR : (bpow radix2 e * IZR d = 1)%R).
    { unfold d. change (2 ^ (- e)) with (Zpower radix2 (- e)). rewrite IZR_Zpower by lia.
      rewrite <- bpow_plus. replace (e + - e) with 0 by lia. reflexivity. }
    assert (Hbp : (0 < bpow radix2 e)%R) by apply bpow_gt_0.
    assert (HmR : (IZR (Z.pos m) * bpow radix2 e = IZR q + IZR r * bpow radix2 e)%R).
    { rewrite Hdm at 1. rewrite plus_IZR, mult_IZR. rewrite Rmult_plus_distr_r.
      replace (IZR d * IZR q * bpow radix2 e)%R with (IZR q * (bpow radix2 e * IZR d))%R by ring.
      rewrite HdR. ring. }
    assert (HrR : (0 <= IZR r * bpow radix2 e < 1)%R).
    { assert (0 <= IZR r)%R by (apply IZR_le; lia).
      assert (IZR r < IZR d)%R by (apply IZR_lt; lia).
      split; [nra|]. replace 1%R with (IZR d * bpow radix2 e)%R by lra. nra. }
    set (z := if s then - (if r =? 0 then q else q + 1) else q).
    assert (Hzabs : Z.abs z < 2 ^ 53).
    { unfold z. change (2 ^ 31) with 2147483648 in *. change (2 ^ 53) with 9007199254740992.
      destruct s; destruct (r =? 0); lia. }
    assert (Hfl : sf_floor x = sf_of_Z z \/ (sf_floor x = S754_zero false /\ z = 0)).
    { unfold x. cbn [sf_floor]. destruct (Z.leb_spec 0 e); [lia|]. cbv zeta. fold d. fold q. fold r.
      unfold z. destruct s; [left; reflexivity|].
      destruct (Z.eqb_spec q 0); [right; split; [reflexivity|assumption]|left; reflexivity]. }
    assert (Hdiff : (0 <= B2R xB - IZR z < 1)%R).
    { rewrite HxR. unfold z. destruct s; cbn [cond_Zopp].
      - rewrite opp_IZR. destruct (Z.eqb_spec r 0) as [E0|N0].
        + rewrite E0 in HmR. rewrite opp_IZR. lra.
        + rewrite opp_IZR, plus_IZR.
          assert (0 < IZR r)%R by (apply IZR_lt; lia). nra.
      - lra. }
    assert (Hzr : - 2 ^ 31 <= z < 2 ^ 31 /\ (if s then z <= -1 else 0 <= z)).
    { unfold z. change (2 ^ 31) with 2147483648 in *.
      destruct s.
      - assert (1 <= q \/ r <> 0).
        { destruct (Z.eq_dec r 0); [left|right; assumption]. nia. }
        destruct (Z.eqb_spec r 0); lia.
      - lia. }
    destruct Hfl as [Hfl|[Hfl Hz0]].
    + destruct (sf_of_Z_B z Hzabs) as [flB [HB [HR Hfin]]].
      exists z, flB. rewrite Hfl. split; [exact HB|]. split; [exact Hfin|]. split; [exact HR|].
      split; [exact Hdiff|]. split; [|exact Hzr].
      assert (Hnf : match sf_of_Z z with S754_infinity _ => False | S754_nan => False | _ => True end).
      { rewrite HB. destruct flB; simpl in Hfin; try discriminate; exact I. }
      rewrite sf_to_int_trunc by exact Hnf. rewrite sf_of_Z_exact by exact Hzabs.
      unfold clampZ. change (2 ^ (64 - 1)) with (2 ^ 63). pows. change (2 ^ 31) with 2147483648 in *. lia.
    + exists z, (B754_zero false : bf). rewrite Hfl. split; [reflexivity|]. split; [reflexivity|].
      split; [rewrite Hz0; reflexivity|]. split; [exact Hdiff|]. split; [rewrite Hz0; reflexivity|exact Hzr].
Qed.

Lemma lor_shift32 : forall z t, 0 <= t < 2 ^ 32 -> Z.lor (z * 2 ^ 32) t = z * 2 ^ 32 + t.
Proof.
  intros z t Ht.
  assert (Hl : Z.land (z * 2 ^ 32) t = 0).
  { apply Z.bits_inj'. intros n Hn. rewrite Z.land_spec, Z.bits_0.
    destruct (Z.lt_ge_cases n 32).
    - rewrite Z.mul_pow2_bits_low by lia. reflexivity.
    - destruct (Z.eq_dec t 0) as [->|Ht0]; [rewrite Z.bits_0; apply andb_false_r|].
      rewrite (Z.bits_above_log2 t n); [apply andb_false_r|lia|].
      assert (Z.log2 t < 32) by (apply Z.log2_lt_pow2; lia). lia. }
  rewrite <- Z.lxor_lor by exact Hl. symmetry. apply Z.add_nocarry_lxor. exact Hl.
Qed.

Lemma to_signed64_id : forall v, in_i64 v -> to_signed 64 v = v.
Proof.
  intros v Hv. destruct (to_signed64_spec v) as [k [E R]]. unfold in_i64 in Hv. pows. lia.
Qed.

Lemma gf_0 : generic_format radix2 (fexp 53 1024) 0%R.
Proof. apply generic_format_0. Qed.
Lemma gf_1 : generic_format radix2 (fexp 53 1024) 1%R.
Proof.
  apply generic_format_FLT. apply (FLT_spec radix2 (3 - 1024 - 53) 53 1%R (Float radix2 1 0)).
  - unfold F2R. simpl. lra.
  - simpl. lia.
  - simpl. lia.
Qed.

Lemma from_seconds_in_range : forall s m e (Hb : SpecFloat.bounded FloatOps.prec FloatOps.emax m e = true),
  Z.pos m < 2 ^ 53 -> (0 <= e -> Z.pos m * 2 ^ e < 2 ^ 31) -> (e < 0 -> Z.pos m / 2 ^ (- e) < 2 ^ 31) ->
  let r := from_seconds (S754_finite s m e) in
  in_i64 r /\ (if s then r < 0 else 0 <= r).
Proof.
  intros s m e Hb Hm Hpos Hneg r.
  destruct (floor_spec s m e Hb Hm Hpos Hneg) as [z [flB [Hfl [Hfin [HR [Hdiff [Hi [Hz Hsg]]]]]]]].
  set (xB := B754_finite s m e Hb : bf) in *.
  assert (Hx : S754_finite s m e = B2SF xB) by reflexivity.
  (* f = x - floor x, rounded, lies in [0, 1] *)
  pose proof (Bminus_correct FloatOps.prec FloatOps.emax PrimFloat.Hprec PrimFloat.Hmax mode_NE xB flB eq_refl Hfin) as Hsub.
  rewrite HR in Hsub.
  assert (Hrnd : (0 <= round radix2 (fexp FloatOps.prec FloatOps.emax) (round_mode mode_NE) (B2R xB - IZR z) <= 1)%R).
  { split.
    - apply round_ge_generic; [apply fexp_correct; exact PrimFloat.Hprec|apply valid_rnd_N|apply gf_0|lra].
    - apply round_le_generic; [apply fexp_correct; exact PrimFloat.Hprec|apply valid_rnd_N|apply gf_1|lra]. }
  rewrite Rlt_bool_true in Hsub.
  2:{ rewrite Rabs_pos_eq by lra. apply Rle_lt_trans with 1%R; [lra|].
      change 1%R with (bpow radix2 0). apply bpow_lt. reflexivity. }
  destruct Hsub as [HfR [Hffin _]].
  set (fB := @Bminus FloatOps.prec FloatOps.emax PrimFloat.Hprec PrimFloat.Hmax mode_NE xB flB) in *.
  (* t = f * (2^32 - 1), rounded, lies in [0, 2^32 - 1] *)
  destruct (sf_of_Z_B (2 ^ 32 - 1) ltac:(vm_compute; reflexivity)) as [uB [Hu [HuR Hufin]]].
  pose proof (Bmult_correct FloatOps.prec FloatOps.emax PrimFloat.Hprec PrimFloat.Hmax mode_NE fB uB) as Hmul.
  rewrite HuR in Hmul.
  assert (Hgu : generic_format radix2 (fexp FloatOps.prec FloatOps.emax) (IZR (2 ^ 32 - 1))).
  { rewrite <- HuR. apply generic_format_B2R. }
  assert (Hu0 : (0 < IZR (2 ^ 32 - 1))%R) by (apply IZR_lt; vm_compute; reflexivity).
  assert (Hrnd2 : (0 <= round radix2 (fexp FloatOps.prec FloatOps.emax) (round_mode mode_NE) (B2R fB * IZR (2 ^ 32 - 1)) <= IZR (2 ^ 32 - 1))%R).
  { rewrite HfR. split.
    - apply round_ge_generic; [apply fexp_correct; exact PrimFloat.Hprec|apply valid_rnd_N|apply gf_0|nra].
    - apply round_le_generic; [apply fexp_correct; exact PrimFloat.Hprec|apply valid_rnd_N|exact Hgu|nra]. }
  rewrite Rlt_bool_true in Hmul.
  2:{ rewrite Rabs_pos_eq by lra. apply Rle_lt_trans with (IZR (2 ^ 32 - 1)); [lra|].
      change (bpow radix2 FloatOps.emax) with (IZR (2 ^ 1024)). apply IZR_lt.
      assert (2 ^ 32 < 2 ^ 1024) by (apply Z.pow_lt_mono_r; lia). lia. }
  destruct Hmul as [HtR [Htfin _]].
  set (tB := @Bmult FloatOps.prec FloatOps.emax PrimFloat.Hprec PrimFloat.Hmax mode_NE fB uB) in *.
  rewrite Hffin, Hufin in Htfin. cbn [andb] in Htfin.
  assert (Ht : 0 <= sf_to_int 64 (fmul (fsub (S754_finite s m e) (sf_floor (S754_finite s m e))) u32max_f) < 2 ^ 32).
  { rewrite Hfl, Hx, fsub_B. unfold u32max_f. rewrite Hu, fmul_B.
    change (@Bminus FloatOps.prec FloatOps.emax PrimFloat.Hprec PrimFloat.Hmax mode_NE xB flB) with fB.
    change (@Bmult FloatOps.prec FloatOps.emax PrimFloat.Hprec PrimFloat.Hmax mode_NE fB uB) with tB.
    assert (Hnf : match B2SF tB with S754_infinity _ => False | S754_nan => False | _ => True end).
    { destruct tB; simpl in Htfin; try discriminate; exact I. }
    rewrite sf_to_int_trunc by exact Hnf.
    pose proof (sf_trunc_bounds tB (2 ^ 32 - 1) Htfin ltac:(rewrite HtR; exact Hrnd2)) as Hb2.
    unfold clampZ. change (2 ^ (64 - 1)) with (2 ^ 63). pows. lia. }
  unfold r, from_seconds. cbv zeta. rewrite Hi.
  set (t := sf_to_int 64 (fmul (fsub (S754_finite s m e) (sf_floor (S754_finite s m e))) u32max_f)) in *.
  change (2 ^ 31) with 2147483648 in *.
  repeat match goal with
         | |- context [?a <=? ?b] => destruct (Z.leb_spec a b)
         | |- context [?a <? ?b] => destruct (Z.ltb_spec a b)
         end; cbn [andb]; try lia.
  rewrite lor_shift32 by exact Ht.
  assert (Hin : in_i64 (z * 2 ^ 32 + t)) by (unfold in_i64; pows; lia).
  rewrite to_signed64_id by exact Hin. split; [exact Hin|].
  pows. destruct s; lia.
Qed.

(* conversion from seconds preserves the sign, for EVERY finite 64-bit pattern *)
Lemma from_seconds_sign_bits : forall b, 0 <= b < 2 ^ 64 ->
  (b / 2 ^ 52) mod 2 ^ 11 <> 2047 ->
  let r := from_seconds (sf_of_bits b) in
  in_i64 r /\ (if Z.testbit b 63 then r <= 0 else 0 <= r).
Proof.
  intros b Hb Hfin r.
  pose proof (valid_sf_of_bits b Hb) as Hv.
  pose proof (Z.mod_pos_bound (b / 2 ^ 52) (2 ^ 11) ltac:(lia)) as HE.
  pose proof (Z.mod_pos_bound b (2 ^ 52) ltac:(lia)) as Hmt.
  destruct (Z.le_gt_cases 1054 ((b / 2 ^ 52) mod 2 ^ 11)) as [Hbig|Hsmall].
  - (* saturating *)
    unfold r. rewrite from_seconds_saturates_bits by (try assumption; intro; contradiction).
    destruct (Z.testbit b 63); unfold in_i64, i64_min, i64_max; pows; lia.
  - unfold r. revert Hv. unfold sf_of_bits.
    set (E := (b / 2 ^ 52) mod 2 ^ 11) in *. set (mt := b mod 2 ^ 52) in *.
    destruct (Z.eqb_spec E 0) as [E0|E0].
    + destruct (Z.eqb_spec mt 0) as [M0|M0].
      * intros _. destruct (Z.testbit b 63); vm_compute; split; try split; congruence.
      * intros Hv. cbn [valid_binary] in Hv.
        assert (Hm : Z.pos (Z.to_pos mt) = mt) by (apply Z2Pos.id; lia).
        assert (H52 : 2 ^ 52 < 2 ^ 1074) by (apply Z.pow_lt_mono_r; lia).
        destruct (from_seconds_in_range (Z.testbit b 63) (Z.to_pos mt) (-1074) Hv) as [Hr Hs].
        -- rewrite Hm. change (2 ^ 53) with (2 * 2 ^ 52). lia.
        -- lia.
        -- intros _. rewrite Hm. change (- -1074) with 1074. rewrite Z.div_small by lia.
           change (2 ^ 31) with 2147483648. lia.
        -- split; [exact Hr|]. destruct (Z.testbit b 63); lia.
    + destruct (Z.eqb_spec E 2047) as [E1|E1]; [contradiction|].
      intros Hv. cbn [valid_binary] in Hv.
      assert (Hm : Z.pos (Z.to_pos (mt + 2 ^ 52)) = mt + 2 ^ 52) by (apply Z2Pos.id; lia).
      destruct (from_seconds_in_range (Z.testbit b 63) (Z.to_pos (mt + 2 ^ 52)) (E - 1075) Hv) as [Hr Hs].
      * rewrite Hm. change (2 ^ 53) with (2 ^ 52 + 2 ^ 52). lia.
      * lia.
      * intros He. rewrite Hm.
        assert (Hd : 2 ^ 22 <= 2 ^ (- (E - 1075))) by (apply Z.pow_le_mono_r; lia).
        apply Z.div_lt_upper_bound; [lia|].
        change (2 ^ 31) with 2147483648. change (2 ^ 22) with 4194304 in Hd.
        change (2 ^ 52) with 4503599627370496 in *. nia.
      * split; [exact Hr|]. destruct (Z.testbit b 63); lia.
Qed.
