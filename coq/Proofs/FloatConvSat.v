(* Saturation of NtpDuration::from_seconds on the binary64 model, for ALL
   64-bit patterns of magnitude >= 2^31 (and the infinities).  Uses Flocq only
   to show that converting an integer below 2^53 to binary64 is exact
   ([sf_of_Z_exact], through binary_normalize_correct); everything else is
   integer reasoning on (sign, mantissa, exponent). *)
From V Require Import Model.TimeTypes Model.FloatConv Proofs.TimeTypes.
From Flocq Require Import Core.Core IEEE754.BinarySingleNaN IEEE754.PrimFloat.
From Coq Require Import ZifyBool Reals Lra.
Local Open Scope Z_scope.

Definition sf_trunc (x : spec_float) : Z :=
  match x with
  | S754_finite s m e =>
      let a := if 0 <=? e then Z.pos m * 2 ^ e else Z.pos m / 2 ^ (- e) in
      if s then - a else a
  | _ => 0
  end.

Lemma sf_of_Z_exact : forall z, Z.abs z < 2 ^ 53 -> sf_trunc (sf_of_Z z) = z.
Proof.
  intros z Hz. unfold sf_of_Z.
  change (SpecFloat.binary_normalize prec emax z 0 false) with
         (SpecFloat.binary_normalize FloatOps.prec FloatOps.emax z 0 false).
  rewrite binary_normalize_equiv.
  pose proof (binary_normalize_correct 53 1024 PrimFloat.Hprec PrimFloat.Hmax mode_NE z 0 false) as H.
  cbv zeta in H.
  assert (Hx : F2R (Float radix2 z 0) = IZR z).
  { unfold F2R. simpl. lra. }
  rewrite Hx in H.
  assert (Hg : generic_format radix2 (fexp 53 1024) (IZR z)).
  { apply generic_format_FLT. apply (FLT_spec radix2 (3 - 1024 - 53) 53 (IZR z) (Float radix2 z 0)).
    - symmetry. exact Hx.
    - simpl. exact Hz.
    - simpl. lia. }
  rewrite round_generic in H; [|apply valid_rnd_N|exact Hg].
  rewrite Rlt_bool_true in H.
  2:{ rewrite <- abs_IZR. change (bpow radix2 1024) with (IZR (2 ^ 1024)).
      apply IZR_lt. assert (2 ^ 53 < 2 ^ 1024) by (apply Z.pow_lt_mono_r; lia). lia. }
  destruct H as [HR [Hfin _]].
  set (b := binary_normalize FloatOps.prec FloatOps.emax PrimFloat.Hprec PrimFloat.Hmax mode_NE z 0 false) in *.
  change (binary_normalize 53 1024 PrimFloat.Hprec PrimFloat.Hmax mode_NE z 0 false) with b in HR, Hfin.
  destruct b as [s|s| |s m e Hb]; simpl in Hfin; try discriminate.
  - simpl in HR. simpl. apply eq_IZR. lra.
  - cbn [B2SF sf_trunc]. unfold B2R, F2R in HR. cbn [Fnum Fexp] in HR.
    destruct (Z.leb_spec 0 e).
    + rewrite <- IZR_Zpower in HR by assumption. rewrite <- mult_IZR in HR. apply eq_IZR in HR.
      change (Zpower radix2 e) with (2 ^ e) in HR.
      destruct s; cbn [cond_Zopp] in HR; rewrite <- HR; ring.
    + assert (He : (bpow radix2 e * bpow radix2 (- e) = 1)%R).
      { rewrite <- bpow_plus. replace (e + - e) with 0 by lia. reflexivity. }
      assert (HR' : IZR (cond_Zopp s (Z.pos m)) = IZR (z * 2 ^ (- e))).
      { rewrite mult_IZR. change (2 ^ (- e)) with (Zpower radix2 (- e)).
        rewrite IZR_Zpower by lia. rewrite <- HR. rewrite Rmult_assoc, He. lra. }
      apply eq_IZR in HR'.
      assert (0 < 2 ^ (- e)) by (apply Z.pow_pos_nonneg; lia).
      destruct s; cbn [cond_Zopp] in HR'.
      * assert (Hm : Z.pos m = (- z) * 2 ^ (- e)) by lia. rewrite Hm. rewrite Z.div_mul by lia. lia.
      * rewrite HR'. rewrite Z.div_mul by lia. lia.
Qed.

Lemma sf_to_int_trunc : forall bits y,
  match y with S754_infinity _ => False | S754_nan => False | _ => True end ->
  sf_to_int bits y = clampZ (- 2 ^ (bits - 1)) (2 ^ (bits - 1) - 1) (sf_trunc y).
Proof.
  intros bits y Hy. destruct y as [s|s| |s m e]; try contradiction; cbn [sf_to_int sf_trunc].
  - unfold clampZ. assert (0 < 2 ^ (bits - 1) \/ 2 ^ (bits - 1) = 0) as [H|H].
    { destruct (Z.le_gt_cases 0 (bits - 1)).
      - left. apply Z.pow_pos_nonneg; lia.
      - right. apply Z.pow_neg_r. lia. }
    all: lia.
  - reflexivity.
Qed.

(* decomposition of a finite 64-bit pattern with biased exponent E >= 1 *)
Lemma sf_of_bits_normal : forall b, 0 <= b < 2 ^ 64 ->
  let E := (b / 2 ^ 52) mod 2 ^ 11 in
  1 <= E <= 2046 ->
  exists m, sf_of_bits b = S754_finite (Z.testbit b 63) m (E - 1075) /\
            2 ^ 52 <= Z.pos m < 2 ^ 53.
Proof.
  intros b Hb E HE. unfold sf_of_bits. fold E.
  destruct (Z.eqb_spec E 0); [lia|]. destruct (Z.eqb_spec E 2047); [lia|].
  pose proof (Z.mod_pos_bound b (2 ^ 52) ltac:(lia)) as Hm.
  exists (Z.to_pos (b mod 2 ^ 52 + 2 ^ 52)). split; [reflexivity|].
  rewrite Z2Pos.id by lia. change (2 ^ 53) with (2 ^ 52 + 2 ^ 52). lia.
Qed.

Lemma from_seconds_big_pos : forall m e,
  2 ^ 52 <= Z.pos m < 2 ^ 53 -> -21 <= e ->
  from_seconds (S754_finite false m e) = i64_max.
Proof.
  intros m e Hm He.
  assert (Hi : 2 ^ 31 <= sf_to_int 64 (sf_floor (S754_finite false m e))).
  { cbn [sf_floor]. destruct (Z.leb_spec 0 e).
    - cbn [sf_to_int]. destruct (Z.leb_spec 0 e); [|lia].
      assert (0 < 2 ^ e) by (apply Z.pow_pos_nonneg; lia).
      unfold clampZ. change (2 ^ (64 - 1)) with (2 ^ 63). pows. change (2^31) with 2147483648.
      change (2 ^ 52) with 4503599627370496 in Hm. nia.
    - cbv zeta.
      assert (Hd : 0 < 2 ^ (- e)) by (apply Z.pow_pos_nonneg; lia).
      assert (Hd2 : 2 ^ (- e) <= 2 ^ 21) by (apply Z.pow_le_mono_r; lia).
      assert (Hq : 2 ^ 31 <= Z.pos m / 2 ^ (- e)).
      { apply Z.div_le_lower_bound; [lia|]. change (2 ^ 31) with 2147483648.
        change (2 ^ 21) with 2097152 in Hd2. change (2 ^ 52) with 4503599627370496 in Hm. nia. }
      assert (Hq2 : Z.pos m / 2 ^ (- e) < 2 ^ 53).
      { apply Z.div_lt_upper_bound; [lia|]. nia. }
      destruct (Z.eqb_spec (Z.pos m / 2 ^ (- e)) 0) as [E0|_]; [change (2 ^ 31) with 2147483648 in Hq; lia|].
      set (q := Z.pos m / 2 ^ (- e)) in *.
      assert (Hfin : match sf_of_Z q with S754_infinity _ => False | S754_nan => False | _ => True end).
      { pose proof (sf_of_Z_exact q ltac:(change (2 ^ 31) with 2147483648 in Hq; lia)) as Hex.
        destruct (sf_of_Z q); try exact I; cbn [sf_trunc] in Hex; change (2 ^ 31) with 2147483648 in Hq; lia. }
      rewrite sf_to_int_trunc by exact Hfin.
      rewrite sf_of_Z_exact by (change (2 ^ 31) with 2147483648 in Hq; lia).
      unfold clampZ. change (2 ^ (64 - 1)) with (2 ^ 63). pows. change (2^31) with 2147483648 in *.
      change (2 ^ 53) with 9007199254740992 in Hq2. lia. }
  unfold from_seconds. cbv zeta.
  set (i := sf_to_int 64 (sf_floor (S754_finite false m e))) in *.
  change (2 ^ 31) with 2147483648 in *.
  repeat match goal with
         | |- context [?a <=? ?b] => destruct (Z.leb_spec a b)
         | |- context [?a <? ?b] => destruct (Z.ltb_spec a b)
         end; cbn [andb]; try lia; reflexivity.
Qed.

Lemma from_seconds_big_neg : forall m e,
  2 ^ 52 <= Z.pos m < 2 ^ 53 -> -21 <= e ->
  from_seconds (S754_finite true m e) = i64_min.
Proof.
  intros m e Hm He.
  destruct (Z.leb_spec 0 e) as [Hpos|Hneg].
  - (* integral value, at most -2^52 *)
    assert (Hi : sf_to_int 64 (sf_floor (S754_finite true m e)) < - 2 ^ 31).
    { cbn [sf_floor]. destruct (Z.leb_spec 0 e); [|lia]. cbn [sf_to_int].
      destruct (Z.leb_spec 0 e); [|lia].
      assert (0 < 2 ^ e) by (apply Z.pow_pos_nonneg; lia).
      unfold clampZ. change (2 ^ (64 - 1)) with (2 ^ 63). pows. change (2^31) with 2147483648.
      change (2 ^ 52) with 4503599627370496 in Hm. nia. }
    unfold from_seconds. cbv zeta.
    set (i := sf_to_int 64 (sf_floor (S754_finite true m e))) in *.
    change (2 ^ 31) with 2147483648 in *.
    repeat match goal with
           | |- context [?a <=? ?b] => destruct (Z.leb_spec a b)
           | |- context [?a <? ?b] => destruct (Z.ltb_spec a b)
           end; cbn [andb]; try lia; reflexivity.
  - assert (Hd : 0 < 2 ^ (- e)) by (apply Z.pow_pos_nonneg; lia).
    assert (Hd2 : 2 ^ (- e) <= 2 ^ 21) by (apply Z.pow_le_mono_r; lia).
    pose proof (Z.div_mod (Z.pos m) (2 ^ (- e)) ltac:(lia)) as Hdm.
    pose proof (Z.mod_pos_bound (Z.pos m) (2 ^ (- e)) Hd) as Hr.
    assert (Hq : 2 ^ 31 <= Z.pos m / 2 ^ (- e)).
    { apply Z.div_le_lower_bound; [lia|]. change (2 ^ 31) with 2147483648.
      change (2 ^ 21) with 2097152 in Hd2. change (2 ^ 52) with 4503599627370496 in Hm. nia. }
    assert (Hq2 : Z.pos m / 2 ^ (- e) < 2 ^ 52).
    { apply Z.div_lt_upper_bound; [lia|].
      assert (2 <= 2 ^ (- e)) by (change 2 with (2 ^ 1) at 1; apply Z.pow_le_mono_r; lia).
      change (2 ^ 53) with (2 * 2 ^ 52) in Hm. nia. }
    set (q := Z.pos m / 2 ^ (- e)) in *. set (r := Z.pos m mod 2 ^ (- e)) in *.
    set (z := - (if r =? 0 then q else q + 1)).
    assert (Hz : - 2 ^ 52 <= z <= - 2 ^ 31) by (unfold z; destruct (r =? 0); lia).
    assert (Hzabs : Z.abs z < 2 ^ 53) by (change (2 ^ 53) with (2 * 2 ^ 52); change (2^31) with 2147483648 in Hz; lia).
    assert (Hfl : sf_floor (S754_finite true m e) = sf_of_Z z).
    { cbn [sf_floor]. destruct (Z.leb_spec 0 e); [lia|]. reflexivity. }
    assert (Hfin : match sf_of_Z z with S754_infinity _ => False | S754_nan => False | _ => True end).
    { pose proof (sf_of_Z_exact z Hzabs) as Hex.
      destruct (sf_of_Z z); try exact I; cbn [sf_trunc] in Hex; change (2 ^ 31) with 2147483648 in Hz; lia. }
    assert (Hi : sf_to_int 64 (sf_floor (S754_finite true m e)) = z).
    { rewrite Hfl, sf_to_int_trunc by exact Hfin. rewrite sf_of_Z_exact by exact Hzabs.
      unfold clampZ. change (2 ^ (64 - 1)) with (2 ^ 63). pows.
      change (2 ^ 31) with 2147483648 in Hz. change (2 ^ 52) with 4503599627370496 in Hz. lia. }
    destruct (Z.eq_dec z (- 2 ^ 31)) as [Ez|Nz].
    + (* the single double -2^31 *)
      assert (Hr0 : r = 0 /\ q = 2 ^ 31).
      { unfold z in Ez. destruct (Z.eqb_spec r 0); lia. }
      destruct Hr0 as [Hr0 Hq0].
      assert (Hme : Z.pos m = 2 ^ 31 * 2 ^ (- e)) by lia.
      assert (Hk : - e = 21).
      { assert (2 ^ 21 <= 2 ^ (- e)).
        { change (2 ^ 52) with (2 ^ 31 * 2 ^ 21) in Hm. change (2 ^ 31) with 2147483648 in *. nia. }
        apply Z.pow_le_mono_r_iff in H; lia. }
      assert (He' : e = -21) by lia. subst e.
      assert (Hm' : m = 4503599627370496%positive).
      { apply Pos2Z.inj. rewrite Hme. reflexivity. }
      subst m. vm_compute. reflexivity.
    + unfold from_seconds. cbv zeta. rewrite Hi.
      change (2 ^ 31) with 2147483648 in *.
      repeat match goal with
             | |- context [?a <=? ?b] => destruct (Z.leb_spec a b)
             | |- context [?a <? ?b] => destruct (Z.ltb_spec a b)
             end; cbn [andb]; try lia; reflexivity.
Qed.

(* all 64-bit patterns that encode a number of magnitude >= 2^31 (biased
   exponent >= 1023 + 31), including the infinities, excluding NaN *)
Lemma from_seconds_saturates_bits : forall b, 0 <= b < 2 ^ 64 ->
  1054 <= (b / 2 ^ 52) mod 2 ^ 11 ->
  ((b / 2 ^ 52) mod 2 ^ 11 = 2047 -> b mod 2 ^ 52 = 0) ->
  from_seconds (sf_of_bits b) = if Z.testbit b 63 then i64_min else i64_max.
Proof.
  intros b Hb HE Hnan.
  pose proof (Z.mod_pos_bound (b / 2 ^ 52) (2 ^ 11) ltac:(lia)) as HEr.
  change (2 ^ 11) with 2048 in *.
  destruct (Z.eq_dec ((b / 2 ^ 52) mod 2048) 2047) as [Einf|Efin].
  - specialize (Hnan Einf). unfold sf_of_bits. change (2 ^ 11) with 2048. rewrite Einf, Hnan.
    cbn [Z.eqb]. destruct (Z.testbit b 63); vm_compute; reflexivity.
  - destruct (sf_of_bits_normal b Hb) as [m [Hx Hm]].
    { change (2 ^ 11) with 2048. lia. }
    rewrite Hx. change (2 ^ 11) with 2048.
    destruct (Z.testbit b 63).
    + apply from_seconds_big_neg; [exact Hm|lia].
    + apply from_seconds_big_pos; [exact Hm|lia].
Qed.

