(* Lemmas about Model/FloatConv.v: the exact-arithmetic reference of the
   seconds round trip, and bit-exact evaluations of the binary64 model. *)
From V Require Import Model.TimeTypes Model.FloatConv Proofs.TimeTypes.
From Coq Require Import ZifyBool.
Local Open Scope Z_scope.

(* to_seconds then from_seconds in exact arithmetic changes a duration by
   less than one part per billion plus one unit (in fact by |floor(d/(2^32-1))|,
   about 2.3e-10 |d|, or by less than 2^31 units where from_seconds saturates) *)
Lemma roundtrip_exact_bound : forall d, in_i64 d ->
  Z.abs (roundtrip_exact d - d) * 10 ^ 9 < Z.abs d + 10 ^ 9.
Proof.
  intros d Hd. unfold roundtrip_exact. cbv zeta.
  change (2 ^ 32 - 1) with 4294967295. change (2 ^ 31) with 2147483648.
  change (10 ^ 9) with 1000000000. unfold_ranges. pows.
  pose proof (Z.div_mod d 4294967295 ltac:(lia)) as Hdm.
  pose proof (Z.mod_pos_bound d 4294967295 ltac:(lia)) as Hr.
  set (i := d / 4294967295) in *. set (r := d mod 4294967295) in *.
  repeat match goal with
         | |- context [?a <=? ?b] => destruct (Z.leb_spec a b)
         | |- context [?a <? ?b] => destruct (Z.ltb_spec a b)
         end; cbn [andb]; lia.
Qed.

(* the exact round trip never changes the sign and is the identity on [0, 2^32-1) *)
Lemma roundtrip_exact_sign : forall d, in_i64 d ->
  (0 <= d -> d <= roundtrip_exact d) /\ (d < 0 -> roundtrip_exact d < 0).
Proof.
  intros d Hd. unfold roundtrip_exact. cbv zeta.
  change (2 ^ 32 - 1) with 4294967295. change (2 ^ 31) with 2147483648.
  unfold_ranges. pows.
  pose proof (Z.div_mod d 4294967295 ltac:(lia)) as Hdm.
  pose proof (Z.mod_pos_bound d 4294967295 ltac:(lia)) as Hr.
  set (i := d / 4294967295) in *. set (r := d mod 4294967295) in *.
  repeat match goal with
         | |- context [?a <=? ?b] => destruct (Z.leb_spec a b)
         | |- context [?a <? ?b] => destruct (Z.ltb_spec a b)
         end; cbn [andb]; lia.
Qed.

(* bit-exact evaluations of the binary64 model (vm_compute): boundary values
   of from_seconds: sign preserved, saturation exactly beyond +-2^31 s *)
Definition f64_bits_2p31 : Z := 4746794007248502784.          (*  2147483648.0 *)
Definition f64_bits_m2p31 : Z := 13970166044103278592.        (* -2147483648.0 *)
Definition f64_bits_below_2p31 : Z := 4746794007248502783.    (* largest double below 2^31 *)
Definition f64_bits_below_m2p31 : Z := 13970166044103278593.  (* next double below -2^31 *)
Definition f64_bits_max : Z := 9218868437227405311.           (* f64::MAX *)
Definition f64_bits_min_pos : Z := 1.                         (* smallest subnormal *)
Definition f64_bits_neg_tiny : Z := 9223372036854775809.      (* -smallest subnormal *)

Lemma from_seconds_boundaries :
  from_seconds (sf_of_bits f64_bits_2p31) = i64_max /\
  from_seconds (sf_of_bits f64_bits_below_2p31) = 2 ^ 63 - 2 ^ 32 + 4294966271 /\
  from_seconds (sf_of_bits f64_bits_m2p31) = i64_min /\
  from_seconds (sf_of_bits f64_bits_below_m2p31) = i64_min /\
  from_seconds (sf_of_bits f64_bits_max) = i64_max /\
  from_seconds (sf_of_bits (f64_bits_max + 2 ^ 63)) = i64_min /\
  from_seconds (sf_of_bits f64_bits_min_pos) = 0 /\
  from_seconds (sf_of_bits f64_bits_neg_tiny) = -1 /\
  from_seconds (sf_of_bits 0) = 0 /\ from_seconds (sf_of_bits (2 ^ 63)) = 0.
Proof. vm_compute. repeat split; reflexivity. Qed.

Lemma roundtrip_exact_bound_sign : forall d, in_i64 d ->
  Z.abs (roundtrip_exact d - d) * 10 ^ 9 < Z.abs d + 10 ^ 9 /\
  (0 <= d -> d <= roundtrip_exact d) /\ (d < 0 -> roundtrip_exact d < 0).
Proof.
  intros d Hd. split; [apply roundtrip_exact_bound; assumption|apply roundtrip_exact_sign; assumption].
Qed.

(* ------------------------------------------------------------------ *)
(* the round trip on the binary64 model: the property's bound, and the class
   of durations on which the code misses it *)

Definition roundtrip_bound (d : Z) : Prop :=
  Z.abs (from_seconds (to_seconds d) - d) * 10 ^ 9 < Z.abs d + 10 ^ 9.

(* negative durations between -10^9 units (-0.233 s) and -2^21 units (-0.49 ms):
   there the allowance is below 2 units, the construction of from_seconds
   (floor of a negative value, then truncation of the fraction) loses one unit
   by design and the rounded product f * (2^32-1) can fall just below the
   integer it should be, which truncation turns into a second lost unit *)
Definition KnownClass_C32_roundtrip (d : Z) : Prop := - 10 ^ 9 < d <= - 2 ^ 21.

Lemma roundtrip_refuted :
  exists d, in_i64 d /\ KnownClass_C32_roundtrip d /\
            from_seconds (to_seconds d) = d - 2 /\ ~ roundtrip_bound d.
Proof.
  exists (-2100223). split; [unfold in_i64; pows; lia|].
  split; [unfold KnownClass_C32_roundtrip; change (10 ^ 9) with 1000000000; change (2 ^ 21) with 2097152; lia|].
  assert (E : from_seconds (to_seconds (-2100223)) = -2100223 - 2) by (vm_compute; reflexivity).
  split; [exact E|]. unfold roundtrip_bound. rewrite E. change (10 ^ 9) with 1000000000. lia.
Qed.
