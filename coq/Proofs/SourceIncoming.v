(* handle_incoming: what is accepted (C08), what an NTS source lets through (C07),
   kiss codes (C09). *)
From V Require Import Model.Source Gen.ConstSource Gen.ConstSourceS2 Proofs.SourceBase.
From Coq Require Import ZifyBool.
Open Scope Z_scope.

Ltac Zify.zify_post_hook ::= Z.div_mod_to_equations.

Ltac splits := repeat match goal with |- _ /\ _ => split end.

Ltac split_ifs H :=
  repeat match type of H with
  | (if ?b then _ else _) = _ => let E := fresh "E" in destruct b eqn:E
  end.

(* ------------------------------------------------------------------ *)
(* dispatch, branch by branch                                          *)
(* ------------------------------------------------------------------ *)

(* the state handed to the branches: only the version may have moved *)
Definition vstate (s : st) (p : pkt) : st := set_ver s (ver_after_valid (s_ver s) p).

Inductive outcome (c : cfg) (s : st) (id : Z) (p : pkt) : st -> list action -> Prop :=
| O_ntsn : is_kiss_ntsn p = true -> outcome c s id p (vstate s p) []
| O_rate : is_kiss_ntsn p = false -> is_kiss_rate p (s_last_poll s) = true ->
    outcome c s id p
      (set_remote_min (vstate s p) (Z.max (poll_inc c (s_remote_min s)) (s_last_poll s))) []
| O_deny_nts : is_kiss_ntsn p = false -> is_kiss_rate p (s_last_poll s) = false ->
    is_kiss_rstr p || is_kiss_deny p = true -> s_nts s = true ->
    outcome c s id p (vstate s p) [Demobilize]
| O_deny_plain : is_kiss_ntsn p = false -> is_kiss_rate p (s_last_poll s) = false ->
    is_kiss_rstr p || is_kiss_deny p = true -> s_nts s = false ->
    outcome c s id p (set_deny (vstate s p) true) []
| O_other_kiss : is_kiss_ntsn p = false -> is_kiss_rate p (s_last_poll s) = false ->
    is_kiss_rstr p || is_kiss_deny p = false -> is_kiss p = true ->
    outcome c s id p (vstate s p) []
| O_stratum : is_kiss p = false -> p_stratum p > MAX_STRATUM -> outcome c s id p (vstate s p) []
| O_mode : is_kiss p = false -> p_stratum p <= MAX_STRATUM -> p_mode p <> MODE_SERVER ->
    outcome c s id p (vstate s p) []
| O_measure : is_kiss p = false -> p_stratum p <= MAX_STRATUM -> p_mode p = MODE_SERVER ->
    outcome c s id p (fst (process_message (vstate s p) id p)) [Measure id].

Lemma dispatch_outcome : forall c s id p s' acts,
  dispatch c s id p = (s', acts) -> outcome c s id p s' acts.
Proof.
  intros c s id p s' acts. unfold dispatch. fold (vstate s p).
  assert (L : s_last_poll (vstate s p) = s_last_poll s) by reflexivity.
  assert (R : s_remote_min (vstate s p) = s_remote_min s) by reflexivity.
  assert (N : s_nts (vstate s p) = s_nts s) by reflexivity.
  rewrite L, R, N.
  destruct (is_kiss_ntsn p) eqn:E1.
  { intros H; injection H as <- <-. now constructor. }
  destruct (is_kiss_rate p (s_last_poll s)) eqn:E2.
  { intros H; injection H as <- <-. now constructor. }
  destruct (is_kiss_rstr p || is_kiss_deny p) eqn:E3.
  { destruct (s_nts s) eqn:E4; intros H; injection H as <- <-; now constructor. }
  destruct (is_kiss p) eqn:E5.
  { intros H; injection H as <- <-. now constructor. }
  destruct (p_stratum p >? MAX_STRATUM) eqn:E6.
  { intros H; injection H as <- <-. apply O_stratum; auto. lia. }
  destruct (negb (p_mode p =? MODE_SERVER)) eqn:E7.
  { intros H; injection H as <- <-. apply O_mode; auto; lia. }
  intros H. unfold process_message in *. injection H as <- <-.
  apply O_measure; auto; lia.
Qed.

(* every reaction of handle_incoming: ignored, or one of the dispatch outcomes
   for the request the packet is accepted for *)
Lemma step_incoming_cases : forall c s now op s' acts,
  step_incoming c s now op = (s', acts) ->
  (s' = s /\ acts = [] /\ (op = None \/ exists p, op = Some p /\ accepts s now p = None)) \/
  (exists p id, op = Some p /\ accepts s now p = Some id /\ outcome c s id p s' acts).
Proof.
  intros c s now [p|] s' acts H.
  - rewrite step_incoming_accepts in H. destruct (accepts s now p) as [id|] eqn:A.
    + right. exists p, id. repeat split; auto. now apply dispatch_outcome.
    + injection H as <- <-. left. repeat split; auto. right. eauto.
  - injection H as <- <-. left. auto.
Qed.

(* ------------------------------------------------------------------ *)
(* C08                                                                  *)
(* ------------------------------------------------------------------ *)

Lemma kiss_stratum : forall p, is_kiss p = false <-> p_stratum p <> 0.
Proof. intros p. unfold is_kiss. lia. Qed.

Lemma valid_response_origin : forall p id nts, valid_response p id nts = true -> p_origin p = id.
Proof. intros p id nts H. unfold valid_response in H. apply andb_prop in H. lia. Qed.

Lemma valid_response_uid : forall p id,
  valid_response p id true = true -> is_kiss_ntsn p = false -> uid_bound p id.
Proof.
  intros p id H N. unfold valid_response in H. apply andb_prop in H. destruct H as [H _].
  now apply uid_ok_bound.
Qed.

Lemma not_kiss_not_ntsn : forall p, is_kiss p = false -> is_kiss_ntsn p = false.
Proof. intros p H. unfold is_kiss_ntsn. now rewrite H. Qed.

Theorem measure_only_if : forall c s now op s' acts id,
  step_incoming c s now op = (s', acts) -> In (Measure id) acts ->
  exists p dl, op = Some p /\ s_req s = Some (id, dl) /\ now <= dl
    /\ expected (s_ver s) (p_ver p) = true
    /\ p_origin p = id
    /\ (s_nts s = true -> uid_bound p id)
    /\ p_stratum p <> 0 /\ p_stratum p <= MAX_STRATUM /\ p_mode p = MODE_SERVER
    /\ acts = [Measure id] /\ s_req s' = None.
Proof.
  intros c s now op s' acts id H M. apply step_incoming_cases in H.
  destruct H as [(_ & -> & _)|(p & id' & -> & A & O)]; [contradiction|].
  apply accepts_spec in A. destruct A as (dl & R & D & E & V).
  inversion O; subst; simpl in M; try tauto; try (destruct M as [M|[]]; discriminate).
  destruct M as [M|[]]. injection M as <-.
  exists p, dl. splits; auto.
  - now apply valid_response_origin in V.
  - intros N. rewrite N in V. apply valid_response_uid; auto. now apply not_kiss_not_ntsn.
  - now apply kiss_stratum.
Qed.

(* the replay automaton over the actions of a run: a Measure is legal only if
   no Measure happened since the last Send *)
Fixpoint one_per_request (m : bool) (tr : list action) : bool :=
  match tr with
  | [] => true
  | Send _ :: r => one_per_request false r
  | Measure _ :: r => negb m && one_per_request true r
  | _ :: r => one_per_request m r
  end.

Lemma step_incoming_req : forall c s now op s' acts,
  step_incoming c s now op = (s', acts) ->
  (acts = [] \/ acts = [Demobilize]) /\ s_req s' = s_req s \/
  (exists id dl, acts = [Measure id] /\ s_req s = Some (id, dl) /\ s_req s' = None).
Proof.
  intros c s now op s' acts H. apply step_incoming_cases in H.
  destruct H as [(-> & -> & _)|(p & id & -> & A & O)]; [left; auto|].
  apply accepts_spec in A. destruct A as (dl & R & _).
  inversion O; subst; try (left; split; [auto|reflexivity]).
  right. exists id, dl. auto.
Qed.

Theorem at_most_one : forall c evs s s' tr m,
  run c s evs = Ok (s', tr) -> (m = true -> s_req s = None) ->
  one_per_request m (concat tr) = true.
Proof.
  intros c. induction evs as [|e evs IH]; intros s s' tr m H Hm.
  - injection H as <- <-. reflexivity.
  - apply run_cons in H. destruct H as (s1 & a & tr' & H1 & H2 & ->).
    simpl concat. destruct e as [now d|now op]; simpl in H1.
    + apply step_timer_inv in H1.
      destruct H1 as [(_ & -> & ->)|[(_ & _ & -> & ->)|(_ & r & -> & -> & _)]].
      * destruct (s_deny s); simpl; eapply IH; eauto.
      * simpl. eapply IH; eauto.
      * simpl. eapply IH; eauto. discriminate.
    + injection H1 as H1. apply step_incoming_req in H1.
      destruct H1 as [([->| ->] & R)|(id & dl & -> & R & R')]; simpl.
      * eapply IH; eauto. rewrite R; auto.
      * eapply IH; eauto. rewrite R; auto.
      * destruct m; [specialize (Hm eq_refl); congruence|]. simpl. eapply IH; eauto.
Qed.

(* ------------------------------------------------------------------ *)
(* C07                                                                  *)
(* ------------------------------------------------------------------ *)

(* NTS sources are created with the version negotiated by key exchange *)
Definition nts_ver_ok (s : st) : Prop := s_nts s = true -> s_ver s = V4 \/ s_ver s = V5.

Lemma ver_after_valid_fixed : forall v p, v = V4 \/ v = V5 -> ver_after_valid v p = v.
Proof. intros v p [-> | ->]; reflexivity. Qed.

Lemma vstate_nts : forall s p, s_nts s = true -> nts_ver_ok s -> vstate s p = s.
Proof.
  intros s p N W. unfold vstate. rewrite ver_after_valid_fixed; auto. apply set_ver_same.
Qed.

(* everything that has any effect on an NTS source is authenticated and bound
   to the pending request *)
Theorem nts_effect_only_if : forall c s now op s' acts,
  s_nts s = true -> nts_ver_ok s ->
  step_incoming c s now op = (s', acts) -> (s' <> s \/ acts <> []) ->
  exists p id dl, op = Some p /\ authenticated p = true
    /\ s_req s = Some (id, dl) /\ now <= dl
    /\ expected (s_ver s) (p_ver p) = true
    /\ p_origin p = id /\ uid_bound p id /\ is_kiss_ntsn p = false.
Proof.
  intros c s now op s' acts N W H Eff. apply step_incoming_cases in H.
  destruct H as [(-> & -> & _)|(p & id & -> & A & O)]; [destruct Eff; congruence|].
  apply accepts_spec in A. destruct A as (dl & R & D & E & V). rewrite N in V.
  destruct (is_kiss_ntsn p) eqn:K.
  - exfalso. inversion O; subst; try congruence.
    + rewrite vstate_nts in Eff; auto. destruct Eff; congruence.
    + apply not_kiss_not_ntsn in H. congruence.
    + apply not_kiss_not_ntsn in H. congruence.
    + apply not_kiss_not_ntsn in H. congruence.
  - pose proof (valid_response_uid _ _ V K) as U.
    exists p, id, dl. splits; auto.
    + eapply uid_bound_authenticated; eauto.
    + now apply valid_response_origin in V.
Qed.

(* not bound to the pending request: other origin, or the request's unique
   identifier is not under the authenticator *)
Theorem nts_unbound_noop : forall c s now p,
  s_nts s = true -> nts_ver_ok s ->
  (forall id dl, s_req s = Some (id, dl) -> now <= dl -> ~ (p_origin p = id /\ uid_bound p id)) ->
  step_incoming c s now (Some p) = (s, []).
Proof.
  intros c s now p N W U.
  destruct (step_incoming c s now (Some p)) as [s' acts] eqn:H.
  apply step_incoming_cases in H.
  destruct H as [(-> & -> & _)|(p' & id & Ep & A & O)]; auto.
  injection Ep as <-.
  apply accepts_spec in A. destruct A as (dl & R & D & E & V). rewrite N in V.
  destruct (is_kiss_ntsn p) eqn:K.
  - inversion O; subst; try congruence.
    + now rewrite vstate_nts.
    + apply not_kiss_not_ntsn in H. congruence.
    + apply not_kiss_not_ntsn in H. congruence.
    + apply not_kiss_not_ntsn in H. congruence.
  - exfalso. apply (U id dl R D). split.
    + now apply valid_response_origin in V.
    + now apply valid_response_uid.
Qed.

Theorem nts_unauth_noop : forall c s now p,
  s_nts s = true -> nts_ver_ok s -> authenticated p = false ->
  step_incoming c s now (Some p) = (s, []).
Proof.
  intros c s now p N W A. apply nts_unbound_noop; auto.
  intros id dl _ _ [_ U]. apply uid_bound_authenticated in U. congruence.
Qed.

(* cookies *)
Lemma stash_store_in : forall l k x, In x (stash_store l k) -> In x l \/ x = k.
Proof.
  intros l k x. unfold stash_store.
  destruct (Z.of_nat (length l) <? MAX_COOKIES); intros H; apply in_app_or in H.
  - destruct H as [H|[H|[]]]; auto.
  - destruct H as [H|[H|[]]]; auto. left. destruct l; simpl in *; auto.
Qed.

Lemma fold_store_in : forall ks l x,
  In x (fold_left stash_store ks l) -> In x l \/ In x ks.
Proof.
  induction ks as [|k ks IH]; simpl; intros l x H; auto.
  apply IH in H. destruct H as [H|H]; auto.
  apply stash_store_in in H. destruct H as [H| ->]; auto.
Qed.

(* the stash after handle_incoming: untouched, or the encrypted-position
   cookies of an accepted, authenticated, non-kiss answer were stored (NTS source) *)
Theorem incoming_stash : forall c s now op s' acts,
  step_incoming c s now op = (s', acts) ->
  s_stash s' = s_stash s \/
  exists p id, op = Some p /\ acts = [Measure id] /\ s_nts s = true /\
    s_stash s' = fold_left stash_store (cookies_encr p) (s_stash s).
Proof.
  intros c s now op s' acts H. apply step_incoming_cases in H.
  destruct H as [(-> & _)|(p & id & -> & A & O)]; auto.
  inversion O; subst; auto.
  unfold process_message. cbn [fst s_stash vstate set_ver s_nts].
  destruct (s_nts s) eqn:N; auto. right. exists p, id. auto.
Qed.

Definition offered (evs : list event) : list cookie :=
  flat_map (fun e => match e with Incoming _ (Some p) => cookies_encr p | _ => [] end) evs.

Lemma timer_stash : forall c s now d s' acts x,
  step_timer c s now d = Ok (s', acts) -> In x (s_stash s') -> In x (s_stash s).
Proof.
  intros c s now d s' acts x H. apply step_timer_inv in H.
  destruct H as [(_ & -> & _)|[(_ & _ & _ & ->)|(_ & r & _ & -> & _)]]; auto;
    unfold polled; cbn [s_stash]; destruct (s_nts s); auto;
    destruct (s_stash s); simpl; auto.
Qed.

Theorem stash_provenance : forall c evs s s' tr x,
  run c s evs = Ok (s', tr) -> In x (s_stash s') -> In x (s_stash s) \/ In x (offered evs).
Proof.
  intros c. induction evs as [|e evs IH]; intros s s' tr x H I.
  - injection H as <- <-. auto.
  - apply run_cons in H. destruct H as (s1 & a & tr' & H1 & H2 & ->).
    destruct (IH _ _ _ _ H2 I) as [J|J].
    + destruct e as [now d|now op]; simpl in H1.
      * left. eapply timer_stash; eauto.
      * injection H1 as H1. apply incoming_stash in H1.
        destruct H1 as [E|(p & id & -> & _ & _ & E)]; rewrite E in J; auto.
        apply fold_store_in in J. destruct J as [J|J]; auto.
        right. simpl. apply in_or_app. auto.
    + right. simpl. apply in_or_app. auto.
Qed.

Lemma unauth_offers_nothing : forall p, authenticated p = false -> cookies_encr p = [].
Proof. intros p. unfold authenticated, cookies_encr. destruct (p_sealed p); auto; discriminate. Qed.

(* ------------------------------------------------------------------ *)
(* C09                                                                  *)
(* ------------------------------------------------------------------ *)

(* a valid answer: accepted for the pending request *)
Theorem rate_step : forall c s now p id s' acts,
  accepts s now p = Some id -> is_kiss_ntsn p = false -> is_kiss_rate p (s_last_poll s) = true ->
  step_incoming c s now (Some p) = (s', acts) ->
  acts = [] /\ s' = set_remote_min (vstate s p) (Z.max (poll_inc c (s_remote_min s)) (s_last_poll s)).
Proof.
  intros c s now p id s' acts A N R H. rewrite step_incoming_accepts, A in H.
  apply dispatch_outcome in H. inversion H; subst; try congruence; auto.
  - apply kiss_of_rate in R. congruence.
  - apply kiss_of_rate in R. congruence.
  - apply kiss_of_rate in R. congruence.
Qed.

Definition in_i8 (z : Z) : Prop := -128 <= z <= 127.
Definition cfg_ok (c : cfg) : Prop := -128 < c_min c /\ c_min c <= c_max c /\ c_max c < 127.

Lemma poll_inc_ge : forall c p, in_i8 p -> p < 127 ->
  poll_inc c p = Z.min (p + 1) (c_max c).
Proof. intros c p H L. unfold poll_inc, sat_i8, in_i8 in *. lia. Qed.

Theorem deny_nts : forall c s now p id,
  accepts s now p = Some id -> is_kiss_ntsn p = false ->
  is_kiss_rstr p || is_kiss_deny p = true -> s_nts s = true ->
  step_incoming c s now (Some p) = (vstate s p, [Demobilize]).
Proof.
  intros c s now p id A N D T. rewrite step_incoming_accepts, A.
  destruct (dispatch c s id p) as [s' acts] eqn:H.
  assert (R : is_kiss_rate p (s_last_poll s) = false).
  { apply orb_prop in D. destruct D; [now apply rstr_not_rate|now apply deny_not_rate]. }
  assert (K : is_kiss p = true).
  { apply orb_prop in D. destruct D; [now apply kiss_of_rstr|now apply kiss_of_deny]. }
  apply dispatch_outcome in H. inversion H; subst; try congruence; auto.
Qed.

Theorem deny_plain : forall c s now p id,
  accepts s now p = Some id -> is_kiss_ntsn p = false ->
  is_kiss_rstr p || is_kiss_deny p = true -> s_nts s = false ->
  step_incoming c s now (Some p) = (set_deny (vstate s p) true, []).
Proof.
  intros c s now p id A N D T. rewrite step_incoming_accepts, A.
  destruct (dispatch c s id p) as [s' acts] eqn:H.
  assert (R : is_kiss_rate p (s_last_poll s) = false).
  { apply orb_prop in D. destruct D; [now apply rstr_not_rate|now apply deny_not_rate]. }
  assert (K : is_kiss p = true).
  { apply orb_prop in D. destruct D; [now apply kiss_of_rstr|now apply kiss_of_deny]. }
  apply dispatch_outcome in H. inversion H; subst; try congruence; auto.
Qed.

(* NTS NAK, or a kiss code that is none of RATE / DENY / RSTR: nothing but the
   version negotiation state can move *)
Theorem ntsn_unknown_noop : forall c s now p id,
  accepts s now p = Some id ->
  is_kiss_ntsn p = true \/
  (is_kiss p = true /\ is_kiss_rate p (s_last_poll s) = false /\ is_kiss_rstr p = false /\ is_kiss_deny p = false) ->
  step_incoming c s now (Some p) = (vstate s p, []).
Proof.
  intros c s now p id A K. rewrite step_incoming_accepts, A.
  destruct (dispatch c s id p) as [s' acts] eqn:H.
  apply dispatch_outcome in H.
  destruct K as [K|(K & R & T & D)].
  - inversion H; subst; try congruence; auto;
      match goal with X : is_kiss p = false |- _ => apply not_kiss_not_ntsn in X; congruence end.
  - inversion H; subst; try congruence; auto;
      match goal with X : is_kiss_rstr p || is_kiss_deny p = true |- _ => rewrite T, D in X; discriminate end.
Qed.

(* where Demobilize can come from *)
Theorem demobilize_sources : forall c s e s' acts,
  step c s e = Ok (s', acts) -> In Demobilize acts ->
  (exists now d, e = Timer now d /\ s_reach s = 0 /\ STARTUP_TRIES_THRESHOLD <= s_tries s /\ s_deny s = true) \/
  (exists now p id, e = Incoming now (Some p) /\ s_nts s = true /\ accepts s now p = Some id
     /\ is_kiss_ntsn p = false /\ is_kiss_rstr p || is_kiss_deny p = true).
Proof.
  intros c s e s' acts H I. destruct e as [now d|now op]; simpl in H.
  - left. apply step_timer_inv in H.
    destruct H as [(P & _ & ->)|[(_ & _ & -> & _)|(_ & r & -> & _)]].
    + exists now, d. unfold timer_polls in P. destruct (s_deny s); simpl in I.
      * repeat split; auto; lia.
      * destruct I as [I|[]]; discriminate.
    + destruct I as [I|[]]; discriminate.
    + destruct I as [I|[I|[]]]; discriminate.
  - right. injection H as H. apply step_incoming_cases in H.
    destruct H as [(_ & -> & _)|(p & id & -> & A & O)]; [contradiction|].
    inversion O; subst; simpl in I; try tauto; try (destruct I as [I|[]]; discriminate).
    exists now, p, id. auto.
Qed.

(* an accepted answer clears the deny memory and marks the source reachable *)
Theorem measure_clears_deny : forall c s now op s' acts id,
  step_incoming c s now op = (s', acts) -> In (Measure id) acts ->
  s_deny s' = false /\ s_reach s' = reach_received (s_reach s).
Proof.
  intros c s now op s' acts id H M. apply step_incoming_cases in H.
  destruct H as [(_ & -> & _)|(p & id' & -> & A & O)]; [contradiction|].
  inversion O; subst; simpl in M; try tauto; try (destruct M as [M|[]]; discriminate).
  all: unfold process_message; simpl; auto.
Qed.

(* ---- the remote minimum only grows; every later poll respects it ---- *)

Definition wf_event (e : event) : Prop :=
  match e with
  | Timer _ d => in_i8 d
  | Incoming _ (Some p) => in_i8 (p_poll p)
  | Incoming _ None => True
  end.

(* while a request is pending the remote minimum was already taken into account
   when its poll interval was chosen, or stems from RATE steps below the maximum *)
Definition rate_inv (c : cfg) (s : st) : Prop :=
  in_i8 (s_remote_min s) /\ in_i8 (s_last_poll s) /\
  (s_req s <> None -> s_remote_min s <= s_last_poll s \/ s_remote_min s <= c_max c).

Lemma rate_inv_step : forall c s e s' acts,
  cfg_ok c -> wf_event e -> rate_inv c s -> step c s e = Ok (s', acts) ->
  rate_inv c s' /\ s_remote_min s <= s_remote_min s'.
Proof.
  intros c s e s' acts C W (I1 & I2 & I3) H.
  assert (FIN : forall P : Prop, P -> P) by auto.
  unfold cfg_ok in C. unfold rate_inv. unfold in_i8 in *.
  destruct e as [now d|now op]; simpl in H.
  - apply step_timer_inv in H. simpl in W. unfold in_i8 in W.
    destruct H as [(_ & -> & _)|[(_ & _ & _ & ->)|(_ & r & _ & -> & _)]];
      unfold polled; cbn [s_remote_min s_last_poll s_req];
      repeat split; auto; try lia; try (intros _; lia).
  - injection H as H. apply step_incoming_cases in H.
    destruct H as [(-> & _)|(p & id & -> & A & O)].
    + repeat split; auto; lia.
    + simpl in W. unfold in_i8 in W. apply accepts_spec in A. destruct A as (dl & R & _).
      assert (R' : s_req s <> None) by congruence. specialize (I3 R').
      inversion O; subst; unfold vstate, process_message;
        cbn [s_remote_min s_last_poll s_req set_ver set_remote_min set_deny fst];
        try solve [repeat split; auto; try lia; try (intros _; lia)].
      * (* RATE *)
        unfold poll_inc, sat_i8.
        repeat split; try lia; try (intros _; lia).
      * (* accepted answer *)
        destruct (is_v5 p && (p_poll p >? s_remote_min s)) eqn:B;
          repeat split; try lia; try congruence.
Qed.

Theorem remote_min_monotone : forall c evs s s' tr,
  cfg_ok c -> Forall wf_event evs -> rate_inv c s -> run c s evs = Ok (s', tr) ->
  rate_inv c s' /\ s_remote_min s <= s_remote_min s'
  /\ Forall (fun a => match a with Send r => s_remote_min s <= r_poll r | _ => True end) (concat tr).
Proof.
  intros c. induction evs as [|e evs IH]; intros s s' tr C W I H.
  - injection H as <- <-. splits; auto; try lia. constructor.
  - apply run_cons in H. destruct H as (s1 & a & tr' & H1 & H2 & ->).
    inversion W as [|? ? We Wr]; subst.
    destruct (rate_inv_step _ _ _ _ _ C We I H1) as [I1 M1].
    destruct (IH _ _ _ C Wr I1 H2) as (I2 & M2 & F).
    splits; auto; try lia.
    simpl concat. apply Forall_app. split.
    + destruct e as [now d|now op]; simpl in H1.
      * apply step_timer_inv in H1.
        destruct H1 as [(_ & _ & ->)|[(_ & _ & -> & _)|(_ & r & -> & _ & P & _)]].
        -- destruct (s_deny s); repeat constructor.
        -- repeat constructor.
        -- repeat constructor. lia.
      * injection H1 as H1. apply step_incoming_req in H1.
        destruct H1 as [([->| ->] & _)|(id & dl & -> & _)]; repeat constructor.
    + eapply Forall_impl; [|exact F]. intros x. destruct x; auto. lia.
Qed.

(* the state after NtpSource::new satisfies the invariant *)
Lemma init_rate_inv : forall c nts stash v, cfg_ok c -> rate_inv c (init c nts stash v).
Proof.
  intros c nts stash v C. unfold cfg_ok in C. unfold rate_inv, init, in_i8. simpl.
  repeat split; try lia; try congruence.
Qed.

(* ---------------- corollaries in the form the properties state them ---------------- *)

Theorem one_shot : forall c s now op s' acts id,
  step_incoming c s now op = (s', acts) -> In (Measure id) acts -> s_req s' = None.
Proof.
  intros c s now op s' acts id H M.
  destruct (measure_only_if _ _ _ _ _ _ _ H M) as (p & dl & X). tauto.
Qed.

(* from a fresh source: at most one measurement between two consecutive requests *)
Theorem at_most_one_init : forall c nts stash v evs s' tr,
  run c (init c nts stash v) evs = Ok (s', tr) -> one_per_request false (concat tr) = true.
Proof. intros. eapply at_most_one; eauto; discriminate. Qed.

(* RATE: the new remote minimum is at least the interval just used, and one step
   above the old remote minimum (up to the configured maximum) *)
Theorem rate_lengthens : forall c s now p id s' acts,
  accepts s now p = Some id -> is_kiss_ntsn p = false -> is_kiss_rate p (s_last_poll s) = true ->
  step_incoming c s now (Some p) = (s', acts) ->
  acts = [] /\ s_last_poll s <= s_remote_min s'
  /\ (in_i8 (s_remote_min s) -> s_remote_min s < 127 -> Z.min (s_remote_min s + 1) (c_max c) <= s_remote_min s')
  /\ s_last_poll s' = s_last_poll s /\ s_req s' = s_req s /\ s_deny s' = s_deny s
  /\ s_reach s' = s_reach s /\ s_stash s' = s_stash s.
Proof.
  intros c s now p id s' acts A N R H.
  destruct (rate_step _ _ _ _ _ _ _ A N R H) as [-> ->].
  unfold vstate; cbn [s_remote_min s_last_poll s_req s_deny s_reach s_stash set_remote_min set_ver].
  splits; auto; try lia.
  intros I L. rewrite poll_inc_ge; auto. lia.
Qed.

(* ... and no later request polls faster than the one the RATE answered *)
Theorem rate_never_faster : forall c s now p id s1 a evs s' tr,
  cfg_ok c -> rate_inv c s -> in_i8 (p_poll p) ->
  accepts s now p = Some id -> is_kiss_ntsn p = false -> is_kiss_rate p (s_last_poll s) = true ->
  step_incoming c s now (Some p) = (s1, a) ->
  Forall wf_event evs -> run c s1 evs = Ok (s', tr) ->
  Forall (fun x => match x with Send r => s_last_poll s <= r_poll r | _ => True end) (concat tr).
Proof.
  intros c s now p id s1 a evs s' tr C I W A N R H We Hr.
  destruct (rate_lengthens _ _ _ _ _ _ _ A N R H) as (_ & L & _).
  assert (S : step c s (Incoming now (Some p)) = Ok (s1, a)) by (cbn [step]; rewrite H; reflexivity).
  assert (W' : wf_event (Incoming now (Some p))) by exact W.
  destruct (rate_inv_step _ _ _ _ _ C W' I S) as [I1 _].
  destruct (remote_min_monotone _ _ _ _ _ C We I1 Hr) as (_ & _ & F).
  eapply Forall_impl; [|exact F]. intros x. destruct x; auto. lia.
Qed.

(* a plain source is never demobilised by a datagram, only by a timer that finds it
   unreachable with the deny memory set *)
Theorem plain_demobilize_iff : forall c s e s' acts,
  s_nts s = false -> step c s e = Ok (s', acts) -> In Demobilize acts ->
  exists now d, e = Timer now d /\ s_reach s = 0 /\ STARTUP_TRIES_THRESHOLD <= s_tries s /\ s_deny s = true.
Proof.
  intros c s e s' acts N H I.
  destruct (demobilize_sources _ _ _ _ _ H I) as [X|(now & p & id & _ & T & _)]; auto. congruence.
Qed.
