(* Lemmas about the message model (Model/NtsMsg.v): the record loop, the
   4096-byte cap, totality, round trips with the length bound. *)
From V Require Import Model.NtsMsg Proofs.NtsRecord Gen.ConstNts.
From Coq Require Import ZifyBool.
Ltac Zify.zify_post_hook ::= Z.div_mod_to_equations.

(* ------------------------------------------------------------------ *)
(* the generic record loop                                            *)
(* ------------------------------------------------------------------ *)
Section Loop.
Context {St : Type} (step : St -> record -> step_result St).

Lemma loop_suffix f : forall st inp x rest,
  msg_loop step f st inp = (x, rest) -> exists c, inp = c ++ rest.
Proof.
  induction f as [|f IH]; intros st inp x rest H; cbn [msg_loop] in H.
  - inversion H. exists []. reflexivity.
  - destruct (parse_record inp) as [[r|e|s] rest0] eqn:P;
      destruct (parse_record_suffix _ _ _ P) as [c0 D0].
    + destruct (step st r) as [st'| |e].
      * destruct (IH _ _ _ _ H) as [c1 D1]. exists (c0 ++ c1). rewrite <- app_assoc, <- D1. exact D0.
      * inversion H. exists c0. congruence.
      * inversion H. exists c0. congruence.
    + inversion H. exists c0. congruence.
    + inversion H. exists c0. congruence.
Qed.

Lemma parse_ok_shrinks inp r rest :
  parse_record inp = (Ok r, rest) -> (length rest + 4 <= length inp)%nat.
Proof.
  intros P. destruct (parse_record_ok _ _ _ P) as [_ [c [D L]]].
  rewrite zlen_ser_record in L. pose proof (zlen_nonneg (rec_body r)).
  subst inp. rewrite app_length. unfold zlen in *. lia.
Qed.

(* enough fuel: the loop never reports fuel exhaustion, nor any panic *)
Lemma loop_no_panic f : forall st inp s,
  (length inp < f)%nat -> fst (msg_loop step f st inp) <> Panic s.
Proof.
  induction f as [|f IH]; intros st inp s L; [lia|]. cbn [msg_loop].
  destruct (parse_record inp) as [[r|e|s'] rest0] eqn:P.
  - destruct (step st r) as [st'| |e]; try discriminate.
    apply IH. pose proof (parse_ok_shrinks _ _ _ P). lia.
  - discriminate.
  - exfalso. apply (parse_record_total inp s'). rewrite P. reflexivity.
Qed.

Lemma loop_mono f : forall st inp x rest f',
  msg_loop step f st inp = (x, rest) -> x <> Panic panic_fuel -> (f <= f')%nat ->
  msg_loop step f' st inp = (x, rest).
Proof.
  induction f as [|f IH]; intros st inp x rest f' H NP L; cbn [msg_loop] in H.
  - inversion H. subst. congruence.
  - destruct f' as [|f']; [lia|]. cbn [msg_loop].
    destruct (parse_record inp) as [[r|e|s] rest0]; [|exact H|exact H].
    destruct (step st r) as [st'| |e]; [|exact H|exact H].
    apply IH; [exact H|exact NP|lia].
Qed.

(* a run with some fuel determines the run with the parser's fuel *)
Lemma loop_det f st inp x rest F :
  msg_loop step f st inp = (x, rest) -> x <> Panic panic_fuel -> (length inp < F)%nat ->
  msg_loop step F st inp = (x, rest).
Proof.
  intros H NP L. destruct (Nat.le_gt_cases f F) as [Le|Gt].
  - apply (loop_mono f); assumption.
  - destruct (msg_loop step F st inp) as [y rest'] eqn:E.
    assert (NPy : y <> Panic panic_fuel).
    { pose proof (loop_no_panic F st inp panic_fuel L) as Q. rewrite E in Q. exact Q. }
    pose proof (loop_mono F st inp y rest' f E NPy ltac:(lia)) as E'. congruence.
Qed.

Lemma loop_cons f st r t :
  wf_record r ->
  msg_loop step (S f) st (ser_record r ++ t) =
  match step st r with
  | Continue st' => msg_loop step f st' t
  | Break => (Ok st, t)
  | Stop e => (Err e, t)
  end.
Proof. intros W. cbn [msg_loop]. rewrite (record_roundtrip r t W). reflexivity. Qed.

(* invariants of the accumulated state *)
Lemma loop_inv (P : St -> Prop) :
  (forall st r st', P st -> wf_record r -> step st r = Continue st' -> P st') ->
  forall f st inp st' rest, P st -> msg_loop step f st inp = (Ok st', rest) -> P st'.
Proof.
  intros HP. induction f as [|f IH]; intros st inp st' rest P0 H; cbn [msg_loop] in H; [discriminate|].
  destruct (parse_record inp) as [[r|e|s] rest0] eqn:E; try discriminate.
  destruct (step st r) as [st1| |e] eqn:S1; try discriminate.
  - apply (IH st1 rest0 st' rest); [|exact H]. apply (HP st r st1 P0); [|exact S1].
    apply (parse_record_ok _ _ _ E).
  - inversion H. subst. exact P0.
Qed.

(* the accumulated state is paid for by the bytes consumed *)
Lemma loop_size (size : St -> Z) :
  (forall st r st', step st r = Continue st' -> size st' <= size st + zlen (ser_record r)) ->
  forall f st inp st' rest,
    msg_loop step f st inp = (Ok st', rest) ->
    size st' + 4 <= size st + (zlen inp - zlen rest).
Proof.
  intros HS. induction f as [|f IH]; intros st inp st' rest H; cbn [msg_loop] in H; [discriminate|].
  destruct (parse_record inp) as [[r|e|s] rest0] eqn:E; try discriminate.
  destruct (parse_record_ok _ _ _ E) as [_ [c [D L]]].
  assert (Z0 : zlen inp = zlen c + zlen rest0) by (subst inp; apply zlen_app).
  destruct (step st r) as [st1| |e] eqn:S1; try discriminate.
  - pose proof (IH _ _ _ _ H). pose proof (HS _ _ _ S1). lia.
  - inversion H. subst. rewrite zlen_ser_record in L. pose proof (zlen_nonneg (rec_body r)). lia.
Qed.

End Loop.

(* ------------------------------------------------------------------ *)
(* the cap                                                            *)
(* ------------------------------------------------------------------ *)
Section Cap.
Context {A : Type} (raw : list Z -> res A * list Z).

Lemma cap_value : Z.of_nat cap = MAX_MESSAGE_SIZE.
Proof. reflexivity. Qed.

Lemma capped_unfold b :
  capped raw b = (fst (raw (firstn cap b)), snd (raw (firstn cap b)) ++ skipn cap b).
Proof. unfold capped. destruct (raw (firstn cap b)). reflexivity. Qed.

(* the parser behaves as on the first 4096 bytes *)
Lemma capped_prefix b :
  fst (capped raw b) = fst (capped raw (firstn cap b)) /\
  snd (capped raw b) = snd (capped raw (firstn cap b)) ++ skipn cap b.
Proof.
  rewrite !capped_unfold. cbn [fst snd].
  rewrite firstn_firstn, Nat.min_id.
  assert (E : skipn cap (firstn cap b) = []).
  { apply skipn_all2. apply firstn_le_length. }
  rewrite E, app_nil_r. split; reflexivity.
Qed.

Lemma capped_bounded :
  (forall inp x rest, raw inp = (x, rest) -> exists c, inp = c ++ rest) ->
  forall b x rest, capped raw b = (x, rest) ->
  exists c, b = c ++ rest /\ zlen c <= MAX_MESSAGE_SIZE.
Proof.
  intros HS b x rest H. rewrite capped_unfold in H.
  destruct (raw (firstn cap b)) as [y wrest] eqn:E. cbn [fst snd] in H. inversion H. subst.
  destruct (HS _ _ _ E) as [c D]. exists c. split.
  - rewrite app_assoc, <- D. symmetry. apply firstn_skipn.
  - rewrite <- cap_value.
    assert (length c <= length (firstn cap b))%nat by (rewrite D, app_length; lia).
    pose proof (firstn_le_length cap b). unfold zlen. lia.
Qed.

Lemma capped_roundtrip ser v :
  (forall t, raw (ser ++ t) = (Ok v, t)) -> zlen ser <= MAX_MESSAGE_SIZE ->
  forall t, capped raw (ser ++ t) = (Ok v, t).
Proof.
  intros HR L t. rewrite capped_unfold.
  assert (Ln : (length ser <= cap)%nat) by (pose proof cap_value; unfold zlen in L; lia).
  rewrite firstn_app, (firstn_all2 ser Ln), HR. cbn [fst snd].
  rewrite skipn_app, (skipn_all2 ser Ln). cbn [app]. rewrite firstn_skipn. reflexivity.
Qed.

End Cap.

(* ------------------------------------------------------------------ *)
(* Request                                                            *)
(* ------------------------------------------------------------------ *)
Definition utf8_ok (s : list Z) : Prop := utf8_valid s = true.

Definition wf_request (q : request) : Prop :=
  match q with
  | KeyExchange _ _ denied => Forall utf8_ok denied
  | FixedKey a c2s s2c alg _ _ =>
    utf8_ok a /\ exists k, key_size_of alg = Some k /\ zlen c2s = k /\ zlen s2c = k
  | Support a wp wa _ => utf8_ok a /\ wa || wp = true
  end.

Definition ser_deny (d : list Z) : list Z := ser_record (NtpServerDenyR d).

Definition b4 (b : bool) : Z := if b then 4 else 0.
Definition rsize (st : rstate) : Z :=
  (match r_protocols st with Some l => 4 + 2 * zlen l | None => 0 end)
  + (match r_algorithms st with Some l => 4 + 2 * zlen l | None => 0 end)
  + (match r_auth st with Some a => 4 + zlen a | None => 0 end)
  + zlen (flat_map ser_deny (r_denied st))
  + b4 (r_wp st) + b4 (r_wa st) + b4 (r_ka st)
  + (match r_keys st with Some (a, b) => 4 + zlen a + zlen b | None => 0 end).

Definition rwf (st : rstate) : Prop :=
  (forall a, r_auth st = Some a -> utf8_ok a) /\ Forall utf8_ok (r_denied st).

Ltac break_if_in H :=
  repeat match type of H with
         | context [if ?c then _ else _] => destruct c eqn:?
         end.

Lemma req_step_size st r st' :
  req_step st r = Continue st' -> rsize st' <= rsize st + zlen (ser_record r).
Proof.
  intros H. rewrite zlen_ser_record. pose proof (zlen_nonneg (rec_body r)) as NN.
  destruct st as [p a au dn wp wa ka ks].
  destruct r; cbn [req_step r_protocols r_algorithms r_auth r_denied r_wp r_wa r_ka r_keys is_some] in H;
    try destruct critical; break_if_in H; try discriminate; inversion H; subst; clear H;
    unfold rsize; cbn [r_protocols r_algorithms r_auth r_denied r_wp r_wa r_ka r_keys rec_body b4] in *;
    repeat match goal with
           | E : is_some ?o = false |- _ => destruct o; [discriminate E|clear E]
           end;
    rewrite ?zlen_flat_be16, ?zlen_app, ?flat_map_app, ?zlen_app in *;
    try (unfold b4; repeat match goal with |- context [if ?b then _ else _] => destruct b end;
         change (@zlen Z []) with 0 in *; lia).
  cbn [flat_map]. rewrite app_nil_r. unfold ser_deny. rewrite zlen_ser_record. cbn [rec_body]. lia.
Qed.

Lemma req_step_wf st r st' :
  rwf st -> wf_record r -> req_step st r = Continue st' -> rwf st'.
Proof.
  intros [Wa Wd] W H. destruct st as [p a au dn wp wa ka ks].
  destruct r; cbn [req_step r_protocols r_algorithms r_auth r_denied r_wp r_wa r_ka r_keys is_some] in H;
    try destruct critical; break_if_in H; try discriminate; inversion H; subst; clear H;
    unfold rwf; cbn [r_auth r_denied] in *; (split; [|]); try assumption.
  - apply Forall_app. split; [exact Wd|]. constructor; [exact W|constructor].
  - intros a0 E. inversion E. subst. exact W.
Qed.

Lemma rwf_init : rwf rinit.
Proof. split; [discriminate|constructor]. Qed.

Lemma zlen_one {A} (x : A) l : zlen (x :: l) =? 1 = true -> l = [].
Proof. destruct l; [reflexivity|]. rewrite !zlen_cons. pose proof (zlen_nonneg l). lia. Qed.

Lemma req_finish_ok st q :
  rwf st -> req_finish st = Ok q ->
  wf_request q /\ zlen (ser_request q) <= rsize st + 4.
Proof.
  intros [Wa Wd] H. destruct st as [p a au dn wp wa ka ks].
  unfold req_finish in H. cbn [r_protocols r_algorithms r_auth r_denied r_wp r_wa r_ka r_keys] in *.
  destruct (wa || wp) eqn:Wants.
  - destruct au as [s|]; [|discriminate]. destruct ks; [discriminate|].
    destruct p; [discriminate|]. destruct a; [discriminate|]. inversion H. subst. clear H.
    split; [split; [apply Wa; reflexivity|exact Wants]|].
    unfold rsize. cbn [r_protocols r_algorithms r_auth r_denied r_wp r_wa r_ka r_keys ser_request].
    pose proof (zlen_nonneg (flat_map ser_deny dn)).
    destruct wp, wa, ka; rewrite ?zlen_app, ?zlen_ser_record; cbn [rec_body flat_map b4];
      rewrite ?zlen_ser_record; cbn [rec_body]; unfold zlen at 1; cbn [length]; unfold zlen in *; cbn [length]; lia.
  - destruct ks as [[c2s s2c]|].
    + destruct au as [s|]; [|discriminate]. destruct p as [ps|]; [|discriminate].
      destruct a as [als|]; [|discriminate].
      destruct (zlen ps =? 1) eqn:Lp; [|discriminate]. destruct (zlen als =? 1) eqn:La; [|discriminate].
      cbn [negb orb] in H. destruct als as [|alg als']; [discriminate|].
      destruct (key_size_of alg) as [k|] eqn:K; [|discriminate].
      destruct ((zlen c2s =? k) && (zlen s2c =? k)) eqn:Ks; [|discriminate].
      destruct ps as [|pr ps']; [discriminate|]. inversion H. subst. clear H.
      apply zlen_one in Lp. apply zlen_one in La. subst.
      apply andb_prop in Ks. destruct Ks as [K1 K2].
      split.
      * split; [apply Wa; reflexivity|]. exists k. repeat split; [exact K|lia|lia].
      * unfold rsize. cbn [r_protocols r_algorithms r_auth r_denied r_wp r_wa r_ka r_keys ser_request].
        pose proof (zlen_nonneg (flat_map ser_deny dn)).
        destruct wp, wa; try discriminate Wants.
        destruct ka; rewrite ?zlen_app, ?zlen_ser_record; cbn [rec_body flat_map b4 app];
          rewrite ?zlen_app, ?zlen_ser_record; cbn [rec_body]; unfold be16, zlen in *; cbn [length]; lia.
    + destruct p as [ps|]; [|discriminate]. destruct a as [als|]; [|discriminate].
      inversion H. subst. clear H. split; [exact Wd|].
      unfold rsize. cbn [r_protocols r_algorithms r_auth r_denied r_wp r_wa r_ka r_keys ser_request].
      rewrite !zlen_app, !zlen_ser_record. cbn [rec_body]. rewrite !zlen_flat_be16.
      fold ser_deny. change (fun d => ser_record (NtpServerDenyR d)) with ser_deny.
      change (@zlen Z []) with 0.
      destruct au as [s|]; [pose proof (zlen_nonneg s)|]; destruct wp, wa, ka; cbn [b4]; lia.
Qed.

Lemma req_finish_total st s : req_finish st <> Panic s.
Proof.
  destruct st as [p a au dn wp wa ka ks]. unfold req_finish.
  cbn [r_protocols r_algorithms r_auth r_denied r_wp r_wa r_ka r_keys].
  destruct (wa || wp).
  - destruct au, ks, p, a; discriminate.
  - destruct ks as [[c2s s2c]|].
    + destruct au; [|discriminate]. destruct p as [ps|]; [|discriminate]. destruct a as [als|]; [|discriminate].
      destruct (negb (zlen ps =? 1) || negb (zlen als =? 1)) eqn:G; [discriminate|].
      apply orb_false_elim in G. destruct G as [G1 G2].
      destruct als as [|alg als']; [discriminate G2|].
      destruct (key_size_of alg); [|discriminate].
      destruct ((zlen c2s =? z) && (zlen s2c =? z)); [|discriminate].
      destruct ps as [|pr ps']; [discriminate G1|discriminate].
    + destruct p, a; discriminate.
Qed.

Lemma bind_ok {A B} (x : res A) (f : A -> res B) b :
  res_bind x f = Ok b -> exists a, x = Ok a /\ f a = Ok b.
Proof. destruct x; cbn; intros H; try discriminate. exists a. split; [reflexivity|exact H]. Qed.

Lemma parse_request_raw_suffix inp x rest :
  parse_request_raw inp = (x, rest) -> exists c, inp = c ++ rest.
Proof.
  unfold parse_request_raw. destruct (msg_loop req_step (S (length inp)) rinit inp) as [y r0] eqn:E.
  intros H. inversion H. subst. apply (loop_suffix _ _ _ _ _ _ E).
Qed.

Lemma parse_request_raw_total inp s : fst (parse_request_raw inp) <> Panic s.
Proof.
  unfold parse_request_raw.
  pose proof (loop_no_panic req_step (S (length inp)) rinit inp) as NP.
  destruct (msg_loop req_step (S (length inp)) rinit inp) as [y r0]. cbn [fst] in *.
  destruct y as [st|e|s']; cbn [res_bind].
  - apply req_finish_total.
  - discriminate.
  - exfalso. apply (NP s'); [lia|reflexivity].
Qed.

Lemma parse_request_raw_ok inp q rest :
  parse_request_raw inp = (Ok q, rest) ->
  wf_request q /\ zlen (ser_request q) <= zlen inp - zlen rest.
Proof.
  unfold parse_request_raw. destruct (msg_loop req_step (S (length inp)) rinit inp) as [y r0] eqn:E.
  intros H. inversion H. subst r0. clear H. destruct (bind_ok _ _ _ H1) as [st [-> F]].
  pose proof (loop_inv req_step rwf req_step_wf _ _ _ _ _ rwf_init E) as W.
  pose proof (loop_size req_step rsize req_step_size _ _ _ _ _ E) as SZ.
  destruct (req_finish_ok _ _ W F) as [Wq L]. split; [exact Wq|].
  change (rsize rinit) with 0 in SZ. lia.
Qed.

(* the denied-server records of a key-exchange request *)
Lemma loop_denied ds : forall p a au dn wp wa ka ks f t,
  Forall utf8_ok ds ->
  msg_loop req_step (length ds + f) (mkR p a au dn wp wa ka ks) (flat_map ser_deny ds ++ t) =
  msg_loop req_step f (mkR p a au (dn ++ ds) wp wa ka ks) t.
Proof.
  induction ds as [|d ds IH]; intros p a au dn wp wa ka ks f t W.
  - cbn [flat_map length app Nat.add]. rewrite app_nil_r. reflexivity.
  - inversion W. subst. cbn [flat_map length Nat.add]. rewrite <- app_assoc. unfold ser_deny at 1.
    rewrite loop_cons by assumption.
    cbn [req_step r_protocols r_algorithms r_auth r_denied r_wp r_wa r_ka r_keys].
    rewrite IH by assumption. rewrite <- app_assoc. reflexivity.
Qed.

Lemma request_roundtrip_raw q t :
  wf_request q -> parse_request_raw (ser_request q ++ t) = (Ok q, t).
Proof.
  intros W. unfold parse_request_raw.
  assert (R : exists f st, msg_loop req_step f rinit (ser_request q ++ t) = (Ok st, t) /\ req_finish st = Ok q).
  { destruct q as [als ps denied | a c2s s2c alg p ka | a wp wa ka]; cbn [wf_request] in W.
    - exists (2 + (length denied + 1))%nat. eexists. split.
      + cbn [ser_request]. rewrite <- !app_assoc. unfold rinit.
        change (2 + (length denied + 1))%nat with (S (S (length denied + 1))).
        rewrite loop_cons by exact I. cbn [req_step r_protocols is_some r_algorithms r_auth r_denied r_wp r_wa r_ka r_keys].
        rewrite loop_cons by exact I. cbn [req_step r_protocols is_some r_algorithms r_auth r_denied r_wp r_wa r_ka r_keys].
        change (fun d => ser_record (NtpServerDenyR d)) with ser_deny.
        rewrite loop_denied by exact W.
        rewrite loop_cons by exact I. cbn [req_step]. reflexivity.
      + reflexivity.
    - destruct W as [Ua [k [K [L1 L2]]]].
      assert (Wf : wf_record (FixedKeyRequestR c2s s2c)) by (cbn [wf_record]; unfold zlen in *; lia).
      exists 6%nat. eexists. split.
      + cbn [ser_request]. rewrite <- !app_assoc. unfold rinit.
        rewrite loop_cons by exact Ua. cbn [req_step r_protocols is_some r_algorithms r_auth r_denied r_wp r_wa r_ka r_keys].
        rewrite loop_cons by exact Wf. cbn [req_step r_protocols is_some r_algorithms r_auth r_denied r_wp r_wa r_ka r_keys].
        rewrite loop_cons by exact I. cbn [req_step r_protocols is_some r_algorithms r_auth r_denied r_wp r_wa r_ka r_keys].
        rewrite loop_cons by exact I. cbn [req_step r_protocols is_some r_algorithms r_auth r_denied r_wp r_wa r_ka r_keys].
        destruct ka.
        * rewrite loop_cons by exact I. cbn [req_step r_protocols is_some r_algorithms r_auth r_denied r_wp r_wa r_ka r_keys].
          rewrite loop_cons by exact I. cbn [req_step]. reflexivity.
        * cbn [app]. rewrite loop_cons by exact I. cbn [req_step]. reflexivity.
      + unfold req_finish. cbn [r_protocols r_algorithms r_auth r_denied r_wp r_wa r_ka r_keys orb].
        change (zlen [p] =? 1) with true. change (zlen [alg] =? 1) with true. cbn [negb orb].
        rewrite K. replace (zlen c2s =? k) with true by lia. replace (zlen s2c =? k) with true by lia.
        destruct ka; reflexivity.
    - destruct W as [Ua Wants].
      exists 5%nat. eexists. split.
      + cbn [ser_request]. rewrite <- !app_assoc. unfold rinit.
        rewrite loop_cons by exact Ua. cbn [req_step r_protocols is_some r_algorithms r_auth r_denied r_wp r_wa r_ka r_keys].
        destruct wp, wa, ka; cbn [app]; rewrite <- ?app_assoc;
          repeat (rewrite loop_cons by exact I;
                  cbn [req_step r_protocols is_some r_algorithms r_auth r_denied r_wp r_wa r_ka r_keys]);
          reflexivity.
      + unfold req_finish. cbn [r_protocols r_algorithms r_auth r_denied r_wp r_wa r_ka r_keys].
        destruct wp, wa, ka; try discriminate Wants; reflexivity. }
  destruct R as [f [st [E F]]].
  rewrite (loop_det req_step f rinit _ (Ok st) t (S (length (ser_request q ++ t))) E ltac:(discriminate) ltac:(lia)).
  cbn [res_bind]. rewrite F. reflexivity.
Qed.

(* ---- the capped parser ---- *)
Lemma parse_request_total b s : fst (parse_request b) <> Panic s.
Proof. unfold parse_request. rewrite capped_unfold. cbn [fst]. apply parse_request_raw_total. Qed.

Lemma parse_request_bounded b x rest :
  parse_request b = (x, rest) -> exists c, b = c ++ rest /\ zlen c <= MAX_MESSAGE_SIZE.
Proof. apply capped_bounded. exact parse_request_raw_suffix. Qed.

Lemma parse_request_ok b q rest :
  parse_request b = (Ok q, rest) -> wf_request q /\ zlen (ser_request q) <= MAX_MESSAGE_SIZE.
Proof.
  unfold parse_request. rewrite capped_unfold.
  destruct (parse_request_raw (firstn cap b)) as [y wrest] eqn:E. cbn [fst snd]. intros H. inversion H. subst.
  destruct (parse_request_raw_ok _ _ _ E) as [W L]. split; [exact W|].
  pose proof (firstn_le_length cap b). pose proof (zlen_nonneg wrest). pose proof (@cap_value).
  unfold zlen in *. lia.
Qed.

Lemma request_reparse b q rest :
  parse_request b = (Ok q, rest) -> forall t, parse_request (ser_request q ++ t) = (Ok q, t).
Proof.
  intros H t. destruct (parse_request_ok _ _ _ H) as [W L].
  apply capped_roundtrip; [|exact L]. intros t'. apply request_roundtrip_raw. exact W.
Qed.

(* ------------------------------------------------------------------ *)
(* KeyExchangeResponse                                                *)
(* ------------------------------------------------------------------ *)
Definition wf_response (p : response) : Prop :=
  (forall n, p_server p = Some n -> utf8_ok n) /\ zlen (p_cookies p) <= DEFAULT_NUMBER_OF_COOKIES.

Definition ser_cookie (c : list Z) : list Z := ser_record (NewCookieR c).

Definition psize (st : pstate) : Z :=
  (match s_protocol st with Some _ => 6 | None => 0 end)
  + (match s_algorithm st with Some _ => 6 | None => 0 end)
  + zlen (flat_map ser_cookie (s_cookies st))
  + (match s_server st with Some n => 4 + zlen n | None => 0 end)
  + (match s_port st with Some _ => 6 | None => 0 end)
  + b4 (s_ka st).

Definition pwf (st : pstate) : Prop :=
  (forall n, s_server st = Some n -> utf8_ok n) /\ zlen (s_cookies st) <= DEFAULT_NUMBER_OF_COOKIES.

Lemma resp_step_size st r st' :
  resp_step st r = Continue st' -> psize st' <= psize st + zlen (ser_record r).
Proof.
  intros H. rewrite zlen_ser_record. pose proof (zlen_nonneg (rec_body r)) as NN.
  destruct st as [p a cs sv pt ka].
  destruct r; cbn [resp_step s_protocol s_algorithm s_cookies s_server s_port s_ka is_some] in H;
    try destruct critical; break_if_in H; try discriminate;
    try (destruct ids as [|id [|id2 ids]]; try discriminate);
    inversion H; subst; clear H;
    unfold psize; cbn [s_protocol s_algorithm s_cookies s_server s_port s_ka rec_body b4 flat_map be16 app] in *;
    repeat match goal with
           | E : is_some ?o = false |- _ => destruct o; [discriminate E|clear E]
           end;
    rewrite ?flat_map_app, ?zlen_app in *;
    try (unfold b4, be16 in *; repeat match goal with |- context [if ?b then _ else _] => destruct b end;
         unfold zlen in *; cbn [length] in *; lia).
  cbn [flat_map]. rewrite app_nil_r. unfold ser_cookie. rewrite zlen_ser_record. cbn [rec_body]. lia.
Qed.

Lemma resp_step_wf st r st' :
  pwf st -> wf_record r -> resp_step st r = Continue st' -> pwf st'.
Proof.
  intros [Ws Wc] W H. destruct st as [p a cs sv pt ka].
  destruct r; cbn [resp_step s_protocol s_algorithm s_cookies s_server s_port s_ka is_some] in H;
    try destruct critical; break_if_in H; try discriminate;
    try (destruct ids as [|id [|id2 ids]]; try discriminate);
    inversion H; subst; clear H;
    unfold pwf; cbn [s_server s_cookies] in *; (split; [|]); try assumption.
  - rewrite zlen_app. unfold zlen at 2. cbn [length]. lia.
  - intros n E. inversion E. subst. exact W.
Qed.

Lemma pwf_init : pwf pinit.
Proof. split; [discriminate|]. cbn. change DEFAULT_NUMBER_OF_COOKIES with 8. unfold zlen. cbn. lia. Qed.

Lemma resp_finish_ok st p :
  pwf st -> resp_finish st = Ok p -> wf_response p /\ zlen (ser_response p) <= psize st + 4.
Proof.
  intros W H. destruct st as [pr al cs sv pt ka]. unfold resp_finish in H.
  cbn [s_protocol s_algorithm s_cookies s_server s_port s_ka] in H.
  destruct pr as [pr|]; [|discriminate]. destruct al as [al|]; [|discriminate].
  inversion H. subst. clear H. split; [exact W|].
  unfold ser_response, psize. cbn [p_protocol p_algorithm p_cookies p_server p_port p_keep_alive
    s_protocol s_algorithm s_cookies s_server s_port s_ka].
  change (fun c => ser_record (NewCookieR c)) with ser_cookie.
  rewrite !zlen_app, !zlen_ser_record. cbn [rec_body flat_map be16 app].
  destruct sv, pt, ka; cbn [b4]; rewrite ?zlen_ser_record; cbn [rec_body]; unfold be16;
    unfold zlen; cbn [length]; lia.
Qed.

Lemma resp_finish_total st s : resp_finish st <> Panic s.
Proof. unfold resp_finish. destruct (s_protocol st), (s_algorithm st); discriminate. Qed.

Lemma parse_response_raw_suffix inp x rest :
  parse_response_raw inp = (x, rest) -> exists c, inp = c ++ rest.
Proof.
  unfold parse_response_raw. destruct (msg_loop resp_step (S (length inp)) pinit inp) as [y r0] eqn:E.
  intros H. inversion H. subst. apply (loop_suffix _ _ _ _ _ _ E).
Qed.

Lemma parse_response_raw_total inp s : fst (parse_response_raw inp) <> Panic s.
Proof.
  unfold parse_response_raw.
  pose proof (loop_no_panic resp_step (S (length inp)) pinit inp) as NP.
  destruct (msg_loop resp_step (S (length inp)) pinit inp) as [y r0]. cbn [fst] in *.
  destruct y as [st|e|s']; cbn [res_bind].
  - apply resp_finish_total.
  - discriminate.
  - exfalso. apply (NP s'); [lia|reflexivity].
Qed.

Lemma parse_response_raw_ok inp p rest :
  parse_response_raw inp = (Ok p, rest) ->
  wf_response p /\ zlen (ser_response p) <= zlen inp - zlen rest.
Proof.
  unfold parse_response_raw. destruct (msg_loop resp_step (S (length inp)) pinit inp) as [y r0] eqn:E.
  intros H. inversion H. subst r0. clear H. destruct (bind_ok _ _ _ H1) as [st [-> F]].
  pose proof (loop_inv resp_step pwf resp_step_wf _ _ _ _ _ pwf_init E) as W.
  pose proof (loop_size resp_step psize resp_step_size _ _ _ _ _ E) as SZ.
  destruct (resp_finish_ok _ _ W F) as [Wp L]. split; [exact Wp|].
  change (psize pinit) with 0 in SZ. lia.
Qed.

Lemma loop_cookies cs : forall p a c0 sv pt ka f t,
  zlen c0 + zlen cs <= DEFAULT_NUMBER_OF_COOKIES ->
  msg_loop resp_step (length cs + f) (mkP p a c0 sv pt ka) (flat_map ser_cookie cs ++ t) =
  msg_loop resp_step f (mkP p a (c0 ++ cs) sv pt ka) t.
Proof.
  induction cs as [|c cs IH]; intros p a c0 sv pt ka f t L.
  - cbn [flat_map length app Nat.add]. rewrite app_nil_r. reflexivity.
  - cbn [flat_map length Nat.add]. rewrite <- app_assoc. unfold ser_cookie at 1.
    rewrite loop_cons by exact I.
    cbn [resp_step s_protocol s_algorithm s_cookies s_server s_port s_ka].
    rewrite zlen_cons in L. pose proof (zlen_nonneg cs).
    replace (zlen c0 <? DEFAULT_NUMBER_OF_COOKIES) with true by lia.
    rewrite IH; [rewrite <- app_assoc; reflexivity|].
    rewrite zlen_app. unfold zlen at 2. cbn [length]. lia.
Qed.

Lemma response_roundtrip_raw p t :
  wf_response p -> parse_response_raw (ser_response p ++ t) = (Ok p, t).
Proof.
  intros [Ws Wc]. unfold parse_response_raw.
  assert (R : exists f st, msg_loop resp_step f pinit (ser_response p ++ t) = (Ok st, t) /\ resp_finish st = Ok p).
  { destruct p as [pr al cs sv pt ka]. cbn [p_server p_cookies] in *.
    exists (2 + (length cs + 4))%nat. eexists. split.
    - unfold ser_response. cbn [p_protocol p_algorithm p_cookies p_server p_port p_keep_alive].
      rewrite <- !app_assoc. unfold pinit.
      change (2 + (length cs + 4))%nat with (S (S (length cs + 4))).
      rewrite loop_cons by exact I. cbn [resp_step s_protocol s_algorithm s_cookies s_server s_port s_ka is_some].
      rewrite loop_cons by exact I. cbn [resp_step s_protocol s_algorithm s_cookies s_server s_port s_ka is_some].
      change (fun c => ser_record (NewCookieR c)) with ser_cookie.
      rewrite loop_cookies by (unfold zlen at 1; cbn [length]; lia).
      cbn [app].
      assert (Wsv : forall n, sv = Some n -> wf_record (ServerR n)) by (intros n E; apply Ws; exact E).
      destruct sv as [n|], pt as [v|], ka; cbn [app]; rewrite <- ?app_assoc;
        repeat (first [rewrite loop_cons by exact I | rewrite loop_cons by (apply Wsv; reflexivity)];
                cbn [resp_step s_protocol s_algorithm s_cookies s_server s_port s_ka is_some]);
        try reflexivity;
        (eapply loop_mono; [ repeat (first [rewrite loop_cons by exact I | rewrite loop_cons by (apply Wsv; reflexivity)];
                cbn [resp_step s_protocol s_algorithm s_cookies s_server s_port s_ka is_some]); reflexivity | discriminate | lia ]).
    - reflexivity. }
  destruct R as [f [st [E F]]].
  rewrite (loop_det resp_step f pinit _ (Ok st) t (S (length (ser_response p ++ t))) E ltac:(discriminate) ltac:(lia)).
  cbn [res_bind]. rewrite F. reflexivity.
Qed.

Lemma parse_response_total b s : fst (parse_response b) <> Panic s.
Proof. unfold parse_response. rewrite capped_unfold. cbn [fst]. apply parse_response_raw_total. Qed.

Lemma parse_response_bounded b x rest :
  parse_response b = (x, rest) -> exists c, b = c ++ rest /\ zlen c <= MAX_MESSAGE_SIZE.
Proof. apply capped_bounded. exact parse_response_raw_suffix. Qed.

Lemma parse_response_ok b p rest :
  parse_response b = (Ok p, rest) -> wf_response p /\ zlen (ser_response p) <= MAX_MESSAGE_SIZE.
Proof.
  unfold parse_response. rewrite capped_unfold.
  destruct (parse_response_raw (firstn cap b)) as [y wrest] eqn:E. cbn [fst snd]. intros H. inversion H. subst.
  destruct (parse_response_raw_ok _ _ _ E) as [W L]. split; [exact W|].
  pose proof (firstn_le_length cap b). pose proof (zlen_nonneg wrest). pose proof (@cap_value).
  unfold zlen in *. lia.
Qed.

Lemma response_reparse b p rest :
  parse_response b = (Ok p, rest) -> forall t, parse_response (ser_response p ++ t) = (Ok p, t).
Proof.
  intros H t. destruct (parse_response_ok _ _ _ H) as [W L].
  apply capped_roundtrip; [|exact L]. intros t'. apply response_roundtrip_raw. exact W.
Qed.

(* the first 4096 bytes decide the outcome *)
Lemma parse_request_prefix b :
  fst (parse_request b) = fst (parse_request (firstn cap b)) /\
  snd (parse_request b) = snd (parse_request (firstn cap b)) ++ skipn cap b.
Proof. apply capped_prefix. Qed.

Lemma parse_response_prefix b :
  fst (parse_response b) = fst (parse_response (firstn cap b)) /\
  snd (parse_response b) = snd (parse_response (firstn cap b)) ++ skipn cap b.
Proof. apply capped_prefix. Qed.

(* census of the constructs the model mirrors (regenerated from the sources):
   two `take(MAX_MESSAGE_SIZE)`, fourteen dispatch arms, the three guarded
   `[0]` indexings of Request::parse behind the one length guard *)
Lemma nts_census :
  TAKE_MAX_COUNT = 2 /\ PARSE_DISPATCH_ARMS = 14 /\ MSG_INDEX0_SITES = 3 /\ MSG_LEN_GUARD = 1
  /\ MAX_MESSAGE_SIZE = 4096.
Proof. repeat split; reflexivity. Qed.
