(* C41: enumerations and message bodies round trip. *)
From V Require Import Model.PtpWire Proofs.WireBytes Proofs.PtpWireHeader.
From Coq Require Import ZifyBool.
Ltac Zify.zify_post_hook ::= Z.div_mod_to_equations.

(* ---------- enumerations ---------- *)
Lemma acc_roundtrip : forall a, acc_ok a -> acc_encodable a = true -> acc_from_prim (acc_to_prim a) = a /\ is_byte (acc_to_prim a).
Proof.
  intros [|c|v|] Hok He; unfold acc_from_prim, acc_to_prim, is_byte; cbn [acc_ok acc_encodable] in *.
  - split; [reflexivity|lia].
  - replace ((c <=? 22) || (50 <=? c) && (c <=? 127) || (c =? 255)) with false by lia.
    replace (c <=? 49) with true by lia. split; [reflexivity|lia].
  - unfold is_byte in Hok. assert (v <= 125) by lia.
    rewrite (Z.mod_small (128 + v) 256) by lia.
    replace ((128 + v <=? 22) || (50 <=? 128 + v) && (128 + v <=? 127) || (128 + v =? 255)) with false by lia.
    replace (128 + v <=? 49) with false by lia. replace (128 + v =? 254) with false by lia.
    split; [f_equal; lia|lia].
  - split; [reflexivity|lia].
Qed.

Lemma tsrc_eqb_eq : forall a b, tsrc_eqb a b = true -> a = b.
Proof. intros [] []; cbn; intros H; try discriminate; try reflexivity; apply Z.eqb_eq in H; congruence. Qed.

Lemma tsrc_roundtrip : forall t, tsrc_encodable t = true -> tsrc_from_prim (tsrc_to_prim t) = t.
Proof. intros t H. apply tsrc_eqb_eq. exact H. Qed.

Lemma tsrc_prim_byte : forall t, tsrc_ok t -> is_byte (tsrc_to_prim t).
Proof. intros [] H; cbn [tsrc_ok tsrc_to_prim] in *; unfold is_byte in *; lia. Qed.

Lemma action_roundtrip : forall a, action_from_prim (action_to_prim a) = a /\ is_byte (action_to_prim a).
Proof. intros []; split; try reflexivity; unfold is_byte; cbn; lia. Qed.

(* ---------- bodies ---------- *)
Ltac wire_compute :=
  unfold de_body, ser_body, ts_de, ts_ser, pid_ser, pid_de, cq_ser, cq_de, slice, byte, body_type, type_size;
  cbn [be app nth firstn skipn Nat.sub length Nat.ltb Nat.leb Z.eqb Pos.eqb
       ts_secs ts_nanos pid_clock pid_port cq_class cq_acc cq_var res_bind].

Ltac unbe_rewrite v n :=
  let U := fresh "U" in pose proof (unbe_be n v) as U; cbn [be app] in U; rewrite ?U; clear U.

Lemma de_ser_body : forall b old rest,
  body_ok b -> body_encodable b = true -> de_body (body_type b) (ser_body b old ++ rest) = Ok b.
Proof.
  intros b old rest Hok He.
  destruct b as [[s n]|[s n]|[s n]|[s n] [ck pt]|[s n]|[s n] [ck pt]|[s n] [ck pt]
                 |[s n] utc p1 [cls acc var] p2 gm steps src|[ck pt]|[ck pt] sh hp act];
    unfold body_ok, ts_ok, pid_ok, cq_ok, is_byte in Hok; cbn [ts_secs ts_nanos pid_clock pid_port cq_class cq_acc cq_var] in Hok.
  - (* Sync *) destruct Hok as (Hs & Hn). wire_compute.
    unbe_rewrite s 6%nat. unbe_rewrite n 4%nat. change (256 ^ Z.of_nat 6) with (2 ^ 48). change (256 ^ Z.of_nat 4) with (2 ^ 32).
    rewrite !Z.mod_small by lia. replace (n >? 1000000000) with false by lia. reflexivity.
  - destruct Hok as (Hs & Hn). wire_compute.
    unbe_rewrite s 6%nat. unbe_rewrite n 4%nat. change (256 ^ Z.of_nat 6) with (2 ^ 48). change (256 ^ Z.of_nat 4) with (2 ^ 32).
    rewrite !Z.mod_small by lia. replace (n >? 1000000000) with false by lia. reflexivity.
  - destruct Hok as (Hs & Hn). wire_compute.
    unbe_rewrite s 6%nat. unbe_rewrite n 4%nat. change (256 ^ Z.of_nat 6) with (2 ^ 48). change (256 ^ Z.of_nat 4) with (2 ^ 32).
    rewrite !Z.mod_small by lia. replace (n >? 1000000000) with false by lia. reflexivity.
  - destruct Hok as ((Hs & Hn) & Hck & Hcl & Hpt). destruct (length8 _ Hcl) as (c0 & c1 & c2 & c3 & c4 & c5 & c6 & c7 & ->). wire_compute.
    unbe_rewrite s 6%nat. unbe_rewrite n 4%nat. unbe_rewrite pt 2%nat.
    change (256 ^ Z.of_nat 6) with (2 ^ 48). change (256 ^ Z.of_nat 4) with (2 ^ 32). change (256 ^ Z.of_nat 2) with 65536.
    rewrite !Z.mod_small by lia. replace (n >? 1000000000) with false by lia. reflexivity.
  - destruct Hok as (Hs & Hn). wire_compute.
    unbe_rewrite s 6%nat. unbe_rewrite n 4%nat. change (256 ^ Z.of_nat 6) with (2 ^ 48). change (256 ^ Z.of_nat 4) with (2 ^ 32).
    rewrite !Z.mod_small by lia. replace (n >? 1000000000) with false by lia. reflexivity.
  - destruct Hok as ((Hs & Hn) & Hck & Hcl & Hpt). destruct (length8 _ Hcl) as (c0 & c1 & c2 & c3 & c4 & c5 & c6 & c7 & ->). wire_compute.
    unbe_rewrite s 6%nat. unbe_rewrite n 4%nat. unbe_rewrite pt 2%nat.
    change (256 ^ Z.of_nat 6) with (2 ^ 48). change (256 ^ Z.of_nat 4) with (2 ^ 32). change (256 ^ Z.of_nat 2) with 65536.
    rewrite !Z.mod_small by lia. replace (n >? 1000000000) with false by lia. reflexivity.
  - destruct Hok as ((Hs & Hn) & Hck & Hcl & Hpt). destruct (length8 _ Hcl) as (c0 & c1 & c2 & c3 & c4 & c5 & c6 & c7 & ->). wire_compute.
    unbe_rewrite s 6%nat. unbe_rewrite n 4%nat. unbe_rewrite pt 2%nat.
    change (256 ^ Z.of_nat 6) with (2 ^ 48). change (256 ^ Z.of_nat 4) with (2 ^ 32). change (256 ^ Z.of_nat 2) with 65536.
    rewrite !Z.mod_small by lia. replace (n >? 1000000000) with false by lia. reflexivity.
  - (* Announce *)
    destruct Hok as ((Hs & Hn) & Hutc & Hp1 & (Hcls & Hacc & Hvar) & Hp2 & Hgm & Hgl & Hsteps & Hsrc).
    destruct (length8 _ Hgl) as (c0 & c1 & c2 & c3 & c4 & c5 & c6 & c7 & ->).
    cbn [body_encodable cq_acc] in He. apply andb_prop in He. destruct He as [Hea Het].
    destruct (acc_roundtrip acc Hacc Hea) as [Ra _]. pose proof (tsrc_roundtrip src Het) as Rt.
    wire_compute.
    unbe_rewrite s 6%nat. unbe_rewrite n 4%nat. unbe_rewrite utc 2%nat. unbe_rewrite var 2%nat. unbe_rewrite steps 2%nat.
    change (256 ^ Z.of_nat 6) with (2 ^ 48). change (256 ^ Z.of_nat 4) with (2 ^ 32). change (256 ^ Z.of_nat 2) with (2 ^ 16).
    rewrite (to_signed_wrap 16 utc) by lia. change (2 ^ 16) with 65536.
    rewrite !Z.mod_small by lia. replace (n >? 1000000000) with false by lia.
    rewrite Ra, Rt. reflexivity.
  - destruct Hok as (Hck & Hcl & Hpt). destruct (length8 _ Hcl) as (c0 & c1 & c2 & c3 & c4 & c5 & c6 & c7 & ->). wire_compute.
    unbe_rewrite pt 2%nat. change (256 ^ Z.of_nat 2) with 65536. rewrite !Z.mod_small by lia. reflexivity.
  - destruct Hok as ((Hck & Hcl & Hpt) & Hsh & Hhp). destruct (length8 _ Hcl) as (c0 & c1 & c2 & c3 & c4 & c5 & c6 & c7 & ->). wire_compute.
    unbe_rewrite pt 2%nat. change (256 ^ Z.of_nat 2) with 65536. rewrite !Z.mod_small by lia.
    destruct (action_roundtrip act) as [-> _]. reflexivity.
Qed.
