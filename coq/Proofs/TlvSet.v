(* Lemmas on TLV-set scanning and iteration (model PtpWire.v), shared by C41, C44, C45. *)
From V Require Import Model.PtpWire.

Lemma tlv_scan_total_len : forall f buf t n,
  tlv_scan f buf t = Ok n -> n = (t + length buf)%nat.
Proof.
  induction f; intros buf t n H; cbn [tlv_scan] in H; [discriminate|].
  destruct (4 <=? length buf)%nat eqn:E4.
  - destruct (Z.odd _); [discriminate|].
    destruct (length buf <? 4 + Z.to_nat _)%nat eqn:El; [discriminate|].
    apply IHf in H. rewrite skipn_length in H.
    apply Nat.ltb_ge in El. lia.
  - destruct (length buf =? 0)%nat eqn:E0; [|discriminate].
    apply Nat.eqb_eq in E0. inversion H. lia.
Qed.

(* a validated set: scanning succeeds *)
Definition tlv_valid (set : bytes) : Prop := exists n, tlv_scan (S (length set)) set 0 = Ok n.

Lemma tlvset_de_ok : forall buf s, tlvset_de buf = Ok s -> s = buf /\ tlv_valid buf.
Proof.
  unfold tlvset_de, tlv_valid. intros buf s H.
  destruct (tlv_scan (S (length buf)) buf 0) as [n| |] eqn:E; cbn in H; try discriminate.
  inversion H; subst. pose proof (tlv_scan_total_len _ _ _ _ E) as L. cbn in L. subst n.
  rewrite firstn_all. split; [reflexivity|eauto].
Qed.

Lemma tlvset_de_no_panic : forall buf s, tlvset_de buf <> Panic s.
Proof.
  unfold tlvset_de. intros buf s.
  assert (forall f b t s, tlv_scan f b t <> Panic s) as N.
  { induction f; intros b t s0; cbn [tlv_scan]; [discriminate|].
    destruct (4 <=? length b)%nat.
    - destruct (Z.odd _); [discriminate|]. destruct (_ <? _)%nat; [discriminate|]. apply IHf.
    - destruct (_ =? _)%nat; discriminate. }
  destruct (tlv_scan _ buf 0) eqn:E; cbn; try discriminate. intro H; inversion H; subst. exact (N _ _ _ _ E).
Qed.

Lemma tlv_scan_iter : forall f buf t n,
  tlv_scan f buf t = Ok n -> exists l, tlv_iter f buf = Ok l.
Proof.
  induction f; intros buf t n H; cbn [tlv_scan] in H; [discriminate|]. cbn [tlv_iter]. cbv zeta.
  destruct (4 <=? length buf)%nat eqn:E4.
  - destruct (Z.odd _); [discriminate|].
    destruct (length buf <? 4 + Z.to_nat _)%nat eqn:El; [discriminate|].
    apply Nat.leb_le in E4. replace (length buf <? 4)%nat with false by (symmetry; apply Nat.ltb_ge; lia).
    destruct (IHf _ _ _ H) as [l Hl]. rewrite Hl. cbn. eauto.
  - apply Nat.leb_gt in E4. replace (length buf <? 4)%nat with true by (symmetry; apply Nat.ltb_lt; lia). eauto.
Qed.

(* iterating a validated set never reaches the unwrap *)
Lemma tlvs_valid_ok : forall set, tlv_valid set -> exists l, tlvs set = Ok l.
Proof. intros set [n H]. unfold tlvs. eapply tlv_scan_iter; eauto. Qed.

(* ---------- sets made by the builder ---------- *)
From Coq Require Import ZifyBool.
Ltac Zify.zify_post_hook ::= Z.div_mod_to_equations.

Lemma be2_shape : forall v, be 2 v = [(v / 256) mod 256; v mod 256].
Proof. intros. reflexivity. Qed.

Lemma unbe_be2 : forall v, 0 <= v < 65536 -> unbe (be 2 v) = v.
Proof. intros v H. rewrite be2_shape. unfold unbe. cbn. lia. Qed.

Definition tlv_wf (t : tlv) : Prop := 0 <= fst t < 65536 /\ Z.of_nat (length (snd t)) <= 65535.
Definition tlv_concat (ts : list tlv) : bytes := concat (map tlv_ser ts).

Lemma tlv_ser_length : forall t, length (tlv_ser t) = (4 + length (snd t))%nat.
Proof. intros [ty v]. unfold tlv_ser. rewrite !app_length. cbn. reflexivity. Qed.

Lemma tlv_ser_head : forall t rest, tlv_wf t ->
  let buf := tlv_ser t ++ rest in
  unbe [byte 0 buf; byte 1 buf] = fst t
  /\ Z.to_nat (unbe [byte 2 buf; byte 3 buf]) = length (snd t)
  /\ skipn (4 + length (snd t)) buf = rest
  /\ slice 4 (4 + length (snd t)) buf = snd t.
Proof.
  intros [ty v] rest [Hty Hlen]. cbn [fst snd] in *. cbv zeta. unfold tlv_ser. cbn [fst snd].
  rewrite !be2_shape. cbn [app byte nth].
  pose proof (unbe_be2 ty Hty) as A. rewrite be2_shape in A.
  assert (0 <= Z.of_nat (length v) < 65536) as Hl by lia.
  pose proof (unbe_be2 _ Hl) as B. rewrite be2_shape in B.
  repeat split.
  - exact A.
  - rewrite B. apply Nat2Z.id.
  - cbn [plus skipn]. rewrite skipn_app, skipn_all, Nat.sub_diag. reflexivity.
  - unfold slice. cbn [skipn]. replace (4 + length v - 4)%nat with (length v) by lia.
    rewrite firstn_app, firstn_all, Nat.sub_diag. cbn. apply app_nil_r.
Qed.

Lemma tlv_iter_cons : forall f t rest, tlv_wf t ->
  tlv_iter (S f) (tlv_ser t ++ rest) = (do r <- tlv_iter f rest; Ok (t :: r)).
Proof.
  intros f t rest W. destruct (tlv_ser_head t rest W) as (A & B & C & D).
  cbn [tlv_iter]. cbv zeta. rewrite A, B, C, D.
  rewrite app_length, tlv_ser_length.
  replace (4 + length (snd t) + length rest <? 4)%nat with false by (symmetry; apply Nat.ltb_ge; lia).
  replace (4 + length (snd t) + length rest <? 4 + length (snd t))%nat with false by (symmetry; apply Nat.ltb_ge; lia).
  destruct t; reflexivity.
Qed.

Lemma tlv_iter_concat : forall ts f, Forall tlv_wf ts -> (length ts < f)%nat ->
  tlv_iter f (tlv_concat ts) = Ok ts.
Proof.
  induction ts as [|t r IH]; intros f W L.
  - destruct f; [lia|]. reflexivity.
  - destruct f; [cbn in L; lia|]. inversion W; subst.
    unfold tlv_concat. cbn [map concat]. rewrite tlv_iter_cons by assumption.
    fold (tlv_concat r). rewrite IH; auto. cbn in L. lia.
Qed.

Lemma tlv_concat_length : forall ts, (4 * length ts <= length (tlv_concat ts))%nat.
Proof.
  induction ts as [|t r IH]; [cbn; lia|]. unfold tlv_concat in *. cbn [map concat length].
  rewrite app_length, tlv_ser_length. lia.
Qed.

Lemma tlvs_concat : forall ts, Forall tlv_wf ts -> tlvs (tlv_concat ts) = Ok ts.
Proof.
  intros ts W. unfold tlvs. apply tlv_iter_concat; auto.
  pose proof (tlv_concat_length ts). lia.
Qed.

Lemma odd_of_nat : forall n, Z.odd (Z.of_nat n) = Nat.odd n.
Proof.
  fix IH 1. intros [|[|n]]; [reflexivity|reflexivity|].
  replace (Z.of_nat (S (S n))) with (Z.of_nat n + 2) by lia.
  rewrite Z.odd_add, IH. cbn [Z.odd]. rewrite xorb_false_r.
  change (Nat.odd (S (S n))) with (negb (Nat.even (S (S n)))). cbn [Nat.even]. reflexivity.
Qed.

Definition tlv_even (t : tlv) : Prop := Nat.odd (length (snd t)) = false.

Lemma tlv_scan_cons : forall f t rest tot, tlv_wf t -> tlv_even t ->
  tlv_scan (S f) (tlv_ser t ++ rest) tot = tlv_scan f rest (tot + 4 + length (snd t)).
Proof.
  intros f t rest tot W Ev. destruct (tlv_ser_head t rest W) as (A & B & C & D).
  cbn [tlv_scan]. cbv zeta.
  rewrite app_length, tlv_ser_length.
  replace (4 <=? 4 + length (snd t) + length rest)%nat with true by (symmetry; apply Nat.leb_le; lia).
  assert (unbe [byte 2 (tlv_ser t ++ rest); byte 3 (tlv_ser t ++ rest)] = Z.of_nat (length (snd t))) as E.
  { destruct W as [_ Hl]. destruct t as [ty v]. unfold tlv_ser. cbn [fst snd] in *. rewrite !be2_shape. cbn [app byte nth].
    assert (0 <= Z.of_nat (length v) < 65536) as Hl' by lia.
    pose proof (unbe_be2 _ Hl') as B'. rewrite be2_shape in B'. exact B'. }
  rewrite E, Nat2Z.id, odd_of_nat, Ev, C.
  replace (4 + length (snd t) + length rest <? 4 + length (snd t))%nat with false by (symmetry; apply Nat.ltb_ge; lia).
  reflexivity.
Qed.

Lemma tlv_scan_concat : forall ts f tot, Forall tlv_wf ts -> Forall tlv_even ts -> (length ts < f)%nat ->
  tlv_scan f (tlv_concat ts) tot = Ok (tot + length (tlv_concat ts))%nat.
Proof.
  induction ts as [|t r IH]; intros f tot W Ev L.
  - destruct f; [lia|]. cbn. f_equal. lia.
  - destruct f; [cbn in L; lia|]. inversion W; inversion Ev; subst.
    unfold tlv_concat. cbn [map concat]. rewrite tlv_scan_cons by assumption.
    fold (tlv_concat r). rewrite IH; auto; [|cbn in L; lia].
    f_equal. rewrite app_length, tlv_ser_length. lia.
Qed.

Lemma tlv_concat_valid : forall ts, Forall tlv_wf ts -> Forall tlv_even ts -> tlv_valid (tlv_concat ts).
Proof.
  intros ts W Ev. exists (0 + length (tlv_concat ts))%nat. apply tlv_scan_concat; auto.
  pose proof (tlv_concat_length ts). lia.
Qed.

Lemma tlvset_de_concat : forall ts, Forall tlv_wf ts -> Forall tlv_even ts -> tlvset_de (tlv_concat ts) = Ok (tlv_concat ts).
Proof.
  intros ts W Ev. unfold tlvset_de. rewrite tlv_scan_concat; auto.
  - cbn. rewrite firstn_all. reflexivity.
  - pose proof (tlv_concat_length ts). lia.
Qed.

(* what the builder accepts *)
Lemma builder_add_ok : forall cap used t u,
  builder_add cap used t = Ok u ->
  u = used ++ tlv_ser t /\ tlv_even t /\ Z.of_nat (length (snd t)) <= 65535 /\ (length u <= cap)%nat.
Proof.
  intros cap used t u H. unfold builder_add in H. cbv zeta in H.
  destruct (Nat.odd _) eqn:Eo; [discriminate|].
  destruct (65535 <? _) eqn:El; [discriminate|].
  destruct (_ <? _)%nat eqn:Ec; [discriminate|]. inversion H; subst.
  apply Nat.ltb_ge in Ec. repeat split; auto; try lia.
  rewrite app_length, tlv_ser_length. lia.
Qed.

Lemma builder_add_all_ok : forall ts cap used u,
  builder_add_all cap used ts = Ok u ->
  u = used ++ tlv_concat ts /\ Forall tlv_even ts /\ Forall (fun t => Z.of_nat (length (snd t)) <= 65535) ts /\ (length used <= cap -> length u <= cap)%nat.
Proof.
  induction ts as [|t r IH]; intros cap used u H; cbn in H.
  - inversion H; subst. unfold tlv_concat. cbn. rewrite app_nil_r. auto.
  - destruct (builder_add cap used t) as [u1| |] eqn:E1; cbn in H; try discriminate.
    apply builder_add_ok in E1. destruct E1 as (-> & Ev & Hl & Hc).
    apply IH in H. destruct H as (-> & Evs & Hls & Hcs).
    unfold tlv_concat. cbn [map concat]. rewrite app_assoc. repeat split; auto.
Qed.
