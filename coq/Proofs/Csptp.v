(* Proofs about the CSPTP server model (C45). *)
From V Require Import Model.Csptp Proofs.TlvSet Proofs.WireBytes Proofs.CsptpMsg.
From V Require Import Gen.ConstCsptp.

Ltac destr_if H := match type of H with (if ?c then _ else _) = _ => destruct c eqn:? end.

Lemma Ok_inj : forall {A} (a b : A), Ok a = Ok b -> a = b.
Proof. intros A a b H. injection H. auto. Qed.

(* ---------- counting ---------- *)
Lemma filter_sub_all : forall {A} (f g : A -> bool) l,
  (forall x, g x = true -> f x = true) ->
  length (filter f l) = length (filter g l) ->
  forall x, In x l -> f x = true -> g x = true.
Proof.
  intros A f g l Hsub. induction l as [|a r IH]; intros Hlen x Hin Hf; [destruct Hin|].
  assert (forall l', length (filter g l') <= length (filter f l'))%nat as Hle.
  { induction l' as [|b r' IH']; cbn; [lia|]. destruct (g b) eqn:Eg.
    - rewrite (Hsub _ Eg). cbn. lia.
    - destruct (f b); cbn; lia. }
  cbn in Hlen. destruct (f a) eqn:Ef; destruct (g a) eqn:Eg; cbn in Hlen.
  - destruct Hin as [->|Hin]; [assumption|]. apply IH; auto.
  - pose proof (Hle r). lia.
  - rewrite (Hsub _ Eg) in Ef. discriminate.
  - destruct Hin as [->|Hin]; [congruence|]. apply IH; auto.
Qed.

Lemma existsb_count : forall {A} (f : A -> bool) l, existsb f l = true -> (1 <= count_if f l)%nat.
Proof.
  intros A f l. unfold count_if. induction l as [|a r IH]; cbn; [discriminate|].
  destruct (f a); cbn; [lia|]. exact IH.
Qed.

(* ---------- well-formed CSPTP request, spelled out ---------- *)
Definition wf_request (pkt : bytes) (req : message) : Prop :=
  msg_deserialize pkt = Ok req
  /\ h_sdo (m_header req) = 768 /\ h_vmajor (m_header req) = 2
  /\ (exists origin, m_body req = Sync origin)
  /\ exists ts, tlvs (m_suffix req) = Ok ts
       /\ count_if (fun t => fst t =? 65280) ts = 1%nat          (* exactly one CSPTP request TLV ... *)
       /\ (forall t, In t ts -> fst t = 65280 -> snd t <> [])    (* ... with a flags octet *)
       /\ count_if (fun t => fst t =? 65281) ts = 0%nat.         (* and no CSPTP response TLV *)

Lemma request_is_wf : forall pkt req,
  csptp_deserialize pkt = Ok req -> is_request req = Ok true -> wf_request pkt req.
Proof.
  intros pkt req Hd Hr. pose proof (csptp_deserialize_ok _ _ Hd) as (E & V & Hs & Hv).
  unfold is_request in Hr. destruct (m_body req) as [origin| | | | | | | | | ] eqn:Eb; cbn [is_sync] in Hr; try discriminate.
  destruct (csptp_deserialize_sync _ _ _ Hd Eb) as (ts & Hts & Hone & Hreq & Hresp).
  unfold has_tlv in Hr. rewrite Hts in Hr. cbn [res_bind] in Hr. inversion Hr as [Hex]; clear Hr.
  apply existsb_count in Hex. change TLV_CSPTP_REQUEST with 65280 in *. change TLV_CSPTP_RESPONSE with 65281 in *.
  split; [exact E|]. split; [exact Hs|]. split; [exact Hv|]. split; [eauto|].
  exists ts. split; [exact Hts|]. unfold tlv in *. split; [lia|]. split; [|lia].
  intros t Hin Hty.
  assert (is_some (req_tlv_try t) = true) as S.
  { eapply (filter_sub_all (fun t => fst t =? 65280) (fun t => is_some (req_tlv_try t))); eauto.
    - intros x. unfold req_tlv_try. change TLV_CSPTP_REQUEST with 65280. destruct (fst x =? 65280); [reflexivity|discriminate].
    - cbn. apply Z.eqb_eq. exact Hty. }
  unfold req_tlv_try in S. change TLV_CSPTP_REQUEST with 65280 in S. rewrite Hty in S. cbn in S.
  intro Hn. rewrite Hn in S. discriminate.
Qed.

(* ---------- the response ---------- *)
Lemma resp_tlv_roundtrip : forall r, ts_ok (rt_ingress r) -> - 2 ^ 63 <= rt_correction r < 2 ^ 63 ->
  resp_tlv_try (resp_tlv_make r) = Some r.
Proof.
  intros [ts c] Hts Hc. cbn [rt_ingress rt_correction] in *. unfold resp_tlv_try, resp_tlv_make. cbn [fst snd].
  rewrite Z.eqb_refl. rewrite app_length, ts_ser_length, be_length. cbn [Nat.ltb Nat.leb plus].
  rewrite (slice_0 (ts_ser ts)) by apply ts_ser_length. rewrite ts_de_ser_exact by assumption.
  cbn [rt_ingress rt_correction]. rewrite <- (app_nil_r (be 8 c)). rewrite (slice_mid (ts_ser ts) (be 8 c) [] 10 18) by (rewrite ?ts_ser_length, ?be_length; reflexivity).
  rewrite unbe_be. change (256 ^ Z.of_nat 8) with (2 ^ 64). rewrite to_signed_wrap by lia. reflexivity.
Qed.

Lemma resp_tlv_wf : forall r, tlv_wf (resp_tlv_make r).
Proof.
  intros r. unfold tlv_wf, resp_tlv_make. cbn [fst snd]. rewrite app_length, ts_ser_length, be_length.
  change TLV_CSPTP_RESPONSE with 65281. cbn. lia.
Qed.

Record response_facts (req resp : message) (recv_ts : timestamp) : Prop := mkRF {
  rf_domain : h_domain (m_header resp) = h_domain (m_header req);
  rf_seq : h_seq (m_header resp) = h_seq (m_header req);
  rf_two_step : h_two_step (m_header resp) = true;
  rf_sdo : h_sdo (m_header resp) = 768;
  rf_body : m_body resp = Sync (mkTs 0 0);
  rf_tlvs : exists extra,
      tlvs (m_suffix resp) = Ok (resp_tlv_make (mkRespTlv recv_ts (h_correction (m_header req))) :: extra)
      /\ tlv_valid (m_suffix resp) }.

Lemma new_response_facts : forall cap req recv_ts st resp,
  new_response cap req recv_ts st = Ok resp -> response_facts req resp recv_ts.
Proof.
  intros cap req recv_ts st resp H. unfold new_response in H.
  destr_if H; [discriminate|].
  destruct (tlvs (m_suffix req)) as [tsr| |]; cbn [res_bind] in H; try discriminate.
  destruct (find_map req_tlv_try tsr) as [[want alt]|]; [|discriminate].
  remember (resp_tlv_make (mkRespTlv recv_ts (h_correction (m_header req)))) as t1 eqn:Et1.
  destruct (builder_add cap [] t1) as [b1| |] eqn:E1; cbn [res_bind] in H; try discriminate.
  apply builder_add_ok in E1. destruct E1 as (-> & Ev1 & L1 & _). change ([] ++ tlv_ser t1) with (tlv_ser t1) in H.
  assert (tlv_wf t1) as W1 by (subst t1; apply resp_tlv_wf).
  destruct want.
  - destruct (status_tlv_make _) as [t2| |] eqn:Es; cbn [res_bind] in H; try discriminate.
    destruct (builder_add cap (tlv_ser t1) t2) as [b2| |] eqn:E2; cbn [res_bind] in H; try discriminate.
    apply builder_add_ok in E2. destruct E2 as (-> & Ev2 & L2 & _).
    assert (tlv_wf t2) as W2.
    { unfold status_tlv_make in Es. destr_if Es; [discriminate|]. inversion Es; subst. split; [cbn; change TLV_CSPTP_STATUS with 61442; lia|exact L2]. }
    apply Ok_inj in H. subst resp. constructor; try reflexivity.
    match goal with |- context [m_suffix (mkMsg ?h ?b ?sf)] => change (m_suffix (mkMsg h b sf)) with sf end. rewrite <- Et1.
    exists [t2]. replace (tlv_ser t1 ++ tlv_ser t2) with (tlv_concat [t1; t2]) by (unfold tlv_concat; cbn; rewrite app_nil_r; reflexivity).
    split; [apply tlvs_concat; auto|apply tlv_concat_valid; auto].
  - apply Ok_inj in H. subst resp. constructor; try reflexivity.
    match goal with |- context [m_suffix (mkMsg ?h ?b ?sf)] => change (m_suffix (mkMsg h b sf)) with sf end. rewrite <- Et1.
    exists []. replace (tlv_ser t1) with (tlv_concat [t1]) by (unfold tlv_concat; cbn; rewrite app_nil_r; reflexivity).
    split; [apply tlvs_concat; auto|apply tlv_concat_valid; auto].
Qed.

(* ---------- the follow-up ---------- *)
Lemma new_follow_up_ok : forall req resp recv_ts send_ts,
  response_facts req resp recv_ts ->
  new_follow_up resp send_ts =
    Ok (mkMsg (set_two_step (csptp_header (h_domain (m_header req)) (h_seq (m_header req)))) (FollowUp send_ts) []).
Proof.
  intros req resp recv_ts send_ts F. destruct F as [Hd Hs H2 _ Hb [extra [Ht _]]].
  unfold new_follow_up, is_response, has_tlv. rewrite Hb. cbn [is_sync]. rewrite Ht. cbn [res_bind existsb].
  unfold resp_tlv_make at 1. cbn [fst]. rewrite Z.eqb_refl. cbn [orb negb]. rewrite H2, Hd, Hs. reflexivity.
Qed.

Lemma follow_up_serialize_ok : forall domain seq send_ts,
  exists d, msg_serialize (mkMsg (set_two_step (csptp_header domain seq)) (FollowUp send_ts) []) (zero_buf MAX_MESSAGE_SIZE) = Ok d.
Proof. intros. eexists. vm_compute. reflexivity. Qed.

(* ---------- structure of handle_packet ---------- *)
Inductive handled (st : server_state) (pkt : bytes) (recv_ts : timestamp) (se : option timestamp)
  : list (Z * bytes) -> Prop :=
| H_silent : handled st pkt recv_ts se []
| H_answer : forall req resp d1,
    csptp_deserialize pkt = Ok req -> is_request req = Ok true ->
    new_response (Z.to_nat RESPONSE_TLV_BUFFER) req recv_ts st = Ok resp ->
    msg_serialize resp (zero_buf MAX_MESSAGE_SIZE) = Ok d1 ->
    se = None ->
    handled st pkt recv_ts se [(CH_EVENT, d1)]
| H_two : forall req resp d1 send_ts fu d2,
    csptp_deserialize pkt = Ok req -> is_request req = Ok true ->
    new_response (Z.to_nat RESPONSE_TLV_BUFFER) req recv_ts st = Ok resp ->
    msg_serialize resp (zero_buf MAX_MESSAGE_SIZE) = Ok d1 ->
    se = Some send_ts ->
    fu = mkMsg (set_two_step (csptp_header (h_domain (m_header req)) (h_seq (m_header req)))) (FollowUp send_ts) [] ->
    msg_serialize fu (zero_buf MAX_MESSAGE_SIZE) = Ok d2 ->
    handled st pkt recv_ts se [(CH_EVENT, d1); (CH_GENERAL, d2)].

Lemma is_request_total : forall req, tlv_valid (m_suffix req) -> exists b, is_request req = Ok b.
Proof.
  intros req V. unfold is_request, has_tlv. destruct (is_sync _); [|eauto].
  destruct (tlvs_valid_ok _ V) as [l ->]. cbn. eauto.
Qed.

Lemma builder_add_no_panic : forall cap u t s, builder_add cap u t <> Panic s.
Proof. intros. unfold builder_add. cbv zeta. repeat (match goal with |- context [if ?c then _ else _] => destruct c end); discriminate. Qed.

Lemma status_tlv_make_no_panic : forall x s, status_tlv_make x <> Panic s.
Proof. intros. unfold status_tlv_make. destruct (negb _); discriminate. Qed.

Lemma new_response_no_panic : forall cap req recv_ts st s, tlv_valid (m_suffix req) -> new_response cap req recv_ts st <> Panic s.
Proof.
  intros cap req recv_ts st s V H. unfold new_response in H. destr_if H; [discriminate|].
  destruct (tlvs_valid_ok _ V) as [l Hl]. rewrite Hl in H. cbn [res_bind] in H.
  destruct (find_map req_tlv_try l) as [[want alt]|]; [|discriminate].
  destruct (builder_add cap [] _) as [b1|e|s0] eqn:E1; cbn [res_bind] in H; [|discriminate|].
  2:{ eapply builder_add_no_panic; eauto. }
  destruct want; [|discriminate].
  destruct (status_tlv_make _) as [t|e|s0] eqn:E2; cbn [res_bind] in H; [|discriminate|].
  2:{ eapply status_tlv_make_no_panic; eauto. }
  destruct (builder_add cap b1 t) as [b2|e|s0] eqn:E3; cbn [res_bind] in H; [discriminate|discriminate|].
  eapply builder_add_no_panic; eauto.
Qed.

Lemma msg_serialize_no_panic : forall m buf s, msg_serialize m buf <> Panic s.
Proof. intros m buf s. unfold msg_serialize. cbv zeta. repeat (match goal with |- context [if ?c then _ else _] => destruct c end); discriminate. Qed.

Theorem handle_packet_handled : forall st pkt recv_ts se,
  exists l, handle_packet st pkt recv_ts se = Ok l /\ handled st pkt recv_ts se l.
Proof.
  intros st pkt recv_ts se. unfold handle_packet.
  destruct (csptp_deserialize pkt) as [req|e|s] eqn:Ed.
  2:{ eexists; split; [reflexivity|constructor]. }
  2:{ exfalso. eapply csptp_deserialize_no_panic; eauto. }
  pose proof (csptp_deserialize_ok _ _ Ed) as (_ & V & _).
  destruct (is_request_total req V) as [isreq Hr]. rewrite Hr. cbn [res_bind].
  destruct isreq; cbn [negb]; [|eexists; split; [reflexivity|constructor]].
  destruct (new_response _ req recv_ts st) as [resp|e|s] eqn:En.
  2:{ eexists; split; [reflexivity|constructor]. }
  2:{ exfalso. eapply new_response_no_panic; eauto. }
  destruct (msg_serialize resp _) as [d1|e|s] eqn:Es1.
  2:{ eexists; split; [reflexivity|constructor]. }
  2:{ exfalso. eapply msg_serialize_no_panic; eauto. }
  destruct se as [send_ts|]; [|eexists; split; [reflexivity|eapply H_answer; eauto]].
  pose proof (new_response_facts _ _ _ _ _ En) as F.
  rewrite (new_follow_up_ok _ _ _ send_ts F).
  destruct (follow_up_serialize_ok (h_domain (m_header req)) (h_seq (m_header req)) send_ts) as [d2 Hd2].
  rewrite Hd2. eexists; split; [reflexivity|eapply H_two; eauto].
Qed.

(* ---------- the property theorems ---------- *)
Theorem handle_packet_total : forall st pkt recv_ts se, exists l, handle_packet st pkt recv_ts se = Ok l.
Proof. intros. destruct (handle_packet_handled st pkt recv_ts se) as [l [H _]]. eauto. Qed.

Lemma handled_of : forall st pkt recv_ts se l, handle_packet st pkt recv_ts se = Ok l -> handled st pkt recv_ts se l.
Proof. intros st pkt recv_ts se l H. destruct (handle_packet_handled st pkt recv_ts se) as [l' [H' Hh]]. congruence. Qed.

Theorem only_requests : forall st pkt recv_ts se l,
  handle_packet st pkt recv_ts se = Ok l -> l <> [] -> exists req, wf_request pkt req.
Proof.
  intros st pkt recv_ts se l H Hne. apply handled_of in H. destruct H; [congruence| |]; eexists; eapply request_is_wf; eauto.
Qed.

Lemma parsed_correction_range : forall pkt req, msg_deserialize pkt = Ok req ->
  - 2 ^ 63 <= h_correction (m_header req) < 2 ^ 63.
Proof.
  intros pkt req H. rewrite (msg_deserialize_header _ _ H). unfold de_header. cbn [fst h_correction].
  apply (to_signed_range 64). lia.
Qed.

(* the answer: first datagram, on the event channel *)
Theorem echo : forall st pkt recv_ts se ch d1 rest,
  handle_packet st pkt recv_ts se = Ok ((ch, d1) :: rest) -> ts_ok recv_ts ->
  exists req resp extra,
    wf_request pkt req /\ ch = CH_EVENT
    /\ msg_serialize resp (zero_buf MAX_MESSAGE_SIZE) = Ok d1
    /\ h_sdo (m_header resp) = 768
    /\ h_domain (m_header resp) = h_domain (m_header req)
    /\ h_seq (m_header resp) = h_seq (m_header req)
    /\ h_two_step (m_header resp) = true
    /\ (exists origin, m_body resp = Sync origin)
    /\ tlvs (m_suffix resp) = Ok (resp_tlv_make (mkRespTlv recv_ts (h_correction (m_header req))) :: extra)
    /\ find_map resp_tlv_try (resp_tlv_make (mkRespTlv recv_ts (h_correction (m_header req))) :: extra)
       = Some (mkRespTlv recv_ts (h_correction (m_header req))).
Proof.
  intros st pkt recv_ts se ch d1 rest H Hts. apply handled_of in H.
  assert (forall req resp, csptp_deserialize pkt = Ok req -> is_request req = Ok true ->
            new_response (Z.to_nat RESPONSE_TLV_BUFFER) req recv_ts st = Ok resp ->
            msg_serialize resp (zero_buf MAX_MESSAGE_SIZE) = Ok d1 -> ch = CH_EVENT ->
            exists req resp extra,
              wf_request pkt req /\ ch = CH_EVENT
              /\ msg_serialize resp (zero_buf MAX_MESSAGE_SIZE) = Ok d1
              /\ h_sdo (m_header resp) = 768
              /\ h_domain (m_header resp) = h_domain (m_header req)
              /\ h_seq (m_header resp) = h_seq (m_header req)
              /\ h_two_step (m_header resp) = true
              /\ (exists origin, m_body resp = Sync origin)
              /\ tlvs (m_suffix resp) = Ok (resp_tlv_make (mkRespTlv recv_ts (h_correction (m_header req))) :: extra)
              /\ find_map resp_tlv_try (resp_tlv_make (mkRespTlv recv_ts (h_correction (m_header req))) :: extra)
                 = Some (mkRespTlv recv_ts (h_correction (m_header req)))) as K.
  { intros req resp Hd Hr Hn Hs Hc.
    pose proof (request_is_wf _ _ Hd Hr) as W.
    destruct (new_response_facts _ _ _ _ _ Hn) as [F1 F2 F3 F4 F5 [extra [F6 _]]].
    exists req, resp, extra.
    split; [exact W|]. split; [exact Hc|]. split; [exact Hs|]. split; [exact F4|]. split; [exact F1|].
    split; [exact F2|]. split; [exact F3|]. split; [eauto|]. split; [exact F6|].
    cbn [find_map]. rewrite resp_tlv_roundtrip; [reflexivity|exact Hts|].
    cbn [rt_correction]. destruct W as [Hm _]. eapply parsed_correction_range; eauto. }
  inversion H; subst; eapply K; eauto.
Qed.

(* the second datagram: present exactly when send_event reported a send time, a follow-up with the
   same ids carrying that time, on the general channel *)
Theorem follow_up : forall st pkt recv_ts se l,
  handle_packet st pkt recv_ts se = Ok l -> l <> [] ->
  match se with
  | None => exists d1, l = [(CH_EVENT, d1)]
  | Some send_ts =>
      exists req d1 d2 fu,
        wf_request pkt req /\ l = [(CH_EVENT, d1); (CH_GENERAL, d2)]
        /\ msg_serialize fu (zero_buf MAX_MESSAGE_SIZE) = Ok d2
        /\ m_body fu = FollowUp send_ts /\ m_suffix fu = []
        /\ h_sdo (m_header fu) = 768
        /\ h_domain (m_header fu) = h_domain (m_header req)
        /\ h_seq (m_header fu) = h_seq (m_header req)
        /\ h_two_step (m_header fu) = true
  end.
Proof.
  intros st pkt recv_ts se l H Hne. apply handled_of in H. destruct H; [congruence| |].
  - subst se. eexists. reflexivity.
  - subst se. exists req, d1, d2, fu. subst fu.
    split; [eapply request_is_wf; eauto|]. repeat split; auto.
Qed.

Example census_server : PANIC_SITES_SERVER = 0. Proof. reflexivity. Qed.
