(* f64::clamp on binary64 (Coq primitive floats): the result is within [lo, hi], or NaN
   exactly when the argument is NaN.  Uses Flocq's correspondence between the primitive
   comparisons and the comparison of IEEE 754 binary floats. *)
From V Require Import Model.FloatBits.
From Flocq Require IEEE754.BinarySingleNaN IEEE754.PrimFloat.

Module BS := Flocq.IEEE754.BinarySingleNaN.
Module FP := Flocq.IEEE754.PrimFloat.

Definition fnan (x : float) : bool := negb (x =? x)%float.

Notation bcmp x y := (BS.Bcompare (FP.Prim2B x) (FP.Prim2B y)).

Lemma ltb_cmp x y : (x <? y)%float = match bcmp x y with Some Lt => true | _ => false end.
Proof. rewrite FP.ltb_equiv. reflexivity. Qed.

Lemma leb_cmp x y : (x <=? y)%float = match bcmp x y with Some Lt | Some Eq => true | _ => false end.
Proof. rewrite FP.leb_equiv. reflexivity. Qed.

Lemma eqb_cmp x y : (x =? y)%float = match bcmp x y with Some Eq => true | _ => false end.
Proof. rewrite FP.eqb_equiv. reflexivity. Qed.

Lemma cmp_swap x y : bcmp y x = match bcmp x y with Some c => Some (CompOpp c) | None => None end.
Proof. apply BS.Bcompare_swap. Qed.

Lemma SFcompare_refl_some (f : spec_float) :
  SFcompare f f = None \/ SFcompare f f = Some Eq.
Proof.
  destruct f as [s|s| |s m e]; cbn; auto.
  - destruct s; auto.
  - rewrite Z.compare_refl, Pos.compare_cont_refl. destruct s; auto.
Qed.

(* comparing with itself: None for NaN, Some Eq otherwise *)
Lemma cmp_refl x : bcmp x x = None \/ bcmp x x = Some Eq.
Proof. unfold BS.Bcompare. apply SFcompare_refl_some. Qed.

Lemma fnan_cmp x : fnan x = true <-> bcmp x x = None.
Proof.
  unfold fnan. rewrite eqb_cmp. destruct (cmp_refl x) as [H|H]; rewrite H; cbn; split; congruence.
Qed.

Lemma SFcompare_none_l (a b : spec_float) : SFcompare a b = None -> SFcompare a a = None \/ SFcompare b b = None.
Proof.
  destruct a as [s|s| |s m e], b as [s'|s'| |s' m' e']; cbn; auto; discriminate.
Qed.

(* a comparison is undefined only when one side is NaN *)
Lemma cmp_none x y : bcmp x y = None -> fnan x = true \/ fnan y = true.
Proof.
  intros H. rewrite !fnan_cmp. unfold BS.Bcompare in *. now apply SFcompare_none_l.
Qed.

Lemma cmp_nan_l x y : fnan x = true -> bcmp x y = None.
Proof.
  rewrite fnan_cmp. unfold BS.Bcompare.
  destruct (BS.B2SF (FP.Prim2B x)) as [s|s| |s m e]; cbn; try discriminate; auto.
Qed.

Lemma cmp_nan_r x y : fnan y = true -> bcmp x y = None.
Proof. intros H. rewrite (cmp_swap y x), (cmp_nan_l y x H). reflexivity. Qed.

Lemma cmp_some x y : fnan x = false -> fnan y = false -> exists c, bcmp x y = Some c.
Proof.
  intros Hx Hy. destruct (bcmp x y) eqn:E; eauto.
  apply cmp_none in E. destruct E; congruence.
Qed.

Lemma ltb_true_notnan x y : (x <? y)%float = true -> fnan x = false /\ fnan y = false.
Proof.
  rewrite ltb_cmp. intros H. split.
  - destruct (fnan x) eqn:E; auto. rewrite (cmp_nan_l x y E) in H. discriminate.
  - destruct (fnan y) eqn:E; auto. rewrite (cmp_nan_r x y E) in H. discriminate.
Qed.

Lemma leb_true_notnan x y : (x <=? y)%float = true -> fnan x = false /\ fnan y = false.
Proof.
  rewrite leb_cmp. intros H. split.
  - destruct (fnan x) eqn:E; auto. rewrite (cmp_nan_l x y E) in H. discriminate.
  - destruct (fnan y) eqn:E; auto. rewrite (cmp_nan_r x y E) in H. discriminate.
Qed.

Lemma leb_refl x : fnan x = false -> (x <=? x)%float = true.
Proof.
  intros H. rewrite leb_cmp. destruct (cmp_refl x) as [E|E]; rewrite E; auto.
  apply fnan_cmp in E. congruence.
Qed.

(* totality of the order on non-NaN values *)
Lemma ltb_false_leb x y : (x <? y)%float = false -> fnan x = false -> fnan y = false ->
  (y <=? x)%float = true.
Proof.
  rewrite ltb_cmp, leb_cmp. intros H Hx Hy. rewrite (cmp_swap x y).
  destruct (cmp_some x y Hx Hy) as [c E]. rewrite E in *. destruct c; auto; discriminate.
Qed.

Lemma leb_true_ltb x y : (x <=? y)%float = true -> (y <? x)%float = false.
Proof.
  rewrite ltb_cmp, leb_cmp. intros H. rewrite (cmp_swap x y).
  destruct (bcmp x y) as [[]|]; auto; discriminate.
Qed.

Theorem clamp_in_range x lo hi r : f64_clamp x lo hi = Ok r ->
  (lo <=? hi)%float = true /\
  (fnan x = true -> fnan r = true) /\
  (fnan x = false -> fnan r = false /\ (lo <=? r)%float = true /\ (r <=? hi)%float = true).
Proof.
  unfold f64_clamp, clamp_core. destruct (lo <=? hi)%float eqn:Hle; [|discriminate].
  intros H. inversion H as [Hr]. clear H. subst r. split; auto.
  destruct (leb_true_notnan _ _ Hle) as [Nlo Nhi].
  destruct (x <? lo)%float eqn:C1.
  - (* below: the result is lo *)
    destruct (ltb_true_notnan _ _ C1) as [Nx _].
    rewrite (leb_true_ltb _ _ Hle). split; [intros; congruence|]. intros _.
    split; auto. split; auto. now apply leb_refl.
  - destruct (hi <? x)%float eqn:C2.
    + (* above: the result is hi *)
      destruct (ltb_true_notnan _ _ C2) as [_ Nx].
      split; [intros; congruence|]. intros _. split; auto. split; auto. now apply leb_refl.
    + (* the argument itself *)
      split; auto. intros Nx. split; auto. split.
      * now apply ltb_false_leb.
      * now apply ltb_false_leb.
Qed.

(* -max is NaN exactly when max is, so a successful clamp to [-max, max] has a non-NaN max *)
Theorem clamp_sym_in_range x mx r : f64_clamp x (- mx)%float mx = Ok r ->
  fnan mx = false /\
  (fnan x = true -> fnan r = true) /\
  (fnan x = false -> fnan r = false /\ (- mx <=? r)%float = true /\ (r <=? mx)%float = true).
Proof.
  intros H. destruct (clamp_in_range _ _ _ _ H) as (H1 & H2 & H3).
  split; auto. apply (leb_true_notnan _ _ H1).
Qed.
