(* C22 by composition (Model/ServerBytes.v): decoder totality (Proofs/Packet.v, C23) + what the decoder
   guarantees about NTPv3 packets + totality of the decision model (Proofs/Server.v). *)
From V Require Import Model.RateCache Model.Server Model.Packet Model.ServerBytes.
From V Require Import Proofs.RateCache Proofs.Server Proofs.Packet.
From V Require Import Gen.ConstPacket.

(* ---- what the decoder guarantees about the header variant -------------------------------- *)

Definition outcome_packet (o : outcome) : packet :=
  match o with Accept p _ => p | DecryptFailed p => p end.

Lemma with_fields_header dec cx data h hs v5 o :
  with_fields dec cx data h hs v5 = Ok o -> p_header (outcome_packet o) = h.
Proof.
  unfold with_fields. intros H.
  destruct (efdata_deserialize dec cx data hs v5) as [[[[d remaining] ck] valid]| |]; cbn [res_bind] in H; try discriminate.
  unfold construct_packet in H.
  destruct remaining as [|x remaining].
  - cbn [res_bind] in H. destruct valid; inversion H; reflexivity.
  - destruct (mac_deserialize (x :: remaining)) as [m| |]; cbn [res_bind] in H; try discriminate.
    destruct valid; inversion H; reflexivity.
Qed.

(* an NTPv3 packet is never a decrypt error and never comes with a cookie: the version-3 arm of
   NtpPacket::deserialize does not look at extension fields at all *)
Lemma deserialize_v3 dec cx data o :
  deserialize dec cx data = Ok o ->
  packet_version (outcome_packet o) = V3 -> exists p, o = Accept p None.
Proof.
  unfold deserialize. intros H Hv.
  destruct data as [|x data']; [discriminate|].
  remember (x :: data') as data eqn:Ed. clear Ed.
  destruct (idx data 0 S_DATA0) as [d0| |]; cbn [res_bind] in H; try discriminate.
  destruct ((d0 / 8) mod 8 =? 3).
  { destruct (hdr34_deserialize data) as [h| |]; cbn [res_bind] in H; try discriminate.
    match type of H with res_bind ?X _ = _ => destruct X as [m| |] end; cbn [res_bind] in H; try discriminate.
    inversion H. eexists; reflexivity. }
  exfalso.
  destruct ((d0 / 8) mod 8 =? 4).
  { destruct (hdr34_deserialize data) as [h| |]; cbn [res_bind] in H; try discriminate.
    apply with_fields_header in H. unfold packet_version in Hv. rewrite H in Hv. discriminate. }
  destruct ((d0 / 8) mod 8 =? 5); [|discriminate].
  destruct (hdr5_deserialize data) as [h| |]; cbn [res_bind] in H; try discriminate.
  destruct (with_fields dec cx data (HV5 h) HDR5_WIRE_LENGTH true) as [o'| |] eqn:Ew; cbn [res_bind] in H; try discriminate.
  apply with_fields_header in Ew.
  assert (Ho : p_header (outcome_packet o) = HV5 h).
  { destruct o' as [p ck|p]; cbn [outcome_packet] in Ew.
    - destruct (draft_id p); [|discriminate]. destruct (bytes_eqb _ _); [|discriminate]. inversion H. exact Ew.
    - inversion H. exact Ew. }
  unfold packet_version in Hv. rewrite Ho in Hv. discriminate.
Qed.

(* the summary of whatever the decoder returns satisfies the decision model's precondition *)
Lemma summary_req_ok dec cx data : req_ok (summary data (deserialize dec cx data)).
Proof.
  unfold req_ok. destruct (deserialize dec cx data) as [o|e|s] eqn:E.
  - destruct o as [p ck|p]; cbn [summary r_ver r_parse r_cookie]; intros Hv;
      destruct (deserialize_v3 _ _ _ _ E Hv) as (p' & Hp); inversion Hp; subst.
    split; [discriminate|reflexivity].
  - cbn [summary r_ver]. discriminate.
  - cbn [summary r_ver]. discriminate.
Qed.

(* ---- handle_bytes -------------------------------------------------------------------------- *)

Lemma handle_bytes_unfold h cfg c e dec keys off data :
  wf_bytes data -> oracle_wf dec ->
  handle_bytes h cfg c e dec keys off data =
  handle h cfg c e (summary data (deserialize dec (ServerKeys keys off) data)).
Proof.
  intros Hwf Hdec. unfold handle_bytes.
  pose proof (deserialize_total dec (ServerKeys keys off) data Hwf Hdec) as Hnp.
  destruct (deserialize dec (ServerKeys keys off) data) as [o|e'|s]; try reflexivity.
  exfalso. exact (Hnp s eq_refl).
Qed.

Lemma handle_bytes_total h cfg c e dec keys off data :
  wf_bytes data -> oracle_wf dec -> env_ok e ->
  exists r, handle_bytes h cfg c e dec keys off data = Ok r.
Proof.
  intros Hwf Hdec He. rewrite handle_bytes_unfold by assumption.
  apply handle_total; [exact He|apply summary_req_ok].
Qed.

Lemma handle_bytes_no_panic h cfg c e dec keys off data :
  wf_bytes data -> oracle_wf dec -> env_ok e ->
  forall site, handle_bytes h cfg c e dec keys off data <> Panic site.
Proof.
  intros Hwf Hdec He site. destruct (handle_bytes_total h cfg c e dec keys off data Hwf Hdec He) as (r & ->).
  discriminate.
Qed.

(* which panic, and why: from the bytes only the four environment sites remain; the decoder's sites, the
   cache index, the `unreachable!()` of the Ignore arm and the NTPv3 site are never reached *)
Lemma handle_bytes_panic_sites h cfg c e dec keys off data s :
  wf_bytes data -> oracle_wf dec ->
  handle_bytes h cfg c e dec keys off data = Panic s ->
  (s = panic_lock_poisoned /\ e_lock_ok e = false) \/
  (s = panic_clock /\ e_clock_ok e = false) \/
  (s = panic_keys /\ e_keys_ok e = false) \/
  (s = panic_root_delay /\ e_root_delay_nonneg e = false).
Proof.
  intros Hwf Hdec H. rewrite handle_bytes_unfold in H by assumption.
  pose proof (summary_req_ok dec (ServerKeys keys off) data) as Hq.
  destruct (handle_panic_sites _ _ _ _ _ _ H) as [G|[G|[G|[G|(_ & Hv & G)]]]]; auto.
  exfalso. destruct (Hq Hv) as (Hnd & Hck).
  destruct G as [G|(G1 & G2)]; [exact (Hnd G)|]. rewrite (Hck G1) in G2. discriminate.
Qed.

Lemma handle_all_bytes_total h cfg dec keys off l : forall c,
  Forall (fun x => env_ok (fst x) /\ wf_bytes (snd x)) l -> oracle_wf dec ->
  exists c' rs, handle_all_bytes h cfg c dec keys off l = Ok (c', rs) /\ length rs = length l.
Proof.
  induction l as [|[e data] l IH]; intros c Hf Hdec; cbn [handle_all_bytes].
  - exists c, []. auto.
  - inversion Hf as [|x l' (He & Hw) Hf']; subst. cbn [fst snd] in *.
    destruct (handle_bytes_total h cfg c e dec keys off data Hw Hdec He) as (r & Hr). rewrite Hr. cbn [res_bind].
    destruct (IH (o_cache r) Hf' Hdec) as (c' & rs & Hrs & Hl). rewrite Hrs. cbn [res_bind fst snd].
    exists c', (r :: rs). split; [reflexivity|]. cbn [length]. congruence.
Qed.
