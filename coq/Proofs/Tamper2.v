(* Proofs for the second sentence of C25 ("any other change never makes
   different content appear authenticated or encrypted"): two runs of the
   extension-field loop over datagrams of the same length that carry the same
   bytes in [0,|a0|) walk through the same fields up to offset |a0|, and under
   the ideal-AEAD hypothesis the only place where anything can become
   authenticated, encrypted or a recovered cookie is the field AT |a0|, where
   both runs hold the same state, ask the same key and decrypt the same tuple
   (n0, a0, c0). *)
From V Require Import Model.Packet Proofs.Bytes Proofs.Packet Proofs.Tamper.
From V Require Import Gen.ConstPacket.
From Coq Require Import ZifyBool.
Ltac Zify.zify_post_hook ::= Z.div_mod_to_equations.

(* ---- the loop body as a function; ef_loop unfolds to it ---- *)
Definition ef_step (dec : oracle) (cx : ctx) (data : bytes) (hs : Z) (v5 : bool)
           (offset : Z) (st : lstate) (tid : Z) (m : bytes) : res lstate :=
  let st := set_size st (offset + wire_length m) in
  if tid =? T_ENCRYPTED then
    do nc <- enc_from_message m;
    let '(nonce, ct) := nc in
    do h <- cipher_get dec cx (untrusted (l_ef st));
    match h with
    | None => Ok (push_invalid st)
    | Some h =>
        do aad <- range data 0 (hs + offset) S_EF_AAD;
        match dec (holder_key h) nonce aad ct with
        | None => Ok (push_invalid st)
        | Some pt =>
            do fs <- inner_fields (S (List.length pt)) pt v5 0;
            Ok (promote st fs h)
        end
    end
  else
    do f <- decode_field tid m v5;
    Ok (push_untrusted st f).

Lemma ef_loop_unfold : forall fuel dec cx data hs v5 buf offset st,
  ef_loop (S fuel) dec cx data hs v5 buf offset st =
  match stream_next buf (ef_cutoff v5) 4 v5 offset with
  | None => Ok st
  | Some (Err e, _) => Err e
  | Some (Panic s, _) => Panic s
  | Some (Ok (tid, m), off') =>
      do s <- ef_step dec cx data hs v5 offset st tid m;
      ef_loop fuel dec cx data hs v5 buf off' s
  end.
Proof.
  intros. cbn [ef_loop]. change EF_V4_UNENCRYPTED_MINIMUM_SIZE with 4.
  destruct (stream_next buf (ef_cutoff v5) 4 v5 offset) as [[[[tid m]|e|s] off']|]; try reflexivity.
  unfold ef_step. destruct (tid =? T_ENCRYPTED).
  - destruct (enc_from_message m) as [[nonce ct]|e|s]; cbn [res_bind]; try reflexivity.
    destruct (cipher_get _ _ _) as [[h|]|e|s]; cbn [res_bind]; try reflexivity.
    destruct (range _ _ _ _) as [aad|e|s]; cbn [res_bind]; try reflexivity.
    destruct (dec _ _ _ _) as [pt|]; try reflexivity.
    destruct (inner_fields _ _ _ _) as [fs|e|s]; reflexivity.
  - destruct (decode_field _ _ _) as [f|e|s]; reflexivity.
Qed.

(* what a loop state holds as trusted *)
Definition tp (st : lstate) : list ef * list ef * option cookie :=
  (authenticated (l_ef st), encrypted (l_ef st), l_cookie st).

(* ---- agreement on a prefix ---- *)
Lemma sub_agree : forall k a n (x y : bytes), btake k x = btake k y -> 0 <= a -> 0 <= n -> a + n <= k ->
  btake n (bdrop a x) = btake n (bdrop a y).
Proof.
  intros k a n x y H Ha Hn Hk.
  rewrite <- (btake_btake n (k - a) (bdrop a x)), <- (btake_btake n (k - a) (bdrop a y)) by lia.
  rewrite <- !bdrop_btake by lia. rewrite H. reflexivity.
Qed.

Lemma range_prefix : forall P k site (d1 d2 : bytes), blen d1 = blen d2 -> btake P d1 = btake P d2 -> k <= P ->
  range d1 0 k site = range d2 0 k site.
Proof.
  intros P k site d1 d2 Hl Hp Hk. unfold range, slice. rewrite Hl.
  destruct ((0 <=? 0) && (0 <=? k) && (k <=? blen d2)) eqn:E; [|reflexivity].
  assert (btake (k - 0) (bdrop 0 d1) = btake (k - 0) (bdrop 0 d2)) as -> by (apply (sub_agree P); [exact Hp|lia..]).
  reflexivity.
Qed.

Lemma btake_head4 : forall k x0 x1 x2 x3 (r : bytes) y0 y1 y2 y3 (s : bytes), 4 <= k ->
  btake k (x0 :: x1 :: x2 :: x3 :: r) = btake k (y0 :: y1 :: y2 :: y3 :: s) ->
  x0 = y0 /\ x1 = y1 /\ x2 = y2 /\ x3 = y3.
Proof.
  intros k x0 x1 x2 x3 r y0 y1 y2 y3 s Hk H. unfold btake in H.
  destruct (Z.to_nat k) as [|[|[|[|n]]]] eqn:Ek; try lia.
  cbn [firstn] in H. injection H; intros; repeat split; assumption.
Qed.

Lemma raw_agree : forall (r1 r2 : bytes) v5 k tid m, blen r1 = blen r2 -> btake k r1 = btake k r2 ->
  raw_deserialize r1 4 v5 = Ok (tid, m) -> wire_length m <= k ->
  raw_deserialize r2 4 v5 = Ok (tid, m).
Proof.
  intros r1 r2 v5 k tid m Hl Hk H Hw.
  assert (4 <= k) as Hk4.
  { unfold wire_length in Hw. pose proof (nm4_ge (2 + 2 + blen m)). pose proof (blen_nonneg m). lia. }
  unfold raw_deserialize in H |- *.
  destruct r1 as [|x0 [|x1 [|x2 [|x3 rest1]]]]; try discriminate.
  destruct r2 as [|y0 [|y1 [|y2 [|y3 rest2]]]]; try (exfalso; unfold blen in Hl; cbn [length] in Hl; lia).
  destruct (btake_head4 _ _ _ _ _ _ _ _ _ _ _ Hk4 Hk) as (<- & <- & <- & <-).
  remember (x0 :: x1 :: x2 :: x3 :: rest1) as r1 eqn:E1. remember (x0 :: x1 :: x2 :: x3 :: rest2) as r2 eqn:E2.
  clear E1 E2.
  destruct (_ <? 4); [discriminate|]. destruct (_ && _); [discriminate|].
  destruct (slice r1 4 (nm4 _)) as [pad|] eqn:E3; [|discriminate].
  destruct (slice r1 4 (x2 * 256 + x3)) as [mm|] eqn:E4; [|discriminate].
  inversion H; subst tid mm; clear H.
  apply slice_some in E3. apply slice_some in E4.
  destruct E3 as (_ & ? & ? & _ & _). destruct E4 as (_ & ? & ? & Hm & Hml).
  rewrite (slice_in r2 4 (nm4 _)) by lia. rewrite (slice_in r2 4 (x2 * 256 + x3)) by lia.
  do 2 f_equal. rewrite Hm. symmetry. apply (sub_agree k); [exact Hk|lia|lia|].
  unfold wire_length in Hw. pose proof (nm4_ge (2 + 2 + blen m)). lia.
Qed.

Lemma stream_next_off : forall buf c v5 offset tid m off',
  stream_next buf c 4 v5 offset = Some (Ok (tid, m), off') ->
  off' = offset + wire_length m /\ 4 <= wire_length m.
Proof.
  intros buf c v5 offset tid m off' H. unfold stream_next in H.
  destruct (_ >? _); [discriminate|]. destruct (_ <=? _); [discriminate|].
  destruct (raw_deserialize _ _ _) as [[t mm]|e|s]; inversion H; subst.
  split; [reflexivity|]. unfold wire_length. pose proof (nm4_ge (2 + 2 + blen m)). pose proof (blen_nonneg m). lia.
Qed.

Lemma stream_next_agree : forall (buf1 buf2 : bytes) c v5 o offset tid m off',
  blen buf1 = blen buf2 -> btake o buf1 = btake o buf2 -> 0 <= offset ->
  stream_next buf1 c 4 v5 offset = Some (Ok (tid, m), off') -> off' <= o ->
  stream_next buf2 c 4 v5 offset = Some (Ok (tid, m), off').
Proof.
  intros buf1 buf2 c v5 o offset tid m off' Hl Hp Ho H Hoff.
  pose proof (stream_next_off _ _ _ _ _ _ _ H) as (Hoff' & Hw).
  unfold stream_next in H |- *. rewrite <- Hl.
  destruct (offset >? blen buf1) eqn:E0; [discriminate|].
  assert (blen (bdrop offset buf2) = blen (bdrop offset buf1)) as Hlr by (rewrite !blen_bdrop by lia; lia).
  rewrite Hlr. destruct (_ <=? c); [discriminate|].
  destruct (raw_deserialize (bdrop offset buf1) 4 v5) as [[t mm]|e|s] eqn:Er; inversion H; subst t mm; clear H.
  rewrite (raw_agree (bdrop offset buf1) (bdrop offset buf2) v5 (o - offset) tid m); [reflexivity|lia| |exact Er|lia].
  rewrite <- !bdrop_btake by lia. rewrite Hp. reflexivity.
Qed.

Lemma ef_step_ext : forall dec cx (d1 d2 : bytes) hs v5 offset st tid m,
  range d1 0 (hs + offset) S_EF_AAD = range d2 0 (hs + offset) S_EF_AAD ->
  ef_step dec cx d1 hs v5 offset st tid m = ef_step dec cx d2 hs v5 offset st tid m.
Proof. intros. unfold ef_step. rewrite H. reflexivity. Qed.

Lemma idx0_prefix : forall k (d1 d2 : bytes) s x y, 1 <= k -> btake k d1 = btake k d2 ->
  idx d1 0 s = Ok x -> idx d2 0 s = Ok y -> x = y.
Proof.
  intros k d1 d2 s x y Hk H H1 H2. unfold idx in H1, H2. cbn in H1, H2.
  destruct d1 as [|u d1]; [discriminate|]. destruct d2 as [|w d2]; [discriminate|].
  inversion H1; inversion H2; subst. unfold btake in H.
  destruct (Z.to_nat k) eqn:Ek; [lia|]. cbn [firstn] in H. injection H; intros; assumption.
Qed.

(* the trusted part of a decode result *)
Definition auth_of (r : res outcome) : list ef :=
  match r with Ok (Accept p _) | Ok (DecryptFailed p) => authenticated (p_ef p) | _ => [] end.
Definition enc_of (r : res outcome) : list ef :=
  match r with Ok (Accept p _) | Ok (DecryptFailed p) => encrypted (p_ef p) | _ => [] end.
Definition keys_of (r : res outcome) : option cookie :=
  match r with Ok (Accept _ c) => c | _ => None end.

Lemma reports_trusted_iff : forall r,
  reports_trusted r <-> (auth_of r <> [] \/ enc_of r <> [] \/ keys_of r <> None).
Proof.
  intros [[p c|p]|e|s]; cbn [reports_trusted auth_of enc_of keys_of]; try tauto.
Qed.

Section Rest.
Variable dec : oracle.
Variables n0 a0 c0 : bytes.

Hypothesis dec_genuine : forall key n a c p,
  dec key n a c = Some p -> a = [] \/ (n = n0 /\ a = a0 /\ c = c0).

(* one iteration either leaves the trusted part alone, or it is the iteration at
   |a0|, decrypts the genuine tuple with the key the fields seen so far select,
   and promotes *)
Lemma step_char : forall cx data hs v5 offset st tid m s, 0 < hs -> 0 <= offset ->
  ef_step dec cx data hs v5 offset st tid m = Ok s ->
  tp s = tp st \/
  (hs + offset = blen a0 /\
   exists h pt fs, cipher_get dec cx (untrusted (l_ef st)) = Ok (Some h) /\
     dec (holder_key h) n0 a0 c0 = Some pt /\
     inner_fields (S (List.length pt)) pt v5 0 = Ok fs /\
     tp s = tp (promote st fs h)).
Proof.
  intros cx data hs v5 offset st tid m s Hhs Ho H. unfold ef_step in H.
  cbn [set_size l_ef] in H.
  destruct (tid =? T_ENCRYPTED).
  - destruct (enc_from_message m) as [[nonce ct]|e|s']; cbn [res_bind] in H; try discriminate.
    destruct (cipher_get dec cx (untrusted (l_ef st))) as [[h|]|e|s']; cbn [res_bind] in H; try discriminate.
    2:{ inversion H; left; reflexivity. }
    destruct (range data 0 (hs + offset) S_EF_AAD) as [aad|e|s'] eqn:Ea; cbn [res_bind] in H; try discriminate.
    destruct (dec (holder_key h) nonce aad ct) as [pt|] eqn:Ed.
    2:{ inversion H; left; reflexivity. }
    destruct (inner_fields _ _ _ _) as [fs|e|s'] eqn:Ei; cbn [res_bind] in H; try discriminate.
    inversion H; subst s; clear H. right.
    apply range_inv in Ea. destruct Ea as (_ & _ & _ & _ & Hal).
    destruct (dec_genuine _ _ _ _ _ Ed) as [Hnil|(-> & -> & ->)].
    { subst aad. change (blen []) with 0 in Hal. lia. }
    split; [lia|]. exists h, pt, fs. repeat split; try assumption; reflexivity.
  - destruct (decode_field tid m v5) as [f|e|s']; cbn [res_bind] in H; try discriminate.
    inversion H; left; reflexivity.
Qed.

(* past |a0| nothing can become trusted any more *)
Lemma loop_no_gain : forall cx data hs v5 buf, 0 < hs ->
  forall fuel offset st st', 0 <= offset -> blen a0 < hs + offset ->
  ef_loop fuel dec cx data hs v5 buf offset st = Ok st' -> tp st' = tp st.
Proof.
  intros cx data hs v5 buf Hhs. induction fuel as [|fuel IH]; intros offset st st' Ho Hp H; [discriminate|].
  rewrite ef_loop_unfold in H.
  destruct (stream_next buf (ef_cutoff v5) 4 v5 offset) as [[[[tid m]|e|s] off']|] eqn:E; try discriminate.
  2:{ inversion H; reflexivity. }
  destruct (ef_step dec cx data hs v5 offset st tid m) as [s|e|s] eqn:Es; cbn [res_bind] in H; try discriminate.
  apply stream_next_off in E. destruct E as (-> & Hw).
  apply step_char in Es; [|assumption..]. destruct Es as [Hs|(Hc & _)]; [|lia].
  rewrite <- Hs. eapply IH; [| |exact H]; lia.
Qed.

(* two runs over datagrams of the same length with the same bytes in [0,|a0|),
   started in the same state *)
Lemma loop_two : forall cx (d1 d2 : bytes) hs v5 (buf1 buf2 : bytes), 0 < hs ->
  blen d1 = blen d2 -> btake (blen a0) d1 = btake (blen a0) d2 ->
  blen buf1 = blen buf2 -> btake (blen a0 - hs) buf1 = btake (blen a0 - hs) buf2 ->
  forall fuel offset st st1 st2, 0 <= offset ->
  ef_loop fuel dec cx d1 hs v5 buf1 offset st = Ok st1 ->
  ef_loop fuel dec cx d2 hs v5 buf2 offset st = Ok st2 ->
  tp st1 = tp st \/ tp st2 = tp st \/ tp st1 = tp st2.
Proof.
  intros cx d1 d2 hs v5 buf1 buf2 Hhs Hdl Hdp Hbl Hbp.
  induction fuel as [|fuel IH]; intros offset st st1 st2 Ho H1 H2; [discriminate|].
  destruct (Z.ltb_spec (blen a0) (hs + offset)) as [Hpast|Hin].
  { left. eapply loop_no_gain; [exact Hhs|exact Ho|exact Hpast|exact H1]. }
  rewrite ef_loop_unfold in H1.
  destruct (stream_next buf1 (ef_cutoff v5) 4 v5 offset) as [[[[tid1 m1]|e|s] off1]|] eqn:E1; try discriminate.
  2:{ inversion H1; left; reflexivity. }
  destruct (ef_step dec cx d1 hs v5 offset st tid1 m1) as [s1|e|s] eqn:Es1; cbn [res_bind] in H1; try discriminate.
  pose proof (stream_next_off _ _ _ _ _ _ _ E1) as (Hoff1 & Hw1).
  pose proof (step_char _ _ _ _ _ _ _ _ _ Hhs Ho Es1) as C1.
  destruct (Z.eq_dec (hs + offset) (blen a0)) as [Hat|Hbefore].
  - (* the field at |a0| *)
    assert (tp st1 = tp s1) as T1 by (eapply loop_no_gain; [exact Hhs| | |exact H1]; lia).
    rewrite ef_loop_unfold in H2.
    destruct (stream_next buf2 (ef_cutoff v5) 4 v5 offset) as [[[[tid2 m2]|e|s] off2]|] eqn:E2; try discriminate.
    2:{ inversion H2; right; left; reflexivity. }
    destruct (ef_step dec cx d2 hs v5 offset st tid2 m2) as [s2|e|s] eqn:Es2; cbn [res_bind] in H2; try discriminate.
    pose proof (stream_next_off _ _ _ _ _ _ _ E2) as (Hoff2 & Hw2).
    pose proof (step_char _ _ _ _ _ _ _ _ _ Hhs Ho Es2) as C2.
    assert (tp st2 = tp s2) as T2 by (eapply loop_no_gain; [exact Hhs| | |exact H2]; lia).
    rewrite T1, T2.
    destruct C1 as [C1|(_ & h1 & pt1 & fs1 & G1 & D1 & I1 & P1)]; [left; exact C1|].
    destruct C2 as [C2|(_ & h2 & pt2 & fs2 & G2 & D2 & I2 & P2)]; [right; left; exact C2|].
    right; right. rewrite G1 in G2. inversion G2; subst h2.
    rewrite D1 in D2. inversion D2; subst pt2. rewrite I1 in I2. inversion I2; subst fs2.
    rewrite P1, P2. reflexivity.
  - (* a field before |a0| *)
    destruct C1 as [C1|(Hc & _)]; [|lia].
    destruct (Z.ltb_spec (blen a0 - hs) off1) as [Hout|Hstay].
    + left. rewrite <- C1. eapply loop_no_gain; [exact Hhs| | |exact H1]; lia.
    + rewrite ef_loop_unfold in H2.
      rewrite (stream_next_agree buf1 buf2 _ _ (blen a0 - hs) _ _ _ _ Hbl Hbp Ho E1 Hstay) in H2.
      rewrite <- (ef_step_ext dec cx d1 d2) in H2 by (apply (range_prefix (blen a0)); [exact Hdl|exact Hdp|lia]).
      rewrite Es1 in H2. cbn [res_bind] in H2.
      rewrite <- C1. eapply IH; [|exact H1|exact H2]. lia.
Qed.

(* ---- from the loop to deserialize ---- *)
Definition st_init : lstate := mkL efdata_empty 0 true None.

Lemma with_fields_inv : forall cx data h v5 o, with_fields dec cx data h 48 v5 = Ok o ->
  exists st p, ef_loop (S (List.length (bdrop 48 data))) dec cx data 48 v5 (bdrop 48 data) 0 st_init = Ok st /\
    48 <= blen data /\ p_ef p = l_ef st /\
    o = if l_valid st then Accept p (l_cookie st) else DecryptFailed p.
Proof.
  intros cx data h v5 o H. unfold with_fields in H.
  destruct (efdata_deserialize dec cx data 48 v5) as [[[[d remaining] ck] valid]|e|s] eqn:E;
    cbn [res_bind] in H; try discriminate.
  unfold efdata_deserialize in E.
  destruct (range data 48 (blen data) S_EF_DATA_HEADER) as [buf|e|s] eqn:Eb; cbn [res_bind] in E; try discriminate.
  apply range_to_end in Eb. destruct Eb as (-> & Hlen).
  destruct (ef_loop _ _ _ _ _ _ _ _ _) as [st|e|s] eqn:El; cbn [res_bind] in E; try discriminate.
  destruct (range data _ _ S_EF_REMAINING) as [r|e|s]; cbn [res_bind] in E; try discriminate.
  inversion E; subst d remaining ck valid; clear E.
  destruct (construct_packet h r (l_ef st)) as [p|e|s] eqn:Ep; cbn [res_bind] in H; try discriminate.
  assert (p_ef p = l_ef st) as Hp.
  { unfold construct_packet in Ep. destruct r; [inversion Ep; reflexivity|].
    destruct (mac_deserialize _); cbn [res_bind] in Ep; inversion Ep; reflexivity. }
  exists st, p. split; [first [exact El|reflexivity]|]. split; [lia|]. split; [exact Hp|].
  destruct (l_valid st); inversion H; reflexivity.
Qed.

Lemma deser_inv : forall cx data, reports_trusted (deserialize dec cx data) ->
  exists d0 h o, idx data 0 S_DATA0 = Ok d0 /\ (d0 / 8) mod 8 <> 3 /\
    with_fields dec cx data h 48 ((d0 / 8) mod 8 =? 5) = Ok o /\ deserialize dec cx data = Ok o.
Proof.
  intros cx data H. unfold deserialize in H |- *.
  destruct data as [|x data']; [contradiction|]. remember (x :: data') as data eqn:Ed. clear Ed.
  destruct (idx data 0 S_DATA0) as [d0|e|s]; cbn [res_bind] in H |- *; try contradiction.
  destruct (_ =? 3) eqn:E3.
  { destruct (hdr34_deserialize data) as [h|e|s]; cbn [res_bind] in H; try contradiction.
    destruct (if _ =? _ then _ else _) as [m|e|s]; cbn [res_bind reports_trusted p_ef efdata_empty authenticated encrypted] in H;
      try contradiction. destruct H as [H|[H|H]]; contradiction. }
  destruct (_ =? 4) eqn:E4.
  { destruct (hdr34_deserialize data) as [h|e|s] eqn:Eh; cbn [res_bind] in H |- *; try contradiction.
    unfold HDR34_WIRE_LENGTH in *.
    destruct (with_fields dec cx data (HV4 h) 48 false) as [o|e|s] eqn:Ew; try contradiction.
    exists d0, (HV4 h), o. split; [reflexivity|]. split; [lia|]. split; [|reflexivity].
    replace ((d0 / 8) mod 8 =? 5) with false by lia. exact Ew. }
  destruct (_ =? 5) eqn:E5; [|contradiction].
  destruct (hdr5_deserialize data) as [h|e|s] eqn:Eh; cbn [res_bind] in H |- *; try contradiction.
  unfold HDR5_WIRE_LENGTH in *.
  destruct (with_fields dec cx data (HV5 h) 48 true) as [o|e|s] eqn:Ew; cbn [res_bind] in H |- *; try contradiction.
  exists d0, (HV5 h), o. split; [reflexivity|]. split; [lia|]. split; [rewrite E5; exact Ew|].
  destruct o as [p ck|p]; [|reflexivity].
  destruct (draft_id p); [|contradiction]. destruct (bytes_eqb _ _); [reflexivity|contradiction].
Qed.

Definition tp_of (o : outcome) (st : lstate) : Prop :=
  auth_of (Ok o) = authenticated (l_ef st) /\ enc_of (Ok o) = encrypted (l_ef st) /\
  (keys_of (Ok o) = l_cookie st \/ keys_of (Ok o) = None) /\
  (forall p ck, o = Accept p ck -> ck = l_cookie st).

Lemma outcome_tp : forall st p o, p_ef p = l_ef st ->
  o = (if l_valid st then Accept p (l_cookie st) else DecryptFailed p) -> tp_of o st.
Proof.
  intros st p o Hp ->. unfold tp_of. destruct (l_valid st); cbn [auth_of enc_of keys_of]; rewrite Hp.
  - repeat split; [left; reflexivity|]. intros p' ck' E; inversion E; reflexivity.
  - repeat split; [right; reflexivity|]. intros p' ck' E; discriminate.
Qed.

Lemma trusted_tp : forall o st, tp_of o st -> reports_trusted (Ok o) -> tp st <> tp st_init.
Proof.
  intros o st (Ha & He & Hk & _) H. apply reports_trusted_iff in H. rewrite Ha, He in H.
  unfold tp, st_init. cbn [l_ef l_cookie efdata_empty authenticated encrypted]. intros E. inversion E as [[E1 E2 E3]].
  destruct H as [H|[H|H]]; [congruence|congruence|]. destruct Hk as [Hk|Hk]; rewrite Hk in H; congruence.
Qed.

(* All same-length datagrams that report anything trusted report the same. *)
Theorem rest_equal : forall cx (b b' : bytes),
  reports_trusted (deserialize dec cx b) -> blen b' = blen b ->
  reports_trusted (deserialize dec cx b') ->
  auth_of (deserialize dec cx b') = auth_of (deserialize dec cx b) /\
  enc_of (deserialize dec cx b') = enc_of (deserialize dec cx b) /\
  (forall p ck, deserialize dec cx b = Ok (Accept p ck) ->
     keys_of (deserialize dec cx b') = ck \/ keys_of (deserialize dec cx b') = None).
Proof.
  intros cx b b' H Hl H'.
  pose proof (tamper_protected dec n0 a0 c0 dec_genuine cx b H) as (Hb & _).
  pose proof (tamper_protected dec n0 a0 c0 dec_genuine cx b' H') as (Hb' & _).
  destruct (deser_inv cx b H) as (d0 & h & o & Hi & _ & Hw & Hr).
  destruct (deser_inv cx b' H') as (d0' & h' & o' & Hi' & _ & Hw' & Hr').
  rewrite Hr in H |- *. rewrite Hr' in H' |- *.
  destruct (with_fields_inv _ _ _ _ _ Hw) as (st & p & Hloop & Hlen & Hp & Ho).
  destruct (with_fields_inv _ _ _ _ _ Hw') as (st' & p' & Hloop' & Hlen' & Hp' & Ho').
  pose proof (outcome_tp _ _ _ Hp Ho) as T. pose proof (outcome_tp _ _ _ Hp' Ho') as T'.
  pose proof (trusted_tp _ _ T H) as N. pose proof (trusted_tp _ _ T' H') as N'.
  (* |a0| covers the header *)
  assert (48 <= blen a0) as Ha0.
  { destruct (Z.ltb_spec (blen a0) 48) as [Hs|Hs]; [|exact Hs]. exfalso. apply N.
    eapply loop_no_gain; [| | |exact Hloop]; lia. }
  assert (d0' = d0) as -> by (apply (idx0_prefix (blen a0) b' b S_DATA0); [lia|congruence|assumption..]).
  assert (List.length (bdrop 48 b') = List.length (bdrop 48 b)) as Hfuel.
  { pose proof (blen_bdrop 48 b' ltac:(lia)). pose proof (blen_bdrop 48 b ltac:(lia)). unfold blen in *. lia. }
  rewrite Hfuel in Hloop'.
  assert (tp st' = tp st) as E.
  { destruct (loop_two cx b' b 48 _ (bdrop 48 b') (bdrop 48 b) ltac:(lia) Hl ltac:(congruence)
               ltac:(rewrite !blen_bdrop by lia; lia)
               ltac:(rewrite <- !bdrop_btake by lia; congruence)
               _ 0 st_init st' st ltac:(lia) Hloop' Hloop) as [X|[X|X]]; [contradiction|contradiction|exact X]. }
  unfold tp in E. inversion E as [[E1 E2 E3]].
  destruct T as (Ta & Te & Tk & Tacc). destruct T' as (Ta' & Te' & Tk' & _).
  rewrite Ta, Ta', Te, Te'. repeat split; try assumption.
  intros q ck Hq. injection Hq as Hq. rewrite (Tacc q ck Hq). rewrite <- E3. exact Tk'.
Qed.


(* ---- the same with the genuine packet described by its bytes ---- *)

(* b carries a0 in [0,|a0|) and, at |a0|, what the decoder's field streamer
   reads as an NTS authenticator field with nonce n0 and ciphertext c0 *)
Definition authenticator_at (b : bytes) : Prop :=
  btake (blen a0) b = a0 /\ 48 <= blen a0 /\
  exists d0 m off, idx b 0 S_DATA0 = Ok d0 /\
    stream_next (bdrop 48 b) (ef_cutoff ((d0 / 8) mod 8 =? 5)) 4 ((d0 / 8) mod 8 =? 5) (blen a0 - 48)
      = Some (Ok (T_ENCRYPTED, m), off) /\
    enc_from_message m = Ok (n0, c0).

Lemma step_open : forall cx data hs v5 offset st m s h pt fs,
  hs + offset = blen a0 -> btake (blen a0) data = a0 ->
  enc_from_message m = Ok (n0, c0) ->
  cipher_get dec cx (untrusted (l_ef st)) = Ok (Some h) ->
  dec (holder_key h) n0 a0 c0 = Some pt ->
  inner_fields (S (List.length pt)) pt v5 0 = Ok fs ->
  ef_step dec cx data hs v5 offset st T_ENCRYPTED m = Ok s ->
  tp s = tp (promote st fs h).
Proof.
  intros cx data hs v5 offset st m s h pt fs Hat Hpre Hm Hc Hd Hi H. unfold ef_step in H.
  cbn [set_size l_ef] in H. rewrite Z.eqb_refl, Hm in H. cbn [res_bind] in H. rewrite Hc in H. cbn [res_bind] in H.
  destruct (range data 0 (hs + offset) S_EF_AAD) as [aad|e|s'] eqn:Ea; cbn [res_bind] in H; try discriminate.
  apply range_inv in Ea. destruct Ea as (_ & _ & _ & Haad & _).
  rewrite Z.sub_0_r, bdrop_0, Hat, Hpre in Haad. subst aad.
  rewrite Hd, Hi in H. cbn [res_bind] in H. inversion H; reflexivity.
Qed.

(* run 1 is over the genuine packet: whatever run 2 gains, run 1 gains too *)
Lemma loop_two_at : forall cx (d1 d2 : bytes) hs v5 (buf1 buf2 : bytes) m0 off0, 0 < hs -> hs <= blen a0 ->
  blen d1 = blen d2 -> btake (blen a0) d1 = a0 -> btake (blen a0) d2 = a0 ->
  blen buf1 = blen buf2 -> btake (blen a0 - hs) buf1 = btake (blen a0 - hs) buf2 ->
  stream_next buf1 (ef_cutoff v5) 4 v5 (blen a0 - hs) = Some (Ok (T_ENCRYPTED, m0), off0) ->
  enc_from_message m0 = Ok (n0, c0) ->
  forall fuel offset st st1 st2, 0 <= offset ->
  ef_loop fuel dec cx d1 hs v5 buf1 offset st = Ok st1 ->
  ef_loop fuel dec cx d2 hs v5 buf2 offset st = Ok st2 ->
  tp st2 = tp st \/ tp st2 = tp st1.
Proof.
  intros cx d1 d2 hs v5 buf1 buf2 m0 off0 Hhs Hha Hdl Hd1 Hd2 Hbl Hbp Hauth Hm0.
  induction fuel as [|fuel IH]; intros offset st st1 st2 Ho H1 H2; [discriminate|].
  destruct (Z.ltb_spec (blen a0) (hs + offset)) as [Hpast|Hin].
  { left. eapply loop_no_gain; [exact Hhs|exact Ho|exact Hpast|exact H2]. }
  rewrite ef_loop_unfold in H2.
  destruct (stream_next buf2 (ef_cutoff v5) 4 v5 offset) as [[[[tid2 m2]|e|s] off2]|] eqn:E2; try discriminate.
  2:{ inversion H2; left; reflexivity. }
  destruct (ef_step dec cx d2 hs v5 offset st tid2 m2) as [s2|e|s] eqn:Es2; cbn [res_bind] in H2; try discriminate.
  pose proof (stream_next_off _ _ _ _ _ _ _ E2) as (Hoff2 & Hw2).
  pose proof (step_char _ _ _ _ _ _ _ _ _ Hhs Ho Es2) as C2.
  destruct (Z.eq_dec (hs + offset) (blen a0)) as [Hat|Hbefore].
  - (* the field at |a0| *)
    assert (tp st2 = tp s2) as T2 by (eapply loop_no_gain; [exact Hhs| | |exact H2]; lia).
    rewrite T2.
    destruct C2 as [C2|(_ & h2 & pt2 & fs2 & G2 & D2 & I2 & P2)]; [left; exact C2|]. right.
    rewrite ef_loop_unfold in H1. replace offset with (blen a0 - hs) in H1 by lia.
    rewrite Hauth in H1.
    destruct (ef_step dec cx d1 hs v5 (blen a0 - hs) st T_ENCRYPTED m0) as [s1|e|s] eqn:Es1; cbn [res_bind] in H1; try discriminate.
    pose proof (stream_next_off _ _ _ _ _ _ _ Hauth) as (Hoff0 & Hw0).
    assert (tp st1 = tp s1) as T1 by (eapply loop_no_gain; [exact Hhs| | |exact H1]; lia).
    rewrite T1, P2. symmetry.
    eapply step_open; [| | | | | |exact Es1]; try eassumption. lia.
  - (* a field before |a0| *)
    destruct C2 as [C2|(Hc & _)]; [|lia].
    destruct (Z.ltb_spec (blen a0 - hs) off2) as [Hout|Hstay].
    + left. rewrite <- C2. eapply loop_no_gain; [exact Hhs| | |exact H2]; lia.
    + rewrite ef_loop_unfold in H1.
      rewrite (stream_next_agree buf2 buf1 _ _ (blen a0 - hs) _ _ _ _ (eq_sym Hbl) (eq_sym Hbp) Ho E2 Hstay) in H1.
      rewrite (ef_step_ext dec cx d1 d2) in H1 by (apply (range_prefix (blen a0)); [exact Hdl|congruence|lia]).
      rewrite Es2 in H1. cbn [res_bind] in H1.
      rewrite <- C2. eapply IH; [|exact H1|exact H2]. lia.
Qed.

Lemma deser_inv2 : forall cx data o d0, deserialize dec cx data = Ok o ->
  idx data 0 S_DATA0 = Ok d0 -> (d0 / 8) mod 8 <> 3 ->
  exists h, with_fields dec cx data h 48 ((d0 / 8) mod 8 =? 5) = Ok o.
Proof.
  intros cx data o d0 H Hi Hv. unfold deserialize in H.
  destruct data as [|x data']; [discriminate|]. remember (x :: data') as data eqn:Ed. clear Ed.
  rewrite Hi in H. cbn [res_bind] in H.
  destruct (_ =? 3) eqn:E3; [lia|].
  destruct (_ =? 4) eqn:E4.
  { destruct (hdr34_deserialize data) as [h|e|s]; cbn [res_bind] in H; try discriminate.
    exists (HV4 h). replace ((d0 / 8) mod 8 =? 5) with false by lia. exact H. }
  destruct (_ =? 5) eqn:E5; [|discriminate].
  destruct (hdr5_deserialize data) as [h|e|s]; cbn [res_bind] in H; try discriminate.
  exists (HV5 h). unfold HDR5_WIRE_LENGTH in H.
  destruct (with_fields dec cx data (HV5 h) 48 true) as [o1|e|s]; cbn [res_bind] in H; try discriminate.
  destruct o1 as [p ck|p]; [|exact H].
  destruct (draft_id p); [|discriminate]. destruct (bytes_eqb _ _); [exact H|discriminate].
Qed.

Lemma same_tp : forall o st o' st', tp_of o st -> tp_of o' st' -> tp st' = tp st ->
  auth_of (Ok o') = auth_of (Ok o) /\ enc_of (Ok o') = enc_of (Ok o) /\
  (forall p ck, o = Accept p ck -> keys_of (Ok o') = ck \/ keys_of (Ok o') = None).
Proof.
  intros o st o' st' (Ta & Te & Tk & Tacc) (Ta' & Te' & Tk' & _) E.
  unfold tp in E. inversion E as [[E1 E2 E3]].
  rewrite Ta, Ta', Te, Te'. repeat split; try assumption.
  intros q ck Hq. rewrite (Tacc q ck Hq). rewrite <- E3. exact Tk'.
Qed.

(* b is the genuine packet (it carries its authenticator at |a0| and decodes
   without error); b' has the same length: whatever b' reports as trusted is
   exactly what b reports *)
Theorem rest_exact : forall cx (b b' : bytes) o,
  authenticator_at b -> deserialize dec cx b = Ok o -> blen b' = blen b ->
  reports_trusted (deserialize dec cx b') ->
  auth_of (deserialize dec cx b') = auth_of (Ok o) /\
  enc_of (deserialize dec cx b') = enc_of (Ok o) /\
  (forall p ck, o = Accept p ck ->
     keys_of (deserialize dec cx b') = ck \/ keys_of (deserialize dec cx b') = None).
Proof.
  intros cx b b' o (Hb & Ha0 & d0 & m0 & off0 & Hi & Hauth & Hm0) Hr Hl H'.
  pose proof (tamper_protected dec n0 a0 c0 dec_genuine cx b' H') as (Hb' & _).
  destruct (deser_inv cx b' H') as (d0' & h' & o' & Hi' & Hv & Hw' & Hr').
  rewrite Hr' in H' |- *.
  assert (d0' = d0) as -> by (apply (idx0_prefix (blen a0) b' b S_DATA0); [lia|congruence|assumption..]).
  destruct (deser_inv2 cx b o d0 Hr Hi Hv) as (h & Hw).
  destruct (with_fields_inv _ _ _ _ _ Hw) as (st & p & Hloop & Hlen & Hp & Ho).
  destruct (with_fields_inv _ _ _ _ _ Hw') as (st' & p' & Hloop' & Hlen' & Hp' & Ho').
  pose proof (outcome_tp _ _ _ Hp Ho) as T. pose proof (outcome_tp _ _ _ Hp' Ho') as T'.
  pose proof (trusted_tp _ _ T' H') as N'.
  assert (List.length (bdrop 48 b') = List.length (bdrop 48 b)) as Hfuel.
  { pose proof (blen_bdrop 48 b' ltac:(lia)). pose proof (blen_bdrop 48 b ltac:(lia)). unfold blen in *. lia. }
  rewrite Hfuel in Hloop'.
  apply (same_tp o st o' st' T T').
  destruct (loop_two_at cx b b' 48 _ (bdrop 48 b) (bdrop 48 b') m0 off0 ltac:(lia) Ha0 (eq_sym Hl) Hb Hb'
             ltac:(rewrite !blen_bdrop by lia; lia)
             ltac:(rewrite <- !bdrop_btake by lia; congruence)
             Hauth Hm0 _ 0 st_init st st' ltac:(lia) Hloop Hloop') as [X|X]; [contradiction|exact X].
Qed.

(* the property's wording: every field b' reports is one b reports *)
Lemma trusted_of_in_auth : forall r f, In f (auth_of r) -> reports_trusted r.
Proof. intros r f H. apply reports_trusted_iff. left. intros E. rewrite E in H. exact H. Qed.
Lemma trusted_of_in_enc : forall r f, In f (enc_of r) -> reports_trusted r.
Proof. intros r f H. apply reports_trusted_iff. right; left. intros E. rewrite E in H. exact H. Qed.
Lemma trusted_of_keys : forall r k, keys_of r = Some k -> reports_trusted r.
Proof. intros r k H. apply reports_trusted_iff. right; right. rewrite H. discriminate. Qed.

Theorem rest_harmless : forall cx (b b' : bytes) o,
  authenticator_at b -> deserialize dec cx b = Ok o ->
  blen b' = blen b -> agrees n0 a0 c0 b' ->
  (forall f, In f (auth_of (deserialize dec cx b')) -> In f (auth_of (Ok o))) /\
  (forall f, In f (enc_of (deserialize dec cx b')) -> In f (enc_of (Ok o))) /\
  (forall k, keys_of (deserialize dec cx b') = Some k -> forall p ck, o = Accept p ck -> ck = Some k).
Proof.
  intros cx b b' o Hat Hr Hl _.
  pose proof (rest_exact cx b b' o Hat Hr Hl) as X.
  split; [|split].
  - intros f Hf. destruct (X (trusted_of_in_auth _ _ Hf)) as (E & _). rewrite <- E. exact Hf.
  - intros f Hf. destruct (X (trusted_of_in_enc _ _ Hf)) as (_ & E & _). rewrite <- E. exact Hf.
  - intros k Hk p ck Ho. destruct (X (trusted_of_keys _ _ Hk)) as (_ & _ & E).
    destruct (E p ck Ho) as [E1|E1]; congruence.
Qed.

End Rest.
