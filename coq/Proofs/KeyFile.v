(* Lemmas about Model/KeyFile.v (C27). *)
From V Require Import Model.KeySet Model.KeyFile Proofs.KeySet Gen.ConstKeyset.
From Coq Require Import ZifyBool.
Ltac Zify.zify_post_hook ::= Z.div_mod_to_equations.

(* nts_key_provider.rs opens the file with truncate(true) and mode(0o600) (regenerated from the source on every run) *)
Example provider_open_options : (PROVIDER_TRUNCATE, FILE_MODE_OCTAL_DIGITS) = (1, 600).
Proof. reflexivity. Qed.

Lemma app_inj_len' {A} (a a' b b' : list A) : a ++ b = a' ++ b' -> length a = length a' -> a = a' /\ b = b'.
Proof.
  intros H Hl. split.
  - rewrite <- (firstn_app_len a b (length a) eq_refl), H. apply firstn_app_len. auto.
  - rewrite <- (skipn_app_len a b (length a) eq_refl), H. apply skipn_app_len. auto.
Qed.

Lemma key_len k : key_ok k -> length k = 64%nat.
Proof. intros [H _]. unfold lenZ in H. change FILE_KEY_LEN with 64 in H. lia. Qed.

Lemma chunks_concat ks : forall tail, Forall key_ok ks -> chunks (length ks) (concat ks ++ tail) = ks.
Proof.
  induction ks as [|k ks IH]; intros tail H; [reflexivity|].
  inversion H as [|? ? Hk Hks]; subst. cbn [length chunks concat]. change (Z.to_nat FILE_KEY_LEN) with 64%nat.
  rewrite <- app_assoc. rewrite firstn_app_len, skipn_app_len by (apply key_len; assumption).
  rewrite IH by assumption. reflexivity.
Qed.

Lemma concat_len ks : Forall key_ok ks -> lenZ (concat ks) = 64 * lenZ ks.
Proof.
  induction ks as [|k ks IH]; intros H; [reflexivity|].
  inversion H as [|? ? Hk Hks]; subst. cbn [concat]. rewrite lenZ_app, IH by assumption.
  pose proof (key_len k Hk). unfold lenZ in *. cbn [length]. lia.
Qed.

Lemma chunks_length n : forall b, length (chunks n b) = n.
Proof. induction n; intros b; cbn; [reflexivity|]. rewrite IHn. reflexivity. Qed.

Lemma chunks_key_len n : forall b, 64 * Z.of_nat n <= lenZ b -> Forall (fun k => lenZ k = FILE_KEY_LEN) (chunks n b).
Proof.
  induction n; intros b H; cbn [chunks]; constructor.
  - unfold lenZ in *. rewrite firstn_length. change (Z.to_nat FILE_KEY_LEN) with 64%nat. change FILE_KEY_LEN with 64. lia.
  - apply IHn. unfold lenZ in *. rewrite skipn_length. change (Z.to_nat FILE_KEY_LEN) with 64%nat. lia.
Qed.

Lemma chunks_bytes_ok n : forall b, bytes_ok b -> Forall bytes_ok (chunks n b).
Proof.
  induction n; intros b H; cbn [chunks]; constructor.
  - apply bytes_ok_firstn. assumption.
  - apply IHn. apply bytes_ok_skipn. assumption.
Qed.

(* the five header/body fields of a file image *)
Lemma file_fields (T O P L R : bytes) :
  length T = 8%nat -> length O = 4%nat -> length P = 4%nat -> length L = 4%nat ->
  let b := T ++ O ++ P ++ L ++ R in
  firstn 8 b = T /\ firstn 4 (skipn 8 b) = O /\ firstn 4 (skipn 12 b) = P /\
  firstn 4 (skipn 16 b) = L /\ skipn 20 b = R /\ lenZ b = 20 + lenZ R.
Proof.
  intros HT HO HP HL b. subst b. repeat split.
  - apply firstn_app_len. assumption.
  - rewrite skipn_app_len by assumption. apply firstn_app_len. assumption.
  - rewrite (app_assoc T O). rewrite skipn_app_len by (rewrite app_length; lia). apply firstn_app_len. assumption.
  - rewrite (app_assoc T O), (app_assoc (T ++ O) P). rewrite skipn_app_len by (rewrite !app_length; lia).
    apply firstn_app_len. assumption.
  - rewrite (app_assoc T O), (app_assoc (T ++ O) P), (app_assoc ((T ++ O) ++ P) L).
    apply skipn_app_len. rewrite !app_length. lia.
  - rewrite !lenZ_app. unfold lenZ. lia.
Qed.

Lemma load_fields (T O P L R : bytes) :
  length T = 8%nat -> length O = 4%nat -> length P = 4%nat -> length L = 4%nat ->
  load (T ++ O ++ P ++ L ++ R) =
    if negb (time_representable (be_dec T)) then Err err_other else
    if be_dec P >=? be_dec L then Err err_other else
    if lenZ R <? be_dec L * FILE_KEY_LEN then Err err_eof else
    Ok ({| keys := chunks (Z.to_nat (be_dec L)) R; id_offset := be_dec O; primary := be_dec P |}, be_dec T).
Proof.
  intros HT HO HP HL. destruct (file_fields T O P L R HT HO HP HL) as (F1 & F2 & F3 & F4 & F5 & F6).
  cbv zeta in *. unfold load. change (Z.to_nat FILE_HEADER_LEN) with 20%nat. change FILE_HEADER_LEN with 20.
  rewrite F1, F2, F3, F4, F5, F6.
  replace (20 + lenZ R <? 20) with false by (symmetry; apply Z.ltb_ge; pose proof (lenZ_nonneg R); lia).
  reflexivity.
Qed.

Lemma file_split (b : bytes) :
  20 <= lenZ b ->
  exists T O P L R, b = T ++ O ++ P ++ L ++ R /\ length T = 8%nat /\ length O = 4%nat /\ length P = 4%nat /\ length L = 4%nat.
Proof.
  unfold lenZ. intros H.
  exists (firstn 8 b), (firstn 4 (skipn 8 b)), (firstn 4 (skipn 12 b)), (firstn 4 (skipn 16 b)), (skipn 20 b).
  repeat split.
  - rewrite <- (firstn_skipn 8 b) at 1. f_equal.
    rewrite <- (firstn_skipn 4 (skipn 8 b)) at 1. f_equal. rewrite skipn_add. cbn [Nat.add].
    rewrite <- (firstn_skipn 4 (skipn 12 b)) at 1. f_equal. rewrite skipn_add. cbn [Nat.add].
    rewrite <- (firstn_skipn 4 (skipn 16 b)) at 1. f_equal. rewrite skipn_add. reflexivity.
  - rewrite firstn_length. lia.
  - rewrite firstn_length, skipn_length. lia.
  - rewrite firstn_length, skipn_length. lia.
  - rewrite firstn_length, skipn_length. lia.
Qed.

Lemma store_split ks t :
  store ks t = be_enc 8 t ++ be_enc 4 (id_offset ks) ++ be_enc 4 (primary ks)
               ++ be_enc 4 (wrap 32 (lenZ (keys ks))) ++ concat (keys ks).
Proof. reflexivity. Qed.

Lemma store_len ks t : Forall key_ok (keys ks) -> lenZ (store ks t) = 20 + 64 * lenZ (keys ks).
Proof.
  intros H. rewrite store_split, !lenZ_app, concat_len by assumption.
  unfold lenZ. rewrite !be_enc_length. lia.
Qed.

Lemma be4 z : 0 <= z < 2 ^ 32 -> be_dec (be_enc 4 z) = z.
Proof. intros H. rewrite be_dec_enc. change (256 ^ Z.of_nat 4) with (2 ^ 32). apply Z.mod_small. assumption. Qed.

(* ---------------------------------------------------------------- round trip *)

Theorem load_store ks t tail :
  FileOk ks -> 0 <= t <= i64_max ->
  load (store ks t ++ tail) = Ok (ks, t).
Proof.
  intros (Hok & Hkeys & Hlen) Ht. destruct Hok as (Hp & Ho & _).
  rewrite store_split. rewrite <- !app_assoc. rewrite load_fields by apply be_enc_length.
  rewrite be_dec_enc. change (256 ^ Z.of_nat 8) with (2 ^ 64).
  assert (Ht' : t mod 2 ^ 64 = t).
  { apply Z.mod_small. unfold i64_max in Ht. change (2 ^ 63 - 1) with 9223372036854775807 in Ht.
    change (2 ^ 64) with 18446744073709551616. lia. }
  rewrite Ht'. pose proof (lenZ_nonneg (keys ks)) as Hn.
  rewrite (wrap_small (lenZ (keys ks))) by lia.
  rewrite !be4 by lia.
  unfold time_representable. replace (t <=? i64_max) with true by (symmetry; apply Z.leb_le; lia).
  cbn [negb]. replace (primary ks >=? lenZ (keys ks)) with false by (symmetry; rewrite Z.geb_leb; apply Z.leb_gt; lia).
  rewrite lenZ_app, concat_len by assumption. change FILE_KEY_LEN with 64.
  replace (64 * lenZ (keys ks) + lenZ tail <? lenZ (keys ks) * 64) with false
    by (symmetry; apply Z.ltb_ge; pose proof (lenZ_nonneg tail); lia).
  unfold lenZ at 1. rewrite Nat2Z.id, chunks_concat by assumption.
  destruct ks; reflexivity.
Qed.

(* ---------------------------------------------------------------- crash points *)

Theorem load_proper_prefix ks t p :
  FileOk ks -> proper_prefix p (store ks t) -> exists e, load p = Err e.
Proof.
  intros (Hok & Hkeys & Hlen) (s & Hs & Hp). destruct Hok as (Hpr & Ho & _).
  assert (Hsl : 1 <= lenZ s) by (destruct s; [congruence|unfold lenZ; cbn [length]; lia]).
  assert (Hl : lenZ p + lenZ s = 20 + 64 * lenZ (keys ks)).
  { rewrite <- lenZ_app, <- Hp. apply store_len. assumption. }
  destruct (lenZ p <? 20) eqn:E.
  { unfold load. change FILE_HEADER_LEN with 20. rewrite E. eauto. }
  apply Z.ltb_ge in E.
  (* the header of p is the header of the whole image *)
  destruct (file_split p E) as (T & O & P & L & R & -> & HT & HO & HP & HL).
  rewrite store_split in Hp. rewrite <- !app_assoc in Hp.
  apply app_inj_len' in Hp; [|rewrite be_enc_length; symmetry; assumption]. destruct Hp as [HT' Hp].
  apply app_inj_len' in Hp; [|rewrite be_enc_length; symmetry; assumption]. destruct Hp as [HO' Hp].
  apply app_inj_len' in Hp; [|rewrite be_enc_length; symmetry; assumption]. destruct Hp as [HP' Hp].
  apply app_inj_len' in Hp; [|rewrite be_enc_length; symmetry; assumption]. destruct Hp as [HL' Hp].
  rewrite load_fields by assumption.
  destruct (negb (time_representable (be_dec T))); [eauto|].
  pose proof (lenZ_nonneg (keys ks)) as Hn.
  rewrite <- HP', <- HL'. rewrite (wrap_small (lenZ (keys ks))) by lia. rewrite !be4 by lia.
  destruct (primary ks >=? lenZ (keys ks)); [eauto|].
  assert (HR : lenZ R + lenZ s = 64 * lenZ (keys ks)).
  { rewrite <- lenZ_app, <- Hp. apply concat_len. assumption. }
  change FILE_KEY_LEN with 64.
  replace (lenZ R <? lenZ (keys ks) * 64) with true by (symmetry; apply Z.ltb_lt; lia).
  eauto.
Qed.

(* ---------------------------------------------------------------- any file *)

Lemma load_total b : (exists e, load b = Err e) \/ (exists r, load b = Ok r).
Proof.
  unfold load. repeat match goal with |- context [if ?x then _ else _] => destruct x end; eauto.
Qed.

Theorem load_ok_inv b ks t :
  bytes_ok b -> load b = Ok (ks, t) ->
  KeysOk ks /\ Forall key_ok (keys ks) /\ lenZ (keys ks) < 2 ^ 32 /\ 0 <= t <= i64_max.
Proof.
  intros Hb. destruct (lenZ b <? 20) eqn:E.
  { unfold load. change FILE_HEADER_LEN with 20. rewrite E. discriminate. }
  apply Z.ltb_ge in E.
  destruct (file_split b E) as (T & O & P & L & R & -> & HT & HO & HP & HL).
  rewrite load_fields by assumption.
  apply Forall_app in Hb. destruct Hb as [HbT Hb]. apply Forall_app in Hb. destruct Hb as [HbO Hb].
  apply Forall_app in Hb. destruct Hb as [HbP Hb]. apply Forall_app in Hb. destruct Hb as [HbL HbR].
  pose proof (be_dec_range T HbT) as RT. pose proof (be_dec_range O HbO) as RO.
  pose proof (be_dec_range P HbP) as RP. pose proof (be_dec_range L HbL) as RL.
  unfold lenZ in RT, RO, RP, RL. rewrite HT in RT. rewrite HO in RO. rewrite HP in RP. rewrite HL in RL.
  change (256 ^ Z.of_nat 4) with 4294967296 in *. change (256 ^ Z.of_nat 8) with 18446744073709551616 in *.
  unfold time_representable. destruct (be_dec T <=? i64_max) eqn:Et; [|discriminate]. apply Z.leb_le in Et. cbn [negb].
  destruct (be_dec P >=? be_dec L) eqn:Ep; [discriminate|].
  rewrite Z.geb_leb in Ep. apply Z.leb_gt in Ep.
  change FILE_KEY_LEN with 64.
  destruct (lenZ R <? be_dec L * 64) eqn:Er; [discriminate|]. apply Z.ltb_ge in Er.
  intros H. apply Ok_inj in H. injection H as <- <-.
  assert (Hlen : lenZ (chunks (Z.to_nat (be_dec L)) R) = be_dec L).
  { unfold lenZ. rewrite chunks_length. lia. }
  unfold KeysOk. cbn [keys id_offset primary]. rewrite Hlen. change (2 ^ 32) with 4294967296.
  repeat split; try lia.
  pose proof (chunks_key_len (Z.to_nat (be_dec L)) R) as Hk.
  pose proof (chunks_bytes_ok (Z.to_nat (be_dec L)) R HbR) as Hkb.
  rewrite Forall_forall in *. intros k Hin. split; [apply Hk; [lia|exact Hin]|apply Hkb; exact Hin].
Qed.

(* ---------------------------------------------------------------- the provider's start *)

Lemma start_full ks t fresh now :
  FileOk ks -> 0 <= t <= i64_max -> start (Some (store ks t)) fresh now = Ok (ks, t).
Proof.
  intros H Ht. unfold start. rewrite <- (app_nil_r (store ks t)). rewrite load_store by assumption. reflexivity.
Qed.

Lemma start_proper_prefix ks t p fresh now :
  FileOk ks -> proper_prefix p (store ks t) -> start (Some p) fresh now = Ok (new_keyset fresh, now).
Proof.
  intros H Hp. unfold start. destruct (load_proper_prefix ks t p H Hp) as [e ->]. reflexivity.
Qed.

Theorem start_crash ks t p fresh now :
  FileOk ks -> 0 <= t <= i64_max -> prefix_of p (store ks t) ->
  start (Some p) fresh now = Ok (ks, t) \/ start (Some p) fresh now = Ok (new_keyset fresh, now).
Proof.
  intros H Ht (s & Hs). destruct s as [|x s].
  - left. rewrite app_nil_r in Hs. subst p. apply start_full; assumption.
  - right. apply (start_proper_prefix ks t); [assumption|]. exists (x :: s). split; [discriminate|assumption].
Qed.

Lemma new_keyset_fileok fresh : key_ok fresh -> FileOk (new_keyset fresh).
Proof.
  intros H. split; [apply new_keyset_newest|]. split; [constructor; [assumption|constructor]|].
  unfold new_keyset, lenZ. cbn. lia.
Qed.

(* whatever the file holds, the daemon starts with a key set that is well formed *)
Theorem start_any file fresh now :
  (forall b, file = Some b -> bytes_ok b) -> key_ok fresh ->
  exists ks t, start file fresh now = Ok (ks, t) /\ FileOk ks.
Proof.
  intros Hb Hf. unfold start. destruct file as [b|].
  - destruct (load_total b) as [[e ->]|[[ks t] Hl]].
    + eexists _, _. split; [reflexivity|]. apply new_keyset_fileok. assumption.
    + rewrite Hl. exists ks, t. split; [reflexivity|].
      destruct (load_ok_inv b ks t (Hb b eq_refl) Hl) as (H1 & H2 & H3 & _). split; [exact H1|split; [exact H2|exact H3]].
  - eexists _, _. split; [reflexivity|]. apply new_keyset_fileok. assumption.
Qed.

(* ---------------------------------------------------------------- usable: can issue and decode cookies *)

Theorem loaded_usable (enc : enc_t) (dec : dec_t) b ks t :
  aead_correct enc dec -> aead_tag16 enc ->
  bytes_ok b -> load b = Ok (ks, t) -> KeysOk ks /\ usable enc dec ks.
Proof.
  intros H1 H2 Hb Hl. destruct (load_ok_inv b ks t Hb Hl) as (Hok & _).
  split; [exact Hok|]. intros c nonce Hwf Hn. apply (roundtrip enc dec H1 H2); assumption.
Qed.

Theorem start_usable (enc : enc_t) (dec : dec_t) file fresh now :
  aead_correct enc dec -> aead_tag16 enc ->
  (forall b, file = Some b -> bytes_ok b) -> key_ok fresh ->
  exists ks t, start file fresh now = Ok (ks, t) /\ KeysOk ks /\ usable enc dec ks.
Proof.
  intros H1 H2 Hb Hf. destruct (start_any file fresh now Hb Hf) as (ks & t & Hs & (Hok & _)).
  exists ks, t. split; [exact Hs|]. split; [exact Hok|].
  intros c nonce Hwf Hn. apply (roundtrip enc dec H1 H2); assumption.
Qed.

(* cookies issued before a restart stay valid after it *)
Theorem restart_keeps_cookies (enc : enc_t) (dec : dec_t) ks t fresh now c nonce b :
  aead_correct enc dec -> aead_tag16 enc ->
  FileOk ks -> 0 <= t <= i64_max -> wf_cookie c -> lenZ nonce = 16 ->
  encode_cookie enc ks c nonce = Ok b ->
  exists ks', start (Some (store ks t)) fresh now = Ok (ks', t) /\ ks' = ks /\ decode_cookie dec ks' b = Ok c.
Proof.
  intros H1 H2 Hf Ht Hwf Hn He. exists ks. split; [apply start_full; assumption|]. split; [reflexivity|].
  destruct Hf as (Hok & _). destruct (roundtrip enc dec H1 H2 ks c nonce Hok Hwf Hn) as (b' & He' & Hd).
  rewrite He in He'. apply Ok_inj in He'. subst b'. exact Hd.
Qed.
