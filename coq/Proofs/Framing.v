From V Require Import Model.Framing Gen.ConstFraming.
From Coq Require Import ZifyBool.

(* census of the constants translator: one header write followed by the
   payload, the guard directly after read_u64, resize+read_exact+from_slice
   after it, one unwrap *)
Example framing_census :
  FRAMING_WRITE_U64 = 1 /\ FRAMING_READ_GUARD_ORDER = 1 /\ FRAMING_RESIZE_READ = 1 /\
  FRAMING_UNWRAP_SITES = 1 /\ MAX_JSON_MESSAGE_SIZE = 1048576.
Proof. repeat split. Qed.

Lemma le_Z_app a x : le_Z (a ++ [x]) = le_Z a + 256 ^ Z.of_nat (length a) * x.
Proof.
  induction a as [|b r IH]; cbn [app le_Z length].
  - change (Z.of_nat 0) with 0. rewrite Z.pow_0_r. lia.
  - rewrite IH, Nat2Z.inj_succ, Z.pow_succ_r by lia. lia.
Qed.

Lemma be_bytes_length k z : length (be_bytes k z) = k.
Proof. induction k; cbn; auto. Qed.

Lemma be_Z_cons x r : be_Z (x :: r) = be_Z r + 256 ^ Z.of_nat (length r) * x.
Proof. unfold be_Z. cbn [rev]. rewrite le_Z_app, rev_length. reflexivity. Qed.

Lemma be_Z_be_bytes k z : 0 <= z -> be_Z (be_bytes k z) = z mod 256 ^ Z.of_nat k.
Proof.
  intros Hz. induction k as [|k IH].
  - cbn. rewrite Z.mod_1_r. reflexivity.
  - cbn [be_bytes]. rewrite be_Z_cons, be_bytes_length, IH.
    rewrite Nat2Z.inj_succ, Z.pow_succ_r by lia.
    rewrite (Z.mul_comm 256), Z.rem_mul_r by lia. lia.
Qed.

Lemma be_Z_header n : 0 <= n < 2 ^ 64 -> be_Z (be_bytes 8 n) = n.
Proof.
  intros H. rewrite be_Z_be_bytes by lia. change (256 ^ Z.of_nat 8) with (2 ^ 64).
  apply Z.mod_small. lia.
Qed.

Definition is_byte (b : Z) : Prop := 0 <= b < 256.

Lemma le_Z_bound l : Forall is_byte l -> 0 <= le_Z l < 256 ^ Z.of_nat (length l).
Proof.
  induction 1 as [|b r Hb _ IH]; cbn [le_Z length].
  - cbn. lia.
  - rewrite Nat2Z.inj_succ, Z.pow_succ_r by lia. unfold is_byte in Hb. lia.
Qed.

Lemma be_Z_bound l : Forall is_byte l -> 0 <= be_Z l < 256 ^ Z.of_nat (length l).
Proof.
  intros H. unfold be_Z. rewrite <- (rev_length l). apply le_Z_bound.
  apply Forall_rev. exact H.
Qed.

Lemma Forall_firstn_b {A} (P : A -> Prop) n (l : list A) : Forall P l -> Forall P (firstn n l).
Proof.
  intros H. revert n. induction H as [|x r Hx _ IH]; intros [|n]; cbn; constructor; auto.
Qed.

Lemma max_val : MAX_JSON_MESSAGE_SIZE = 1048576.
Proof. reflexivity. Qed.
Ltac flia := pose proof max_val; unfold HEADER_SIZE, USIZE_MAX in *; lia.

Section Codec.
  Context {V : Type}.
  Variable encode : V -> option (list Z).
  Variable decode : list Z -> option V.

  (* read (write v) = v: what follows the message in the stream is untouched *)
  Lemma framing_roundtrip v bs rest :
    encode v = Some bs ->
    decode bs = Some v ->                          (* the payload codec's round trip, for this v *)
    Z.of_nat (length bs) <= MAX_JSON_MESSAGE_SIZE ->
    exists w, write_json encode v = Ok w /\
      read_json decode (w ++ rest) =
        mk_rr (Ok v) (Z.of_nat (length w)) (Z.of_nat (length bs)) /\
      skipn (length w) (w ++ rest) = rest.
  Proof.
    intros He Hd Hl. unfold write_json. rewrite He. eexists. split; [reflexivity|].
    set (n := Z.of_nat (length bs)) in *.
    assert (Hn : 0 <= n < 2 ^ 64) by flia.
    split.
    - unfold read_json. rewrite !app_length, be_bytes_length.
      assert ((Z.of_nat (8 + length bs + length rest) <? HEADER_SIZE) = false) as ->
        by flia.
      rewrite <- app_assoc.
      rewrite firstn_app, be_bytes_length, Nat.sub_diag, firstn_O, app_nil_r.
      rewrite firstn_all2 by (rewrite be_bytes_length; lia).
      rewrite (be_Z_header n Hn).
      assert ((n >? MAX_JSON_MESSAGE_SIZE) = false) as -> by flia.
      assert ((n >? USIZE_MAX) = false) as -> by flia.
      rewrite skipn_app, be_bytes_length, Nat.sub_diag, skipn_O.
      rewrite skipn_all2 by (rewrite be_bytes_length; lia). cbn [app].
      rewrite app_length.
      assert ((Z.of_nat (length bs + length rest) <? n) = false) as -> by (unfold n; flia).
      unfold n. rewrite Nat2Z.id, firstn_app, Nat.sub_diag, firstn_O, app_nil_r, firstn_all, Hd.
      f_equal. flia.
    - rewrite skipn_app, Nat.sub_diag, skipn_O, skipn_all. reflexivity.
  Qed.

  (* the size guard: an announced length above the limit is rejected after
     exactly the 8 header bytes, whatever follows, and the caller's buffer
     is not grown *)
  Lemma size_guard stream :
    HEADER_SIZE <= Z.of_nat (length stream) ->
    be_Z (firstn 8 stream) > MAX_JSON_MESSAGE_SIZE ->
    read_json decode stream = mk_rr (Err E_TOO_LARGE) 8 0.
  Proof.
    intros H1 H2. unfold read_json.
    assert ((Z.of_nat (length stream) <? HEADER_SIZE) = false) as -> by flia.
    assert ((be_Z (firstn 8 stream) >? MAX_JSON_MESSAGE_SIZE) = true) as -> by flia.
    reflexivity.
  Qed.

  Lemma size_guard_announced n rest :
    MAX_JSON_MESSAGE_SIZE < n < 2 ^ 64 ->
    read_json decode (be_bytes 8 n ++ rest) = mk_rr (Err E_TOO_LARGE) 8 0.
  Proof.
    intros H. apply size_guard.
    - rewrite app_length, be_bytes_length. flia.
    - rewrite firstn_app, be_bytes_length, Nat.sub_diag, firstn_O, app_nil_r.
      rewrite firstn_all2 by (rewrite be_bytes_length; lia).
      rewrite be_Z_header; flia.
  Qed.

  (* at or below the limit nothing is rejected for its size *)
  Lemma accepted_size_not_too_large stream :
    be_Z (firstn 8 stream) <= MAX_JSON_MESSAGE_SIZE ->
    rr_value (read_json decode stream) <> Err E_TOO_LARGE.
  Proof.
    intros H. unfold read_json.
    destruct (Z.of_nat (length stream) <? HEADER_SIZE); [cbn; discriminate|].
    assert ((be_Z (firstn 8 stream) >? MAX_JSON_MESSAGE_SIZE) = false) as -> by flia.
    destruct (be_Z (firstn 8 stream) >? USIZE_MAX); [cbn; discriminate|].
    destruct (Z.of_nat (length (skipn 8 stream)) <? be_Z (firstn 8 stream)); [cbn; discriminate|].
    destruct (decode _); cbn; discriminate.
  Qed.

  (* totality: read_json never panics, never consumes more than is available
     nor more than header + announced length; the conversion to usize cannot
     fail for a stream of bytes *)
  Lemma read_total stream :
    Forall is_byte stream ->
    (forall p, rr_value (read_json decode stream) <> Panic p) /\
    0 <= rr_consumed (read_json decode stream) <= Z.of_nat (length stream).
  Proof.
    intros HB.
    pose proof (be_Z_bound (firstn 8 stream) (Forall_firstn_b _ 8 _ HB)) as [B0 _].
    unfold read_json.
    destruct (Z.of_nat (length stream) <? HEADER_SIZE) eqn:E1; [cbn [rr_consumed rr_value]; split; [discriminate|flia]|].
    destruct (be_Z (firstn 8 stream) >? MAX_JSON_MESSAGE_SIZE) eqn:E2;
      [cbn [rr_consumed rr_value]; split; [discriminate| flia]|].
    destruct (be_Z (firstn 8 stream) >? USIZE_MAX) eqn:E3;
      [cbn [rr_consumed rr_value]; split; [discriminate| flia]|].
    destruct (Z.of_nat (length (skipn 8 stream)) <? be_Z (firstn 8 stream)) eqn:E4;
      [cbn [rr_consumed rr_value]; split; [discriminate|flia]|].
    assert (length (skipn 8 stream) = (length stream - 8)%nat) as L by apply skipn_length.
    destruct (decode _); cbn [rr_consumed rr_value]; (split; [discriminate| flia]).
  Qed.

  Lemma read_never_unrepresentable stream :
    Forall is_byte stream -> rr_value (read_json decode stream) <> Err E_UNREPRESENTABLE.
  Proof.
    intros HB. unfold read_json.
    destruct (Z.of_nat (length stream) <? HEADER_SIZE); [cbn; discriminate|].
    destruct (be_Z (firstn 8 stream) >? MAX_JSON_MESSAGE_SIZE); [cbn; discriminate|].
    assert (be_Z (firstn 8 stream) < 2 ^ 64).
    { pose proof (be_Z_bound (firstn 8 stream) (Forall_firstn_b _ 8 _ HB)) as B.
      assert (Z.of_nat (length (firstn 8 stream)) <= 8) by (rewrite firstn_length; lia).
      assert (256 ^ Z.of_nat (length (firstn 8 stream)) <= 256 ^ 8)
        by (apply Z.pow_le_mono_r; lia).
      change (256 ^ 8) with (2 ^ 64) in *. lia. }
    assert ((be_Z (firstn 8 stream) >? USIZE_MAX) = false) as -> by flia.
    destruct (Z.of_nat (length (skipn 8 stream)) <? be_Z (firstn 8 stream)); [cbn; discriminate|].
    destruct (decode _); cbn; discriminate.
  Qed.
End Codec.
