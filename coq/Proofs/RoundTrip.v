(* Proofs for C24: what the decoder accepts without keys can be encoded again. *)
From V Require Import Model.Packet Proofs.Bytes Proofs.Packet.
From V Require Import Gen.ConstPacket.
From Coq Require Import ZifyBool.
Ltac Zify.zify_post_hook ::= Z.div_mod_to_equations.

(* ---- big-endian numbers ---- *)
Lemma be_app1 : forall b x, be (b ++ [x]) = be b * 256 + x.
Proof. intros; unfold be; rewrite fold_left_app; reflexivity. Qed.

Lemma blen_to_be : forall n v, blen (to_be n v) = Z.of_nat n.
Proof.
  induction n as [|n IH]; intros v; cbn [to_be]; [reflexivity|].
  rewrite blen_app, IH. change (blen [v mod 256]) with 1. lia.
Qed.

Lemma wf_to_be : forall n v, wf_bytes (to_be n v).
Proof.
  induction n as [|n IH]; intros v; cbn [to_be]; [constructor|].
  apply wf_app; [apply IH|]. constructor; [unfold is_byte; lia|constructor].
Qed.

Lemma be_to_be : forall n v, 0 <= v < 256 ^ Z.of_nat n -> be (to_be n v) = v.
Proof.
  induction n as [|n IH]; intros v H.
  - change (256 ^ Z.of_nat 0) with 1 in H. cbn. lia.
  - cbn [to_be]. rewrite be_app1, IH; [lia|].
    rewrite Nat2Z.inj_succ, Z.pow_succ_r in H by lia. lia.
Qed.

Lemma be_bound : forall s, wf_bytes s -> 0 <= be s < 256 ^ blen s.
Proof.
  induction s as [|x s IH] using rev_ind; intros H.
  - cbn. lia.
  - apply wf_app_inv in H. destruct H as [Hs Hx]. apply wf_cons_inv in Hx. destruct Hx as [Hx _].
    rewrite be_app1, blen_app. change (blen [x]) with 1.
    rewrite Z.pow_add_r by (pose proof (blen_nonneg s); lia). specialize (IH Hs). lia.
Qed.

Lemma to_be_be : forall s, wf_bytes s -> to_be (List.length s) (be s) = s.
Proof.
  induction s as [|x s IH] using rev_ind; intros H; [reflexivity|].
  apply wf_app_inv in H. destruct H as [Hs Hx]. apply wf_cons_inv in Hx. destruct Hx as [Hx _].
  rewrite app_length, Nat.add_1_r. cbn [to_be]. rewrite be_app1.
  replace ((be s * 256 + x) / 256) with (be s) by lia.
  replace ((be s * 256 + x) mod 256) with x by lia.
  rewrite IH by assumption. reflexivity.
Qed.

(* ---- the writer ---- *)
Lemma wr_app : forall w a b, (do w' <- wr w a; wr w' b) = wr w (a ++ b).
Proof.
  intros w a b. unfold wr. rewrite blen_app.
  pose proof (blen_nonneg a). pose proof (blen_nonneg b).
  destruct (blen (w_out w) + blen a >? w_cap w) eqn:E1; cbn [res_bind].
  - replace (blen (w_out w) + (blen a + blen b) >? w_cap w) with true by lia. reflexivity.
  - cbn [w_out w_cap]. rewrite blen_app.
    destruct (blen (w_out w) + blen a + blen b >? w_cap w) eqn:E2.
    + replace (blen (w_out w) + (blen a + blen b) >? w_cap w) with true by lia. reflexivity.
    + replace (blen (w_out w) + (blen a + blen b) >? w_cap w) with false by lia.
      rewrite app_assoc. reflexivity.
Qed.

Lemma wr_app_k : forall A w a b (k : writer -> res A),
  (do w' <- wr w a; do w'' <- wr w' b; k w'') = (do w'' <- wr w (a ++ b); k w'').
Proof. intros. rewrite <- wr_app. destruct (wr w a); reflexivity. Qed.

(* ---- wire images of the fields ---- *)
Definition bytes_field_wire (tid : Z) (d : bytes) (minimum : Z) (v5 : bool) : bytes :=
  let a := Z.max ((blen d + EF_HEADER_LENGTH) mod 65536) minimum in
  to_be 2 tid ++ to_be 2 (if v5 then a else nm4_u16 a) ++ d
  ++ zeros (nm4 (Z.max (blen d + EF_HEADER_LENGTH) minimum) - blen d - EF_HEADER_LENGTH).

Lemma encode_bytes_field_eq : forall w tid d minimum v5, blen d <= 65531 ->
  encode_bytes_field w tid d minimum v5 = wr w (bytes_field_wire tid d minimum v5).
Proof.
  intros w tid d minimum v5 H. unfold encode_bytes_field, encode_framing, encode_padding, bytes_field_wire.
  unfold EF_HEADER_LENGTH. replace (blen d >? 65535 - 4) with false by lia.
  rewrite wr_app, wr_app_k, wr_app. rewrite <- !app_assoc. reflexivity.
Qed.

(* ---- fields the no-key decoder can produce ---- *)
Definition tid_plain (v5 : bool) (tid : Z) : Prop :=
  forall m, decode_field tid m v5 = Ok (EfUnknown tid m).

Definition data_ok (v5 : bool) (d : bytes) : Prop :=
  wf_bytes d /\ blen d <= 65531 /\ (v5 = false -> blen d mod 4 = 0).

Definition field_ok (v5 : bool) (f : ef) : Prop :=
  match f with
  | EfUid d | EfCookie d => data_ok v5 d
  | EfPlaceholder n => 0 <= n <= 65531 /\ (v5 = false -> n mod 4 = 0)
  | EfInvalidNts => False
  | EfDraft d => v5 = true /\ data_ok v5 d /\ all_ascii d = true
  | EfPadding _ => False
  | EfRefReq plen off => v5 = true /\ 4 <= plen <= 65531 /\ plen mod 4 = 0 /\ 0 <= off < 65536
  | EfRefResp d => v5 = true /\ data_ok v5 d
  | EfUnknown tid d => data_ok v5 d /\ 0 <= tid < 65536 /\ tid <> T_ENCRYPTED /\ tid_plain v5 tid
  end.

Definition refreq_wire (plen off : Z) : bytes :=
  to_be 2 T_REFREQ_to ++ to_be 2 ((plen + 4) mod 65536) ++ to_be 2 off ++ [0; 0] ++ zeros (4 * (plen / 4 - 1)).

Definition refresp_wire (b : bytes) : bytes :=
  let len := (blen b + 4) mod 65536 in
  to_be 2 T_REFRESP_to ++ to_be 2 len ++ b ++ (if len mod 4 =? 0 then [] else zeros (4 - len mod 4)).

Definition field_wire (v5 : bool) (minimum : Z) (f : ef) : bytes :=
  match f with
  | EfUnknown tid d => bytes_field_wire tid d minimum v5
  | EfUid d => bytes_field_wire T_UID_to d minimum v5
  | EfCookie d => bytes_field_wire T_COOKIE_to d minimum v5
  | EfPlaceholder n => bytes_field_wire T_PLACEHOLDER_to (zeros n) minimum v5
  | EfDraft d => bytes_field_wire T_DRAFT_to d minimum v5
  | EfRefReq plen off => refreq_wire plen off
  | EfRefResp b => refresp_wire b
  | EfInvalidNts | EfPadding _ => []
  end.

Lemma wr_nil_ok : forall w w' a, wr w a = Ok w' -> wr w' [] = Ok w'.
Proof.
  intros w w' a H. unfold wr in *. destruct (_ >? _) eqn:E; [discriminate|]. inversion H; subst; clear H.
  cbn [w_out w_cap]. change (blen []) with 0. rewrite blen_app in *.
  replace (_ >? _) with false by lia. rewrite app_nil_r. reflexivity.
Qed.

Lemma ef_serialize_eq : forall v5 f w minimum, field_ok v5 f ->
  ef_serialize w f minimum v5 = wr w (field_wire v5 minimum f).
Proof.
  intros v5 f w minimum H. destruct f; cbn [field_ok] in H; cbn [ef_serialize field_wire]; try contradiction.
  - apply encode_bytes_field_eq. unfold data_ok in H; lia.
  - apply encode_bytes_field_eq. unfold data_ok in H; lia.
  - apply encode_bytes_field_eq. rewrite blen_zeros; lia.
  - apply encode_bytes_field_eq. unfold data_ok in H; lia.
  - destruct H as (_ & ? & Hm & ?). unfold refreq_serialize, refreq_wire.
    replace (negb (payload_len mod 4 =? 0)) with false by lia.
    rewrite !wr_app_k, wr_app. rewrite <- !app_assoc. reflexivity.
  - destruct H as (_ & _ & ? & _). unfold refresp_serialize, refresp_wire.
    replace (blen b >? 65535) with false by lia. cbv zeta.
    destruct (_ =? 0) eqn:E.
    + rewrite !wr_app_k. rewrite app_nil_r.
      destruct (wr w _) as [w1|e|s] eqn:E1; cbn [res_bind]; reflexivity.
    + rewrite !wr_app_k, wr_app. rewrite <- !app_assoc. reflexivity.
  - apply encode_bytes_field_eq. unfold data_ok in H; lia.
Qed.

Fixpoint fields_wire (v5 : bool) (fs : list ef) : bytes :=
  match fs with
  | [] => []
  | f :: fs' =>
      field_wire v5 (if v5 then EF_MIN_V5 else match fs' with [] => EF_MIN_V4_LAST | _ => EF_MIN_V4 end) f
      ++ fields_wire v5 fs'
  end.

Lemma ef_serialize_untrusted_eq : forall v5 fs w, Forall (field_ok v5) fs -> fs <> [] ->
  ef_serialize_untrusted w fs v5 = wr w (fields_wire v5 fs).
Proof.
  intros v5. induction fs as [|f fs IH]; intros w H Hne; [contradiction|].
  inversion H; subst. cbn [ef_serialize_untrusted fields_wire].
  rewrite ef_serialize_eq by assumption.
  destruct fs as [|g fs].
  - cbn [ef_serialize_untrusted fields_wire]. rewrite app_nil_r.
    destruct (wr w _); reflexivity.
  - rewrite <- wr_app. destruct (wr w _) as [w1|e|s]; cbn [res_bind]; try reflexivity.
    apply IH; [assumption|discriminate].
Qed.

(* ---- (A) what the no-key decoder accepts ---- *)
Lemma raw_inv2 : forall data v5 tid m, wf_bytes data ->
  raw_deserialize data 4 v5 = Ok (tid, m) ->
  0 <= tid < 65536 /\ (v5 = false -> blen m mod 4 = 0).
Proof.
  intros data v5 tid m Hwf H. unfold raw_deserialize in H.
  destruct data as [|b0 [|b1 [|b2 [|b3 rest]]]]; try discriminate.
  remember (b0 :: b1 :: b2 :: b3 :: rest) as data eqn:Ed.
  assert (0 <= b0 < 256 /\ 0 <= b1 < 256) as [Hb0 Hb1].
  { subst data. apply wf_cons_inv in Hwf. destruct Hwf as [? Hwf].
    apply wf_cons_inv in Hwf. destruct Hwf as [? Hwf]. split; assumption. }
  destruct (_ <? _) eqn:E1; [discriminate|].
  destruct (_ && _) eqn:E2; [discriminate|].
  destruct (slice data 4 (nm4 _)) eqn:E3; [|discriminate].
  destruct (slice data 4 (b2 * 256 + b3)) eqn:E4; [|discriminate].
  clear Ed. inversion H; subst; clear H.
  apply slice_some in E4. destruct E4 as (_ & E4a & E4b & _ & E4c).
  split; [lia|]. intros ->. cbn [negb andb] in E2. lia.
Qed.

Lemma stream_next_inv2 : forall buf cutoff v5 offset tid m off', wf_bytes buf -> 0 <= offset ->
  stream_next buf cutoff 4 v5 offset = Some (Ok (tid, m), off') ->
  0 <= tid < 65536 /\ (v5 = false -> blen m mod 4 = 0).
Proof.
  intros buf cutoff v5 offset tid m off' Hwf Ho H. unfold stream_next in H.
  destruct (_ >? _) eqn:E0; [discriminate|]. destruct (_ <=? _); [discriminate|].
  destruct (raw_deserialize _ _ _) as [[tid' m']|e'|s] eqn:E; inversion H; subst.
  eapply raw_inv2; [|eassumption]. apply wf_bdrop; assumption.
Qed.

Lemma all_zero_zeros : forall m, all_zero m = true -> m = zeros (blen m).
Proof.
  induction m as [|x m IH]; intros H; [reflexivity|].
  cbn [all_zero forallb] in H. apply andb_prop in H. destruct H as [Hx Hm].
  unfold zeros. rewrite blen_cons. replace (Z.to_nat (1 + blen m)) with (S (Z.to_nat (blen m))) by (pose proof (blen_nonneg m); lia).
  cbn [repeat]. f_equal; [lia|]. apply IH. exact Hm.
Qed.

Lemma decode_field_ok : forall tid m v5 f,
  wf_bytes m -> blen m <= 65531 -> (v5 = false -> blen m mod 4 = 0) ->
  0 <= tid < 65536 -> tid <> T_ENCRYPTED ->
  decode_field tid m v5 = Ok f -> field_ok v5 f.
Proof.
  intros tid m v5 f Hwf Hlen Hmod Htid Hne H. unfold decode_field in H.
  assert (data_ok v5 m) as Hd by (repeat split; assumption).
  destruct (tid =? T_UID) eqn:E1. { inversion H; subst. exact Hd. }
  destruct (tid =? T_COOKIE) eqn:E2. { inversion H; subst. exact Hd. }
  destruct (tid =? T_PLACEHOLDER) eqn:E3.
  { destruct (all_zero m); inversion H; subst. cbn [field_ok]. pose proof (blen_nonneg m). split; [lia|].
    intros Hv. specialize (Hmod Hv). lia. }
  destruct ((tid =? T_DRAFT) && v5) eqn:E4.
  { destruct (all_ascii m) eqn:Ea; inversion H; subst. cbn [field_ok].
    apply andb_prop in E4. destruct E4 as [_ ->]. repeat split; try assumption. }
  destruct ((tid =? T_REFREQ) && v5) eqn:E5.
  { apply andb_prop in E5. destruct E5 as [_ ->].
    apply bind_ok_inv in H. destruct H as ([plen off] & Hr & H).
    unfold refreq_decode in Hr. destruct (blen m >? 65535); [discriminate|].
    destruct (slice m 0 2) as [ob|] eqn:Es; [|discriminate]. inversion Hr; subst; clear Hr.
    destruct (blen m mod 4 =? 0) eqn:Em; inversion H; subst. cbn [field_ok].
    pose proof (wf_slice _ _ _ _ Hwf Es) as Hwo. apply slice_some in Es. destruct Es as (_ & _ & ? & _ & Hbl).
    pose proof (be_bound ob Hwo) as Hb. rewrite Hbl in Hb. change (256 ^ (2 - 0)) with 65536 in Hb.
    repeat split; try lia. }
  destruct ((tid =? T_REFRESP) && v5) eqn:E6.
  { apply andb_prop in E6. destruct E6 as [_ ->]. inversion H; subst. cbn [field_ok]. split; [reflexivity|exact Hd]. }
  inversion H; subst. cbn [field_ok]. repeat split; try assumption; try lia.
  intros m'. unfold decode_field. rewrite E1, E2, E3, E4, E5, E6. reflexivity.
Qed.

Definition inv (v5 : bool) (st : lstate) : Prop :=
  authenticated (l_ef st) = [] /\ encrypted (l_ef st) = [] /\ l_cookie st = None /\
  (l_valid st = true -> Forall (field_ok v5) (untrusted (l_ef st))).

Lemma noks_loop : forall dec data hs v5 buf, wf_bytes buf ->
  forall fuel offset st st', inv v5 st -> l_size st = offset -> 0 <= offset <= blen buf ->
  ef_loop fuel dec NoKeys data hs v5 buf offset st = Ok st' ->
  inv v5 st' /\ 0 <= l_size st' <= blen buf /\ blen (bdrop (l_size st') buf) <= ef_cutoff v5.
Proof.
  intros dec data hs v5 buf Hwf. induction fuel as [|fuel IH]; intros offset st st' Hi Hs Ho H.
  - discriminate.
  - cbn [ef_loop] in H. unfold EF_V4_UNENCRYPTED_MINIMUM_SIZE in H.
    destruct (stream_next buf (ef_cutoff v5) 4 v5 offset) as [[e off']|] eqn:E.
    2:{ inversion H; subst st'. split; [assumption|]. split; [lia|].
        unfold stream_next in E. replace (offset >? blen buf) with false in E by lia.
        rewrite Hs. destruct (_ <=? _) eqn:Ec in E; [lia|].
        destruct (raw_deserialize _ _ _) as [[? ?]|?|?]; discriminate. }
    destruct e as [[tid m]|e|s]; try discriminate.
    pose proof (stream_next_inv2 _ _ _ _ _ _ _ Hwf (proj1 Ho) E) as (Htid & Hmod).
    apply stream_next_inv in E; [|assumption|lia]. destruct E as (Eoff & ? & ? & ? & ?).
    rewrite <- Eoff in H.
    destruct (tid =? T_ENCRYPTED) eqn:Et.
    + destruct (enc_from_message m) as [[nonce ct]|e|s]; cbn [res_bind] in H; try discriminate.
      cbn [cipher_get res_bind] in H.
      eapply IH; [| |split; [|eassumption] |exact H].
      * destruct Hi as (? & ? & ? & _). unfold inv, push_invalid, set_size; cbn.
        repeat split; try assumption. discriminate.
      * reflexivity.
      * lia.
    + destruct (decode_field tid m v5) as [f|e|s] eqn:Ed; cbn [res_bind] in H; try discriminate.
      eapply IH; [| |split; [|eassumption] |exact H].
      * destruct Hi as (? & ? & ? & Hf). unfold inv, push_untrusted, set_size; cbn.
        repeat split; try assumption. intros Hv. apply Forall_app. split; [apply Hf; exact Hv|].
        constructor; [|constructor]. eapply decode_field_ok; try eassumption; lia.
      * reflexivity.
      * lia.
Qed.

(* ---- headers: encode (decode data) reproduces the 48 header bytes ---- *)
Lemma firstn_add : forall (n m : nat) (l : bytes), firstn (n + m) l = firstn n l ++ firstn m (skipn n l).
Proof.
  induction n as [|n IH]; intros m l; [reflexivity|].
  destruct l as [|x l]; cbn [Nat.add firstn skipn app]; [rewrite firstn_nil; reflexivity|].
  rewrite IH. reflexivity.
Qed.

Lemma skipn_add : forall (a n : nat) (l : bytes), skipn (a + n) l = skipn n (skipn a l).
Proof.
  induction a as [|a IH]; intros n l; [reflexivity|].
  destruct l as [|x l]; cbn [Nat.add skipn]; [rewrite skipn_nil; reflexivity|apply IH].
Qed.

Lemma take_join : forall data a n m b s, b = a + n -> s = n + m -> 0 <= a -> 0 <= n -> 0 <= m ->
  btake n (bdrop a data) ++ btake m (bdrop b data) = btake s (bdrop a data).
Proof.
  intros data a n m b s -> -> Ha Hn Hm. unfold btake, bdrop.
  rewrite (Z2Nat.inj_add n m) by lia. rewrite firstn_add. f_equal.
  rewrite (Z2Nat.inj_add a n) by lia. rewrite skipn_add. reflexivity.
Qed.

Lemma nth_error_chunk : forall (l : bytes) n x, nth_error l n = Some x -> firstn 1 (skipn n l) = [x].
Proof.
  induction l as [|y l IH]; intros n x H; destruct n; cbn in *; try discriminate.
  - inversion H; reflexivity.
  - apply IH; assumption.
Qed.

Lemma idx_chunk : forall data i site x, idx data i site = Ok x ->
  0 <= i /\ btake 1 (bdrop i data) = [x] /\ In x data.
Proof.
  intros data i site x H. pose proof (idx_inv _ _ _ _ H) as Hin. unfold idx in H.
  destruct (nth_error data (Z.to_nat i)) eqn:E; [|discriminate].
  destruct (0 <=? i) eqn:E0; inversion H; subst. split; [lia|]. split; [|assumption].
  unfold btake, bdrop. change (Z.to_nat 1) with 1%nat. apply nth_error_chunk; assumption.
Qed.

Lemma idx_site : forall data i s1 s2 x, idx data i s1 = Ok x -> idx data i s2 = Ok x.
Proof.
  intros data i s1 s2 x H. unfold idx in *. destruct (nth_error data (Z.to_nat i)); [|discriminate].
  destruct (0 <=? i); [exact H|discriminate].
Qed.

Lemma field_chunk : forall data lo hi v (n : nat), wf_bytes data -> Z.of_nat n = hi - lo ->
  field data lo hi = Ok v ->
  to_be n v = btake (hi - lo) (bdrop lo data) /\ 0 <= v < 256 ^ (hi - lo) /\ 0 <= lo /\ hi <= blen data.
Proof.
  intros data lo hi v n Hwf Hn H. unfold field in H. apply bind_ok_inv in H. destruct H as (s & Hr & H).
  inversion H; subst v; clear H. apply range_inv in Hr. destruct Hr as (? & ? & ? & Hs & Hl).
  assert (wf_bytes s) as Hws by (subst s; apply wf_btake, wf_bdrop; assumption).
  pose proof (be_bound s Hws) as Hb. rewrite Hl in Hb.
  replace n with (List.length s) by (unfold blen in Hl; lia).
  rewrite to_be_be by assumption. repeat split; try assumption; lia.
Qed.

Lemma leap_rt : forall x l, 0 <= x < 4 -> leap_from_bits x = Ok l -> leap_to_bits l = x.
Proof.
  intros x l Hx H. unfold leap_from_bits in H.
  destruct (x =? 0) eqn:E0; [inversion H; subst; cbn; lia|].
  destruct (x =? 1) eqn:E1; [inversion H; subst; cbn; lia|].
  destruct (x =? 2) eqn:E2; [inversion H; subst; cbn; lia|].
  destruct (x =? 3) eqn:E3; [inversion H; subst; cbn; lia|discriminate].
Qed.

Ltac inv_bind H :=
  match type of H with
  | res_bind _ _ = Ok _ =>
      let a := fresh "a" in let E := fresh "E" in
      apply bind_ok_inv in H; destruct H as (a & E & H)
  end.

Lemma to_bits_short_rt : forall x, 0 <= x < 4294967296 -> to_bits_short (x * 65536) = Ok (to_be 4 x).
Proof.
  intros x H. unfold to_bits_short. replace (x * 65536 <? 0) with false by lia.
  replace (x * 65536 >? 281474976710655) with false by lia.
  replace ((x * 65536 / 65536) mod 2 ^ 32) with x by lia. reflexivity.
Qed.

Lemma to_bits_time32_rt : forall x, 0 <= x < 4294967296 -> to_bits_time32 (x * 16) = Ok (to_be 4 x).
Proof.
  intros x H. unfold to_bits_time32. replace (x * 16 <? 0) with false by lia.
  replace (x * 16 / 16) with x by lia. replace (x >? 4294967295) with false by lia. reflexivity.
Qed.

Lemma hdr34_serialize_eq : forall data h d0 ver w, wf_bytes data ->
  hdr34_deserialize data = Ok h -> idx data 0 S_DATA0 = Ok d0 -> (d0 / 8) mod 8 = ver ->
  hdr34_serialize w h ver = wr w (btake 48 data) /\ 48 <= blen data.
Proof.
  intros data h d0 ver w Hwf H Hd0 Hver. pose proof (hdr34_ok_len _ _ H) as Hlen. split; [|assumption].
  unfold hdr34_deserialize, HDR34_WIRE_LENGTH in H.
  replace (blen data <? 48) with false in H by lia.
  repeat inv_bind H. inversion H; subst h; clear H.
  rewrite (idx_site _ _ _ S_HDR_INDEX _ Hd0) in E. inversion E; subst a; clear E.
  apply idx_chunk in Hd0. destruct Hd0 as (_ & C0 & I0).
  apply idx_chunk in E2. destruct E2 as (_ & C1 & _).
  apply idx_chunk in E3. destruct E3 as (_ & C2 & _).
  apply idx_chunk in E4. destruct E4 as (_ & C3 & _).
  apply (field_chunk data 4 8 _ 4%nat Hwf ltac:(lia)) in E5. destruct E5 as (C4 & B4 & _).
  apply (field_chunk data 8 12 _ 4%nat Hwf ltac:(lia)) in E6. destruct E6 as (C5 & B5 & _).
  apply (field_chunk data 12 16 _ 4%nat Hwf ltac:(lia)) in E7. destruct E7 as (C6 & _).
  apply (field_chunk data 16 24 _ 8%nat Hwf ltac:(lia)) in E8. destruct E8 as (C7 & _).
  apply (field_chunk data 24 32 _ 8%nat Hwf ltac:(lia)) in E9. destruct E9 as (C8 & _).
  apply (field_chunk data 32 40 _ 8%nat Hwf ltac:(lia)) in E10. destruct E10 as (C9 & _).
  apply (field_chunk data 40 48 _ 8%nat Hwf ltac:(lia)) in E11. destruct E11 as (C10 & _).
  change (256 ^ (8 - 4)) with 4294967296 in B4. change (256 ^ (12 - 8)) with 4294967296 in B5.
  assert (0 <= d0 < 256) as Hb0.
  { unfold wf_bytes in Hwf. rewrite Forall_forall in Hwf. apply Hwf in I0. exact I0. }
  unfold hdr34_serialize. cbn [h_leap h_mode h_stratum h_poll h_precision h_root_delay h_root_disp h_refid
                               h_ref_ts h_origin_ts h_recv_ts h_xmit_ts].
  rewrite (to_bits_short_rt _ B4), (to_bits_short_rt _ B5). cbn [res_bind].
  rewrite (leap_rt ((d0 / 64) mod 4) a0 ltac:(lia) E0).
  unfold mode_from_bits in E1. destruct (_ && _) in E1; [|discriminate]. inversion E1; subst a1; clear E1.
  replace (d0 / 64 mod 4 * 64 + ver * 8 + d0 mod 8) with d0 by lia.
  rewrite !wr_app_k, wr_app. f_equal.
  rewrite C4, C5, C6, C7, C8, C9, C10.
  change [a2; a3; a4] with ([a2] ++ [a3] ++ [a4]). rewrite <- C0, <- C1, <- C2, <- C3.
  rewrite !app_assoc.
  rewrite (take_join data 0 1 1 1 2) by lia.
  rewrite (take_join data 0 2 1 2 3) by lia.
  rewrite (take_join data 0 3 1 3 4) by lia.
  rewrite (take_join data 0 4 (8 - 4) 4 8) by lia.
  rewrite (take_join data 0 8 (12 - 8) 8 12) by lia.
  rewrite (take_join data 0 12 (16 - 12) 12 16) by lia.
  rewrite (take_join data 0 16 (24 - 16) 16 24) by lia.
  rewrite (take_join data 0 24 (32 - 24) 24 32) by lia.
  rewrite (take_join data 0 32 (40 - 32) 32 40) by lia.
  rewrite (take_join data 0 40 (48 - 40) 40 48) by lia.
  reflexivity.
Qed.

(* v5: the header bytes are reproduced except that the leap bits are normalised *)
Definition hdr5_wire (data : bytes) (h : hdr5) : bytes :=
  [leap_to_bits (v_leap h) * 64 + HDR5_VERSION * 8 + v_mode h] ++ btake 47 (bdrop 1 data).

Lemma hdr5_serialize_eq : forall data h w, wf_bytes data ->
  hdr5_deserialize data = Ok h ->
  hdr5_serialize w h = wr w (hdr5_wire data h) /\ 48 <= blen data.
Proof.
  intros data h w Hwf H. pose proof (hdr5_ok_len _ _ H) as Hlen. split; [|assumption].
  unfold hdr5_wire. unfold hdr5_deserialize, HDR5_WIRE_LENGTH in H.
  replace (blen data <? 48) with false in H by lia.
  inv_bind H. destruct (negb _) in H; [discriminate|].
  repeat inv_bind H. inversion H; subst h; clear H.
  apply idx_chunk in E2. destruct E2 as (_ & C1 & _).
  apply idx_chunk in E3. destruct E3 as (_ & C2 & _).
  apply idx_chunk in E4. destruct E4 as (_ & C3 & _).
  apply (field_chunk data 4 8 _ 4%nat Hwf ltac:(lia)) in E5. destruct E5 as (C4 & B4 & _).
  apply (field_chunk data 8 12 _ 4%nat Hwf ltac:(lia)) in E6. destruct E6 as (C5 & B5 & _).
  apply idx_chunk in E7. destruct E7 as (_ & C6 & _).
  apply idx_chunk in E9. destruct E9 as (_ & C7 & _).
  apply (field_chunk data 16 24 _ 8%nat Hwf ltac:(lia)) in E12. destruct E12 as (C10 & _).
  apply (field_chunk data 24 32 _ 8%nat Hwf ltac:(lia)) in E13. destruct E13 as (C11 & _).
  apply (field_chunk data 32 40 _ 8%nat Hwf ltac:(lia)) in E14. destruct E14 as (C12 & _).
  apply (field_chunk data 40 48 _ 8%nat Hwf ltac:(lia)) in E15. destruct E15 as (C13 & _).
  change (256 ^ (8 - 4)) with 4294967296 in B4. change (256 ^ (12 - 8)) with 4294967296 in B5.
  (* timescale and flags are the bytes they were read from *)
  unfold v5_timescale_from_bits in E8. destruct (_ && _) in E8; [|discriminate]. inversion E8; subst a8; clear E8.
  apply range_inv in E10. destruct E10 as (_ & _ & _ & Hfb & Hfl).
  assert (exists f0 f1, a10 = [f0; f1]) as (f0 & f1 & ->).
  { destruct a10 as [|f0 [|f1 [|f2 r]]]; unfold blen in Hfl; cbn [List.length] in Hfl; try lia. eauto. }
  cbn [nth] in E11. unfold v5_flags_from_bits in E11.
  destruct (_ || _) eqn:Ef in E11; [discriminate|]. inversion E11; subst a11; clear E11.
  assert (wf_bytes [f0; f1]) as Hwfb by (rewrite Hfb; apply wf_btake, wf_bdrop; assumption).
  apply wf_cons_inv in Hwfb. destruct Hwfb as [Hf0 Hwfb]. apply wf_cons_inv in Hwfb. destruct Hwfb as [Hf1 _].
  assert (f0 = 0 /\ f1 mod 8 = f1) as [-> Hf1'] by lia.
  unfold hdr5_serialize. cbn [v_leap v_mode v_stratum v_poll v_precision v_timescale v_era v_flags v_root_delay
                              v_root_disp v_server_cookie v_client_cookie v_recv_ts v_xmit_ts].
  rewrite (to_bits_time32_rt _ B4), (to_bits_time32_rt _ B5). cbn [res_bind].
  rewrite Hf1'.
  rewrite !wr_app_k, wr_app. f_equal. rewrite <- !app_assoc. f_equal.
  rewrite C4, C5, C10, C11, C12, C13, Hfb.
  change [a2; a3; a4] with ([a2] ++ [a3] ++ [a4]). rewrite <- C1, <- C2, <- C3, <- C6, <- C7.
  rewrite !app_assoc.
  rewrite (take_join data 1 1 1 2 2) by lia.
  rewrite (take_join data 1 2 1 3 3) by lia.
  rewrite (take_join data 1 3 (8 - 4) 4 7) by lia.
  rewrite (take_join data 1 7 (12 - 8) 8 11) by lia.
  rewrite (take_join data 1 11 1 12 12) by lia.
  rewrite (take_join data 1 12 1 13 13) by lia.
  rewrite (take_join data 1 13 (16 - 14) 14 15) by lia.
  rewrite (take_join data 1 15 (24 - 16) 16 23) by lia.
  rewrite (take_join data 1 23 (32 - 24) 24 31) by lia.
  rewrite (take_join data 1 31 (40 - 32) 32 39) by lia.
  rewrite (take_join data 1 39 (48 - 40) 40 47) by lia.
  reflexivity.
Qed.

(* ---- MAC ---- *)
Definition mac_wire (m : option mac) : bytes :=
  match m with None => [] | Some m => to_be 4 (keyid m) ++ macbytes m end.

Lemma mac_deserialize_inv : forall r m, wf_bytes r -> mac_deserialize r = Ok m ->
  mac_wire (Some m) = r /\ 4 <= blen r <= 24 /\ 0 <= keyid m < 4294967296 /\ wf_bytes (macbytes m).
Proof.
  intros r m Hwf H. unfold mac_deserialize, MAC_MINIMUM_SIZE, MAC_MAXIMUM_SIZE in H.
  destruct (_ || _) eqn:E; [discriminate|]. repeat inv_bind H. inversion H; subst m; clear H.
  apply range_inv in E0. destruct E0 as (_ & _ & _ & Ha & Hla).
  apply range_inv in E1. destruct E1 as (_ & _ & _ & Hb & Hlb).
  assert (wf_bytes a) as Hwa by (subst a; apply wf_btake, wf_bdrop; assumption).
  assert (wf_bytes a0) as Hwb by (subst a0; apply wf_btake, wf_bdrop; assumption).
  pose proof (be_bound a Hwa) as Hbd. rewrite Hla in Hbd. change (256 ^ (4 - 0)) with 4294967296 in Hbd.
  cbn [mac_wire keyid macbytes]. repeat split; try lia; try assumption.
  replace 4%nat with (List.length a) by (unfold blen in Hla; lia).
  rewrite to_be_be by assumption. rewrite Ha, Hb.
  rewrite (take_join r 0 (4 - 0) (blen r - 4) 4 (blen r)) by lia.
  rewrite bdrop_0. apply btake_all.
Qed.

Lemma mac_serialize_eq : forall w m, mac_serialize w m = wr w (mac_wire (Some m)).
Proof. intros; unfold mac_serialize, mac_wire. apply wr_app. Qed.

Lemma wr_ok : forall w b, blen (w_out w) + blen b <= w_cap w ->
  wr w b = Ok (mkW (w_out w ++ b) (w_cap w)).
Proof. intros w b H. unfold wr. replace (_ >? _) with false by lia. reflexivity. Qed.

(* ---- what with_fields accepts without keys ---- *)
Definition body_ok (v5 : bool) (d : efdata) (m : option mac) (tail : bytes) : Prop :=
  authenticated d = [] /\ encrypted d = [] /\ Forall (field_ok v5) (untrusted d) /\
  mac_wire m = tail /\ blen tail <= ef_cutoff v5 /\ wf_bytes tail /\
  (forall h' d', construct_packet h' tail d' = Ok (mkPacket h' d' m)).

Lemma with_fields_accept : forall dec data h v5 p c, wf_bytes data -> 48 <= blen data ->
  with_fields dec NoKeys data h 48 v5 = Ok (Accept p c) ->
  c = None /\ p_header p = h /\ exists tail, body_ok v5 (p_ef p) (p_mac p) tail.
Proof.
  intros dec data h v5 p c Hwf Hlen H. unfold with_fields in H.
  inv_bind H. destruct a as [[[d remaining] ck] valid]. inv_bind H.
  destruct valid; [|discriminate]. inversion H; subst a c; clear H.
  unfold efdata_deserialize in E. rewrite range_ok in E by lia. cbn [res_bind] in E.
  set (buf := btake (blen data - 48) (bdrop 48 data)) in *.
  assert (blen buf = blen data - 48) as Hb.
  { unfold buf. rewrite blen_btake; [reflexivity|]. rewrite blen_bdrop; lia. }
  assert (wf_bytes buf) as Hwb by (apply wf_btake, wf_bdrop; assumption).
  inv_bind E. inv_bind E. inversion E as [[Hd Hr0 Hck Hv]]; subst d remaining ck; clear E.
  pose proof (blen_nonneg buf) as Hbn.
  eapply (noks_loop dec data 48 v5 buf Hwb) in E1;
    [|repeat split; try reflexivity; intros; constructor|reflexivity|lia].
  destruct E1 as ((Ha & He & Hc & Hf) & Hsz & Hcut).
  apply range_inv in E2. destruct E2 as (_ & _ & _ & Hr & Hrl).
  assert (wf_bytes a0) as Hwr by (subst a0; apply wf_btake, wf_bdrop; assumption).
  rewrite blen_bdrop in Hcut by lia.
  split; [exact Hc|].
  unfold construct_packet in E0. destruct a0 as [|x r].
  - inversion E0; subst p; clear E0. cbn [p_header p_ef p_mac]. split; [reflexivity|].
    exists []. split; [assumption|]. split; [assumption|]. split; [apply Hf; exact Hv|]. split; [reflexivity|].
    split; [|split; [constructor|reflexivity]].
    change (blen []) with 0. unfold ef_cutoff, EF_CUTOFF_V5, MAC_MAXIMUM_SIZE. destruct v5; lia.
  - inv_bind E0. inversion E0; subst p; clear E0. cbn [p_header p_ef p_mac]. split; [reflexivity|].
    exists (x :: r). pose proof E as E'. apply mac_deserialize_inv in E; [|assumption]. destruct E as (Hw & _).
    split; [assumption|]. split; [assumption|]. split; [apply Hf; exact Hv|]. split; [exact Hw|].
    split; [lia|]. split; [assumption|].
    intros h' d'. unfold construct_packet. rewrite E'. reflexivity.
Qed.

Lemma wr_nil_room : forall w, blen (w_out w) <= w_cap w -> wr w [] = Ok w.
Proof.
  intros w H. rewrite wr_ok by (change (blen []) with 0; lia). rewrite app_nil_r. destruct w; reflexivity.
Qed.

Lemma efdata_serialize_eq : forall enc v5 d w, authenticated d = [] -> encrypted d = [] ->
  Forall (field_ok v5) (untrusted d) -> blen (w_out w) <= w_cap w ->
  efdata_serialize enc None w d v5 = wr w (fields_wire v5 (untrusted d)).
Proof.
  intros enc v5 d w Ha He Hf Hw. unfold efdata_serialize. rewrite Ha, He. cbn [res_bind].
  destruct (untrusted d) eqn:Eu.
  - cbn [ef_serialize_untrusted fields_wire]. symmetry. apply wr_nil_room; assumption.
  - apply ef_serialize_untrusted_eq; [assumption|discriminate].
Qed.

Lemma serialize_parts : forall enc cap p hw fw mw,
  (forall w, match p_header p with
             | HV3 h => hdr34_serialize w h 3 | HV4 h => hdr34_serialize w h 4 | HV5 h => hdr5_serialize w h
             end = wr w hw) ->
  (forall w, blen (w_out w) <= w_cap w ->
             match p_header p with
             | HV3 _ => Ok w
             | HV4 _ => efdata_serialize enc None w (p_ef p) false
             | HV5 _ => efdata_serialize enc None w (p_ef p) true
             end = wr w fw) ->
  mac_wire (p_mac p) = mw ->
  blen (hw ++ fw ++ mw) <= cap ->
  serialize enc None cap None p = Ok (hw ++ fw ++ mw).
Proof.
  intros enc cap p hw fw mw Hh Hf Hm Hcap. unfold serialize.
  rewrite !blen_app in Hcap.
  pose proof (blen_nonneg hw). pose proof (blen_nonneg fw). pose proof (blen_nonneg mw).
  rewrite Hh. rewrite wr_ok by (cbn [w_out w_cap]; change (blen []) with 0; lia).
  cbn [res_bind w_out w_cap app].
  rewrite Hf by (cbn [w_out w_cap]; lia). rewrite wr_ok by (cbn [w_out w_cap]; lia).
  cbn [res_bind w_out w_cap].
  assert ((do w <- match p_mac p with Some m => mac_serialize (mkW (hw ++ fw) cap) m | None => Ok (mkW (hw ++ fw) cap) end;
           Ok w) = Ok (mkW (hw ++ fw ++ mw) cap)) as Hmac.
  { destruct (p_mac p) as [m|]; cbn [mac_wire] in Hm.
    - rewrite mac_serialize_eq. cbn [mac_wire]. rewrite Hm.
      rewrite wr_ok by (cbn [w_out w_cap]; rewrite blen_app; lia). cbn [res_bind w_out w_cap].
      rewrite <- app_assoc. reflexivity.
    - subst mw. rewrite app_nil_r. reflexivity. }
  destruct (p_mac p) as [m|]; cbn [res_bind] in Hmac |- *.
  - destruct (mac_serialize _ m) as [w|e|s]; cbn [res_bind] in Hmac |- *; inversion Hmac; subst.
    destruct (p_header p); reflexivity.
  - injection Hmac as Hq. destruct (p_header p); cbn [res_bind w_out]; rewrite <- Hq; reflexivity.
Qed.

Theorem reencode_ok : forall dec data p c, wf_bytes data ->
  deserialize dec NoKeys data = Ok (Accept p c) ->
  c = None /\ exists b1, forall enc cap, blen b1 <= cap -> serialize enc None cap None p = Ok b1.
Proof.
  intros dec data p c Hwf H. unfold deserialize in H.
  destruct data as [|x data']; [discriminate|]. remember (x :: data') as data eqn:Ed. clear Ed.
  inv_bind H. rename a into d0. rename E into Hd0.
  destruct (_ =? 3) eqn:V3.
  { inv_bind H. rename a into h. inv_bind H. inversion H; subst p c; clear H. split; [reflexivity|].
    exists (btake 48 data ++ [] ++ mac_wire a). intros enc cap Hcap.
    apply serialize_parts; cbn [p_header p_ef p_mac]; try assumption; try reflexivity.
    - intros w. eapply (proj1 (hdr34_serialize_eq data h d0 3 w Hwf E Hd0 ltac:(lia))).
    - intros w Hw. symmetry. apply wr_nil_room; assumption. }
  destruct (_ =? 4) eqn:V4.
  { inv_bind H. rename a into h.
    pose proof (hdr34_ok_len _ _ E) as Hlen.
    unfold HDR34_WIRE_LENGTH in H. apply with_fields_accept in H; try assumption.
    destruct H as (-> & Hh & tail & Ha & He & Hf & Hm & _ & _ & _). split; [reflexivity|].
    exists (btake 48 data ++ fields_wire false (untrusted (p_ef p)) ++ tail). intros enc cap Hcap.
    apply serialize_parts; rewrite ?Hh; try assumption.
    - intros w. eapply (proj1 (hdr34_serialize_eq data h d0 4 w Hwf E Hd0 ltac:(lia))).
    - intros w Hw. apply efdata_serialize_eq; assumption. }
  destruct (_ =? 5) eqn:V5; [|discriminate].
  inv_bind H. rename a into h. pose proof (hdr5_ok_len _ _ E) as Hlen.
  inv_bind H. destruct a as [p' c'|p']; [|discriminate].
  assert (p' = p /\ c' = c) as [-> ->].
  { destruct (draft_id p'); [|discriminate]. destruct (bytes_eqb _ _); [|discriminate]. inversion H; split; reflexivity. }
  unfold HDR5_WIRE_LENGTH in E0. apply with_fields_accept in E0; try assumption.
  destruct E0 as (-> & Hh & tail & Ha & He & Hf & Hm & _ & _ & _). split; [reflexivity|].
  exists (hdr5_wire data h ++ fields_wire true (untrusted (p_ef p)) ++ tail). intros enc cap Hcap.
  apply serialize_parts; rewrite ?Hh; try assumption.
  - intros w. eapply (proj1 (hdr5_serialize_eq data h w Hwf E)).
  - intros w Hw. apply efdata_serialize_eq; assumption.
Qed.
