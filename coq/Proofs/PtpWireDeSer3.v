(* C41, parse then serialise: the ten bodies. *)
From V Require Import Model.PtpWire Proofs.WireBytes Proofs.PtpWireHeader Proofs.PtpWireDeSer1 Proofs.PtpWireDeSer2.
From Coq Require Import ZifyBool.

Lemma Ok_inj_ : forall {A} (a b : A), Ok a = Ok b -> a = b.
Proof. intros A a b H. injection H. auto. Qed.

Definition body_back_stmt (ty : Z) (d : bytes) (b : body) (old : bytes) : Prop :=
  ser_body b old = mapi_from (norm_byte ty) 34 d /\ body_encodable b = true /\ body_type b = ty /\ body_ok b.

Ltac split_bytes Hb :=
  unfold bytes_ok in Hb;
  repeat match goal with H : Forall _ (_ :: _) |- _ => let A := fresh "Y" in let B := fresh "F" in inversion H as [|? ? A B]; clear H; subst end;
  unfold is_byte in *.

Ltac norm_rhs := cbv [mapi_from norm_byte Nat.eqb Nat.leb andb orb Z.eqb Pos.eqb].

Ltac use_be_unbe l :=
  let K := fresh "K" in let U := fresh "U" in
  assert (bytes_ok l) as K by bytes_solve;
  pose proof (be_unbe l K) as U; cbn [length] in U; rewrite ?U.

Ltac open_body H :=
  unfold de_body in H;
  cbn [length app Nat.ltb Nat.leb type_size Z.eqb Pos.eqb] in H;
  unfold ts_de, pid_de, cq_de in H; unfold slice, byte in H;
  cbn [firstn skipn app length Nat.sub Nat.ltb Nat.leb nth] in H.

(* a timestamp read from ten bytes *)
Lemma ts_read_ok : forall d0 d1 d2 d3 d4 d5 d6 d7 d8 d9,
  bytes_ok [d0; d1; d2; d3; d4; d5; d6; d7; d8; d9] ->
  (unbe [d6; d7; d8; d9] >? 1000000000) = false ->
  ts_ok (mkTs (unbe [d0; d1; d2; d3; d4; d5]) (unbe [d6; d7; d8; d9])).
Proof.
  intros d0 d1 d2 d3 d4 d5 d6 d7 d8 d9 Hb Hn.
  assert (bytes_ok [d0; d1; d2; d3; d4; d5]) as K6 by (split_bytes Hb; bytes_solve).
  assert (bytes_ok [d6; d7; d8; d9]) as K4 by (split_bytes Hb; bytes_solve).
  pose proof (unbe_range _ K6) as R6. pose proof (unbe_range _ K4) as R4. cbn [length] in R6, R4.
  change (256 ^ Z.of_nat 6) with (2 ^ 48) in R6.
  unfold ts_ok. cbn [ts_secs ts_nanos]. lia.
Qed.

Lemma pid_read_ok : forall c0 c1 c2 c3 c4 c5 c6 c7 p0 p1,
  bytes_ok [c0; c1; c2; c3; c4; c5; c6; c7; p0; p1] ->
  pid_ok (mkPid [c0; c1; c2; c3; c4; c5; c6; c7] (unbe [p0; p1])).
Proof.
  intros c0 c1 c2 c3 c4 c5 c6 c7 p0 p1 Hb.
  assert (bytes_ok [p0; p1]) as K2 by (split_bytes Hb; bytes_solve).
  pose proof (unbe_range _ K2) as R2. cbn [length] in R2. change (256 ^ Z.of_nat 2) with 65536 in R2.
  unfold pid_ok. cbn [pid_clock pid_port length]. split; [split_bytes Hb; bytes_solve|]. split; [reflexivity|lia].
Qed.

(* bodies that are one timestamp: Sync, DelayReq, FollowUp *)
Lemma body_back_ts : forall ty (mk : timestamp -> body) d rest b old,
  (ty = 0 /\ mk = Sync) \/ (ty = 1 /\ mk = DelayReq) \/ (ty = 8 /\ mk = FollowUp) ->
  bytes_ok d -> length d = 10%nat ->
  de_body ty (d ++ rest) = Ok b -> body_back_stmt ty d b old.
Proof.
  intros ty mk d rest b old Hty Hb Hl H.
  do 10 (destruct d as [|? d]; [discriminate|]). destruct d; [|discriminate].
  assert (ts_ok (mkTs (unbe [z; z0; z1; z2; z3; z4]) (unbe [z5; z6; z7; z8])) /\
          b = mk (mkTs (unbe [z; z0; z1; z2; z3; z4]) (unbe [z5; z6; z7; z8]))) as [Hts ->].
  { destruct Hty as [[-> ->]|[[-> ->]|[-> ->]]]; open_body H;
      (destruct (unbe [z5; z6; z7; z8] >? 1000000000) eqn:En; [discriminate|]);
      cbn [res_bind] in H; apply Ok_inj_ in H; (split; [apply ts_read_ok; assumption|symmetry; exact H]). }
  pose proof Hb as Hb'. split_bytes Hb'.
  assert (ts_ser (mkTs (unbe [z; z0; z1; z2; z3; z4]) (unbe [z5; z6; z7; z8])) = [z; z0; z1; z2; z3; z4; z5; z6; z7; z8]) as Ets.
  { unfold ts_ser. cbn [ts_secs ts_nanos]. use_be_unbe [z; z0; z1; z2; z3; z4]. use_be_unbe [z5; z6; z7; z8]. reflexivity. }
  unfold body_back_stmt.
  destruct Hty as [[-> ->]|[[-> ->]|[-> ->]]]; cbn [ser_body body_encodable body_type body_ok]; rewrite Ets; norm_rhs; auto.
Qed.

(* PDelayReq: a timestamp and ten reserved bytes *)
Lemma body_back_pdelay_req : forall d rest b old,
  bytes_ok d -> length d = 20%nat -> de_body 2 (d ++ rest) = Ok b -> body_back_stmt 2 d b old.
Proof.
  intros d rest b old Hb Hl H.
  do 20 (destruct d as [|? d]; [discriminate|]). destruct d; [|discriminate].
  open_body H. destruct (unbe [z5; z6; z7; z8] >? 1000000000) eqn:En; [discriminate|].
  cbn [res_bind] in H. apply Ok_inj_ in H. subst b.
  assert (bytes_ok [z; z0; z1; z2; z3; z4; z5; z6; z7; z8]) as K10 by (split_bytes Hb; bytes_solve).
  pose proof (ts_read_ok _ _ _ _ _ _ _ _ _ _ K10 En) as Hts.
  split_bytes Hb. unfold body_back_stmt. cbn [ser_body body_encodable body_type body_ok]. unfold ts_ser. cbn [ts_secs ts_nanos].
  use_be_unbe [z; z0; z1; z2; z3; z4]. use_be_unbe [z5; z6; z7; z8]. norm_rhs. auto.
Qed.

(* bodies that are a timestamp and a port identity: PDelayResp, DelayResp, PDelayRespFollowUp *)
Lemma body_back_ts_pid : forall ty (mk : timestamp -> port_id -> body) d rest b old,
  (ty = 3 /\ mk = PDelayResp) \/ (ty = 9 /\ mk = DelayResp) \/ (ty = 10 /\ mk = PDelayRespFollowUp) ->
  bytes_ok d -> length d = 20%nat ->
  de_body ty (d ++ rest) = Ok b -> body_back_stmt ty d b old.
Proof.
  intros ty mk d rest b old Hty Hb Hl H.
  do 20 (destruct d as [|? d]; [discriminate|]). destruct d; [|discriminate].
  assert (bytes_ok [z; z0; z1; z2; z3; z4; z5; z6; z7; z8]) as K10 by (split_bytes Hb; bytes_solve).
  assert (bytes_ok [z9; z10; z11; z12; z13; z14; z15; z16; z17; z18]) as K20 by (split_bytes Hb; bytes_solve).
  pose proof (pid_read_ok _ _ _ _ _ _ _ _ _ _ K20) as Hpid.
  assert (ts_ok (mkTs (unbe [z; z0; z1; z2; z3; z4]) (unbe [z5; z6; z7; z8])) /\
          b = mk (mkTs (unbe [z; z0; z1; z2; z3; z4]) (unbe [z5; z6; z7; z8]))
                 (mkPid [z9; z10; z11; z12; z13; z14; z15; z16] (unbe [z17; z18]))) as [Hts ->].
  { destruct Hty as [[-> ->]|[[-> ->]|[-> ->]]]; open_body H;
      (destruct (unbe [z5; z6; z7; z8] >? 1000000000) eqn:En; [discriminate|]);
      cbn [res_bind] in H; apply Ok_inj_ in H; (split; [apply ts_read_ok; assumption|symmetry; exact H]). }
  split_bytes Hb.
  assert (ts_ser (mkTs (unbe [z; z0; z1; z2; z3; z4]) (unbe [z5; z6; z7; z8])) = [z; z0; z1; z2; z3; z4; z5; z6; z7; z8]) as Ets.
  { unfold ts_ser. cbn [ts_secs ts_nanos]. use_be_unbe [z; z0; z1; z2; z3; z4]. use_be_unbe [z5; z6; z7; z8]. reflexivity. }
  assert (pid_ser (mkPid [z9; z10; z11; z12; z13; z14; z15; z16] (unbe [z17; z18])) = [z9; z10; z11; z12; z13; z14; z15; z16; z17; z18]) as Epid.
  { unfold pid_ser. cbn [pid_clock pid_port]. use_be_unbe [z17; z18]. reflexivity. }
  unfold body_back_stmt.
  destruct Hty as [[-> ->]|[[-> ->]|[-> ->]]]; cbn [ser_body body_encodable body_type body_ok]; rewrite Ets, Epid; norm_rhs; auto.
Qed.

(* Signaling: a port identity *)
Lemma body_back_signaling : forall d rest b old,
  bytes_ok d -> length d = 10%nat -> de_body 12 (d ++ rest) = Ok b -> body_back_stmt 12 d b old.
Proof.
  intros d rest b old Hb Hl H.
  do 10 (destruct d as [|? d]; [discriminate|]). destruct d; [|discriminate].
  open_body H. apply Ok_inj_ in H. subst b.
  pose proof (pid_read_ok _ _ _ _ _ _ _ _ _ _ Hb) as Hpid.
  split_bytes Hb. unfold body_back_stmt. cbn [ser_body body_encodable body_type body_ok]. unfold pid_ser. cbn [pid_clock pid_port].
  use_be_unbe [z7; z8]. norm_rhs. auto.
Qed.

(* Management *)
Lemma body_back_management : forall d rest b old,
  (forall i, byte i old = 0) ->
  bytes_ok d -> length d = 14%nat -> de_body 13 (d ++ rest) = Ok b -> body_back_stmt 13 d b old.
Proof.
  intros d rest b old Hold Hb Hl H.
  do 14 (destruct d as [|? d]; [discriminate|]). destruct d; [|discriminate].
  open_body H. apply Ok_inj_ in H. subst b.
  assert (bytes_ok [z; z0; z1; z2; z3; z4; z5; z6; z7; z8]) as K10 by (split_bytes Hb; bytes_solve).
  pose proof (pid_read_ok _ _ _ _ _ _ _ _ _ _ K10) as Hpid.
  split_bytes Hb. unfold body_back_stmt. cbn [ser_body body_encodable body_type body_ok]. unfold pid_ser. cbn [pid_clock pid_port].
  use_be_unbe [z7; z8]. rewrite Hold. norm_rhs. unfold is_byte.
  split; [reflexivity|]. split; [reflexivity|]. split; [reflexivity|]. split; [exact Hpid|lia].
Qed.

Lemma acc_from_ok : forall x, 0 <= x < 256 -> acc_ok (acc_from_prim x).
Proof.
  intros x H. unfold acc_from_prim.
  destruct ((x <=? 22) || (50 <=? x) && (x <=? 127) || (x =? 255)) eqn:E1; [exact I|].
  destruct (x <=? 49) eqn:E2; [cbn [acc_ok]; lia|].
  destruct (x =? 254) eqn:E3; [exact I|]. cbn [acc_ok]. unfold is_byte. lia.
Qed.

Lemma tsrc_from_ok : forall x, 0 <= x < 256 -> tsrc_ok (tsrc_from_prim x).
Proof.
  intros x H. unfold tsrc_from_prim.
  repeat (match goal with |- tsrc_ok (if ?c then _ else _) => destruct c; [exact I|] end).
  match goal with |- tsrc_ok (if ?c then _ else _) => destruct c end; cbn [tsrc_ok]; unfold is_byte; lia.
Qed.

(* Announce *)
Lemma body_back_announce : forall d rest b old,
  (forall i, byte i old = 0) ->
  bytes_ok d -> length d = 30%nat -> de_body 11 (d ++ rest) = Ok b -> body_back_stmt 11 d b old.
Proof.
  intros d rest b old Hold Hb Hl H.
  do 30 (destruct d as [|? d]; [discriminate|]). destruct d; [|discriminate].
  open_body H. destruct (unbe [z5; z6; z7; z8] >? 1000000000) eqn:En; [discriminate|].
  cbn [res_bind] in H. apply Ok_inj_ in H. subst b.
  assert (bytes_ok [z; z0; z1; z2; z3; z4; z5; z6; z7; z8]) as K10 by (split_bytes Hb; bytes_solve).
  pose proof (ts_read_ok _ _ _ _ _ _ _ _ _ _ K10 En) as Hts.
  split_bytes Hb.
  destruct (tsrc_back z28 ltac:(lia)) as [T1 T2].
  pose proof (acc_back z14 ltac:(lia)) as A1.
  assert (bytes_ok [z9; z10]) as Kutc by bytes_solve.
  pose proof (be_signed [z9; z10] Kutc ltac:(cbn; lia)) as Uutc. cbn [length] in Uutc. change (8 * Z.of_nat 2) with 16 in Uutc.
  pose proof (to_signed_range 16 (unbe [z9; z10]) ltac:(lia)) as Rutc. change (2 ^ (16 - 1)) with 32768 in Rutc.
  assert (bytes_ok [z15; z16]) as Kvar by bytes_solve. pose proof (unbe_range _ Kvar) as Rvar. cbn [length] in Rvar.
  assert (bytes_ok [z26; z27]) as Kst by bytes_solve. pose proof (unbe_range _ Kst) as Rst. cbn [length] in Rst.
  change (256 ^ Z.of_nat 2) with 65536 in *.
  unfold body_back_stmt. cbn [ser_body body_encodable body_type body_ok cq_acc]. unfold ts_ser, cq_ser. cbn [ts_secs ts_nanos cq_class cq_acc cq_var].
  use_be_unbe [z; z0; z1; z2; z3; z4]. use_be_unbe [z5; z6; z7; z8]. use_be_unbe [z15; z16]. use_be_unbe [z26; z27].
  rewrite Uutc, T1, Hold, A1, T2. norm_rhs.
  split; [reflexivity|]. split; [reflexivity|]. split; [reflexivity|].
  unfold cq_ok, is_byte. cbn [cq_class cq_acc cq_var length].
  split; [exact Hts|]. split; [lia|]. split; [lia|].
  split; [split; [lia|split; [apply acc_from_ok; lia|lia]]|].
  split; [lia|]. split; [bytes_solve|]. split; [reflexivity|]. split; [lia|apply tsrc_from_ok; lia].
Qed.

(* all ten *)
Theorem body_back : forall ty d rest b old,
  In ty types -> (forall i, byte i old = 0) ->
  bytes_ok d -> length d = type_size ty -> de_body ty (d ++ rest) = Ok b -> body_back_stmt ty d b old.
Proof.
  intros ty d rest b old Hin Hold Hb Hl H. unfold types in Hin. cbn [In] in Hin.
  destruct Hin as [<-|[<-|[<-|[<-|[<-|[<-|[<-|[<-|[<-|[<-|[]]]]]]]]]]]; cbn [type_size Z.eqb Pos.eqb] in Hl.
  - eapply (body_back_ts 0 Sync); eauto.
  - eapply (body_back_ts 1 DelayReq); eauto.
  - eapply body_back_pdelay_req; eauto.
  - eapply (body_back_ts_pid 3 PDelayResp); eauto.
  - eapply (body_back_ts 8 FollowUp); eauto 6.
  - eapply (body_back_ts_pid 9 DelayResp); eauto.
  - eapply (body_back_ts_pid 10 PDelayRespFollowUp); eauto 6.
  - eapply body_back_announce; eauto.
  - eapply body_back_signaling; eauto.
  - eapply body_back_management; eauto.
Qed.
