From V Require Import Model.SockSample Gen.ConstSock Base.D3FloatFacts.
From Coq Require Import Floats.

(* ---- the sample format of gpsd's timehint.c / chrony's SOCK driver, written
   with literal positions (the specification side):
     struct sock_sample { struct timeval tv; double offset; int pulse; int leap; int _pad; int magic; }
   tv occupies bytes 0..16 ---- *)
Definition GPSD_SAMPLE_SIZE : Z := 40.
Definition GPSD_MAGIC : Z := 0x534f434b.
Definition sample_of_buf (buf : list Z) : sample :=
  {| s_offset := le_Z (slice 16 24 buf);
     s_pulse := to_signed 32 (le_Z (slice 24 28 buf));
     s_leap := to_signed 32 (le_Z (slice 28 32 buf));
     s_magic := to_signed 32 (le_Z (slice 36 40 buf)) |}.

(* the census of the constants translator: four rejecting exits, one recv into
   the enlarged buffer *)
Example sock_census :
  SOCK_ERR_RETURNS = 4 /\ SOCK_RECV_CALLS = 1 /\ SOCK_RECV_BUF_DECL = 1 /\
  SOCK_SAMPLE_SIZE = GPSD_SAMPLE_SIZE /\ SOCK_MAGIC = GPSD_MAGIC /\ 0 < SOCK_RECV_EXTRA.
Proof. repeat split. Qed.

Lemma field_ok lo hi w buf :
  hi <= Z.of_nat (length buf) -> lo <= hi -> hi - lo = w ->
  field lo hi w buf = Ok (le_Z (slice (Z.to_nat lo) (Z.to_nat hi) buf)).
Proof.
  intros H1 H2 H3. unfold field.
  assert ((Z.of_nat (length buf) <? hi) = false) as -> by lia.
  assert ((hi <? lo) = false) as -> by lia.
  assert ((hi - lo =? w) = true) as -> by lia.
  reflexivity.
Qed.

Lemma parse_fields_ok buf :
  length buf = 40%nat -> parse_fields buf = Ok (sample_of_buf buf).
Proof.
  intros Hlen. unfold parse_fields.
  rewrite !field_ok by (try rewrite Hlen; vm_compute; try reflexivity; discriminate).
  reflexivity.
Qed.

(* the decision table of deserialize_sample on a 40-byte buffer *)
Definition decide (size : Z) (buf : list Z) : res sample :=
  let s := sample_of_buf buf in
  if negb (size =? GPSD_SAMPLE_SIZE) then Err E_SIZE
  else if negb (s_magic s =? GPSD_MAGIC) then Err E_MAGIC
  else if negb (s_pulse s =? 0) then Err E_PULSE
  else if negb (f64_is_finite (f64_of_bits (s_offset s))) then Err E_OFFSET
  else Ok s.

Lemma deserialize_spec size buf :
  length buf = 40%nat -> deserialize_sample (Some size) buf = decide size buf.
Proof.
  intros Hlen. unfold deserialize_sample, decide.
  change SOCK_SAMPLE_SIZE with GPSD_SAMPLE_SIZE. change SOCK_MAGIC with GPSD_MAGIC.
  destruct (negb (size =? GPSD_SAMPLE_SIZE)); [reflexivity|].
  rewrite (parse_fields_ok buf Hlen). reflexivity.
Qed.

Lemma decide_ok_iff size buf s :
  decide size buf = Ok s <->
  (size = 40 /\ s = sample_of_buf buf /\ s_magic s = GPSD_MAGIC /\ s_pulse s = 0 /\
   f64_is_finite (f64_of_bits (s_offset s)) = true).
Proof.
  unfold decide, GPSD_SAMPLE_SIZE.
  destruct (size =? 40) eqn:E1; cbn [negb].
  2:{ split; [discriminate| intros [H _]; lia]. }
  destruct (s_magic (sample_of_buf buf) =? GPSD_MAGIC) eqn:E2; cbn [negb].
  2:{ split; [discriminate| intros (_ & -> & H & _); lia]. }
  destruct (s_pulse (sample_of_buf buf) =? 0) eqn:E3; cbn [negb].
  2:{ split; [discriminate| intros (_ & -> & _ & H & _); lia]. }
  destruct (f64_is_finite (f64_of_bits (s_offset (sample_of_buf buf)))) eqn:E4; cbn [negb].
  2:{ split; [discriminate| intros (_ & -> & _ & _ & H); congruence]. }
  split.
  - intros H; inversion H; subst. repeat split; try lia; try exact E4.
  - intros (_ & -> & _). reflexivity.
Qed.

Lemma deserialize_accept_iff r buf s :
  length buf = 40%nat ->
  (deserialize_sample r buf = Ok s <->
   (r = Some 40 /\ s = sample_of_buf buf /\ s_magic s = GPSD_MAGIC /\ s_pulse s = 0 /\
    f64_is_finite (f64_of_bits (s_offset s)) = true)).
Proof.
  intros Hlen. destruct r as [size|].
  - rewrite (deserialize_spec size buf Hlen), decide_ok_iff.
    split; intros (H & R); (split; [|exact R]); congruence.
  - cbn. split; [discriminate| intros [H _]; discriminate].
Qed.

Lemma deserialize_no_panic r buf p :
  length buf = 40%nat -> deserialize_sample r buf <> Panic p.
Proof.
  intros Hlen. destruct r as [size|]; [|discriminate].
  rewrite (deserialize_spec size buf Hlen). unfold decide.
  repeat match goal with |- context [if ?c then _ else _] => destruct c end; discriminate.
Qed.

(* ---- the receive path ---- *)
Lemma pad_to_length n l : length (pad_to n l) = n.
Proof. unfold pad_to. rewrite app_length, firstn_length, repeat_length. lia. Qed.

Lemma pad_to_exact l k : firstn (length l) (pad_to (length l + k) l) = l.
Proof.
  unfold pad_to. rewrite firstn_all2 with (n := (length l + k)%nat) by lia.
  rewrite firstn_app, firstn_all, Nat.sub_diag. cbn. apply app_nil_r.
Qed.

Lemma handle_datagram_spec d :
  handle_datagram d = decide (Z.of_nat (length d)) d.
Proof.
  unfold handle_datagram, recv, receive_sample, SOCK_RECV_BUFFER_SIZE.
  change SOCK_SAMPLE_SIZE with 40. change SOCK_RECV_EXTRA with 1. change (40 + 1) with 41.
  rewrite pad_to_length. change (Z.of_nat (Z.to_nat 41) <? 40) with false. cbv iota.
  rewrite deserialize_spec.
  2:{ rewrite firstn_length, pad_to_length. reflexivity. }
  unfold decide, GPSD_SAMPLE_SIZE.
  destruct (Z.of_nat (length d) =? 40) eqn:E.
  - assert (length d = 40%nat) as Hl by lia.
    assert ((Z.min (Z.of_nat (length d)) 41 =? 40) = true) as -> by lia.
    change (Z.to_nat 41) with (40 + 1)%nat. change (Z.to_nat 40) with 40%nat.
    pose proof (pad_to_exact d 1) as P. rewrite Hl in P. rewrite P. reflexivity.
  - assert ((Z.min (Z.of_nat (length d)) 41 =? 40) = false) as -> by lia.
    reflexivity.
Qed.

Lemma handle_accept_iff d s :
  handle_datagram d = Ok s <->
  (length d = 40%nat /\ s = sample_of_buf d /\ s_magic s = GPSD_MAGIC /\ s_pulse s = 0 /\
   f64_is_finite (f64_of_bits (s_offset s)) = true).
Proof.
  rewrite handle_datagram_spec, decide_ok_iff.
  split; intros (H & R); (split; [lia|exact R]).
Qed.

Lemma handle_no_panic d p : handle_datagram d <> Panic p.
Proof.
  rewrite handle_datagram_spec. unfold decide.
  repeat match goal with |- context [if ?c then _ else _] => destruct c end; discriminate.
Qed.

Lemma handle_wrong_length d :
  length d <> 40%nat -> handle_datagram d = Err E_SIZE.
Proof.
  intros H. rewrite handle_datagram_spec. unfold decide, GPSD_SAMPLE_SIZE.
  assert ((Z.of_nat (length d) =? 40) = false) as -> by lia. reflexivity.
Qed.

(* finiteness of the accepted offset in terms of the wire bits, and in terms of
   the predicates of the debug assertion in NtpDuration::from_seconds *)
Lemma accepted_offset_bits b :
  f64_is_finite (f64_of_bits b) = true <-> f64_exp_field b <> 2047.
Proof. rewrite f64_is_finite_bits. destruct (Z.eqb_spec (f64_exp_field b) 2047); cbn; split; congruence. Qed.

Lemma accepted_offset_not_nan_inf b :
  f64_is_finite (f64_of_bits b) = true <->
  (f64_is_nan (f64_of_bits b) = false /\ f64_is_infinite (f64_of_bits b) = false).
Proof.
  rewrite f64_finite_iff.
  destruct (f64_is_nan (f64_of_bits b)), (f64_is_infinite (f64_of_bits b)); cbn; split;
    try tauto; try discriminate; intros [? ?]; discriminate.
Qed.

(* ---- the measurement ---- *)
Lemma task_step_some time d m :
  task_step time d = Some m <-> exists s, handle_datagram d = Ok s /\ m = measurement_of time s.
Proof.
  unfold task_step. destruct (handle_datagram d) as [s| |].
  - split; [intros H; inversion H; eauto| intros (s' & H & ->); inversion H; reflexivity].
  - split; [discriminate| intros (s' & H & _); discriminate].
  - split; [discriminate| intros (s' & H & _); discriminate].
Qed.

Lemma measured_offset_spec time s :
  measured_offset (measurement_of time s) =
  to_signed 64 (- from_seconds (f64_of_bits (s_offset s))).
Proof.
  unfold measured_offset, measurement_of, to_signed, wrap. cbn [m_sender_ts m_receiver_ts].
  rewrite Zminus_mod_idemp_l.
  replace (time - from_seconds (f64_of_bits (s_offset s)) - time)
    with (- from_seconds (f64_of_bits (s_offset s))) by lia.
  reflexivity.
Qed.

Lemma measurement_spec time s :
  m_receiver_ts (measurement_of time s) = time /\
  measured_offset (measurement_of time s) =
    to_signed 64 (- from_seconds (f64_of_bits (s_offset s))).
Proof. split; [reflexivity | apply measured_offset_spec]. Qed.

(* the sample of the repository's unit test (test_deserialize_sample) *)
Definition example_dgram : list Z :=
  [127; 136; 245; 102; 0; 0; 0; 0; 33; 129; 4; 0; 0; 0; 0; 0; 125; 189; 182; 209; 254;
   119; 19; 65; 0; 0; 0; 0; 0; 0; 0; 0; 0; 0; 0; 0; 75; 67; 79; 83].
