(* C31, part 2: prefixes as intervals inside nibble blocks; the coverage sweep. *)
From V Require Import Model.IpFilter Gen.ConstIpFilter Proofs.IpFilterArith.
From Coq Require Import ZifyBool.

Ltac dm := Z.div_mod_to_equations.

(* ---- prefixes and nibbles ---- *)
Ltac norm_pows :=
  repeat match goal with
  | |- context [2 ^ ?k] =>
      let x := eval vm_compute in (2 ^ k) in
      match x with Zpos _ => change (2 ^ k) with x end
  | H : context [2 ^ ?k] |- _ =>
      let x := eval vm_compute in (2 ^ k) in
      match x with Zpos _ => change (2 ^ k) with x in H end
  end.

(* a prefix of at most 4 bits covers a run of nibbles of the node *)
Lemma short_prefix : forall e a, wf_entry e -> snd e <= 4 -> in128 a ->
  fst e = top_nibble (fst e) * 2 ^ 124 /\
  top_nibble (fst e) + 2 ^ (4 - snd e) <= 16 /\
  econtains a e = (top_nibble (fst e) <=? top_nibble a) && (top_nibble a <? top_nibble (fst e) + 2 ^ (4 - snd e)).
Proof.
  intros [v len] a (Hv & Hl & Hm) H4 Ha. cbn [fst snd] in *.
  rewrite !top_nibble_div by auto. unfold econtains, psize, in128 in *. cbn [fst snd].
  assert (C : len = 0 \/ len = 1 \/ len = 2 \/ len = 3 \/ len = 4) by lia.
  destruct C as [-> | [-> | [-> | [-> | ->]]]]; norm_pows; (repeat split; [dm; lia | dm; lia | ]).
  all: match goal with |- ?l = ?r => destruct l eqn:E1; destruct r eqn:E2; auto; exfalso; dm; lia end.
Qed.

Lemma pow_split_124 : forall len, 4 < len <= 128 -> 2 ^ 124 = psize len * 2 ^ (len - 4).
Proof. intros. unfold psize. rewrite <- Z.pow_add_r by lia. f_equal. lia. Qed.

Lemma psize_shift : forall len, 4 < len <= 128 -> psize (len - 4) = 16 * psize len.
Proof. intros. unfold psize. replace (128 - (len - 4)) with (4 + (128 - len)) by lia. rewrite Z.pow_add_r by lia. reflexivity. Qed.

(* a prefix of more than 4 bits lies inside one nibble block *)
Lemma long_prefix_block : forall e, wf_entry e -> 4 < snd e ->
  exists t, fst e mod 2 ^ 124 = psize (snd e) * t /\ 0 <= t /\ psize (snd e) * t + psize (snd e) <= 2 ^ 124.
Proof.
  intros [v len] (Hv & Hl & Hm) H4. cbn [fst snd] in *.
  pose proof (psize_pos len Hl) as HP. rewrite (pow_split_124 len) by lia.
  set (P := psize len) in *. set (Q := 2 ^ (len - 4)).
  assert (HQ : 0 < Q) by (apply Z.pow_pos_nonneg; lia).
  apply Z.mod_divide in Hm; [| lia]. destruct Hm as [m ->].
  rewrite (Z.mul_comm m P). rewrite Z.mul_mod_distr_l by lia.
  exists (m mod Q). pose proof (Z.mod_pos_bound m Q HQ). split; [reflexivity | split; [lia | nia]].
Qed.

Lemma shift_entry_len : forall e, 4 < snd e <= 128 -> snd (shift_entry e) = snd e - 4.
Proof. intros [v len] H. unfold shift_entry. cbn [fst snd] in *. unfold wrap. apply Z.mod_small. change (2^8) with 256. lia. Qed.

Lemma long_prefix : forall e a, wf_entry e -> 4 < snd e -> in128 a ->
  wf_entry (shift_entry e) /\
  (econtains a e = true -> top_nibble a = top_nibble (fst e)) /\
  (top_nibble a = top_nibble (fst e) -> econtains a e = econtains (shl 128 a 4) (shift_entry e)).
Proof.
  intros e a He H4 Ha. destruct (long_prefix_block e He H4) as (t & Ht & Ht0 & Hb).
  destruct e as [v len]. destruct He as (Hv & Hl & Hm). cbn [fst snd] in *.
  assert (Hlen : wrap 8 (len - 4) = len - 4) by (unfold wrap; apply Z.mod_small; change (2^8) with 256; lia).
  pose proof (psize_pos len Hl) as HP. pose proof (psize_shift len ltac:(lia)) as HS.
  rewrite !top_nibble_div by auto.
  unfold wf_entry, econtains, shift_entry. cbn [fst snd]. rewrite Hlen, HS. rewrite !shl128_4.
  set (P := psize len) in *. clearbody P. unfold in128 in *.
  assert (E16 : (v * 16) mod 2 ^ 128 = 16 * (v mod 2 ^ 124)) by (norm_pows; dm; lia).
  assert (A16 : (a * 16) mod 2 ^ 128 = 16 * (a mod 2 ^ 124)) by (norm_pows; dm; lia).
  rewrite E16, A16, Ht. repeat split.
  - norm_pows. nia.
  - norm_pows. nia.
  - lia.
  - lia.
  - replace (16 * (P * t)) with (t * (16 * P)) by ring. apply Z_mod_mult.
  - intros E. apply andb_prop in E. destruct E as [E1 E2]. apply Z.leb_le in E1. apply Z.ltb_lt in E2.
    norm_pows. dm. nia.
  - intros E.
    match goal with |- ?l = ?r => destruct l eqn:E1; destruct r eqn:E2; auto; exfalso end.
    all: norm_pows; dm; nia.
Qed.

(* ---- the order of data.sort() ---- *)
Definition entry_le (a b : entry) : Prop := fst a < fst b \/ (fst a = fst b /\ snd a <= snd b).

Lemma entry_leb_le : forall a b, entry_leb a b = true <-> entry_le a b.
Proof. intros. unfold entry_leb, entry_le. lia. Qed.

Lemma entry_le_refl : forall a, entry_le a a.
Proof. intros. unfold entry_le. lia. Qed.

Lemma entry_le_trans : forall a b c, entry_le a b -> entry_le b c -> entry_le a c.
Proof. unfold entry_le. intros. lia. Qed.

Lemma entry_le_total : forall a b, entry_leb a b = false -> entry_le b a.
Proof. intros a b. unfold entry_leb, entry_le. lia. Qed.

Lemma shift_entry_le : forall e1 e2, in128 (fst e1) -> in128 (fst e2) ->
  4 < snd e1 <= 128 -> 4 < snd e2 <= 128 ->
  top_nibble (fst e1) = top_nibble (fst e2) -> entry_le e1 e2 ->
  entry_le (shift_entry e1) (shift_entry e2).
Proof.
  intros [v1 l1] [v2 l2] H1 H2 L1 L2. cbn [fst snd] in *. rewrite !top_nibble_div by auto.
  unfold entry_le, shift_entry. cbn [fst snd]. rewrite !shl128_4.
  assert (W1 : wrap 8 (l1 - 4) = l1 - 4) by (unfold wrap; apply Z.mod_small; change (2^8) with 256; lia).
  assert (W2 : wrap 8 (l2 - 4) = l2 - 4) by (unfold wrap; apply Z.mod_small; change (2^8) with 256; lia).
  rewrite W1, W2. unfold in128 in *. intros HN HL. norm_pows. dm. lia.
Qed.

(* ---- the coverage sweep is sound ---- *)
Lemma sweep_step_spec : forall i e last, 0 <= i < 16 -> wf_entry e -> 4 < snd e -> top_nibble (fst e) = i ->
  sweep_step (shl 128 i TOP_SHIFT) last e =
  if fst e mod 2 ^ 124 <=? last then Z.max last (fst e mod 2 ^ 124 + psize (snd e)) else last.
Proof.
  intros i e last Hi He H4 Hn. destruct (long_prefix_block e He H4) as (t & Ht & Ht0 & Hb).
  destruct e as [v len]. destruct He as (Hv & Hl & Hm). cbn [fst snd] in *.
  unfold sweep_step. cbn [fst snd]. rewrite shl128_top, shl128_psize by lia.
  rewrite top_nibble_div in Hn by auto.
  pose proof (psize_pos len Hl) as HP. set (P := psize len) in *. clearbody P.
  assert (E : wrap 128 (v - i * 2 ^ 124) = v mod 2 ^ 124).
  { unfold wrap, in128 in *. subst i. norm_pows. dm. lia. }
  rewrite E. rewrite Ht.
  assert (E2 : wrap 128 (P * t + P) = P * t + P).
  { unfold wrap. apply Z.mod_small. norm_pows. nia. }
  rewrite E2. reflexivity.
Qed.

Lemma sweep_fold_sound : forall i seg, 0 <= i < 16 ->
  (forall e, In e seg -> wf_entry e /\ 4 < snd e /\ top_nibble (fst e) = i) ->
  forall last x, 0 <= x < fold_left (sweep_step (shl 128 i TOP_SHIFT)) seg last ->
  x < last \/ exists e, In e seg /\ econtains (i * 2 ^ 124 + x) e = true.
Proof.
  intros i seg Hi. induction seg as [| e seg IH]; intros Hseg last x Hx; simpl in Hx.
  - left. lia.
  - destruct (Hseg e (or_introl eq_refl)) as (He & H4 & Hn).
    rewrite sweep_step_spec in Hx by auto.
    destruct (IH (fun e' H => Hseg e' (or_intror H)) _ x Hx) as [Hlt | (e' & Hin & Hc)].
    2: { right. exists e'. split; [right; exact Hin | exact Hc]. }
    destruct (Z.leb_spec (fst e mod 2 ^ 124) last); [| left; exact Hlt].
    destruct (Z.lt_ge_cases x last); [left; assumption |].
    right. exists e. split; [left; reflexivity |].
    destruct e as [v len]. destruct He as (Hv & Hl & Hm). cbn [fst snd] in *.
    rewrite top_nibble_div in Hn by auto. unfold econtains. cbn [fst snd].
    set (P := psize len) in *. clearbody P. unfold in128 in *. subst i.
    apply andb_true_intro. split; [apply Z.leb_le | apply Z.ltb_lt]; norm_pows; dm; lia.
Qed.

Lemma sweep_sound : forall i seg a, 0 <= i < 16 -> in128 a -> top_nibble a = i ->
  (forall e, In e seg -> wf_entry e /\ 4 < snd e /\ top_nibble (fst e) = i) ->
  2 ^ TOP_SHIFT <= sweep i seg ->
  exists e, In e seg /\ econtains a e = true.
Proof.
  intros i seg a Hi Ha Hn Hseg Hs. unfold sweep in Hs.
  destruct (sweep_fold_sound i seg Hi Hseg 0 (a mod 2 ^ 124)) as [Hlt | (e & Hin & Hc)].
  - unfold TOP_SHIFT in *. unfold in128 in Ha. norm_pows. dm. lia.
  - unfold in128 in Ha. norm_pows. dm. lia.
  - exists e. split; auto. rewrite top_nibble_div in Hn by auto.
    replace a with (i * 2 ^ 124 + a mod 2 ^ 124). exact Hc.
    unfold in128 in Ha. subst i. norm_pows. dm. lia.
Qed.
