(* Proofs about Model/SrcCore.v (cookie handling part, C13; reach part, C11) *)
From V Require Import Model.SrcCore Model.SrcSpec Proofs.CookieStash.
From V Require Import Gen.ConstSource.
From Coq Require Import Arith PeanoNat ZifyBool.
Ltac Zify.zify_post_hook ::= Z.div_mod_to_equations.

(* ---- a small tool: facts about all u8 values by evaluation ---- *)
Lemma u8_forall : forall f : Z -> bool,
  forallb f (map Z.of_nat (seq 0 256)) = true ->
  forall r, 0 <= r < 256 -> f r = true.
Proof.
  intros f H r Hr. rewrite forallb_forall in H. apply H.
  apply in_map_iff. exists (Z.to_nat r). split; [lia|]. apply in_seq. lia.
Qed.

Lemma lor1_range : forall r, 0 <= r < 256 -> 0 <= Z.lor r 1 < 256.
Proof.
  intros r Hr.
  pose proof (u8_forall (fun r => (0 <=? Z.lor r 1) && (Z.lor r 1 <? 256)) eq_refl r Hr) as H.
  lia.
Qed.

Lemma lor1_val : forall r, 0 <= r < 256 -> Z.lor r 1 = 2 * (r / 2) + 1.
Proof.
  intros r Hr.
  pose proof (u8_forall (fun r => Z.lor r 1 =? 2 * (r / 2) + 1) eq_refl r Hr) as H.
  lia.
Qed.

Section SrcProofs.
Context {C : Type}.
Variable dflt : C.
Variable clen : C -> Z.

Notation src := (src C).
Notation event := (event C).
Notation action := (action C).
Notation step := (step dflt clen).
Notation run := (run dflt clen).
Notation final := (final dflt clen).
Notation handle_timer := (handle_timer dflt clen).
Notation held := (held dflt).
Notation src_inv := (@src_inv C).

(* ---------- subsequences ---------- *)
Lemma subseq_refl : forall l : list C, subseq l l.
Proof. induction l; [constructor|apply subseq_take; auto]. Qed.

Lemma subseq_nil_l : forall l : list C, subseq [] l.
Proof. induction l; constructor; auto. Qed.

Lemma subseq_trans : forall l1 l2 l3 : list C, subseq l1 l2 -> subseq l2 l3 -> subseq l1 l3.
Proof.
  intros l1 l2 l3 H12 H23. revert l1 H12.
  induction H23; intros l0 H12.
  - inversion H12; constructor.
  - apply subseq_skip. auto.
  - inversion H12; subst.
    + apply subseq_skip. auto.
    + apply subseq_take. auto.
Qed.

Lemma subseq_app : forall l1 l2 m1 m2 : list C,
  subseq l1 l2 -> subseq m1 m2 -> subseq (l1 ++ m1) (l2 ++ m2).
Proof.
  intros l1 l2 m1 m2 H. induction H; simpl; intros; auto.
  - apply subseq_skip; auto.
  - apply subseq_take; auto.
Qed.

Lemma subseq_app_r : forall l m : list C, subseq l (l ++ m).
Proof.
  intros. rewrite <- (app_nil_r l) at 1. apply subseq_app; [apply subseq_refl|apply subseq_nil_l].
Qed.

Lemma subseq_suffix : forall p l : list C, subseq l (p ++ l).
Proof. induction p; simpl; intros; [apply subseq_refl|apply subseq_skip; auto]. Qed.

Lemma subseq_lastn : forall n (l : list C), subseq (lastn n l) l.
Proof.
  intros. destruct (lastn_suffix l n) as [p Hp]. rewrite Hp at 2. apply subseq_suffix.
Qed.

Lemma subseq_map_sorted : forall (f : C -> Z) l1 l2,
  subseq l1 l2 -> StronglySorted Z.lt (map f l2) -> StronglySorted Z.lt (map f l1).
Proof.
  intros f l1 l2 H. induction H; simpl; intros S; auto.
  - inversion S; auto.
  - inversion S; subst. constructor; auto.
    rewrite Forall_forall in *. intros y Hy. apply H3.
    apply in_map_iff in Hy. destruct Hy as (z & <- & Hz). apply in_map.
    clear - H Hz. induction H; simpl in *; auto. destruct Hz; auto.
Qed.

Lemma subseq_NoDup : forall l1 l2 : list C, subseq l1 l2 -> NoDup l2 -> NoDup l1.
Proof.
  intros l1 l2 H. induction H; intros N; auto.
  - inversion N; auto.
  - inversion N; subst. constructor; auto. intro Hin. apply H2.
    clear - H Hin. induction H; simpl in *; auto. destruct Hin; auto.
Qed.

(* ---------- the state invariant ---------- *)
Lemma inv_new : forall b, src_inv (src_new dflt b).
Proof.
  intros b. unfold src_inv, src_new, usize_max; cbn [reach tries nts].
  repeat split; try lia. destruct b; auto. apply inv_default.
Qed.

Lemma inv_step : forall st e, src_inv st -> src_inv (snd (step st e)).
Proof.
  intros st e Hi. pose proof Hi as (Hr & Ht & Hn). destruct e; cbn [step].
  - (* Timer *)
    unfold SrcCore.handle_timer. destruct (reset_due st); [exact Hi|].
    destruct (nts st) as [s|] eqn:En.
    + pose proof (inv_get dflt s Hn) as Hg.
      destruct (get dflt s) as [[c|] s'] eqn:Eg; cbn [snd] in *.
      * match goal with |- context [if ?b then _ else _] => destruct b end;
          cbn [snd]; unfold SrcSpec.src_inv; cbn [reach tries nts];
          unfold usize_max in *; (split; [lia|split; [lia|auto]]).
      * unfold SrcSpec.src_inv; cbn [snd reach tries nts]; unfold usize_max in *; (split; [lia|split; [lia|auto]]).
    + unfold SrcSpec.src_inv; cbn [snd reach tries nts]; unfold usize_max in *; (split; [lia|split; [lia|auto]]).
  - (* Usable *)
    unfold handle_usable. destruct (pending st); [|exact Hi].
    unfold SrcSpec.src_inv; cbn [snd reach tries nts]. pose proof (lor1_range _ Hr).
    split; [lia|split; [lia|]]. destruct (nts st); cbn [option_map]; auto.
    apply inv_store_many; auto.
  - unfold handle_deny. destruct (pending st); [|exact Hi].
    destruct (nts st) eqn:En; [exact Hi|].
    unfold SrcSpec.src_inv; cbn [snd reach tries nts]; (split; [lia|split; [lia|auto]]).
  - exact Hi.
  - unfold SrcSpec.src_inv; cbn [snd reach tries nts]. split; [lia|split; [lia|]].
    destruct (nts st); cbn [option_map]; auto. apply inv_store; auto.
Qed.

Lemma final_cons : forall st e r, final st (e :: r) = final (snd (step st e)) r.
Proof. reflexivity. Qed.

Lemma final_app : forall a b st, final st (a ++ b) = final (final st a) b.
Proof. intros. unfold SrcCore.final. apply fold_left_app. Qed.

Lemma inv_final : forall evs st, src_inv st -> src_inv (final st evs).
Proof.
  induction evs; intros; auto. rewrite final_cons. apply IHevs. apply inv_step; auto.
Qed.

(* ---------- what one timer does to the cookies (C13_asks_for_missing) ---------- *)
Lemma timer_nts : forall st s, src_inv st -> nts st = Some s -> reset_due st = false ->
  match held st with
  | [] => fst (handle_timer st) = [Reset] /\ held (snd (handle_timer st)) = []
  | c :: rest =>
      held (snd (handle_timer st)) = rest /\
      fst (handle_timer st) =
        (if cookie_cap clen c =? 0 then [Reset]
         else [SendNts c (Z.min (MAX_COOKIES - Z.of_nat (length rest)) (cookie_cap clen c) - 1)])
  end.
Proof.
  intros st s (Hr & Ht & Hn) En Hd. unfold SrcCore.handle_timer, SrcSpec.held. rewrite Hd, En in *.
  destruct (abs_get dflt s Hn) as [Hg1 Hg2]. pose proof (inv_get dflt s Hn) as Hi.
  destruct (get dflt s) as [o s'] eqn:Eg. cbn [fst snd] in *.
  destruct (abs dflt s) as [|c rest] eqn:Ea; cbn [hd_error tl] in *; subst o.
  - cbn [fst snd nts]. split; auto.
  - rewrite (gap_abs dflt s' Hi), Hg2.
    assert (0 <= cookie_cap clen c) as Hc.
    { unfold cookie_cap, POLL_BUFFER_LEN, POLL_COOKIE_MARGIN. apply Z.min_glb; [|lia].
      apply Z.div_pos; lia. }
    pose proof (abs_bounded dflt s' Hi) as Hb. rewrite Hg2, NCOOK_8 in Hb. unfold MAX_COOKIES.
    destruct (Z.eqb_spec (cookie_cap clen c) 0) as [E0|E0].
    + replace (Z.min (8 - Z.of_nat (length rest)) (cookie_cap clen c)) with 0 by lia.
      cbn [Z.eqb fst snd nts]. auto.
    + destruct (Z.eqb_spec (Z.min (8 - Z.of_nat (length rest)) (cookie_cap clen c)) 0) as [E1|E1].
      * exfalso.
        assert (length (abs dflt s) <= 8)%nat by (rewrite <- NCOOK_8; apply abs_bounded; auto).
        rewrite Ea in H. simpl in H. lia.
      * cbn [fst snd nts]. auto.
Qed.

Lemma held_timer : forall st, src_inv st ->
  held (snd (handle_timer st)) = (if reset_due st then held st else tl (held st)) /\
  (sent_of (fst (handle_timer st)) = [] \/
   (reset_due st = false /\ sent_of (fst (handle_timer st)) = firstn 1 (held st))).
Proof.
  intros st Hi. destruct (reset_due st) eqn:Hd.
  - unfold SrcCore.handle_timer. rewrite Hd. cbn [fst snd]. split; auto. left. destruct (deny st); reflexivity.
  - destruct (nts st) as [s|] eqn:En.
    + pose proof (timer_nts st s Hi En Hd) as H.
      destruct (held st) as [|c rest] eqn:Eh.
      * destruct H as [H1 H2]. rewrite H1, H2. auto.
      * destruct H as [H1 H2]. rewrite H1, H2. split; auto.
        destruct (_ =? 0); [left|right]; auto.
    + unfold SrcCore.handle_timer, SrcSpec.held. rewrite Hd, En. cbn [fst snd nts]. auto.
Qed.

(* ---------- one step, seen on the list of held cookies ---------- *)
Lemma held_step : forall st e, src_inv st ->
  held (snd (step st e)) =
  match e with
  | Timer => if reset_due st then held st else tl (held st)
  | _ => lastn NCOOK (held st ++ stored_by st e)
  end.
Proof.
  intros st e Hi. pose proof Hi as (Hr & Ht & Hn). destruct e; cbn [step].
  - apply held_timer; auto.
  - unfold handle_usable, stored_by, SrcSpec.held.
    destruct (nts st) as [s|] eqn:En; destruct (pending st); cbn [snd nts option_map]; rewrite ?En;
      try (rewrite app_nil_r; symmetry; apply lastn_short; try apply abs_bounded; simpl; auto; lia).
    apply abs_store_many; auto.
  - assert (snd (handle_deny st) = st \/ (nts st = None /\ nts (snd (handle_deny st)) = None)) as [E|[E1 E2]].
    { unfold handle_deny. destruct (pending st); auto. destruct (nts st) eqn:En; auto. }
    + rewrite E. unfold stored_by. destruct (nts st) eqn:En; rewrite app_nil_r; symmetry; apply lastn_short;
        unfold SrcSpec.held; rewrite En; [apply abs_bounded; auto|simpl; lia].
    + unfold SrcSpec.held, stored_by. rewrite E1, E2. reflexivity.
  - cbn [snd]. unfold stored_by. destruct (nts st) eqn:En; rewrite app_nil_r; symmetry; apply lastn_short;
        unfold SrcSpec.held; rewrite En; [apply abs_bounded; auto|simpl; lia].
  - unfold stored_by, SrcSpec.held. cbn [snd nts]. destruct (nts st) as [s|] eqn:En; cbn [option_map].
    + apply abs_store; auto.
    + reflexivity.
Qed.

Lemma stored_by_delivered : forall (st : src) (e : event), subseq (stored_by st e) (delivered [e]).
Proof.
  intros. unfold stored_by, delivered. simpl. rewrite app_nil_r.
  destruct (nts st); destruct e; try apply subseq_nil_l; try apply subseq_refl.
  destruct (pending st); [apply subseq_refl|apply subseq_nil_l].
Qed.

Lemma sent_step : forall st e, src_inv st ->
  subseq (sent_of (fst (step st e)) ++ held (snd (step st e))) (held st ++ delivered [e]).
Proof.
  intros st e Hi. rewrite held_step by auto. destruct e.
  - cbn [step]. destruct (held_timer st Hi) as [_ [H|[H1 H2]]].
    + rewrite H. simpl. destruct (reset_due st); [apply subseq_app_r|].
      destruct (held st); [apply subseq_nil_l|]. simpl. apply subseq_skip. apply subseq_app_r.
    + rewrite H2, H1. destruct (held st); simpl; [constructor|]. apply subseq_take. apply subseq_app_r.
  - cbn [step]. unfold handle_usable. destruct (pending st); cbn [fst sent_of flat_map app];
      (eapply subseq_trans; [apply subseq_lastn|]); apply subseq_app; try apply subseq_refl; apply stored_by_delivered.
  - cbn [step]. assert (sent_of (fst (handle_deny st)) = []) as E.
    { unfold handle_deny. destruct (pending st); auto. destruct (nts st); auto. }
    rewrite E. simpl app at 1.
    (eapply subseq_trans; [apply subseq_lastn|]); apply subseq_app; try apply subseq_refl; apply stored_by_delivered.
  - cbn [step fst sent_of flat_map app].
    (eapply subseq_trans; [apply subseq_lastn|]); apply subseq_app; try apply subseq_refl; apply stored_by_delivered.
  - cbn [step fst sent_of flat_map app].
    (eapply subseq_trans; [apply subseq_lastn|]); apply subseq_app; try apply subseq_refl; apply stored_by_delivered.
Qed.

Lemma run_cons : forall st e r,
  run st (e :: r) = (fst (step st e), snd (step st e)) :: run (snd (step st e)) r.
Proof. intros. cbn [SrcCore.run]. destruct (step st e). reflexivity. Qed.

Lemma delivered_cons : forall (e : event) r, delivered (e :: r) = delivered [e] ++ delivered r.
Proof. intros. unfold delivered. simpl. rewrite app_nil_r. reflexivity. Qed.

(* C13_once / C13_fifo, general form: what was sent, followed by what is still
   held, is a subsequence of what was held at the start followed by what
   arrived *)
Theorem sent_subseq : forall evs st, src_inv st ->
  subseq (sent_cookies (run st evs) ++ held (final st evs)) (held st ++ delivered evs).
Proof.
  induction evs as [|e r IH]; intros st Hi.
  - simpl. rewrite app_nil_r. apply subseq_refl.
  - rewrite run_cons, final_cons, delivered_cons.
    unfold sent_cookies. cbn [flat_map fst]. fold (sent_cookies (run (snd (step st e)) r)).
    rewrite <- app_assoc.
    eapply subseq_trans.
    + apply subseq_app; [apply subseq_refl|]. apply IH. apply inv_step; auto.
    + rewrite !app_assoc. apply subseq_app; [|apply subseq_refl]. apply sent_step; auto.
Qed.

Corollary sent_subseq_new : forall evs b,
  subseq (sent_cookies (run (src_new dflt b) evs)) (delivered evs).
Proof.
  intros. pose proof (sent_subseq evs (src_new dflt b) (inv_new b)) as H.
  assert (held (src_new dflt b) = []) as E by (destruct b; reflexivity).
  rewrite E in H. simpl in H. eapply subseq_trans; [apply subseq_app_r|exact H].
Qed.

(* tags in arrival order => tags of the cookies sent strictly increase *)
Corollary sent_tags_increase : forall (tag : C -> Z) evs b,
  StronglySorted Z.lt (map tag (delivered evs)) ->
  StronglySorted Z.lt (map tag (sent_cookies (run (src_new dflt b) evs))).
Proof. intros. eapply subseq_map_sorted; [apply sent_subseq_new|eauto]. Qed.

Corollary sent_once : forall evs b,
  NoDup (delivered evs) -> NoDup (sent_cookies (run (src_new dflt b) evs)).
Proof. intros. eapply subseq_NoDup; [apply sent_subseq_new|auto]. Qed.

(* C13_bounded: never more than eight, and the ones kept are the newest of
   everything that was stored *)
Theorem held_bounded : forall evs b,
  (length (held (final (src_new dflt b) evs)) <= NCOOK)%nat.
Proof.
  intros. pose proof (inv_final evs _ (inv_new b)) as (_ & _ & H).
  unfold SrcSpec.held. destruct (nts _); [apply abs_bounded; auto|simpl; lia].
Qed.

Theorem held_newest : forall evs st, src_inv st ->
  exists p, held st ++ stored dflt clen st evs = p ++ held (final st evs).
Proof.
  induction evs as [|e r IH]; intros st Hi.
  - exists []. simpl. rewrite app_nil_r. reflexivity.
  - rewrite final_cons. cbn [stored].
    destruct (IH (snd (step st e)) (inv_step st e Hi)) as [p Hp].
    assert (exists q, held st ++ stored_by st e = q ++ held (snd (step st e))) as [q Hq].
    { rewrite held_step by auto. destruct e; try apply lastn_suffix.
      unfold stored_by. destruct (nts st); rewrite app_nil_r;
      (destruct (reset_due st); [exists []; reflexivity|]);
      (destruct (held st) as [|c rest]; [exists []; reflexivity|exists [c]; reflexivity]). }
    exists (q ++ p). rewrite app_assoc, Hq, <- !app_assoc. f_equal. exact Hp.
Qed.

End SrcProofs.
