(* Byte-level arithmetic lemmas for the PTP wire model: big-endian encoding and decoding,
   two's complement, slices of concatenations. *)
From V Require Import Model.PtpWire.
From Coq Require Import ZifyBool.
Ltac Zify.zify_post_hook ::= Z.div_mod_to_equations.

Lemma be_length : forall n v, length (be n v) = n.
Proof. induction n; intros; cbn; [reflexivity|]. rewrite app_length, IHn. cbn. lia. Qed.

Lemma unbe_app1 : forall l x, unbe (l ++ [x]) = unbe l * 256 + x.
Proof. intros. unfold unbe. rewrite fold_left_app. reflexivity. Qed.

Lemma unbe_be : forall n v, unbe (be n v) = v mod 256 ^ Z.of_nat n.
Proof.
  induction n; intros v.
  - cbn. rewrite Z.mod_1_r. reflexivity.
  - cbn [be]. rewrite unbe_app1, IHn.
    rewrite Nat2Z.inj_succ, Z.pow_succ_r by lia.
    pose proof (Z.pow_pos_nonneg 256 (Z.of_nat n) ltac:(lia) ltac:(lia)) as P.
    rewrite (Z.rem_mul_r v 256 (256 ^ Z.of_nat n)) by lia. ring.
Qed.

Lemma unbe_be_small : forall n v, 0 <= v < 256 ^ Z.of_nat n -> unbe (be n v) = v.
Proof. intros. rewrite unbe_be. apply Z.mod_small. assumption. Qed.

Lemma be_bytes : forall n v, bytes_ok (be n v).
Proof.
  induction n; intros; cbn; [constructor|].
  apply Forall_app. split; [apply IHn|]. constructor; [|constructor]. unfold is_byte. lia.
Qed.

Lemma unbe_range : forall l, bytes_ok l -> 0 <= unbe l < 256 ^ Z.of_nat (length l).
Proof.
  induction l using rev_ind; intros H.
  - cbn. lia.
  - apply Forall_app in H. destruct H as [H1 H2]. inversion H2; subst. unfold is_byte in *.
    rewrite unbe_app1, app_length. cbn [length]. rewrite Nat.add_1_r, Nat2Z.inj_succ, Z.pow_succ_r by lia.
    specialize (IHl H1). lia.
Qed.

Lemma be_unbe : forall l, bytes_ok l -> be (length l) (unbe l) = l.
Proof.
  induction l using rev_ind; intros H; [reflexivity|].
  apply Forall_app in H. destruct H as [H1 H2]. inversion H2; subst. unfold is_byte in *.
  rewrite app_length. cbn [length]. rewrite Nat.add_1_r. cbn [be]. rewrite unbe_app1.
  replace ((unbe l * 256 + x) / 256) with (unbe l) by lia.
  replace ((unbe l * 256 + x) mod 256) with x by lia.
  rewrite IHl by assumption. reflexivity.
Qed.

(* two's complement *)
Lemma to_signed_wrap : forall bits v, 0 < bits -> - 2 ^ (bits - 1) <= v < 2 ^ (bits - 1) ->
  to_signed bits (v mod 2 ^ bits) = v.
Proof.
  intros bits v Hb H. unfold to_signed. rewrite Z.mod_mod by (apply Z.pow_nonzero; lia).
  assert (2 ^ bits = 2 * 2 ^ (bits - 1)) as E.
  { replace bits with (Z.succ (bits - 1)) at 1 by lia. apply Z.pow_succ_r. lia. }
  pose proof (Z.pow_pos_nonneg 2 (bits - 1) ltac:(lia) ltac:(lia)) as P.
  set (h := 2 ^ (bits - 1)) in *. set (m := 2 ^ bits) in *.
  destruct (Z_lt_le_dec v 0).
  - assert (v mod m = v + m) as ->.
    { rewrite <- (Z.mod_add v 1 m) by lia. rewrite Z.mul_1_l. apply Z.mod_small. lia. }
    destruct (v + m <? h) eqn:C; lia.
  - rewrite (Z.mod_small v m) by lia. destruct (v <? h) eqn:C; lia.
Qed.

Lemma wrap_to_signed : forall bits u, 0 < bits -> 0 <= u < 2 ^ bits -> (to_signed bits u) mod 2 ^ bits = u.
Proof.
  intros bits u Hb H. unfold to_signed. rewrite (Z.mod_small u) by assumption.
  destruct (u <? 2 ^ (bits - 1)); [apply Z.mod_small; assumption|].
  rewrite <- (Z.mod_add _ 1) by lia. replace (u - 2 ^ bits + 1 * 2 ^ bits) with u by lia.
  apply Z.mod_small. assumption.
Qed.

Lemma to_signed_range : forall bits u, 0 < bits -> - 2 ^ (bits - 1) <= to_signed bits u < 2 ^ (bits - 1).
Proof.
  intros bits u Hb. unfold to_signed.
  assert (2 ^ bits = 2 * 2 ^ (bits - 1)) as E.
  { replace bits with (Z.succ (bits - 1)) at 1 by lia. apply Z.pow_succ_r. lia. }
  pose proof (Z.pow_pos_nonneg 2 (bits - 1) ltac:(lia) ltac:(lia)) as P.
  pose proof (Z.mod_pos_bound u (2 ^ bits) ltac:(lia)) as B.
  destruct (u mod 2 ^ bits <? 2 ^ (bits - 1)) eqn:C; lia.
Qed.

(* slices of concatenations *)
Lemma slice_mid : forall (p x r : bytes) a b,
  length p = a -> length x = (b - a)%nat -> slice a b (p ++ x ++ r) = x.
Proof.
  intros p x r a b Hp Hx. unfold slice.
  rewrite skipn_app, skipn_all2 by lia. rewrite Hp, Nat.sub_diag. cbn [skipn app].
  rewrite firstn_app, firstn_all2 by lia. rewrite Hx, Nat.sub_diag. cbn. apply app_nil_r.
Qed.

Lemma slice_0 : forall (x r : bytes) b, length x = b -> slice 0 b (x ++ r) = x.
Proof. intros. apply (slice_mid [] x r 0 b); [reflexivity|lia]. Qed.

Lemma byte_mid : forall (p r : bytes) x i, length p = i -> byte i (p ++ x :: r) = x.
Proof. intros p r x i H. unfold byte. rewrite app_nth2 by lia. rewrite H, Nat.sub_diag. reflexivity. Qed.

Lemma slice_length : forall a b (l : bytes), (b <= length l)%nat -> (a <= b)%nat -> length (slice a b l) = (b - a)%nat.
Proof. intros. unfold slice. rewrite firstn_length, skipn_length. lia. Qed.

Lemma Forall_firstn_ {A} (P : A -> Prop) : forall n l, Forall P l -> Forall P (firstn n l).
Proof. induction n; intros l H; [constructor|]. destruct l; cbn; [constructor|]. inversion H; subst. constructor; auto. Qed.
Lemma Forall_skipn_ {A} (P : A -> Prop) : forall n l, Forall P l -> Forall P (skipn n l).
Proof. induction n; intros l H; [exact H|]. destruct l; cbn; [constructor|]. inversion H; subst. auto. Qed.

Lemma slice_bytes : forall a b l, bytes_ok l -> bytes_ok (slice a b l).
Proof. intros. unfold slice, bytes_ok. apply Forall_firstn_, Forall_skipn_. assumption. Qed.

Lemma byte_ok : forall i l, bytes_ok l -> is_byte (byte i l).
Proof.
  intros i l H. unfold byte. destruct (Nat.lt_ge_cases i (length l)).
  - unfold bytes_ok in H. rewrite Forall_forall in H. apply H. apply nth_In. assumption.
  - rewrite nth_overflow by assumption. unfold is_byte. lia.
Qed.

(* timestamps *)
Lemma ts_ser_length : forall t, length (ts_ser t) = 10%nat.
Proof. intros. unfold ts_ser. rewrite app_length, !be_length. reflexivity. Qed.

Lemma ts_de_ser : forall t r, ts_ok t -> ts_de (ts_ser t ++ r) = Ok t.
Proof.
  intros [s n] r [Hs Hn]. cbn [ts_secs ts_nanos] in *. unfold ts_de.
  rewrite app_length, ts_ser_length. cbn [Nat.ltb Nat.leb plus].
  unfold ts_ser. cbn [ts_secs ts_nanos]. rewrite <- app_assoc.
  rewrite (slice_mid (be 6 s) (be 4 n) r 6 10) by (rewrite be_length; reflexivity).
  rewrite (slice_0 (be 6 s)) by apply be_length.
  rewrite !unbe_be_small by (cbn; lia).
  replace (n >? 1000000000) with false by lia. reflexivity.
Qed.

Lemma ts_de_ser_exact : forall t, ts_ok t -> ts_de (ts_ser t) = Ok t.
Proof. intros. rewrite <- (app_nil_r (ts_ser t)). apply ts_de_ser. assumption. Qed.

Lemma ts_ser_bytes : forall t, bytes_ok (ts_ser t).
Proof. intros. unfold ts_ser. apply Forall_app. split; apply be_bytes. Qed.
