(* C41: header round trip (serialise then parse). *)
From V Require Import Model.PtpWire Proofs.WireBytes.
From Coq Require Import ZifyBool.
Ltac Zify.zify_post_hook ::= Z.div_mod_to_equations.

(* brute force over finite ranges *)
Definition zrange (n : nat) : list Z := map Z.of_nat (seq 0 n).
Lemma zrange_in : forall n x, 0 <= x < Z.of_nat n -> In x (zrange n).
Proof.
  intros n x H. unfold zrange. apply in_map_iff. exists (Z.to_nat x). split; [lia|]. apply in_seq. lia.
Qed.
Lemma forall_range : forall (p : Z -> bool) n, forallb p (zrange n) = true -> forall x, 0 <= x < Z.of_nat n -> p x = true.
Proof. intros p n H x Hx. rewrite forallb_forall in H. apply H. apply zrange_in. assumption. Qed.

Definition types : list Z := [0; 1; 2; 3; 8; 9; 10; 11; 12; 13].
Lemma msgtype_in : forall t, msgtype_ok t = true -> In t types.
Proof.
  intros t H. unfold msgtype_ok in H. unfold types. cbn. lia.
Qed.

Definition byte0 (sdo ty : Z) : Z := Z.lor ((((sdo / 256) mod 256) * 16) mod 256) (Z.land ty 15).
Lemma byte0_ok : forall sdo ty, 0 <= sdo < 4096 -> msgtype_ok ty = true ->
  Z.lor ((Z.land (byte0 sdo ty) 240) * 16) (sdo mod 256) = sdo /\ Z.land (byte0 sdo ty) 15 = ty /\ is_byte (byte0 sdo ty).
Proof.
  intros sdo ty Hs Ht.
  set (hi := sdo / 256). set (lo := sdo mod 256).
  assert (0 <= hi < 16 /\ 0 <= lo < 256 /\ sdo = hi * 256 + lo) as (Hh & Hl & E) by (unfold hi, lo; lia).
  assert (byte0 sdo ty = Z.lor ((hi * 16) mod 256) (Z.land ty 15)) as E0.
  { unfold byte0. fold hi. rewrite (Z.mod_small hi 256) by lia. reflexivity. }
  rewrite E0. clear E0.
  Time assert (forallb (fun h => forallb (fun t => let b := Z.lor ((h * 16) mod 256) (Z.land t 15) in
              ((Z.land b 240) * 16 =? h * 256) && (Z.land b 15 =? t) && (0 <=? b) && (b <? 256)) types) (zrange 16) = true) as B
    by (vm_compute; reflexivity).
  Time assert (forallb (fun h => forallb (fun l => Z.lor (h * 256) l =? h * 256 + l) (zrange 256)) (zrange 16) = true) as C
    by (vm_compute; reflexivity).
  pose proof (forall_range _ _ B hi ltac:(lia)) as B1. cbv beta in B1. rewrite forallb_forall in B1.
  specialize (B1 ty (msgtype_in _ Ht)). cbv zeta in B1.
  pose proof (forall_range _ _ C hi ltac:(lia)) as C1. cbv beta in C1.
  pose proof (forall_range _ _ C1 lo ltac:(lia)) as C2. cbv beta in C2.
  set (b := Z.lor ((hi * 16) mod 256) (Z.land ty 15)) in *.
  apply andb_prop in B1. destruct B1 as [B1 B4]. apply andb_prop in B1. destruct B1 as [B1 B3]. apply andb_prop in B1. destruct B1 as [B1 B2].
  apply Z.eqb_eq in B1, B2, C2. rewrite B1, C2. unfold is_byte. Time lia.
Qed.

Lemma version_byte_ok : forall vmaj vmin, 0 <= vmaj < 16 -> 0 <= vmin < 16 ->
  let b := Z.lor ((vmin * 16) mod 256) vmaj in Z.land b 15 = vmaj /\ b / 16 = vmin /\ is_byte b.
Proof.
  intros vmaj vmin H1 H2.
  assert (forallb (fun a => forallb (fun i => let b := Z.lor ((i * 16) mod 256) a in
              (Z.land b 15 =? a) && (b / 16 =? i) && (0 <=? b) && (b <? 256)) (zrange 16)) (zrange 16) = true) as B
    by (vm_compute; reflexivity).
  pose proof (forall_range _ _ B vmaj ltac:(lia)) as B1. cbv beta in B1.
  pose proof (forall_range _ _ B1 vmin ltac:(lia)) as B2. cbv beta zeta in B2. cbv zeta.
  set (b := Z.lor ((vmin * 16) mod 256) vmaj) in *.
  apply andb_prop in B2. destruct B2 as [B2 B4]. apply andb_prop in B2. destruct B2 as [B2 B3]. apply andb_prop in B2. destruct B2 as [B1' B2].
  apply Z.eqb_eq in B1', B2. unfold is_byte. repeat split; auto; lia.
Qed.

Lemma flags6_ok : forall a b c d e,
  let f := b2z a + 2 * b2z b + 4 * b2z c + 32 * b2z d + 64 * b2z e in
  bit 0 f = a /\ bit 1 f = b /\ bit 2 f = c /\ bit 5 f = d /\ bit 6 f = e /\ is_byte f.
Proof. intros [] [] [] [] []; vm_compute; repeat split; discriminate. Qed.

Lemma flags7_ok : forall a b c d e g i,
  let f := b2z a + 2 * b2z b + 4 * b2z c + 8 * b2z d + 16 * b2z e + 32 * b2z g + 64 * b2z i in
  bit 0 f = a /\ bit 1 f = b /\ bit 2 f = c /\ bit 3 f = d /\ bit 4 f = e /\ bit 5 f = g /\ bit 6 f = i /\ is_byte f.
Proof. intros [] [] [] [] [] [] []; vm_compute; repeat split; discriminate. Qed.

Lemma length8 : forall (l : bytes), length l = 8%nat -> exists a b c d e f g h, l = [a; b; c; d; e; f; g; h].
Proof.
  intros l H. do 8 (destruct l as [|? l]; [discriminate|]). destruct l; [|discriminate]. do 8 eexists. reflexivity.
Qed.

Lemma de_ser_header : forall h ty mlen rest,
  header_ok h -> version_encodable h = true -> msgtype_ok ty = true -> 0 <= mlen < 65536 ->
  de_header (ser_header h ty mlen ++ rest) = (h, ty, mlen).
Proof.
  intros h ty mlen rest Hok Hv Ht Hm.
  destruct h as [sdo vmaj vmin dom f0 f1 f2 f3 f4 g0 g1 g2 g3 g4 g5 g6 corr [clock port] sq li].
  destruct Hok as (Hsdo & Hmaj & Hmin & Hdom & Hcorr & (Hck & Hcl & Hport) & Hseq & Hli).
  cbn [h_sdo h_vmajor h_vminor h_domain h_correction h_source h_seq h_log_interval pid_clock pid_port] in *.
  unfold version_encodable in Hv. cbn [h_vmajor h_vminor] in Hv. unfold is_byte in *.
  destruct (length8 _ Hcl) as (c0 & c1 & c2 & c3 & c4 & c5 & c6 & c7 & ->).
  destruct (byte0_ok sdo ty Hsdo Ht) as (A1 & A2 & A3).
  destruct (version_byte_ok vmaj vmin ltac:(lia) ltac:(lia)) as (V1 & V2 & V3).
  destruct (flags6_ok f0 f1 f2 f3 f4) as (F0 & F1 & F2 & F3 & F4 & _).
  destruct (flags7_ok g0 g1 g2 g3 g4 g5 g6) as (G0 & G1 & G2 & G3 & G4 & G5 & G6 & _).
  unfold de_header, ser_header, flags6, flags7, pid_ser, pid_de, slice, byte.
  cbn [be app nth firstn skipn Nat.sub h_sdo h_vmajor h_vminor h_domain h_alt_master h_two_step h_unicast h_prof1 h_prof2
       h_leap61 h_leap59 h_utc_valid h_ptp_timescale h_time_traceable h_freq_traceable h_sync_uncertain
       h_correction h_source h_seq h_log_interval pid_clock pid_port].
  fold (byte0 sdo ty).
  cbv zeta in V1, V2, F0, F1, F2, F3, F4, G0, G1, G2, G3, G4, G5, G6.
  rewrite A1, A2, V1, V2, F0, F1, F2, F3, F4, G0, G1, G2, G3, G4, G5, G6.
  pose proof (unbe_be 8 corr) as U8. cbn [be app] in U8. rewrite U8.
  pose proof (unbe_be 2 port) as Up. cbn [be app] in Up. rewrite Up.
  pose proof (unbe_be 2 sq) as Us. cbn [be app] in Us. rewrite Us.
  pose proof (unbe_be 2 mlen) as Um. cbn [be app] in Um. rewrite Um.
  change (256 ^ Z.of_nat 8) with (2 ^ 64). change (256 ^ Z.of_nat 2) with 65536.
  rewrite (to_signed_wrap 64 corr) by lia.
  change 256 with (2 ^ 8) at 1. rewrite (to_signed_wrap 8 li) by lia.
  rewrite !Z.mod_small by lia. reflexivity.
Qed.

