(* Proofs about the CSPTP source model (C44). *)
From V Require Import Model.CsptpSource Proofs.TlvSet Proofs.CsptpMsg.
From V Require Import Gen.ConstCsptp.

Ltac destr_if H := match type of H with (if ?c then _ else _) = _ => destruct c eqn:? end.

(* ---------------- the matching predicates of the property ---------------- *)
(* [ev] is a timestamped datagram that parses as a CSPTP Sync with the request's domain and
   sequence id and carries a valid response TLV *)
Definition matching_response (domain reqid : Z) (ev : event) (m : message) (origin : timestamp)
           (rt : resp_tlv) (rts : timestamp) (ts : list tlv) : Prop :=
  exists pkt, ev = Datagram pkt (Some rts) /\ csptp_deserialize pkt = Ok m
    /\ h_domain (m_header m) = domain /\ h_seq (m_header m) = reqid
    /\ m_body m = Sync origin /\ tlvs (m_suffix m) = Ok ts /\ find_map resp_tlv_try ts = Some rt.
Definition matching_follow_up (domain reqid : Z) (ev : event) (m : message) (precise : timestamp) : Prop :=
  exists pkt rts, ev = Datagram pkt rts /\ csptp_deserialize pkt = Ok m
    /\ h_domain (m_header m) = domain /\ h_seq (m_header m) = reqid /\ m_body m = FollowUp precise.

(* what a raw measurement must be made of *)
Definition justified (domain reqid : Z) (send_ts : timestamp) (all : list event) (r : raw_measurement) : Prop :=
  exists ev m origin rt rts ts,
    In ev all /\ matching_response domain reqid ev m origin rt rts ts
    /\ rm_req_send r = send_ts /\ rm_req_recv r = rt_ingress rt /\ rm_req_corr r = rt_correction rt
    /\ rm_resp_recv r = rts /\ rm_leap r = leap_of (m_header m) /\ rm_status r = find_map status_tlv_try ts
    /\ rm_ptp r = h_ptp_timescale (m_header m) /\ rm_tt r = h_time_traceable (m_header m)
    /\ rm_ft r = h_freq_traceable (m_header m)
    /\ if h_two_step (m_header m)
       then exists ev' m' precise,
              In ev' all /\ matching_follow_up domain reqid ev' m' precise
              /\ rm_resp_send r = precise
              /\ rm_resp_corr r = sat_i64 (h_correction (m_header m) + h_correction (m_header m'))
       else rm_resp_send r = origin /\ rm_resp_corr r = h_correction (m_header m).

Definition inv (domain reqid : Z) (all : list event) (st : rstate) : Prop :=
  match st with
  | WaitingForResponse => True
  | WaitingForFollowUp s =>
      exists ev m origin rt rts ts,
        In ev all /\ matching_response domain reqid ev m origin rt rts ts
        /\ h_two_step (m_header m) = true
        /\ s = mkSyncInfo (rt_ingress rt) rts (rt_correction rt) (h_correction (m_header m)) (leap_of (m_header m))
                          (find_map status_tlv_try ts) (h_ptp_timescale (m_header m))
                          (h_time_traceable (m_header m)) (h_freq_traceable (m_header m))
  | WaitingForResponseHaveFollowUp precise c =>
      exists ev' m', In ev' all /\ matching_follow_up domain reqid ev' m' precise /\ c = h_correction (m_header m')
  end.

Lemma step_sound : forall domain reqid send_ts all st ev res,
  In ev all -> inv domain reqid all st ->
  step domain reqid send_ts st ev = Ok res ->
  match res with
  | Continue st' => inv domain reqid all st'
  | Done r => justified domain reqid send_ts all r
  end.
Proof.
  intros domain reqid send_ts all st ev res Hin Hinv H.
  unfold step in H. destruct ev as [|pkt rts]; [inversion H; subst; exact Hinv|].
  destruct (csptp_deserialize pkt) as [m|e|s] eqn:Ed; [|inversion H; subst; exact Hinv|discriminate].
  cbv zeta in H.
  destruct (h_domain (m_header m) =? domain) eqn:E1; cbn [negb orb] in H; [|inversion H; subst; exact Hinv].
  destruct (h_seq (m_header m) =? reqid) eqn:E2; cbn [negb orb] in H; [|inversion H; subst; exact Hinv].
  apply Z.eqb_eq in E1, E2.
  destruct (m_body m) as [origin| | | |precise| | | | | ] eqn:Eb; try (inversion H; subst; exact Hinv).
  - (* Sync *)
    destruct (tlvs (m_suffix m)) as [ts|e|s] eqn:Et; cbn in H; try discriminate.
    destruct (find_map resp_tlv_try ts) as [rt|] eqn:Ef; [|inversion H; subst; exact Hinv].
    destruct rts as [recv_ts|]; [|inversion H; subst; exact Hinv].
    assert (matching_response domain reqid (Datagram pkt (Some recv_ts)) m origin rt recv_ts ts) as MR.
    { exists pkt. repeat split; auto. }
    destruct (h_two_step (m_header m)) eqn:E2s.
    + destruct st as [|s|rs rc]; inversion H; subst; clear H.
      * cbn. exists (Datagram pkt (Some recv_ts)), m, origin, rt, recv_ts, ts. repeat split; auto.
      * exact Hinv.
      * cbn in Hinv. destruct Hinv as (ev' & m' & Hin' & MF & ->).
        exists (Datagram pkt (Some recv_ts)), m, origin, rt, recv_ts, ts. cbn.
        repeat split; auto. rewrite E2s.
        exists ev', m', rs. repeat split; auto. f_equal. apply Z.add_comm.
    + inversion H; subst; clear H.
      exists (Datagram pkt (Some recv_ts)), m, origin, rt, recv_ts, ts. cbn.
      repeat split; auto. rewrite E2s. split; reflexivity.
  - (* FollowUp *)
    assert (matching_follow_up domain reqid (Datagram pkt rts) m precise) as MF.
    { exists pkt, rts. repeat split; auto. }
    destruct st as [|s|rs rc]; inversion H; subst; clear H.
    + cbn. exists (Datagram pkt rts), m. repeat split; auto.
    + cbn in Hinv. destruct Hinv as (ev0 & m0 & origin & rt & rts0 & ts & Hin0 & MR & E2s & ->).
      exists ev0, m0, origin, rt, rts0, ts. cbn. repeat split; auto. rewrite E2s.
      exists (Datagram pkt rts), m, precise. repeat split; auto.
    + exact Hinv.
Qed.

Lemma collect_sound : forall domain reqid send_ts all events st r,
  incl events all -> inv domain reqid all st ->
  collect domain reqid send_ts st events = Ok (Some r) ->
  justified domain reqid send_ts all r.
Proof.
  induction events as [|ev rest IH]; intros st r Hincl Hinv H; cbn in H; [discriminate|].
  destruct (step domain reqid send_ts st ev) as [res|e|s] eqn:Es; cbn in H; try discriminate.
  assert (In ev all) as Hin by (apply Hincl; left; reflexivity).
  pose proof (step_sound _ _ _ _ _ _ _ Hin Hinv Es) as S.
  destruct res as [st'|m].
  - eapply IH; eauto. intros x Hx. apply Hincl. right. exact Hx.
  - inversion H; subst. exact S.
Qed.

(* C44_matching_only *)
Theorem collect_matching_only : forall domain reqid send_ts events r,
  collect domain reqid send_ts WaitingForResponse events = Ok (Some r) ->
  justified domain reqid send_ts events r.
Proof.
  intros. eapply collect_sound; eauto. - apply incl_refl. - exact I.
Qed.

(* ---------------- totality ---------------- *)
Lemma step_no_panic : forall domain reqid send_ts st ev s, step domain reqid send_ts st ev <> Panic s.
Proof.
  intros domain reqid send_ts st ev s H. unfold step in H.
  destruct ev as [|pkt rts]; [discriminate|].
  destruct (csptp_deserialize pkt) as [m|e|s0] eqn:Ed; [|discriminate|].
  2:{ eapply csptp_deserialize_no_panic; eauto. }
  apply csptp_deserialize_ok in Ed. destruct Ed as (_ & V & _).
  destruct (tlvs_valid_ok _ V) as [l Hl].
  cbv zeta in H. destr_if H; [discriminate|].
  destruct (m_body m); try discriminate.
  - rewrite Hl in H. cbn in H. destruct (find_map resp_tlv_try l); [|discriminate].
    destruct rts; [|discriminate]. destruct (h_two_step _); [|discriminate]. destruct st; discriminate.
  - destruct st; discriminate.
Qed.

Lemma collect_no_panic : forall domain reqid send_ts events st s,
  collect domain reqid send_ts st events <> Panic s.
Proof.
  induction events as [|ev rest IH]; intros st s H; cbn in H; [discriminate|].
  destruct (step domain reqid send_ts st ev) as [res|e|s0] eqn:Es; cbn in H; try discriminate.
  - destruct res; [eapply IH; eauto|discriminate].
  - inversion H; subst. eapply step_no_panic; eauto.
Qed.

Lemma step_no_err : forall domain reqid send_ts st ev e, step domain reqid send_ts st ev <> Err e.
Proof.
  intros domain reqid send_ts st ev e H. unfold step in H.
  destruct ev as [|pkt rts]; [discriminate|].
  destruct (csptp_deserialize pkt) as [m|e0|s0] eqn:Ed; [|discriminate|discriminate].
  apply csptp_deserialize_ok in Ed. destruct Ed as (_ & V & _).
  destruct (tlvs_valid_ok _ V) as [l Hl].
  cbv zeta in H. destr_if H; [discriminate|].
  destruct (m_body m); try discriminate.
  - rewrite Hl in H. cbn in H. destruct (find_map resp_tlv_try l); [|discriminate].
    destruct rts; [|discriminate]. destruct (h_two_step _); [|discriminate]. destruct st; discriminate.
  - destruct st; discriminate.
Qed.

Lemma collect_ok : forall domain reqid send_ts events st, exists o, collect domain reqid send_ts st events = Ok o.
Proof.
  induction events as [|ev rest IH]; intros st; cbn; [eauto|].
  destruct (step domain reqid send_ts st ev) as [res|e|s0] eqn:Es; cbn.
  - destruct res; [apply IH|eauto].
  - exfalso. eapply step_no_err; eauto.
  - exfalso. eapply step_no_panic; eauto.
Qed.

(* the request always fits its buffers: the two expects of the poll loop cannot fire *)
Lemma request_datagram_ok : forall domain reqid, exists d, request_datagram domain reqid = Ok d.
Proof.
  intros. eexists. vm_compute. reflexivity.
Qed.

Lemma poll_once_ok : forall domain active cs reqid p, exists o, poll_once domain active cs reqid p = Ok o.
Proof.
  intros. unfold poll_once. destruct (request_datagram_ok domain reqid) as [d ->].
  destruct (ps_send p) as [send_ts|]; [|eauto].
  destruct (collect_ok domain reqid send_ts (ps_events p) WaitingForResponse) as [o ->]. cbn.
  destruct o as [m|]; [|eauto].
  destruct (add_correction _ _); [destruct (add_correction _ _)|]; eauto.
Qed.

(* C44_total *)
Theorem run_polls_ok : forall polls domain active cs seq, exists outs, run_polls domain active cs seq polls = Ok outs.
Proof.
  induction polls as [|p rest IH]; intros; cbn; [eauto|].
  destruct (poll_once_ok domain active cs seq p) as [o ->]. cbn.
  destruct (IH domain active (po_state o) (wrap 16 (seq + 1))) as [os ->]. cbn. eauto.
Qed.

Theorem run_polls_total : forall polls domain active cs seq s, run_polls domain active cs seq polls <> Panic s.
Proof. intros. destruct (run_polls_ok polls domain active cs seq) as [o ->]. discriminate. Qed.

(* add_correction: in range or refused, never a panic; when it answers, the answer is a PTP timestamp *)
Lemma add_correction_range : forall ts c t, add_correction ts c = Some t -> 0 <= ts_secs t < 2 ^ 48 /\ 0 <= ts_nanos t < 1000000000.
Proof.
  intros ts c t H. unfold add_correction in H. cbv zeta in H.
  destr_if H; [discriminate|]. inversion H; subst; clear H. cbn.
  apply orb_false_iff in Heqb. destruct Heqb as [A B].
  unfold wrap in *. split.
  - split; [apply Z.mod_pos_bound; lia | lia].
  - split; [apply Z.mod_pos_bound; lia | lia].
Qed.

(* ---------------- one measurement per request ---------------- *)
(* the outcome of the k-th scripted poll is computed from that poll's script and sequence id alone *)
Definition outcome_of (domain : Z) (reqid : Z) (p : poll_script) (o : poll_outcome) : Prop :=
  match po_meas o with
  | None => True
  | Some nm =>
      exists send_ts r a b,
        ps_send p = Some send_ts
        /\ collect domain reqid send_ts WaitingForResponse (ps_events p) = Ok (Some r)
        /\ po_raw o = Some r
        /\ add_correction (rm_req_send r) (rm_req_corr r) = Some a
        /\ add_correction (rm_resp_send r) (rm_resp_corr r) = Some b
        /\ nm = mkNtpMeas (convert_to_ntp a, convert_to_ntp (rm_req_recv r))
                          (convert_to_ntp b, convert_to_ntp (rm_resp_recv r)) (rm_leap r)
  end.

Lemma poll_once_outcome : forall domain active cs reqid p o,
  poll_once domain active cs reqid p = Ok o -> outcome_of domain reqid p o.
Proof.
  intros domain active cs reqid p o H. unfold poll_once in H.
  destruct (request_datagram domain reqid); try discriminate.
  destruct (ps_send p) as [send_ts|] eqn:Es; [|inversion H; subst; exact I].
  destruct (collect domain reqid send_ts WaitingForResponse (ps_events p)) as [r| |] eqn:Ec; cbn in H; try discriminate.
  destruct r as [m|]; [|inversion H; subst; exact I].
  destruct (add_correction (rm_req_send m) (rm_req_corr m)) as [ta|] eqn:Ea;
    [destruct (add_correction (rm_resp_send m) (rm_resp_corr m)) as [tb|] eqn:Eb|];
    inversion H; subst; try exact I.
  unfold outcome_of. cbn. exists send_ts, m, ta, tb. repeat split; auto.
Qed.

Fixpoint seq_after (seq : Z) (k : nat) : Z :=
  match k with O => seq | S k' => seq_after (wrap 16 (seq + 1)) k' end.

(* C44_once_per_request *)
Theorem run_polls_per_request : forall polls domain active cs seq outs,
  run_polls domain active cs seq polls = Ok outs ->
  length outs = length polls /\
  forall k p o, nth_error polls k = Some p -> nth_error outs k = Some o ->
    outcome_of domain (seq_after seq k) p o.
Proof.
  induction polls as [|p rest IH]; intros domain active cs seq outs H; cbn in H.
  - inversion H; subst. split; [reflexivity|]. intros k p o Hp. destruct k; discriminate.
  - destruct (poll_once domain active cs seq p) as [o| |] eqn:Eo; cbn in H; try discriminate.
    destruct (run_polls domain active (po_state o) (wrap 16 (seq + 1)) rest) as [os| |] eqn:Er; cbn in H; try discriminate.
    inversion H; subst; clear H. destruct (IH _ _ _ _ _ Er) as [L F]. split; [cbn; congruence|].
    intros k p' o' Hp Ho. destruct k as [|k]; cbn in Hp, Ho.
    + inversion Hp; inversion Ho; subst. cbn. eapply poll_once_outcome; eauto.
    + cbn. eapply F; eauto.
Qed.

(* panic-site census of source.rs on the repaired tree: the three remaining sites are the
   try_into().expect in add_correction (dead: rem_euclid result fits u32) and the two expects
   on the request (request_datagram_ok) *)
Example census_source : PANIC_SITES_SOURCE = 3.
Proof. reflexivity. Qed.
