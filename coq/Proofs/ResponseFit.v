(* C17: when the answer fits a request-sized buffer (builder P2b). *)
From V Require Import Model.Response Proofs.Response Gen.ConstResponse.
From Coq Require Import ZifyBool.
Ltac Zify.zify_post_hook ::= Z.div_mod_to_equations.

Definition wf_env (st : sstate) (recv now : list Z) : Prop :=
  len (s_rdelay_short st) = 4 /\ len (s_rdisp_short st) = 4 /\ len (s_refid st) = 4 /\
  len (s_rdelay_t32 st) = 4 /\ len (s_rdisp_t32 st) = 4 /\ len recv = 8 /\ len now = 8.

Lemma field_ok_fwire v5 f : field_ok v5 f = true -> 0 <= fwire f /\ fwire f mod 4 = 0.
Proof.
  destruct f; unfold field_ok, fwire; intros H; try (split; [|apply next4_mod]);
    try (pose proof (len_nonneg d)); try lia;
    match goal with |- 0 <= next4 ?x => pose proof (next4_ge x); lia end.
Qed.

Lemma fields_wire_cons f l : fields_wire (f :: l) = fwire f + fields_wire l.
Proof. reflexivity. Qed.
Lemma fields_wire_app a b : fields_wire (a ++ b) = fields_wire a + fields_wire b.
Proof. unfold fields_wire. rewrite map_app, sumZ_app. reflexivity. Qed.

Lemma fields_wire_ok v5 l : forallb (field_ok v5) l = true -> 0 <= fields_wire l /\ fields_wire l mod 4 = 0.
Proof.
  induction l as [|f r IH]; [cbn; lia|]. cbn [forallb]. intros H. apply andb_prop in H. destruct H as [H1 H2].
  rewrite fields_wire_cons. destruct (field_ok_fwire _ _ H1). destruct (IH H2). lia.
Qed.

Lemma echo_uid_wire_le v5 l : forallb (field_ok v5) l = true -> fields_wire (echo_uid l) <= fields_wire l.
Proof.
  induction l as [|f r IH]; [cbn; lia|]. cbn [forallb]. intros H. apply andb_prop in H. destruct H as [H1 H2].
  unfold echo_uid in *. cbn [filter]. destruct (is_uid f); rewrite ?fields_wire_cons; specialize (IH H2);
    destruct (field_ok_fwire _ _ H1); lia.
Qed.

Lemma echo_uid_all_uid l : Forall (fun f => is_uid f = true) (echo_uid l).
Proof. apply Forall_forall. intros f H. unfold echo_uid in H. apply filter_In in H. tauto. Qed.

Lemma echo_uid_encodable v5 l : forallb (field_ok v5) l = true -> Forall encodable (echo_uid l).
Proof.
  intros H. apply Forall_forall. intros f HF. unfold echo_uid in HF. apply filter_In in HF. destruct HF as [HI HU].
  rewrite forallb_forall in H. specialize (H f HI). destruct f; try discriminate. unfold field_ok in H. unfold encodable. lia.
Qed.

(* echoed unique identifiers none of which is short: re-encoding does not grow them *)
Lemma esz_uid_le minf l :
  Forall (fun f => is_uid f = true) l -> short_uid minf l = false -> esz_list minf l <= fields_wire l.
Proof.
  induction l as [|f r IH]; [cbn; lia|]. intros HA HS. inversion HA; subst.
  destruct f; try discriminate. cbn [short_uid] in HS. apply orb_false_elim in HS. destruct HS as [S1 S2].
  cbn [esz_list]. rewrite fields_wire_cons. specialize (IH H2 S2). unfold esz, fwire.
  replace (len d + 4) with (4 + len d) by lia. lia.
Qed.

Lemma len_truncate_ref recv : len recv = 8 -> len (truncate_ref recv) = 8.
Proof.
  intros H. unfold len in H.
  do 9 (destruct recv as [|? recv]; try (simpl in H; lia)). reflexivity.
Qed.

Lemma len_bytes_upgrade : len (bytes_of_string UPGRADE_TIMESTAMP) = 8.
Proof. reflexivity. Qed.

Lemma header_len tf k alg st q recv now mlen a :
  (q_version q = 3 \/ q_version q = 4 \/ q_version q = 5) -> wf_env st recv now -> len (q_xmit q) = 8 ->
  build tf k alg st q recv now mlen = Ok a -> len (a_header a) = 48.
Proof.
  intros HV [E1 [E2 [E3 [E4 [E5 [E6 E7]]]]]] EX HB.
  rewrite (build_header _ _ _ _ _ _ _ _ _ HV HB).
  pose proof (len_truncate_ref recv E6) as ET.
  destruct (is_time_kind k); unfold time_header, kiss_header; destruct (q_version q =? 5).
  - lens. lia.
  - destruct ((q_version q =? 4) && q_upgrade q && match k with KTime => true | _ => false end);
      lens; rewrite ?len_bytes_upgrade; lia.
  - lens. lia.
  - lens.
    assert (len (bytes_of_string match k with KDeny | KNtsDeny => KISS_DENY | KRate | KNtsRate => KISS_RATE | _ => KISS_NTSN end) = 4)
      as -> by (destruct k; reflexivity).
    lia.
Qed.

Lemma decision_cases cfg q k alg stats :
  (c_intended cfg = 1 \/ c_intended cfg = 3) ->
  decision cfg q = inl (Some (k, alg, stats)) ->
  match k with
  | KNak => q_decrypt_failed q = true
  | KNtsTime | KNtsDeny => q_decrypt_failed q = false /\ q_cookie q = Some alg
  | KTime => q_decrypt_failed q = false /\ q_cookie q = None
  | KDeny => q_decrypt_failed q = true \/ q_cookie q = None
  | KRate | KNtsRate => False
  end.
Proof.
  intros HI. unfold decision. destruct (q_decrypt_failed q) eqn:HD; destruct (q_cookie q) eqn:HC; cbn [negb andb]; cbv zeta;
  repeat match goal with |- context [if ?c then _ else _] => destruct c eqn:? end;
  intros H; inversion H; subst; auto; try discriminate; try lia.
Qed.

Lemma auths_ok l : forallb auth_ok l = true -> 0 <= auths_wire l /\ auths_wire l mod 4 = 0.
Proof.
  induction l as [|[[n c] w] r IH]; [cbn; lia|]. cbn [forallb]. intros H. apply andb_prop in H. destruct H as [H1 H2].
  specialize (IH H2). unfold auth_ok in H1. unfold auths_wire in *. simpl map. simpl sumZ.
  pose proof (next4_ge n). lia.
Qed.

Ltac split_andb H := repeat (let H2 := fresh "W" in apply andb_prop in H; destruct H as [H H2]).

(* NTPv3 and NTPv4 requests answered through the plain builders *)
Lemma fits_plain_v34 tf k alg st q recv now :
  wf_request q = true -> wf_env st recv now -> (q_version q = 3 \/ q_version q = 4) ->
  is_nts_kind k = false -> (q_version q = 3 -> k <> KNak) ->
  known_class_C17 q k = false ->
  exists a w, build tf k alg st q recv now (request_len q) = Ok a /\ serialize a (request_len q) = Ok w.
Proof.
  intros WF WE HV HK HN HC.
  unfold wf_request in WF. cbv zeta in WF. split_andb WF.
  assert (E5: (q_version q =? 5) = false) by lia. rewrite E5 in *.
  destruct (fields_wire_ok _ _ WF) as [U0 U4]. destruct (fields_wire_ok _ _ W10) as [A0 A4].
  destruct (auths_ok _ W8) as [X0 X4].
  assert (XM: len (q_xmit q) = 8) by lia.
  assert (HV3: q_version q = 3 \/ q_version q = 4 \/ q_version q = 5) by lia.
  unfold known_class_C17 in HC. rewrite HK, E5 in HC. cbn [andb orb] in HC. rewrite orb_false_r in HC.
  destruct HV as [V3|V4].
  - (* NTPv3: no extension fields *)
    assert ((q_version q =? 3) = true) as E3 by lia. rewrite E3 in W2. split_andb W2.
    destruct (q_untrusted q) eqn:EU; [|discriminate]. destruct (q_auth q) eqn:EA; [|discriminate].
    destruct (q_auths q) eqn:EX; [|discriminate].
    assert (exists a, build tf k alg st q recv now (request_len q) = Ok a /\ a_ver a = 3) as [a [HB HA]].
    { unfold build. rewrite E3. destruct k; try discriminate; try (exfalso; apply (HN V3); reflexivity); eauto. }
    exists a. pose proof (header_len _ _ _ _ _ _ _ _ _ HV3 WE XM HB) as HL.
    assert (RL: 48 <= request_len q) by (unfold request_len; rewrite EU, EA, EX; consts; change (fields_wire []) with 0; change (auths_wire []) with 0; lia).
    assert (exists w, serialize a (request_len q) = Ok w) as [w HW].
    { unfold serialize. cbv zeta. rewrite HA. change (3 =? 3) with true. cbv iota. rewrite HL.
      destruct (48 <=? request_len q) eqn:LE; [eauto|lia]. }
    eauto.
  - assert ((q_version q =? 3) = false) as E3 by lia. assert ((q_version q =? 4) = true) as E4 by lia.
    assert (FO: forallb (field_ok false) (q_untrusted q ++ q_auth q) = true) by (rewrite forallb_app, WF, W10; reflexivity).
    assert (exists hdr d, build tf k alg st q recv now (request_len q)
              = Ok (mk_answer 4 hdr (echo_uid (q_untrusted q ++ q_auth q)) [] [] false d)) as [hdr [d HB]].
    { unfold build. rewrite E3, E4. destruct k; try discriminate; cbv zeta; eauto. }
    eexists. pose proof (header_len _ _ _ _ _ _ _ _ _ HV3 WE XM HB) as HL.
    destruct (serialize_ok (mk_answer 4 hdr (echo_uid (q_untrusted q ++ q_auth q)) [] [] false d) (request_len q)) as [w HW];
      cbn [a_ver a_untrusted a_auth a_enc a_cipher a_header a_desired mk_answer] in *.
    + lia.
    + eapply echo_uid_encodable; eauto.
    + constructor.
    + constructor.
    + unfold auth_present. cbn. discriminate.
    + unfold raw_size, auth_present. cbn [a_ver a_untrusted a_auth a_enc a_cipher a_header a_desired mk_answer is_nil negb orb].
      change (4 =? 5) with false. rewrite HL.
      pose proof (esz_uid_le _ _ (echo_uid_all_uid (q_untrusted q ++ q_auth q)) HC).
      pose proof (echo_uid_wire_le _ _ FO). rewrite fields_wire_app in *.
      unfold request_len. consts. lia.
    + change (4 =? 5) with false. discriminate.
    + eauto.
Qed.

(* ------------------------------------------------------------------ NTS answers *)
Definition slot_wire (fresh : Z) (l : list field) : Z :=
  sumZ (map (fun f => if big_slot fresh f then fresh + 4 else 0) l).

Lemma sumZ_cons x l : sumZ (x :: l) = x + sumZ l.
Proof. reflexivity. Qed.

Lemma slot_wire_filter fresh l : (fresh + 4) * len (filter (big_slot fresh) l) = slot_wire fresh l.
Proof.
  induction l as [|f r IH]; [unfold slot_wire; cbn [filter map sumZ fold_right]; change (len (@nil field)) with 0; lia|].
  unfold slot_wire in *. cbn [filter map]. rewrite sumZ_cons.
  destruct (big_slot fresh f); rewrite ?len_cons, ?Z.mul_add_distr_l; lia.
Qed.

Lemma slot_wire_app fresh a b : slot_wire fresh (a ++ b) = slot_wire fresh a + slot_wire fresh b.
Proof. unfold slot_wire. rewrite map_app, sumZ_app. reflexivity. Qed.

Lemma cookie_len_cases alg : cookie_len alg = 104 \/ cookie_len alg = 168.
Proof. unfold cookie_len. destruct (alg =? AEAD_ID_512); [right|left]; reflexivity. Qed.

Lemma esz_all_cookies fresh l :
  0 <= fresh -> fresh mod 4 = 0 -> Forall (fun f => f = FCookie fresh) l -> esz_list min_enc l = (fresh + 4) * len l.
Proof.
  intros F0 F4. induction l as [|f r IH]; [intros _; cbn [esz_list]; change (len (@nil field)) with 0; lia|]. intros HA. inversion HA; subst.
  cbn [esz_list]. rewrite len_cons, (IH H2). unfold esz, min_enc. consts.
  rewrite next4_id by lia. replace ((fresh + 4) * (1 + len r)) with ((fresh + 4) + (fresh + 4) * len r) by ring. lia.
Qed.

Lemma slot_uid_le v5 fresh l :
  0 <= fresh -> forallb (field_ok v5) l = true -> slot_wire fresh l + fields_wire (echo_uid l) <= fields_wire l.
Proof.
  intros F0. induction l as [|f r IH]; [cbn; lia|]. cbn [forallb]. intros H. apply andb_prop in H. destruct H as [H1 H2].
  specialize (IH H2). unfold slot_wire, echo_uid in *. cbn [filter map]. rewrite sumZ_cons.
  destruct (field_ok_fwire _ _ H1) as [P0 _].
  destruct f; cbn [is_uid big_slot]; rewrite ?fields_wire_cons; try lia.
  - destruct (fresh <=? n) eqn:E; [|lia]. unfold fwire in *. pose proof (next4_ge (4 + n)). lia.
  - destruct (fresh <=? n) eqn:E; [|lia]. unfold fwire in *. pose proof (next4_ge (4 + n)). lia.
Qed.

Lemma slot_le v5 fresh l :
  0 <= fresh -> forallb (field_ok v5) l = true -> slot_wire fresh l <= fields_wire l.
Proof.
  intros F0 H. pose proof (slot_uid_le v5 fresh l F0 H).
  assert (0 <= fields_wire (echo_uid l)).
  { assert (forallb (field_ok v5) (echo_uid l) = true).
    { rewrite forallb_forall in *. intros x HX. apply H. unfold echo_uid in HX. apply filter_In in HX. tauto. }
    apply (fields_wire_ok _ _ H1). }
  lia.
Qed.

Lemma auths_sum l :
  forallb auth_ok l = true -> existsb (fun a => fst (fst a) <? NONCE_LEN_256) l = false ->
  24 * len l + sumZ (map (fun a => snd (fst a)) l) <= auths_wire l.
Proof.
  induction l as [|[[n c] w] r IH]; [cbn; lia|]. cbn [forallb existsb]. intros H HE.
  apply andb_prop in H. destruct H as [H1 H2]. apply orb_false_elim in HE. destruct HE as [E1 E2].
  specialize (IH H2 E2). unfold auth_ok in H1. unfold auths_wire in *. simpl map. simpl sumZ. rewrite len_cons.
  cbn [fst snd] in E1. consts. pose proof (next4_ge n). lia.
Qed.

Lemma fits_nts_v4 tf k alg st q recv now :
  wf_request q = true -> wf_env st recv now -> q_version q = 4 ->
  is_nts_kind k = true -> q_cookie q = Some alg -> q_decrypt_failed q = false ->
  known_class_C17 q k = false ->
  exists a w, build tf k alg st q recv now (request_len q) = Ok a /\ serialize a (request_len q) = Ok w.
Proof.
  intros WF WE V4 HK HCK HDF HC.
  unfold wf_request in WF. cbv zeta in WF. split_andb WF.
  assert (E5: (q_version q =? 5) = false) by lia. rewrite E5 in *.
  assert (E3: (q_version q =? 3) = false) by lia. assert (E4: (q_version q =? 4) = true) by lia.
  rewrite HDF, HCK in W0. split_andb W0.
  destruct (fields_wire_ok _ _ WF) as [U0 U4]. destruct (fields_wire_ok _ _ W10) as [A0 A4].
  destruct (fields_wire_ok _ _ W9) as [N0 N4].
  assert (XM: len (q_xmit q) = 8) by lia.
  assert (HV3: q_version q = 3 \/ q_version q = 4 \/ q_version q = 5) by lia.
  unfold known_class_C17 in HC. rewrite HK in HC. apply orb_false_elim in HC. destruct HC as [HC1 HC2].
  pose proof (auths_sum _ W8 HC2) as AS.
  assert (NL: 1 <= len (q_auths q)) by (destruct (q_auths q); [discriminate|rewrite len_cons; pose proof (len_nonneg l); lia]).
  set (fresh := cookie_len alg) in *.
  assert (FR: (fresh = 104 \/ fresh = 168)) by apply cookie_len_cases.
  assert (exists hdr e d, build tf k alg st q recv now (request_len q)
            = Ok (mk_answer 4 hdr [] (echo_uid (q_auth q)) e true d)
            /\ len e <= len (filter (big_slot fresh) (q_auth q ++ q_enc q))
            /\ Forall (fun f => f = FCookie fresh) e) as [hdr [e [d [HB [EL EF]]]]].
  { unfold build. rewrite E3, E4. destruct k; try discriminate; cbv zeta.
    - destruct (fresh_cookies_bounds tf alg q) as [_ [B2 B3]]. eauto 8.
    - do 3 eexists. split; [reflexivity|]. split; [change (len (@nil field)) with 0; apply len_nonneg|constructor].
    - do 3 eexists. split; [reflexivity|]. split; [change (len (@nil field)) with 0; apply len_nonneg|constructor]. }
  eexists. pose proof (header_len _ _ _ _ _ _ _ _ _ HV3 WE XM HB) as HL.
  destruct (serialize_ok (mk_answer 4 hdr [] (echo_uid (q_auth q)) e true d) (request_len q)) as [w HW];
    cbn [a_ver a_untrusted a_auth a_enc a_cipher a_header a_desired mk_answer] in *.
  - lia.
  - constructor.
  - eapply echo_uid_encodable; eauto.
  - eapply Forall_impl; [|exact EF]. intros f Hf. cbv beta in Hf. subst f. unfold encodable. lia.
  - reflexivity.
  - unfold raw_size. cbn [a_ver a_untrusted a_auth a_enc a_cipher a_header a_desired mk_answer].
    change (4 =? 5) with false. rewrite HL. cbn [esz_list].
    assert (BODY: esz_list min_auth (echo_uid (q_auth q)) + 8 + next4 NONCE_LEN_256 + next4 (esz_list min_enc e + 16)
                  <= fields_wire (q_auth q) + auths_wire (q_auths q)).
    { rewrite (esz_all_cookies fresh e) by (auto; lia).
      rewrite (next4_id ((fresh + 4) * len e + 16)) by lia. consts. change (next4 16) with 16.
      pose proof (esz_uid_le _ _ (echo_uid_all_uid (q_auth q)) HC1).
      assert ((fresh + 4) * len e <= slot_wire fresh (q_auth q ++ q_enc q)) by (rewrite <- slot_wire_filter; nia).
      rewrite slot_wire_app in H0.
      pose proof (slot_uid_le false fresh (q_auth q) ltac:(lia) W10).
      pose proof (slot_le false fresh (q_enc q) ltac:(lia) W9).
      lia. }
    destruct (auth_present _); unfold request_len; consts; lia.
  - change (4 =? 5) with false. discriminate.
  - eauto.
Qed.

Lemma handle_of_build tf cfg st q recv now B k alg stats a w :
  decision cfg q = inl (Some (k, alg, stats)) ->
  build tf k alg st q recv now B = Ok a -> serialize a B = Ok w ->
  handle tf cfg st q recv now B B = ORespond stats w.
Proof. intros HD HB HS. unfold handle. rewrite HD. unfold respond. rewrite HB, HS. reflexivity. Qed.

Lemma wf_version q : wf_request q = true -> q_version q = 3 \/ q_version q = 4 \/ q_version q = 5.
Proof.
  intros WF. unfold wf_request in WF. cbv zeta in WF. split_andb WF.
  destruct (q_version q =? 3) eqn:E3; [lia|]. lia.
Qed.

Lemma wf_v3_plain q : wf_request q = true -> q_version q = 3 -> q_decrypt_failed q = false /\ q_cookie q = None.
Proof.
  intros WF V. unfold wf_request in WF. cbv zeta in WF. split_andb WF.
  assert ((q_version q =? 3) = true) as E3 by lia. rewrite E3 in W2. split_andb W2.
  destruct (q_decrypt_failed q); [discriminate|]. destruct (q_cookie q); [discriminate|]. auto.
Qed.

(* NTPv3 and NTPv4 *)
Lemma fits_v34 tf cfg st q recv now k alg stats :
  wf_request q = true -> wf_env st recv now -> (c_intended cfg = 1 \/ c_intended cfg = 3) ->
  q_version q <> 5 ->
  decision cfg q = inl (Some (k, alg, stats)) -> known_class_C17 q k = false ->
  exists w, handle tf cfg st q recv now (request_len q) (request_len q) = ORespond stats w.
Proof.
  intros WF WE HI V5 HD HC.
  pose proof (wf_version q WF) as HV. pose proof (decision_cases _ _ _ _ _ HI HD) as DC.
  assert (HV34: q_version q = 3 \/ q_version q = 4) by lia.
  destruct (is_nts_kind k) eqn:HK.
  - assert (q_decrypt_failed q = false /\ q_cookie q = Some alg) as [HDF HCK] by (destruct k; try discriminate; tauto).
    assert (q_version q = 4) as V4.
    { destruct HV34 as [V3|V4]; auto. destruct (wf_v3_plain q WF V3) as [_ HN]. congruence. }
    destruct (fits_nts_v4 tf k alg st q recv now WF WE V4 HK HCK HDF HC) as [a [w [HB HS]]].
    exists w. eapply handle_of_build; eauto.
  - assert (HN: q_version q = 3 -> k <> KNak).
    { intros V3 ->. destruct (wf_v3_plain q WF V3) as [HF _]. congruence. }
    destruct (fits_plain_v34 tf k alg st q recv now WF WE HV34 HK HN HC) as [a [w [HB HS]]].
    exists w. eapply handle_of_build; eauto.
Qed.

(* the two requests of DESIGN.md and the short-nonce request are in the class and are dropped *)
Definition witness_cfg : config := {| c_intended := 3; c_require_nts := 0; c_accepted := [3; 4; 5] |}.
Definition witness_st : sstate :=
  {| s_stratum := 2; s_leap := 0; s_refid := [1;2;3;4]; s_precision := 238; s_rdelay_short := [0;0;0;0];
     s_rdisp_short := [0;0;0;2]; s_rdelay_t32 := [0;0;0;0]; s_rdisp_t32 := [0;0;0;0]; s_filter := [] |}.
Definition witness_t : list Z := [0;0;0;100;0;0;0;0].
Definition plain_req (ver : Z) (u : list field) (mac : Z) : request :=
  {| q_version := ver; q_mode := 3; q_poll := 6; q_xmit := [1;2;3;4;5;6;7;8]; q_upgrade := false;
     q_untrusted := u; q_auth := []; q_enc := []; q_mac := mac; q_cookie := None; q_decrypt_failed := false; q_auths := [] |}.
