(* Proofs about Model/Estimator.v: the well-formedness invariant of the estimator
   state and the preservation of unrelated estimates by additions/removals.
   Everything is generic in the element type and its arithmetic. *)
From V Require Import Model.Estimator.
From Coq Require Import Arith PeanoNat.

Local Open Scope nat_scope.

Ltac natb :=
  repeat match goal with
  | |- context [ (?a <? ?b) ] => destruct (Nat.ltb_spec a b)
  | |- context [ (?a <=? ?b) ] => destruct (Nat.leb_spec a b)
  | |- context [ (?a =? ?b) ] => destruct (Nat.eqb_spec a b)
  | H : context [ (?a <? ?b) ] |- _ => destruct (Nat.ltb_spec a b)
  | H : context [ (?a <=? ?b) ] |- _ => destruct (Nat.leb_spec a b)
  | H : context [ (?a =? ?b) ] |- _ => destruct (Nat.eqb_spec a b)
  end.

(* ------------------------------------------------------------ list helpers *)
Lemma nth_map_seq {X} (g : nat -> X) d : forall n s k, k < n -> nth k (map g (seq s n)) d = g (s + k).
Proof.
  induction n as [|n IH]; intros s k Hk; [lia|].
  destruct k as [|k]; cbn [seq map nth].
  - now rewrite Nat.add_0_r.
  - rewrite IH by lia. f_equal. lia.
Qed.

Lemma length_upd {X} (v : X) : forall l i, length (upd i v l) = length l.
Proof. induction l as [|x l IH]; intros [|i]; cbn; auto. Qed.

Lemma nth_upd_same {X} (v d : X) : forall l i, i < length l -> nth i (upd i v l) d = v.
Proof. induction l as [|x l IH]; intros [|i] H; cbn in *; try lia; auto. apply IH. lia. Qed.

Lemma nth_upd_other {X} (v d : X) : forall l i j, i <> j -> nth j (upd i v l) d = nth j l d.
Proof.
  induction l as [|x l IH]; intros [|i] [|j] H; cbn; auto; try lia; try (apply IH; lia).
Qed.

Lemma remove_first_some {X} (p : X -> bool) : forall l x r,
  remove_first p l = Some (x, r) ->
  p x = true /\ In x l /\ (forall y, In y r -> In y l) /\ length l = S (length r) /\
  (forall q : X -> bool, q x = false -> find q r = find q l) /\
  (forall y, In y l -> y = x \/ In y r).
Proof.
  induction l as [|a l IH]; intros x r H; cbn in H; [discriminate|].
  destruct (p a) eqn:Hp.
  - inversion H; subst. repeat split; auto.
    + now left.
    + intros y Hy. now right.
    + intros q Hq. cbn. now rewrite Hq.
    + intros y [->|Hy]; auto.
  - destruct (remove_first p l) as [[y r']|] eqn:Hr; [|discriminate].
    inversion H; subst. destruct (IH _ _ eq_refl) as (H1 & H2 & H3 & H4 & H5 & H6).
    repeat split; auto.
    + now right.
    + intros z [->|Hz]; [now left|right; auto].
    + cbn. now rewrite H4.
    + intros q Hq. cbn. rewrite (H5 q Hq). reflexivity.
    + intros z [->|Hz]; [right; now left|]. destruct (H6 _ Hz); auto. right. now right.
Qed.

Lemma remove_first_none {X} (p : X -> bool) : forall l,
  remove_first p l = None <-> existsb p l = false.
Proof.
  induction l as [|a l IH]; cbn; [tauto|].
  destruct (p a); cbn.
  - split; discriminate.
  - destruct (remove_first p l) as [[y r']|]; split; intros H; try discriminate; try tauto.
    + apply IH in H. discriminate.
Qed.

Lemma remove_first_nodup {X Y} (p : X -> bool) (key : X -> Y) : forall l x r,
  remove_first p l = Some (x, r) -> NoDup (map key l) ->
  NoDup (map key r) /\ (forall y, In y r -> key y <> key x).
Proof.
  induction l as [|a l IH]; intros x r H Hn; cbn in H; [discriminate|].
  cbn in Hn. inversion Hn as [|? ? Hna Hnl]; subst.
  destruct (p a).
  - inversion H; subst. split; auto. intros y Hy Heq. apply Hna. rewrite <- Heq. now apply in_map.
  - destruct (remove_first p l) as [[y r']|] eqn:Hr; [|discriminate].
    inversion H; subst. destruct (IH _ _ eq_refl Hnl) as [H1 H2].
    destruct (remove_first_some p _ _ _ Hr) as (_ & Hin & Hsub & _).
    split.
    + cbn. constructor; auto. intros Hc. apply Hna. apply in_map_iff in Hc. destruct Hc as [z [Hz1 Hz2]].
      rewrite <- Hz1. apply in_map. auto.
    + intros z [->|Hz]; auto. intros Heq. apply Hna. rewrite Heq. now apply in_map.
Qed.

Lemma NoDup_app_one {X} (l : list X) x : NoDup l -> ~ In x l -> NoDup (l ++ [x]).
Proof.
  induction l as [|a l IH]; intros Hn Hx; cbn.
  - constructor; [intros []|constructor].
  - inversion Hn; subst. constructor.
    + rewrite in_app_iff. cbn. intros [H|[H|[]]]; [auto|subst; apply Hx; now left].
    + apply IH; auto. intros H. apply Hx. now right.
Qed.

Lemma find_none_existsb {X} (p : X -> bool) l : find p l = None <-> existsb p l = false.
Proof. induction l as [|a l IH]; cbn; [tauto|]. destruct (p a); cbn; [split; discriminate|auto]. Qed.

Lemma find_app {X} (p : X -> bool) l1 l2 :
  find p (l1 ++ l2) = match find p l1 with Some x => Some x | None => find p l2 end.
Proof. induction l1 as [|a l IH]; cbn; auto. destruct (p a); auto. Qed.

Lemma find_map_key {X} (p : X -> bool) (g : X -> X) l :
  (forall x, p (g x) = p x) -> find p (map g l) = option_map g (find p l).
Proof. intros Hg. induction l as [|a l IH]; cbn; auto. rewrite Hg. destruct (p a); auto. Qed.

Lemma find_in {X} (p : X -> bool) l x : find p l = Some x -> In x l /\ p x = true.
Proof. apply find_some. Qed.

Lemma linkid_eqb_eq a b : linkid_eqb a b = true <-> a = b.
Proof.
  destruct a as [[a1 a2] a3], b as [[b1 b2] b3]. unfold linkid_eqb, link_first, link_second. cbn.
  rewrite !andb_true_iff, !Z.eqb_eq. split; [intros [[-> ->] ->]; auto|intros H; inversion H; auto].
Qed.

Lemma linkid_eqb_refl a : linkid_eqb a a = true.
Proof. now apply linkid_eqb_eq. Qed.

Lemma linkid_eqb_neq a b : a <> b -> linkid_eqb a b = false.
Proof. intros H. destruct (linkid_eqb a b) eqn:E; auto. apply linkid_eqb_eq in E. contradiction. Qed.

Section Proofs.
Context {A : Type} (F : Ops A).

Notation matrix := (@matrix A).
Notation est := (@est A).
Notation clock_info := (@clock_info A).
Notation link_info := (@link_info A).

(* ------------------------------------------------------------------ matrix *)
Lemma length_tab n (f : nat -> A) : length (tab n f) = n.
Proof. unfold tab. now rewrite map_length, seq_length. Qed.

Lemma nth_tab n (f : nat -> A) d k : k < n -> nth k (tab n f) d = f k.
Proof. intros H. unfold tab. now rewrite nth_map_seq. Qed.

Lemma mget_mnew r c f i j : i < r -> j < c -> mget F (mnew r c f) i j = f i j.
Proof.
  intros Hi Hj. unfold mget, mnew. cbn [m_cols m_data].
  rewrite nth_tab by nia.
  assert (c <> 0) by lia.
  replace (i * c + j) with (j + i * c) by lia.
  rewrite Nat.div_add, Nat.mod_add by auto.
  rewrite Nat.div_small, Nat.mod_small by auto. reflexivity.
Qed.

Lemma mget_mnew_vec r f i : i < r -> mget F (mnew_vec r f) i 0 = f i.
Proof.
  intros Hi. unfold mget, mnew_vec. cbn [m_cols m_data].
  rewrite Nat.mul_1_r, Nat.add_0_r. now apply nth_tab.
Qed.

Lemma mget_mset_same m r c v :
  r * m_cols m + c < length (m_data m) -> mget F (mset m r c v) r c = v.
Proof. intros H. unfold mget, mset. cbn. now apply nth_upd_same. Qed.

Lemma mget_mset_other m r c v r' c' :
  r * m_cols m + c <> r' * m_cols m + c' -> mget F (mset m r c v) r' c' = mget F m r' c'.
Proof. intros H. unfold mget, mset. cbn. now apply nth_upd_other. Qed.

(* ------------------------------------------------------------ the invariant *)
Definition sep (s1 z1 s2 z2 : nat) : Prop := s1 + z1 <= s2 \/ s2 + z2 <= s1.

(* the state is n x 1, the covariance n x n; identifiers are unique; the blocks
   (2 rows per clock from base_index, 1 row per link at index) lie inside 0..n,
   are pairwise disjoint, and their sizes add up to n: they partition 0..n *)
Record WF (st : est) : Prop := {
  wf_cols : m_cols (e_state st) = 1;
  wf_len : length (m_data (e_state st)) = m_rows (e_state st);
  wf_urows : m_rows (e_unc st) = m_rows (e_state st);
  wf_ucols : m_cols (e_unc st) = m_rows (e_state st);
  wf_ulen : length (m_data (e_unc st)) = m_rows (e_state st) * m_rows (e_state st);
  wf_cids : NoDup (map (@ci_id A) (e_clocks st));
  wf_lids : NoDup (map (@li_id A) (e_links st));
  wf_ext : NoDup (e_ext st);
  wf_ext_int : forall id, In id (e_ext st) -> ~ In id (map (@ci_id A) (e_clocks st));
  wf_cb : forall c, In c (e_clocks st) -> ci_base c + 2 <= m_rows (e_state st);
  wf_lb : forall l, In l (e_links st) -> li_index l + 1 <= m_rows (e_state st);
  wf_cc : forall c1 c2, In c1 (e_clocks st) -> In c2 (e_clocks st) -> ci_id c1 <> ci_id c2 ->
          sep (ci_base c1) 2 (ci_base c2) 2;
  wf_cl : forall c l, In c (e_clocks st) -> In l (e_links st) -> sep (ci_base c) 2 (li_index l) 1;
  wf_ll : forall l1 l2, In l1 (e_links st) -> In l2 (e_links st) -> li_id l1 <> li_id l2 ->
          li_index l1 <> li_index l2;
  wf_sum : 2 * length (e_clocks st) + length (e_links st) = m_rows (e_state st);
}.

Lemma WF_empty t : WF (empty F t).
Proof.
  constructor; cbn; try constructor; try tauto; try reflexivity; intros; contradiction.
Qed.

Lemma dims_ok_WF (st : est) : WF st -> dims_ok st = true.
Proof.
  intros [H1 H2 H3 H4 H5 _ _ _ _ _ _ _ _ _ _]. unfold dims_ok.
  rewrite H1, H2, H3, H4, H5, !Nat.eqb_refl. reflexivity.
Qed.

(* identifiers *)
Lemma is_internal_in (st : est) id :
  is_internal_clock st id = true <-> In id (map (@ci_id A) (e_clocks st)).
Proof.
  unfold is_internal_clock. rewrite existsb_exists, in_map_iff. split.
  - intros [c [H1 H2]]. exists c. apply Z.eqb_eq in H2. auto.
  - intros [c [H1 H2]]. exists c. split; auto. now apply Z.eqb_eq.
Qed.

Lemma is_external_in (st : est) id : is_external_clock st id = true <-> In id (e_ext st).
Proof.
  unfold is_external_clock. rewrite existsb_exists. split.
  - intros [c [H1 H2]]. apply Z.eqb_eq in H2. now subst.
  - intros H. exists id. split; auto. apply Z.eqb_refl.
Qed.

Lemma get_clock_info_some (st : est) id c :
  get_clock_info st id = Some c -> In c (e_clocks st) /\ ci_id c = id.
Proof. intros H. apply find_some in H. destruct H as [H1 H2]. apply Z.eqb_eq in H2. auto. Qed.

Lemma get_clock_info_none (st : est) id :
  get_clock_info st id = None <-> is_internal_clock st id = false.
Proof. apply find_none_existsb. Qed.

Lemma get_link_info_some (st : est) id l :
  get_link_info st id = Some l -> In l (e_links st) /\ li_id l = id.
Proof. intros H. apply find_some in H. destruct H as [H1 H2]. apply linkid_eqb_eq in H2. auto. Qed.

(* a clock found by identifier in a list with unique identifiers *)
Lemma find_clock_unique (l : list clock_info) c :
  NoDup (map (@ci_id A) l) -> In c l -> find (fun x => ci_id x =? ci_id c)%Z l = Some c.
Proof.
  induction l as [|a l IH]; intros Hn Hin; [contradiction|].
  cbn in *. inversion Hn; subst. destruct Hin as [->|Hin].
  - now rewrite Z.eqb_refl.
  - destruct (Z.eqb_spec (ci_id a) (ci_id c)) as [E|E]; auto.
    exfalso. apply H1. rewrite E. now apply in_map.
Qed.

Lemma find_link_unique (l : list link_info) x :
  NoDup (map (@li_id A) l) -> In x l -> find (fun y => linkid_eqb (li_id y) (li_id x)) l = Some x.
Proof.
  induction l as [|a l IH]; intros Hn Hin; [contradiction|].
  cbn in *. inversion Hn; subst. destruct Hin as [->|Hin].
  - now rewrite linkid_eqb_refl.
  - destruct (linkid_eqb (li_id a) (li_id x)) eqn:E; auto.
    apply linkid_eqb_eq in E. exfalso. apply H1. rewrite E. now apply in_map.
Qed.

(* ------------------------------------------------- entries under WF *)
Lemma entry_ok (st : est) i : WF st -> i < m_rows (e_state st) ->
  entry F st i = Ok (mget F (e_state st) i 0, fsqrt F (mget F (e_unc st) i i)).
Proof.
  intros W Hi. unfold entry, in_range.
  rewrite (wf_cols _ W), (wf_urows _ W), (wf_ucols _ W).
  natb; try lia. reflexivity.
Qed.

(* ---------------------------------------------------------- add_clock *)
Lemma extend_vec_ok (m : matrix) vals : m_cols m = 1 ->
  extend_vec F m vals = Ok (mnew_vec (m_rows m + length vals)
     (fun row => if row <? m_rows m then mget F m row 0 else nth (row - m_rows m) vals (f0 F))).
Proof. intros H. unfold extend_vec. rewrite H. reflexivity. Qed.

Lemma mget_extend_old (m : matrix) k blk i j : i < m_rows m -> j < m_cols m ->
  mget F (extend F m k blk) i j = mget F m i j.
Proof.
  intros Hi Hj. unfold extend. rewrite mget_mnew by lia. natb; try lia. reflexivity.
Qed.

Lemma mget_extend_new (m : matrix) k blk i j : i < k -> j < k ->
  mget F (extend F m k blk) (m_rows m + i) (m_cols m + j) = blk i j.
Proof.
  intros Hi Hj. unfold extend. rewrite mget_mnew by lia. natb; try lia. cbn [andb].
  f_equal; lia.
Qed.

Definition same_estimates_except_clock (st st' : est) (id : Z) : Prop :=
  (forall c, c <> id -> clock_offset F st' c = clock_offset F st c
                        /\ clock_frequency F st' c = clock_frequency F st c) /\
  (forall l, link_delay F st' l = link_delay F st l).

Definition same_estimates_except_link (st st' : est) (id : linkid) : Prop :=
  (forall c, clock_offset F st' c = clock_offset F st c
             /\ clock_frequency F st' c = clock_frequency F st c) /\
  (forall l, l <> id -> link_delay F st' l = link_delay F st l).

Definition same_estimates (st st' : est) : Prop :=
  (forall c, clock_offset F st' c = clock_offset F st c
             /\ clock_frequency F st' c = clock_frequency F st c) /\
  (forall l, link_delay F st' l = link_delay F st l).

Lemma add_clock_ok_iff (st : est) id ov ou fv fu w : WF st ->
  (exists st', add_clock F id ov ou fv fu w st = Ok st') <-> is_known_clock st id = false.
Proof.
  intros W. unfold add_clock, is_known_clock.
  rewrite (extend_vec_ok _ _ (wf_cols _ W)). cbn [res_bind].
  destruct (is_external_clock st id), (is_internal_clock st id); cbn;
    split; intros H; try discriminate; try (destruct H; discriminate); eauto.
Qed.

Lemma add_clock_err (st : est) id ov ou fv fu w : WF st -> is_known_clock st id = true ->
  add_clock F id ov ou fv fu w st = Err E_ClockAlreadyExists.
Proof.
  intros W. unfold add_clock, is_known_clock.
  destruct (is_external_clock st id), (is_internal_clock st id); cbn; auto; discriminate.
Qed.

Lemma add_clock_shape (st : est) id ov ou fv fu w st' : WF st ->
  add_clock F id ov ou fv fu w st = Ok st' ->
  is_known_clock st id = false /\
  st' = {| e_time := e_time st;
           e_state := mnew_vec (m_rows (e_state st) + 2)
              (fun row => if row <? m_rows (e_state st) then mget F (e_state st) row 0
                          else nth (row - m_rows (e_state st)) [ov; fv] (f0 F));
           e_unc := extend F (e_unc st) 2 (fun r c => match r, c with
                      | O, O => sq F ou | S O, S O => sq F fu | _, _ => f0 F end);
           e_clocks := e_clocks st ++ [{| ci_id := id; ci_base := m_rows (e_state st); ci_wander := w |}];
           e_ext := e_ext st; e_links := e_links st |}.
Proof.
  intros W H. unfold add_clock, is_known_clock in *.
  rewrite (extend_vec_ok _ _ (wf_cols _ W)) in H. cbn [res_bind length] in H.
  destruct (is_external_clock st id); [discriminate|].
  destruct (is_internal_clock st id); [discriminate|].
  inversion H. auto.
Qed.

Lemma WF_add_clock (st : est) id ov ou fv fu w st' : WF st ->
  add_clock F id ov ou fv fu w st = Ok st' -> WF st'.
Proof.
  intros W H. destruct (add_clock_shape _ _ _ _ _ _ _ _ W H) as [Hk ->].
  unfold is_known_clock in Hk. apply orb_false_iff in Hk. destruct Hk as [Hi He].
  assert (Hnin : ~ In id (map (@ci_id A) (e_clocks st))).
  { intros Hc. apply is_internal_in in Hc. congruence. }
  assert (Hnex : ~ In id (e_ext st)).
  { intros Hc. apply is_external_in in Hc. congruence. }
  set (n := m_rows (e_state st)).
  constructor; cbn [e_state e_unc e_clocks e_ext e_links m_rows m_cols m_data mnew_vec extend mnew].
  - reflexivity.
  - apply length_tab.
  - rewrite (wf_urows _ W). reflexivity.
  - rewrite (wf_ucols _ W). reflexivity.
  - rewrite length_tab, (wf_urows _ W), (wf_ucols _ W). reflexivity.
  - rewrite map_app. cbn. apply NoDup_app_one; [apply (wf_cids _ W)|exact Hnin].
  - apply (wf_lids _ W).
  - apply (wf_ext _ W).
  - intros x Hx Hc. rewrite map_app, in_app_iff in Hc. cbn in Hc.
    destruct Hc as [Hc|[Hc|[]]]; [eapply (wf_ext_int _ W); eauto|subst; auto].
  - intros c Hc. apply in_app_iff in Hc. destruct Hc as [Hc|[<-|[]]]; cbn.
    + pose proof (wf_cb _ W c Hc). fold n in H0. lia.
    + fold n. lia.
  - intros l Hl. pose proof (wf_lb _ W l Hl). fold n in H0. lia.
  - intros c1 c2 H1 H2 Hne. apply in_app_iff in H1. apply in_app_iff in H2. unfold sep.
    destruct H1 as [H1|[<-|[]]], H2 as [H2|[<-|[]]]; cbn in *.
    + apply (wf_cc _ W); auto.
    + pose proof (wf_cb _ W c1 H1). fold n in H0. lia.
    + pose proof (wf_cb _ W c2 H2). fold n in H0. lia.
    + congruence.
  - intros c l H1 Hl. apply in_app_iff in H1. unfold sep. destruct H1 as [H1|[<-|[]]]; cbn.
    + apply (wf_cl _ W); auto.
    + pose proof (wf_lb _ W l Hl). fold n in H0. lia.
  - apply (wf_ll _ W).
  - rewrite app_length. cbn. pose proof (wf_sum _ W). fold n in H0. lia.
Qed.

(* entries below the old dimension are untouched by an extension *)
Lemma entry_extended (st st' : est) : WF st -> WF st' ->
  m_rows (e_state st) <= m_rows (e_state st') ->
  (forall i, i < m_rows (e_state st) -> mget F (e_state st') i 0 = mget F (e_state st) i 0) ->
  (forall i, i < m_rows (e_state st) -> mget F (e_unc st') i i = mget F (e_unc st) i i) ->
  forall i, i < m_rows (e_state st) -> entry F st' i = entry F st i.
Proof.
  intros W W' Hle Hs Hu i Hi. rewrite (entry_ok st' i W') by lia. rewrite (entry_ok st i W Hi).
  now rewrite Hs, Hu.
Qed.

Lemma add_clock_preserves (st : est) id ov ou fv fu w st' : WF st ->
  add_clock F id ov ou fv fu w st = Ok st' ->
  same_estimates_except_clock st st' id /\ e_time st' = e_time st /\ e_ext st' = e_ext st /\
  clock_offset F st' id = Ok (ov, fsqrt F (sq F ou)) /\
  clock_frequency F st' id = Ok (fv, fsqrt F (sq F fu)).
Proof.
  intros W H. pose proof (WF_add_clock _ _ _ _ _ _ _ _ W H) as W'.
  destruct (add_clock_shape _ _ _ _ _ _ _ _ W H) as [Hk E].
  unfold is_known_clock in Hk. apply orb_false_iff in Hk. destruct Hk as [Hi He].
  set (n := m_rows (e_state st)) in *.
  assert (Hent : forall i, i < n -> entry F st' i = entry F st i).
  { apply entry_extended; auto.
    - subst st'. cbn. fold n. lia.
    - intros i Hi'. subst st'. cbn [e_state]. rewrite mget_mnew_vec by (fold n; lia).
      fold n. natb; try lia. reflexivity.
    - intros i Hi'. subst st'. cbn [e_unc]. apply mget_extend_old.
      + rewrite (wf_urows _ W). exact Hi'.
      + rewrite (wf_ucols _ W). exact Hi'. }
  assert (Hg : forall c, c <> id -> get_clock_info st' c = get_clock_info st c).
  { intros c Hc. subst st'. unfold get_clock_info. cbn [e_clocks]. rewrite find_app.
    destruct (find _ (e_clocks st)); auto. cbn.
    destruct (Z.eqb_spec id c); [congruence|reflexivity]. }
  assert (Hnew : get_clock_info st' id =
                 Some {| ci_id := id; ci_base := n; ci_wander := w |}).
  { subst st'. unfold get_clock_info. cbn [e_clocks]. rewrite find_app.
    apply get_clock_info_none in Hi. unfold get_clock_info in Hi. rewrite Hi. cbn.
    now rewrite Z.eqb_refl. }
  split; [split|].
  - intros c Hc. unfold clock_offset, clock_frequency. rewrite (Hg c Hc).
    destruct (get_clock_info st c) as [ci|] eqn:Hci; auto.
    apply get_clock_info_some in Hci. destruct Hci as [Hin _].
    pose proof (wf_cb _ W ci Hin). fold n in H0.
    unfold offset_index, frequency_index. split; apply Hent; lia.
  - intros l. unfold link_delay.
    replace (get_link_info st' l) with (get_link_info st l) by (subst st'; reflexivity).
    destruct (get_link_info st l) as [li|] eqn:Hli; auto.
    apply get_link_info_some in Hli. destruct Hli as [Hin _].
    pose proof (wf_lb _ W li Hin). fold n in H0. apply Hent. lia.
  - split; [subst st'; reflexivity|]. split; [subst st'; reflexivity|].
    assert (Hr : m_rows (e_state st') = n + 2) by (subst st'; reflexivity).
    unfold clock_offset, clock_frequency. rewrite Hnew.
    unfold offset_index, frequency_index. cbn [ci_base].
    rewrite !(entry_ok st' _ W') by lia.
    subst st'. cbn [e_state e_unc].
    rewrite !mget_mnew_vec by (fold n; lia). fold n.
    replace (n <? n) with false by (symmetry; apply Nat.ltb_ge; lia).
    replace (n + 1 <? n) with false by (symmetry; apply Nat.ltb_ge; lia).
    replace (n - n) with 0 by lia. replace (n + 1 - n) with 1 by lia. cbn [nth].
    pose proof (mget_extend_new (e_unc st) 2
      (fun r c => match r, c with | O, O => sq F ou | S O, S O => sq F fu | _, _ => f0 F end)) as Hx.
    rewrite (wf_urows _ W), (wf_ucols _ W) in Hx. fold n in Hx.
    pose proof (Hx 0 0 ltac:(lia) ltac:(lia)) as H00. rewrite Nat.add_0_r in H00.
    pose proof (Hx 1 1 ltac:(lia) ltac:(lia)) as H11.
    rewrite H00, H11. split; reflexivity.
Qed.

(* ---------------------------------------------------------- add_link *)
Lemma add_link_shape (st : est) id dv du dc st' : WF st ->
  add_link F id dv du dc st = Ok st' ->
  is_known_clock st (link_first id) = true /\ is_known_clock st (link_second id) = true /\
  existsb (fun l => linkid_eqb (li_id l) id) (e_links st) = false /\
  st' = {| e_time := e_time st;
           e_state := mnew_vec (m_rows (e_state st) + 1)
              (fun row => if row <? m_rows (e_state st) then mget F (e_state st) row 0
                          else nth (row - m_rows (e_state st)) [dv] (f0 F));
           e_unc := extend F (e_unc st) 1 (fun _ _ => sq F du);
           e_clocks := e_clocks st; e_ext := e_ext st;
           e_links := e_links st ++ [{| li_id := id; li_index := m_rows (e_state st); li_decay := dc |}] |}.
Proof.
  intros W H. unfold add_link in H.
  rewrite (extend_vec_ok _ _ (wf_cols _ W)) in H. cbn [res_bind length] in H.
  destruct (is_known_clock st (link_first id)); [|discriminate].
  destruct (is_known_clock st (link_second id)); [|discriminate].
  destruct (existsb _ (e_links st)); [discriminate|].
  cbn in H. inversion H. auto.
Qed.

Lemma add_link_ok_iff (st : est) id dv du dc : WF st ->
  (exists st', add_link F id dv du dc st = Ok st') <->
  (is_known_clock st (link_first id) = true /\ is_known_clock st (link_second id) = true /\
   existsb (fun l => linkid_eqb (li_id l) id) (e_links st) = false).
Proof.
  intros W. split.
  - intros [st' H]. destruct (add_link_shape _ _ _ _ _ _ W H) as (H1 & H2 & H3 & _). auto.
  - intros (H1 & H2 & H3). unfold add_link.
    rewrite (extend_vec_ok _ _ (wf_cols _ W)), H1, H2, H3. cbn. eauto.
Qed.

Lemma link_not_in (st : est) id :
  existsb (fun l => linkid_eqb (li_id l) id) (e_links st) = false ->
  ~ In id (map (@li_id A) (e_links st)).
Proof.
  intros H Hin. apply in_map_iff in Hin. destruct Hin as [l [H1 H2]].
  assert (existsb (fun l => linkid_eqb (li_id l) id) (e_links st) = true).
  { apply existsb_exists. exists l. split; auto. apply linkid_eqb_eq. auto. }
  congruence.
Qed.

Lemma WF_add_link (st : est) id dv du dc st' : WF st ->
  add_link F id dv du dc st = Ok st' -> WF st'.
Proof.
  intros W H. destruct (add_link_shape _ _ _ _ _ _ W H) as (_ & _ & Hd & ->).
  apply link_not_in in Hd.
  set (n := m_rows (e_state st)).
  constructor; cbn [e_state e_unc e_clocks e_ext e_links m_rows m_cols m_data mnew_vec extend mnew].
  - reflexivity.
  - apply length_tab.
  - rewrite (wf_urows _ W). reflexivity.
  - rewrite (wf_ucols _ W). reflexivity.
  - rewrite length_tab, (wf_urows _ W), (wf_ucols _ W). reflexivity.
  - apply (wf_cids _ W).
  - rewrite map_app. cbn. apply NoDup_app_one; [apply (wf_lids _ W)|exact Hd].
  - apply (wf_ext _ W).
  - apply (wf_ext_int _ W).
  - intros c Hc. pose proof (wf_cb _ W c Hc). fold n in H0. lia.
  - intros l Hl. apply in_app_iff in Hl. destruct Hl as [Hl|[<-|[]]]; cbn.
    + pose proof (wf_lb _ W l Hl). fold n in H0. lia.
    + fold n. lia.
  - apply (wf_cc _ W).
  - intros c l Hc Hl. apply in_app_iff in Hl. unfold sep. destruct Hl as [Hl|[<-|[]]]; cbn.
    + apply (wf_cl _ W); auto.
    + pose proof (wf_cb _ W c Hc). fold n in H0. lia.
  - intros l1 l2 H1 H2 Hne. apply in_app_iff in H1. apply in_app_iff in H2.
    destruct H1 as [H1|[<-|[]]], H2 as [H2|[<-|[]]]; cbn in *.
    + apply (wf_ll _ W); auto.
    + pose proof (wf_lb _ W l1 H1). fold n in H0. lia.
    + pose proof (wf_lb _ W l2 H2). fold n in H0. lia.
    + congruence.
  - rewrite app_length. cbn. pose proof (wf_sum _ W). fold n in H0. lia.
Qed.

Lemma add_link_preserves (st : est) id dv du dc st' : WF st ->
  add_link F id dv du dc st = Ok st' ->
  same_estimates_except_link st st' id /\ e_time st' = e_time st /\ e_ext st' = e_ext st /\
  link_delay F st' id = Ok (dv, fsqrt F (sq F du)).
Proof.
  intros W H. pose proof (WF_add_link _ _ _ _ _ _ W H) as W'.
  destruct (add_link_shape _ _ _ _ _ _ W H) as (_ & _ & Hd & E).
  set (n := m_rows (e_state st)) in *.
  assert (Hent : forall i, i < n -> entry F st' i = entry F st i).
  { apply entry_extended; auto.
    - subst st'. cbn. fold n. lia.
    - intros i Hi'. subst st'. cbn [e_state]. rewrite mget_mnew_vec by (fold n; lia).
      fold n. natb; try lia. reflexivity.
    - intros i Hi'. subst st'. cbn [e_unc]. apply mget_extend_old.
      + rewrite (wf_urows _ W). exact Hi'.
      + rewrite (wf_ucols _ W). exact Hi'. }
  assert (Hg : forall l, l <> id -> get_link_info st' l = get_link_info st l).
  { intros l Hl. subst st'. unfold get_link_info. cbn [e_links]. rewrite find_app.
    destruct (find _ (e_links st)); auto. cbn. rewrite linkid_eqb_neq; auto. }
  assert (Hnew : get_link_info st' id =
                 Some {| li_id := id; li_index := n; li_decay := dc |}).
  { subst st'. unfold get_link_info. cbn [e_links]. rewrite find_app.
    apply find_none_existsb in Hd. rewrite Hd. cbn. now rewrite linkid_eqb_refl. }
  split; [split|].
  - intros c. unfold clock_offset, clock_frequency.
    replace (get_clock_info st' c) with (get_clock_info st c) by (subst st'; reflexivity).
    destruct (get_clock_info st c) as [ci|] eqn:Hci; auto.
    apply get_clock_info_some in Hci. destruct Hci as [Hin _].
    pose proof (wf_cb _ W ci Hin). fold n in H0.
    unfold offset_index, frequency_index. split; apply Hent; lia.
  - intros l Hl. unfold link_delay. rewrite (Hg l Hl).
    destruct (get_link_info st l) as [li|] eqn:Hli; auto.
    apply get_link_info_some in Hli. destruct Hli as [Hin _].
    pose proof (wf_lb _ W li Hin). fold n in H0. apply Hent. lia.
  - split; [subst st'; reflexivity|]. split; [subst st'; reflexivity|].
    assert (Hr : m_rows (e_state st') = n + 1) by (subst st'; reflexivity).
    unfold link_delay. rewrite Hnew. cbn [li_index].
    rewrite !(entry_ok st' _ W') by lia.
    subst st'. cbn [e_state e_unc].
    rewrite !mget_mnew_vec by (fold n; lia). fold n.
    replace (n <? n) with false by (symmetry; apply Nat.ltb_ge; lia).
    replace (n - n) with 0 by lia. cbn [nth].
    pose proof (mget_extend_new (e_unc st) 1 (fun _ _ => sq F du)) as Hx.
    rewrite (wf_urows _ W), (wf_ucols _ W) in Hx. fold n in Hx.
    pose proof (Hx 0 0 ltac:(lia) ltac:(lia)) as H00. rewrite Nat.add_0_r in H00.
    rewrite H00. reflexivity.
Qed.

(* ------------------------------------------------- external clocks *)
Lemma add_external_shape (st : est) id st' :
  add_external_clock id st = Ok st' ->
  is_known_clock st id = false /\
  st' = {| e_time := e_time st; e_state := e_state st; e_unc := e_unc st;
           e_clocks := e_clocks st; e_ext := e_ext st ++ [id]; e_links := e_links st |}.
Proof.
  unfold add_external_clock, is_known_clock.
  destruct (is_internal_clock st id), (is_external_clock st id); intros H; try discriminate.
  inversion H. auto.
Qed.

Lemma add_external_ok_iff (st : est) id :
  (exists st', add_external_clock id st = Ok st') <-> is_known_clock st id = false.
Proof.
  unfold add_external_clock, is_known_clock.
  destruct (is_internal_clock st id), (is_external_clock st id); cbn; split; intros H;
    try discriminate; try (destruct H; discriminate); eauto.
Qed.

Lemma WF_add_external (st : est) id st' : WF st -> add_external_clock id st = Ok st' -> WF st'.
Proof.
  intros W H. destruct (add_external_shape _ _ _ H) as [Hk ->].
  unfold is_known_clock in Hk. apply orb_false_iff in Hk. destruct Hk as [Hi He].
  destruct W. constructor; cbn; auto.
  - apply NoDup_app_one; auto. intros Hc. apply is_external_in in Hc. congruence.
  - intros x Hx. apply in_app_iff in Hx. destruct Hx as [Hx|[<-|[]]]; auto.
    intros Hc. apply is_internal_in in Hc. congruence.
Qed.

Lemma add_external_preserves (st : est) id st' :
  add_external_clock id st = Ok st' ->
  same_estimates st st' /\ e_time st' = e_time st /\
  e_state st' = e_state st /\ e_unc st' = e_unc st.
Proof.
  intros H. destruct (add_external_shape _ _ _ H) as [_ ->].
  unfold same_estimates. repeat split; reflexivity.
Qed.

Lemma remove_external_shape (st : est) id st' :
  remove_external_clock id st = Ok st' ->
  exists x ext', remove_first (Z.eqb id) (e_ext st) = Some (x, ext') /\
  st' = {| e_time := e_time st; e_state := e_state st; e_unc := e_unc st;
           e_clocks := e_clocks st; e_ext := ext'; e_links := e_links st |}.
Proof.
  unfold remove_external_clock. destruct (remove_first _ _) as [[x ext']|]; intros H; [|discriminate].
  inversion H. eauto.
Qed.

Lemma remove_external_ok_iff (st : est) id :
  (exists st', remove_external_clock id st = Ok st') <-> is_external_clock st id = true.
Proof.
  unfold remove_external_clock, is_external_clock.
  destruct (remove_first (Z.eqb id) (e_ext st)) as [[x ext']|] eqn:E.
  - split; eauto. intros _. destruct (existsb (Z.eqb id) (e_ext st)) eqn:E2; auto.
    apply remove_first_none in E2. congruence.
  - apply remove_first_none in E. rewrite E. split; [intros [? ?]|]; discriminate.
Qed.

Lemma WF_remove_external (st : est) id st' : WF st -> remove_external_clock id st = Ok st' -> WF st'.
Proof.
  intros W H. destruct (remove_external_shape _ _ _ H) as (x & ext' & Hr & ->).
  destruct (remove_first_some _ _ _ _ Hr) as (_ & _ & Hsub & _).
  destruct (remove_first_nodup _ (fun z : Z => z) _ _ _ Hr) as [Hn _].
  { rewrite map_id. apply (wf_ext _ W). }
  rewrite map_id in Hn.
  destruct W. constructor; cbn; auto.
Qed.

Lemma remove_external_preserves (st : est) id st' :
  remove_external_clock id st = Ok st' ->
  same_estimates st st' /\ e_time st' = e_time st /\
  e_state st' = e_state st /\ e_unc st' = e_unc st.
Proof.
  intros H. destruct (remove_external_shape _ _ _ H) as (x & ext' & _ & ->).
  unfold same_estimates. repeat split; reflexivity.
Qed.

(* ---------------------------------------------------------- removals *)
(* the state after removing the block of k rows starting at b, keeping the
   clocks rc and the links rl *)
Definition removed_state (st : est) (b k : nat) (rc : list clock_info) (rl : list link_info) : est :=
  {| e_time := e_time st;
     e_state := mnew_vec (m_rows (e_state st) - k)
        (fun row => if row <? b then mget F (e_state st) row 0 else mget F (e_state st) (row + k) 0);
     e_unc := mnew (m_rows (e_unc st) - k) (m_cols (e_unc st) - k)
        (fun row col =>
           let row' := if row <? b then row else row + k in
           let col' := if col <? b then col else col + k in
           mget F (e_unc st) row' col');
     e_clocks := map (upd_clock b k) rc; e_ext := e_ext st; e_links := map (upd_link b k) rl |}.

Lemma map_ci_id_upd b k (l : list clock_info) :
  map (@ci_id A) (map (upd_clock b k) l) = map (@ci_id A) l.
Proof. rewrite map_map. reflexivity. Qed.

Lemma map_li_id_upd b k (l : list link_info) :
  map (@li_id A) (map (upd_link b k) l) = map (@li_id A) l.
Proof. rewrite map_map. reflexivity. Qed.

Section Removed.
Variables (st : est) (b k : nat) (rc : list clock_info) (rl : list link_info).
Hypothesis W : WF st.
Hypothesis Hk : 1 <= k.
Hypothesis Hb : b + k <= m_rows (e_state st).
Hypothesis Hrc : forall c, In c rc -> In c (e_clocks st).
Hypothesis Hrl : forall l, In l rl -> In l (e_links st).
Hypothesis Hnc : NoDup (map (@ci_id A) rc).
Hypothesis Hnl : NoDup (map (@li_id A) rl).
Hypothesis Hsc : forall c, In c rc -> sep (ci_base c) 2 b k.
Hypothesis Hsl : forall l, In l rl -> sep (li_index l) 1 b k.
Hypothesis Hsum : 2 * length rc + length rl + k = m_rows (e_state st).

Lemma WF_removed : WF (removed_state st b k rc rl).
Proof.
  set (n := m_rows (e_state st)) in *.
  constructor; cbn [removed_state e_state e_unc e_clocks e_ext e_links m_rows m_cols m_data mnew_vec mnew].
  - reflexivity.
  - apply length_tab.
  - now rewrite (wf_urows _ W).
  - now rewrite (wf_ucols _ W).
  - rewrite length_tab, (wf_urows _ W), (wf_ucols _ W). reflexivity.
  - now rewrite map_ci_id_upd.
  - now rewrite map_li_id_upd.
  - apply (wf_ext _ W).
  - intros id Hid. rewrite map_ci_id_upd. intros Hc. apply (wf_ext_int _ W id Hid).
    apply in_map_iff in Hc. destruct Hc as [c [H1 H2]]. apply in_map_iff. exists c. auto.
  - intros c' Hc. apply in_map_iff in Hc. destruct Hc as [c [<- Hc]].
    pose proof (Hsc c Hc) as Hs. pose proof (wf_cb _ W c (Hrc c Hc)) as Hbd. fold n in Hbd.
    unfold sep in Hs. cbn. unfold upd_idx. natb; lia.
  - intros l' Hl. apply in_map_iff in Hl. destruct Hl as [l [<- Hl]].
    pose proof (Hsl l Hl) as Hs. pose proof (wf_lb _ W l (Hrl l Hl)) as Hbd. fold n in Hbd.
    unfold sep in Hs. cbn. unfold upd_idx. natb; lia.
  - intros c1' c2' H1 H2 Hne.
    apply in_map_iff in H1. destruct H1 as [c1 [<- H1]].
    apply in_map_iff in H2. destruct H2 as [c2 [<- H2]]. cbn in Hne.
    pose proof (wf_cc _ W c1 c2 (Hrc _ H1) (Hrc _ H2) Hne) as Hs.
    pose proof (Hsc _ H1) as Hs1. pose proof (Hsc _ H2) as Hs2.
    unfold sep in *. cbn. unfold upd_idx. natb; lia.
  - intros c' l' H1 H2.
    apply in_map_iff in H1. destruct H1 as [c [<- H1]].
    apply in_map_iff in H2. destruct H2 as [l [<- H2]].
    pose proof (wf_cl _ W c l (Hrc _ H1) (Hrl _ H2)) as Hs.
    pose proof (Hsc _ H1) as Hs1. pose proof (Hsl _ H2) as Hs2.
    unfold sep in *. cbn. unfold upd_idx. natb; lia.
  - intros l1' l2' H1 H2 Hne.
    apply in_map_iff in H1. destruct H1 as [l1 [<- H1]].
    apply in_map_iff in H2. destruct H2 as [l2 [<- H2]]. cbn in Hne.
    pose proof (wf_ll _ W l1 l2 (Hrl _ H1) (Hrl _ H2) Hne) as Hs.
    pose proof (Hsl _ H1) as Hs1. pose proof (Hsl _ H2) as Hs2.
    unfold sep in *. cbn. unfold upd_idx. natb; lia.
  - rewrite !map_length. lia.
Qed.

(* a surviving row i moves to upd_idx b k i and keeps its value and variance *)
Lemma entry_removed i : i < m_rows (e_state st) -> (i < b \/ b + k <= i) ->
  entry F (removed_state st b k rc rl) (upd_idx b k i) = entry F st i.
Proof.
  intros Hi Hcase. set (n := m_rows (e_state st)) in *.
  assert (Hi' : upd_idx b k i < n - k) by (unfold upd_idx; natb; lia).
  rewrite (entry_ok _ _ WF_removed) by (cbn; fold n; exact Hi').
  rewrite (entry_ok _ _ W) by exact Hi.
  cbn [removed_state e_state e_unc].
  rewrite mget_mnew_vec by (fold n; exact Hi').
  rewrite mget_mnew by (rewrite ?(wf_urows _ W), ?(wf_ucols _ W); fold n; exact Hi').
  cbv zeta. unfold upd_idx. natb; try lia;
    repeat match goal with |- context [ ?x - k + k ] => replace (x - k + k) with x by lia end;
    reflexivity.
Qed.
End Removed.

Lemma splice_vec_ok (m : matrix) s len : m_cols m = 1 -> s + len <= m_rows m ->
  splice_vec F m s len = Ok (mnew_vec (m_rows m - len)
     (fun row => if row <? s then mget F m row 0 else mget F m (row + len) 0)).
Proof.
  intros H1 H2. unfold splice_vec. rewrite H1.
  replace (m_rows m <? s + len) with false by (symmetry; apply Nat.ltb_ge; lia). reflexivity.
Qed.

Lemma splice_square_ok (m : matrix) s len : m_rows m = m_cols m -> s + len <= m_rows m ->
  splice_square F m s len = Ok (mnew (m_rows m - len) (m_cols m - len)
     (fun row col =>
        let row' := if row <? s then row else row + len in
        let col' := if col <? s then col else col + len in
        mget F m row' col')).
Proof.
  intros H1 H2. unfold splice_square. rewrite H1, Nat.eqb_refl.
  replace (m_cols m <? s + len) with false by (symmetry; apply Nat.ltb_ge; lia). reflexivity.
Qed.

Lemma remove_clock_shape (st : est) id st' : WF st -> remove_clock F id st = Ok st' ->
  exists removed rest,
    remove_first (fun c => ci_id c =? id)%Z (e_clocks st) = Some (removed, rest) /\
    st' = removed_state st (ci_base removed) 2 rest (e_links st).
Proof.
  intros W H. unfold remove_clock in H.
  destruct (remove_first _ (e_clocks st)) as [[removed rest]|] eqn:Hr; [|discriminate].
  destruct (remove_first_some _ _ _ _ Hr) as (_ & Hin & _).
  pose proof (wf_cb _ W _ Hin) as Hbd.
  unfold CLOCK_SIZE in H.
  rewrite (splice_vec_ok _ _ _ (wf_cols _ W) Hbd) in H.
  rewrite splice_square_ok in H by (rewrite ?(wf_urows _ W), ?(wf_ucols _ W); auto).
  cbn [res_bind] in H. inversion H. exists removed, rest. split; auto.
Qed.

Lemma remove_clock_ok_iff (st : est) id : WF st ->
  (exists st', remove_clock F id st = Ok st') <-> is_internal_clock st id = true.
Proof.
  intros W. unfold remove_clock, is_internal_clock.
  destruct (remove_first _ (e_clocks st)) as [[removed rest]|] eqn:Hr.
  - destruct (remove_first_some _ _ _ _ Hr) as (_ & Hin & _).
    pose proof (wf_cb _ W _ Hin) as Hbd. unfold CLOCK_SIZE.
    rewrite (splice_vec_ok _ _ _ (wf_cols _ W) Hbd).
    rewrite splice_square_ok by (rewrite ?(wf_urows _ W), ?(wf_ucols _ W); auto).
    cbn [res_bind]. split; eauto. intros _.
    destruct (existsb _ (e_clocks st)) eqn:E2; auto. apply remove_first_none in E2. congruence.
  - apply remove_first_none in Hr. rewrite Hr. split; [intros [? ?]|]; discriminate.
Qed.

Lemma remove_clock_facts (st : est) id removed rest : WF st ->
  remove_first (fun c => ci_id c =? id)%Z (e_clocks st) = Some (removed, rest) ->
  ci_id removed = id /\ In removed (e_clocks st) /\
  (forall c, In c rest -> In c (e_clocks st)) /\
  NoDup (map (@ci_id A) rest) /\
  (forall c, In c rest -> ci_id c <> id) /\
  length (e_clocks st) = S (length rest) /\
  (forall c, In c (e_clocks st) -> c = removed \/ In c rest).
Proof.
  intros W Hr.
  destruct (remove_first_some _ _ _ _ Hr) as (Hp & Hin & Hsub & Hlen & _ & Hcases).
  destruct (remove_first_nodup _ (@ci_id A) _ _ _ Hr (wf_cids _ W)) as [Hn Hne].
  apply Z.eqb_eq in Hp. subst id. repeat split; auto.
Qed.

Lemma WF_remove_clock (st : est) id st' : WF st -> remove_clock F id st = Ok st' -> WF st'.
Proof.
  intros W H. destruct (remove_clock_shape _ _ _ W H) as (removed & rest & Hr & ->).
  destruct (remove_clock_facts _ _ _ _ W Hr) as (Hid & Hin & Hsub & Hn & Hne & Hlen & _).
  apply WF_removed; auto.
  - apply (wf_cb _ W _ Hin).
  - apply (wf_lids _ W).
  - intros c Hc. apply (wf_cc _ W); auto. rewrite Hid. now apply Hne.
  - intros l Hl. pose proof (wf_cl _ W removed l Hin Hl) as Hs. unfold sep in *. lia.
  - pose proof (wf_sum _ W). lia.
Qed.

Lemma remove_clock_preserves (st : est) id st' : WF st -> remove_clock F id st = Ok st' ->
  same_estimates_except_clock st st' id /\ e_time st' = e_time st /\ e_ext st' = e_ext st /\
  clock_offset F st' id = Err E_UnknownClock /\ clock_frequency F st' id = Err E_UnknownClock.
Proof.
  intros W H. destruct (remove_clock_shape _ _ _ W H) as (removed & rest & Hr & E).
  destruct (remove_clock_facts _ _ _ _ W Hr) as (Hid & Hin & Hsub & Hn & Hne & Hlen & Hcases).
  destruct (remove_first_some _ _ _ _ Hr) as (_ & _ & _ & _ & Hfind & _).
  set (b := ci_base removed) in *.
  pose proof (wf_cb _ W _ Hin) as Hbd. fold b in Hbd.
  assert (Hent : forall i, i < m_rows (e_state st) -> (i < b \/ b + 2 <= i) ->
                 entry F st' (upd_idx b 2 i) = entry F st i).
  { subst st'. apply entry_removed; auto.
    - apply (wf_lids _ W).
    - intros c Hc. apply (wf_cc _ W); auto. rewrite Hid. now apply Hne.
    - intros l Hl. pose proof (wf_cl _ W removed l Hin Hl) as Hs. unfold sep in *. fold b in Hs. lia.
    - pose proof (wf_sum _ W). lia. }
  assert (Hg : forall c, c <> id ->
               get_clock_info st' c = option_map (upd_clock b 2) (get_clock_info st c)).
  { intros c Hc. subst st'. unfold get_clock_info. cbn [removed_state e_clocks].
    rewrite find_map_key by reflexivity. f_equal. apply Hfind.
    rewrite Hid. apply Z.eqb_neq. congruence. }
  split; [split|].
  - intros c Hc. unfold clock_offset, clock_frequency. rewrite (Hg c Hc).
    destruct (get_clock_info st c) as [ci|] eqn:Hci; cbn [option_map]; auto.
    apply get_clock_info_some in Hci. destruct Hci as [Hcin Hcid].
    pose proof (wf_cb _ W ci Hcin) as Hcb.
    assert (Hs : sep (ci_base ci) 2 b 2).
    { apply (wf_cc _ W); auto. congruence. }
    unfold offset_index, frequency_index, upd_clock. cbn [ci_base]. unfold sep in Hs.
    split.
    + apply Hent; lia.
    + replace (upd_idx b 2 (ci_base ci) + 1) with (upd_idx b 2 (ci_base ci + 1))
        by (unfold upd_idx; natb; lia).
      apply Hent; lia.
  - intros l. unfold link_delay.
    assert (Hgl : get_link_info st' l = option_map (upd_link b 2) (get_link_info st l)).
    { subst st'. unfold get_link_info. cbn [removed_state e_links].
      now rewrite find_map_key by reflexivity. }
    rewrite Hgl. destruct (get_link_info st l) as [li|] eqn:Hli; cbn [option_map]; auto.
    apply get_link_info_some in Hli. destruct Hli as [Hlin _].
    pose proof (wf_lb _ W li Hlin) as Hlb.
    pose proof (wf_cl _ W removed li Hin Hlin) as Hs. fold b in Hs. unfold sep in Hs.
    unfold upd_link. cbn [li_index]. apply Hent; lia.
  - split; [subst st'; reflexivity|]. split; [subst st'; reflexivity|].
    assert (Hnone : get_clock_info st' id = None).
    { subst st'. unfold get_clock_info. cbn [removed_state e_clocks].
      rewrite find_map_key by reflexivity.
      destruct (find _ rest) as [c|] eqn:Hf; auto.
      apply find_some in Hf. destruct Hf as [Hc1 Hc2]. apply Z.eqb_eq in Hc2.
      exfalso. eapply Hne; eauto. }
    unfold clock_offset, clock_frequency. rewrite Hnone. auto.
Qed.

Lemma remove_link_shape (st : est) id st' : WF st -> remove_link F id st = Ok st' ->
  exists removed rest,
    remove_first (fun l => linkid_eqb (li_id l) id) (e_links st) = Some (removed, rest) /\
    st' = removed_state st (li_index removed) 1 (e_clocks st) rest.
Proof.
  intros W H. unfold remove_link in H.
  destruct (remove_first _ (e_links st)) as [[removed rest]|] eqn:Hr; [|discriminate].
  destruct (remove_first_some _ _ _ _ Hr) as (_ & Hin & _).
  pose proof (wf_lb _ W _ Hin) as Hbd.
  unfold LINK_SIZE in H.
  rewrite (splice_vec_ok _ _ _ (wf_cols _ W) Hbd) in H.
  rewrite splice_square_ok in H by (rewrite ?(wf_urows _ W), ?(wf_ucols _ W); auto).
  cbn [res_bind] in H. inversion H. exists removed, rest. split; auto.
Qed.

Lemma remove_link_ok_iff (st : est) id : WF st ->
  (exists st', remove_link F id st = Ok st') <->
  existsb (fun l => linkid_eqb (li_id l) id) (e_links st) = true.
Proof.
  intros W. unfold remove_link.
  destruct (remove_first _ (e_links st)) as [[removed rest]|] eqn:Hr.
  - destruct (remove_first_some _ _ _ _ Hr) as (_ & Hin & _).
    pose proof (wf_lb _ W _ Hin) as Hbd. unfold LINK_SIZE.
    rewrite (splice_vec_ok _ _ _ (wf_cols _ W) Hbd).
    rewrite splice_square_ok by (rewrite ?(wf_urows _ W), ?(wf_ucols _ W); auto).
    cbn [res_bind]. split; eauto. intros _.
    destruct (existsb _ (e_links st)) eqn:E2; auto. apply remove_first_none in E2. congruence.
  - apply remove_first_none in Hr. rewrite Hr. split; [intros [? ?]|]; discriminate.
Qed.

Lemma remove_link_facts (st : est) id removed rest : WF st ->
  remove_first (fun l => linkid_eqb (li_id l) id) (e_links st) = Some (removed, rest) ->
  li_id removed = id /\ In removed (e_links st) /\
  (forall l, In l rest -> In l (e_links st)) /\
  NoDup (map (@li_id A) rest) /\
  (forall l, In l rest -> li_id l <> id) /\
  length (e_links st) = S (length rest).
Proof.
  intros W Hr.
  destruct (remove_first_some _ _ _ _ Hr) as (Hp & Hin & Hsub & Hlen & _ & _).
  destruct (remove_first_nodup _ (@li_id A) _ _ _ Hr (wf_lids _ W)) as [Hn Hne].
  apply linkid_eqb_eq in Hp. subst id. repeat split; auto.
Qed.

Lemma WF_remove_link (st : est) id st' : WF st -> remove_link F id st = Ok st' -> WF st'.
Proof.
  intros W H. destruct (remove_link_shape _ _ _ W H) as (removed & rest & Hr & ->).
  destruct (remove_link_facts _ _ _ _ W Hr) as (Hid & Hin & Hsub & Hn & Hne & Hlen).
  apply WF_removed; auto.
  - apply (wf_lb _ W _ Hin).
  - apply (wf_cids _ W).
  - intros c Hc. apply (wf_cl _ W); auto.
  - intros l Hl. assert (Hx : li_index l <> li_index removed).
    { apply (wf_ll _ W); auto. rewrite Hid. now apply Hne. }
    unfold sep. lia.
  - pose proof (wf_sum _ W). lia.
Qed.

Lemma remove_link_preserves (st : est) id st' : WF st -> remove_link F id st = Ok st' ->
  same_estimates_except_link st st' id /\ e_time st' = e_time st /\ e_ext st' = e_ext st /\
  link_delay F st' id = Err E_UnknownLink.
Proof.
  intros W H. destruct (remove_link_shape _ _ _ W H) as (removed & rest & Hr & E).
  destruct (remove_link_facts _ _ _ _ W Hr) as (Hid & Hin & Hsub & Hn & Hne & Hlen).
  destruct (remove_first_some _ _ _ _ Hr) as (_ & _ & _ & _ & Hfind & _).
  set (b := li_index removed) in *.
  pose proof (wf_lb _ W _ Hin) as Hbd. fold b in Hbd.
  assert (Hent : forall i, i < m_rows (e_state st) -> (i < b \/ b + 1 <= i) ->
                 entry F st' (upd_idx b 1 i) = entry F st i).
  { subst st'. apply entry_removed; auto.
    - apply (wf_cids _ W).
    - intros c Hc. apply (wf_cl _ W); auto.
    - intros l Hl. assert (Hx : li_index l <> li_index removed).
      { apply (wf_ll _ W); auto. rewrite Hid. now apply Hne. }
      unfold sep. fold b in Hx. lia.
    - pose proof (wf_sum _ W). lia. }
  split; [split|].
  - intros c. unfold clock_offset, clock_frequency.
    assert (Hg : get_clock_info st' c = option_map (upd_clock b 1) (get_clock_info st c)).
    { subst st'. unfold get_clock_info. cbn [removed_state e_clocks].
      now rewrite find_map_key by reflexivity. }
    rewrite Hg. destruct (get_clock_info st c) as [ci|] eqn:Hci; cbn [option_map]; auto.
    apply get_clock_info_some in Hci. destruct Hci as [Hcin Hcid].
    pose proof (wf_cb _ W ci Hcin) as Hcb.
    pose proof (wf_cl _ W ci removed Hcin Hin) as Hs. fold b in Hs. unfold sep in Hs.
    unfold offset_index, frequency_index, upd_clock. cbn [ci_base].
    split.
    + apply Hent; lia.
    + replace (upd_idx b 1 (ci_base ci) + 1) with (upd_idx b 1 (ci_base ci + 1))
        by (unfold upd_idx; natb; lia).
      apply Hent; lia.
  - intros l Hl. unfold link_delay.
    assert (Hgl : get_link_info st' l = option_map (upd_link b 1) (get_link_info st l)).
    { subst st'. unfold get_link_info. cbn [removed_state e_links].
      rewrite find_map_key by reflexivity. f_equal. apply Hfind.
      rewrite Hid. apply linkid_eqb_neq. congruence. }
    rewrite Hgl. destruct (get_link_info st l) as [li|] eqn:Hli; cbn [option_map]; auto.
    apply get_link_info_some in Hli. destruct Hli as [Hlin Hlid].
    pose proof (wf_lb _ W li Hlin) as Hlb.
    assert (Hx : li_index li <> li_index removed).
    { apply (wf_ll _ W); auto. congruence. }
    fold b in Hx. unfold upd_link. cbn [li_index]. apply Hent; lia.
  - split; [subst st'; reflexivity|]. split; [subst st'; reflexivity|].
    assert (Hnone : get_link_info st' id = None).
    { subst st'. unfold get_link_info. cbn [removed_state e_links].
      rewrite find_map_key by reflexivity.
      destruct (find _ rest) as [c|] eqn:Hf; auto.
      apply find_some in Hf. destruct Hf as [Hc1 Hc2]. apply linkid_eqb_eq in Hc2.
      exfalso. eapply Hne; eauto. }
    unfold link_delay. rewrite Hnone. auto.
Qed.

(* ------------------------------------------- numeric operations keep the shape *)
Lemma WF_with_state (st : est) t s u : WF st ->
  m_rows s = m_rows (e_state st) -> m_cols s = 1 -> length (m_data s) = m_rows s ->
  m_rows u = m_rows s -> m_cols u = m_rows s -> length (m_data u) = m_rows s * m_rows s ->
  WF (with_state st t s u).
Proof.
  intros W H1 H2 H3 H4 H5 H6. destruct W.
  constructor; cbn [with_state e_state e_unc e_clocks e_ext e_links]; auto; try congruence;
    rewrite ?H1 in *; auto.
Qed.

Lemma fold_mset_dims {X} (g : matrix -> X -> matrix) (l : list X) :
  (forall m x, m_rows (g m x) = m_rows m /\ m_cols (g m x) = m_cols m) ->
  forall m, m_rows (fold_left g l m) = m_rows m /\ m_cols (fold_left g l m) = m_cols m.
Proof.
  intros Hg. induction l as [|x l IH]; intros m; cbn; auto.
  destruct (IH (g m x)) as [H1 H2]. destruct (Hg m x) as [H3 H4]. split; congruence.
Qed.

Lemma progress_time_back (st : est) new : (ts_sub new (e_time st) < 0)%Z ->
  progress_time F new st = Err E_NonMonotonic.
Proof. intros H. unfold progress_time. apply Z.ltb_lt in H. now rewrite H. Qed.

Lemma progress_time_shape (st : est) new st' : progress_time F new st = Ok st' ->
  (0 <= ts_sub new (e_time st))%Z /\ e_time st' = new /\
  (st' = st \/ exists s u, st' = with_state st new s u /\
     m_rows s = m_rows (e_state st) /\ m_cols s = m_cols (e_state st) /\
     length (m_data s) = m_rows s * m_cols s /\
     m_rows u = m_rows (e_state st) /\ m_cols u = m_rows (e_state st) /\
     length (m_data u) = m_rows u * m_cols u).
Proof.
  unfold progress_time. intros H.
  destruct (Z.ltb_spec (ts_sub new (e_time st)) 0); [discriminate|].
  split; auto.
  destruct (Z.eqb_spec new (e_time st)).
  - inversion H; subst. auto.
  - destruct (negb (dims_ok st)); [discriminate|].
    destruct (negb _); [discriminate|].
    inversion H. split; [reflexivity|]. right. eexists. eexists. split; [reflexivity|].
    set (g := fun u c => mset u (offset_index c) (frequency_index c) _).
    destruct (fold_mset_dims g (e_clocks st) (fun m x => conj eq_refl eq_refl)
                (identity F (m_rows (e_state st)))) as [Hr Hc].
    cbn [mmul madd mzip m_rows m_cols m_data transpose mnew]. rewrite !length_tab.
    cbn [identity mnew m_rows m_cols] in Hr, Hc. rewrite Hr. repeat split; reflexivity.
Qed.

Lemma progress_time_ok (st : est) new : WF st -> (0 <= ts_sub new (e_time st))%Z ->
  exists st', progress_time F new st = Ok st'.
Proof.
  intros W H. unfold progress_time.
  destruct (Z.ltb_spec (ts_sub new (e_time st)) 0); [lia|].
  destruct (Z.eqb_spec new (e_time st)); eauto.
  rewrite (dims_ok_WF _ W). cbn [negb].
  assert (H1 : forallb (fun c => frequency_index c <? m_rows (e_state st)) (e_clocks st) = true).
  { apply forallb_forall. intros c Hc. pose proof (wf_cb _ W c Hc). unfold frequency_index.
    apply Nat.ltb_lt. lia. }
  assert (H2 : forallb (fun l => li_index l <? m_rows (e_state st)) (e_links st) = true).
  { apply forallb_forall. intros l Hl. pose proof (wf_lb _ W l Hl). apply Nat.ltb_lt. lia. }
  rewrite H1, H2. cbn [andb negb]. eauto.
Qed.

Lemma WF_progress_time (st : est) new st' : WF st -> progress_time F new st = Ok st' -> WF st'.
Proof.
  intros W H. destruct (progress_time_shape _ _ _ H) as (_ & _ & [->|(s & u & -> & H1 & H2 & H3 & H4 & H5 & H6)]); auto.
  rewrite (wf_cols _ W) in H2.
  apply WF_with_state; auto; try congruence;
    try (rewrite H3, H2; lia); try (rewrite H6, H4, H5, H1; reflexivity).
Qed.

Lemma bump_shape (st : est) i ch s : bump F st i ch = Ok s ->
  m_rows s = m_rows (e_state st) /\ m_cols s = m_cols (e_state st) /\
  length (m_data s) = length (m_data (e_state st)) /\
  s = mset (e_state st) i 0 (fadd F (mget F (e_state st) i 0) ch).
Proof.
  unfold bump. destruct (in_range _ _ _); [|discriminate]. intros H. inversion H.
  cbn. rewrite length_upd. auto.
Qed.

Lemma WF_bump (st : est) t i ch s : WF st -> bump F st i ch = Ok s ->
  WF (with_state st t s (e_unc st)).
Proof.
  intros W H. destruct (bump_shape _ _ _ _ H) as (H1 & H2 & H3 & _).
  apply WF_with_state; auto.
  - rewrite H2. apply (wf_cols _ W).
  - rewrite H3, H1. apply (wf_len _ W).
  - rewrite H1. apply (wf_urows _ W).
  - rewrite H1. apply (wf_ucols _ W).
  - rewrite H1. apply (wf_ulen _ W).
Qed.

Lemma absorb_frequency_shape (st : est) id ch st' : absorb_frequency_steer F id ch st = Ok st' ->
  exists c s, get_clock_info st id = Some c /\ bump F st (frequency_index c) ch = Ok s /\
              st' = with_state st (e_time st) s (e_unc st).
Proof.
  unfold absorb_frequency_steer. destruct (get_clock_info st id) as [c|]; [|discriminate].
  destruct (bump F st _ ch) as [s| |] eqn:Hb; cbn [res_bind]; intros H; try discriminate.
  inversion H. eauto.
Qed.

Lemma absorb_offset_shape (st : est) id ch st' : absorb_offset_change F id ch st = Ok st' ->
  exists c s, get_clock_info st id = Some c /\ bump F st (offset_index c) ch = Ok s /\
              st' = with_state st (e_time st) s (e_unc st).
Proof.
  unfold absorb_offset_change. destruct (get_clock_info st id) as [c|]; [|discriminate].
  destruct (bump F st _ ch) as [s| |] eqn:Hb; cbn [res_bind]; intros H; try discriminate.
  inversion H. eauto.
Qed.

Lemma absorb_system_shape (st : est) id d st' :
  absorb_system_clock_offset_change F id d st = Ok st' ->
  exists c s, get_clock_info st id = Some c /\ bump F st (offset_index c) (fdt F d) = Ok s /\
              st' = with_state st (ts_add (e_time st) d) s (e_unc st).
Proof.
  unfold absorb_system_clock_offset_change. destruct (get_clock_info st id) as [c|]; [|discriminate].
  destruct (bump F st _ _) as [s| |] eqn:Hb; cbn [res_bind]; intros H; try discriminate.
  inversion H. eauto.
Qed.

Lemma symmetrize_shape (m m' : matrix) : symmetrize F m = Ok m' ->
  m_rows m' = m_rows m /\ m_cols m' = m_rows m /\ length (m_data m') = m_rows m' * m_cols m'.
Proof.
  unfold symmetrize. destruct (Nat.eqb_spec (m_rows m) (m_cols m)); cbn [negb]; [|discriminate].
  intros H. inversion H. cbn. rewrite length_tab. repeat split; auto.
Qed.

Lemma measurement_shape (st : est) lid fwd v u dl st' : measurement F lid fwd v u dl st = Ok st' ->
  exists s' u', st' = with_state st (e_time st) s' u' /\
    m_rows s' = m_rows (e_state st) /\ m_cols s' = m_cols (e_state st) /\
    length (m_data s') = m_rows s' * m_cols s' /\
    m_rows u' = m_rows (e_state st) /\ m_cols u' = m_rows (e_state st) /\
    length (m_data u') = m_rows u' * m_cols u'.
Proof.
  unfold measurement, res_bind. intros H.
  repeat match type of H with
  | context [match ?x with _ => _ end] => destruct x eqn:?; try discriminate
  end.
  inversion H. eexists. eexists. split; [reflexivity|].
  match goal with Hs : symmetrize F _ = Ok _ |- _ => apply symmetrize_shape in Hs; destruct Hs as (S1 & S2 & S3) end.
  cbn [mmul madd msub mzip m_rows m_cols m_data transpose mnew identity] in *. rewrite !length_tab.
  repeat split; auto.
Qed.

Lemma WF_measurement (st : est) lid fwd v u dl st' : WF st ->
  measurement F lid fwd v u dl st = Ok st' -> WF st'.
Proof.
  intros W H. destruct (measurement_shape _ _ _ _ _ _ _ H) as (s & u' & -> & H1 & H2 & H3 & H4 & H5 & H6).
  rewrite (wf_cols _ W) in H2.
  apply WF_with_state; auto; try congruence;
    try (rewrite H3, H2; lia); try (rewrite H6, H4, H5, H1; reflexivity).
Qed.

(* ------------------------------------------------ histories of operations *)
Lemma WF_apply (o : @op A) (st st' : est) : WF st -> apply F o st = Ok st' -> WF st'.
Proof.
  intros W H. destruct o; cbn [apply] in H.
  - eapply WF_progress_time; eauto.
  - destruct (absorb_frequency_shape _ _ _ _ H) as (c & s & _ & Hb & ->). eapply WF_bump; eauto.
  - destruct (absorb_offset_shape _ _ _ _ H) as (c & s & _ & Hb & ->). eapply WF_bump; eauto.
  - destruct (absorb_system_shape _ _ _ _ H) as (c & s & _ & Hb & ->). eapply WF_bump; eauto.
  - eapply WF_measurement; eauto.
  - eapply WF_add_external; eauto.
  - eapply WF_remove_external; eauto.
  - eapply WF_add_clock; eauto.
  - eapply WF_remove_clock; eauto.
  - eapply WF_add_link; eauto.
  - eapply WF_remove_link; eauto.
Qed.

Lemma WF_apply_keep (o : @op A) (st : est) : WF st -> WF (apply_keep F o st).
Proof.
  intros W. unfold apply_keep. destruct (apply F o st) eqn:H; auto. eapply WF_apply; eauto.
Qed.

Lemma WF_run_ops (ops : list (@op A)) : forall st : est, WF st -> WF (run_ops F ops st).
Proof.
  induction ops as [|o ops IH]; intros st W; cbn; auto. apply IH. now apply WF_apply_keep.
Qed.

Lemma WF_reachable t (ops : list (@op A)) : WF (run_ops F ops (empty F t)).
Proof. apply WF_run_ops, WF_empty. Qed.

Lemma apply_keep_failed (o : @op A) (st : est) :
  (forall st', apply F o st <> Ok st') -> apply_keep F o st = st.
Proof.
  intros H. unfold apply_keep. destruct (apply F o st) eqn:E; auto. exfalso. eapply H; eauto.
Qed.

(* the time of the estimator: only progress_time and the system clock step change it *)
Lemma apply_time (o : @op A) (st st' : est) : WF st -> apply F o st = Ok st' ->
  match o with
  | OpProgress t => e_time st' = t /\ (0 <= ts_sub t (e_time st))%Z
  | OpAbsorbSystem _ d => e_time st' = ts_add (e_time st) d
  | _ => e_time st' = e_time st
  end.
Proof.
  intros W H. destruct o; cbn [apply] in H.
  - destruct (progress_time_shape _ _ _ H) as (H1 & H2 & _). auto.
  - destruct (absorb_frequency_shape _ _ _ _ H) as (c & s & _ & _ & ->). reflexivity.
  - destruct (absorb_offset_shape _ _ _ _ H) as (c & s & _ & _ & ->). reflexivity.
  - destruct (absorb_system_shape _ _ _ _ H) as (c & s & _ & _ & ->). reflexivity.
  - destruct (measurement_shape _ _ _ _ _ _ _ H) as (s & u' & -> & _). reflexivity.
  - destruct (add_external_shape _ _ _ H) as [_ ->]. reflexivity.
  - destruct (remove_external_shape _ _ _ H) as (x & e & _ & ->). reflexivity.
  - destruct (add_clock_shape _ _ _ _ _ _ _ _ W H) as [_ ->]. reflexivity.
  - destruct (remove_clock_shape _ _ _ W H) as (x & e & _ & ->). reflexivity.
  - destruct (add_link_shape _ _ _ _ _ _ W H) as (_ & _ & _ & ->). reflexivity.
  - destruct (remove_link_shape _ _ _ W H) as (x & e & _ & ->). reflexivity.
Qed.

(* wrapping subtraction on ordinary timestamps (below 2^127, i.e. before the year 5.8e12) *)
Lemma ts_sub_small a b : (0 <= a < 2 ^ 127)%Z -> (0 <= b < 2 ^ 127)%Z -> ts_sub a b = (a - b)%Z.
Proof.
  intros Ha Hb. unfold ts_sub, to_signed.
  change (2 ^ (128 - 1))%Z with (2 ^ 127)%Z.
  assert (E : (2 ^ 128 = 2 * 2 ^ 127)%Z) by reflexivity.
  destruct (Z_lt_ge_dec a b).
  - replace ((a - b) mod 2 ^ 128)%Z with (a - b + 2 ^ 128)%Z.
    + destruct (Z.ltb_spec (a - b + 2 ^ 128) (2 ^ 127))%Z; lia.
    + apply Z.mod_unique with (q := (-1)%Z); lia.
  - rewrite Z.mod_small by lia. destruct (Z.ltb_spec (a - b) (2 ^ 127))%Z; lia.
Qed.

(* --------------------------------- unknown / duplicate identifiers are refused *)
Definition link_present (st : est) (id : linkid) : bool :=
  existsb (fun l => linkid_eqb (li_id l) id) (e_links st).

Definition bad_ident (o : @op A) (st : est) : bool :=
  match o with
  | OpProgress _ => false
  | OpAbsorbFreq id _ | OpAbsorbOffset id _ | OpAbsorbSystem id _ => negb (is_internal_clock st id)
  | OpMeasure lid fwd _ _ dl =>
      negb (is_known_clock st (dir_from lid fwd)) || negb (is_known_clock st (dir_to lid fwd))
      || (dl && negb (link_present st lid))
  | OpAddExternal id | OpAddClock id _ _ _ _ _ => is_known_clock st id
  | OpRemoveExternal id => negb (is_external_clock st id)
  | OpRemoveClock id => negb (is_internal_clock st id)
  | OpAddLink id _ _ _ =>
      negb (is_known_clock st (link_first id)) || negb (is_known_clock st (link_second id))
      || link_present st id
  | OpRemoveLink id => negb (link_present st id)
  end.

Lemma in_range_proj (st : est) (p : matrix) i : WF st ->
  m_rows p = 1 -> m_cols p = m_rows (e_state st) -> i < m_rows (e_state st) -> in_range p 0 i = true.
Proof.
  intros W H1 H2 Hi. unfold in_range. rewrite H1, H2. natb; try lia; reflexivity.
Qed.

Lemma bad_ident_fails (o : @op A) (st : est) : WF st -> bad_ident o st = true ->
  exists e, apply F o st = Err e.
Proof.
  intros W H. destruct o; cbn [bad_ident apply] in *.
  - discriminate.
  - apply negb_true_iff, get_clock_info_none in H. unfold absorb_frequency_steer. rewrite H. eauto.
  - apply negb_true_iff, get_clock_info_none in H. unfold absorb_offset_change. rewrite H. eauto.
  - apply negb_true_iff, get_clock_info_none in H. unfold absorb_system_clock_offset_change. rewrite H. eauto.
  - unfold measurement, is_known_clock in *.
    set (from := dir_from lid forward) in *. set (to := dir_to lid forward) in *.
    destruct (is_external_clock st from) eqn:Ef, (is_external_clock st to) eqn:Et; cbn [andb]; eauto.
    + (* from external, to not *)
      rewrite orb_true_r in H. cbn [negb orb] in H. cbn [res_bind].
      destruct (get_clock_info st to) as [c|] eqn:Hc.
      * destruct (get_clock_info_some _ _ _ Hc) as [Hin _].
        pose proof (wf_cb _ W c Hin).
        rewrite (in_range_proj st) by (auto; unfold offset_index; lia). cbn [res_bind].
        assert (Hi : is_internal_clock st to = true).
        { apply is_internal_in. apply in_map_iff. exists c. destruct (get_clock_info_some _ _ _ Hc); auto. }
        rewrite Hi in H. cbn in H. apply andb_true_iff in H. destruct H as [-> Hl].
        apply negb_true_iff in Hl. apply find_none_existsb in Hl.
        unfold get_link_info. unfold link_present in Hl. rewrite Hl. cbn. eauto.
      * cbn. eauto.
    + (* from not external, to external *)
      destruct (get_clock_info st from) as [c|] eqn:Hc; cbn [res_bind]; eauto.
      destruct (get_clock_info_some _ _ _ Hc) as [Hin _].
      pose proof (wf_cb _ W c Hin).
      rewrite (in_range_proj st) by (auto; unfold offset_index; lia). cbn [res_bind].
      assert (Hi : is_internal_clock st from = true).
      { apply is_internal_in. apply in_map_iff. exists c. destruct (get_clock_info_some _ _ _ Hc); auto. }
      rewrite Hi, orb_true_r in H. cbn in H. apply andb_true_iff in H. destruct H as [-> Hl].
      apply negb_true_iff in Hl. apply find_none_existsb in Hl.
      unfold get_link_info. unfold link_present in Hl. rewrite Hl. cbn. eauto.
    + (* neither external *)
      rewrite !orb_false_r in H.
      destruct (get_clock_info st from) as [c|] eqn:Hc; cbn [res_bind]; eauto.
      destruct (get_clock_info_some _ _ _ Hc) as [Hin _].
      pose proof (wf_cb _ W c Hin).
      rewrite (in_range_proj st) by (auto; unfold offset_index; lia). cbn [res_bind].
      assert (Hi : is_internal_clock st from = true).
      { apply is_internal_in. apply in_map_iff. exists c. destruct (get_clock_info_some _ _ _ Hc); auto. }
      rewrite Hi in H. cbn [negb orb] in H.
      destruct (get_clock_info st to) as [c2|] eqn:Hc2; cbn [res_bind]; eauto.
      destruct (get_clock_info_some _ _ _ Hc2) as [Hin2 _].
      pose proof (wf_cb _ W c2 Hin2).
      rewrite (in_range_proj st) by (auto; unfold offset_index; lia). cbn [res_bind].
      assert (Hi2 : is_internal_clock st to = true).
      { apply is_internal_in. apply in_map_iff. exists c2. destruct (get_clock_info_some _ _ _ Hc2); auto. }
      rewrite Hi2 in H. cbn in H. apply andb_true_iff in H. destruct H as [-> Hl].
      apply negb_true_iff in Hl. apply find_none_existsb in Hl.
      unfold get_link_info. unfold link_present in Hl. rewrite Hl. cbn. eauto.
  - destruct (add_external_clock id st) as [st'| |] eqn:E; eauto.
    + assert (is_known_clock st id = false) by (apply add_external_ok_iff; eauto). congruence.
    + unfold add_external_clock in E. destruct (is_internal_clock st id), (is_external_clock st id); discriminate.
  - apply negb_true_iff in H. unfold remove_external_clock.
    unfold is_external_clock in H. apply remove_first_none in H. rewrite H. eauto.
  - rewrite add_clock_err; eauto.
  - apply negb_true_iff in H. unfold remove_clock.
    unfold is_internal_clock in H. apply remove_first_none in H. rewrite H. eauto.
  - unfold add_link, link_present in *.
    destruct (is_known_clock st (link_first id)); cbn [negb]; eauto.
    destruct (is_known_clock st (link_second id)); cbn [negb]; eauto.
    cbn in H. rewrite H. eauto.
  - apply negb_true_iff in H. unfold remove_link, link_present in *.
    apply remove_first_none in H. rewrite H. eauto.
Qed.

(* ------------------------------------------------ statements over histories *)
Definition unrelated_kept (o : @op A) (st st' : est) : Prop :=
  match o with
  | OpAddClock id _ _ _ _ _ | OpRemoveClock id => same_estimates_except_clock st st' id
  | OpAddLink id _ _ _ | OpRemoveLink id => same_estimates_except_link st st' id
  | OpAddExternal _ | OpRemoveExternal _ => same_estimates st st'
  | _ => True
  end.

Lemma apply_unrelated_kept (o : @op A) (st st' : est) : WF st -> apply F o st = Ok st' ->
  unrelated_kept o st st'.
Proof.
  intros W H. destruct o; cbn [apply unrelated_kept] in *; auto.
  - apply (add_external_preserves _ _ _ H).
  - apply (remove_external_preserves _ _ _ H).
  - apply (add_clock_preserves _ _ _ _ _ _ _ _ W H).
  - apply (remove_clock_preserves _ _ _ W H).
  - apply (add_link_preserves _ _ _ _ _ _ W H).
  - apply (remove_link_preserves _ _ _ W H).
Qed.

Lemma history_unrelated_kept t (ops : list (@op A)) (o : @op A) st' :
  apply F o (run_ops F ops (empty F t)) = Ok st' ->
  unrelated_kept o (run_ops F ops (empty F t)) st'.
Proof. apply apply_unrelated_kept, WF_reachable. Qed.

Lemma history_bad_ident_refused t (ops : list (@op A)) (o : @op A) :
  let st := run_ops F ops (empty F t) in
  bad_ident o st = true -> (exists e, apply F o st = Err e) /\ apply_keep F o st = st.
Proof.
  intros st H. destruct (bad_ident_fails o st (WF_reachable t ops) H) as [e He].
  split; eauto. unfold apply_keep. now rewrite He.
Qed.

Lemma history_time t (ops : list (@op A)) (o : @op A) :
  let st := run_ops F ops (empty F t) in
  match o with
  | OpProgress new =>
      ((ts_sub new (e_time st) < 0)%Z -> apply F o st = Err E_NonMonotonic /\ apply_keep F o st = st) /\
      ((0 <= ts_sub new (e_time st))%Z -> exists st', apply F o st = Ok st' /\ e_time st' = new)
  | OpAbsorbSystem _ d => forall st', apply F o st = Ok st' -> e_time st' = ts_add (e_time st) d
  | _ => forall st', apply F o st = Ok st' -> e_time st' = e_time st
  end.
Proof.
  intros st. pose proof (WF_reachable t ops) as W. fold st in W.
  destruct o; try (intros st' H; apply (apply_time _ _ _ W H)).
  split.
  - intros H. cbn [apply]. rewrite (progress_time_back _ _ H). split; auto.
    unfold apply_keep. cbn [apply]. now rewrite (progress_time_back _ _ H).
  - intros H. destruct (progress_time_ok st new_time W H) as [st' Hs]. exists st'. split; auto.
    destruct (progress_time_shape _ _ _ Hs) as (_ & Ht & _). exact Ht.
Qed.

End Proofs.
