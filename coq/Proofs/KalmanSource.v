(* C06 -- proofs about the source filter of Model/Kalman.v at the real numbers: the invariant
   of a source controller (covariance symmetric positive semidefinite, wander > 0, delay buffer
   non-negative) is kept by every event, and along every history every divisor met is
   non-zero and every square-root argument non-negative. *)
From V Require Import Model.Kalman Proofs.Kalman.
From Coq Require Import Reals Lra Psatz Lia.
Close Scope float_scope.
Open Scope R_scope.
Section RealSource.
Variable fs : R -> Z.
Variable rem : R -> R -> R.
Notation ROps := (Proofs.Kalman.ROps fs rem).
Ltac consts := rewrite ?c0_R, ?cn0_R, ?c1_R, ?c2_R, ?c3_R, ?c4_R, ?c7_R, ?c8_R, ?c100_R, ?cu32_R.
Ltac unf := unfold mm22, mv22, madd2, msub2, transpose2, unit2, sum2, sum1, sqr, det2 in *;
            cbn [a00 a01 a10 a11 s0 s1 unc ktime fst snd fadd fsub fmul fdiv fneg fsqrt of_int Proofs.Kalman.ROps] in *.
Ltac spd tac := eapply sp_bind with (Q := fun x => x = _);
  [apply sp_div; [consts; tac | reflexivity] | intros ? ->].
Ltac spT lem := eapply sp_bind with (Q := fun _ => True); [ lem | intros ? _ ].
Definition nonnegl (l : list R) : Prop := Forall (fun x => 0 <= x) l.
Definition NoiseInv (n : noise R) : Prop :=
  match n with NBuf d _ => nonnegl d | NFixed p _ => 0 <= p end.
Definition FInv (f : source_filter R) : Prop :=
  Inv (unc (f_state f)) /\ 0 < f_wander f /\ NoiseInv (f_noise f).
Definition SInv (s : source_state R) : Prop :=
  match s with Initial f => NoiseInv (i_noise f) | Stable f => FInv f end.
Definition delay_ok (n : noise R) (m : meas) : Prop :=
  match n with NBuf _ _ => (0 <= m_delay m)%Z | NFixed _ _ => True end.

Lemma fold_nonneg l acc : nonnegl l -> 0 <= acc -> 0 <= fold_left Rplus l acc.
Proof. revert acc; induction l; simpl; intros; auto. inversion H; subst. apply IHl; auto. lra. Qed.

Lemma buf_mean_sp d : sp (buf_mean ROps d) (fun _ => True).
Proof. unfold buf_mean. apply sp_div; auto. consts; lra. Qed.

Lemma buf_variance_sp d : sp (buf_variance ROps d) (fun v => 0 <= v).
Proof.
  unfold buf_variance. eapply sp_bind with (Q := fun _ => True). apply buf_mean_sp. intros mean _.
  apply sp_div. consts; lra. unf. consts.
  apply Rmult_le_pos; [|lra]. unfold sumlist. unf. consts. apply fold_nonneg; [|lra].
  unfold nonnegl. apply Forall_forall. intros x Hx. apply in_map_iff in Hx. destruct Hx as (v & <- & _). apply Rle_0_sqr.
Qed.

Lemma to_seconds_nonneg d (Q : R -> Prop) :
  (forall x, (0 <= d)%Z -> 0 <= x -> Q x) -> (forall x, Q x \/ (0 <= d)%Z) -> sp (to_seconds ROps d) Q.
Proof.
  intros H1 H2. apply to_seconds_sp. destruct (H2 (IZR d / 4294967295)); auto.
  apply H1; auto. apply Rmult_le_pos; [apply IZR_le; auto | lra].
Qed.

Lemma Forall_upd_nth (P : R -> Prop) l n x : Forall P l -> P x -> Forall P (upd_nth l n x).
Proof. revert n; induction l; intros; simpl; auto. destruct n; inversion H; subst; constructor; auto. Qed.

Lemma noise_update_sp n m : NoiseInv n -> delay_ok n m -> sp (noise_update ROps n (m_delay m)) NoiseInv.
Proof.
  destruct n as [d i|p a]; cbn [noise_update NoiseInv delay_ok]; intros HN Hd.
  - eapply sp_bind with (Q := fun x => 0 <= x).
    { apply to_seconds_sp. apply Rmult_le_pos; [apply IZR_le; auto | lra]. }
    intros s Hs. unfold buf_update. apply sp_ret. simpl. apply Forall_upd_nth; auto.
  - apply sp_ret; auto.
Qed.

Lemma noise_estimate_sp n : NoiseInv n -> sp (noise_estimate ROps n) (fun r => 0 <= r).
Proof.
  destruct n as [d i|p a]; cbn [noise_estimate NoiseInv]; intros HN.
  - eapply sp_bind. apply buf_variance_sp. intros v Hv. apply sp_div. consts; lra. unf. consts. lra.
  - apply sp_ret; auto.
Qed.

Lemma noise_is_outlier_sp n delay thr : sp (noise_is_outlier ROps n delay thr) (fun _ => True).
Proof.
  destruct n as [d i|p a]; cbn [noise_is_outlier].
  - spT ltac:(apply to_seconds_sp; auto). spT ltac:(apply buf_mean_sp).
    eapply sp_bind. apply buf_variance_sp. intros v Hv.
    spT ltac:(apply sp_sqrt; auto). apply sp_ret; auto.
  - apply sp_ret; auto.
Qed.

Lemma In_firstn_own (A : Type) n (l : list A) x : In x (firstn n l) -> In x l.
Proof. revert l; induction n; simpl; intros l H. contradiction. destruct l; simpl in *; auto. destruct H; auto. Qed.

Lemma max_fold_nonneg l acc :
  nonnegl l -> (forall v, acc = Some v -> 0 <= v) ->
  forall r, fold_left (fun v1 v2 => if fisnan ROps v2 then v1 else
                   match v1 with Some v1 => Some (fmaxn ROps v2 v1) | None => Some v2 end) l acc = Some r -> 0 <= r.
Proof.
  revert acc; induction l; simpl; intros acc HL HA r Hr.
  - auto.
  - inversion HL; subst. eapply IHl; [auto | | exact Hr].
    intros v Hv. destruct acc as [v1|]; inversion Hv; subst; auto.
    apply Rle_trans with a; auto. apply Rmax_l.
Qed.

Lemma max_roundtrip_nonneg n samples mr : NoiseInv n -> max_roundtrip ROps n samples = Some mr -> 0 <= mr.
Proof.
  destruct n as [d i|p a]; cbn [max_roundtrip NoiseInv]; intros HN H.
  - eapply max_fold_nonneg; [ | | exact H]. 
    + unfold nonnegl in *. apply Forall_forall. intros x Hx. eapply Forall_forall in HN; eauto. eapply In_firstn_own; eauto.
    + discriminate.
  - inversion H; subst. apply Rle_trans with (Kalman.c1 ROps). consts; lra. apply Rmax_l.
Qed.

Lemma delay_mean_sp n : sp (delay_mean ROps n) (fun _ => True).
Proof. destruct n; cbn [delay_mean]. apply buf_mean_sp. apply sp_ret; auto. Qed.

Lemma cur_avg_sp d samples : sp (cur_avg ROps d samples) (fun _ => True).
Proof.
  unfold cur_avg. destruct (samples =? 0)%Z eqn:E. apply sp_ret; auto.
  apply sp_div; auto. apply Z.eqb_neq in E. unf. intro H. apply eq_IZR_R0 in H. auto.
Qed.

Lemma icp_down_sp fuel d samples p h : sp (icp_down ROps fuel d samples p h) (fun _ => True).
Proof.
  revert d; induction fuel; intros; cbn [icp_down]. apply sp_ret; auto.
  spT ltac:(apply cur_avg_sp). destruct (fltb ROps h a). apply IHfuel. apply sp_ret; auto.
Qed.
Lemma icp_up_sp fuel d samples p h : sp (icp_up ROps fuel d samples p h) (fun _ => True).
Proof.
  revert d; induction fuel; intros; cbn [icp_up]. apply sp_ret; auto.
  spT ltac:(apply cur_avg_sp). destruct (fltb ROps a h). apply IHfuel. apply sp_ret; auto.
Qed.
Lemma init_correct_period_sp fuel d samples per : sp (init_correct_period ROps fuel d samples per) (fun _ => True).
Proof.
  unfold init_correct_period. destruct (samples =? 0)%Z. apply sp_ret; auto.
  destruct per. spd lra. spd lra. spT ltac:(apply icp_down_sp). apply icp_up_sp. apply sp_ret; auto.
Qed.

Lemma init_update_sp fuel f m per :
  NoiseInv (i_noise f) -> delay_ok (i_noise f) m ->
  sp (init_update ROps fuel f m per) (fun f' => NoiseInv (i_noise f')).
Proof.
  intros HN Hd. unfold init_update.
  spT ltac:(apply to_seconds_sp; auto).
  eapply sp_bind with (Q := fun _ => True).
  { destruct per. spT ltac:(apply cur_avg_sp). spd lra. spd lra. apply sp_ret; auto. apply sp_ret; auto. }
  intros off _.
  eapply sp_bind. apply noise_update_sp; eauto. intros n' Hn'.
  destruct (buf_update (i_data f) (i_idx f) off) as [d i].
  spT ltac:(apply init_correct_period_sp). apply sp_ret. auto.
Qed.

Lemma init_offset_steering_sp fuel f steer per :
  NoiseInv (i_noise f) -> sp (init_offset_steering ROps fuel f steer per) (fun f' => NoiseInv (i_noise f')).
Proof. intros. unfold init_offset_steering. spT ltac:(apply init_correct_period_sp). apply sp_ret; auto. Qed.

Lemma update_wander_sp cfg w score p weight :
  0 < w -> sp (update_wander ROps cfg w score p weight) (fun r => 0 < fst r).
Proof.
  intros. unfold update_wander.
  match goal with |- context [if (?s <=? ?h)%Z then _ else _] => destruct (s <=? h)%Z end.
  - spd lra. apply sp_ret. unf. consts. simpl. lra.
  - match goal with |- context [if (?s <=? ?h)%Z then _ else _] => destruct (s <=? h)%Z end.
    + apply sp_ret. unf. consts. simpl. lra.
    + apply sp_ret. auto.
Qed.

Lemma pow2_pos n : (0 < 2 ^ n)%Z \/ (n < 0)%Z.
Proof. destruct (Z_lt_le_dec n 0); auto. left. apply Z.pow_pos_nonneg; lia. Qed.

Lemma update_poll_sp cfg poll score p weight mp : sp (update_poll ROps cfg poll score p weight mp) (fun _ => True).
Proof.
  unfold update_poll.
  eapply sp_bind with (Q := fun x => x <> 0).
  { apply to_seconds_sp. unfold poll_as_duration.
    match goal with |- IZR (2 ^ ?s) / _ <> 0 => assert (0 < 2 ^ s)%Z end.
    { apply Z.pow_pos_nonneg. lia. destruct (_ <? 0)%Z eqn:E1. lia. destruct (62 <? _)%Z eqn:E2. lia. apply Z.ltb_ge in E1. auto. }
    apply IZR_lt in H. intro E. apply Rmult_integral in E. destruct E as [E|E]; [lra|].
    assert (/ 4294967295 <> 0) by (apply Rinv_neq_0_compat; lra). auto. }
  intros r Hr. spT ltac:(apply sp_div; auto).
  repeat match goal with |- sp (if ?c then _ else _) _ => destruct c end; apply sp_ret; auto.
Qed.

Lemma filter_update_sp cfg f m per e :
  FInv f -> ts_sub (m_time m) (ktime (f_state f)) <> 0%Z -> delay_ok (f_noise f) m ->
  sp (filter_update ROps cfg f m per e) (fun r => FInv (fst r)).
Proof.
  intros (HI & Hw & HN) Ht Hd. unfold filter_update, with_last. cbn [f_state f_wander f_noise f_prec_score f_poll_score f_poll f_last f_outlier f_last_iter].
  destruct (is_before (m_time m) (ktime (f_state f))) eqn:Hb.
  - apply sp_ret. split; auto.
  - eapply sp_bind with (Q := fun _ => True).
    { destruct (f_outlier f). apply sp_ret; auto. apply noise_is_outlier_sp. }
    intros outl _. destruct outl.
    + apply sp_ret. split; auto.
    + eapply sp_bind. apply progress_sp; auto. lra.
      intros st (HI' & Hpos).
      assert (Hp : 0 < a00 (unc st)).
      { apply Hpos; auto. unfold is_before in Hb. apply Z.ltb_ge in Hb. lia. }
      eapply sp_bind. apply noise_update_sp; eauto. intros nz Hnz.
      spT ltac:(apply to_seconds_sp; auto). spT ltac:(apply to_seconds_sp; auto).
      eapply sp_bind. apply noise_estimate_sp; auto. intros r Hr.
      eapply sp_bind. apply absorb_sp; auto. lra.
      intros [[st' p] wt] (HI'' & _). cbn [fst snd] in HI''.
      eapply sp_bind. apply update_wander_sp with (w := f_wander f); auto.
      intros [w ps] Hw'. cbn [fst] in Hw'.
      eapply sp_bind with (Q := fun _ => True). apply update_poll_sp.
      intros [poll pls] _. apply sp_ret. cbn [fst]. split; auto.
Qed.

Lemma filter_offset_steering_sp fuel f steer per :
  FInv f -> sp (filter_offset_steering ROps fuel f steer per) FInv.
Proof.
  intros (HI & Hw & HN). unfold filter_offset_steering.
  eapply sp_bind. apply offset_steering_sp. intros st E. apply sp_ret. split; [|split]; simpl; auto. rewrite E; auto.
Qed.

Lemma filter_frequency_steering_sp fuel f time steer per :
  FInv f -> sp (filter_frequency_steering ROps fuel f time steer per) FInv.
Proof.
  intros (HI & Hw & HN). unfold filter_frequency_steering.
  eapply sp_bind. apply frequency_steering_sp; auto. lra. intros st HI'.
  spT ltac:(apply to_seconds_sp; auto). apply sp_ret. split; [|split]; simpl; auto.
Qed.

Lemma preprocess_ok n m0 :
  delay_ok n (mkMeas (noise_preprocess n (m_delay m0)) (m_offset m0) (m_time m0) (m_rdelay m0) (m_rdisp m0)).
Proof. destruct n; simpl; auto. unfold Kalman.MIN_DELAY. lia. Qed.

Lemma nonnegl_zeros : nonnegl (repeat (Kalman.c0 ROps) 8).
Proof. unfold nonnegl. apply Forall_forall. intros x Hx. apply repeat_spec in Hx. subst. consts. lra. Qed.

Definition cfg_ok (cfg : algo_cfg R) : Prop := c_init_wander cfg <> 0.

(* the measurement is not taken at exactly the instant the filter state is at *)
Definition meas_ok (s : source_state R) (m : meas) : Prop :=
  match s with Stable f => ts_sub (m_time m) (ktime (f_state f)) <> 0%Z | Initial _ => True end.

Lemma source_measure_sp cfg s m0 per mono e :
  cfg_ok cfg -> SInv s -> meas_ok s m0 ->
  sp (source_measure ROps cfg s m0 per mono e) (fun r => SInv (fst r)).
Proof.
  intros Hc HS Hm. unfold source_measure.
  assert (Hd := preprocess_ok (state_noise s) m0).
  set (m := mkMeas _ _ _ _ _) in *.
  destruct s as [f|f]; simpl in HS, Hm, Hd.
  - eapply sp_bind. apply init_update_sp; eauto. intros f' Hf'.
    destruct (i_samples f' =? 8)%Z.
    + spT ltac:(apply buf_mean_sp). eapply sp_bind. apply buf_variance_sp. intros var Hvar.
      eapply sp_bind. apply cp_sp. intros st (E & _).
      apply sp_ret. cbn [fst SInv]. split; [|split]; cbn [f_state f_wander f_noise]; auto.
      * rewrite E. unfold Inv, InvR. unf. consts.
        assert (0 <= c_init_freq_unc cfg * c_init_freq_unc cfg) by apply Rle_0_sqr.
        assert (0 <= var * (c_init_freq_unc cfg * c_init_freq_unc cfg)) by (apply Rmult_le_pos; auto).
        repeat split; try lra.
      * unf. apply Rsqr_pos_lt in Hc. unfold Rsqr in Hc. auto.
    + apply sp_ret. auto.
  - match goal with |- sp (if ?c then _ else _) _ => destruct c end.
    + apply sp_ret. cbn [fst SInv i_noise]. destruct HS as (_ & _ & HN).
      destruct (f_noise f); simpl in *; auto. apply nonnegl_zeros.
    + eapply sp_bind. apply filter_update_sp; eauto. intros [f' b] Hf'. apply sp_ret. auto.
Qed.

Lemma source_snapshot_sp cfg s :
  SInv s -> sp (source_snapshot ROps cfg s) (fun o => forall sn, o = Some sn -> 0 <= a00 (unc (sn_state sn))).
Proof.
  intros HS. unfold source_snapshot. destruct s as [f|f]; simpl in HS.
  - destruct (i_last f) as [l|]; [|apply sp_ret; discriminate].
    destruct (0 <? i_samples f)%Z eqn:E; [|apply sp_ret; discriminate].
    destruct (max_roundtrip ROps (i_noise f) (i_samples f)) as [mr|] eqn:Emr; [|apply sp_ret; discriminate].
    spT ltac:(apply sp_div; auto).
    { apply Z.ltb_lt in E. unf. intro H. apply eq_IZR_R0 in H. lia. }
    apply sp_ret. intros sn H. inversion H; subst. simpl. eapply max_roundtrip_nonneg; eauto.
  - spT ltac:(apply delay_mean_sp). apply sp_ret. intros sn H. inversion H; subst. simpl.
    destruct HS as ((_ & Ha & _) & _). auto.
Qed.

Lemma observe_sp cfg s : SInv s -> sp (observe ROps cfg s) (fun _ => True).
Proof.
  intros HS. unfold observe. eapply sp_bind. apply source_snapshot_sp; auto.
  intros [sn|] H. unfold snapshot_observe. spT ltac:(apply sp_sqrt; auto). apply sp_ret; auto. apply sp_ret; auto.
Qed.

Lemma source_offset_steering_sp cfg s steer per :
  SInv s -> sp (source_offset_steering ROps cfg s steer per) SInv.
Proof.
  intros HS. unfold source_offset_steering. cbv zeta. destruct s as [f|f]; simpl in HS.
  - eapply sp_bind. apply init_offset_steering_sp; auto. intros f' H'. apply sp_ret; auto.
  - eapply sp_bind. apply filter_offset_steering_sp; auto. intros f' H'. apply sp_ret; auto.
Qed.

Lemma source_frequency_steering_sp cfg s time steer per :
  SInv s -> sp (source_frequency_steering ROps cfg s time steer per) SInv.
Proof.
  intros HS. unfold source_frequency_steering. destruct s as [f|f]; simpl in HS.
  - apply sp_ret; auto.
  - eapply sp_bind. apply filter_frequency_steering_sp; auto. intros f' H'. apply sp_ret; auto.
Qed.

Lemma source_step_sp cfg per s ev :
  cfg_ok cfg -> SInv s -> (match ev with Measure m _ _ => meas_ok s m | _ => True end) ->
  sp (source_step ROps cfg per s ev) (fun r => SInv (fst r)).
Proof.
  intros Hc HS Hev. unfold source_step. destruct ev as [m mono e|steer|steer time].
  - eapply sp_bind. apply source_measure_sp; eauto. intros [s' b] HS'. cbn [fst] in HS'.
    destruct b. eapply sp_bind. apply source_snapshot_sp; auto. intros sn _. apply sp_ret; auto. apply sp_ret; auto.
  - eapply sp_bind. apply source_offset_steering_sp; auto. intros s' HS'. apply sp_ret; auto.
  - eapply sp_bind. apply source_frequency_steering_sp; auto. intros s' HS'. apply sp_ret; auto.
Qed.

(* whole histories: all side conditions met along the run, including those of the report
   (observe) made after every event *)
Fixpoint run_obligs (cfg : algo_cfg R) (per : option R) (s : source_state R) (evs : list (event R))
  : list (oblig R) :=
  match evs with
  | [] => []
  | ev :: rest =>
      let r := source_step ROps cfg per s ev in
      snd r ++ snd (observe ROps cfg (fst (fst r))) ++ run_obligs cfg per (fst (fst r)) rest
  end.
Fixpoint hist_ok (cfg : algo_cfg R) (per : option R) (s : source_state R) (evs : list (event R)) : Prop :=
  match evs with
  | [] => True
  | ev :: rest =>
      (match ev with Measure m _ _ => meas_ok s m | _ => True end)
      /\ hist_ok cfg per (fst (fst (source_step ROps cfg per s ev))) rest
  end.
Fixpoint run_states (cfg : algo_cfg R) (per : option R) (s : source_state R) (evs : list (event R))
  : list (source_state R) :=
  match evs with
  | [] => []
  | ev :: rest => let s' := fst (fst (source_step ROps cfg per s ev)) in s' :: run_states cfg per s' rest
  end.

Theorem welldefined_exact cfg per s evs :
  cfg_ok cfg -> SInv s -> hist_ok cfg per s evs ->
  Forall holds (run_obligs cfg per s evs) /\ Forall SInv (run_states cfg per s evs).
Proof.
  intros Hc. revert s. induction evs as [|ev rest IH]; intros s HS Hh; cbn [run_obligs run_states hist_ok] in *. split; constructor.
  destruct Hh as (Hev & Hrest).
  destruct (source_step_sp cfg per s ev Hc HS Hev) as (Hob & HS').
  destruct (observe_sp cfg _ HS') as (Hob2 & _).
  destruct (IH _ HS' Hrest) as (H1 & H2).
  cbv zeta. split. apply Forall_app; split; auto. apply Forall_app; split; auto. constructor; auto.
Qed.

Lemma initial_SInv n : NoiseInv n -> SInv (source_new ROps n).
Proof. intros; simpl; auto. Qed.

(* what is reported: the uncertainty is the square root of a non-negative number *)
Lemma reported_uncertainty cfg s :
  SInv s -> forall sn, fst (source_snapshot ROps cfg s) = Some sn ->
  0 <= a00 (unc (sn_state sn)) /\ 0 <= sqrt (a00 (unc (sn_state sn))).
Proof.
  intros HS sn H. destruct (source_snapshot_sp cfg s HS) as (_ & Hq). split. apply Hq; auto. apply sqrt_pos.
Qed.
End RealSource.
