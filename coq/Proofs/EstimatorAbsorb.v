(* Proofs about the three absorb operations of Model/Estimator.v: the entry of the
   steered clock changes by exactly the absorbed amount (one addition), every other
   reported estimate is unchanged.  Generic in the element type. *)
From V Require Import Model.Estimator Proofs.Estimator.
From Coq Require Import Arith PeanoNat.

Local Open Scope nat_scope.

Section Absorb.
Context {A : Type} (F : Ops A).
Notation est := (@est A).

(* the result r' is the result r with its value increased by ch (one rounding) *)
Definition bumped (ch : A) (r r' : res (A * A)) : Prop :=
  exists v u, r = Ok (v, u) /\ r' = Ok (fadd F v ch, u).

Lemma mget_mset_vec (m : @matrix A) i j v : m_cols m = 1 -> i < length (m_data m) ->
  mget F (mset m i 0 v) j 0 = if j =? i then v else mget F m j 0.
Proof.
  intros Hc Hi. destruct (Nat.eqb_spec j i) as [->|Hne].
  - apply mget_mset_same. rewrite Hc. lia.
  - apply mget_mset_other. rewrite Hc. lia.
Qed.

(* replacing the state vector by one that differs in row i only *)
Lemma entry_bump (st : est) t i ch s : WF st -> bump F st i ch = Ok s ->
  i < m_rows (e_state st) /\
  WF (with_state st t s (e_unc st)) /\
  (forall j, j < m_rows (e_state st) ->
     entry F (with_state st t s (e_unc st)) j =
     if j =? i then Ok (fadd F (mget F (e_state st) i 0) ch, fsqrt F (mget F (e_unc st) i i))
     else entry F st j).
Proof.
  intros W H. pose proof (WF_bump F st t i ch s W H) as W'.
  unfold bump in H. destruct (in_range (e_state st) i 0) eqn:Hr; [|discriminate].
  inversion H as [Hs]. subst s. unfold in_range in Hr. apply andb_true_iff in Hr. destruct Hr as [Hr _].
  apply Nat.ltb_lt in Hr. split; auto. split; [exact W'|].
  intros j Hj. rewrite (entry_ok F _ j W') by (cbn; exact Hj).
  cbn [with_state e_state e_unc].
  rewrite mget_mset_vec; [|apply (wf_cols _ W)|rewrite (wf_len _ W); exact Hr].
  destruct (Nat.eqb_spec j i) as [->|Hne]; auto.
  now rewrite (entry_ok F st j W Hj).
Qed.

Definition same_infos (st st' : est) : Prop :=
  e_clocks st' = e_clocks st /\ e_ext st' = e_ext st /\ e_links st' = e_links st.

(* what an absorption at row i of clock id does to the reports *)
Lemma absorb_at (st st' : est) id c i ch t s : WF st ->
  get_clock_info st id = Some c -> (i = offset_index c \/ i = frequency_index c) ->
  bump F st i ch = Ok s -> st' = with_state st t s (e_unc st) ->
  WF st' /\ same_infos st st' /\
  (i = offset_index c -> bumped ch (clock_offset F st id) (clock_offset F st' id)
                         /\ clock_frequency F st' id = clock_frequency F st id) /\
  (i = frequency_index c -> bumped ch (clock_frequency F st id) (clock_frequency F st' id)
                            /\ clock_offset F st' id = clock_offset F st id) /\
  (forall id', id' <> id -> clock_offset F st' id' = clock_offset F st id'
                            /\ clock_frequency F st' id' = clock_frequency F st id') /\
  (forall l, link_delay F st' l = link_delay F st l).
Proof.
  intros W Hc Hi Hb ->. destruct (entry_bump st t i ch s W Hb) as (Hlt & W' & He).
  destruct (get_clock_info_some _ _ _ Hc) as [Hin Hid].
  pose proof (wf_cb _ W c Hin) as Hcb.
  split; auto. split; [repeat split|].
  assert (Hg : forall x, get_clock_info (with_state st t s (e_unc st)) x = get_clock_info st x) by reflexivity.
  assert (Hgl : forall x, get_link_info (with_state st t s (e_unc st)) x = get_link_info st x) by reflexivity.
  unfold offset_index, frequency_index in *.
  split; [|split; [|split]].
  - intros ->. unfold clock_offset, clock_frequency. rewrite Hg, Hc.
    unfold offset_index, frequency_index. rewrite !He by lia. rewrite Nat.eqb_refl.
    replace (ci_base c + 1 =? ci_base c) with false by (symmetry; apply Nat.eqb_neq; lia).
    split; auto. exists (mget F (e_state st) (ci_base c) 0), (fsqrt F (mget F (e_unc st) (ci_base c) (ci_base c))).
    split; auto. apply (entry_ok F st _ W). lia.
  - intros ->. unfold clock_offset, clock_frequency. rewrite Hg, Hc.
    unfold offset_index, frequency_index. rewrite !He by lia. rewrite Nat.eqb_refl.
    replace (ci_base c =? ci_base c + 1) with false by (symmetry; apply Nat.eqb_neq; lia).
    split; auto. exists (mget F (e_state st) (ci_base c + 1) 0), (fsqrt F (mget F (e_unc st) (ci_base c + 1) (ci_base c + 1))).
    split; auto. apply (entry_ok F st _ W). lia.
  - intros id' Hne. unfold clock_offset, clock_frequency. rewrite Hg.
    destruct (get_clock_info st id') as [c'|] eqn:Hc'; auto.
    destruct (get_clock_info_some _ _ _ Hc') as [Hin' Hid'].
    pose proof (wf_cb _ W c' Hin') as Hcb'.
    assert (Hs : sep (ci_base c') 2 (ci_base c) 2) by (apply (wf_cc _ W); auto; congruence).
    unfold sep in Hs. unfold offset_index, frequency_index. rewrite !He by lia.
    replace (ci_base c' =? i) with false by (symmetry; apply Nat.eqb_neq; lia).
    replace (ci_base c' + 1 =? i) with false by (symmetry; apply Nat.eqb_neq; lia). auto.
  - intros l. unfold link_delay. rewrite Hgl.
    destruct (get_link_info st l) as [li|] eqn:Hl; auto.
    destruct (get_link_info_some _ _ _ Hl) as [Hlin _].
    pose proof (wf_lb _ W li Hlin) as Hlb.
    pose proof (wf_cl _ W c li Hin Hlin) as Hs. unfold sep in Hs.
    rewrite He by lia.
    replace (li_index li =? i) with false by (symmetry; apply Nat.eqb_neq; lia). auto.
Qed.

End Absorb.
