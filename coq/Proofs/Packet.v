(* Proofs about the packet codec model: the decoder is total (C23). *)
From V Require Import Model.Packet Proofs.Bytes.
From V Require Import Gen.ConstPacket.
From Coq Require Import ZifyBool.
Ltac Zify.zify_post_hook ::= Z.div_mod_to_equations.

Lemma census_holds : census_ok = true.
Proof. vm_compute. reflexivity. Qed.

(* ---- "does not panic" ---- *)
Definition np {A} (r : res A) : Prop := forall s, r <> Panic s.

Lemma np_ok : forall A (a : A), np (Ok a).
Proof. intros A a s H; discriminate. Qed.
Lemma np_err : forall A e, np (@Err A e).
Proof. intros A e s H; discriminate. Qed.
Lemma np_bind : forall A B (r : res A) (k : A -> res B),
  np r -> (forall a, r = Ok a -> np (k a)) -> np (res_bind r k).
Proof.
  intros A B r k Hr Hk. destruct r; cbn [res_bind].
  - apply Hk; reflexivity.
  - apply np_err.
  - exfalso; eapply Hr; reflexivity.
Qed.

Lemma bind_ok_inv : forall A B (r : res A) (k : A -> res B) b,
  res_bind r k = Ok b -> exists a, r = Ok a /\ k a = Ok b.
Proof. intros A B r k b H; destruct r; cbn [res_bind] in H; try discriminate. eauto. Qed.

Lemma idx_np : forall b i site, 0 <= i < blen b -> np (idx b i site).
Proof. intros b i site H. destruct (idx_ok b i site H) as (x & -> & _). apply np_ok. Qed.
Lemma range_np : forall b lo hi site, 0 <= lo -> lo <= hi -> hi <= blen b -> np (range b lo hi site).
Proof. intros; rewrite range_ok by assumption; apply np_ok. Qed.

Definition oracle_wf (dec : oracle) : Prop :=
  forall k n a c p, dec k n a c = Some p -> wf_bytes p.

Lemma wf_cons_inv : forall x b, wf_bytes (x :: b) -> 0 <= x < 256 /\ wf_bytes b.
Proof. intros x b H; inversion H; subst; split; assumption. Qed.

(* ---- raw fields and the streamer ---- *)

Lemma raw_np : forall data minimum v5, np (raw_deserialize data minimum v5).
Proof.
  intros data minimum v5. unfold raw_deserialize.
  destruct data as [|b0 [|b1 [|b2 [|b3 rest]]]]; try apply np_err.
  destruct (_ <? _); [apply np_err|].
  destruct (_ && _); [apply np_err|].
  destruct (slice _ 4 (nm4 _)); [|apply np_err].
  destruct (slice _ 4 _); [apply np_ok|apply np_err].
Qed.

Lemma raw_inv : forall data v5 tid m, wf_bytes data ->
  raw_deserialize data 4 v5 = Ok (tid, m) ->
  4 <= wire_length m /\ wire_length m <= blen data /\ blen m <= 65531 /\ wf_bytes m.
Proof.
  intros data v5 tid m Hwf H. unfold raw_deserialize in H.
  destruct data as [|b0 [|b1 [|b2 [|b3 rest]]]]; try discriminate.
  remember (b0 :: b1 :: b2 :: b3 :: rest) as data eqn:Ed.
  assert (0 <= b2 < 256 /\ 0 <= b3 < 256) as [Hb2 Hb3].
  { subst data. apply wf_cons_inv in Hwf. destruct Hwf as [_ Hwf].
    apply wf_cons_inv in Hwf. destruct Hwf as [_ Hwf].
    apply wf_cons_inv in Hwf. destruct Hwf as [? Hwf].
    apply wf_cons_inv in Hwf. destruct Hwf as [? Hwf]. split; assumption. }
  destruct (_ <? _) eqn:E1; [discriminate|].
  destruct (_ && _) eqn:E2; [discriminate|].
  destruct (slice data 4 (nm4 _)) eqn:E3; [|discriminate].
  destruct (slice data 4 (b2 * 256 + b3)) eqn:E4; [|discriminate].
  clear Ed. inversion H; subst; clear H.
  pose proof (wf_slice _ _ _ _ Hwf E4) as Hwm.
  apply slice_some in E3. apply slice_some in E4.
  destruct E3 as (_ & _ & E3 & _). destruct E4 as (_ & E4a & E4b & _ & E4c).
  unfold wire_length. replace (2 + 2 + blen m) with (b2 * 256 + b3) by lia.
  pose proof (nm4_ge (b2 * 256 + b3)). repeat split; try lia; assumption.
Qed.

Lemma stream_next_np : forall buf cutoff minimum v5 offset e off',
  stream_next buf cutoff minimum v5 offset = Some (e, off') -> np e.
Proof.
  intros buf cutoff minimum v5 offset e off' H. unfold stream_next in H.
  destruct (_ >? _); [discriminate|]. destruct (_ <=? _); [discriminate|].
  pose proof (raw_np (bdrop offset buf) minimum v5) as Hn.
  destruct (raw_deserialize _ _ _) as [[tid m]|e'|s]; inversion H; subst.
  - apply np_ok. - apply np_err. - exfalso; eapply Hn; reflexivity.
Qed.

Lemma stream_next_inv : forall buf cutoff v5 offset tid m off', wf_bytes buf -> 0 <= offset ->
  stream_next buf cutoff 4 v5 offset = Some (Ok (tid, m), off') ->
  off' = offset + wire_length m /\ offset + 4 <= off' /\ off' <= blen buf /\ blen m <= 65531 /\ wf_bytes m.
Proof.
  intros buf cutoff v5 offset tid m off' Hwf Ho H. unfold stream_next in H.
  destruct (_ >? _) eqn:E0; [discriminate|]. destruct (_ <=? _); [discriminate|].
  destruct (raw_deserialize _ _ _) as [[tid' m']|e'|s] eqn:E; inversion H; subst.
  apply raw_inv in E; [|apply wf_bdrop; assumption].
  rewrite blen_bdrop in E by lia. destruct E as (? & ? & ? & ?).
  repeat split; try lia; assumption.
Qed.

(* ---- typed decode ---- *)

Lemma decode_field_np : forall tid m v5, blen m <= 65535 -> np (decode_field tid m v5).
Proof.
  intros tid m v5 H. unfold decode_field.
  destruct (tid =? T_UID); [apply np_ok|].
  destruct (tid =? T_COOKIE); [apply np_ok|].
  destruct (tid =? T_PLACEHOLDER). { destruct (all_zero m); [apply np_ok|apply np_err]. }
  destruct (_ && _). { destruct (all_ascii m); [apply np_ok|apply np_err]. }
  destruct (_ && _).
  { apply np_bind.
    - unfold refreq_decode. replace (blen m >? 65535) with false by lia.
      destruct (slice m 0 2); [apply np_ok|apply np_err].
    - intros [plen off] _. destruct (_ =? _); [apply np_ok|apply np_err]. }
  destruct (_ && _); apply np_ok.
Qed.

Lemma inner_fields_np : forall pt v5, wf_bytes pt -> forall fuel offset,
  0 <= offset <= blen pt -> blen pt - offset < Z.of_nat fuel -> np (inner_fields fuel pt v5 offset).
Proof.
  intros pt v5 Hwf. induction fuel as [|fuel IH]; intros offset Ho Hf.
  - lia.
  - cbn [inner_fields]. unfold EF_BARE_MINIMUM_SIZE.
    destruct (stream_next pt 0 4 v5 offset) as [[e off']|] eqn:E; [|apply np_ok].
    pose proof (stream_next_np _ _ _ _ _ _ _ E) as Hn.
    destruct e as [[tid m]|e|s]; [|apply np_err|exfalso; eapply Hn; reflexivity].
    apply stream_next_inv in E; [|assumption|lia]. destruct E as (_ & ? & ? & ? & ?).
    destruct (tid =? T_ENCRYPTED); [apply np_err|].
    apply np_bind; [apply decode_field_np; lia|]. intros f _.
    apply np_bind; [apply IH; lia|]. intros r _. apply np_ok.
Qed.

(* ---- cookies ---- *)

Lemma cookie_of_plaintext_np : forall pt, np (cookie_of_plaintext pt).
Proof.
  intros pt. unfold cookie_of_plaintext. destruct pt as [|b0 [|b1 kb]]; try apply np_ok.
  assert (forall w, 0 <= w -> np (if blen kb =? 2 * w
            then if (blen (btake w kb) =? w) && (blen (bdrop w kb) =? w)
                 then Ok (Some (mkCookie (b0 * 256 + b1) (btake w kb) (bdrop w kb))) else Panic S_COOKIE_KEY
            else Ok None)) as Hmk.
  { intros w Hw. destruct (blen kb =? 2 * w) eqn:E; [|apply np_ok].
    rewrite blen_btake by lia. rewrite blen_bdrop by lia.
    replace ((w =? w) && (blen kb - w =? w)) with true by lia. apply np_ok. }
  destruct (_ =? AEAD_ID_256); [apply Hmk; unfold COOKIE_KEY_WIDTH_256; lia|].
  destruct (_ =? AEAD_ID_512); [apply Hmk; unfold COOKIE_KEY_WIDTH_512; lia|].
  apply np_ok.
Qed.

Lemma decode_cookie_np : forall dec keys off c, np (decode_cookie dec keys off c).
Proof.
  intros dec keys off c. unfold decode_cookie.
  unfold COOKIE_MIN_LEN_ID, COOKIE_MIN_LEN_CT, COOKIE_MIN_LEN_NONCE.
  destruct (blen c <? 4 + 2 + 16) eqn:E; [apply np_ok|].
  apply np_bind; [apply range_np; lia|]. intros idb _.
  destruct (if _ <? _ then _ else _); [|apply np_ok].
  apply np_bind; [apply idx_np; lia|]. intros c4 _.
  apply np_bind; [apply idx_np; lia|]. intros c5 _.
  apply np_bind; [apply range_np; lia|]. intros nonce _.
  apply np_bind; [apply range_np; lia|]. intros rest _.
  destruct (slice rest 0 _); [|apply np_ok].
  destruct (dec _ _ _ _); [apply cookie_of_plaintext_np|apply np_ok].
Qed.

Lemma keyset_get_np : forall dec keys off context decoded, np (keyset_get dec keys off context decoded).
Proof.
  intros dec keys off context. induction context as [|f rest IH]; intros decoded; cbn [keyset_get].
  - apply np_ok.
  - destruct f; try apply IH.
    destruct decoded; [apply np_ok|].
    apply np_bind; [apply decode_cookie_np|]. intros r _. destruct r; [apply IH|apply np_ok].
Qed.

Lemma cipher_get_np : forall dec cx context, np (cipher_get dec cx context).
Proof.
  intros dec cx context. destruct cx; cbn [cipher_get]; try apply np_ok.
  apply np_bind; [apply keyset_get_np|]. intros; apply np_ok.
Qed.

(* ---- the extension field loop ---- *)

Lemma enc_from_message_np : forall m, np (enc_from_message m).
Proof.
  intros m. unfold enc_from_message. destruct m as [|b0 [|b1 [|b2 [|b3 rest]]]]; try apply np_err.
  destruct (slice rest 0 _); [|apply np_err]. destruct (slice _ _ _); [apply np_ok|apply np_err].
Qed.

Lemma ef_loop_inv : forall dec cx data hs v5 buf, wf_bytes buf -> oracle_wf dec ->
  0 <= hs -> hs + blen buf = blen data ->
  forall fuel offset st, 0 <= offset <= blen buf -> blen buf - offset < Z.of_nat fuel ->
  0 <= l_size st <= blen buf ->
  np (ef_loop fuel dec cx data hs v5 buf offset st) /\
  forall st', ef_loop fuel dec cx data hs v5 buf offset st = Ok st' -> 0 <= l_size st' <= blen buf.
Proof.
  intros dec cx data hs v5 buf Hwf Hdec Hhs Hlen.
  induction fuel as [|fuel IH]; intros offset st Ho Hf Hs.
  - lia.
  - cbn [ef_loop]. unfold EF_V4_UNENCRYPTED_MINIMUM_SIZE.
    destruct (stream_next buf (ef_cutoff v5) 4 v5 offset) as [[e off']|] eqn:E.
    2:{ split; [apply np_ok|]. intros st' H; inversion H; subst; assumption. }
    pose proof (stream_next_np _ _ _ _ _ _ _ E) as Hn.
    destruct e as [[tid m]|e|s].
    2:{ split; [apply np_err|discriminate]. }
    2:{ exfalso; eapply Hn; reflexivity. }
    apply stream_next_inv in E; [|assumption|lia]. destruct E as (Eoff & ? & ? & ? & ?).
    rewrite <- Eoff.
    assert (forall st1, l_size st1 = off' ->
              np (ef_loop fuel dec cx data hs v5 buf off' st1) /\
              forall st', ef_loop fuel dec cx data hs v5 buf off' st1 = Ok st' -> 0 <= l_size st' <= blen buf) as Hnext.
    { intros st1 Hst1. apply IH; lia. }
    destruct (tid =? T_ENCRYPTED).
    + pose proof (enc_from_message_np m) as Hm.
      destruct (enc_from_message m) as [[nonce ct]|e|s]; cbn [res_bind].
      2:{ split; [apply np_err|discriminate]. }
      2:{ exfalso; eapply Hm; reflexivity. }
      pose proof (cipher_get_np dec cx (untrusted (l_ef (set_size st off')))) as Hc.
      destruct (cipher_get _ _ _) as [h|e|s]; cbn [res_bind].
      2:{ split; [apply np_err|discriminate]. }
      2:{ exfalso; eapply Hc; reflexivity. }
      destruct h as [h|]; [|apply Hnext; reflexivity].
      rewrite range_ok by lia. cbn [res_bind].
      destruct (dec _ _ _ _) as [pt|] eqn:Ed; [|apply Hnext; reflexivity].
      pose proof (inner_fields_np pt v5 (Hdec _ _ _ _ _ Ed) (S (List.length pt)) 0) as Hi.
      assert (np (inner_fields (S (List.length pt)) pt v5 0)) as Hi'.
      { apply Hi; [pose proof (blen_nonneg pt); lia|unfold blen; lia]. }
      destruct (inner_fields _ _ _ _) as [fs|e|s]; cbn [res_bind].
      * apply Hnext; reflexivity.
      * split; [apply np_err|discriminate].
      * exfalso; eapply Hi'; reflexivity.
    + pose proof (decode_field_np tid m v5) as Hd.
      destruct (decode_field tid m v5) as [f|e|s]; cbn [res_bind].
      * apply Hnext; reflexivity.
      * split; [apply np_err|discriminate].
      * exfalso; eapply Hd; [lia|reflexivity].
Qed.

Lemma efdata_deserialize_np : forall dec cx data hs v5, wf_bytes data -> oracle_wf dec ->
  0 <= hs <= blen data -> np (efdata_deserialize dec cx data hs v5).
Proof.
  intros dec cx data hs v5 Hwf Hdec Hhs. unfold efdata_deserialize.
  rewrite range_ok by lia. cbn [res_bind].
  set (buf := btake (blen data - hs) (bdrop hs data)).
  assert (blen buf = blen data - hs) as Hb.
  { unfold buf. rewrite blen_btake; [reflexivity|]. rewrite blen_bdrop; lia. }
  assert (wf_bytes buf) as Hwb by (apply wf_btake, wf_bdrop; assumption).
  destruct (ef_loop_inv dec cx data hs v5 buf Hwb Hdec (proj1 Hhs) ltac:(lia)
              (S (List.length buf)) 0 (mkL efdata_empty 0 true None)) as [Hn Hs].
  { pose proof (blen_nonneg buf); lia. }
  { unfold blen; lia. }
  { cbn [l_size]. pose proof (blen_nonneg buf); lia. }
  apply np_bind; [exact Hn|]. intros st Hst. apply Hs in Hst.
  apply np_bind; [apply range_np; lia|]. intros; apply np_ok.
Qed.

(* ---- mac, headers, packet ---- *)

Lemma mac_deserialize_np : forall data, np (mac_deserialize data).
Proof.
  intros data. unfold mac_deserialize, MAC_MINIMUM_SIZE, MAC_MAXIMUM_SIZE.
  destruct (_ || _) eqn:E; [apply np_err|].
  apply np_bind; [apply range_np; lia|]. intros k _.
  apply np_bind; [apply range_np; lia|]. intros; apply np_ok.
Qed.

Lemma leap_np : forall d0, np (leap_from_bits ((d0 / 64) mod 4)).
Proof.
  intros d0. unfold leap_from_bits.
  destruct (_ =? 0) eqn:E0; [apply np_ok|]. destruct (_ =? 1) eqn:E1; [apply np_ok|].
  destruct (_ =? 2) eqn:E2; [apply np_ok|]. destruct (_ =? 3) eqn:E3; [apply np_ok|]. lia.
Qed.

Lemma mode_np : forall d0, np (mode_from_bits (d0 mod 8)).
Proof. intros d0. unfold mode_from_bits. destruct (_ && _) eqn:E; [apply np_ok|lia]. Qed.

Lemma field_np : forall data lo hi, 0 <= lo -> lo <= hi -> hi <= blen data -> np (field data lo hi).
Proof. intros. unfold field. apply np_bind; [apply range_np; assumption|]. intros; apply np_ok. Qed.

Ltac np_chain :=
  repeat first
    [ apply np_ok | apply np_err
    | apply np_bind;
      [ first [ apply idx_np; lia | apply field_np; lia | apply range_np; lia | apply leap_np | apply mode_np ]
      | intros ? ? ] ].

Lemma hdr34_deserialize_np : forall data, np (hdr34_deserialize data).
Proof.
  intros data. unfold hdr34_deserialize, HDR34_WIRE_LENGTH.
  destruct (blen data <? 48) eqn:E; [apply np_err|]. np_chain.
Qed.

Lemma hdr5_deserialize_np : forall data, np (hdr5_deserialize data).
Proof.
  intros data. unfold hdr5_deserialize, HDR5_WIRE_LENGTH.
  destruct (blen data <? 48) eqn:E; [apply np_err|].
  apply np_bind; [apply idx_np; lia|]. intros d0 _.
  destruct (negb _); [apply np_err|].
  apply np_bind; [apply leap_np|]. intros leap _.
  apply np_bind. { unfold v5_mode_from_bits. destruct (_ || _); [apply np_ok|apply np_err]. } intros mode _.
  apply np_bind; [apply idx_np; lia|]. intros stratum _.
  apply np_bind; [apply idx_np; lia|]. intros poll _.
  apply np_bind; [apply idx_np; lia|]. intros precision _.
  apply np_bind; [apply field_np; lia|]. intros rdel _.
  apply np_bind; [apply field_np; lia|]. intros rdisp _.
  apply np_bind; [apply idx_np; lia|]. intros d12 _.
  apply np_bind. { unfold v5_timescale_from_bits. destruct (_ && _); [apply np_ok|apply np_err]. } intros ts _.
  apply np_bind; [apply idx_np; lia|]. intros era _.
  apply np_bind; [apply range_np; lia|]. intros fb _.
  apply np_bind. { unfold v5_flags_from_bits. destruct (_ || _); [apply np_err|apply np_ok]. } intros flags _.
  np_chain.
Qed.

Lemma construct_packet_np : forall h remaining d, np (construct_packet h remaining d).
Proof.
  intros h remaining d. unfold construct_packet. destruct remaining; [apply np_ok|].
  apply np_bind; [apply mac_deserialize_np|]. intros; apply np_ok.
Qed.

Lemma with_fields_np : forall dec cx data h hs v5, wf_bytes data -> oracle_wf dec ->
  0 <= hs <= blen data -> np (with_fields dec cx data h hs v5).
Proof.
  intros. unfold with_fields.
  apply np_bind; [apply efdata_deserialize_np; assumption|]. intros [[[d remaining] ck] valid] _.
  apply np_bind; [apply construct_packet_np|]. intros p _. destruct valid; apply np_ok.
Qed.

Lemma hdr34_ok_len : forall data h, hdr34_deserialize data = Ok h -> 48 <= blen data.
Proof.
  intros data h H. unfold hdr34_deserialize, HDR34_WIRE_LENGTH in H.
  destruct (blen data <? 48) eqn:E; [discriminate|lia].
Qed.
Lemma hdr5_ok_len : forall data h, hdr5_deserialize data = Ok h -> 48 <= blen data.
Proof.
  intros data h H. unfold hdr5_deserialize, HDR5_WIRE_LENGTH in H.
  destruct (blen data <? 48) eqn:E; [discriminate|lia].
Qed.

Theorem deserialize_total : forall dec cx data, wf_bytes data -> oracle_wf dec ->
  forall s, deserialize dec cx data <> Panic s.
Proof.
  intros dec cx data Hwf Hdec. change (np (deserialize dec cx data)).
  unfold deserialize. destruct data as [|x data']; [apply np_err|].
  remember (x :: data') as data eqn:Ed.
  assert (1 <= blen data) as Hlen by (subst data; rewrite blen_cons; pose proof (blen_nonneg data'); lia).
  apply np_bind; [apply idx_np; lia|]. intros d0 _.
  destruct (_ =? 3).
  { apply np_bind; [apply hdr34_deserialize_np|]. intros h Hh. apply hdr34_ok_len in Hh.
    apply np_bind; [|intros; apply np_ok].
    unfold HDR34_WIRE_LENGTH. destruct (48 =? blen data); [apply np_ok|].
    apply np_bind; [apply range_np; lia|]. intros r _.
    apply np_bind; [apply mac_deserialize_np|]. intros; apply np_ok. }
  destruct (_ =? 4).
  { apply np_bind; [apply hdr34_deserialize_np|]. intros h Hh. apply hdr34_ok_len in Hh.
    apply with_fields_np; try assumption. unfold HDR34_WIRE_LENGTH; lia. }
  destruct (_ =? 5); [|apply np_err].
  apply np_bind; [apply hdr5_deserialize_np|]. intros h Hh. apply hdr5_ok_len in Hh.
  apply np_bind; [apply with_fields_np; try assumption; unfold HDR5_WIRE_LENGTH; lia|].
  intros o _. destruct o as [p ck|p]; [|apply np_ok].
  destruct (draft_id p); [|apply np_err]. destruct (bytes_eqb _ _); [apply np_ok|apply np_err].
Qed.

Corollary deserialize_outcome : forall dec cx data, wf_bytes data -> oracle_wf dec ->
  (exists o, deserialize dec cx data = Ok o) \/ (exists e, deserialize dec cx data = Err e).
Proof.
  intros dec cx data Hwf Hdec. pose proof (deserialize_total dec cx data Hwf Hdec) as H.
  destruct (deserialize dec cx data) as [o|e|s]; [left; eauto|right; eauto|exfalso; eapply H; reflexivity].
Qed.

(* the table oracles of the correspondence are well-formed when their plaintexts are *)
Definition wf_bytes_b (b : bytes) : bool := forallb (fun x => (0 <=? x) && (x <? 256)) b.
Lemma wf_bytes_check : forall b, wf_bytes_b b = true -> wf_bytes b.
Proof.
  intros b H. unfold wf_bytes_b in H. rewrite forallb_forall in H.
  unfold wf_bytes. rewrite Forall_forall. intros x Hx. apply H in Hx. unfold is_byte. lia.
Qed.

Lemma table_dec_wf : forall t, forallb (fun e => wf_bytes_b (snd e)) t = true -> oracle_wf (table_dec t).
Proof.
  induction t as [|[[[[k' n'] a'] c'] p] t IH]; intros H k n a c q Hq; cbn [table_dec] in Hq.
  - discriminate.
  - cbn [forallb snd] in H. apply andb_prop in H. destruct H as [Hp Ht].
    destruct (_ && _).
    + inversion Hq; subst. apply wf_bytes_check; assumption.
    + eapply IH; eassumption.
Qed.
