(* Proofs about the packet codec model (C23, C24). *)
From V Require Import Model.Packet.
From V Require Import Gen.ConstPacket.

Lemma census_holds : census_ok = true.
Proof. vm_compute. reflexivity. Qed.
