(* Poll interval bounds (C10) and the size of poll requests (C14). *)
From V Require Import Model.Source Gen.ConstSource Gen.ConstSourceS2 Proofs.SourceBase Proofs.SourceIncoming.
From Coq Require Import ZifyBool.
Open Scope Z_scope.

Ltac Zify.zify_post_hook ::= Z.div_mod_to_equations.

(* ------------------------------------------------------------------ *)
(* C10: the filter's desired interval                                  *)
(* ------------------------------------------------------------------ *)

Definition within (c : cfg) (p : Z) : Prop := c_min c <= p <= c_max c.

Lemma poll_inc_within : forall c p, cfg_ok c -> within c p -> within c (poll_inc c p).
Proof.
  intros c p C W. unfold cfg_ok, within in *. unfold poll_inc, sat_i8. lia.
Qed.

Lemma poll_dec_within : forall c p, cfg_ok c -> within c p -> within c (poll_dec c p).
Proof.
  intros c p C W. unfold cfg_ok, within in *. unfold poll_dec, sat_i8. lia.
Qed.

Definition desire_ok (c : cfg) (ph : dphase) : Prop := within c (get_desired_poll c ph).

Lemma dstep_ok : forall c initial hyst ph e,
  cfg_ok c -> within c initial -> desire_ok c ph -> desire_ok c (dstep c initial hyst ph e).
Proof.
  intros c initial hyst ph e C I D. unfold desire_ok in *.
  destruct ph as [|d]; destruct e as [|l h s]; simpl in *; auto.
  unfold update_desired_poll.
  destruct s; [simpl; unfold cfg_ok, within in *; lia|].
  match goal with |- context [if ?b then _ else _] => destruct b end;
    [simpl; now apply poll_inc_within|].
  match goal with |- context [if ?b then _ else _] => destruct b end;
    [simpl; now apply poll_dec_within|].
  simpl. auto.
Qed.

Theorem filter_desire : forall c initial hyst evs ph,
  cfg_ok c -> within c initial -> desire_ok c ph ->
  desire_ok c (fold_left (dstep c initial hyst) evs ph).
Proof.
  intros c initial hyst. induction evs as [|e evs IH]; intros ph C I D; simpl; auto.
  apply IH; auto. now apply dstep_ok.
Qed.

Lemma desire_initial_ok : forall c, cfg_ok c -> desire_ok c DInitial.
Proof. intros c C. unfold desire_ok, within, cfg_ok in *. simpl. lia. Qed.

Theorem filter_desire_initial : forall c initial hyst evs,
  cfg_ok c -> within c initial ->
  within c (get_desired_poll c (fold_left (dstep c initial hyst) evs DInitial)).
Proof.
  intros c initial hyst evs C I.
  exact (filter_desire c initial hyst evs DInitial C I (desire_initial_ok c C)).
Qed.

(* ------------------------------------------------------------------ *)
(* C10: the poll field of requests                                     *)
(* ------------------------------------------------------------------ *)

(* the controller's desire handed to handle_timer lies within the limits (filter_desire) *)
Definition desire_in (c : cfg) (e : event) : Prop :=
  match e with Timer _ d => within c d | _ => True end.

(* the poll intervals an accepted NTPv5 answer asked for, along a run *)
Fixpoint accepted_polls (c : cfg) (s : st) (evs : list event) : list Z :=
  match evs with
  | [] => []
  | e :: rest =>
    match step c s e with
    | Ok (s1, a) =>
      (match e, a with
       | Incoming _ (Some p), [Measure _] => if is_v5 p then [p_poll p] else []
       | _, _ => []
       end) ++ accepted_polls c s1 rest
    | _ => []
    end
  end.

Definition send_within (lo hi : Z) (a : action) : Prop :=
  match a with Send r => lo <= r_poll r <= hi | _ => True end.

Lemma bounds_step : forall c s e s' acts B,
  desire_in c e -> c_max c <= B -> s_remote_min s <= B -> s_last_poll s <= B ->
  step c s e = Ok (s', acts) ->
  Forall (fun q => q <= B) (accepted_polls c s [e]) ->
  s_remote_min s' <= B /\ s_last_poll s' <= B /\ Forall (send_within (c_min c) B) acts.
Proof.
  intros c s e s' acts B D CB R L H A. simpl in A. rewrite H in A. rewrite app_nil_r in A.
  destruct e as [now d|now op]; simpl in H.
  - simpl in D. unfold within in D. apply step_timer_inv in H.
    destruct H as [(_ & -> & ->)|[(_ & _ & -> & ->)|(_ & r & -> & -> & P & _)]].
    + repeat split; auto. destruct (s_deny s); repeat constructor.
    + unfold polled; cbn [s_remote_min s_last_poll]. repeat split; auto. repeat constructor.
    + unfold polled; cbn [s_remote_min s_last_poll]. repeat split; auto; try lia.
      repeat constructor; simpl; lia.
  - injection H as H. apply step_incoming_cases in H.
    destruct H as [(-> & -> & _)|(p & id & -> & _ & O)].
    + repeat split; auto.
    + inversion O; subst; unfold vstate, process_message;
        cbn [s_remote_min s_last_poll set_ver set_remote_min set_deny fst];
        try solve [repeat split; auto; repeat constructor].
      * (* RATE *) repeat split; auto; try constructor. unfold poll_inc. lia.
      * (* answer *)
        unfold is_v5 in *. destruct (p_ver p =? 5) eqn:V5; simpl.
        -- inversion A as [|? ? Q _]; subst.
           destruct (p_poll p >? s_remote_min s); repeat split; auto; try lia; repeat constructor.
        -- repeat split; auto; repeat constructor.
Qed.

Lemma accepted_polls_cons : forall c s e evs s1 a,
  step c s e = Ok (s1, a) ->
  accepted_polls c s (e :: evs) = accepted_polls c s [e] ++ accepted_polls c s1 evs.
Proof. intros c s e evs s1 a H. simpl. rewrite H. now rewrite app_nil_r. Qed.

Theorem poll_bounds_gen : forall c evs s s' tr B,
  Forall (desire_in c) evs -> c_max c <= B -> s_remote_min s <= B -> s_last_poll s <= B ->
  run c s evs = Ok (s', tr) ->
  Forall (fun q => q <= B) (accepted_polls c s evs) ->
  Forall (send_within (c_min c) B) (concat tr).
Proof.
  intros c. induction evs as [|e evs IH]; intros s s' tr B D CB R L H A.
  - injection H as <- <-. constructor.
  - apply run_cons in H. destruct H as (s1 & a & tr' & H1 & H2 & ->).
    inversion D as [|? ? De Dr]; subst.
    rewrite (accepted_polls_cons _ _ _ _ _ _ H1) in A. apply Forall_app in A. destruct A as [A1 A2].
    destruct (bounds_step _ _ _ _ _ _ De CB R L H1 A1) as (R1 & L1 & F1).
    simpl. apply Forall_app. split; auto. eapply IH; eauto.
Qed.

Lemma fold_max_ge : forall l b, b <= fold_right Z.max b l /\ Forall (fun q => q <= fold_right Z.max b l) l.
Proof.
  induction l as [|x l IH]; intros b; simpl.
  - split; [lia|constructor].
  - destruct (IH b) as [I1 I2]. split; [lia|]. constructor; [lia|].
    eapply Forall_impl; [|exact I2]. intros; simpl in *; lia.
Qed.

(* every request of a source created by NtpSource::new polls no faster than the
   configured minimum and no slower than the larger of the configured maximum
   and what accepted NTPv5 answers asked for *)
Theorem poll_bounds : forall c nts stash v evs s' tr,
  c_min c <= c_max c -> Forall (desire_in c) evs ->
  run c (init c nts stash v) evs = Ok (s', tr) ->
  Forall (send_within (c_min c)
            (fold_right Z.max (c_max c) (accepted_polls c (init c nts stash v) evs)))
         (concat tr).
Proof.
  intros c nts stash v evs s' tr C D H.
  destruct (fold_max_ge (accepted_polls c (init c nts stash v) evs) (c_max c)) as [G1 G2].
  eapply poll_bounds_gen; eauto; simpl; lia.
Qed.

(* the timer armed together with a request *)
Lemma system_duration_clamp : forall p,
  system_duration_secs p = 2 ^ Z.max 0 (Z.min SYSTEM_DURATION_MAX_SHIFT p).
Proof.
  intros p. unfold system_duration_secs, SYSTEM_DURATION_MAX_SHIFT.
  destruct (p <? 0) eqn:A; [f_equal; lia|].
  destruct (p >? 31) eqn:B; f_equal; lia.
Qed.

Theorem timer_value : forall c s now d s' acts r b,
  step_timer c s now d = Ok (s', acts) -> In (Send r) acts -> In (SetTimer b) acts ->
  b = 2 ^ Z.max 0 (Z.min SYSTEM_DURATION_MAX_SHIFT (r_poll r)).
Proof.
  intros c s now d s' acts r b H I J. apply step_timer_inv in H.
  destruct H as [(_ & _ & ->)|[(_ & _ & -> & _)|(_ & r' & -> & _ & P & _)]].
  - destruct (s_deny s); destruct I as [I|[]]; discriminate.
  - destruct I as [I|[]]; discriminate.
  - destruct I as [I|[I|[]]]; [|discriminate]. injection I as <-.
    destruct J as [J|[J|[]]]; [discriminate|]. injection J as <-.
    rewrite <- P. apply system_duration_clamp.
Qed.

(* what the correspondence accepts as the implementation's timer for base b seconds:
   b * [1.01, 1.05] in nanoseconds, +- 1 ns *)
Lemma timer_window : forall b ns,
  obs_eqb (OTimer b) (OTimer ns) = true <->
  (100 + JITTER_LO_PERCENT) * 10000000 * b - 1 <= ns <= (100 + JITTER_HI_PERCENT) * 10000000 * b + 1.
Proof. intros b ns. simpl. lia. Qed.

(* ------------------------------------------------------------------ *)
(* C14: request sizes                                                  *)
(* ------------------------------------------------------------------ *)

Lemma ef_uid : ef_size AUTH_MIN_FIELD_SIZE UID_LENGTH = 36.
Proof. reflexivity. Qed.
Lemma ef_draft_auth : ef_size AUTH_MIN_FIELD_SIZE draft_len = 28.
Proof. reflexivity. Qed.
Lemma ef_draft_plain : ef_size V5_UNTRUSTED_MIN_FIELD_SIZE draft_len = 28.
Proof. reflexivity. Qed.
Lemma refid_size : refid_request_size = 20.
Proof. reflexivity. Qed.
Lemma nts_size : nts_field_size = 40.
Proof. reflexivity. Qed.

(* closed formula *)
Lemma request_size_formula : forall nts v5 clen n,
  request_size nts v5 clen n =
  48 + (if nts then 36 + n * (((Z.max 16 (clen + 4) + 3) / 4) * 4) + (if v5 then 48 else 0) + 40
        else if v5 then 48 else 0).
Proof.
  intros nts v5 clen n. unfold request_size.
  rewrite ef_uid, ef_draft_auth, ef_draft_plain, refid_size, nts_size.
  unfold ef_size, pad4, HEADER_V4_LENGTH, AUTH_MIN_FIELD_SIZE, EF_HEADER_LENGTH.
  destruct nts, v5; lia.
Qed.

Definition MAX_REQUEST : Z := 952.

Lemma request_fits : forall v5 clen n,
  0 <= clen -> 1 <= n <= 8 -> n <= (SEND_BUFFER_SIZE - COOKIE_MARGIN) / Z.max clen 1 ->
  request_size true v5 clen n <= MAX_REQUEST /\ clen <= SEND_BUFFER_SIZE - COOKIE_MARGIN.
Proof.
  intros v5 clen n C N Q. rewrite request_size_formula.
  unfold SEND_BUFFER_SIZE, COOKIE_MARGIN, MAX_REQUEST in *. change (1024 - 300) with 724 in *.
  set (m := Z.max clen 1) in *.
  assert (M : 1 <= m) by (unfold m; lia).
  assert (Q2 : n * m <= 724).
  { pose proof (Z.mul_div_le 724 m ltac:(lia)). nia. }
  assert (CL : clen <= 724) by (unfold m in *; nia).
  split; auto.
  assert (E : n * (((Z.max 16 (clen + 4) + 3) / 4) * 4) <= 780).
  { destruct (Z_le_gt_dec clen 12).
    - replace (Z.max 16 (clen + 4)) with 16 by lia. change ((16 + 3) / 4 * 4) with 16. lia.
    - replace (Z.max 16 (clen + 4)) with (clen + 4) by lia.
      assert ((clen + 4 + 3) / 4 * 4 <= clen + 7) by lia.
      assert (n * clen <= 724) by (unfold m in *; nia). nia. }
  destruct v5; lia.
Qed.

Lemma plain_fits : forall v5, request_size false v5 0 0 <= 96.
Proof. intros []; vm_compute; discriminate. Qed.

Definition stash_ok (l : list cookie) : Prop :=
  Z.of_nat (length l) <= MAX_COOKIES /\ Forall (fun k => 0 <= cookie_len k) l.

(* handle_timer cannot hit the expect on serialize, whatever cookies are in the stash *)
Theorem timer_total : forall c s now d x,
  stash_ok (s_stash s) -> step_timer c s now d <> Panic x.
Proof.
  intros c s now d x [L F]. unfold step_timer.
  destruct ((s_reach s =? 0) && (STARTUP_TRIES_THRESHOLD <=? s_tries s)); [discriminate|].
  cbv zeta. destruct (s_nts s).
  - destruct (s_stash s) as [|k rest]; [discriminate|].
    set (n := Z.min (stash_gap rest) (Z.min ((SEND_BUFFER_SIZE - COOKIE_MARGIN) / Z.max (cookie_len k) 1) 255)).
    destruct (n =? 0) eqn:N0; [discriminate|].
    inversion F as [|? ? K F']; subst.
    assert (G : 1 <= stash_gap rest <= 8).
    { unfold stash_gap, MAX_COOKIES in *. simpl length in L. lia. }
    assert (Q : 0 <= (SEND_BUFFER_SIZE - COOKIE_MARGIN) / Z.max (cookie_len k) 1).
    { apply Z.div_pos; unfold SEND_BUFFER_SIZE, COOKIE_MARGIN; lia. }
    assert (N : 1 <= n <= 8 /\ n <= (SEND_BUFFER_SIZE - COOKIE_MARGIN) / Z.max (cookie_len k) 1) by (unfold n in *; lia).
    destruct N as [N1 N2].
    match goal with |- context [request_size true ?v (cookie_len k) n] =>
      destruct (request_fits v (cookie_len k) n K N1 N2) as [S1 S2] end.
    match goal with |- context [if ?b then _ else _] => assert (b = true) as -> end; [|discriminate].
    apply andb_true_intro. unfold ef_encodable, MAX_REQUEST, SEND_BUFFER_SIZE, COOKIE_MARGIN, EF_HEADER_LENGTH in *. split; lia.
  - match goal with |- context [request_size false ?v 0 0] => pose proof (plain_fits v) as P end.
    match goal with |- context [if ?b then _ else _] => assert (b = true) as -> end; [|discriminate].
    unfold SEND_BUFFER_SIZE. lia.
Qed.

(* requests never exceed the send buffer; NTS requests stay below MAX_REQUEST *)
Theorem send_fits : forall c s now d s' acts r,
  step_timer c s now d = Ok (s', acts) -> In (Send r) acts -> r_len r <= SEND_BUFFER_SIZE.
Proof.
  intros c s now d s' acts r H I. apply step_timer_inv in H.
  destruct H as [(_ & _ & ->)|[(_ & _ & -> & _)|(_ & r' & -> & _ & _ & _ & _ & _ & Len)]].
  - destruct (s_deny s); destruct I as [I|[]]; discriminate.
  - destruct I as [I|[]]; discriminate.
  - destruct I as [I|[I|[]]]; [|discriminate]. injection I as <-. exact Len.
Qed.

(* the stash stays well formed along every run whose packets carry cookies of
   non-negative length *)
Definition cookies_ok (e : event) : Prop :=
  match e with Incoming _ (Some p) => Forall (fun k => 0 <= cookie_len k) (cookies_encr p) | _ => True end.

Lemma stash_store_ok : forall l k, stash_ok l -> 0 <= cookie_len k -> stash_ok (stash_store l k).
Proof.
  intros l k [L F] K. unfold stash_ok, stash_store, MAX_COOKIES in *.
  destruct (Z.of_nat (length l) <? 8) eqn:E.
  - rewrite app_length. simpl length. split; [lia|]. apply Forall_app. split; auto.
  - rewrite app_length. simpl length. destruct l as [|x l]; simpl in *.
    + split; [lia|]. auto.
    + inversion F; subst. split; [lia|]. apply Forall_app. split; auto.
Qed.

Lemma fold_store_ok : forall ks l, stash_ok l -> Forall (fun k => 0 <= cookie_len k) ks ->
  stash_ok (fold_left stash_store ks l).
Proof.
  induction ks as [|k ks IH]; intros l L F; simpl; auto.
  inversion F; subst. apply IH; auto. now apply stash_store_ok.
Qed.

Lemma tl_ok : forall l, stash_ok l -> stash_ok (tl l).
Proof.
  intros [|x l] [L F]; simpl; [split; auto|]. inversion F; subst. split; auto. simpl length in L. lia.
Qed.

Lemma step_stash_ok : forall c s e s' acts,
  cookies_ok e -> stash_ok (s_stash s) -> step c s e = Ok (s', acts) -> stash_ok (s_stash s').
Proof.
  intros c s e s' acts K S H. destruct e as [now d|now op]; simpl in H.
  - apply step_timer_inv in H.
    destruct H as [(_ & -> & _)|[(_ & _ & _ & ->)|(_ & r & _ & -> & _)]]; auto;
      unfold polled; cbn [s_stash]; destruct (s_nts s); auto; now apply tl_ok.
  - injection H as H. apply incoming_stash in H.
    destruct H as [-> |(p & id & -> & _ & _ & ->)]; auto.
    apply fold_store_ok; auto.
Qed.

Theorem run_total : forall c evs s x,
  stash_ok (s_stash s) -> Forall cookies_ok evs -> run c s evs <> Panic x.
Proof.
  intros c. induction evs as [|e evs IH]; intros s x S K; simpl; [discriminate|].
  inversion K as [|? ? Ke Kr]; subst.
  destruct (step c s e) as [[s1 a]| |] eqn:H.
  - pose proof (step_stash_ok _ _ _ _ _ Ke S H) as S1.
    specialize (IH s1 x S1 Kr).
    destruct (run c s1 evs) as [[s2 tr]| |]; try discriminate.
    intros E. injection E as ->. now apply IH.
  - discriminate.
  - destruct e as [now d|now op]; simpl in H; [|discriminate].
    exfalso. eapply timer_total; eauto.
Qed.

Theorem run_sends_fit : forall c evs s s' tr,
  run c s evs = Ok (s', tr) ->
  Forall (fun a => match a with Send r => r_len r <= SEND_BUFFER_SIZE | _ => True end) (concat tr).
Proof.
  intros c. induction evs as [|e evs IH]; intros s s' tr H.
  - injection H as <- <-. constructor.
  - apply run_cons in H. destruct H as (s1 & a & tr' & H1 & H2 & ->).
    simpl. apply Forall_app. split; [|eauto].
    destruct e as [now d|now op]; simpl in H1.
    + apply Forall_forall. intros x I. destruct x; auto. eapply send_fits; eauto.
    + injection H1 as H1. apply step_incoming_req in H1.
      destruct H1 as [([->| ->] & _)|(id & dl & -> & _)]; repeat constructor.
Qed.
