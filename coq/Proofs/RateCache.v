(* Lemmas about Model/RateCache.v: the cache after any history holds, in slot i,
   the most recent call that hashed to i; verdict characterisation. *)
From V Require Import Model.RateCache.

Lemma length_upd c i e : length (upd c i e) = length c.
Proof.
  revert i; induction c as [|x r IH]; intros [|k]; cbn [upd length]; try reflexivity.
  now rewrite IH.
Qed.

Lemma nth_error_upd_same c i e : (i < length c)%nat -> nth_error (upd c i e) i = Some e.
Proof.
  revert i; induction c as [|x r IH]; intros [|k] H; cbn [upd length nth_error] in *; try lia; try reflexivity.
  apply IH. lia.
Qed.

Lemma nth_error_upd_other c i j e : i <> j -> nth_error (upd c i e) j = nth_error c j.
Proof.
  revert i j; induction c as [|x r IH]; intros [|k] [|j] H; cbn [upd nth_error]; try reflexivity; try congruence.
  apply IH. congruence.
Qed.

Lemma nth_error_repeat_None (k i : nat) : (i < k)%nat -> nth_error (repeat (@None (Z * Z)) k) i = Some None.
Proof.
  revert i; induction k as [|k IH]; intros [|i] H; cbn [repeat nth_error]; try lia; try reflexivity.
  apply IH. lia.
Qed.

Lemma slot_range h n a : 0 < n -> 0 <= slot_of h n a < n.
Proof. intros H. unfold slot_of. apply Z.mod_pos_bound. exact H. Qed.

Lemma last_on_slot_snoc h n s pre x :
  last_on_slot h n s (pre ++ [x]) =
  if slot_of h n (fst x) =? s then Some x else last_on_slot h n s pre.
Proof. unfold last_on_slot. rewrite rev_unit. cbn [find]. reflexivity. Qed.

Lemma last_on_slot_nil h n s : last_on_slot h n s [] = None.
Proof. reflexivity. Qed.

(* the verdict in terms of the history alone *)
Definition verdict_spec (h : Z -> Z) (n cutoff : Z) (pre : list (Z * Z)) (a t : Z) : bool :=
  match last_on_slot h n (slot_of h n a) pre with
  | Some (v, told) => if a =? v then cutoff <=? dur_since t told else true
  | None => true
  end.

Definition Inv (h : Z -> Z) (n : Z) (c : cache) (pre : list (Z * Z)) : Prop :=
  length c = Z.to_nat n /\
  forall i, (i < Z.to_nat n)%nat -> nth_error c i = Some (last_on_slot h n (Z.of_nat i) pre).

Lemma inv_new h n : Inv h n (new_cache n) [].
Proof.
  unfold Inv, new_cache. split; [apply repeat_length|].
  intros i Hi. rewrite nth_error_repeat_None by exact Hi. reflexivity.
Qed.

Lemma is_allowed_nonempty h c a t cutoff :
  c <> [] ->
  is_allowed h c a t cutoff =
    let i := Z.to_nat (slot_of h (Z.of_nat (length c)) a) in
    match nth_error c i with
    | None => Panic panic_cache_index
    | Some occupant =>
      let timestamp_if_same :=
        match occupant with
        | Some (v, told) => if a =? v then Some told else None
        | None => None
        end in
      let c' := upd c i (Some (a, t)) in
      match timestamp_if_same with
      | Some told => Ok (c', cutoff <=? dur_since t told)
      | None => Ok (c', true)
      end
    end.
Proof. destruct c; [congruence|reflexivity]. Qed.

Lemma is_allowed_inv h n cutoff c pre a t :
  0 < n -> Inv h n c pre ->
  exists c', is_allowed h c a t cutoff = Ok (c', verdict_spec h n cutoff pre a t)
             /\ Inv h n c' (pre ++ [(a, t)]).
Proof.
  intros Hn [Hlen Hnth].
  assert (Hne : c <> []).
  { intros ->. cbn in Hlen. lia. }
  assert (HL : Z.of_nat (length c) = n) by lia.
  rewrite (is_allowed_nonempty h c a t cutoff Hne). cbv zeta.
  rewrite HL.
  pose proof (slot_range h n a Hn) as Hs.
  set (s := slot_of h n a) in *.
  assert (Hi : (Z.to_nat s < Z.to_nat n)%nat) by lia.
  rewrite (Hnth _ Hi). rewrite Z2Nat.id by lia.
  unfold verdict_spec. fold s.
  exists (upd c (Z.to_nat s) (Some (a, t))).
  split.
  - destruct (last_on_slot h n s pre) as [[v told]|]; [destruct (a =? v)|]; reflexivity.
  - split; [rewrite length_upd; exact Hlen|].
    intros j Hj. rewrite last_on_slot_snoc. cbn [fst]. fold s.
    destruct (Nat.eq_dec (Z.to_nat s) j) as [E|E].
    + subst j. rewrite nth_error_upd_same by lia. rewrite Z2Nat.id by lia. rewrite Z.eqb_refl. reflexivity.
    + rewrite nth_error_upd_other by exact E.
      destruct (s =? Z.of_nat j) eqn:Q.
      * apply Z.eqb_eq in Q. exfalso. apply E. rewrite Q. apply Nat2Z.id.
      * apply Hnth. exact Hj.
Qed.

Lemma run_from_app h cutoff c l1 l2 :
  run_from h cutoff c (l1 ++ l2) =
  (do x <- run_from h cutoff c l1;
   let '(c1, b1) := x in
   do y <- run_from h cutoff c1 l2;
   let '(c2, b2) := y in
   Ok (c2, b1 ++ b2)).
Proof.
  revert c; induction l1 as [|[a t] r IH]; intros c; cbn [app run_from res_bind].
  - destruct (run_from h cutoff c l2) as [[c2 b2]| |]; reflexivity.
  - destruct (is_allowed h c a t cutoff) as [[c1 b]| |]; cbn [res_bind]; try reflexivity.
    rewrite IH.
    destruct (run_from h cutoff c1 r) as [[c1' b1]| |]; cbn [res_bind]; try reflexivity.
    destruct (run_from h cutoff c1' l2) as [[c2 b2]| |]; cbn [res_bind]; reflexivity.
Qed.

(* after any history from the empty cache of n > 0 slots: no panic, one verdict per call,
   every slot holds the last call that hashed to it, and the verdicts are the specified ones *)
Lemma run_inv h n cutoff pre :
  0 < n ->
  exists c bs, run_from h cutoff (new_cache n) pre = Ok (c, bs)
               /\ Inv h n c pre
               /\ length bs = length pre
               /\ forall p1 a t p2, pre = p1 ++ (a, t) :: p2 ->
                    nth_error bs (length p1) = Some (verdict_spec h n cutoff p1 a t).
Proof.
  intros Hn. induction pre as [|[a t] pre IH] using rev_ind.
  - exists (new_cache n), []. split; [reflexivity|]. split; [apply inv_new|]. split; [reflexivity|].
    intros p1 a t p2 E. destruct p1; discriminate.
  - destruct IH as (c & bs & Hrun & Hinv & Hlen & Hv).
    destruct (is_allowed_inv h n cutoff c pre a t Hn Hinv) as (c' & Hal & Hinv').
    exists c', (bs ++ [verdict_spec h n cutoff pre a t]).
    rewrite run_from_app, Hrun. cbn [res_bind run_from]. rewrite Hal. cbn [res_bind].
    split; [reflexivity|]. split; [exact Hinv'|]. split; [rewrite !app_length; cbn; lia|].
    intros p1 a0 t0 p2 E.
    destruct p2 as [|y p2] using rev_ind.
    + apply app_inj_tail in E. destruct E as [E1 E2]. inversion E2; subst.
      rewrite nth_error_app2 by lia. rewrite Hlen, Nat.sub_diag. reflexivity.
    + clear IHp2. rewrite app_comm_cons, app_assoc in E. apply app_inj_tail in E. destruct E as [E1 E2].
      rewrite nth_error_app1.
      * apply (Hv p1 a0 t0 p2). exact E1.
      * rewrite Hlen, E1, app_length. cbn. lia.
Qed.

Lemma run_empty h cutoff calls :
  run_from h cutoff [] calls = Ok ([], map (fun _ => true) calls).
Proof.
  induction calls as [|[a t] r IH]; cbn [run_from map is_allowed res_bind]; [reflexivity|].
  rewrite IH. reflexivity.
Qed.

Lemma new_cache_nonpos n : n <= 0 -> new_cache n = [].
Proof. intros H. unfold new_cache. replace (Z.to_nat n) with 0%nat by lia. reflexivity. Qed.

(* ------------------------------------------------------------------------- *)
(* the statements used by Props/C20.v                                          *)

(* call number |pre| of the history pre ++ (a,t) :: post is refused *)
Definition refused (h : Z -> Z) (n cutoff : Z) (pre : list (Z * Z)) (a t : Z) (post : list (Z * Z)) : Prop :=
  exists vs, verdicts h n cutoff (pre ++ (a, t) :: post) = Ok vs /\ nth_error vs (length pre) = Some false.

Lemma verdicts_total h n cutoff calls :
  exists vs, verdicts h n cutoff calls = Ok vs /\ length vs = length calls.
Proof.
  unfold verdicts. destruct (Z_lt_le_dec 0 n) as [Hn|Hn].
  - destruct (run_inv h n cutoff calls Hn) as (c & bs & Hrun & _ & Hlen & _).
    rewrite Hrun. cbn. eauto.
  - rewrite (new_cache_nonpos n Hn), run_empty. cbn. eexists; split; [reflexivity|apply map_length].
Qed.

Lemma refused_iff h n cutoff pre a t post :
  refused h n cutoff pre a t post <->
  (0 < n /\ exists t', last_on_slot h n (slot_of h n a) pre = Some (a, t') /\ dur_since t t' < cutoff).
Proof.
  unfold refused, verdicts. destruct (Z_lt_le_dec 0 n) as [Hn|Hn].
  - destruct (run_inv h n cutoff (pre ++ (a, t) :: post) Hn) as (c & bs & Hrun & _ & _ & Hv).
    rewrite Hrun. cbn [res_bind snd].
    specialize (Hv pre a t post eq_refl).
    split.
    + intros (vs & E & Hnth). inversion E; subst vs. rewrite Hv in Hnth.
      inversion Hnth as [Hs]. unfold verdict_spec in Hs.
      split; [exact Hn|].
      destruct (last_on_slot h n (slot_of h n a) pre) as [[v told]|]; [|discriminate].
      destruct (a =? v) eqn:Eav; [|discriminate].
      apply Z.eqb_eq in Eav. subst v. exists told. split; [reflexivity|].
      apply Z.leb_gt in Hs. exact Hs.
    + intros (_ & t' & Hl & Hd). exists bs. split; [reflexivity|]. rewrite Hv.
      unfold verdict_spec. rewrite Hl, Z.eqb_refl. f_equal. apply Z.leb_gt. exact Hd.
  - rewrite (new_cache_nonpos n Hn), run_empty. cbn [res_bind snd]. split.
    + intros (vs & E & Hnth). inversion E; subst vs.
      rewrite nth_error_map in Hnth.
      destruct (nth_error (pre ++ (a, t) :: post) (length pre)); discriminate.
    + intros (H & _). lia.
Qed.

(* the last call on a slot is the last call of the address that made it *)
Lemma last_on_slot_split h n s pre x :
  last_on_slot h n s pre = Some x ->
  exists p1 p2, pre = p1 ++ x :: p2 /\ slot_of h n (fst x) = s
                /\ forall y, In y p2 -> slot_of h n (fst y) <> s.
Proof.
  induction pre as [|y pre IH] using rev_ind; [discriminate|].
  rewrite last_on_slot_snoc. destruct (slot_of h n (fst y) =? s) eqn:E.
  - intros H; inversion H; subst y. exists pre, []. apply Z.eqb_eq in E.
    repeat split; [exact E|]. intros y [].
  - intros H. destruct (IH H) as (p1 & p2 & -> & Hs & Hno).
    exists p1, (p2 ++ [y]). rewrite <- app_assoc. cbn [app]. repeat split; [exact Hs|].
    intros z Hz. apply in_app_or in Hz. destruct Hz as [Hz|[<-|[]]]; [apply Hno; exact Hz|].
    apply Z.eqb_neq. exact E.
Qed.

Lemma last_on_slot_intro h n s p1 x p2 :
  slot_of h n (fst x) = s ->
  (forall y, In y p2 -> slot_of h n (fst y) <> s) ->
  last_on_slot h n s (p1 ++ x :: p2) = Some x.
Proof.
  intros Hs. induction p2 as [|y p2 IH] using rev_ind; intros Hno.
  - rewrite last_on_slot_snoc. rewrite (proj2 (Z.eqb_eq _ _) Hs). reflexivity.
  - rewrite app_comm_cons, app_assoc, last_on_slot_snoc.
    assert (E : slot_of h n (fst y) =? s = false).
    { apply Z.eqb_neq. apply Hno. apply in_or_app. right. left. reflexivity. }
    rewrite E. apply IH. intros z Hz. apply Hno. apply in_or_app. left. exact Hz.
Qed.

(* refused => the client's own most recent earlier call was within the cutoff *)
Lemma own_rate_only h n cutoff pre a t post :
  refused h n cutoff pre a t post ->
  exists p1 t' p2, pre = p1 ++ (a, t') :: p2
                   /\ (forall y, In y p2 -> fst y <> a)
                   /\ dur_since t t' < cutoff.
Proof.
  intros H. apply refused_iff in H. destruct H as (Hn & t' & Hl & Hd).
  destruct (last_on_slot_split _ _ _ _ _ Hl) as (p1 & p2 & E & _ & Hno).
  exists p1, t', p2. repeat split; [exact E| |exact Hd].
  intros y Hy Heq. apply (Hno y Hy). cbn [fst]. rewrite Heq. reflexivity.
Qed.

(* an earlier call of the same address within the cutoff, and since then only that
   address on its slot, at instants not before that call: refused *)
Lemma must_limit h n cutoff p1 a t' p2 t post :
  0 < n ->
  dur_since t t' < cutoff ->
  (forall y, In y p2 -> slot_of h n (fst y) = slot_of h n a -> fst y = a /\ t' <= snd y) ->
  refused h n cutoff (p1 ++ (a, t') :: p2) a t post.
Proof.
  intros Hn Hd Hbetween. apply refused_iff. split; [exact Hn|].
  (* the last call on a's slot is the last call by a in (a,t')::p2 *)
  assert (G : forall q, (forall y, In y q -> slot_of h n (fst y) = slot_of h n a -> fst y = a /\ t' <= snd y) ->
              exists t'', last_on_slot h n (slot_of h n a) (p1 ++ (a, t') :: q) = Some (a, t'') /\ t' <= t'').
  { induction q as [|y q IH] using rev_ind; intros Hq.
    - exists t'. split; [|lia]. apply last_on_slot_intro; [reflexivity|]. intros y [].
    - rewrite app_comm_cons, app_assoc, last_on_slot_snoc.
      destruct (slot_of h n (fst y) =? slot_of h n a) eqn:E.
      + apply Z.eqb_eq in E. destruct (Hq y) as [Hy1 Hy2]; [apply in_or_app; right; left; reflexivity|exact E|].
        destruct y as [ya yt]. cbn [fst snd] in *. subst ya. exists yt. split; [reflexivity|exact Hy2].
      + apply IH. intros z Hz. apply Hq. apply in_or_app. left. exact Hz. }
  destruct (G p2 Hbetween) as (t'' & Hl & Hle).
  exists t''. split; [exact Hl|]. unfold dur_since in *. lia.
Qed.

Lemma size_zero h n cutoff calls :
  n <= 0 -> verdicts h n cutoff calls = Ok (map (fun _ => true) calls).
Proof. intros Hn. unfold verdicts. rewrite (new_cache_nonpos n Hn), run_empty. reflexivity. Qed.

(* the cache function itself never panics from a cache that was built by `new` and `is_allowed` *)
Lemma is_allowed_total h c a t cutoff : exists c' b, is_allowed h c a t cutoff = Ok (c', b) /\ length c' = length c.
Proof.
  destruct c as [|e c0] eqn:Ec; [eexists _, _; split; reflexivity|].
  rewrite <- Ec. assert (Hne : c <> []) by (rewrite Ec; discriminate).
  rewrite (is_allowed_nonempty h c a t cutoff Hne). cbv zeta.
  assert (Hlen : 0 < Z.of_nat (length c)) by (rewrite Ec; cbn [length]; lia).
  pose proof (slot_range h _ a Hlen) as Hs.
  destruct (nth_error c (Z.to_nat (slot_of h (Z.of_nat (length c)) a))) as [occ|] eqn:En.
  - destruct occ as [[v told]|]; [destruct (a =? v)|]; eexists _, _; (split; [reflexivity|apply length_upd]).
  - apply nth_error_None in En. lia.
Qed.

Lemma verdict_spec_false_iff h n cutoff pre a t :
  verdict_spec h n cutoff pre a t = false <->
  exists t', last_on_slot h n (slot_of h n a) pre = Some (a, t') /\ dur_since t t' < cutoff.
Proof.
  unfold verdict_spec. split.
  - destruct (last_on_slot h n (slot_of h n a) pre) as [[v told]|]; [|discriminate].
    destruct (a =? v) eqn:Eav; [|discriminate]. apply Z.eqb_eq in Eav. subst v.
    intros Hs. exists told. split; [reflexivity|]. apply Z.leb_gt. exact Hs.
  - intros (t' & Hl & Hd). rewrite Hl, Z.eqb_refl. apply Z.leb_gt. exact Hd.
Qed.

Lemma run_from_length h cutoff c calls c' bs :
  run_from h cutoff c calls = Ok (c', bs) -> length bs = length calls.
Proof.
  revert c c' bs; induction calls as [|[a t] r IH]; intros c c' bs H; cbn [run_from res_bind] in H.
  - inversion H. reflexivity.
  - destruct (is_allowed h c a t cutoff) as [[c1 b]| |]; cbn [res_bind] in H; try discriminate.
    destruct (run_from h cutoff c1 r) as [[c2 bs2]| |] eqn:E; cbn [res_bind] in H; try discriminate.
    inversion H; subst. cbn [length]. f_equal. eapply IH. exact E.
Qed.
