(* Proofs about Model/Pool.v *)
From V Require Import Model.Pool Gen.ConstSpawn.
From Coq Require Import Permutation.
Local Arguments Nat.ltb : simpl never.
Local Arguments Nat.leb : simpl never.
Local Arguments Nat.sub : simpl never.

(* site censuses the model was read against (pool.rs: push, retain / append, retain, pop;
   nts_pool.rs: push, retain) *)
Example census_pool_current : POOL_SITES_CURRENT_SOURCES = 2. Proof. reflexivity. Qed.
Example census_pool_known : POOL_SITES_KNOWN_IPS = 3. Proof. reflexivity. Qed.
Example census_ntspool_current : NTSPOOL_SITES_CURRENT_SOURCES = 2. Proof. reflexivity. Qed.

Lemma addr_eqb_eq : forall a b, addr_eqb a b = true <-> a = b.
Proof.
  intros [a1 a2] [b1 b2]; unfold addr_eqb; cbn.
  rewrite andb_true_iff, !Z.eqb_eq. split; [intros [-> ->]; reflexivity | intros H; inversion H; auto].
Qed.

Lemma mem_addr_In : forall a l, mem_addr a l = true <-> In a l.
Proof.
  intros a l; unfold mem_addr; rewrite existsb_exists; split.
  - intros [x [Hin Hx]]. apply addr_eqb_eq in Hx; subst; auto.
  - intros H; exists a; split; auto. apply addr_eqb_eq; auto.
Qed.

Lemma mem_addr_false : forall a l, mem_addr a l = false <-> ~ In a l.
Proof.
  intros a l. rewrite <- mem_addr_In. destruct (mem_addr a l); split; congruence || tauto.
Qed.

Lemma memZ_In : forall z l, memZ z l = true <-> In z l.
Proof.
  intros z l; unfold memZ; rewrite existsb_exists; split.
  - intros [x [Hin Hx]]. apply Z.eqb_eq in Hx; subst; auto.
  - intros H; exists z; split; auto. apply Z.eqb_refl.
Qed.

Lemma memZ_false : forall z l, memZ z l = false <-> ~ In z l.
Proof.
  intros z l. rewrite <- memZ_In. destruct (memZ z l); split; congruence || tauto.
Qed.

(* ---------- Safe is preserved by the two ways the active set changes ---------- *)

Definition not_ignored (c : cfg) (a : addr) : Prop := ~ In (fst a) (ignore c).

Lemma Safe_nil : forall c, Safe c [].
Proof. intros c; repeat split; cbn; [lia | constructor | tauto]. Qed.

Lemma cur_addrs_app : forall l1 l2, cur_addrs (l1 ++ l2) = cur_addrs l1 ++ cur_addrs l2.
Proof. intros; unfold cur_addrs; apply map_app. Qed.

Lemma Safe_push : forall c cur i a,
  Safe c cur -> (length cur < count c)%nat -> ~ In a (cur_addrs cur) -> not_ignored c a ->
  Safe c (cur ++ [(i, a)]).
Proof.
  intros c cur i a (Hlen & Hnd & Hign) Hlt Hnin Ha. repeat split.
  - rewrite app_length; cbn; lia.
  - rewrite cur_addrs_app; cbn.
    assert (H : NoDup (a :: cur_addrs cur)) by (constructor; auto).
    eapply Permutation_NoDup; [| exact H].
    change (a :: cur_addrs cur) with ([a] ++ cur_addrs cur).
    apply Permutation_app_comm.
  - intros p Hp. apply in_app_or in Hp. destruct Hp as [Hp | [<- | []]]; auto.
Qed.

Lemma drop_id_incl : forall i cur p, In p (drop_id i cur) -> In p cur.
Proof. intros i cur p H; unfold drop_id in H; apply filter_In in H; tauto. Qed.

Lemma NoDup_map_filter : forall (A B : Type) (f : A -> B) (g : A -> bool) l,
  NoDup (map f l) -> NoDup (map f (filter g l)).
Proof.
  intros A B f g l; induction l as [| x l IH]; cbn; intros H; auto.
  inversion H; subst. destruct (g x); cbn; auto.
  constructor; auto. intros Hin; apply H2.
  apply in_map_iff in Hin. destruct Hin as [y [Hy Hin]]. apply filter_In in Hin.
  apply in_map_iff; exists y; tauto.
Qed.

Lemma filter_length_le : forall (A : Type) (g : A -> bool) l, (length (filter g l) <= length l)%nat.
Proof. intros A g l; induction l; cbn; auto. destruct (g a); cbn; lia. Qed.

Lemma Safe_drop : forall c cur i, Safe c cur -> Safe c (drop_id i cur).
Proof.
  intros c cur i (Hlen & Hnd & Hign). repeat split.
  - unfold drop_id. pose proof (filter_length_le _ (fun p : Z * addr => negb (fst p =? i)) cur). lia.
  - unfold cur_addrs, drop_id. apply NoDup_map_filter; auto.
  - intros p Hp; apply Hign; eapply drop_id_incl; eauto.
Qed.

(* ---------- always ---------- *)

Lemma always_app : forall P t1 t2 acc,
  always P (t1 ++ t2) acc <-> always P t1 acc /\ always P t2 (active_from acc t1).
Proof.
  intros P t1; induction t1 as [| o t1 IH]; intros t2 acc; cbn.
  - split; [intros H; split; auto; destruct t2; cbn in *; tauto | tauto].
  - rewrite IH. tauto.
Qed.

Lemma always_head : forall P tr acc, always P tr acc -> P acc.
Proof. intros P [| o r] acc H; cbn in H; tauto. Qed.

Lemma always_prefix : forall P t1 t2 acc, always P (t1 ++ t2) acc -> P (active_from acc t1).
Proof.
  intros P t1 t2 acc H. apply always_app in H. destruct H as [_ H]. eapply always_head; eauto.
Qed.

(* ---------- the draw loop ---------- *)

Definition spawned_obs (ev : list (Z * addr)) : list obs := map (fun e => Spawned (fst e) (snd e)) ev.

Lemma draw_spec : forall c kn cur nid,
  Safe c cur -> Forall (not_ignored c) kn ->
  let r := draw (count c) kn cur nid in
  Safe c (current (fst r)) /\ Forall (not_ignored c) (known (fst r))
  /\ always (Safe c) (spawned_obs (snd r)) cur
  /\ active_from cur (spawned_obs (snd r)) = current (fst r).
Proof.
  intros c kn; induction kn as [| a kn IH]; intros cur nid HS Hkn; cbn.
  - destruct (length cur <? count c)%nat; cbn; (split; [| split; [| split]]); auto.
  - destruct (length cur <? count c)%nat eqn:Hlt; cbn.
    + inversion Hkn; subst.
      destruct (mem_addr a (cur_addrs cur)) eqn:Hm.
      * apply IH; auto.
      * apply mem_addr_false in Hm. apply Nat.ltb_lt in Hlt.
        assert (HS' : Safe c (cur ++ [(nid, a)])) by (apply Safe_push; auto).
        specialize (IH (cur ++ [(nid, a)]) (nid + 1) HS' H2). cbn in IH.
        destruct IH as (I1 & I2 & I3 & I4). cbn. (split; [| split; [| split]]); auto.
    + (split; [| split; [| split]]); auto.
Qed.

(* ---------- one operation ---------- *)

(* invariant of the spawner state *)
Definition Inv (c : cfg) (st : pool) : Prop :=
  Safe c (current st) /\ Forall (not_ignored c) (known st).

Lemma Inv0 : forall c, Inv c pool0.
Proof. intros c; split; [apply Safe_nil | constructor]. Qed.

Lemma after_lookup_not_ignored : forall c st l, Forall (not_ignored c) (after_lookup c st l).
Proof.
  intros c st l. apply Forall_forall. intros a Ha. unfold after_lookup in Ha.
  apply filter_In in Ha. destruct Ha as [_ Hk]. unfold keep in Hk.
  apply andb_true_iff in Hk. destruct Hk as [_ Hk]. apply negb_true_iff in Hk.
  apply memZ_false in Hk. exact Hk.
Qed.

Lemma step_spec : forall c st o, Inv c st ->
  let r := step c st o in
  Inv c (fst r) /\ always (Safe c) (snd r) (current st)
  /\ active_from (current st) (snd r) = current (fst r).
Proof.
  intros c st o [HS Hk]. destruct o as [dns | id rsn]; cbn.
  - unfold try_spawn_with.
    destruct (count c <=? length (current st))%nat.
    { cbn. split; [split; auto | split; auto]. }
    destruct (length (known st) <? count c - length (current st))%nat.
    + destruct dns as [l |].
      * pose proof (draw_spec c (after_lookup c st l) (current st) (next_id st) HS
                      (after_lookup_not_ignored c st l)) as H. cbn in H.
        destruct H as (H1 & H2 & H3 & H4). split; [split; auto | split; auto].
      * cbn. split; [split; auto | split; auto].
    + pose proof (draw_spec c (known st) (current st) (next_id st) HS Hk) as H. cbn in H.
      destruct H as (H1 & H2 & H3 & H4). split; [split; auto | split; auto].
  - pose proof (Safe_drop c (current st) id HS) as HD.
    split; [split; auto | split; auto].
Qed.

Lemma exec_spec : forall c ops st, Inv c st ->
  let r := exec c ops st in
  Inv c (fst r) /\ always (Safe c) (snd r) (current st)
  /\ active_from (current st) (snd r) = current (fst r).
Proof.
  intros c ops; induction ops as [| o ops IH]; intros st HI; cbn.
  - destruct HI as [HS Hk]. split; [split; auto | split; auto].
  - pose proof (step_spec c st o HI) as Hs. cbn in Hs. destruct Hs as (S1 & S2 & S3).
    fold (step c st o) in *.
    specialize (IH (fst (step c st o)) S1). cbn in IH. destruct IH as (E1 & E2 & E3).
    fold (exec c ops (fst (step c st o))) in *.
    split; [exact E1 |]. split.
    + apply always_app. split; auto. rewrite S3; auto.
    + unfold active_from in *. rewrite fold_left_app. rewrite S3. exact E3.
Qed.

(* ---------- the property, over all histories ---------- *)

(* after every prefix of the observable trace of any history, the active sources are Safe *)
Theorem pool_always_safe : forall c ops, always (Safe c) (trace c ops) [].
Proof. intros c ops. apply (exec_spec c ops pool0 (Inv0 c)). Qed.

Theorem pool_safe_at_every_point : forall c ops t1 t2,
  trace c ops = t1 ++ t2 -> Safe c (active t1).
Proof.
  intros c ops t1 t2 H. pose proof (pool_always_safe c ops) as HA. rewrite H in HA.
  apply always_prefix in HA. exact HA.
Qed.

Theorem pool_bounded : forall c ops t1 t2,
  trace c ops = t1 ++ t2 -> (length (active t1) <= count c)%nat.
Proof. intros. eapply pool_safe_at_every_point; eauto. Qed.

Theorem pool_distinct : forall c ops t1 t2,
  trace c ops = t1 ++ t2 -> NoDup (cur_addrs (active t1)).
Proof. intros. eapply pool_safe_at_every_point; eauto. Qed.

(* no SpawnEvent ever names an ignored address *)
Theorem pool_no_ignored_event : forall c ops i a,
  In (Spawned i a) (trace c ops) -> ~ In (fst a) (ignore c).
Proof.
  intros c ops i a Hin. apply in_split in Hin. destruct Hin as [t1 [t2 Ht]].
  assert (Ht' : trace c ops = (t1 ++ [Spawned i a]) ++ t2) by (rewrite <- app_assoc; exact Ht).
  pose proof (pool_safe_at_every_point c ops _ _ Ht') as (_ & _ & Hign).
  specialize (Hign (i, a)). cbn in Hign. apply Hign.
  unfold active, active_from. rewrite fold_left_app. cbn. apply in_or_app; right; left; reflexivity.
Qed.

(* the spawner's own list is exactly the active set computed from the observable trace *)
Theorem pool_state_is_active : forall c ops,
  current (fst (exec c ops pool0)) = active (trace c ops).
Proof. intros c ops. symmetry. apply (exec_spec c ops pool0 (Inv0 c)). Qed.

(* The system sees the same SpawnEvents later and performs removals earlier than the spawner
   hears of them; what it has active is then a filtered sub-list of what the spawner has active
   at the moment of the last event processed, and Safe is closed under filtering. *)
Theorem Safe_filter : forall c act g, Safe c act -> Safe c (filter g act).
Proof.
  intros c act g (Hlen & Hnd & Hign). repeat split.
  - pose proof (filter_length_le _ g act). lia.
  - unfold cur_addrs. apply NoDup_map_filter; auto.
  - intros p Hp. apply filter_In in Hp. apply Hign; tauto.
Qed.

(* is_complete says exactly that the bound is reached *)
Theorem pool_complete_iff : forall c ops,
  let st := fst (exec c ops pool0) in
  is_complete c st = true <-> length (active (trace c ops)) = count c.
Proof.
  intros c ops st. unfold is_complete. subst st. rewrite pool_state_is_active.
  pose proof (pool_safe_at_every_point c ops (trace c ops) [] (eq_sym (app_nil_r _))) as (Hlen & _).
  rewrite Nat.leb_le. lia.
Qed.

(* ---------- the unrepaired loop violates distinctness ---------- *)
Definition A1 : addr := (1, 123).
Theorem pool_unrepaired_not_distinct :
  exists c ops, ~ NoDup (cur_addrs (active (trace_unrepaired c ops))).
Proof.
  exists (mkcfg 2 []), [TrySpawn (Some [A1; A1])]. vm_compute.
  intros H. inversion H; subst. apply H2. left; reflexivity.
Qed.

(* ---------- NTS pool bookkeeping ---------- *)

Definition NSafe (n : nat) (cur : list (Z * (Z * Z))) : Prop :=
  (length cur <= n)%nat /\ NoDup (nnames cur) /\ NoDup (naddrs cur).

Lemma NoDup_snoc : forall (l : list Z) x, ~ In x l -> NoDup l -> NoDup (l ++ [x]).
Proof.
  intros l x Hx Hl.
  assert (H : NoDup (x :: l)) by (constructor; auto).
  eapply Permutation_NoDup; [| exact H].
  change (x :: l) with ([x] ++ l). apply Permutation_app_comm.
Qed.

Lemma nts_iter_spec : forall n k outs st,
  (length (ncurrent st) + k <= n)%nat ->
  NoDup (nnames (ncurrent st)) -> NoDup (naddrs (ncurrent st)) ->
  NSafe n (ncurrent (fst (nts_iter_with true k outs st))).
Proof.
  intros n k; induction k as [| k IH]; intros outs st Hlen Hnd Hna; cbn.
  - repeat split; auto; lia.
  - destruct outs as [| o r]; cbn; [repeat split; auto; lia |].
    destruct o as [| srv remote resolved | |]; cbn; try (repeat split; auto; lia).
    + set (key := match srv with Some s => s | None => remote end).
      destruct (has_remote key (ncurrent st)) eqn:Hh; [apply IH; auto; lia |].
      destruct resolved as [a |]; [| apply IH; auto; lia].
      destruct (has_addr a (ncurrent st)) eqn:Ha; cbn; [apply IH; auto; lia |].
      apply IH; cbn.
      * rewrite app_length; cbn; lia.
      * unfold nnames. rewrite map_app; cbn. apply NoDup_snoc; auto.
        unfold has_remote in Hh. apply memZ_false in Hh. exact Hh.
      * unfold naddrs. rewrite map_app; cbn. apply NoDup_snoc; auto.
        unfold has_addr in Ha. apply memZ_false in Ha. exact Ha.
    + apply IH; auto; lia.
Qed.

Theorem nts_pool_safe : forall n ops st,
  NSafe n (ncurrent st) -> NSafe n (ncurrent (nts_exec n ops st)).
Proof.
  unfold nts_exec.
  intros n ops; induction ops as [| o ops IH]; intros st HS; cbn; auto.
  destruct o as [outs | id]; apply IH.
  - destruct HS as (Hlen & Hnd & Hna). unfold nts_try_spawn_with. apply nts_iter_spec; auto; lia.
  - destruct HS as (Hlen & Hnd & Hna). repeat split; cbn.
    + pose proof (filter_length_le _ (fun p : Z * (Z * Z) => negb (fst p =? id)) (ncurrent st)). lia.
    + unfold nnames. apply NoDup_map_filter; auto.
    + unfold naddrs. apply NoDup_map_filter; auto.
Qed.

Theorem nts_pool_safe_from_start : forall n ops,
  NSafe n (ncurrent (nts_exec n ops (mkntspool [] 0))).
Proof. intros; apply nts_pool_safe. repeat split; cbn; [lia | constructor | constructor]. Qed.

(* the loop before the repair (no address test): two names, one address *)
Theorem nts_pool_unrepaired_not_distinct :
  exists n ops, ~ NoDup (naddrs (ncurrent (nts_exec_unrepaired n ops (mkntspool [] 0)))).
Proof.
  exists 2%nat, [NtsTrySpawn [KeOk None 1 (Some 7); KeOk None 2 (Some 7)]]. vm_compute.
  intros H. inversion H; subst. apply H2. left; reflexivity.
Qed.

(* ---------- the functions compared with the real NtsPoolSpawner run the model of the theorem ---------- *)
Lemma run_nts_ops_final : forall n ops st,
  exists pre, run_nts_ops n ops st = pre ++ nts_final (nts_exec n ops st).
Proof.
  unfold nts_exec.
  intros n ops; induction ops as [| o r IH]; intros st.
  - exists []. reflexivity.
  - destruct o as [outs | id]; cbn [run_nts_ops nts_exec_with].
    + destruct (IH (fst (nts_try_spawn n st outs))) as [pre H]. rewrite H.
      eexists (_ :: _ :: _ ++ _ :: pre). cbn. rewrite <- app_assoc. reflexivity.
    + destruct (IH (nts_removed st id)) as [pre H]. rewrite H.
      exists (b2z (nts_is_complete n (nts_removed st id)) :: pre). reflexivity.
Qed.

Lemma run_srv_ops_final : forall n ops st,
  exists pre, run_srv_ops n ops st = pre ++ nts_final (nts_exec n (srv_to_nts n ops st) st).
Proof.
  unfold nts_exec.
  intros n ops; induction ops as [| o r IH]; intros st.
  - exists []. reflexivity.
  - destruct o as [q | id]; cbn [run_srv_ops srv_to_nts nts_exec_with].
    + set (outs := fst (srv_outcomes (n - length (ncurrent st)) q st)).
      destruct (IH (fst (nts_try_spawn n st outs))) as [pre H]. rewrite H.
      eexists (_ :: _ :: _ ++ _ :: _ :: pre). cbn. rewrite <- app_assoc. reflexivity.
    + destruct (IH (nts_removed st id)) as [pre H]. rewrite H.
      exists (b2z (nts_is_complete n (nts_removed st id)) :: pre). reflexivity.
Qed.

Theorem run_nts_final : forall n ops,
  exists pre, run_nts (n, ops) = pre ++ nts_final (nts_exec n ops (mkntspool [] 0)).
Proof. intros; apply run_nts_ops_final. Qed.

Theorem run_srv_final : forall n ops,
  exists pre, run_srv (n, ops)
              = pre ++ nts_final (nts_exec n (srv_to_nts n ops (mkntspool [] 0)) (mkntspool [] 0)).
Proof. intros; apply run_srv_ops_final. Qed.
