(* Model of ntp-proto/src/cookiestash.rs: the ring buffer of NTS cookies.
   Definitions only.  The element type is abstract (the code never looks into
   a cookie here); [dflt] is the empty vector std::mem::take leaves behind.
   read/valid are usize indices bounded by the array length (read + valid
   <= 7 + 8), so they are nat; gap() is the `as u8` cast written out. *)
From V Require Export Base.Prelude.
From V Require Import Gen.ConstSource.

Definition NCOOK : nat := Z.to_nat MAX_COOKIES.

(* the newest n elements of a list *)
Definition lastn {A} (n : nat) (l : list A) : list A := skipn (length l - n) l.

Section Stash.
Context {C : Type}.
Variable dflt : C.

Fixpoint upd (i : nat) (x : C) (l : list C) : list C :=
  match l, i with
  | [], _ => []
  | _ :: r, O => x :: r
  | y :: r, S j => y :: upd j x r
  end.

Record stash : Type := mkStash { cookies : list C; rd : nat; valid : nat }.

(* #[derive(Default)]: eight empty vectors, read = valid = 0 *)
Definition stash_default : stash := mkStash (repeat dflt NCOOK) 0 0.

Definition store (s : stash) (c : C) : stash :=
  let n := length (cookies s) in
  let wpos := ((rd s + valid s) mod n)%nat in
  let cs := upd wpos c (cookies s) in
  if (valid s <? n)%nat then mkStash cs (rd s) (S (valid s))
  else mkStash cs ((rd s + 1) mod n)%nat (valid s).

Definition get (s : stash) : option C * stash :=
  match valid s with
  | O => (None, s)
  | S v => (Some (nth (rd s) (cookies s) dflt),
            mkStash (upd (rd s) dflt (cookies s))
                    ((rd s + 1) mod length (cookies s))%nat v)
  end.

(* (self.cookies.len() - self.valid) as u8 *)
Definition gap (s : stash) : Z :=
  (Z.of_nat (length (cookies s)) - Z.of_nat (valid s)) mod 256.

Definition stash_len (s : stash) : Z := Z.of_nat (valid s).

(* abstraction: the cookies held, oldest first *)
Definition abs (s : stash) : list C :=
  map (fun i => nth ((rd s + i) mod length (cookies s))%nat (cookies s) dflt)
      (seq 0 (valid s)).

Definition stash_inv (s : stash) : Prop :=
  length (cookies s) = NCOOK /\ (rd s < NCOOK)%nat /\ (valid s <= NCOOK)%nat.

End Stash.

Arguments stash C : clear implicits.
