(* Model of the measurement path of an NTP exchange:
   ntp-proto/src/source.rs   measurements_from_packet
   ntp-proto/src/algorithm/mod.rs   TwoWaySourceControllerWrapper::handle_measurement,
                                    OneWaySourceControllerWrapper::handle_measurement
   Definitions only; lemmas in Proofs/Measure.v.

   Timestamps and durations are Z as in Model/TimeTypes.v.  Only the fields
   the property speaks about are modelled (ids and the two timestamps of a
   Measurement; delay, offset and localtime of an InternalMeasurement); the
   other fields (root delay/dispersion, leap, precision) are copied through
   by the code unchanged. *)
From V Require Export Model.TimeTypes.

Definition clock_system : Z := 0.        (* ClockId::SYSTEM = ClockId(0) *)

Record meas : Type := mkMeas {
  m_sender_id : Z;
  m_sender_ts : Z;       (* NtpTimestamp *)
  m_receiver_ts : Z      (* NtpTimestamp *)
}.

(* InternalMeasurement<D>: delay is Some d for two-way sources (D = NtpDuration)
   and None for one-way sources (D = ()) *)
Record imeas : Type := mkIMeas {
  im_delay : option Z;
  im_offset : Z;
  im_localtime : Z
}.

(* source.rs: measurements_from_packet(message, id, send_time, recv_time)
   pkt_receive = message.receive_timestamp(), pkt_transmit = message.transmit_timestamp() *)
Definition measurements_from_packet (id send_time pkt_receive pkt_transmit recv_time : Z)
  : meas * meas :=
  (mkMeas clock_system send_time pkt_receive,      (* outgoing: system -> source *)
   mkMeas id pkt_transmit recv_time).              (* incoming: source -> system *)

(* TwoWaySourceControllerWrapper::handle_measurement.
   State: last_outgoing_measurement : Option<Measurement>.
   Result: new state and the InternalMeasurement handed to the inner
   controller, if any.  `/ 2` is Div<i32> of NtpDuration. *)
Definition twoway_handle (last : option meas) (m : meas)
  : res (option meas * option imeas) :=
  if m_sender_id m =? clock_system then Ok (Some m, None)
  else match last with
       | None => Ok (None, None)
       | Some lo =>
           let delay := dsub (tsub (m_receiver_ts m) (m_sender_ts lo))
                             (tsub (m_sender_ts m) (m_receiver_ts lo)) in
           do offset <- ddiv (dadd (tsub (m_receiver_ts lo) (m_sender_ts lo))
                                   (tsub (m_sender_ts m) (m_receiver_ts m))) 2;
           Ok (None, Some (mkIMeas (Some delay) offset (m_receiver_ts m)))
       end.

(* OneWaySourceControllerWrapper::handle_measurement: stateless *)
Definition oneway_handle (m : meas) : imeas :=
  mkIMeas None (tsub (m_sender_ts m) (m_receiver_ts m)) (m_receiver_ts m).

(* a history of measurements through one two-way wrapper: the list of
   InternalMeasurements delivered to the inner controller, in order *)
Fixpoint twoway_run (last : option meas) (ms : list meas) : res (list imeas) :=
  match ms with
  | [] => Ok []
  | m :: rest =>
      do r <- twoway_handle last m;
      let '(last', out) := r in
      do outs <- twoway_run last' rest;
      Ok (match out with Some i => i :: outs | None => outs end)
  end.

(* one accepted server response, as NtpSource::process_message drives it:
   both measurements of the packet, outgoing first *)
Definition exchange_meas (id t1 t2 t3 t4 : Z) : list meas :=
  let '(mo, mi) := measurements_from_packet id t1 t2 t3 t4 in [mo; mi].

(* ---- correspondence entry points ------------------------------------- *)
(* two-way: input  [id; send_time; pkt_receive; pkt_transmit; recv_time] per exchange,
   several exchanges of one source concatenated; output: for every delivered
   InternalMeasurement  delay, offset, localtime (flattened);  [-1] on panic *)
Fixpoint exchanges_of (l : list Z) (fuel : nat) : list meas :=
  match fuel with
  | O => []
  | S f =>
      match l with
      | id :: t1 :: t2 :: t3 :: t4 :: rest => exchange_meas id t1 t2 t3 t4 ++ exchanges_of rest f
      | _ => []
      end
  end.

Definition flat_imeas (i : imeas) : list Z :=
  [match im_delay i with Some d => d | None => 0 end; im_offset i; im_localtime i].

Definition run_twoway (l : list Z) : list Z :=
  match twoway_run None (exchanges_of l (length l)) with
  | Ok outs => flat_map flat_imeas outs
  | _ => [-1]
  end.

(* raw measurement sequences (any order of outgoing/incoming, as the public
   SourceController interface allows): input triples sender_id, sender_ts, receiver_ts *)
Fixpoint meas_of (l : list Z) (fuel : nat) : list meas :=
  match fuel with
  | O => []
  | S f =>
      match l with
      | s :: a :: b :: rest => mkMeas s a b :: meas_of rest f
      | _ => []
      end
  end.

Definition run_twoway_raw (l : list Z) : list Z :=
  match twoway_run None (meas_of l (length l)) with
  | Ok outs => flat_map flat_imeas outs
  | _ => [-1]
  end.

(* one-way: input [sender_ts; receiver_ts]; output offset, localtime *)
Definition run_oneway (l : list Z) : list Z :=
  match l with
  | [s; r] => let i := oneway_handle (mkMeas 1 s r) in [im_offset i; im_localtime i]
  | _ => [-1]
  end.

(* a single entry point, selected by the first element: 0 exchanges, 1 raw, 2 one-way *)
Definition run_measure (l : list Z) : list Z :=
  match l with
  | 0 :: rest => run_twoway rest
  | 1 :: rest => run_twoway_raw rest
  | 2 :: rest => run_oneway rest
  | _ => [-2]
  end.

Fixpoint list_eqb (a b : list Z) : bool :=
  match a, b with
  | [], [] => true
  | x :: a', y :: b' => (x =? y) && list_eqb a' b'
  | _, _ => false
  end.
