(* C06 -- model of ntp-proto/src/algorithm/kalman/{matrix,source}.rs (and the float
   parts of mod.rs / system.rs that report estimates), written ONCE against a small
   numeric interface [NumOps F] and instantiated
     * at Coq's primitive binary64 floats for execution (Model/KalmanRun.v,
       compared bit for bit with the Rust code on every run), and
     * at the real numbers for the proofs (Proofs/Kalman.v).
   Every division and every square root of the modelled code goes through
   [divM] / [sqrtM], which record the side condition (divisor <> 0, argument >= 0)
   in a writer monad; the raw [fdiv]/[fsqrt] fields are used nowhere else in this
   file.  Definitions only.  Release semantics (debug_assert inactive). *)
From V Require Export Base.Prelude Base.KFloat.
From V Require Import Gen.ConstKalman.
Close Scope float_scope.
Open Scope Z_scope.

Record NumOps (F : Type) : Type := mkNum {
  lit : float -> F;            (* a binary64 literal / a value given as bit pattern *)
  fadd : F -> F -> F;
  fsub : F -> F -> F;
  fmul : F -> F -> F;
  fdiv : F -> F -> F;
  fsqrt : F -> F;
  fneg : F -> F;
  fltb : F -> F -> bool;       (* a < b  (false when an operand is NaN) *)
  fleb : F -> F -> bool;       (* a <= b *)
  fmaxn : F -> F -> F;         (* f64::max *)
  fisnan : F -> bool;
  frem : F -> F -> F;          (* f64 % *)
  of_int : Z -> F;             (* i64 / i32 / usize `as f64` *)
  from_secs : F -> Z;          (* NtpDuration::from_seconds *)
}.
Arguments lit {F}. Arguments fadd {F}. Arguments fsub {F}. Arguments fmul {F}.
Arguments fdiv {F}. Arguments fsqrt {F}. Arguments fneg {F}. Arguments fltb {F}.
Arguments fleb {F}. Arguments fmaxn {F}. Arguments fisnan {F}. Arguments frem {F}.
Arguments of_int {F}. Arguments from_secs {F}.

(* side conditions of partial operations *)
Inductive oblig (F : Type) : Type :=
| NonZero (x : F)
| NonNeg (x : F).
Arguments NonZero {F}. Arguments NonNeg {F}.

Definition M (F A : Type) : Type := (A * list (oblig F))%type.
Definition ret {F A} (a : A) : M F A := (a, []).
Definition bind {F A B} (m : M F A) (f : A -> M F B) : M F B :=
  let r := f (fst m) in (fst r, snd m ++ snd r).
Notation "'let*' x ':=' m 'in' k" := (bind m (fun x => k))
  (at level 200, x pattern, m at level 100, k at level 200, right associativity).

(* time types: NtpTimestamp = u64 (wrapping), NtpDuration = i64 (saturating + -) *)
Definition ts_sub (a b : Z) : Z := to_signed 64 (a - b).
Definition ts_add (t d : Z) : Z := wrap 64 (t + d).
Definition is_before (a b : Z) : bool := ts_sub a b <? 0.
Definition dur_add (a b : Z) : Z := sat_i64 (a + b).
Definition dur_sub (a b : Z) : Z := sat_i64 (a - b).
(* NtpDuration::abs: i64::abs wrapping on MIN (release), or saturating_abs after the C32 repair *)
Definition dur_abs (a : Z) : Z :=
  if TT_ABS_SATURATES =? 1 then Z.min i64_max (Z.abs a) else to_signed 64 (Z.abs a).

(* PollInterval (i8) *)
Definition poll_inc (x lim_max : Z) : Z :=
  Z.min (if TT_POLL_INC_SATURATES =? 1 then Z.min 127 (x + 1) else to_signed 8 (x + 1)) lim_max.
Definition poll_dec (x lim_min : Z) : Z :=
  Z.max (if TT_POLL_DEC_SATURATES =? 1 then Z.max (-128) (x - 1) else to_signed 8 (x - 1)) lim_min.
Definition poll_as_duration (x : Z) : Z :=
  let base := Z.min 127 (x + 32) in
  let shift := if base <? 0 then 0 else if 62 <? base then 62 else base in
  2 ^ shift.

Definition signumZ (z : Z) : Z := if z <? 0 then -1 else if 0 <? z then 1 else 0.

Record mat2 (F : Type) : Type := mkMat { a00 : F; a01 : F; a10 : F; a11 : F }.
Arguments mkMat {F}. Arguments a00 {F}. Arguments a01 {F}. Arguments a10 {F}. Arguments a11 {F}.

(* KalmanState *)
Record kstate (F : Type) : Type := mkK { s0 : F; s1 : F; unc : mat2 F; ktime : Z }.
Arguments mkK {F}. Arguments s0 {F}. Arguments s1 {F}. Arguments unc {F}. Arguments ktime {F}.

(* InternalMeasurement (leap and precision are passed through untouched and not modelled) *)
Record meas : Type := mkMeas {
  m_delay : Z; m_offset : Z; m_time : Z; m_rdelay : Z; m_rdisp : Z }.

(* the noise estimator: AveragingBuffer (two-way) or FixedMeasurementNoise (one-way) *)
Inductive noise (F : Type) : Type :=
| NBuf (data : list F) (idx : Z)
| NFixed (precision accuracy : F).
Arguments NBuf {F}. Arguments NFixed {F}.

Record algo_cfg (F : Type) : Type := mkCfg {
  c_prec_low : F; c_prec_high : F; c_prec_hyst : Z; c_prec_minw : F;
  c_poll_low : F; c_poll_high : F; c_poll_hyst : Z; c_poll_step : F;
  c_outlier : F; c_init_wander : F; c_init_freq_unc : F;
  c_meddling : Z;
  c_poll_min : Z; c_poll_max : Z; c_poll_init : Z;      (* SourceConfig *)
  c_fuel : nat                                          (* bound of the periodicity loops *)
}.
Arguments c_prec_low {F}. Arguments c_prec_high {F}. Arguments c_prec_hyst {F}. Arguments c_prec_minw {F}.
Arguments c_poll_low {F}. Arguments c_poll_high {F}. Arguments c_poll_hyst {F}. Arguments c_poll_step {F}.
Arguments c_outlier {F}. Arguments c_init_wander {F}. Arguments c_init_freq_unc {F}.
Arguments c_meddling {F}. Arguments c_poll_min {F}. Arguments c_poll_max {F}. Arguments c_poll_init {F}.
Arguments c_fuel {F}.

Record initial_filter (F : Type) : Type := mkInit {
  i_noise : noise F; i_data : list F; i_idx : Z; i_last : option meas; i_samples : Z }.
Arguments mkInit {F}. Arguments i_noise {F}. Arguments i_data {F}. Arguments i_idx {F}.
Arguments i_last {F}. Arguments i_samples {F}.

Record source_filter (F : Type) : Type := mkSF {
  f_state : kstate F; f_wander : F; f_noise : noise F;
  f_prec_score : Z; f_poll_score : Z; f_poll : Z;
  f_last : meas; f_outlier : bool; f_last_iter : Z }.
Arguments mkSF {F}. Arguments f_state {F}. Arguments f_wander {F}. Arguments f_noise {F}.
Arguments f_prec_score {F}. Arguments f_poll_score {F}. Arguments f_poll {F}.
Arguments f_last {F}. Arguments f_outlier {F}. Arguments f_last_iter {F}.

Inductive source_state (F : Type) : Type :=
| Initial (f : initial_filter F)
| Stable (f : source_filter F).
Arguments Initial {F}. Arguments Stable {F}.

(* SourceSnapshot (the fields that carry numbers) *)
Record snapshot (F : Type) : Type := mkSnap {
  sn_state : kstate F; sn_wander : F; sn_delay : F;
  sn_src_unc : Z; sn_src_delay : Z; sn_last_update : Z }.
Arguments mkSnap {F}. Arguments sn_state {F}. Arguments sn_wander {F}. Arguments sn_delay {F}.
Arguments sn_src_unc {F}. Arguments sn_src_delay {F}. Arguments sn_last_update {F}.

(* what a source controller is told *)
Inductive event (F : Type) : Type :=
| Measure (m : meas) (mono : Z) (e : F)   (* measurement; oracles: monotonic-clock difference
                                            (NtpDuration) and libm's exp(-(x*x)) of chi_1 *)
| Step (steer : F)                        (* KalmanControllerMessage Step *)
| FreqChange (steer : F) (time : Z).      (* KalmanControllerMessage FreqChange *)
Arguments Measure {F}. Arguments Step {F}. Arguments FreqChange {F}.

Section Generic.
Context {F : Type} (N : NumOps F).

Local Notation "a +. b" := (fadd N a b) (at level 50, left associativity).
Local Notation "a -. b" := (fsub N a b) (at level 50, left associativity).
Local Notation "a *. b" := (fmul N a b) (at level 40, left associativity).
Local Notation "a >. b" := (fltb N b a) (at level 70, no associativity).
Local Notation "a <. b" := (fltb N a b) (at level 70, no associativity).

Definition divM (a b : F) : M F F := (fdiv N a b, [NonZero b]).
Definition sqrtM (a : F) : M F F := (fsqrt N a, [NonNeg a]).

Definition c0 : F := lit N 0%float.
Definition cn0 : F := lit N (-0)%float.       (* f64 sums start from -0.0 *)
Definition c1 : F := lit N 1%float.
Definition c2 : F := lit N 2%float.
Definition c3 : F := lit N 3%float.
Definition c4 : F := lit N 4%float.
Definition c7 : F := lit N 7%float.
Definition c8 : F := lit N 8%float.
Definition c100 : F := lit N 100%float.
Definition c075 : F := lit N 0.75%float.
Definition c14 : F := lit N (of_bits 0x3FF6666666666666).   (* 1.4 *)
Definition cu32 : F := lit N U32MAX_F.

Definition sqr (x : F) : F := x *. x.
Definition sum1 (a : F) : F := cn0 +. a.                 (* (0..1).map(..).sum() *)
Definition sum2 (a b : F) : F := (cn0 +. a) +. b.        (* (0..2).map(..).sum() *)
Definition sumlist (l : list F) : F := fold_left (fadd N) l cn0.

Definition to_seconds (d : Z) : M F F := divM (of_int N d) cu32.

(* ---- matrix.rs (2x2, 2x1, 1x2, 1x1 instances that occur) ---- *)
Definition mm22 (a b : mat2 F) : mat2 F :=
  mkMat (sum2 (a00 a *. a00 b) (a01 a *. a10 b)) (sum2 (a00 a *. a01 b) (a01 a *. a11 b))
        (sum2 (a10 a *. a00 b) (a11 a *. a10 b)) (sum2 (a10 a *. a01 b) (a11 a *. a11 b)).
Definition transpose2 (a : mat2 F) : mat2 F := mkMat (a00 a) (a10 a) (a01 a) (a11 a).
Definition madd2 (a b : mat2 F) : mat2 F :=
  mkMat (a00 a +. a00 b) (a01 a +. a01 b) (a10 a +. a10 b) (a11 a +. a11 b).
Definition msub2 (a b : mat2 F) : mat2 F :=
  mkMat (a00 a -. a00 b) (a01 a -. a01 b) (a10 a -. a10 b) (a11 a -. a11 b).
Definition mv22 (a : mat2 F) (v : F * F) : F * F :=
  (sum2 (a00 a *. fst v) (a01 a *. snd v), sum2 (a10 a *. fst v) (a11 a *. snd v)).
Definition unit2 : mat2 F := mkMat c1 c0 c0 c1.
Definition symmetrize (a : mat2 F) : M F (mat2 F) :=
  let* x00 := divM (a00 a +. a00 a) c2 in
  let* x01 := divM (a01 a +. a10 a) c2 in
  let* x10 := divM (a10 a +. a01 a) c2 in
  let* x11 := divM (a11 a +. a11 a) c2 in
  ret (mkMat x00 x01 x10 x11).
Definition det2 (a : mat2 F) : F := a00 a *. a11 a -. a01 a *. a10 a.
Definition inverse2 (a : mat2 F) : M F (mat2 F) :=
  let* d := divM c1 (a00 a *. a11 a -. a01 a *. a10 a) in
  ret (mkMat (d *. a11 a) (fneg N d *. a01 a) (fneg N d *. a10 a) (d *. a00 a)).

(* ---- KalmanState ---- *)
Fixpoint cp_down (fuel : nat) (x y period half : F) : F * F :=
  match fuel with
  | O => (x, y)
  | S k => if x >. half then cp_down k (x -. period) (y -. c0) period half else (x, y)
  end.
Fixpoint cp_up (fuel : nat) (x y period nhalf : F) : F * F :=
  match fuel with
  | O => (x, y)
  | S k => if x <. nhalf then cp_up k (x +. period) (y +. c0) period nhalf else (x, y)
  end.

Definition correct_periodicity (fuel : nat) (k : kstate F) (period : option F) : M F (kstate F) :=
  match period with
  | None => ret k
  | Some p =>
      let* half := divM p c2 in
      let* nhalf := divM (fneg N p) c2 in
      let '(x, y) := cp_down fuel (s0 k) (s1 k) p half in
      let '(x, y) := cp_up fuel x y p nhalf in
      ret (mkK x y (unc k) (ktime k))
  end.

Definition progress_time (fuel : nat) (k : kstate F) (time : Z) (wander : F) (period : option F)
  : M F (kstate F) :=
  if is_before time (ktime k) then ret k
  else
    let* dt := to_seconds (ts_sub time (ktime k)) in
    let update := mkMat c1 dt c0 c1 in
    let* n00 := divM (wander *. dt *. dt *. dt) c3 in
    let* n01 := divM (wander *. dt *. dt) c2 in
    let* n10 := divM (wander *. dt *. dt) c2 in
    let noise := mkMat n00 n01 n10 (wander *. dt) in
    let st := mv22 update (s0 k, s1 k) in
    correct_periodicity fuel
      (mkK (fst st) (snd st) (madd2 (mm22 (mm22 update (unc k)) (transpose2 update)) noise) time)
      period.

(* chi_1; [e] is the oracle for exp(-(x*x)) *)
Definition CHI_P : float := of_bits 0x3FD4F740A93D7B8C.    (* 0.3275911 *)
Definition CHI_A1 : float := of_bits 0x3FD04F20C6EC5A7E.   (* 0.254829592 *)
Definition CHI_A2 : float := of_bits 0xBFD23531CC3C1469.   (* -0.284496736 *)
Definition CHI_A3 : float := of_bits 0x3FF6BE1C55BAE157.   (* 1.421413741 *)
Definition CHI_A4 : float := of_bits 0xBFF7401C57014C39.   (* -1.453152027 *)
Definition CHI_A5 : float := of_bits 0x3FF0FB844255A12D.   (* 1.061405429 *)

Definition chi_1 (e chi : F) : M F F :=
  let* h := divM chi c2 in
  let* x := sqrtM h in
  let* t := divM c1 (c1 +. lit N CHI_P *. x) in
  ret ((lit N CHI_A1 *. t +. lit N CHI_A2 *. t *. t +. lit N CHI_A3 *. t *. t *. t
        +. lit N CHI_A4 *. t *. t *. t *. t +. lit N CHI_A5 *. t *. t *. t *. t *. t) *. e).

(* the closure SourceFilter::absorb_measurement passes as measurement_period_correction *)
Fixpoint pc_down (fuel : nat) (v pred period half : F) : F :=
  match fuel with
  | O => v
  | S k => if (v -. pred) >. half then pc_down k (v -. period) pred period half else v
  end.
Fixpoint pc_up (fuel : nat) (v pred period nhalf : F) : F :=
  match fuel with
  | O => v
  | S k => if (v -. pred) <. nhalf then pc_up k (v +. period) pred period nhalf else v
  end.
Definition period_correction (fuel : nat) (value pred : F) (period : option F) : M F F :=
  match period with
  | None => ret value
  | Some p =>
      let* half := divM p c2 in
      let* nhalf := divM (fneg N p) c2 in
      ret (pc_up fuel (pc_down fuel value pred p half) pred p nhalf)
  end.

(* KalmanState::absorb_measurement for a 1x2 measurement matrix (h0 h1); [corr] tells
   whether the source filter's period correction or the identity closure is used.
   Result: new state, observe_probability, weight, chi (printed for diagnosis) *)
Definition absorb (fuel : nat) (k : kstate F) (h0 h1 value nz : F) (period : option F)
  (corr : bool) (e : F) : M F (kstate F * F * F) :=
  let P := unc k in
  let prediction := sum2 (h0 *. s0 k) (h1 *. s1 k) in
  let* corrected := (if corr then period_correction fuel value prediction period else ret value) in
  let difference := corrected -. prediction in
  let hp0 := sum2 (h0 *. a00 P) (h1 *. a10 P) in
  let hp1 := sum2 (h0 *. a01 P) (h1 *. a11 P) in
  let dc := sum2 (hp0 *. h0) (hp1 *. h1) +. nz in
  let ph0 := sum2 (a00 P *. h0) (a01 P *. h1) in
  let ph1 := sum2 (a10 P *. h0) (a11 P *. h1) in
  let* inv := divM c1 dc in
  let k0 := sum1 (ph0 *. inv) in
  let k1 := sum1 (ph1 *. inv) in
  let* inv' := divM c1 dc in
  let chi := sum1 (difference *. sum1 (inv' *. difference)) in
  let* p := chi_1 e chi in
  let* q := divM nz dc in
  let weight := c1 -. q in
  let kh := mkMat (sum1 (k0 *. h0)) (sum1 (k0 *. h1)) (sum1 (k1 *. h0)) (sum1 (k1 *. h1)) in
  let* newP := symmetrize (mm22 (msub2 unit2 kh) P) in
  let* k' := correct_periodicity fuel
               (mkK (s0 k +. sum1 (k0 *. difference)) (s1 k +. sum1 (k1 *. difference)) newP (ktime k))
               period in
  ret (k', p, weight).

Definition merge (a b : kstate F) : M F (kstate F) :=
  let* mixer := inverse2 (madd2 (unc a) (unc b)) in
  let am := mm22 (unc a) mixer in
  let d := mv22 am (s0 b -. s0 a, s1 b -. s1 a) in
  ret (mkK (s0 a +. fst d) (s1 a +. snd d) (mm22 am (unc b)) (ktime a)).

Definition add_server_dispersion (k : kstate F) (dispersion : F) : kstate F :=
  mkK (s0 k) (s1 k) (madd2 (unc k) (mkMat (sqr dispersion) c0 c0 c0)) (ktime k).

Definition k_offset_steering (fuel : nat) (k : kstate F) (steer : F) (period : option F)
  : M F (kstate F) :=
  correct_periodicity fuel
    (mkK (s0 k -. steer) (s1 k -. c0) (unc k) (ts_add (ktime k) (from_secs N steer))) period.

Definition k_frequency_steering (fuel : nat) (k : kstate F) (time : Z) (steer wander : F)
  (period : option F) : M F (kstate F) :=
  let* r := progress_time fuel k time wander period in
  ret (mkK (s0 r -. c0) (s1 r -. steer) (unc r) (ktime r)).

(* ---- AveragingBuffer ---- *)
Definition buf_mean (data : list F) : M F F := divM (sumlist data) c8.
Definition buf_variance (data : list F) : M F F :=
  let* mean := buf_mean data in
  divM (sumlist (map (fun v => sqr (v -. mean)) data)) c7.
Fixpoint upd_nth {A} (l : list A) (n : nat) (x : A) : list A :=
  match l, n with
  | [], _ => []
  | _ :: t, O => x :: t
  | h :: t, S k => h :: upd_nth t k x
  end.
Definition buf_update (data : list F) (idx : Z) (x : F) : list F * Z :=
  (upd_nth data (Z.to_nat idx) x, (idx + 1) mod 8).

(* ---- MeasurementNoiseEstimator ---- *)
Definition noise_update (n : noise F) (delay : Z) : M F (noise F) :=
  match n with
  | NBuf d i => let* s := to_seconds delay in
                let '(d', i') := buf_update d i s in ret (NBuf d' i')
  | NFixed _ _ => ret n
  end.
Definition noise_estimate (n : noise F) : M F F :=
  match n with
  | NBuf d _ => let* v := buf_variance d in divM v c4
  | NFixed p _ => ret p
  end.
Definition noise_is_outlier (n : noise F) (delay : Z) (threshold : F) : M F bool :=
  match n with
  | NBuf d _ =>
      let* s := to_seconds delay in
      let* mean := buf_mean d in
      let* v := buf_variance d in
      let* sd := sqrtM v in
      ret ((s -. mean) >. threshold *. sd)
  | NFixed _ _ => ret false
  end.
Definition MIN_DELAY : Z := 2 ^ 14.     (* NtpDuration::from_exponent(-18) = 2^32 >> 18 *)
Definition noise_preprocess (n : noise F) (delay : Z) : Z :=
  match n with NBuf _ _ => Z.max delay MIN_DELAY | NFixed _ _ => delay end.
Definition noise_reset (n : noise F) : noise F :=
  match n with
  | NBuf _ _ => NBuf (repeat c0 8) 0
  | NFixed _ _ => n
  end.
Definition max_roundtrip (n : noise F) (samples : Z) : option F :=
  match n with
  | NBuf d _ =>
      fold_left (fun v1 v2 => if fisnan N v2 then v1 else
                   match v1 with Some v1 => Some (fmaxn N v2 v1) | None => Some v2 end)
                (firstn (Z.to_nat samples) d) None
  | NFixed _ acc => Some (fmaxn N c1 acc)
  end.
Definition delay_mean (n : noise F) : M F F :=
  match n with
  | NBuf d _ => buf_mean d
  | NFixed _ acc => ret (c4 *. acc)
  end.

(* ---- InitialSourceFilter ---- *)
Definition cur_avg (data : list F) (samples : Z) : M F F :=
  if samples =? 0 then ret c0
  else divM (sumlist (firstn (Z.to_nat samples) data)) (of_int N samples).

Fixpoint icp_down (fuel : nat) (data : list F) (samples : Z) (period half : F) : M F (list F) :=
  match fuel with
  | O => ret data
  | S k => let* avg := cur_avg data samples in
           if avg >. half then icp_down k (map (fun s => s -. period) data) samples period half
           else ret data
  end.
Fixpoint icp_up (fuel : nat) (data : list F) (samples : Z) (period nhalf : F) : M F (list F) :=
  match fuel with
  | O => ret data
  | S k => let* avg := cur_avg data samples in
           if avg <. nhalf then icp_up k (map (fun s => s +. period) data) samples period nhalf
           else ret data
  end.
Definition init_correct_period (fuel : nat) (data : list F) (samples : Z) (period : option F)
  : M F (list F) :=
  if samples =? 0 then ret data else
  match period with
  | None => ret data
  | Some p =>
      let* half := divM p c2 in
      let* nhalf := divM (fneg N p) c2 in
      let* d := icp_down fuel data samples p half in
      icp_up fuel d samples p nhalf
  end.

Fixpoint iof_down (fuel : nat) (offset avg period half : F) : F :=
  match fuel with
  | O => offset
  | S k => if (offset -. avg) >. half then iof_down k (offset -. period) avg period half else offset
  end.
Fixpoint iof_up (fuel : nat) (offset avg period nhalf : F) : F :=
  match fuel with
  | O => offset
  | S k => if (offset -. avg) <. nhalf then iof_up k (offset +. period) avg period nhalf else offset
  end.

Definition init_update (fuel : nat) (f : initial_filter F) (m : meas) (period : option F)
  : M F (initial_filter F) :=
  let* offset := to_seconds (m_offset m) in
  let* offset :=
    match period with
    | None => ret offset
    | Some p =>
        let* avg := cur_avg (i_data f) (i_samples f) in
        let* half := divM p c2 in
        let* nhalf := divM (fneg N p) c2 in
        ret (iof_up fuel (iof_down fuel offset avg p half) avg p nhalf)
    end in
  let* n := noise_update (i_noise f) (m_delay m) in
  let '(d, i) := buf_update (i_data f) (i_idx f) offset in
  let samples := i_samples f + 1 in
  let* d := init_correct_period fuel d samples period in
  ret (mkInit n d i (Some m) samples).

Definition init_offset_steering (fuel : nat) (f : initial_filter F) (steer : F) (period : option F)
  : M F (initial_filter F) :=
  let* d := init_correct_period fuel (map (fun s => s -. steer) (i_data f)) (i_samples f) period in
  ret (mkInit (i_noise f) d (i_idx f) (i_last f) (i_samples f)).

(* ---- SourceFilter ---- *)
Definition with_last (f : source_filter F) (l : meas) : source_filter F :=
  mkSF (f_state f) (f_wander f) (f_noise f) (f_prec_score f) (f_poll_score f) (f_poll f)
       l (f_outlier f) (f_last_iter f).

Definition update_wander (cfg : algo_cfg F) (wander : F) (score : Z) (p weight : F) : M F (F * Z) :=
  let score :=
    if ((c1 -. p) <. c_prec_low cfg) && (weight >. c_prec_minw cfg) then score - 1
    else if (c1 -. p) >. c_prec_high cfg then score + 1
    else score - signumZ score in
  if score <=? - c_prec_hyst cfg then
    let* w := divM wander c4 in ret (w, 0)
  else if c_prec_hyst cfg <=? score then ret (wander *. c4, 0)
  else ret (wander, score).

Definition update_poll (cfg : algo_cfg F) (poll score : Z) (p weight mperiod : F) : M F (Z * Z) :=
  let* reference := to_seconds (poll_as_duration poll) in
  let* ratio := divM mperiod reference in
  let score :=
    if (weight <. c_poll_low cfg) && (ratio >. c075) then score - 1
    else if (weight >. c_poll_high cfg) && (ratio <. c14) then score + 1
    else score - signumZ score in
  if fleb N p (c_poll_step cfg) then ret (c_poll_min cfg, 0)
  else if score <=? - c_poll_hyst cfg then ret (poll_inc poll (c_poll_max cfg), 0)
  else if c_poll_hyst cfg <=? score then ret (poll_dec poll (c_poll_min cfg), 0)
  else ret (poll, score).

(* SourceFilter::update; returns the new filter and the bool of the Rust function *)
Definition filter_update (cfg : algo_cfg F) (f : source_filter F) (m : meas) (period : option F)
  (e : F) : M F (source_filter F * bool) :=
  let l := f_last f in
  let f := with_last f (mkMeas (m_delay l) (m_offset l) (m_time l) (m_rdelay m) (m_rdisp m)) in
  if is_before (m_time m) (ktime (f_state f)) then ret (f, false)
  else
    let f := mkSF (f_state f) (f_wander f) (f_noise f) (f_prec_score f) (f_poll_score f) (f_poll f)
                  (f_last f) (f_outlier f) (m_time m) in
    let* outl := (if f_outlier f then ret false
                  else noise_is_outlier (f_noise f) (m_delay m) (c_outlier cfg)) in
    if outl then
      ret (mkSF (f_state f) (f_wander f) (f_noise f) (f_prec_score f) (f_poll_score f) (f_poll f)
                (f_last f) true (f_last_iter f), false)
    else
      let* st := progress_time (c_fuel cfg) (f_state f) (m_time m) (f_wander f) period in
      let* nz := noise_update (f_noise f) (m_delay m) in
      (* SourceFilter::absorb_measurement *)
      let* mdt := to_seconds (ts_sub (m_time m) (m_time (f_last f))) in
      let* value := to_seconds (m_offset m) in
      let* r := noise_estimate nz in
      let* (st', p, weight) := absorb (c_fuel cfg) st c1 c0 value r period true e in
      let* (w, ps) := update_wander cfg (f_wander f) (f_prec_score f) p weight in
      let* (poll, pls) := update_poll cfg (f_poll f) (f_poll_score f) p weight mdt in
      ret (mkSF st' w nz ps pls poll m (f_outlier f) (f_last_iter f), true).

Definition filter_offset_steering (fuel : nat) (f : source_filter F) (steer : F) (period : option F)
  : M F (source_filter F) :=
  let* st := k_offset_steering fuel (f_state f) steer period in
  let l := f_last f in
  let d := from_secs N steer in
  ret (mkSF st (f_wander f) (f_noise f) (f_prec_score f) (f_poll_score f) (f_poll f)
            (mkMeas (m_delay l) (dur_sub (m_offset l) d) (ts_add (m_time l) d) (m_rdelay l) (m_rdisp l))
            (f_outlier f) (f_last_iter f)).

Definition filter_frequency_steering (fuel : nat) (f : source_filter F) (time : Z) (steer : F)
  (period : option F) : M F (source_filter F) :=
  let* st := k_frequency_steering fuel (f_state f) time steer (f_wander f) period in
  let l := f_last f in
  let* dt := to_seconds (ts_sub time (m_time l)) in
  ret (mkSF st (f_wander f) (f_noise f) (f_prec_score f) (f_poll_score f) (f_poll f)
            (mkMeas (m_delay l) (dur_add (m_offset l) (from_secs N (steer *. dt))) (m_time l)
                    (m_rdelay l) (m_rdisp l))
            (f_outlier f) (f_last_iter f)).

(* ---- SourceState ---- *)
Definition state_noise (s : source_state F) : noise F :=
  match s with Initial f => i_noise f | Stable f => f_noise f end.

(* SourceState::update_self_using_measurement (preprocessing included) *)
Definition source_measure (cfg : algo_cfg F) (s : source_state F) (m0 : meas) (period : option F)
  (mono : Z) (e : F) : M F (source_state F * bool) :=
  let m := mkMeas (noise_preprocess (state_noise s) (m_delay m0)) (m_offset m0) (m_time m0)
                  (m_rdelay m0) (m_rdisp m0) in
  match s with
  | Initial f =>
      let* f' := init_update (c_fuel cfg) f m period in
      if i_samples f' =? 8 then
        let* mean := buf_mean (i_data f') in
        let* var := buf_variance (i_data f') in
        let* st := correct_periodicity (c_fuel cfg)
                     (mkK mean c0 (mkMat var c0 c0 (sqr (c_init_freq_unc cfg))) (m_time m)) period in
        ret (Stable (mkSF st (sqr (c_init_wander cfg)) (i_noise f') 0 0 (c_poll_init cfg)
                          m false (m_time m)), true)
      else ret (Initial f', true)
  | Stable f =>
      let localtime_difference := ts_sub (m_time m) (m_time (f_last f)) in
      if c_meddling cfg <? dur_abs (dur_sub localtime_difference mono) then
        ret (Initial (mkInit (noise_reset (f_noise f)) (repeat c0 8) 0 None 0), false)
      else
        let* (f', b) := filter_update cfg f m period e in
        ret (Stable f', b)
  end.

Definition source_snapshot (cfg : algo_cfg F) (s : source_state F) : M F (option (snapshot F)) :=
  match s with
  | Initial f =>
      match i_last f with
      | Some l =>
          if 0 <? i_samples f then
            match max_roundtrip (i_noise f) (i_samples f) with
            | None => ret None
            | Some mr =>
                let* avg := divM (sumlist (firstn (Z.to_nat (i_samples f)) (i_data f)))
                                 (of_int N (i_samples f)) in
                ret (Some (mkSnap (mkK avg c0 (mkMat mr c0 c0 c100) (m_time l))
                                  (c_init_wander cfg) mr (m_rdisp l) (m_rdelay l) (m_time l)))
            end
          else ret None
      | None => ret None
      end
  | Stable f =>
      let* dm := delay_mean (f_noise f) in
      ret (Some (mkSnap (f_state f) (f_wander f) dm (m_rdisp (f_last f)) (m_rdelay (f_last f))
                        (f_last_iter f)))
  end.

(* ObservableSourceTimedata: offset, uncertainty, delay, remote_delay, remote_uncertainty, last_update *)
Definition snapshot_observe (sn : snapshot F) : M F (list Z) :=
  let* u := sqrtM (a00 (unc (sn_state sn))) in
  ret [from_secs N (s0 (sn_state sn)); from_secs N u; from_secs N (sn_delay sn);
       sn_src_delay sn; sn_src_unc sn; sn_last_update sn].
Definition observe (cfg : algo_cfg F) (s : source_state F) : M F (list Z) :=
  let* sn := source_snapshot cfg s in
  match sn with
  | None => ret [0; i64_max; i64_max; i64_max; i64_max; 0]
  | Some sn => snapshot_observe sn
  end.

Definition source_offset_steering (cfg : algo_cfg F) (s : source_state F) (steer : F)
  (period : option F) : M F (source_state F) :=
  let steer := match period with Some p => frem N steer p | None => steer end in
  match s with
  | Initial f => let* f' := init_offset_steering (c_fuel cfg) f steer period in ret (Initial f')
  | Stable f => let* f' := filter_offset_steering (c_fuel cfg) f steer period in ret (Stable f')
  end.

Definition source_frequency_steering (cfg : algo_cfg F) (s : source_state F) (time : Z) (steer : F)
  (period : option F) : M F (source_state F) :=
  match s with
  | Initial _ => ret s
  | Stable f => let* f' := filter_frequency_steering (c_fuel cfg) f time steer period in ret (Stable f')
  end.

Definition desired_poll (cfg : algo_cfg F) (s : source_state F) : Z :=
  match s with Initial _ => c_poll_min cfg | Stable f => f_poll f end.

(* one step of a KalmanSourceController: handle_measurement / handle_message.
   Result: new state, 1/0 = handle_measurement returned Some/None (2 for messages) *)
Definition source_step (cfg : algo_cfg F) (period : option F) (s : source_state F) (ev : event F)
  : M F (source_state F * Z) :=
  match ev with
  | Measure m mono e =>
      let* (s', b) := source_measure cfg s m period mono e in
      if b then
        let* sn := source_snapshot cfg s' in
        ret (s', match sn with Some _ => 1 | None => 0 end)
      else ret (s', 0)
  | Step steer => let* s' := source_offset_steering cfg s steer period in ret (s', 2)
  | FreqChange steer time =>
      let* s' := source_frequency_steering cfg s time steer period in ret (s', 2)
  end.

Definition source_new (n : noise F) : source_state F :=
  Initial (mkInit n (repeat c0 8) 0 None 0).

(* TimeSnapshot::root_dispersion (system.rs); powi(2) = t*t, powi(3) = t*(t*t) *)
Definition root_dispersion (base lin quad cubic : F) (base_time now : Z) : M F Z :=
  let* t := to_seconds (ts_sub now base_time) in
  let* r := sqrtM (base +. t *. lin +. (t *. t) *. quad +. (t *. (t *. t)) *. cubic) in
  ret (from_secs N r).

End Generic.
