(* Model of the NTP source state machine, ntp-proto/src/source.rs:
   NtpSource::handle_timer, NtpSource::handle_incoming, process_message,
   ProtocolVersion::is_expected_incoming_version, current_poll_interval;
   the NtpPacket predicates it uses (packet/mod.rs: is_kiss*, is_upgrade,
   valid_server_response, check_uid_extensionfield, new_cookies, the poll
   message builders and the size of their serialisation) and PollInterval
   (time_types.rs: inc, dec, as_system_duration); the poll-desire part of the
   Kalman source filter (algorithm/kalman/source.rs: update_desired_poll).

   Level: the decision logic over DECODED packets.  The byte-level decoder
   (NtpPacket::deserialize, the split of extension fields into
   authenticated / encrypted / untrusted) is modelled elsewhere (cluster P);
   here a received datagram is [None] (the decoder returned an error, which
   includes a present but failing NTS authenticator) or [Some pkt] where [pkt]
   lists what the decoder delivered, by trust position.

   Definitions only.  Release semantics.  The model follows the tree with the
   kiss dispatch order NTSN, RATE, RSTR/DENY, other (fix-c07). *)
From V Require Export Base.Prelude.
From V Require Import Gen.ConstSource Gen.ConstSourceS2.
From Coq Require String.
Open Scope Z_scope.

(* ------------------------------------------------------------------ *)
(* PollInterval(i8)                                                    *)
(* ------------------------------------------------------------------ *)

Definition i8 (z : Z) : Z := to_signed 8 z.           (* u8 as i8 *)
Definition POLL_NEVER : Z := 127.                      (* PollInterval::NEVER = i8::MAX *)

Record cfg := mkCfg { c_min : Z; c_max : Z }.          (* SourceConfig.poll_interval_limits *)

(* inc / dec: saturating_add(1) / saturating_sub(1) on the i8, then the clamp *)
Definition sat_i8 (z : Z) : Z := Z.max (-128) (Z.min 127 z).
Definition poll_inc (c : cfg) (p : Z) : Z := Z.min (sat_i8 (p + 1)) (c_max c).
Definition poll_dec (c : cfg) (p : Z) : Z := Z.max (sat_i8 (p - 1)) (c_min c).

(* as_system_duration: whole seconds, exponent clamped to 0..31 *)
Definition system_duration_secs (p : Z) : Z :=
  2 ^ (if p <? 0 then 0 else if p >? SYSTEM_DURATION_MAX_SHIFT then SYSTEM_DURATION_MAX_SHIFT else p).

(* ------------------------------------------------------------------ *)
(* decoded packets                                                     *)
(* ------------------------------------------------------------------ *)

(* a cookie is opaque: (tag identifying the byte string, its length) *)
Definition cookie := (Z * Z)%type.
Definition cookie_len (c : cookie) : Z := snd c.

(* Requests are numbered 0,1,2,... in the order they are built; request k
   carries a fresh random origin timestamp / client cookie and (NTS) a fresh
   32-byte unique identifier.  In a decoded packet, an echoed origin or unique
   identifier is represented by the number of the request whose value it
   equals, -1 when it equals none.  (Idealisation: the random values of
   different requests differ.) *)

(* what a successful NTS authenticator (decrypted under the s2c key) seals *)
Record sealed := mkSealed {
  a_uids_auth : list Z;          (* UniqueIdentifier fields in the authenticated list *)
  a_uids_encr : list Z;          (* ... in the encrypted list *)
  a_cookies_encr : list cookie;  (* NtsCookie fields in the encrypted list *)
  a_cookies_auth : list cookie   (* NtsCookie fields in the authenticated list (never used) *)
}.

Record pkt := mkPkt {
  p_ver : Z;             (* 3, 4, 5 *)
  p_mode : Z;            (* NtpPacket::mode(): 0..7, 4 = Server (v5: Response) *)
  p_stratum : Z;         (* 0..255 *)
  p_poll : Z;            (* i8 *)
  p_kiss : Z;            (* v3/v4 reference id: 1 DENY, 2 RATE, 3 RSTR, 4 NTSN, else other; unused for v5 *)
  p_authnak : bool;      (* v5 flag *)
  p_origin : Z;          (* request whose origin timestamp (v3/v4) / client cookie (v5) is echoed *)
  p_upgrade : bool;      (* reference timestamp = UPGRADE_TIMESTAMP (meaningful for v4 headers) *)
  p_sealed : option sealed;      (* None: no authenticator decrypted: everything is untrusted *)
  p_uids_untr : list Z;          (* UniqueIdentifier fields in the untrusted list *)
  p_cookies_untr : list cookie   (* NtsCookie fields in the untrusted list (never used) *)
}.

Definition authenticated (p : pkt) : bool := match p_sealed p with Some _ => true | None => false end.
Definition uids_auth (p : pkt) : list Z := match p_sealed p with Some a => a_uids_auth a | None => [] end.
Definition uids_encr (p : pkt) : list Z := match p_sealed p with Some a => a_uids_encr a | None => [] end.
Definition cookies_encr (p : pkt) : list cookie := match p_sealed p with Some a => a_cookies_encr a | None => [] end.

Definition KISS_DENY : Z := 1.
Definition KISS_RATE : Z := 2.
Definition KISS_RSTR : Z := 3.
Definition KISS_NTSN : Z := 4.
Definition MODE_SERVER : Z := 4.

Definition is_kiss (p : pkt) : bool := p_stratum p =? 0.
Definition is_v5 (p : pkt) : bool := p_ver p =? 5.
Definition is_kiss_deny (p : pkt) : bool :=
  is_kiss p && (if is_v5 p then p_poll p =? POLL_NEVER else p_kiss p =? KISS_DENY).
Definition is_kiss_rate (p : pkt) (own : Z) : bool :=
  is_kiss p && (if is_v5 p then (p_poll p >? own) && negb (p_poll p =? POLL_NEVER) else p_kiss p =? KISS_RATE).
Definition is_kiss_rstr (p : pkt) : bool :=
  is_kiss p && (if is_v5 p then false else p_kiss p =? KISS_RSTR).
Definition is_kiss_ntsn (p : pkt) : bool :=
  is_kiss p && (if is_v5 p then p_authnak p else p_kiss p =? KISS_NTSN).
Definition is_upgrade (p : pkt) : bool := (p_ver p =? 4) && p_upgrade p.

(* check_uid_extensionfield: Some false as soon as one field differs, Some true
   if all (at least one) agree, None if there is none *)
Definition check_uid (l : list Z) (id : Z) : option bool :=
  match l with [] => None | _ => Some (forallb (Z.eqb id) l) end.
Definition is_some_false (o : option bool) : bool := match o with Some false => true | _ => false end.
Definition is_some {A} (o : option A) : bool := match o with Some _ => true | None => false end.

(* valid_server_response(identifier, nts_enabled); identifier.uid is Some
   exactly for requests built by the NTS poll builders, i.e. iff the source has
   NTS data (which never changes), so both are the source's [nts] flag *)
Definition uid_ok (p : pkt) (id : Z) (nts : bool) : bool :=
  let a := check_uid (uids_auth p) id in
  let e := check_uid (uids_encr p) id in
  let u := check_uid (p_uids_untr p) id in
  negb (is_some_false a) && negb (is_some_false e)
  && (negb (is_some_false u) || (nts && negb (is_kiss_ntsn p)))
  && (is_some a || is_some e || ((negb nts || is_kiss_ntsn p) && is_some u)).
Definition valid_response (p : pkt) (id : Z) (nts : bool) : bool :=
  (if nts then uid_ok p id nts else true) && (p_origin p =? id).

(* ------------------------------------------------------------------ *)
(* state                                                               *)
(* ------------------------------------------------------------------ *)

Inductive pver := V4 | Upgrading (tries_left : Z) | Upgraded | V5.

Definition expected (v : pver) (pv : Z) : bool :=
  match v with
  | V4 => (pv =? 4) || (pv =? 3)
  | Upgrading _ => pv =? 4
  | Upgraded | V5 => pv =? 5
  end.

Record st := mkSt {
  s_nts : bool;                 (* nts.is_some(); constant *)
  s_stash : list cookie;        (* nts.cookies, oldest first (abstraction of CookieStash, see C13) *)
  s_last_poll : Z;              (* last_poll_interval *)
  s_remote_min : Z;             (* remote_min_poll_interval *)
  s_req : option (Z * Z);       (* current_request_identifier: (request number, deadline) *)
  s_nsent : Z;                  (* number of requests built so far *)
  s_deny : bool;                (* have_deny_rstr_response *)
  s_stratum : Z;
  s_reach : Z;                  (* Reach(u8) *)
  s_tries : Z;                  (* usize *)
  s_ver : pver
}.

Definition set_ver (s : st) (v : pver) : st :=
  mkSt (s_nts s) (s_stash s) (s_last_poll s) (s_remote_min s) (s_req s) (s_nsent s) (s_deny s)
       (s_stratum s) (s_reach s) (s_tries s) v.
Definition set_remote_min (s : st) (r : Z) : st :=
  mkSt (s_nts s) (s_stash s) (s_last_poll s) r (s_req s) (s_nsent s) (s_deny s)
       (s_stratum s) (s_reach s) (s_tries s) (s_ver s).
Definition set_deny (s : st) (d : bool) : st :=
  mkSt (s_nts s) (s_stash s) (s_last_poll s) (s_remote_min s) (s_req s) (s_nsent s) d
       (s_stratum s) (s_reach s) (s_tries s) (s_ver s).

(* NtpSource::new *)
Definition init (c : cfg) (nts : bool) (stash : list cookie) (v : pver) : st :=
  mkSt nts stash (c_min c) (c_min c) None 0 false 16 0 0 v.

(* CookieStash::store / get / gap on the abstract list (capacity MAX_COOKIES,
   a store into a full stash drops the oldest) *)
Definition stash_store (l : list cookie) (k : cookie) : list cookie :=
  if Z.of_nat (length l) <? MAX_COOKIES then l ++ [k] else tl l ++ [k].
Definition stash_gap (l : list cookie) : Z := MAX_COOKIES - Z.of_nat (length l).

(* Reach *)
Definition reach_poll (r : Z) : Z := (r * 2) mod 256.
Definition reach_received (r : Z) : Z := if Z.even r then r + 1 else r.
(* unanswered_polls() = trailing_zeros >= n  <->  r mod 2^n = 0  (u8: trailing_zeros(0) = 8) *)
Definition unanswered_at_least (r n : Z) : bool := r mod 2 ^ n =? 0.

Definition usize_max : Z := 2 ^ 64 - 1.

(* ------------------------------------------------------------------ *)
(* requests and their size on the wire                                 *)
(* ------------------------------------------------------------------ *)

Record request := mkReq {
  r_id : Z;
  r_ver : Z;                 (* 4 or 5 *)
  r_upgrade : bool;          (* v4 with the upgrade marker as reference timestamp *)
  r_poll : Z;
  r_cookie : option cookie;  (* NTS: the cookie sent *)
  r_placeholders : Z;        (* NTS: number of cookie placeholders *)
  r_len : Z                  (* bytes written to the send buffer *)
}.

Definition pad4 (x : Z) : Z := ((x + 3) / 4) * 4.
(* wire size of one extension field with [len] value bytes under a minimum size *)
Definition ef_size (minimum len : Z) : Z := pad4 (Z.max minimum (len + EF_HEADER_LENGTH)).
Definition draft_len : Z := Z.of_nat (String.length DRAFT_VERSION).
(* ReferenceIdRequest::serialize: header + payload of chunk-size bytes *)
Definition refid_request_size : Z := EF_HEADER_LENGTH + BLOOM_CHUNK_SIZE.
(* NTS authenticator over an empty plaintext: header, two lengths, nonce, SIV tag (16) *)
Definition SIV_TAG_LENGTH : Z := 16.
Definition nts_field_size : Z := EF_HEADER_LENGTH + 4 + pad4 NTS_NONCE_LENGTH + pad4 SIV_TAG_LENGTH.
Definition UID_LENGTH : Z := 32.

Definition request_size (nts v5 : bool) (clen n : Z) : Z :=
  HEADER_V4_LENGTH +
  (if nts then
     ef_size AUTH_MIN_FIELD_SIZE UID_LENGTH + n * ef_size AUTH_MIN_FIELD_SIZE clen
     + (if v5 then ef_size AUTH_MIN_FIELD_SIZE draft_len + refid_request_size else 0)
     + nts_field_size
   else if v5 then ef_size V5_UNTRUSTED_MIN_FIELD_SIZE draft_len + refid_request_size else 0).

(* encode_framing refuses values longer than u16::MAX - 4 *)
Definition ef_encodable (len : Z) : bool := len <=? 65535 - EF_HEADER_LENGTH.

Definition panic_serialize : Z := 801.   (* .expect("Internal error: could not serialize packet") *)

(* ------------------------------------------------------------------ *)
(* actions and steps                                                   *)
(* ------------------------------------------------------------------ *)

Inductive action :=
| Send (r : request)
| SetTimer (base_secs : Z)     (* the timer is jitter * base_secs, jitter drawn from [1.01, 1.05] *)
| Reset
| Demobilize
| Measure (id : Z).            (* process_message reached: the two measurements of request id go to the controller *)

(* version of the request built in state [v] *)
Definition request_v5 (nts : bool) (v : pver) : bool :=
  if nts then match v with V4 => false | _ => true end
  else match v with V4 | Upgrading _ => false | _ => true end.
Definition request_upgrade (nts : bool) (v : pver) : bool :=
  if nts then false else match v with Upgrading _ => true | _ => false end.

(* handle_timer; [desired] = controller.desired_poll_interval() *)
Definition step_timer (c : cfg) (s : st) (now desired : Z) : res (st * list action) :=
  if (s_reach s =? 0) && (STARTUP_TRIES_THRESHOLD <=? s_tries s) then
    Ok (s, [if s_deny s then Demobilize else Reset])
  else
    let v := match s_ver s with
             | Upgraded => if unanswered_at_least (s_reach s) AFTER_UPGRADE_TRIES_THRESHOLD then V4 else Upgraded
             | v => v end in
    let reach := reach_poll (s_reach s) in
    let tries := Z.min (s_tries s + 1) usize_max in
    let poll := Z.max desired (s_remote_min s) in
    let s1 stash := mkSt (s_nts s) stash (s_last_poll s) (s_remote_min s) (s_req s) (s_nsent s)
                         (s_deny s) (s_stratum s) reach tries v in
    let v5 := request_v5 (s_nts s) v in
    let id := s_nsent s in
    let sent stash := mkSt (s_nts s) stash poll (s_remote_min s) (Some (id, now + POLL_WINDOW_SECS * 1000))
                           (id + 1) (s_deny s) (s_stratum s) reach tries v in
    if s_nts s then
      match s_stash s with
      | [] => Ok (s1 [], [Reset])
      | k :: rest =>
        let clen := cookie_len k in
        let n := Z.min (stash_gap rest)
                       (Z.min ((SEND_BUFFER_SIZE - COOKIE_MARGIN) / Z.max clen 1) 255) in
        if n =? 0 then Ok (s1 rest, [Reset])
        else
          let len := request_size true v5 clen n in
          if (len <=? SEND_BUFFER_SIZE) && ef_encodable clen then
            Ok (sent rest,
                [Send (mkReq id (if v5 then 5 else 4) false poll (Some k) (n - 1) len);
                 SetTimer (system_duration_secs poll)])
          else Panic panic_serialize
      end
    else
      let len := request_size false v5 0 0 in
      if len <=? SEND_BUFFER_SIZE then
        Ok (sent (s_stash s),
            [Send (mkReq id (if v5 then 5 else 4) (request_upgrade false v) poll None 0 len);
             SetTimer (system_duration_secs poll)])
      else Panic panic_serialize.

(* the version state machine's reaction to a valid response *)
Definition ver_after_valid (v : pver) (p : pkt) : pver :=
  match v with
  | Upgrading t =>
      let t' := Z.max 0 (t - 1) in        (* u8 saturating_sub(1) *)
      if is_upgrade p then Upgraded else if t' =? 0 then V4 else Upgrading t'
  | Upgraded => V5
  | v => v
  end.

(* process_message *)
Definition process_message (s : st) (id : Z) (p : pkt) : st * list action :=
  let rmin := if is_v5 p && (p_poll p >? s_remote_min s) then p_poll p else s_remote_min s in
  let stash := if s_nts s then fold_left stash_store (cookies_encr p) (s_stash s) else s_stash s in
  (mkSt (s_nts s) stash (s_last_poll s) rmin None (s_nsent s) false (p_stratum p)
        (reach_received (s_reach s)) (s_tries s) (s_ver s),
   [Measure id]).

(* handle_incoming on the decoder's result; the decoder error case is [None] *)
Definition step_incoming (c : cfg) (s : st) (now : Z) (op : option pkt) : st * list action :=
  match op with
  | None => (s, [])
  | Some p =>
    if negb (expected (s_ver s) (p_ver p)) then (s, [])
    else match s_req s with
    | None => (s, [])
    | Some (id, deadline) =>
      if negb (deadline >=? now) then (s, [])
      else if negb (valid_response p id (s_nts s)) then (s, [])
      else
        let s := set_ver s (ver_after_valid (s_ver s) p) in
        if is_kiss_ntsn p then (s, [])
        else if is_kiss_rate p (s_last_poll s) then
          (set_remote_min s (Z.max (poll_inc c (s_remote_min s)) (s_last_poll s)), [])
        else if is_kiss_rstr p || is_kiss_deny p then
          if s_nts s then (s, [Demobilize]) else (set_deny s true, [])
        else if is_kiss p then (s, [])
        else if p_stratum p >? MAX_STRATUM then (s, [])
        else if negb (p_mode p =? MODE_SERVER) then (s, [])
        else process_message s id p
    end
  end.

Inductive event :=
| Timer (now desired : Z)
| Incoming (now : Z) (p : option pkt).

Definition step (c : cfg) (s : st) (e : event) : res (st * list action) :=
  match e with
  | Timer now desired => step_timer c s now desired
  | Incoming now p => Ok (step_incoming c s now p)
  end.

(* a run: the per-event action lists, or the panic *)
Fixpoint run (c : cfg) (s : st) (evs : list event) : res (st * list (list action)) :=
  match evs with
  | [] => Ok (s, [])
  | e :: rest =>
    match step c s e with
    | Ok (s1, a) =>
      match run c s1 rest with
      | Ok (s2, tr) => Ok (s2, a :: tr)
      | Err x => Err x
      | Panic x => Panic x
      end
    | Err x => Err x
    | Panic x => Panic x
    end
  end.

(* ------------------------------------------------------------------ *)
(* the desired poll interval of the Kalman source filter               *)
(* (update_desired_poll; the float tests are inputs)                   *)
(* ------------------------------------------------------------------ *)

Record desire := mkDesire { d_score : Z (* i32 *); d_poll : Z }.

Definition i32 (z : Z) : Z := to_signed 32 z.
Definition signum (z : Z) : Z := if z >? 0 then 1 else if z <? 0 then -1 else 0.

(* low  = weight < poll_interval_low_weight  && period / reference > 0.75
   high = weight > poll_interval_high_weight && period / reference < 1.4
   stepb = p <= poll_interval_step_threshold;  hyst = poll_interval_hysteresis (i32) *)
Definition update_desired_poll (c : cfg) (hyst : Z) (d : desire) (low high stepb : bool) : desire :=
  let score := if low then i32 (d_score d - 1)
               else if high then i32 (d_score d + 1)
               else i32 (d_score d - signum (d_score d)) in
  if stepb then mkDesire 0 (c_min c)
  else if score <=? i32 (- hyst) then mkDesire 0 (poll_inc c (d_poll d))
  else if score >=? hyst then mkDesire 0 (poll_dec c (d_poll d))
  else mkDesire score (d_poll d).

(* get_desired_poll: limits.min while the filter is in its initial phase,
   then the filter's own value, which starts at initial_poll_interval *)
Inductive dphase := DInitial | DStable (d : desire).
Definition get_desired_poll (c : cfg) (ph : dphase) : Z :=
  match ph with DInitial => c_min c | DStable d => d_poll d end.

Inductive devent :=
| DBecomeStable                          (* eighth initial sample: Stable with desired = initial *)
| DUpdate (low high stepb : bool).       (* a measurement absorbed by the stable filter *)

Definition dstep (c : cfg) (initial hyst : Z) (ph : dphase) (e : devent) : dphase :=
  match ph, e with
  | DInitial, DBecomeStable => DStable (mkDesire 0 initial)
  | DInitial, DUpdate _ _ _ => DInitial
  | DStable d, DBecomeStable => DStable d
  | DStable d, DUpdate l h s => DStable (update_desired_poll c hyst d l h s)
  end.

(* ------------------------------------------------------------------ *)
(* encoding for the correspondence check                               *)
(* ------------------------------------------------------------------ *)

Inductive obs :=
| OSend (ver upg poll ctag clen nph len : Z)
| OTimer (x : Z)        (* model: base seconds; implementation: nanoseconds *)
| OReset
| ODemob
| OMeasure (n : Z)      (* number of handle_measurement calls *)
| OPanic.

Record evout := mkOut { o_actions : list obs; o_dump : list Z }.

Definition b2z (b : bool) : Z := if b then 1 else 0.
Definition ver_code (v : pver) : Z :=
  match v with V4 => 0 | Upgraded => 1 | V5 => 2 | Upgrading t => 100 + t end.
Definition ver_of_code (z : Z) : pver :=
  if z =? 0 then V4 else if z =? 1 then Upgraded else if z =? 2 then V5 else Upgrading (z - 100).

Definition obs_of_action (a : action) : obs :=
  match a with
  | Send r => OSend (r_ver r) (b2z (r_upgrade r)) (r_poll r)
                    (match r_cookie r with Some k => fst k | None => -1 end)
                    (match r_cookie r with Some k => snd k | None => -1 end)
                    (r_placeholders r) (r_len r)
  | SetTimer b => OTimer b
  | Reset => OReset
  | Demobilize => ODemob
  | Measure _ => OMeasure 2
  end.

(* stash length, last poll, remote min, request pending, its deadline (ms, 0 if none),
   deny flag, stratum, reach, tries, version *)
Definition dump (s : st) : list Z :=
  [Z.of_nat (length (s_stash s)); s_last_poll s; s_remote_min s;
   b2z (is_some (s_req s)); match s_req s with Some (_, d) => d | None => 0 end;
   b2z (s_deny s); s_stratum s; s_reach s; s_tries s; ver_code (s_ver s)].

Fixpoint run_obs (c : cfg) (s : st) (evs : list event) : list evout :=
  match evs with
  | [] => []
  | e :: rest =>
    match step c s e with
    | Ok (s1, a) => mkOut (map obs_of_action a) (dump s1) :: run_obs c s1 rest
    | _ => [mkOut [OPanic] []]
    end
  end.

(* input of one correspondence case *)
Record scase := mkCase {
  k_cfg : cfg; k_nts : bool; k_stash : list cookie; k_ver : Z; k_events : list event }.
Definition run_case (k : scase) : list evout :=
  run_obs (k_cfg k) (init (k_cfg k) (k_nts k) (k_stash k) (ver_of_code (k_ver k))) (k_events k).

Fixpoint list_eqb {A} (f : A -> A -> bool) (a b : list A) : bool :=
  match a, b with
  | [], [] => true
  | x :: a, y :: b => f x y && list_eqb f a b
  | _, _ => false
  end.

(* first argument: model, second: implementation.  The timer of the
   implementation (nanoseconds) must lie within base * [1.01, 1.05] (+- 1 ns
   for the rounding of Duration::mul_f64) *)
Definition obs_eqb (m o : obs) : bool :=
  match m, o with
  | OSend a b c d e f g, OSend a' b' c' d' e' f' g' =>
      (a =? a') && (b =? b') && (c =? c') && (d =? d') && (e =? e') && (f =? f') && (g =? g')
  | OTimer base, OTimer ns =>
      ((100 + JITTER_LO_PERCENT) * 10000000 * base - 1 <=? ns)
      && (ns <=? (100 + JITTER_HI_PERCENT) * 10000000 * base + 1)
  | OReset, OReset | ODemob, ODemob | OPanic, OPanic => true
  | OMeasure a, OMeasure b => a =? b
  | _, _ => false
  end.
Definition evout_eqb (m o : evout) : bool :=
  list_eqb obs_eqb (o_actions m) (o_actions o) && list_eqb Z.eqb (o_dump m) (o_dump o).
Definition outs_eqb (m o : list evout) : bool := list_eqb evout_eqb m o.

(* correspondence of the desire model: events with the three tests already
   evaluated; output (score, poll) after every event, (-1000, min) in the initial phase *)
Definition drun_case (k : cfg * Z * Z * list (Z * Z)) : list (Z * Z) :=
  let '(c, initial, hyst, evs) := k in
  let fix go ph evs :=
    match evs with
    | [] => []
    | (kind, bits) :: rest =>
      let e := if kind =? 0 then DBecomeStable
               else DUpdate (Z.odd bits) (Z.odd (bits / 2)) (Z.odd (bits / 4)) in
      let ph' := dstep c initial hyst ph e in
      (match ph' with DInitial => -1000 | DStable d => d_score d end, get_desired_poll c ph') :: go ph' rest
    end in
  go DInitial evs.
Definition pair_eqb (a b : Z * Z) : bool := (fst a =? fst b) && (snd a =? snd b).

(* C14 grid: (nts, version code, cookie length, stash fill) -> (outcome, length)
   outcome: 0 Send, 1 Reset, 2 panic, 3 other *)
Definition c14_case (k : Z * Z * Z * Z) : Z * Z :=
  let '(nts, vc, clen, fill) := k in
  let c := mkCfg 4 10 in
  let stash := repeat (7, clen) (Z.to_nat fill) in
  match step_timer c (init c (0 <? nts) stash (ver_of_code vc)) 0 4 with
  | Ok (_, [Send r; SetTimer _]) => (0, r_len r)
  | Ok (_, [Reset]) => (1, 0)
  | Panic _ => (2, 0)
  | _ => (3, 0)
  end.
