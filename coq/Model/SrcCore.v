(* Model of the part of ntp-proto/src/source.rs that C11 and C13 speak about:
   the reach register, the tries counter, the deny flag, the outstanding
   request and the NTS cookie stash of an NtpSource, as driven by
   handle_timer and handle_incoming/process_message.  Definitions only.

   What is NOT modelled here (owned by the C07-C10/C12/C14 models): how a
   datagram is classified.  An incoming datagram is one of three events
     Usable cs  - reaches process_message (valid answer to the outstanding
                  request, not a kiss, stratum <= 16, server mode); cs = the
                  cookies of its encrypted fields (NtpPacket::new_cookies)
     DenyKiss   - valid answer to the outstanding request that is a DENY or
                  RSTR kiss (and not RATE)
     Other      - everything else (ignored: parse error, wrong version, no or
                  expired request, not a valid response, RATE/NTSN/unknown
                  kiss, stratum > 16, wrong mode); changes none of the fields
                  below
   The harness builds datagrams of each class for the request just sent; that
   the implementation treats them so is part of the correspondence. *)
From V Require Export Base.Prelude.
From V Require Import Gen.ConstSource.
From V Require Export Model.CookieStash.

Definition usize_max : Z := 2 ^ 64 - 1.

(* u8::trailing_zeros; 8 for 0 *)
Fixpoint tz (fuel : nat) (r : Z) : Z :=
  match fuel with
  | O => 0
  | S f => if Z.odd r then 0 else 1 + tz f (r / 2)
  end.
Definition tz8 (r : Z) : Z := tz 8 r.

Section Src.
Context {C : Type}.
Variable dflt : C.          (* the empty cookie *)
Variable clen : C -> Z.     (* cookie.len() *)

Record src : Type := mkSrc {
  reach : Z;                (* Reach(u8) *)
  tries : Z;                (* usize *)
  deny : bool;              (* have_deny_rstr_response *)
  pending : bool;           (* current_request_identifier.is_some() *)
  nts : option (stash C)    (* nts.map(|n| n.cookies) *)
}.

Inductive event : Type :=
| Timer
| Usable (cs : list C)
| DenyKiss
| Other
| StoreCookie (c : C).       (* cookies put into SourceNtsData by the key exchange *)

Inductive action : Type :=
| SendPlain
| SendNts (c : C) (placeholders : Z)
| Reset
| Demobilize.

Definition src_new (with_nts : bool) : src :=
  mkSrc 0 0 false false (if with_nts then Some (stash_default dflt) else None).

(* ((buffer.len() - 300) / cookie.len().max(1)).min(u8::MAX) as u8 *)
Definition cookie_cap (c : C) : Z :=
  Z.min ((POLL_BUFFER_LEN - POLL_COOKIE_MARGIN) / Z.max (clen c) 1) 255.

Definition reset_due (st : src) : bool :=
  (reach st =? 0) && (tries st >=? STARTUP_TRIES_THRESHOLD).

Definition handle_timer (st : src) : list action * src :=
  if reset_due st then
    ((if deny st then [Demobilize] else [Reset]), st)
  else
    let reach' := (reach st * 2) mod 256 in               (* self.0 <<= 1 on u8 *)
    let tries' := Z.min (tries st + 1) usize_max in        (* saturating_add(1) *)
    match nts st with
    | None => ([SendPlain], mkSrc reach' tries' (deny st) true None)
    | Some s =>
      match get dflt s with
      | (None, _) => ([Reset], mkSrc reach' tries' (deny st) (pending st) (Some s))
      | (Some c, s') =>
        let n := Z.min (gap s') (cookie_cap c) in
        if n =? 0 then ([Reset], mkSrc reach' tries' (deny st) (pending st) (Some s'))
        else ([SendNts c (n - 1)], mkSrc reach' tries' (deny st) true (Some s'))
      end
    end.

Definition handle_usable (st : src) (cs : list C) : list action * src :=
  if pending st then
    ([], mkSrc (Z.lor (reach st) 1) (tries st) false false
               (option_map (fun s => fold_left store cs s) (nts st)))
  else ([], st).

Definition handle_deny (st : src) : list action * src :=
  if pending st then
    match nts st with
    | Some _ => ([Demobilize], st)
    | None => ([], mkSrc (reach st) (tries st) true (pending st) None)
    end
  else ([], st).

Definition step (st : src) (e : event) : list action * src :=
  match e with
  | Timer => handle_timer st
  | Usable cs => handle_usable st cs
  | DenyKiss => handle_deny st
  | Other => ([], st)
  | StoreCookie c => ([], mkSrc (reach st) (tries st) (deny st) (pending st)
                                (option_map (fun s => store s c) (nts st)))
  end.

(* the whole history: actions and state after every event *)
Fixpoint run (st : src) (evs : list event) : list (list action * src) :=
  match evs with
  | [] => []
  | e :: r => let (a, st') := step st e in (a, st') :: run st' r
  end.

Definition final (st : src) (evs : list event) : src :=
  fold_left (fun s e => snd (step s e)) evs st.

(* observables (NtpSource::observe) *)
Definition unanswered_polls (st : src) : Z := tz8 (reach st).
Definition nts_cookies (st : src) : option Z := option_map stash_len (nts st).

End Src.

Arguments src C : clear implicits.
Arguments event C : clear implicits.
Arguments action C : clear implicits.
Arguments Timer {C}.
Arguments DenyKiss {C}.
Arguments Other {C}.
Arguments SendPlain {C}.
Arguments Reset {C}.
Arguments Demobilize {C}.

(* ---- instance used by the correspondence: a cookie is (tag, length); the
   harness expands it to `length` bytes that spell the tag ---- *)
Definition tcookie : Type := Z * Z.
Definition tc_dflt : tcookie := (0, 0).
Definition tc_len (c : tcookie) : Z := snd c.

Definition E_timer : event tcookie := Timer.
Definition E_usable (cs : list tcookie) : event tcookie := Usable cs.
Definition E_deny : event tcookie := DenyKiss.
Definition E_other : event tcookie := Other.
Definition E_store (c : tcookie) : event tcookie := StoreCookie c.

(* one event's output, as the harness prints it:
   [code; tag; len; placeholders; placeholder length; unanswered_polls; nts_cookies]
   code 0 nothing, 1 plain request, 2 NTS request, 3 Reset, 4 Demobilize,
   9 anything else; nts_cookies = -1 for a plain source *)
Definition enc_out (o : list (action tcookie) * src tcookie) : list Z :=
  let (a, st) := o in
  (match a with
   | [] => [0; 0; 0; 0; 0]
   | [SendPlain] => [1; 0; 0; 0; 0]
   | [SendNts c p] => [2; fst c; snd c; p; if p =? 0 then 0 else snd c]
   | [Reset] => [3; 0; 0; 0; 0]
   | [Demobilize] => [4; 0; 0; 0; 0]
   | _ => [9; 0; 0; 0; 0]
   end) ++ [unanswered_polls st; match nts_cookies st with Some n => n | None => -1 end].

Definition run_case (i : bool * list (event tcookie)) : list Z :=
  let (with_nts, evs) := i in
  flat_map enc_out (run tc_dflt tc_len (src_new tc_dflt with_nts) evs).

Fixpoint zlist_eqb (a b : list Z) : bool :=
  match a, b with
  | [], [] => true
  | x :: a', y :: b' => (x =? y) && zlist_eqb a' b'
  | _, _ => false
  end.
