(* Model of statime-csptp/src/server.rs: handle_packet as a function from the received
   datagram, its reception timestamp, the server state and the result of send_event
   (oracle: the timestamp the socket reports, or an error) to the datagrams handed to
   ServerSocket::send_event (channel 0) and ServerSocket::send_general (channel 1).
   Definitions only. *)
From V Require Export Model.CsptpMsg.
From V Require Import Gen.ConstCsptp.

Definition CH_EVENT : Z := 0.
Definition CH_GENERAL : Z := 1.

Definition zero_buf (n : Z) : bytes := repeat 0 (Z.to_nat n).

(* a res value whose Err means "return without sending anything (more)" *)
Definition handle_packet (st : server_state) (pkt : bytes) (recv_ts : timestamp)
           (send_event_result : option timestamp) : res (list (Z * bytes)) :=
  match csptp_deserialize pkt with
  | Panic s => Panic s
  | Err _ => Ok []
  | Ok req =>
      do isreq <- is_request req;
      if negb isreq then Ok [] else
      match new_response (Z.to_nat RESPONSE_TLV_BUFFER) req recv_ts st with
      | Panic s => Panic s
      | Err _ => Ok []
      | Ok resp =>
          match msg_serialize resp (zero_buf MAX_MESSAGE_SIZE) with
          | Panic s => Panic s
          | Err _ => Ok []
          | Ok d1 =>
              match send_event_result with
              | None => Ok [(CH_EVENT, d1)]
              | Some send_ts =>
                  match new_follow_up resp send_ts with
                  | Panic s => Panic s
                  | Err _ => Ok [(CH_EVENT, d1)]
                  | Ok fu =>
                      match msg_serialize fu (zero_buf MAX_MESSAGE_SIZE) with
                      | Panic s => Panic s
                      | Err _ => Ok [(CH_EVENT, d1)]
                      | Ok d2 => Ok [(CH_EVENT, d1); (CH_GENERAL, d2)]
                      end
                  end
              end
          end
      end
  end.

(* ---- flat encoding for the correspondence ----
   input: [prio1; class; acc_kind; acc_val; variance; prio2; steps; gm(8); ptp; tt; ft; leap;
           recv_secs; recv_nanos; send_ok; send_secs; send_nanos; packet...]
   output: [-1000-site] | n :: (channel :: len :: bytes)* *)
Definition dec_server_state (l : list Z) : server_state :=
  mkSrv (nz 0 l) (mkCq (nz 1 l) (dec_acc (nz 2 l) (nz 3 l)) (nz 4 l)) (nz 5 l) (nz 6 l)
        (slice 7 15 l) (zb (nz 15 l)) (zb (nz 16 l)) (zb (nz 17 l)) (nz 18 l).
Definition enc_sent (l : list (Z * bytes)) : list Z :=
  Z.of_nat (length l) :: flat_map (fun p => fst p :: Z.of_nat (length (snd p)) :: snd p) l.
Definition run_server (inp : list Z) : list Z :=
  let st := dec_server_state inp in
  let recv_ts := mkTs (nz 19 inp) (nz 20 inp) in
  let send := if zb (nz 21 inp) then Some (mkTs (nz 22 inp) (nz 23 inp)) else None in
  match handle_packet st (skipn 24 inp) recv_ts send with
  | Ok l => enc_sent l
  | Err e => [- e]
  | Panic s => [- 1000 - s]
  end.
