(* binary64 helpers over Coq's primitive floats (bit-exact IEEE 754 arithmetic,
   evaluated natively by vm_compute): conversion from/to the 64-bit pattern that
   crosses the harness boundary, the integer<->float casts of Rust
   (`i128 as f64`, `f64 as i128`), Duration::as_seconds / from_f64_seconds of
   statime-base/src/time_types.rs, f64::midpoint and f64::clamp, and the
   instance of Model/Estimator.Ops.  Definitions only. *)
From V Require Export Base.Prelude Model.Estimator.
From Coq Require Export Floats.
From Coq Require Import Uint63.

Definition canonical_nan_bits : Z := 0x7ff8000000000000.

(* f64::from_bits; every NaN pattern gives the one NaN of Coq *)
Definition float_of_bits (z : Z) : float :=
  let s := Z.odd (z / 2 ^ 63) in
  let e := (z / 2 ^ 52) mod 2 ^ 11 in
  let m := z mod 2 ^ 52 in
  if e =? 2047 then (if m =? 0 then SF2Prim (S754_infinity s) else nan)
  else if e =? 0 then (if m =? 0 then SF2Prim (S754_zero s)
                       else SF2Prim (S754_finite s (Z.to_pos m) (-1074)))
  else SF2Prim (S754_finite s (Z.to_pos (m + 2 ^ 52)) (e - 1075)).

(* f64::to_bits, NaN canonicalised (the harness prints every NaN as 7ff8000000000000) *)
Definition bits_of_float (f : float) : Z :=
  let sgn (s : bool) := if s then 2 ^ 63 else 0 in
  match Prim2SF f with
  | S754_zero s => sgn s
  | S754_infinity s => sgn s + 2047 * 2 ^ 52
  | S754_nan => canonical_nan_bits
  | S754_finite s m e =>
      let m := Z.pos m in
      if m <? 2 ^ 52 then sgn s + m                      (* subnormal: e = -1074 *)
      else sgn s + (e + 1075) * 2 ^ 52 + (m - 2 ^ 52)
  end.

(* `x as f64` for an integer |x| < 2^127: round to nearest, ties to even.
   Below 2^63 of_uint63 rounds correctly; above, the value is cut to 63 bits with
   the discarded part folded into the lowest bit (sticky), which is at least 10
   bits below the rounding position, and scaled back exactly. *)
Definition float_of_nonneg (a : Z) : float :=
  if a <? 2 ^ 63 then of_uint63 (Uint63.of_Z a)
  else
    let k := Z.log2 a - 62 in
    let q := a / 2 ^ k in
    let sticky := if a mod 2 ^ k =? 0 then 0 else 1 in
    Z.ldexp (of_uint63 (Uint63.of_Z (Z.lor q sticky))) k.
Definition float_of_Z (z : Z) : float :=
  if z <? 0 then (- float_of_nonneg (- z))%float else float_of_nonneg z.

Definition two64f : float := 0x1p64%float.

(* Duration(i128)::as_seconds *)
Definition duration_as_seconds (d : Z) : float := (float_of_Z d / two64f)%float.

(* `x as i128`: truncation toward zero, saturating, NaN -> 0 *)
Definition i128_min : Z := - 2 ^ 127.
Definition i128_max : Z := 2 ^ 127 - 1.
Definition trunc_i128 (f : float) : Z :=
  match Prim2SF f with
  | S754_zero _ => 0
  | S754_nan => 0
  | S754_infinity s => if s then i128_min else i128_max
  | S754_finite s m e =>
      let mag := if 0 <=? e then Z.pos m * 2 ^ e else Z.pos m / 2 ^ (- e) in
      clampZ i128_min i128_max (if s then - mag else mag)
  end.

(* Duration::from_f64_seconds *)
Definition duration_from_f64_seconds (v : float) : Z := trunc_i128 (v * two64f)%float.

(* f64::midpoint (core 1.95) *)
Definition f64_max_half : float := 0x1.fffffffffffffp1022%float.
Definition midpoint (a b : float) : float :=
  if (abs a <=? f64_max_half)%float && (abs b <=? f64_max_half)%float
  then ((a + b) / 2)%float
  else (a / 2 + b / 2)%float.

(* f64::clamp: asserts min <= max (false when either is NaN), then two tests *)
Definition panic_clamp : Z := 4301.
Definition clamp_core (x lo hi : float) : float :=
  let x := if (x <? lo)%float then lo else x in
  if (hi <? x)%float then hi else x.
Definition f64_clamp (x lo hi : float) : res float :=
  if (lo <=? hi)%float then Ok (clamp_core x lo hi) else Panic panic_clamp.

Definition float_ops : Ops float := {|
  f0 := 0%float; f1 := 1%float; fm1 := (-1)%float; fn0 := (-0)%float;
  f2 := 2%float; f3 := 3%float;
  fadd := PrimFloat.add; fsub := PrimFloat.sub; fmul := PrimFloat.mul; fdiv := PrimFloat.div;
  fsqrt := PrimFloat.sqrt; fmid := midpoint; fdt := duration_as_seconds |}.
