(* Byte strings for the packet codec models (C23, C24, C25).
   A byte is a Z (meant to be in [0,256)); a byte string is a list of them.
   Rust's  b.get(lo..hi)  is [slice] (None out of range, also when lo > hi);
   Rust's  b[lo..hi]  is [slice] with the None case turned into an explicit
   Panic by the caller.  Definitions only. *)
From V Require Export Base.Prelude.

Definition bytes := list Z.

Definition blen (b : bytes) : Z := Z.of_nat (length b).
Definition bdrop (n : Z) (b : bytes) : bytes := skipn (Z.to_nat n) b.
Definition btake (n : Z) (b : bytes) : bytes := firstn (Z.to_nat n) b.

Definition slice (b : bytes) (lo hi : Z) : option bytes :=
  if (0 <=? lo) && (lo <=? hi) && (hi <=? blen b)
  then Some (btake (hi - lo) (bdrop lo b)) else None.

(* big-endian value of a byte string / the n-byte big-endian encoding of v *)
Definition be (b : bytes) : Z := fold_left (fun a x => a * 256 + x) b 0.
Fixpoint to_be (n : nat) (v : Z) : bytes :=
  match n with O => [] | S k => to_be k (v / 256) ++ [v mod 256] end.

Definition zeros (n : Z) : bytes := repeat 0 (Z.to_nat n).

Definition is_byte (x : Z) : Prop := 0 <= x < 256.
Definition wf_bytes (b : bytes) : Prop := Forall is_byte b.

Definition all_zero (b : bytes) : bool := forallb (Z.eqb 0) b.
Definition all_ascii (b : bytes) : bool := forallb (fun x => x <? 128) b.

Fixpoint bytes_eqb (a b : bytes) : bool :=
  match a, b with
  | [], [] => true
  | x :: a', y :: b' => (x =? y) && bytes_eqb a' b'
  | _, _ => false
  end.

(* next_multiple_of_usize(x, 4): the values are below 2^17, no wrap possible *)
Definition nm4 (x : Z) : Z := match x mod 4 with 0 => x | r => x + (4 - r) end.
(* next_multiple_of_u16(x, 4): wrapping_add on u16 *)
Definition nm4_u16 (x : Z) : Z := match x mod 4 with 0 => x | r => (x + (4 - r)) mod 65536 end.

(* b[i] with an explicit panic site; b[lo..hi] likewise *)
Definition idx (b : bytes) (i : Z) (site : Z) : res Z :=
  match nth_error b (Z.to_nat i) with Some x => if 0 <=? i then Ok x else Panic site | None => Panic site end.
Definition range (b : bytes) (lo hi : Z) (site : Z) : res bytes :=
  match slice b lo hi with Some s => Ok s | None => Panic site end.
