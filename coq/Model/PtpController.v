(* Model of the parts of statime-algo/src/filter.rs (LinkFilter) and lib.rs
   (KalmanController, KalmanControllerState::steer_clocks, KalmanLink) that reach
   the estimator, over binary64 (Model/FloatBits.v).  Definitions only.

   What is a function argument (oracle) rather than modelled:
   - identifiers: ClockId::new()/LinkId::new() draw from process-wide counters; the
     fresh identifier is an argument of the operation;
   - the link-noise estimator (link_noise.rs) and the selection of external links
     (offset windows, consensus): a measurement on a tracked link takes the current
     (delay, noise) estimate, when available, and a measurement on a link with an
     external clock takes the outcome of the consensus test, as arguments
     ([meas_oracle]); everything that happens to the estimator afterwards is modelled;
   - the clocks: now(), get_frequency(), max_frequency() results are arguments; the
     calls set_frequency / step_clock are recorded as outputs; clock calls do not fail
     (a failing clock call makes the real steer_clocks return early, see C43.v). *)
From V Require Export Model.FloatBits.

Definition fest : Type := @est float.
Definition FO := float_ops.

(* ---------------------------------------------------------------- filter.rs *)
Record flink : Type := {
  fl_id : linkid;
  fl_active : bool;
  fl_tracked : bool;
  fl_decay : float;        (* LinkState::decay_rate (0.0 when untracked) *)
  fl_external : bool;      (* external_link_state.is_some() *)
}.
Record filter : Type := { f_links : list flink; f_est : fest }.

Definition f_empty (t : Z) : filter := {| f_links := []; f_est := empty FO t |}.
Definition with_est (f : filter) (e : fest) : filter := {| f_links := f_links f; f_est := e |}.
Definition on_est (op : fest -> res fest) (f : filter) : res filter :=
  do e <- op (f_est f); Ok (with_est f e).

Definition f_progress_time (t : Z) : filter -> res filter := on_est (progress_time FO t).
Definition f_absorb_frequency_steer (id : Z) (ch : float) := on_est (absorb_frequency_steer FO id ch).
Definition f_absorb_offset_change (id : Z) (ch : float) := on_est (absorb_offset_change FO id ch).
Definition f_absorb_system (id : Z) (d : Z) := on_est (absorb_system_clock_offset_change FO id d).
Definition f_add_external_clock (id : Z) := on_est (add_external_clock id).
Definition f_remove_external_clock (id : Z) := on_est (remove_external_clock id).
Definition f_add_clock (id : Z) (ov ou fv fu w : float) := on_est (add_clock FO id ov ou fv fu w).
Definition f_remove_clock (id : Z) (f : filter) : res filter :=
  if existsb (fun l => link_contains (fl_id l) id) (f_links f) then Err E_ClockInUse
  else on_est (remove_clock FO id) f.

(* add_tracked_link / add_untracked_link; n = the fresh counter value of LinkId::new *)
Definition f_add_link (tracked : bool) (a b n : Z) (decay : float) (f : filter) : res (filter * linkid) :=
  let e := f_est f in
  let ai := is_internal_clock e a in let ae := is_external_clock e a in
  let bi := is_internal_clock e b in let be := is_external_clock e b in
  if negb ai && negb ae then Err E_UnknownClock
  else if negb bi && negb be then Err E_UnknownClock
  else if ae && be then Err E_BothClocksExternal
  else if a =? b then Err E_ClocksEqual
  else
    let id := (a, b, n) in
    let internal := ai && bi in
    Ok ({| f_links := f_links f ++ [{| fl_id := id; fl_active := negb tracked && internal;
                                        fl_tracked := tracked;
                                        fl_decay := if tracked then decay else 0%float;
                                        fl_external := negb internal |}];
           f_est := e |}, id).

Definition f_remove_link (id : linkid) (f : filter) : res filter :=
  match remove_first (fun l => linkid_eqb (fl_id l) id) (f_links f) with
  | None => Err E_UnknownLink
  | Some (l, rest) =>
      if fl_active l && fl_tracked l
      then do e <- remove_link FO id (f_est f); Ok {| f_links := rest; f_est := e |}
      else Ok {| f_links := rest; f_est := f_est f |}
  end.

Definition set_active (id : linkid) (a : bool) (ls : list flink) : list flink :=
  map (fun l => if linkid_eqb (fl_id l) id
                then {| fl_id := fl_id l; fl_active := a; fl_tracked := fl_tracked l;
                        fl_decay := fl_decay l; fl_external := fl_external l |}
                else l) ls.

Record meas_oracle : Type := {
  mo_estimates : option (float * float);   (* tracked link: (delay, noise), None = not yet available *)
  mo_consensus : option bool;              (* external link: None = no consensus window, Some overlaps *)
}.

(* UncertainValue::add_uncertainty *)
Definition add_uncertainty (u extra : float) : float := sqrt (u * u + extra * extra)%float.

(* first use of a link: mark it active and, when tracked, give its delay a row in the estimator *)
Definition f_activate (l : flink) (delay noise : float) (f : filter) : res filter :=
  if fl_active l then Ok f
  else
    let ls := set_active (fl_id l) true (f_links f) in
    if fl_tracked l
    then do e <- add_link FO (fl_id l) delay noise (fl_decay l) (f_est f); Ok {| f_links := ls; f_est := e |}
    else Ok {| f_links := ls; f_est := f_est f |}.

Definition f_deactivate (l : flink) (f : filter) : res filter :=
  if fl_active l then
    let ls := set_active (fl_id l) false (f_links f) in
    if fl_tracked l
    then do e <- remove_link FO (fl_id l) (f_est f); Ok {| f_links := ls; f_est := e |}
    else Ok {| f_links := ls; f_est := f_est f |}
  else Ok f.

Definition f_measure (l : flink) (forward : bool) (value unc noise : float) : filter -> res filter :=
  on_est (measurement FO (fl_id l) forward value (add_uncertainty unc noise) (fl_tracked l)).

Definition f_measurement (o : meas_oracle) (id : linkid) (forward : bool) (value unc : float)
    (f : filter) : res filter :=
  match find (fun l => linkid_eqb (fl_id l) id) (f_links f) with
  | None => Err E_UnknownLink
  | Some l =>
      match (if fl_tracked l then mo_estimates o else Some (0%float, 0%float)) with
      | None => Ok f
      | Some (delay, noise) =>
          if fl_external l then
            match mo_consensus o with
            | None => Ok f
            | Some true => do f1 <- f_activate l delay noise f; f_measure l forward value unc noise f1
            | Some false => f_deactivate l f
            end
          else do f1 <- f_activate l delay noise f; f_measure l forward value unc noise f1
      end
  end.

(* external_data_update: only the (unmodelled) external link state changes *)
Definition f_external_data_update (id : linkid) (f : filter) : res filter :=
  match find (fun l => linkid_eqb (fl_id l) id) (f_links f) with
  | None => Err E_UnknownLink
  | Some l => if fl_external l then Ok f else Err E_LinkNotExternal
  end.

Definition f_clock_offset (f : filter) (id : Z) := clock_offset FO (f_est f) id.
Definition f_clock_frequency (f : filter) (id : Z) := clock_frequency FO (f_est f) id.

(* ------------------------------------------------------------------- lib.rs *)
(* the steered clocks (identifiers, the system clock first) and the filter *)
Record ctl : Type := { c_clocks : list Z; c_filter : filter }.

Definition with_filter (c : ctl) (f : filter) : ctl := {| c_clocks := c_clocks c; c_filter := f |}.

(* `state.filter = state.filter.clone().op(..)?` *)
Definition ctl_filter_op (op : filter -> res filter) (c : ctl) : res ctl :=
  do f <- op (c_filter c); Ok (with_filter c f).

Definition initial_offset_uncertainty : float := 0x1.bc16d674ec8p+59%float.   (* 1e18 *)

(* KalmanController::new(system_clock, initial_wander, ..): now(), max_frequency() and the fresh id are arguments *)
Definition ctl_new (now : Z) (id : Z) (maxf wander : float) : res ctl :=
  do f <- f_add_clock id 0 initial_offset_uncertainty 0 maxf wander (f_empty now);
  Ok {| c_clocks := [id]; c_filter := f |}.

Definition ctl_add_external_clock (id : Z) := ctl_filter_op (f_add_external_clock id).
Definition ctl_remove_external_clock (id : Z) := ctl_filter_op (f_remove_external_clock id).
Definition ctl_add_clock (id : Z) (maxf wander : float) (c : ctl) : res ctl :=
  do f <- f_add_clock id 0 initial_offset_uncertainty 0 maxf wander (c_filter c);
  Ok {| c_clocks := c_clocks c ++ [id]; c_filter := f |}.
Definition ctl_remove_clock (id : Z) (c : ctl) : res ctl :=
  match c_clocks c with
  | [] => Panic panic_index                       (* state.clocks[0] *)
  | sys :: _ =>
      if sys =? id then Err E_CannotRemoveSystemClock
      else match remove_first (Z.eqb id) (c_clocks c) with
           | None => Err E_UnknownClock
           | Some (_, rest) =>
               do f <- f_remove_clock id (c_filter c);
               Ok {| c_clocks := rest; c_filter := f |}
           end
  end.
Definition ctl_create_link (tracked : bool) (a b n : Z) (decay : float) (c : ctl) : res (ctl * linkid) :=
  do fi <- f_add_link tracked a b n decay (c_filter c);
  Ok (with_filter c (fst fi), snd fi).
(* Drop for KalmanLink: errors are ignored *)
Definition ctl_drop_link (id : linkid) (c : ctl) : ctl :=
  match f_remove_link id (c_filter c) with Ok f => with_filter c f | _ => c end.

(* the queries of KalmanController, as they are after the repair of clock_frequency *)
Definition ctl_clock_offset (c : ctl) (id : Z) := f_clock_offset (c_filter c) id.
Definition ctl_clock_frequency (c : ctl) (id : Z) := f_clock_frequency (c_filter c) id.

(* calls made on the clocks *)
Inductive call : Type :=
| SetFrequency (id : Z) (freq : float)
| StepClock (id : Z) (offset : Z).      (* Duration *)

(* what one clock answers during one steer_clocks: get_frequency(), max_frequency() *)
Record clock_answers : Type := { ca_cur : float; ca_max : float }.

(* what the filter absorbs for one steered clock *)
Inductive change : Type :=
| FreqChange (ch : float)        (* absorb_frequency_steer *)
| OffsetChange (ch : float)      (* absorb_offset_change *)
| SystemStep (d : Z).            (* absorb_system_clock_offset_change (Duration) *)

(* the decision of steer_clocks for one clock: the offset is read from the filter as it
   is BEFORE the time progression of this call (self.filter); the result is the call made
   on the clock and the change absorbed into the progressed copy *)
Definition steer_decision (old : filter) (index : nat) (id : Z) (a : clock_answers) : res (call * change) :=
  do ov <- f_clock_offset old id;
  let offset := fst ov in let offset_uncertainty := snd ov in
  if (offset <? 10)%float && (5 * offset_uncertainty <? offset)%float then
    do fr <- f_clock_frequency old id;
    let frequency := fst fr in
    let wanted := (ca_cur a - frequency - offset / 8)%float in
    do actual <- f64_clamp wanted (- ca_max a)%float (ca_max a);
    Ok (SetFrequency id actual, FreqChange (actual - ca_cur a)%float)
  else
    let step := duration_from_f64_seconds (- offset)%float in
    Ok (StepClock id step, if (index =? 0)%nat then SystemStep step else OffsetChange (- offset)%float).

Definition apply_change (id : Z) (chg : change) (flt : filter) : res filter :=
  match chg with
  | FreqChange ch => f_absorb_frequency_steer id ch flt
  | OffsetChange ch => f_absorb_offset_change id ch flt
  | SystemStep d => f_absorb_system id d flt
  end.

Definition steer_one (old : filter) (index : nat) (id : Z) (a : clock_answers)
    (acc : filter * list call) : res (filter * list call) :=
  do dc <- steer_decision old index id a;
  do flt' <- apply_change id (snd dc) (fst acc);
  Ok (flt', snd acc ++ [fst dc]).

Fixpoint steer_loop (old : filter) (index : nat) (ids : list Z) (ans : list clock_answers)
    (acc : filter * list call) : res (filter * list call) :=
  match ids with
  | [] => Ok acc
  | id :: ids' =>
      let a := match ans with a :: _ => a | [] => {| ca_cur := 0; ca_max := 0 |} end in
      do acc' <- steer_one old index id a acc;
      steer_loop old (S index) ids' (tl ans) acc'
  end.

(* steer_clocks: now = the system clock's now() *)
Definition steer_clocks (now : Z) (ans : list clock_answers) (c : ctl) : res (ctl * list call) :=
  do flt <- f_progress_time now (c_filter c);
  do r <- steer_loop (c_filter c) 0 (c_clocks c) ans (flt, []);
  Ok (with_filter c (fst r), snd r).

(* KalmanLink::measurement: three commits in sequence; a failure keeps the earlier ones.
   Result: the controller after the call, the result class, the calls of a completed steer *)
Definition ctl_measurement (o : meas_oracle) (id : linkid) (forward : bool) (send recv unc : Z)
    (now1 now2 : Z) (ans : list clock_answers) (c : ctl) : ctl * Z * list call :=
  match f_progress_time now1 (c_filter c) with
  | Err e => (c, e, [])
  | Panic _ => (c, -1, [])
  | Ok f1 =>
      let c1 := with_filter c f1 in
      match f_measurement o id forward (duration_as_seconds (ts_sub recv send)) (duration_as_seconds unc) f1 with
      | Err e => (c1, e, [])
      | Panic _ => (c1, -1, [])
      | Ok f2 =>
          let c2 := with_filter c f2 in
          match steer_clocks now2 ans c2 with
          | Err e => (c2, e, [])
          | Panic _ => (c2, -1, [])
          | Ok (c3, calls) => (c3, 0, calls)
          end
      end
  end.
