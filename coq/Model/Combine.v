(* Model of ntp-proto/src/algorithm/kalman/combiner.rs: vote_leap.
   Definitions only. *)
From V Require Export Base.Prelude.

Inductive leap := NoWarning | Leap61 | Leap59 | Unknown | Unsynchronized.

Definition leap_eqb (a b : leap) : bool :=
  match a, b with
  | NoWarning, NoWarning | Leap61, Leap61 | Leap59, Leap59
  | Unknown, Unknown | Unsynchronized, Unsynchronized => true
  | _, _ => false
  end.

(* wire/numeric code used by the harness: the 2-bit leap field, 4 for Unsynchronized *)
Definition leap_of_code (z : Z) : leap :=
  match z with 0 => NoWarning | 1 => Leap61 | 2 => Leap59 | 3 => Unknown | _ => Unsynchronized end.
Definition leap_code (l : leap) : Z :=
  match l with NoWarning => 0 | Leap61 => 1 | Leap59 => 2 | Unknown => 3 | Unsynchronized => 4 end.

Fixpoint count (l : leap) (sel : list leap) : Z :=
  match sel with
  | [] => 0
  | x :: r => (if leap_eqb x l then 1 else 0) + count l r
  end.

Definition panic_unsynchronized_selected : Z := 401.

(* the four counters are usize; [len - votes_unknown] cannot underflow
   (votes_unknown <= len), [votes * 2] cannot overflow for slices that fit in
   memory, so plain Z arithmetic is the faithful reading *)
Definition vote_leap (sel : list leap) : res (option leap) :=
  if existsb (leap_eqb Unsynchronized) sel then Panic panic_unsynchronized_selected
  else
    let n := Z.of_nat (length sel) - count Unknown sel in
    if count NoWarning sel * 2 >? n then Ok (Some NoWarning)
    else if count Leap59 sel * 2 >? n then Ok (Some Leap59)
    else if count Leap61 sel * 2 >? n then Ok (Some Leap61)
    else Ok None.

(* how update_clock applies the vote (mod.rs: `if let Some(leap) = ...`):
   the previous indicator is kept when there is no majority *)
Definition apply_vote (prev : leap) (v : option leap) : leap * list leap (* status_update calls *) :=
  match v with Some l => (l, [l]) | None => (prev, []) end.

(* encoding of a result for the correspondence: -2 panic, -1 none, else code *)
Definition vote_code (sel : list Z) : Z :=
  match vote_leap (map leap_of_code sel) with
  | Panic _ => -2
  | Err _ => -3
  | Ok None => -1
  | Ok (Some l) => leap_code l
  end.
