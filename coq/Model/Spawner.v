(* Model of ntpd/src/daemon/spawn/mod.rs: spawner_task (the pacing loop), as a timed
   transition system, and of the flags of standard.rs (StandardSpawner) and nts.rs (NtsSpawner).
   Definitions only.  Time is in milliseconds (tokio's timer granularity) as Z. *)
From V Require Export Base.Prelude.
From V Require Import Gen.ConstSpawn.

Definition W : Z := NETWORK_WAIT_PERIOD_SECS * 1000.

Inductive rreason := RDemobilized | RNetworkIssue | RUnreachable.
Inductive sysev := EvRegistered | EvRemoved (r : rreason) | EvIdle.

(* Any implementation of the Spawner trait: a state machine.  try_spawn returns the new
   state, how long the call took (an oracle, clamped to >= 0 by the loop model) and
   None = Err(..) (spawner_task returns with `?`) or Some info = Ok(()) with what it did. *)
Record spawner (S : Type) := mkspawner {
  sp_complete : S -> bool;
  sp_try : S -> S * Z * option (list Z);
  sp_removed : S -> rreason -> S;
  sp_registered : S -> S;
}.
Arguments sp_complete {S}. Arguments sp_try {S}. Arguments sp_removed {S}. Arguments sp_registered {S}.

(* what the loop does, with the instant of each action *)
Inductive entry :=
| Try (t f : Z) (info : option (list Z))   (* try_spawn called at t, returned at f *)
| Handled (t : Z) (e : sysev)              (* an event received from the system, handler called at t *)
| IdleAt (t : Z)                           (* the timeout fired: SystemEvent::Idle made up by the loop *)
| Closed (t : Z)                           (* recv returned None: break *)
| OutOfFuel.                               (* the model was cut off (never in the correspondence) *)

Record lstate (S : Type) := mklstate { has_ticket : bool; last : Z; now : Z; sp : S }.
Arguments has_ticket {S}. Arguments last {S}. Arguments now {S}. Arguments sp {S}. Arguments mklstate {S}.

Definition handle {S} (P : spawner S) (s : S) (e : sysev) : S :=
  match e with
  | EvRegistered => sp_registered P s
  | EvRemoved r => sp_removed P s r
  | EvIdle => s
  end.

(* One run of spawner_task.
   evs   : the events the system sends, (arrival time, event), arrival times non-decreasing
   tc    : the time at which the system side of the channel is dropped (after the last event)
   ties  : when a message arrives exactly at the instant the timeout expires either can win;
           one oracle bit per such tie (true = the timeout wins, the message is received in the
           next iteration); missing bits read as false
   Handlers take no time (all real handlers are bookkeeping without a pending await). *)

(* first half of the loop body:
     if last_ticket_time.elapsed() >= NETWORK_WAIT_PERIOD { has_ticket = true }
     if has_ticket && !spawner.is_complete() { try_spawn().await?; has_ticket = false; last = now }
   -> (log entries, state, try_spawn returned Err) *)
Definition attempt_step {S} (P : spawner S) (st : lstate S) : list entry * lstate S * bool :=
  let ht := has_ticket st || (W <=? now st - last st) in
  if ht && negb (sp_complete P (sp st)) then
    let r := sp_try P (sp st) in
    let f := now st + Z.max 0 (snd (fst r)) in
    ([Try (now st) f (snd r)], mklstate false f f (fst (fst r)),
     match snd r with None => true | Some _ => false end)
  else ([], mklstate ht (last st) (now st) (sp st), false).

(* second half: what the wait yields and when
     if has_ticket { recv().await }
     else { timeout(NETWORK_WAIT_PERIOD.saturating_sub(last.elapsed()), recv()).await.unwrap_or(Some(Idle)) } *)
Inductive waitres :=
| WClosed (t : Z)
| WEvent (t : Z) (e : sysev) (evs' : list (Z * sysev)) (ties' : list bool)
| WIdle (t : Z) (ties' : list bool).

Definition wait_step (ht : bool) (lst nw : Z) (evs : list (Z * sysev)) (tc : Z) (ties : list bool) : waitres :=
  let arrival := match evs with [] => tc | (a, _) :: _ => a end in
  let deliver (t : Z) (ties' : list bool) :=
    match evs with [] => WClosed t | (_, e) :: evs' => WEvent t e evs' ties' end in
  if ht then deliver (Z.max nw arrival) ties
  else
    let d := nw + Z.max 0 (W - (nw - lst)) in
    if arrival <=? nw then deliver nw ties
    else if arrival <? d then deliver arrival ties
    else if arrival =? d then
      match ties with
      | true :: ties' => WIdle d ties'
      | false :: ties' => deliver d ties'
      | [] => deliver d []
      end
    else WIdle d ties.

(* each unfolding of [loop] is one iteration of the Rust `loop` *)
Fixpoint loop {S} (P : spawner S) (fuel : nat) (st : lstate S) (evs : list (Z * sysev)) (tc : Z)
  (ties : list bool) : list entry :=
  match fuel with
  | O => [OutOfFuel]
  | Datatypes.S fuel' =>
    let a := attempt_step P st in
    let pre := fst (fst a) in
    let st1 := snd (fst a) in
    if snd a then pre
    else
      match wait_step (has_ticket st1) (last st1) (now st1) evs tc ties with
      | WClosed t => pre ++ [Closed t]
      | WEvent t e evs' ties' =>
          pre ++ Handled t e ::
            loop P fuel' (mklstate (has_ticket st1) (last st1) t (handle P (sp st1) e)) evs' tc ties'
      | WIdle t ties' =>
          pre ++ IdleAt t :: loop P fuel' (mklstate (has_ticket st1) (last st1) t (sp st1)) evs tc ties'
      end
  end.

(* spawner_task starts with has_ticket = true and last_ticket_time = now *)
Definition init {S} (t0 : Z) (s : S) : lstate S := mklstate true t0 t0 s.
Definition task {S} (P : spawner S) (fuel : nat) (t0 : Z) (s : S) evs tc ties : list entry :=
  loop P fuel (init t0 s) evs tc ties.

(* ---------- the mock spawner of the harness: scripted attempts ---------- *)
(* script entry (duration ms, outcome): 0 = Ok but still incomplete, 1 = Ok and complete,
   2 = Err; an exhausted script answers (0, complete).  A removal for a reason other than
   Demobilized makes it incomplete again. *)
Record mock := mkmock { m_complete : bool; m_script : list (Z * Z) }.
Definition mock_try (m : mock) : mock * Z * option (list Z) :=
  match m_script m with
  | [] => (mkmock true [], 0, Some [1])
  | (d, o) :: r =>
      if o =? 2 then (mkmock (m_complete m) r, d, None)
      else if o =? 1 then (mkmock true r, d, Some [1])
      else (mkmock false r, d, Some [0])
  end.
Definition mock_removed (m : mock) (r : rreason) : mock :=
  match r with RDemobilized => m | _ => mkmock false (m_script m) end.
Definition Mock : spawner mock := mkspawner mock m_complete mock_try mock_removed (fun m => m).

(* ---------- StandardSpawner (standard.rs) ---------- *)
(* resolved / has_spawned as in the struct; [dns k] is the answer of the k-th call of
   resolve_single_ntp_server (None: no usable address), an oracle; nres counts the calls.
   try_spawn takes no (virtual) time.  info = [addr; 1 if the name was resolved in this call
   else 0] when a source is spawned, [] when resolution failed (Ok(()), still incomplete). *)
Record std := mkstd { resolved : option Z; has_spawned : bool; nres : nat }.
Definition std_try (dns : nat -> option Z) (s : std) : std * Z * option (list Z) :=
  match resolved s with
  | Some a => (mkstd (Some a) true (nres s), 0, Some [a; 0])
  | None =>
      match dns (nres s) with
      | Some a => (mkstd (Some a) true (Datatypes.S (nres s)), 0, Some [a; 1])
      | None => (mkstd None (has_spawned s) (Datatypes.S (nres s)), 0, Some [])
      end
  end.
Definition std_removed (s : std) (r : rreason) : std :=
  let res := match r with RUnreachable => None | _ => resolved s end in
  let hs := match r with RDemobilized => has_spawned s | _ => false end in
  mkstd res hs (nres s).
Definition Std (dns : nat -> option Z) : spawner std :=
  mkspawner std has_spawned (std_try dns) std_removed (fun s => s).
Definition std0 : std := mkstd None false 0.

(* NtsSpawner (nts.rs): has_spawned only; EVERY removal clears it, whatever the reason
   (so a demobilised NTS source is respawned: C36 speaks of the plain spawner only).
   [ke k] = outcome of the k-th key exchange + resolution: Some addr or None. *)
Record nts := mknts { nts_spawned : bool; nts_n : nat }.
Definition nts_try (ke : nat -> option Z) (s : nts) : nts * Z * option (list Z) :=
  match ke (nts_n s) with
  | Some a => (mknts true (Datatypes.S (nts_n s)), 0, Some [a; 1])
  | None => (mknts (nts_spawned s) (Datatypes.S (nts_n s)), 0, Some [])
  end.
Definition Nts (ke : nat -> option Z) : spawner nts :=
  mkspawner nts nts_spawned (nts_try ke) (fun s _ => mknts false (nts_n s)) (fun s => s).

(* the test resolver of the repository: a list rotated by one (last to front) on every
   lookup, the first entry is taken; the k-th lookup (from 0) of [l] therefore yields *)
Definition rot_dns (l : list Z) (k : nat) : option Z :=
  match l with
  | [] => None
  | _ => nth_error l ((length l - 1 - (k mod length l)) mod length l)
  end.

(* ---------- specifications on logs ---------- *)
(* pace: every attempt starts at least W after the previous one returned *)
Fixpoint paced (lastf : option Z) (log : list entry) : Prop :=
  match log with
  | [] => True
  | Try t f _ :: r =>
      match lastf with Some l => l + W <= t | None => True end /\ t <= f /\ paced (Some f) r
  | _ :: r => paced lastf r
  end.

(* keeps trying: for a spawner that is never complete the attempts are exactly periodic: the
   first at the start, each next one exactly W after the previous one returned; nothing else
   the loop does in between happens later than that deadline, a timeout is followed at once by
   the attempt; the log only ends because the channel was closed, try_spawn failed, or the
   model was cut off *)
Fixpoint periodic (t0 : Z) (lastf : option Z) (log : list entry) : Prop :=
  match log with
  | [] => False
  | [OutOfFuel] => True
  | Try t f i :: r =>
      t = match lastf with Some l => l + W | None => t0 end /\ t <= f
      /\ match i with None => r = [] | Some _ => periodic t0 (Some f) r end
  | Handled t _ :: r => match lastf with Some l => t <= l + W | None => False end /\ periodic t0 lastf r
  | IdleAt t :: r =>
      match lastf with Some l => t = l + W | None => False end
      /\ match r with Try _ _ _ :: _ | [OutOfFuel] => True | _ => False end /\ periodic t0 lastf r
  | Closed t :: r => match lastf with Some l => t <= l + W | None => False end /\ r = []
  | OutOfFuel :: _ => False
  end.

(* keeps trying, ANY spawner (also one that alternates between complete and incomplete).
   The log is followed together with three ghost values: the spawner's state [s] (try_spawn and
   the handlers applied as the log says), the instant [lastf] at which the previous attempt
   returned (None: no attempt was made yet) and the instant [cur] of the previous log entry (the
   start of the task for the first one).  An attempt is [due] when no attempt was made yet or a
   wait period has passed since the previous one returned.  The specification of what may come next:
     - spawner incomplete and an attempt due: nothing but the attempt, at this very instant;
     - an attempt not due (cur < l + W): the next thing the loop does (handle an event, notice the
       closed channel, time out) happens no later than l + W, a timeout exactly at l + W, never an attempt;
     - spawner complete and an attempt due: no timeout, no attempt, the loop waits for a message;
     - the log never just ends: only by Closed, a failing try_spawn, or the cut-off of the model. *)
Definition due (lastf : option Z) (cur : Z) : bool :=
  match lastf with None => true | Some l => l + W <=? cur end.
(* [t] is not beyond the deadline l + W if the deadline is still ahead at [cur] *)
Definition by_deadline (lastf : option Z) (cur t : Z) : Prop :=
  match lastf with Some l => cur < l + W -> t <= l + W | None => True end.

Fixpoint keeps {S} (P : spawner S) (s : S) (lastf : option Z) (cur : Z) (log : list entry) : Prop :=
  match log with
  | [] => False
  | Try t f i :: r =>
      sp_complete P s = false /\ due lastf cur = true /\ t = cur /\ t <= f /\ i = snd (sp_try P s)
      /\ match i with None => r = [] | Some _ => keeps P (fst (fst (sp_try P s))) (Some f) f r end
  | Handled t e :: r =>
      (sp_complete P s = false -> due lastf cur = false) /\ cur <= t /\ by_deadline lastf cur t
      /\ keeps P (handle P s e) lastf t r
  | IdleAt t :: r =>
      match lastf with Some l => cur < l + W /\ t = l + W | None => False end /\ keeps P s lastf t r
  | Closed t :: r =>
      (sp_complete P s = false -> due lastf cur = false) /\ cur <= t /\ by_deadline lastf cur t /\ r = []
  | OutOfFuel :: r => r = []
  end.

(* the ghost values after a prefix of a log *)
Fixpoint replay {S} (P : spawner S) (s : S) (lastf : option Z) (cur : Z) (pre : list entry) : S * option Z * Z :=
  match pre with
  | [] => (s, lastf, cur)
  | Try _ f _ :: r => replay P (fst (fst (sp_try P s))) (Some f) f r
  | Handled t e :: r => replay P (handle P s e) lastf t r
  | IdleAt t :: r => replay P s lastf t r
  | Closed t :: r => replay P s lastf t r
  | OutOfFuel :: r => replay P s lastf cur r
  end.

(* a stretch of log without attempt during which the spawner is incomplete at every loop top
   (before it, and after each of its entries) *)
Fixpoint waiting {S} (P : spawner S) (s : S) (mid : list entry) : Prop :=
  sp_complete P s = false /\
  match mid with
  | [] => True
  | Handled _ e :: r => waiting P (handle P s e) r
  | IdleAt _ :: r => waiting P s r
  | _ => False
  end.

(* the instant at which an attempt is due when the spawner is seen incomplete at [cur] *)
Definition deadline (lastf : option Z) (cur : Z) : Z :=
  match lastf with None => cur | Some l => Z.max cur (l + W) end.

Definition entry_time (e : entry) : option Z :=
  match e with Try t _ _ | Handled t _ | IdleAt t | Closed t => Some t | OutOfFuel => None end.

(* standard spawner: an attempt happens only when armed: before the first source, or after a
   removal for a reason other than Demobilized since the last source was spawned *)
Definition spawned_info (i : option (list Z)) : bool :=
  match i with Some (_ :: _) => true | _ => false end.
Fixpoint std_ok (armed : bool) (log : list entry) : Prop :=
  match log with
  | [] => True
  | Try _ _ i :: r => armed = true /\ std_ok (if spawned_info i then false else armed) r
  | Handled _ (EvRemoved RDemobilized) :: r => std_ok armed r
  | Handled _ (EvRemoved _) :: r => std_ok true r
  | _ :: r => std_ok armed r
  end.

(* after an Unreachable removal the next source is spawned on a newly resolved address;
   otherwise the address resolved before is used again *)
Fixpoint reresolves (cached : option Z) (log : list entry) : Prop :=
  match log with
  | [] => True
  | Try _ _ (Some [a; fresh]) :: r =>
      match cached with Some c => a = c /\ fresh = 0 | None => fresh = 1 end /\ reresolves (Some a) r
  | Try _ _ (Some []) :: r => cached = None /\ reresolves None r
  | Try _ _ _ :: r => False
  | Handled _ (EvRemoved RUnreachable) :: r => reresolves None r
  | _ :: r => reresolves cached r
  end.

(* ---------- encoding for the correspondence ---------- *)
Definition ev_code (e : sysev) : Z :=
  match e with EvRegistered => 0 | EvRemoved RDemobilized => 1 | EvRemoved RNetworkIssue => 2
             | EvRemoved RUnreachable => 3 | EvIdle => 4 end.
Definition ev_of_code (z : Z) : sysev :=
  match z with 0 => EvRegistered | 1 => EvRemoved RDemobilized | 2 => EvRemoved RNetworkIssue
             | 3 => EvRemoved RUnreachable | _ => EvIdle end.

(* log as integers.  Try: 1 t f k i1..ik (k = -1 for Err); Handled: 2 t code; Closed: 4 t;
   OutOfFuel: 9.  Neither the made-up Idle of a timeout nor an Idle sent by the system is
   visible from outside (no handler is called), so IdleAt and Handled _ EvIdle are left out.  For the standard spawner only the address is observable. *)
Fixpoint enc_zs (l : list Z) : list Z := match l with [] => [] | x :: r => x :: enc_zs r end.
Fixpoint enc_log (addr_only : bool) (log : list entry) : list Z :=
  match log with
  | [] => []
  | Try t f None :: r => 1 :: t :: f :: (-1) :: enc_log addr_only r
  | Try t f (Some i) :: r =>
      let i' := if addr_only then firstn 1 i else i in
      1 :: t :: f :: Z.of_nat (length i') :: i' ++ enc_log addr_only r
  | Handled _ EvIdle :: r => enc_log addr_only r
  | Handled t e :: r => 2 :: t :: ev_code e :: enc_log addr_only r
  | IdleAt _ :: r => enc_log addr_only r
  | Closed t :: r => 4 :: t :: enc_log addr_only r
  | OutOfFuel :: r => 9 :: enc_log addr_only r
  end.

Fixpoint all_ties (k : nat) : list (list bool) :=
  match k with
  | O => [[]]
  | Datatypes.S k' => map (cons true) (all_ties k') ++ map (cons false) (all_ties k')
  end.

Definition decode_evs (l : list (Z * Z)) : list (Z * sysev) := map (fun p => (fst p, ev_of_code (snd p))) l.

(* a case: which spawner, its script (mock: (duration, outcome) pairs; standard: the resolver's
   address list as (addr, 0) pairs), the events, the close time, the number of possible ties
   (an upper bound computed by the driver), fuel.  The result is the list of logs the model
   allows (one per resolution of the ties). *)
Inductive kind := KMock | KStd.
Definition run (c : kind * list (Z * Z) * list (Z * Z) * Z * nat * nat) : list (list Z) :=
  match c with
  | (KMock, script, evs, tc, k, fuel) =>
      map (fun ties => enc_log false (task Mock fuel 0 (mkmock false script) (decode_evs evs) tc ties)) (all_ties k)
  | (KStd, script, evs, tc, k, fuel) =>
      map (fun ties => enc_log true (task (Std (rot_dns (map fst script))) fuel 0 std0 (decode_evs evs) tc ties)) (all_ties k)
  end.

Fixpoint zl_eqb (a b : list Z) : bool :=
  match a, b with
  | [], [] => true
  | x :: a', y :: b' => (x =? y) && zl_eqb a' b'
  | _, _ => false
  end.
(* the implementation's log (given as a one-element list) is one of the model's *)
Definition accepts (model impl : list (list Z)) : bool :=
  match impl with [x] => existsb (zl_eqb x) model | _ => false end.
