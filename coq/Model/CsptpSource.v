(* Model of statime-csptp/src/source.rs on the REPAIRED tree (branch fix-c44: add_correction
   returns None instead of panicking when the corrected time is not a PTP timestamp, and the
   response is then dropped; steps_removed uses saturating_add).
   collect_response is a state machine over the results of ClientSocket::recv; one poll of
   CsptpSource::run sends one request on a fresh socket and collects at most one raw
   measurement from that socket's traffic before the response timeout.
   Definitions only. *)
From V Require Export Model.CsptpMsg.
From V Require Import Gen.ConstCsptp.

(* what ClientSocket::recv returned *)
Inductive event :=
| RecvErr
| Datagram (pkt : bytes) (recv_ts : option timestamp).

Record sync_info := mkSyncInfo {
  si_req_recv : timestamp; si_resp_recv : timestamp; si_req_corr : Z; si_resp_corr : Z;
  si_leap : Z; si_status : option status_tlv; si_ptp : bool; si_tt : bool; si_ft : bool }.

Inductive rstate :=
| WaitingForResponse
| WaitingForFollowUp (s : sync_info)
| WaitingForResponseHaveFollowUp (remote_send : timestamp) (resp_corr : Z).

Record raw_measurement := mkRaw {
  rm_req_send : timestamp; rm_req_recv : timestamp; rm_resp_send : timestamp; rm_resp_recv : timestamp;
  rm_req_corr : Z; rm_resp_corr : Z;
  rm_leap : Z;            (* 0 NoWarning, 1 Leap61, 2 Leap59 *)
  rm_status : option status_tlv; rm_ptp : bool; rm_tt : bool; rm_ft : bool }.

Definition leap_of (h : header) : Z := if h_leap59 h then 2 else if h_leap61 h then 1 else 0.

Inductive step_result := Continue (st : rstate) | Done (m : raw_measurement).

(* one iteration of the loop of collect_response *)
Definition step (domain reqid : Z) (send_ts : timestamp) (st : rstate) (ev : event) : res step_result :=
  match ev with
  | RecvErr => Ok (Continue st)
  | Datagram pkt rts =>
      match csptp_deserialize pkt with
      | Panic s => Panic s
      | Err _ => Ok (Continue st)
      | Ok m =>
          let h := m_header m in
          if negb (h_domain h =? domain) || negb (h_seq h =? reqid) then Ok (Continue st) else
          match m_body m with
          | Sync origin =>
              do ts <- tlvs (m_suffix m);
              match find_map resp_tlv_try ts with
              | None => Ok (Continue st)
              | Some rt =>
                  match rts with
                  | None => Ok (Continue st)
                  | Some recv_ts =>
                      let status := find_map status_tlv_try ts in
                      if h_two_step h then
                        match st with
                        | WaitingForResponse =>
                            Ok (Continue (WaitingForFollowUp
                                  (mkSyncInfo (rt_ingress rt) recv_ts (rt_correction rt) (h_correction h)
                                              (leap_of h) status (h_ptp_timescale h) (h_time_traceable h)
                                              (h_freq_traceable h))))
                        | WaitingForFollowUp _ => Ok (Continue st)
                        | WaitingForResponseHaveFollowUp remote_send resp_corr =>
                            Ok (Done (mkRaw send_ts (rt_ingress rt) remote_send recv_ts (rt_correction rt)
                                            (sat_i64 (resp_corr + h_correction h))
                                            (leap_of h) status (h_ptp_timescale h) (h_time_traceable h)
                                            (h_freq_traceable h)))
                        end
                      else
                        Ok (Done (mkRaw send_ts (rt_ingress rt) origin recv_ts (rt_correction rt) (h_correction h)
                                        (leap_of h) status (h_ptp_timescale h) (h_time_traceable h)
                                        (h_freq_traceable h)))
                  end
              end
          | FollowUp precise =>
              match st with
              | WaitingForResponse => Ok (Continue (WaitingForResponseHaveFollowUp precise (h_correction h)))
              | WaitingForFollowUp s =>
                  Ok (Done (mkRaw send_ts (si_req_recv s) precise (si_resp_recv s) (si_req_corr s)
                                  (sat_i64 (si_resp_corr s + h_correction h))
                                  (si_leap s) (si_status s) (si_ptp s) (si_tt s) (si_ft s)))
              | WaitingForResponseHaveFollowUp _ _ => Ok (Continue st)
              end
          | _ => Ok (Continue st)
          end
      end
  end.

(* collect_response until the response timeout: [events] is what the socket delivers before
   the timeout; None = timeout *)
Fixpoint collect (domain reqid : Z) (send_ts : timestamp) (st : rstate) (events : list event)
  : res (option raw_measurement) :=
  match events with
  | [] => Ok None
  | ev :: rest =>
      do r <- step domain reqid send_ts st ev;
      match r with
      | Done m => Ok (Some m)
      | Continue st' => collect domain reqid send_ts st' rest
      end
  end.

(* add_correction (repaired): None when Timestamp::new refuses the result *)
Definition add_correction (ts : timestamp) (correction : Z) : option timestamp :=
  let cn := correction / 65536 in                      (* i64 >> 16, arithmetic *)
  let cs := cn / 1000000000 in                         (* div_euclid, positive divisor = floor *)
  let cnn := cn mod 1000000000 in                      (* rem_euclid *)
  let inter := wrap 32 (ts_nanos ts + cnn) in          (* u32 wrapping_add *)
  let secs := wrap 64 (wrap 64 (ts_secs ts + cs) + inter / 1000000000) in
  let nanos := inter mod 1000000000 in
  if (secs >=? 2 ^ 48) || (nanos >=? 1000000000) then None else Some (mkTs secs nanos).

(* convert_to_ntp + NtpTimestamp::from_seconds_nanos_since_ntp_era, release semantics: the u64 *)
Definition epoch_offset : Z := (EPOCH_YEARS * 365 + EPOCH_LEAP_DAYS) * 86400.
Definition convert_to_ntp (ts : timestamp) : Z :=
  let secs := wrap 32 (wrap 32 (epoch_offset + wrap 32 (ts_secs ts)) - UTC_OFFSET) in
  let fraction := (ts_nanos ts * 2 ^ 32) / 1000000000 in
  wrap 64 (secs * 2 ^ 32 + fraction).

(* the two Measurement values handed to the controller: (sender_ts, receiver_ts) each, and the leap *)
Record ntp_measurements := mkNtpMeas { nm_fwd : Z * Z; nm_back : Z * Z; nm_leap : Z }.

(* the fields of CsptpState a status TLV overwrites *)
Record csptp_state := mkCs {
  cs_gm : bytes; cs_prio1 : Z; cs_prio2 : Z; cs_quality : clock_quality; cs_steps : Z;
  cs_ptp : bool; cs_tt : bool; cs_ft : bool }.

Definition apply_status (active : bool) (cs : csptp_state) (m : raw_measurement) : csptp_state :=
  match rm_status m with
  | Some s =>
      if active then
        mkCs (st_gm s) (st_prio1 s) (st_prio2 s) (st_quality s) (Z.min 65535 (st_steps s + 1))
             (rm_ptp m) (rm_tt m) (rm_ft m)
      else cs
  | None => cs
  end.

(* one scripted poll: result of send_event, then the socket's traffic *)
Record poll_script := mkPoll { ps_send : option timestamp; ps_events : list event }.
Record poll_outcome := mkOut {
  po_request : bytes;                       (* datagram handed to send_event *)
  po_raw : option raw_measurement;          (* what collect_response returned before the timeout *)
  po_meas : option ntp_measurements;        (* what reached SourceController::handle_measurement *)
  po_state : csptp_state }.

Definition request_datagram (domain reqid : Z) : res bytes :=
  do req <- new_request (Z.to_nat REQUEST_TLV_BUFFER) domain reqid;
  msg_serialize req (repeat 0 (Z.to_nat MAX_MESSAGE_SIZE)).

Definition P_REQUEST_EXPECT : Z := 4401.   (* the two expects on building/serialising the request *)

Definition poll_once (domain : Z) (active : bool) (cs : csptp_state) (reqid : Z) (p : poll_script)
  : res poll_outcome :=
  match request_datagram domain reqid with
  | Panic s => Panic s
  | Err _ => Panic P_REQUEST_EXPECT
  | Ok dgram =>
      match ps_send p with
      | None => Ok (mkOut dgram None None cs)
      | Some send_ts =>
          do r <- collect domain reqid send_ts WaitingForResponse (ps_events p);
          match r with
          | None => Ok (mkOut dgram None None cs)
          | Some m =>
              match add_correction (rm_req_send m) (rm_req_corr m), add_correction (rm_resp_send m) (rm_resp_corr m) with
              | Some a, Some b =>
                  Ok (mkOut dgram (Some m)
                            (Some (mkNtpMeas (convert_to_ntp a, convert_to_ntp (rm_req_recv m))
                                             (convert_to_ntp b, convert_to_ntp (rm_resp_recv m))
                                             (rm_leap m)))
                            (apply_status active cs m))
              | _, _ => Ok (mkOut dgram (Some m) None cs)
              end
          end
      end
  end.

(* CsptpSource::run for as many polls as are scripted; sequence ids count from 0 and wrap *)
Fixpoint run_polls (domain : Z) (active : bool) (cs : csptp_state) (seq : Z) (polls : list poll_script)
  : res (list poll_outcome) :=
  match polls with
  | [] => Ok []
  | p :: rest =>
      do o <- poll_once domain active cs seq p;
      do os <- run_polls domain active (po_state o) (wrap 16 (seq + 1)) rest;
      Ok (o :: os)
  end.

(* ---- flat encoding for the correspondence ----
   input: [domain; active; npolls; per poll: send_ok; send_secs; send_nanos; nevents;
           per event: kind (0 recv error, 1 datagram without timestamp, 2 datagram with timestamp);
                      secs; nanos; len; bytes...]
   the initial CsptpState is that of CsptpManager::new(CsptpConfig::default())
   output: [-1000-site] | per poll: request_len :: request ++ [has_meas; fwd_sender; fwd_receiver;
           back_sender; back_receiver; leap; leap; wellformed (ids, zero root delay/dispersion,
           precision 0, set_usable(true) exactly once iff measured)] ++ state (gm(8); prio1; prio2; class; acc_prim; variance;
           steps; ptp; tt; ft) *)
Definition default_state : csptp_state :=
  mkCs [0; 0; 0; 0; 0; 0; 0; 0] 255 255 (mkCq 248 AccUnknown (32768 - 23 * 256)) 0 true false false.

Fixpoint dec_events (n : nat) (l : list Z) : list event * list Z :=
  match n with
  | O => ([], l)
  | S k =>
      let kind := nz 0 l in
      let len := Z.to_nat (nz 3 l) in
      let ev := if kind =? 0 then RecvErr
                else Datagram (firstn len (skipn 4 l))
                              (if kind =? 2 then Some (mkTs (nz 1 l) (nz 2 l)) else None) in
      let '(r, rest) := dec_events k (skipn (4 + len) l) in
      (ev :: r, rest)
  end.
Fixpoint dec_polls (n : nat) (l : list Z) : list poll_script :=
  match n with
  | O => []
  | S k =>
      let send := if zb (nz 0 l) then Some (mkTs (nz 1 l) (nz 2 l)) else None in
      let '(evs, rest) := dec_events (Z.to_nat (nz 3 l)) (skipn 4 l) in
      mkPoll send evs :: dec_polls k rest
  end.
Definition enc_state (c : csptp_state) : list Z :=
  cs_gm c ++ [cs_prio1 c; cs_prio2 c; cq_class (cs_quality c); acc_to_prim (cq_acc (cs_quality c));
              cq_var (cs_quality c); cs_steps c; b2z (cs_ptp c); b2z (cs_tt c); b2z (cs_ft c)].
Definition enc_outcome (o : poll_outcome) : list Z :=
  Z.of_nat (length (po_request o)) :: po_request o ++
  match po_meas o with
  | Some m => [1; fst (nm_fwd m); snd (nm_fwd m); fst (nm_back m); snd (nm_back m); nm_leap m; nm_leap m; 1]
  | None => [0; 0; 0; 0; 0; 0; 0; 1]
  end ++ enc_state (po_state o).
Definition run_source (inp : list Z) : list Z :=
  match run_polls (nz 0 inp) (zb (nz 1 inp)) default_state 0
                  (dec_polls (Z.to_nat (nz 2 inp)) (skipn 3 inp)) with
  | Ok outs => flat_map enc_outcome outs
  | Err e => [- e]
  | Panic s => [- 1000 - s]
  end.
