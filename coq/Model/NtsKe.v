(* Model of the NTS-KE decisions of ntp-proto/src/nts/mod.rs:
   KeyExchangeServer::{new, handle_connection, handle_longterm} and
   KeyExchangeClient::{new, exchange_keys} (with the membership check of the
   `fix-c28` repair).  Definitions only.

   TLS is abstracted to: the byte stream the peer sends (closing its sending
   side at the end), and the exporter, an oracle [export protocol algorithm]
   = (c2s key, s2c key) shared by both ends (RFC 5705 agreement).  A server
   cookie is symbolic: RCookie alg c2s s2c stands for a NewCookie record whose
   body decodes under the key set to these keys (C26). *)
From V Require Export Model.NtsMsg.
From V Require Import Gen.ConstNts.

Record srv_cfg := mkCfg {
  c_protocols : list Z;             (* KeyExchangeServer.protocols *)
  c_tokens : list (list Z);         (* pool_authentication_tokens (UTF-8 bytes) *)
  c_server : option (list Z);
  c_port : option Z }.

(* KeyExchangeServer::new: accepted_versions.filter_map(V3 => None, V4 => NTPv4, V5 => DraftNTPv5) *)
Definition protocols_of_versions (vs : list Z) : list Z :=
  flat_map (fun v => if v =? 4 then [PROTO_NTPV4] else if v =? 5 then [PROTO_DRAFT_NTPV5] else []) vs.

(* KeyExchangeServer.algorithms: the descriptions of the two supported algorithms *)
Definition server_algorithms : list (Z * Z) :=
  [(AEAD_AES_SIV_CMAC_256, KEY256); (AEAD_AES_SIV_CMAC_512, KEY512)].

Definition known_algorithm (a : Z) : bool :=
  (a =? AEAD_AES_SIV_CMAC_256) || (a =? AEAD_AES_SIV_CMAC_512).   (* !matches!(v, Unknown(_)) *)

Definition zmem (x : Z) (l : list Z) : bool := existsb (Z.eqb x) l.
Definition token_ok (cfg : srv_cfg) (auth : list Z) : bool := existsb (fun t => zlist_eqb t auth) (c_tokens cfg).

Inductive ritem :=
| RRec (r : record)
| RCookie (alg : Z) (c2s s2c : list Z).

Definition export_t := Z -> Z -> (list Z * list Z).

Definition n_cookies : nat := Z.to_nat DEFAULT_NUMBER_OF_COOKIES.
Definition cookies_for (alg : Z) (c2s s2c : list Z) : list ritem := repeat (RCookie alg c2s s2c) n_cookies.

Definition opt_item {A} (mk : A -> record) (o : option A) : list ritem :=
  match o with Some a => [RRec (mk a)] | None => [] end.
Definition keep_alive_item (ka : bool) : list ritem := if ka then [RRec KeepAliveR] else [].

(* KeyExchangeResponse::serialize of the server's response *)
Definition ke_response (cfg : srv_cfg) (p a : Z) (cookies : list ritem) (ka : bool) : list ritem :=
  [RRec (NextProtocolR [p]); RRec (AeadAlgorithmR [a])] ++ cookies
  ++ opt_item ServerR (c_server cfg) ++ opt_item PortR (c_port cfg)
  ++ keep_alive_item ka ++ [RRec EndOfMessage].

Definition error_response (code : Z) : list ritem := [RRec (ErrorR code); RRec EndOfMessage].
Definition bad_request : list ritem := error_response ERR_BAD_REQUEST.

Definition supports_response (cfg : srv_cfg) (wp wa ka : bool) : list ritem :=
  (if wa then [RRec (SupportedAlgorithmListR server_algorithms)] else [])
  ++ (if wp then [RRec (SupportedNextProtocolListR (c_protocols cfg))] else [])
  ++ keep_alive_item ka ++ [RRec EndOfMessage].

Inductive conn_end :=
| Closed (code : Z)      (* 0: Ok(None); otherwise the NtsError class of Err *)
| KeptOpen.              (* Ok(Some((permit, stream))) *)

(* the reaction to a failed Request::parse, common to both handlers *)
Definition on_parse_error (e : Z) : list ritem * Z :=
  if e =? E_INVALID then (bad_request, E_INVALID)
  else if e =? E_NOT_PERMITTED then (bad_request, E_NOT_PERMITTED)
  else if e =? E_CRITICAL then (error_response ERR_UNRECOGNIZED_CRITICAL_RECORD, E_INVALID)
  else ([], e).

Definition panic_code : Z := 99.

(* handle_connection after the TLS accept: [pr] is the outcome of Request::parse,
   [permit] whether get_keepalive_permit() would return Some.  Result: what is
   written to the client, how the connection ends, whether the permit closure
   was called. *)
Definition handle_new (cfg : srv_cfg) (export : export_t) (permit : bool) (pr : res request)
  : list ritem * conn_end * bool :=
  match pr with
  | Panic _ => ([], Closed panic_code, false)
  | Err e => let '(resp, code) := on_parse_error e in (resp, Closed code, false)
  | Ok (KeyExchange algs protos _) =>
    match find (fun v => zmem v (c_protocols cfg)) protos, find known_algorithm algs with
    | None, _ => ([RRec (NextProtocolR []); RRec EndOfMessage], Closed E_NO_PROTOCOL, false)
    | Some p, None =>
      ([RRec (NextProtocolR [p]); RRec (AeadAlgorithmR []); RRec EndOfMessage], Closed E_NO_ALGORITHM, false)
    | Some p, Some a =>
      let '(c2s, s2c) := export p a in
      (ke_response cfg p a (cookies_for a c2s s2c) false, Closed 0, false)
    end
  | Ok (FixedKey auth c2s s2c alg p ka) =>
    if token_ok cfg auth then
      let granted := ka && permit in
      (ke_response cfg p alg (cookies_for alg c2s s2c) granted,
       if granted then KeptOpen else Closed 0, ka)
    else (bad_request, Closed E_NOT_PERMITTED, false)
  | Ok (Support auth wp wa ka) =>
    if token_ok cfg auth then
      let granted := ka && permit in
      (supports_response cfg wp wa granted, if granted then KeptOpen else Closed 0, ka)
    else (bad_request, Closed E_NOT_PERMITTED, false)
  end.

(* one iteration of handle_longterm: the response and, when the loop ends,
   the result (0 = Ok(()), otherwise the error class) *)
Definition lt_step (cfg : srv_cfg) (pr : res request) : list ritem * option Z :=
  match pr with
  | Panic _ => ([], Some panic_code)
  | Err e =>
    if e =? E_EOF then ([], Some 0)
    else let '(resp, code) := on_parse_error e in (resp, Some code)
  | Ok (FixedKey _ c2s s2c alg p ka) =>
    (ke_response cfg p alg (cookies_for alg c2s s2c) ka, if ka then None else Some 0)
  | Ok (Support _ wp wa ka) =>
    (supports_response cfg wp wa false, if ka then None else Some 0)
  | Ok (KeyExchange _ _ _) => (bad_request, Some E_INVALID)
  end.

Definition fuel_code : Z := 98.
Fixpoint longterm (fuel : nat) (cfg : srv_cfg) (stream : list Z) : list ritem * Z :=
  match fuel with
  | O => ([], fuel_code)
  | S f =>
    let '(pr, rest) := parse_request stream in
    let '(resp, stop) := lt_step cfg pr in
    match stop with
    | Some c => (resp, c)
    | None => let '(more, c) := longterm f cfg rest in (resp ++ more, c)
    end
  end.

(* a whole connection: everything the client receives, and the two results *)
Definition serve (cfg : srv_cfg) (export : export_t) (permit : bool) (stream : list Z)
  : list ritem * conn_end * bool * option Z :=
  let '(pr, rest) := parse_request stream in
  let '(resp, e, asked) := handle_new cfg export permit pr in
  match e with
  | Closed _ => (resp, e, asked, None)
  | KeptOpen => let '(more, c) := longterm (S (length rest)) cfg rest in (resp ++ more, e, asked, Some c)
  end.

(* ---- the client ---- *)
Definition E_NO_COOKIE : Z := 15.
Definition NTP_DEFAULT_PORT_Z : Z := NTP_DEFAULT_PORT.

(* KeyExchangeClient::new: the protocol preference list of a configuration
   (4: V4, 5: V5, anything else: upgrading) and the algorithm list *)
Definition client_protocols (version : Z) : list Z :=
  if version =? 4 then [PROTO_NTPV4]
  else if version =? 5 then [PROTO_DRAFT_NTPV5]
  else [PROTO_DRAFT_NTPV5; PROTO_NTPV4].
Definition client_algorithms : list Z := [AEAD_AES_SIV_CMAC_512; AEAD_AES_SIV_CMAC_256].

Definition client_request (protos algs : list Z) (denied : list (list Z)) : list Z :=
  ser_request (KeyExchange algs protos denied).

Record kex_result := mkKex {
  k_version : Z;              (* ProtocolVersion::V4 = 4, V5 = 5 *)
  k_protocol : Z;
  k_algorithm : Z;
  k_port : Z;
  k_remote : list Z;
  k_c2s : list Z;
  k_s2c : list Z;
  k_cookies : list (list Z) }.

(* exchange_keys after the request has been sent: [resp] is what the server
   sends back.  Order of the checks as in the code; the membership test is the
   repair (fix-c28). *)
Definition client_process (protos algs : list Z) (export : export_t) (server_name : list Z)
  (resp : list Z) : res kex_result :=
  do r <- fst (parse_response resp);
  if negb (zmem (p_protocol r) protos) || negb (zmem (p_algorithm r) algs) then Err E_INVALID
  else if negb (known_algorithm (p_algorithm r)) then Err E_INVALID   (* extract_from_connection *)
  else
    let '(c2s, s2c) := export (p_protocol r) (p_algorithm r) in
    match p_cookies r with
    | [] => Err E_NO_COOKIE
    | _ =>
      let mk v := Ok (mkKex v (p_protocol r) (p_algorithm r)
                        (match p_port r with Some v => v | None => NTP_DEFAULT_PORT_Z end)
                        (match p_server r with Some n => n | None => server_name end)
                        c2s s2c (p_cookies r)) in
      if p_protocol r =? PROTO_NTPV4 then mk 4
      else if p_protocol r =? PROTO_DRAFT_NTPV5 then mk 5
      else Err E_INVALID
    end.

(* ---- encodings for the correspondence ---- *)
Definition enc_item (i : ritem) : list Z :=
  match i with
  | RRec r => rec_type r :: enc_bytes (rec_body r)
  | RCookie a c2s s2c => 70000 :: a :: enc_bytes c2s ++ enc_bytes s2c
  end.

Definition end_code (e : conn_end) : Z :=
  match e with Closed 0 => 0 | Closed c => 100 + c | KeptOpen => 1 end.
Definition lt_code (o : option Z) : Z :=
  match o with None => 0 | Some 0 => 1 | Some c => 100 + c end.

(* exporter table of a case: ((protocol, algorithm), (c2s, s2c)) *)
Definition export_of (tbl : list (Z * Z * (list Z * list Z))) : export_t :=
  fun p a =>
    match find (fun e => (fst (fst e) =? p) && (snd (fst e) =? a)) tbl with
    | Some e => snd e
    | None => ([], [])
    end.

Definition run_server (cfg : srv_cfg) (tbl : list (Z * Z * (list Z * list Z))) (permit : bool)
  (stream : list Z) : list Z :=
  let '(items, e, asked, lt) := serve cfg (export_of tbl) permit stream in
  end_code e :: b2z asked :: lt_code lt :: flat_map enc_item items.

Definition enc_kex (k : kex_result) : list Z :=
  [k_version k; k_port k] ++ enc_bytes (k_remote k) ++ enc_bytes (k_c2s k) ++ enc_bytes (k_s2c k)
  ++ zlen (k_cookies k) :: flat_map enc_bytes (k_cookies k).

Definition run_client (protos algs : list Z) (denied : list (list Z))
  (tbl : list (Z * Z * (list Z * list Z))) (server_name resp : list Z) : list Z :=
  enc_bytes (client_request protos algs denied)
  ++ match client_process protos algs (export_of tbl) server_name resp with
     | Ok k => 0 :: enc_kex k
     | Err e => [1; e]
     | Panic _ => [2]
     end.

Definition run_new_client (version : Z) : list Z :=
  enc_bytes (client_protocols version) ++ enc_bytes client_algorithms.

(* ---- cases of the correspondence on the compact transport encoding
        (Base/NtsHex.v): byte strings are hex digits ---- *)
From V Require Base.NtsHex.
Definition hx (s : String.string) : list Z := NtsHex.hex_bytes s.
Definition hxs (l : list String.string) : list Z := flat_map NtsHex.hex_bytes l.

(* the exporter table of a case: 8 byte strings, c2s and s2c for
   (NTPv4,256) (NTPv4,512) (NTPv5,256) (NTPv5,512) *)
Definition table_of (t : list String.string) : list (Z * Z * (list Z * list Z)) :=
  match map hx t with
  | [a; b; c; d; e; f; g; h] =>
    [ (PROTO_NTPV4, AEAD_AES_SIV_CMAC_256, (a, b)); (PROTO_NTPV4, AEAD_AES_SIV_CMAC_512, (c, d));
      (PROTO_DRAFT_NTPV5, AEAD_AES_SIV_CMAC_256, (e, f)); (PROTO_DRAFT_NTPV5, AEAD_AES_SIV_CMAC_512, (g, h)) ]
  | _ => []
  end.

Inductive ke_case :=
| SrvCase (versions : list Z) (tokens : list String.string) (server : option String.string)
    (port : option Z) (permit : bool) (tbl : list String.string) (stream : list String.string)
| CliCase (protos algs : list Z) (denied : list String.string) (tbl : list String.string)
    (resp : list String.string)
| NewCliCase (version : Z).

Definition localhost : list Z := [108; 111; 99; 97; 108; 104; 111; 115; 116].

Definition run_ke (c : ke_case) : list Z :=
  match c with
  | SrvCase vs toks sv pt permit tbl stream =>
    run_server (mkCfg (protocols_of_versions vs) (map hx toks) (option_map hx sv) pt)
               (table_of tbl) permit (hxs stream)
  | CliCase ps als denied tbl resp =>
    run_client ps als (map hx denied) (table_of tbl) localhost (hxs resp)
  | NewCliCase v => run_new_client v
  end.
