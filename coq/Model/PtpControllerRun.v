(* Encodings for the correspondence check of C43 (harness/statime-algo/c43.rs): controller
   histories as data and their evaluation to the integers and floats the harness prints.
   Definitions only. *)
From V Require Export Model.PtpController Model.EstimatorRun.

Inductive cop : Type :=
| CXE (id : Z)                                  (* add_external_clock, fresh id *)
| CRE (id : Z)
| CAC (id : Z) (maxf wander : float)            (* add_clock *)
| CACX (id : Z) (ov ou fv fu w : float)         (* harness: filter.add_clock with chosen initial values + clocks.push *)
| CRC (id : Z)
| CLink (tracked : bool) (a b n : Z) (decay : float)
| CDL (id : linkid)
| CED (id : linkid)
| CM (o : meas_oracle) (id : linkid) (forward : bool) (send recv unc now1 now2 : Z) (ans : list clock_answers)
| CS (now : Z) (ans : list clock_answers)       (* steer_clocks directly *)
| CFO (id : Z) (x : float)                      (* direct filter operations *)
| CFF (id : Z) (x : float)
| CP (t : Z)
| CQ (nclocks : Z).                             (* queries of clocks 0..nclocks-1 and raw state *)

Definition enc_calls (cs : list call) : list Z * list float :=
  (Z.of_nat (length cs) :: flat_map (fun c => match c with
                                             | SetFrequency id _ => [1; id]
                                             | StepClock id d => [2; id; d]
                                             end) cs,
   flat_map (fun c => match c with SetFrequency _ f => [f] | StepClock _ _ => [] end) cs).

Definition enc_query (r : res (float * float)) : list Z * list float :=
  match r with Ok (v, u) => ([1], [v; u]) | _ => ([0], []) end.

Definition app2 (a b : list Z * list float) : list Z * list float :=
  (fst a ++ fst b, snd a ++ snd b).

Definition b2z (b : bool) : Z := if b then 1 else 0.

Definition enc_state (n : Z) (c : ctl) : list Z * list float :=
  let qs := fold_right app2 ([], [])
              (map (fun i => let id := Z.of_nat i in
                             app2 (enc_query (ctl_clock_offset c id)) (enc_query (ctl_clock_frequency c id)))
                   (seq 0 (Z.to_nat n))) in
  let ls := (Z.of_nat (length (f_links (c_filter c)))
             :: flat_map (fun l => [snd (fl_id l); b2z (fl_active l); b2z (fl_tracked l); b2z (fl_external l)])
                         (f_links (c_filter c)), []) in
  let cl := (Z.of_nat (length (c_clocks c)) :: c_clocks c, []) in
  app2 qs (app2 ls (app2 cl (dump_ints (f_est (c_filter c)), dump_floats (f_est (c_filter c))))).

Definition code_res {X} (r : res X) : Z := match r with Ok _ => 0 | Err e => e | Panic _ => -1 end.

(* one operation: the controller afterwards and what is printed *)
Definition cstep (o : cop) (c : ctl) : ctl * (list Z * list float) :=
  let keep (r : res ctl) := match r with Ok c' => (c', ([0], [])) | Err e => (c, ([e], [])) | Panic _ => (c, ([-1], [])) end in
  match o with
  | CXE id => keep (ctl_add_external_clock id c)
  | CRE id => keep (ctl_remove_external_clock id c)
  | CAC id mx w => keep (ctl_add_clock id mx w c)
  | CACX id ov ou fv fu w =>
      keep (do f <- f_add_clock id ov ou fv fu w (c_filter c);
            Ok {| c_clocks := c_clocks c ++ [id]; c_filter := f |})
  | CRC id => keep (ctl_remove_clock id c)
  | CLink tr a b n d => keep (do r <- ctl_create_link tr a b n d c; Ok (fst r))
  | CDL id => (ctl_drop_link id c, ([0], []))
  | CED id => keep (ctl_filter_op (f_external_data_update id) c)
  | CM orc id fwd send recv unc now1 now2 ans =>
      match ctl_measurement orc id fwd send recv unc now1 now2 ans c with
      | (c', code, calls) => (c', if code =? 0 then app2 ([0], []) (enc_calls calls) else ([code], []))
      end
  | CS now ans =>
      match steer_clocks now ans c with
      | Ok (c', calls) => (c', app2 ([0], []) (enc_calls calls))
      | Err e => (c, ([e], []))
      | Panic _ => (c, ([-1], []))
      end
  | CFO id x => keep (ctl_filter_op (f_absorb_offset_change id x) c)
  | CFF id x => keep (ctl_filter_op (f_absorb_frequency_steer id x) c)
  | CP t => keep (ctl_filter_op (f_progress_time t) c)
  | CQ n => (c, app2 ([0], []) (enc_state n c))
  end.

Fixpoint crun (ops : list cop) (c : ctl) : list Z * list float :=
  match ops with
  | [] => ([], [])
  | o :: r => let (c', out) := cstep o c in app2 out (crun r c')
  end.

(* input: start time, max frequency and wander of the system clock, the history *)
Definition c43_run (inp : Z * float * float * list cop) : list Z * list float :=
  match inp with
  | (t0, maxf, wander, ops) =>
      match ctl_new t0 0 maxf wander with
      | Ok c => crun ops c
      | _ => ([-97], [])
      end
  end.
