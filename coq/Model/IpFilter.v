(* Model of ntp-proto/src/ipfilter.rs (nibble trie BitTree, IpFilter) and of
   IpSubnet::from_str (ntp-proto/src/server.rs).  Definitions only.

   Values are Z: u128 prefixes with the wrap written out, u8 lengths, u16
   bitmaps, u32 child offsets.  Release semantics: arithmetic wraps, a shift
   amount is reduced modulo the width of the shifted type.  The node array is
   a list indexed by nat; the three indexing sites and split_at_mut are
   explicit panics; the recursion of fill_node and the loop of lookup carry
   explicit fuel (out of fuel = Err err_fuel, excluded by proof). *)
From V Require Export Base.Prelude.
From V Require Import Gen.ConstIpFilter.

Definition err_fuel : Z := 1.
Definition panic_lookup_index : Z := 3101.      (* self.nodes[0], self.nodes[next_idx as usize] *)
Definition panic_fill_index : Z := 3102.        (* self.nodes[node_index] *)
Definition panic_split_at : Z := 3103.          (* data.split_at_mut( *start ) *)

Definition entry := (Z * Z)%type.               (* (u128 value, u8 prefix length) *)

Record node := mk_node { child_offset : Z; inset : Z; outset : Z }.
Definition default_node : node := mk_node 0 0 0.

Definition node_eqb (a b : node) : bool :=
  (child_offset a =? child_offset b) && (inset a =? inset b) && (outset a =? outset b).

Definition u128_max : Z := 2 ^ 128 - 1.

(* x << s on a type of [bits] bits, release build: the shift amount is masked *)
Definition shl (bits x s : Z) : Z := wrap bits (x * 2 ^ (s mod bits)).

Definition top_nibble (v : Z) : Z := Z.land (Z.shiftr v TOP_SHIFT) 15.

(* u128::MAX.checked_shl((128 - len) as u32): None exactly when the amount is >= 128;
   128 - len is u8 arithmetic *)
Definition apply_mask (val len : Z) : Z :=
  let sh := wrap 8 (128 - len) in
  if sh <? 128 then Z.land val (wrap 128 (u128_max * 2 ^ sh)) else 0.

Definition zseq (n : nat) : list Z := map Z.of_nat (seq 0 n).

(* u16 bitmaps *)
Definition bit16 (x i : Z) : bool := negb (Z.land x (shl 16 1 i) =? 0).
Definition not16 (x : Z) : Z := Z.lxor x 65535.
Definition popcount16 (x : Z) : Z :=
  fold_right (fun k acc => (if Z.testbit x k then 1 else 0) + acc) 0 (zseq 16).
Definition count_zeros16 (x : Z) : Z := 16 - popcount16 x.

(* ---- lookup ---- *)
Fixpoint lookup_from (fuel : nat) (nodes : list node) (idx : Z) (val : Z) : res bool :=
  match fuel with
  | O => Err err_fuel
  | S f =>
    match nth_error nodes (Z.to_nat idx) with
    | None => Panic panic_lookup_index
    | Some nd =>
      let cur := shl 16 1 (top_nibble val) in
      if negb (Z.land (inset nd) cur =? 0) then Ok true
      else if negb (Z.land (outset nd) cur =? 0) then Ok false
      else
        let val' := shl 128 val 4 in
        let next := wrap 32 (child_offset nd
                     + popcount16 (Z.land (not16 (Z.lor (inset nd) (outset nd))) (wrap 16 (cur - 1)))) in
        lookup_from f nodes next val'
    end
  end.

Definition LOOKUP_FUEL : nat := 33.
Definition lookup (nodes : list node) (val : Z) : res bool := lookup_from LOOKUP_FUEL nodes 0 val.

(* ---- create / fill_node ---- *)
Definition nib_count (i : Z) (data : list entry) : nat :=
  length (filter (fun e => top_nibble (fst e) =? i) data).

(* counts[top_nibble(val)] += 1 *)
Definition counts (data : list entry) : list nat := map (fun i => nib_count i data) (zseq 16).

(* (subsegments[i], data) = data.split_at_mut(counts[i]) *)
Fixpoint split_segments (cs : list nat) (data : list entry) : res (list (list entry)) :=
  match cs with
  | [] => Ok []
  | c :: cs' =>
    if (length data <? c)%nat then Panic panic_split_at
    else do rest <- split_segments cs' (skipn c data); Ok (firstn c data :: rest)
  end.

(* the union-coverage sweep of one segment: `last` *)
Definition sweep_step (offset : Z) (last : Z) (part : entry) : Z :=
  let s := wrap 128 (fst part - offset) in
  if s <=? last then Z.max last (wrap 128 (s + shl 128 1 (wrap 8 (128 - snd part)))) else last.
Definition sweep (i : Z) (seg : list entry) : Z :=
  fold_left (sweep_step (shl 128 i TOP_SHIFT)) seg 0.

(* one iteration of `for (i, segment) in subsegments.iter().enumerate()` on (inset, outset) *)
Definition seg_step (io : Z * Z) (iseg : Z * list entry) : Z * Z :=
  let '(ins, outs) := io in
  let '(i, seg) := iseg in
  match seg with
  | [] => (ins, Z.lor outs (shl 16 1 i))
  | (_, len) :: _ =>
    if len <=? NIBBLE_BITS then
      (fold_left (fun acc j => Z.lor acc (shl 16 1 (i + j))) (zseq (Z.to_nat (2 ^ (NIBBLE_BITS - len)))) ins, outs)
    else if 2 ^ TOP_SHIFT <=? sweep i seg then (Z.lor ins (shl 16 1 i), outs)
    else (ins, outs)
  end.

Definition shift_entry (e : entry) : entry := (shl 128 (fst e) 4, wrap 8 (snd e - 4)).

Definition set_nth {A} (n : nat) (x : A) (l : list A) : list A := firstn n l ++ x :: skipn (S n) l.

(* the loop that creates the children; [rec] is fill_node with the remaining fuel *)
Fixpoint fill_children (rec : list node -> list entry -> nat -> res (list node))
    (known : Z) (isegs : list (Z * list entry)) (nodes : list node) (child : nat) : res (list node) :=
  match isegs with
  | [] => Ok nodes
  | (i, seg) :: rest =>
    if bit16 known i then fill_children rec known rest nodes child
    else
      do nodes' <- rec nodes (map shift_entry seg) child;
      fill_children rec known rest nodes' (S child)
  end.

Fixpoint fill_node (fuel : nat) (nodes : list node) (data : list entry) (node_index : nat)
  : res (list node) :=
  match fuel with
  | O => Err err_fuel
  | S f =>
    do segs <- split_segments (counts data) data;
    let isegs := combine (zseq 16) segs in
    let child := length nodes in
    match nth_error nodes node_index with
    | None => Panic panic_fill_index
    | Some nd =>
      let '(ins, outs0) := fold_left seg_step isegs (inset nd, outset nd) in
      let outs := Z.land outs0 (not16 ins) in
      let known := Z.lor ins outs in
      let nodes1 := set_nth node_index (mk_node (wrap 32 (Z.of_nat child)) ins outs) nodes in
      let nodes2 := nodes1 ++ repeat default_node (Z.to_nat (count_zeros16 known)) in
      fill_children (fill_node f) known isegs nodes2 child
    end
  end.

(* lexicographic order of (u128, u8) tuples; data.sort() *)
Definition entry_leb (a b : entry) : bool :=
  (fst a <? fst b) || ((fst a =? fst b) && (snd a <=? snd b)).
Fixpoint insert_sorted (x : entry) (l : list entry) : list entry :=
  match l with
  | [] => [x]
  | y :: r => if entry_leb x y then x :: l else y :: insert_sorted x r
  end.
Definition sort_entries (l : list entry) : list entry := fold_right insert_sorted [] l.

Definition CREATE_FUEL : nat := 33.
Definition create (data : list entry) : res (list node) :=
  let masked := map (fun e => (apply_mask (fst e) (snd e), snd e)) data in
  fill_node CREATE_FUEL [default_node] (sort_entries masked) 0.

(* ---- IpFilter ---- *)
Inductive ipaddr := V4 (a : Z) (* u32 *) | V6 (a : Z) (* u128 *).
Record subnet := mk_subnet { s_addr : ipaddr; s_mask : Z }.

(* std: IpAddr::to_canonical = Ipv6Addr::to_ipv4_mapped for ::ffff:a.b.c.d *)
Definition to_canonical (a : ipaddr) : ipaddr :=
  match a with
  | V4 _ => a
  | V6 x => if x / 2 ^ 32 =? 65535 then V4 (x mod 2 ^ 32) else a
  end.

Definition v4_entries (subnets : list subnet) : list entry :=
  flat_map (fun s => match s_addr s with V4 a => [(shl 128 a V4_SHIFT_NEW, s_mask s)] | V6 _ => [] end) subnets.
Definition v6_entries (subnets : list subnet) : list entry :=
  flat_map (fun s => match s_addr s with V6 a => [(a, s_mask s)] | V4 _ => [] end) subnets.

Record ipfilter := mk_filter { f4 : list node; f6 : list node }.

Definition filter_new (subnets : list subnet) : res ipfilter :=
  do t4 <- create (v4_entries subnets);
  do t6 <- create (v6_entries subnets);
  Ok (mk_filter t4 t6).

Definition is_in (f : ipfilter) (a : ipaddr) : res bool :=
  match to_canonical a with
  | V4 x => lookup (f4 f) (shl 128 x V4_SHIFT)
  | V6 x => lookup (f6 f) x
  end.

(* ---- the specification: naive containment, as the repository's fuzz oracle `contains` ---- *)
Definition contains (s : subnet) (a : ipaddr) : bool :=
  match s_addr s, to_canonical a with
  | V4 n, V4 x => n / 2 ^ (32 - s_mask s) =? x / 2 ^ (32 - s_mask s)
  | V6 n, V6 x => n / 2 ^ (128 - s_mask s) =? x / 2 ^ (128 - s_mask s)
  | _, _ => false
  end.

Definition wf_addr (a : ipaddr) : Prop :=
  match a with V4 x => 0 <= x < 2 ^ 32 | V6 x => 0 <= x < 2 ^ 128 end.
Definition wf_subnet (s : subnet) : Prop :=
  wf_addr (s_addr s) /\
  match s_addr s with V4 _ => 0 <= s_mask s <= 32 | V6 _ => 0 <= s_mask s <= 128 end.

(* ---- IpSubnet::from_str over the results of the std parsers (oracles) ----
   split : s.split_once('/') succeeded;  addr : result of addr.parse::<IpAddr>();
   mask : result of mask.parse::<u8>() *)
Definition E_SUBNET : Z := 1.
Definition E_IP : Z := 2.
Definition E_MASK : Z := 3.
Definition E_MASK_V4_RANGE : Z := 4.

Definition from_str (split : bool) (addr : option ipaddr) (mask : option Z) : res subnet :=
  if negb split then Err E_SUBNET else
  match addr with
  | None => Err E_IP
  | Some a =>
    match mask with
    | None => Err E_MASK
    | Some m =>
      let r := match a, to_canonical a with
               | V6 _, V4 c => if m <? MAPPED_PREFIX then Err E_MASK_V4_RANGE else Ok (V4 c, m - MAPPED_PREFIX)
               | _, _ => Ok (a, m)
               end in
      do am <- r;
      let max_mask := match fst am with V4 _ => MAX_MASK_V4 | V6 _ => MAX_MASK_V6 end in
      if snd am >? max_mask then Err E_MASK else Ok (mk_subnet (fst am) (snd am))
    end
  end.

(* ---- encodings for the correspondence ----
   subnet / address: (family, value) with family 4 or 6 *)
Definition addr_of (fam v : Z) : ipaddr := if fam =? 4 then V4 v else V6 v.
Definition fam_of (a : ipaddr) : Z := match a with V4 _ => 4 | V6 _ => 6 end.
Definition val_of (a : ipaddr) : Z := match a with V4 v => v | V6 v => v end.

Definition flat_nodes (t : list node) : list Z :=
  flat_map (fun n => [child_offset n; inset n; outset n]) t.

Definition res_code {A} (r : res A) (f : A -> list Z) : list Z :=
  match r with Ok a => f a | Err e => [-3; e] | Panic s => [-2; s] end.

Definition hash_nodes (t : list node) : Z :=
  fold_left (fun h x => (h * 1000003 + x + 1) mod (2 ^ 61 - 1)) (flat_nodes t) 7.

(* input (flat, so that the cases files elaborate quickly): subnets as family, value, mask, ...;
   addresses as family, value, ...
   output: one of 0/1 (or -2/-3 codes) per address, then -1, and length and hash of the
   IPv4 and of the IPv6 node array *)
Fixpoint subnets_of (l : list Z) : list subnet :=
  match l with
  | f :: v :: m :: r => mk_subnet (addr_of f v) m :: subnets_of r
  | _ => []
  end.
Fixpoint addrs_of (l : list Z) : list ipaddr :=
  match l with
  | f :: v :: r => addr_of f v :: addrs_of r
  | _ => []
  end.
Definition mk_case (s a : list Z) : list Z * list Z := (s, a).

Definition run_filter (inp : list Z * list Z) : list Z :=
  res_code (filter_new (subnets_of (fst inp))) (fun flt =>
    flat_map (fun a => res_code (is_in flt a) (fun b => [if b : bool then 1 else 0])) (addrs_of (snd inp))
    ++ [-1; Z.of_nat (length (f4 flt)); hash_nodes (f4 flt); Z.of_nat (length (f6 flt)); hash_nodes (f6 flt)]).

(* input: split ok, addr oracle (family 0 = parse error), mask oracle (-1 = parse error)
   output: [0; family; value; mask] or [error code] *)
Definition run_parse (inp : Z * (Z * Z) * Z) : list Z :=
  match inp with (sp, (fam, v), m) =>
    match from_str (negb (sp =? 0)) (if fam =? 0 then None else Some (addr_of fam v))
                   (if m <? 0 then None else Some m) with
    | Ok s => [0; fam_of (s_addr s); val_of (s_addr s); s_mask s]
    | Err e => [e]
    | Panic s => [-2; s]
    end
  end.

Fixpoint list_eqb (a b : list Z) : bool :=
  match a, b with
  | [], [] => true
  | x :: a', y :: b' => (x =? y) && list_eqb a' b'
  | _, _ => false
  end.
