(* Model of the key file (C27): KeySetProvider::{store, load} in
   ntp-proto/src/keyset.rs and the "load or start with fresh keys" of
   ntpd/src/daemon/nts_key_provider.rs::spawn.  Definitions only.

   This models the REPAIRED load (branch fix-c27): [primary >= len] is
   rejected, and a time stamp that SystemTime cannot represent is rejected
   instead of panicking in `UNIX_EPOCH + Duration`. *)
From V Require Export Model.KeySet.
From V Require Import Gen.ConstKeyset.

Definition err_eof : Z := 1.      (* io::ErrorKind::UnexpectedEof, from read_exact *)
Definition err_other : Z := 2.    (* io::ErrorKind::Other *)

(* store: time(8) || id_offset(4) || primary(4) || len(4, `as u32`) || keys.
   [t] = SystemTime::now() in seconds since the epoch (u64). *)
Definition store (ks : keyset) (t : Z) : bytes :=
  be_enc 8 t ++ be_enc 4 (id_offset ks) ++ be_enc 4 (primary ks)
  ++ be_enc 4 (wrap 32 (lenZ (keys ks))) ++ concat (keys ks).

(* [n] consecutive keys of FILE_KEY_LEN bytes *)
Fixpoint chunks (n : nat) (b : bytes) : list bytes :=
  match n with
  | O => []
  | S m => firstn (Z.to_nat FILE_KEY_LEN) b :: chunks m (skipn (Z.to_nat FILE_KEY_LEN) b)
  end.

(* seconds that `SystemTime::UNIX_EPOCH.checked_add(Duration::from_secs(t))`
   can represent on the supported (unix, 64-bit time_t) targets: t <= i64::MAX *)
Definition time_representable (t : Z) : bool := t <=? i64_max.

(* load.  The code reads the keys one by one with read_exact and fails with
   UnexpectedEof at the first missing byte; that is: it succeeds iff the rest
   of the file has at least len * 64 bytes (the model tests this up front so
   that a huge [len] is never turned into a unary number).  Trailing bytes
   are ignored. *)
Definition load (b : bytes) : res (keyset * Z) :=
  if lenZ b <? FILE_HEADER_LEN then Err err_eof else
  let t := be_dec (firstn 8 b) in
  let off := be_dec (firstn 4 (skipn 8 b)) in
  let prim := be_dec (firstn 4 (skipn 12 b)) in
  let len := be_dec (firstn 4 (skipn 16 b)) in
  if negb (time_representable t) then Err err_other else
  if prim >=? len then Err err_other else
  let rest := skipn (Z.to_nat FILE_HEADER_LEN) b in
  if lenZ rest <? len * FILE_KEY_LEN then Err err_eof else
  Ok ({| keys := chunks (Z.to_nat len) rest; id_offset := off; primary := prim |}, t).

(* nts_key_provider::spawn, first part: [file] = None when the path cannot be
   opened; any failure of load gives a fresh single-key set and the current
   time.  (With the repaired load no panic can occur; a panic would abort the
   release daemon, see RELEASE_PANIC_STRATEGY.) *)
Definition start (file : option bytes) (fresh : bytes) (now : Z) : res (keyset * Z) :=
  match file with
  | None => Ok (new_keyset fresh, now)
  | Some b =>
      match load b with
      | Ok r => Ok r
      | Err _ => Ok (new_keyset fresh, now)
      | Panic s => Panic s
      end
  end.

(* key sets as they exist in the running daemon: every key has 64 bytes *)
Definition FileOk (ks : keyset) : Prop :=
  KeysOk ks /\ Forall key_ok (keys ks) /\ lenZ (keys ks) < 2 ^ 32.

(* "can issue and decode cookies" *)
Definition usable (enc : enc_t) (dec : dec_t) (ks : keyset) : Prop :=
  forall c nonce, wf_cookie c -> lenZ nonce = 16 ->
    exists b, encode_cookie enc ks c nonce = Ok b /\ decode_cookie dec ks b = Ok c.
Definition prefix_of (p b : bytes) : Prop := exists s, b = p ++ s.
Definition proper_prefix (p b : bytes) : Prop := exists s, s <> [] /\ b = p ++ s.

(* ---------------------------------------------------------------- correspondence driver *)

(* outcome of load: [0; t; id_offset; primary; len; packed keys...] | [1; kind] | [-2] *)
Definition out_load (r : res (keyset * Z)) : list Z :=
  match r with
  | Ok (ks, t) => 0 :: t :: id_offset ks :: primary ks :: lenZ (keys ks) :: map be_dec (keys ks)
  | Err e => [1; e]
  | Panic _ => [-2]
  end.

(* load every prefix of [b] from length [from] on (ascending), with the outcome
   of using what loads: 1 if a cookie can be issued (no panic), else 0 *)
Definition usable_code (r : res (keyset * Z)) : Z :=
  match r with
  | Ok (ks, _) =>
      match nth_key (keys ks) (primary ks) with Some _ => 1 | None => 0 end
  | _ => 1
  end.
Fixpoint load_prefixes (b : bytes) (lens : list nat) : list (list Z) :=
  match lens with
  | [] => []
  | n :: r => (out_load (load (firstn n b)) ++ [usable_code (load (firstn n b))]) :: load_prefixes b r
  end.

(* a case of the ntp-proto harness: load the listed prefixes of a file image, or store a key set *)
Inductive c27_case :=
| CLoad (b : bytes) (lens : list nat)
| CStore (ks : keyset) (t : Z).

Definition run_c27 (i : c27_case) : list (list Z) :=
  match i with
  | CLoad b lens => load_prefixes b lens
  | CStore ks t => [[lenZ (store ks t); be_dec (store ks t)]]
  end.

(* a case of the ntpd harness (nts_key_provider::spawn on a prepared path): the key
   set the daemon runs with, as id_offset, primary, number of keys, keys.  [fresh] is
   the random key of KeySetProvider::new, read back from the implementation. *)
Definition run_start (i : option bytes * bytes) : list Z :=
  match i with (file, fresh) =>
    match start file fresh 0 with
    | Ok (ks, _) => id_offset ks :: primary ks :: lenZ (keys ks) :: map be_dec (keys ks)
    | _ => [-2]
    end
  end.
