(* Model of ntp-proto/src/algorithm/kalman/select.rs: select.
   Definitions only.

   Every f64 the function compares enters the model as the integer key of
   f64::total_cmp
       key(x) = let b = x.to_bits() as i64 in b ^ (((b >> 63) as u64) >> 1) as i64
   so that  a.total_cmp(b) = Z.compare (key a) (key b)  and the IEEE comparisons
   <=, >, >= used by the two filters are the functions fle/fgt/fge below.  The
   model is integer-only and exact; the float expressions that produce the keys
   (radius = offset_uncertainty*w1 + delay*w2, offset -/+ radius) are evaluated by
   the harness with the implementation's own accessors. *)
From V Require Export Base.Prelude.

(* ---- f64 comparisons on total_cmp keys ---- *)
Definition key_inf : Z := 9218868437227405312.          (* key of +inf = 0x7FF0000000000000 *)
Definition isnan (k : Z) : bool := (k >? key_inf) || (k <? - key_inf - 1).
(* -0.0 has key -1, +0.0 has key 0; IEEE comparison identifies them *)
Definition norm (k : Z) : Z := if k =? -1 then 0 else k.
Definition fle (a b : Z) : bool := negb (isnan a) && negb (isnan b) && (norm a <=? norm b).
Definition fgt (a b : Z) : bool := negb (isnan a) && negb (isnan b) && (norm a >? norm b).
Definition fge (a b : Z) : bool := fle b a.

(* ---- inputs ---- *)
Record cand := mkCand {
  c_id : Z;            (* ClockId, carried through *)
  c_periodic : bool;   (* snapshot.period.is_some() *)
  c_sync : bool;       (* snapshot.leap_indicator.is_synchronized() *)
  c_radius : Z;        (* key of radius *)
  c_lo : Z;            (* key of offset - radius *)
  c_hi : Z             (* key of offset + radius *)
}.

Record cfg := mkCfg {
  min_agreeing : Z;    (* synchronization_config.minimum_agreeing_sources (usize) *)
  max_unc : Z          (* key of algo_config.maximum_source_uncertainty *)
}.

Inductive kind := Start | End.
Definition bound : Type := (Z * kind)%type.

(* first loop: who contributes a pair of bounds (the voters) *)
Definition voter (cf : cfg) (c : cand) : bool :=
  negb (c_periodic c) && negb (fgt (c_radius c) (max_unc cf) || negb (c_sync c)).

Fixpoint bounds_of (cf : cfg) (cands : list cand) : list bound :=
  match cands with
  | [] => []
  | c :: r => if voter cf c then (c_lo c, Start) :: (c_hi c, End) :: bounds_of cf r
              else bounds_of cf r
  end.

(* bounds.sort_by(|a, b| a.0.total_cmp(&b.0)): a stable sort on the time only.
   Stable insertion from the left: each element goes behind everything already
   placed whose key is <= its own. *)
Fixpoint insR (x : bound) (l : list bound) : list bound :=
  match l with
  | [] => [x]
  | y :: r => if fst y <=? fst x then y :: insR x r else x :: y :: r
  end.
Definition sort_from (acc l : list bound) : list bound := fold_left (fun a x => insR x a) l acc.
Definition sort_bounds (l : list bound) : list bound := sort_from [] l.

(* the sweep; usize arithmetic wraps (release profile), [underflow] is a ghost
   flag recording that `cur -= 1` was executed with cur = 0 *)
Record sw := mkSw { cur : Z; maxlow : Z; maxhigh : Z; tlow : Z; thigh : Z; underflow : bool }.

Definition sw_init : sw := mkSw 0 0 0 0 0 false.   (* maxtlow = maxthigh = 0.0, key 0 *)

Definition step (st : sw) (b : bound) : sw :=
  match snd b with
  | Start =>
      let c := wrap 64 (cur st + 1) in
      if c >? maxlow st then mkSw c c (maxhigh st) (fst b) (thigh st) (underflow st)
      else mkSw c (maxlow st) (maxhigh st) (tlow st) (thigh st) (underflow st)
  | End =>
      let uf := underflow st || (cur st =? 0) in
      let c := wrap 64 (cur st - 1) in
      if cur st >? maxhigh st then mkSw c (maxlow st) (cur st) (tlow st) (fst b) uf
      else mkSw c (maxlow st) (maxhigh st) (tlow st) (thigh st) uf
  end.

Definition sweep (l : list bound) : sw := fold_left step l sw_init.

Definition panic_assert_eq_maxlow_maxhigh : Z := 301.

(* second filter *)
Definition in_range (cf : cfg) (st : sw) (c : cand) : bool :=
  fle (c_radius c) (max_unc cf) && fle (c_lo c) (thigh st) && fge (c_hi c) (tlow st) && c_sync c.

Definition select (cf : cfg) (cands : list cand) : res (list cand) :=
  let b := sort_bounds (bounds_of cf cands) in
  let st := sweep b in
  if negb (maxlow st =? maxhigh st) then Panic panic_assert_eq_maxlow_maxhigh
  else
    let max := maxlow st in
    if (max >=? min_agreeing cf) && (wrap 64 (max * 4) >? Z.of_nat (length b))
    then Ok (filter (in_range cf st) cands)
    else Ok [].

(* ---- encoding for the correspondence ----
   input: (minimum_agreeing_sources, key of maximum_source_uncertainty,
           [(id, periodic, synchronised, radius key, lo key, hi key); ...])
   output: ids of the returned snapshots in order; [-2] for the assert_eq panic *)
Definition case_in : Type := (Z * Z * list (Z * bool * bool * Z * Z * Z))%type.

Definition cand_of (x : Z * bool * bool * Z * Z * Z) : cand :=
  match x with (i, p, s, r, lo, hi) => mkCand i p s r lo hi end.

Definition select_code (x : case_in) : list Z :=
  match x with (m, mx, cs) =>
    match select (mkCfg m mx) (map cand_of cs) with
    | Ok l => map c_id l
    | Err _ => [-3]
    | Panic _ => [-2]
    end
  end.

Definition list_eqb (a b : list Z) : bool :=
  (length a =? length b)%nat && forallb (fun p => fst p =? snd p) (combine a b).
