(* Model of statime-csptp/src/messages.rs and messages/tlvs.rs over the PTP wire model.
   Definitions only. *)
From V Require Export Model.PtpWire.
From V Require Import Gen.ConstCsptp.

Definition find_map {A B} (f : A -> option B) : list A -> option B :=
  fix go l := match l with [] => None | x :: r => match f x with Some y => Some y | None => go r end end.
Definition count_if {A} (f : A -> bool) (l : list A) : nat := length (filter f l).
Definition is_some {A} (o : option A) : bool := match o with Some _ => true | None => false end.

(* CsptpRequestTlv::try_from: (csptp_status, alt_timescale) *)
Definition req_tlv_try (t : tlv) : option (bool * bool) :=
  if fst t =? TLV_CSPTP_REQUEST then
    match snd t with [] => None | f :: _ => Some (bit 0 f, bit 1 f) end
  else None.

Record resp_tlv := mkRespTlv { rt_ingress : timestamp; rt_correction : Z }.
(* CsptpResponseTlv::try_from *)
Definition resp_tlv_try (t : tlv) : option resp_tlv :=
  if fst t =? TLV_CSPTP_RESPONSE then
    if (length (snd t) <? 18)%nat then None
    else match ts_de (slice 0 10 (snd t)) with
         | Ok ts => Some (mkRespTlv ts (to_signed 64 (unbe (slice 10 18 (snd t)))))
         | _ => None
         end
  else None.

Record status_tlv := mkStatusTlv {
  st_prio1 : Z; st_quality : clock_quality; st_prio2 : Z; st_steps : Z; st_utc_offset : Z; st_gm : bytes }.
(* CsptpStatusTlv::try_from *)
Definition status_tlv_try (t : tlv) : option status_tlv :=
  if fst t =? TLV_CSPTP_STATUS then
    if (length (snd t) <? 18)%nat then None
    else let c := slice 0 18 (snd t) in
         Some (mkStatusTlv (byte 0 c) (cq_de (slice 1 5 c)) (byte 5 c) (unbe (slice 6 8 c))
                           (to_signed 16 (unbe (slice 8 10 c))) (slice 10 18 c))
  else None.

(* the add_to functions: the TLV handed to the builder, or the error of a field serialiser *)
Definition req_tlv_make (status alt : bool) : tlv :=
  (TLV_CSPTP_REQUEST, [b2z status + 2 * b2z alt; 0; 0; 0]).
Definition resp_tlv_make (r : resp_tlv) : tlv :=
  (TLV_CSPTP_RESPONSE, ts_ser (rt_ingress r) ++ be 8 (rt_correction r)).
Definition status_tlv_make (s : status_tlv) : res tlv :=
  if negb (acc_encodable (cq_acc (st_quality s))) then Err E_INVALID   (* ClockQuality::serialize, repaired *)
  else Ok (TLV_CSPTP_STATUS,
           [st_prio1 s] ++ cq_ser (st_quality s) ++ [st_prio2 s] ++ be 2 (st_steps s)
           ++ be 2 (st_utc_offset s) ++ st_gm s).

(* csptp_header *)
Definition zero_pid : port_id := mkPid [0; 0; 0; 0; 0; 0; 0; 0] 0.
Definition csptp_header (domain seq : Z) : header :=
  mkHeader CSPTP_SDO_ID CSPTP_VERSION_MAJOR CSPTP_VERSION_MINOR domain
           false false true false false
           false false false false false false false
           0 zero_pid seq CSPTP_LOG_INTERVAL.

(* CsptpMessage::deserialize *)
Definition csptp_deserialize (buf : bytes) : res message :=
  do m <- msg_deserialize buf;
  if negb (h_sdo (m_header m) =? CSPTP_SDO_ID_CHECK) || negb (h_vmajor (m_header m) =? CSPTP_VERSION_CHECK)
  then Err E_INVALID
  else match m_body m with
       | Sync _ =>
           do ts <- tlvs (m_suffix m);
           let nreq := count_if (fun t => fst t =? TLV_CSPTP_REQUEST) ts in
           let nvreq := count_if (fun t => is_some (req_tlv_try t)) ts in
           let nresp := count_if (fun t => fst t =? TLV_CSPTP_RESPONSE) ts in
           let nvresp := count_if (fun t => is_some (resp_tlv_try t)) ts in
           if negb (nreq + nresp =? 1)%nat || negb (nreq =? nvreq)%nat || negb (nresp =? nvresp)%nat
           then Err E_INVALID else Ok m
       | FollowUp _ => Ok m
       | _ => Err E_INVALID
       end.

Definition is_sync (b : body) : bool := match b with Sync _ => true | _ => false end.
(* is_request / is_response; the suffix of a CsptpMessage is a validated set *)
Definition has_tlv (ty : Z) (m : message) : res bool :=
  do ts <- tlvs (m_suffix m); Ok (existsb (fun t => fst t =? ty) ts).
Definition is_request (m : message) : res bool :=
  if is_sync (m_body m) then has_tlv TLV_CSPTP_REQUEST m else Ok false.
Definition is_response (m : message) : res bool :=
  if is_sync (m_body m) then has_tlv TLV_CSPTP_RESPONSE m else Ok false.

(* CsptpMessage::new_request (csptp_status = true, alt_timescale = false) *)
Definition new_request (cap : nat) (domain seq : Z) : res message :=
  do set <- build_tlvs cap [req_tlv_make true false];
  Ok (mkMsg (csptp_header domain seq) (Sync (mkTs 0 0)) set).

(* the part of the server state new_response reads *)
Record server_state := mkSrv {
  sv_prio1 : Z; sv_quality : clock_quality; sv_prio2 : Z; sv_steps : Z; sv_gm : bytes;
  sv_ptp_timescale : bool; sv_time_traceable : bool; sv_freq_traceable : bool;
  sv_leap : Z   (* time_snapshot.leap_indicator: 0 NoWarning, 1 Leap61, 2 Leap59, 3 Unknown, 4 Unsynchronized *)
}.

Definition with_flags (h : header) (l61 l59 ptp tt ft two : bool) : header :=
  mkHeader (h_sdo h) (h_vmajor h) (h_vminor h) (h_domain h)
           (h_alt_master h) two (h_unicast h) (h_prof1 h) (h_prof2 h)
           l61 l59 false ptp tt ft (h_sync_uncertain h)
           (h_correction h) (h_source h) (h_seq h) (h_log_interval h).

(* CsptpMessage::new_response with send_timestamp = None (the only call in the crate) *)
Definition new_response (cap : nat) (req : message) (recv_ts : timestamp) (st : server_state) : res message :=
  if negb (is_sync (m_body req)) then Err E_INVALID else
  do ts <- tlvs (m_suffix req);
  match find_map req_tlv_try ts with
  | None => Err E_INVALID
  | Some (want_status, _) =>
      do b1 <- builder_add cap [] (resp_tlv_make (mkRespTlv recv_ts (h_correction (m_header req))));
      do b2 <- (if want_status then
                  do t <- status_tlv_make (mkStatusTlv (sv_prio1 st) (sv_quality st) (sv_prio2 st) (sv_steps st) 0 (sv_gm st));
                  builder_add cap b1 t
                else Ok b1);
      Ok (mkMsg (with_flags (csptp_header (h_domain (m_header req)) (h_seq (m_header req)))
                            (sv_leap st =? 1) (sv_leap st =? 2)
                            (sv_ptp_timescale st) (sv_time_traceable st) (sv_freq_traceable st) true)
                (Sync (mkTs 0 0)) b2)
  end.

(* CsptpMessage::new_follow_up *)
Definition set_two_step (h : header) : header :=
  mkHeader (h_sdo h) (h_vmajor h) (h_vminor h) (h_domain h)
           (h_alt_master h) true (h_unicast h) (h_prof1 h) (h_prof2 h)
           (h_leap61 h) (h_leap59 h) (h_utc_valid h) (h_ptp_timescale h)
           (h_time_traceable h) (h_freq_traceable h) (h_sync_uncertain h)
           (h_correction h) (h_source h) (h_seq h) (h_log_interval h).
Definition new_follow_up (resp : message) (send_ts : timestamp) : res message :=
  do r <- is_response resp;
  if negb r || negb (h_two_step (m_header resp)) then Err E_INVALID
  else Ok (mkMsg (set_two_step (csptp_header (h_domain (m_header resp)) (h_seq (m_header resp))))
                 (FollowUp send_ts) []).
