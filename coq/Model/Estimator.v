(* Model of statime-algo/src/estimator.rs (EstimatorState), matrix.rs (Matrix) and
   the Vec-backed storage of storage.rs (StdKalmanStorage).  Definitions only.

   The model is generic in the element type A and in the arithmetic on it
   (record Ops): the bookkeeping of the estimator (index lists, extend/splice
   of the state vector and of the covariance matrix, update_indices) only
   moves elements.  Model/FloatBits.v instantiates A with Coq's primitive
   binary64 floats, which makes the whole model (including progress_time and
   measurement) executable and bit-exact with the Rust code.

   Conventions.
   - indices and dimensions are usize in Rust and nat here.  The only
     subtractions are `rows - length` in splice_* (guarded by the OutOfBounds
     test, as in the code) and `base_index -= delta` in update_indices (taken
     only when base_index > from; it cannot underflow on a well-formed state:
     Proofs/Estimator.v, upd_idx under WF).
   - Timestamp<TAI> is a u128 (units of 2^-64 s) with wrapping arithmetic:
     Z in [0, 2^128), the wrap written out.  Duration is an i128.
   - ClockId is a Z; LinkId(a, b, n) is a triple of Z.
   - Index/IndexMut assertions and the dimension assertions of the matrix
     operators are explicit Panic results: each numeric operation first tests
     that the dimensions fit (panic_dims) and that every index it is going to
     use is in range (panic_index), then computes with total functions.
   - storage: Box<[f64]> / Vec (no capacity limit).  The fixed-capacity
     NoAllocKalmanStorage additionally panics when N is exceeded (not modelled). *)
From V Require Export Base.Prelude.

(* error classes of AlgoError *)
Definition E_UnknownClock : Z := 1.
Definition E_ClockAlreadyExists : Z := 2.
Definition E_UnknownLink : Z := 3.
Definition E_LinkAlreadyExists : Z := 4.
Definition E_LinkNotExternal : Z := 5.
Definition E_BothClocksExternal : Z := 6.
Definition E_ClocksEqual : Z := 7.
Definition E_NonMonotonic : Z := 8.
Definition E_CannotRemoveSystemClock : Z := 9.
Definition E_MatrixError : Z := 10.
Definition E_ClockError : Z := 11.
Definition E_NotEnoughMeasurements : Z := 12.
Definition E_ClockInUse : Z := 13.

Definition panic_dims : Z := 4201.
Definition panic_index : Z := 4202.

Record Ops (A : Type) : Type := {
  f0 : A;            (* 0.0 *)
  f1 : A;            (* 1.0 *)
  fm1 : A;           (* -1.0 *)
  fn0 : A;           (* -0.0, the start value of iter().sum::<f64>() *)
  f2 : A;            (* 2.0 *)
  f3 : A;            (* 3.0 *)
  fadd : A -> A -> A;
  fsub : A -> A -> A;
  fmul : A -> A -> A;
  fdiv : A -> A -> A;
  fsqrt : A -> A;
  fmid : A -> A -> A;      (* f64::midpoint *)
  fdt : Z -> A;            (* Duration(i128)::as_seconds *)
}.
Arguments f0 {A}. Arguments f1 {A}. Arguments fm1 {A}. Arguments fn0 {A}.
Arguments f2 {A}. Arguments f3 {A}. Arguments fadd {A}. Arguments fsub {A}.
Arguments fmul {A}. Arguments fdiv {A}. Arguments fsqrt {A}. Arguments fmid {A}.
Arguments fdt {A}.

Definition linkid : Type := (Z * Z * Z)%type.
Definition link_first (l : linkid) : Z := fst (fst l).
Definition link_second (l : linkid) : Z := snd (fst l).
Definition linkid_eqb (a b : linkid) : bool :=
  (link_first a =? link_first b) && (link_second a =? link_second b) && (snd a =? snd b).
Definition link_contains (l : linkid) (c : Z) : bool := (link_first l =? c) || (link_second l =? c).
(* DirectedLinkId: forward = from first to second *)
Definition dir_from (l : linkid) (forward : bool) : Z := if forward then link_first l else link_second l.
Definition dir_to (l : linkid) (forward : bool) : Z := if forward then link_second l else link_first l.

Definition two128 : Z := 2 ^ 128.
(* Timestamp - Timestamp: wrapping_sub, cast_signed *)
Definition ts_sub (a b : Z) : Z := to_signed 128 (a - b).
(* Timestamp + Duration: wrapping_add of the cast_unsigned duration *)
Definition ts_add (t d : Z) : Z := (t + d) mod two128.

(* remove the first element satisfying p (Vec::remove at iter().position(p)) *)
Fixpoint remove_first {X} (p : X -> bool) (l : list X) : option (X * list X) :=
  match l with
  | [] => None
  | x :: r => if p x then Some (x, r)
              else match remove_first p r with
                   | Some (y, r') => Some (y, x :: r')
                   | None => None
                   end
  end.

Fixpoint upd {X} (i : nat) (v : X) (l : list X) : list X :=
  match l, i with
  | [], _ => []
  | _ :: r, O => v :: r
  | x :: r, S j => x :: upd j v r
  end.

Section Est.
Context {A : Type} (F : Ops A).

Definition sq (x : A) : A := fmul F x x.                 (* powi(2) *)
Definition cube (x : A) : A := fmul F x (fmul F x x).    (* powi(3) *)

(* ---------------------------------------------------------------- matrix.rs *)
Record matrix : Type := { m_rows : nat; m_cols : nat; m_data : list A }.

Definition tab (n : nat) (f : nat -> A) : list A := map f (seq 0 n).

(* Matrix::new: storage index -> (index / cols, index % cols) *)
Definition mnew (r c : nat) (f : nat -> nat -> A) : matrix :=
  {| m_rows := r; m_cols := c; m_data := tab (r * c) (fun i => f (i / c)%nat (i mod c)%nat) |}.
Definition mnew_vec (r : nat) (f : nat -> A) : matrix :=
  {| m_rows := r; m_cols := 1; m_data := tab r f |}.

(* Index: storage[r * cols + c]; the range assertions are tested by the callers *)
Definition mget (m : matrix) (r c : nat) : A := nth (r * m_cols m + c) (m_data m) (f0 F).
Definition mset (m : matrix) (r c : nat) (v : A) : matrix :=
  {| m_rows := m_rows m; m_cols := m_cols m; m_data := upd (r * m_cols m + c) v (m_data m) |}.
Definition in_range (m : matrix) (r c : nat) : bool := (r <? m_rows m)%nat && (c <? m_cols m)%nat.

Definition splice_vec (m : matrix) (start len : nat) : res matrix :=
  if negb (m_cols m =? 1)%nat then Err E_MatrixError            (* NotAVector *)
  else if (m_rows m <? start + len)%nat then Err E_MatrixError  (* OutOfBounds *)
  else Ok (mnew_vec (m_rows m - len)
             (fun row => if (row <? start)%nat then mget m row 0 else mget m (row + len) 0)).

Definition splice_square (m : matrix) (start len : nat) : res matrix :=
  if negb (m_rows m =? m_cols m)%nat then Err E_MatrixError     (* NotSquare *)
  else if (m_rows m <? start + len)%nat then Err E_MatrixError  (* OutOfBounds *)
  else Ok (mnew (m_rows m - len) (m_cols m - len)
             (fun row col =>
                let row' := if (row <? start)%nat then row else (row + len)%nat in
                let col' := if (col <? start)%nat then col else (col + len)%nat in
                mget m row' col')).

Definition extend_vec (m : matrix) (vals : list A) : res matrix :=
  if negb (m_cols m =? 1)%nat then Err E_MatrixError
  else Ok (mnew_vec (m_rows m + length vals)
             (fun row => if (row <? m_rows m)%nat then mget m row 0
                         else nth (row - m_rows m) vals (f0 F))).

(* extend by a k x k block *)
Definition extend (m : matrix) (k : nat) (blk : nat -> nat -> A) : matrix :=
  mnew (m_rows m + k) (m_cols m + k)
    (fun row col =>
       if (row <? m_rows m)%nat && (col <? m_cols m)%nat then mget m row col
       else if (m_rows m <=? row)%nat && (m_cols m <=? col)%nat then blk (row - m_rows m)%nat (col - m_cols m)%nat
       else f0 F).

Definition identity (n : nat) : matrix := mnew n n (fun r c => if (r =? c)%nat then f1 F else f0 F).
Definition mzero (r c : nat) : matrix := mnew r c (fun _ _ => f0 F).
Definition transpose (m : matrix) : matrix := mnew (m_cols m) (m_rows m) (fun r c => mget m c r).
Definition symmetrize (m : matrix) : res matrix :=
  if negb (m_rows m =? m_cols m)%nat then Err E_MatrixError
  else Ok (mnew (m_rows m) (m_cols m) (fun r c => fmid F (mget m r c) (mget m c r))).
Definition mfrom (v : A) : matrix := mnew 1 1 (fun _ _ => v).

(* elementwise operators; the dimension assertions are tested by the callers *)
Definition mzip (f : A -> A -> A) (a b : matrix) : matrix :=
  {| m_rows := m_rows a; m_cols := m_cols a;
     m_data := tab (m_rows a * m_cols a) (fun i => f (nth i (m_data a) (f0 F)) (nth i (m_data b) (f0 F))) |}.
Definition madd := mzip (fadd F).
Definition msub := mzip (fsub F).
Definition mmap (f : A -> A) (a : matrix) : matrix :=
  {| m_rows := m_rows a; m_cols := m_cols a;
     m_data := tab (m_rows a * m_cols a) (fun i => f (nth i (m_data a) (f0 F))) |}.
Definition mscale (a : matrix) (s : A) : matrix := mmap (fun x => fmul F x s) a.   (* Matrix * f64 *)
Definition mdivs (a : matrix) (s : A) : matrix := mmap (fun x => fdiv F x s) a.    (* Matrix / f64 *)

(* (0..k).map(..).sum::<f64>(): left fold starting from -0.0 *)
Definition fsum (l : list A) : A := fold_left (fadd F) l (fn0 F).
Definition mmul (a b : matrix) : matrix :=
  {| m_rows := m_rows a; m_cols := m_cols b;
     m_data := tab (m_rows a * m_cols b) (fun i =>
        let r := (i / m_cols b)%nat in let c := (i mod m_cols b)%nat in
        fsum (map (fun k => fmul F (nth (r * m_cols a + k) (m_data a) (f0 F))
                                   (nth (k * m_cols b + c) (m_data b) (f0 F)))
                  (seq 0 (m_cols a)))) |}.

(* ------------------------------------------------------------- estimator.rs *)
Record clock_info : Type := { ci_id : Z; ci_base : nat; ci_wander : A }.
Record link_info : Type := { li_id : linkid; li_index : nat; li_decay : A }.

Definition offset_index (c : clock_info) : nat := ci_base c.
Definition frequency_index (c : clock_info) : nat := (ci_base c + 1)%nat.
Definition CLOCK_SIZE : nat := 2.
Definition LINK_SIZE : nat := 1.

Record est : Type := {
  e_time : Z;
  e_state : matrix;
  e_unc : matrix;
  e_clocks : list clock_info;
  e_ext : list Z;
  e_links : list link_info;
}.

Definition empty (time : Z) : est :=
  {| e_time := time; e_state := mzero 0 1; e_unc := mzero 0 0;
     e_clocks := []; e_ext := []; e_links := [] |}.

Definition is_internal_clock (st : est) (id : Z) : bool := existsb (fun c => ci_id c =? id) (e_clocks st).
Definition is_external_clock (st : est) (id : Z) : bool := existsb (Z.eqb id) (e_ext st).
Definition is_known_clock (st : est) (id : Z) : bool := is_internal_clock st id || is_external_clock st id.
Definition get_clock_info (st : est) (id : Z) : option clock_info := find (fun c => ci_id c =? id) (e_clocks st).
Definition get_link_info (st : est) (id : linkid) : option link_info := find (fun l => linkid_eqb (li_id l) id) (e_links st).

(* update_indices of both info lists *)
Definition upd_idx (from delta i : nat) : nat := if (from <? i)%nat then (i - delta)%nat else i.
Definition upd_clock (from delta : nat) (c : clock_info) : clock_info :=
  {| ci_id := ci_id c; ci_base := upd_idx from delta (ci_base c); ci_wander := ci_wander c |}.
Definition upd_link (from delta : nat) (l : link_info) : link_info :=
  {| li_id := li_id l; li_index := upd_idx from delta (li_index l); li_decay := li_decay l |}.

(* the state is n x 1 and the covariance n x n (holds for every state built by
   the operations below from [empty]; Proofs/Estimator.v, WF) *)
Definition dims_ok (st : est) : bool :=
  let n := m_rows (e_state st) in
  (m_cols (e_state st) =? 1)%nat && (m_rows (e_unc st) =? n)%nat && (m_cols (e_unc st) =? n)%nat
  && (length (m_data (e_state st)) =? n)%nat && (length (m_data (e_unc st)) =? n * n)%nat.

Definition with_state (st : est) (t : Z) (s u : matrix) : est :=
  {| e_time := t; e_state := s; e_unc := u; e_clocks := e_clocks st; e_ext := e_ext st; e_links := e_links st |}.

Definition progress_time (new_time : Z) (st : est) : res est :=
  let delta := ts_sub new_time (e_time st) in
  if delta <? 0 then Err E_NonMonotonic
  else if new_time =? e_time st then Ok st
  else
    let n := m_rows (e_state st) in
    if negb (dims_ok st) then Panic panic_dims
    else if negb (forallb (fun c => (frequency_index c <? n)%nat) (e_clocks st)
                  && forallb (fun l => (li_index l <? n)%nat) (e_links st)) then Panic panic_index
    else
      let dt := fdt F delta in
      let update := fold_left (fun u c => mset u (offset_index c) (frequency_index c) dt)
                              (e_clocks st) (identity n) in
      let noise1 := fold_left (fun m c =>
          let w2 := sq (ci_wander c) in
          let m := mset m (offset_index c) (offset_index c) (fdiv F (fmul F (cube dt) w2) (f3 F)) in
          let m := mset m (offset_index c) (frequency_index c) (fdiv F (fmul F (sq dt) w2) (f2 F)) in
          let m := mset m (frequency_index c) (offset_index c) (fdiv F (fmul F (sq dt) w2) (f2 F)) in
          mset m (frequency_index c) (frequency_index c) (fmul F dt w2))
        (e_clocks st) (mzero n n) in
      let noise := fold_left (fun m l =>
          mset m (li_index l) (li_index l)
               (fmul F dt (sq (fmul F (li_decay l) (mget (e_state st) (li_index l) 0)))))
        (e_links st) noise1 in
      Ok (with_state st new_time
            (mmul update (e_state st))
            (madd (mmul (mmul update (e_unc st)) (transpose update)) noise)).

(* state[(i, 0)] += change *)
Definition bump (st : est) (i : nat) (change : A) : res matrix :=
  if in_range (e_state st) i 0
  then Ok (mset (e_state st) i 0 (fadd F (mget (e_state st) i 0) change))
  else Panic panic_index.

Definition absorb_frequency_steer (id : Z) (change : A) (st : est) : res est :=
  match get_clock_info st id with
  | None => Err E_UnknownClock
  | Some c => do s <- bump st (frequency_index c) change;
              Ok (with_state st (e_time st) s (e_unc st))
  end.

Definition absorb_offset_change (id : Z) (change : A) (st : est) : res est :=
  match get_clock_info st id with
  | None => Err E_UnknownClock
  | Some c => do s <- bump st (offset_index c) change;
              Ok (with_state st (e_time st) s (e_unc st))
  end.

(* offset_change is a Duration (i128) *)
Definition absorb_system_clock_offset_change (id : Z) (change : Z) (st : est) : res est :=
  match get_clock_info st id with
  | None => Err E_UnknownClock
  | Some c => do s <- bump st (offset_index c) (fdt F change);
              Ok (with_state st (ts_add (e_time st) change) s (e_unc st))
  end.

(* measurement(direction, offset = (value, uncertainty), delay_link) *)
Definition measurement (lid : linkid) (forward : bool) (value uncertainty : A) (delay_link : bool)
    (st : est) : res est :=
  let n := m_rows (e_state st) in
  let from := dir_from lid forward in
  let to := dir_to lid forward in
  let from_external := is_external_clock st from in
  let to_external := is_external_clock st to in
  if from_external && to_external then Err E_BothClocksExternal
  else
    let proj0 := mzero 1 n in
    do proj1 <- (if from_external then Ok proj0
                 else match get_clock_info st from with
                      | None => Err E_UnknownClock
                      | Some c => if in_range proj0 0 (offset_index c)
                                  then Ok (mset proj0 0 (offset_index c) (fm1 F)) else Panic panic_index
                      end);
    do proj2 <- (if to_external then Ok proj1
                 else match get_clock_info st to with
                      | None => Err E_UnknownClock
                      | Some c => if in_range proj1 0 (offset_index c)
                                  then Ok (mset proj1 0 (offset_index c) (f1 F)) else Panic panic_index
                      end);
    do proj <- (if delay_link
                then match get_link_info st lid with
                     | None => Err E_UnknownLink
                     | Some l => if in_range proj2 0 (li_index l)
                                 then Ok (mset proj2 0 (li_index l) (f1 F)) else Panic panic_index
                     end
                else Ok proj2);
    if negb (dims_ok st) then Panic panic_dims
    else
      let expected := mmul proj (e_state st) in
      let difference := msub (mfrom value) expected in
      let dcov := madd (mmul (mmul proj (e_unc st)) (transpose proj)) (mfrom (sq uncertainty)) in
      let strength := mdivs (mmul (e_unc st) (transpose proj)) (mget dcov 0 0) in
      let state' := madd (e_state st) (mmul strength difference) in
      let prev := msub (identity n) (mmul strength proj) in
      do unc' <- symmetrize
                   (madd (mmul (mmul prev (e_unc st)) (transpose prev))
                         (mmul (mscale strength (sq uncertainty)) (transpose strength)));
      Ok (with_state st (e_time st) state' unc').

Definition add_external_clock (id : Z) (st : est) : res est :=
  if is_internal_clock st id then Err E_ClockAlreadyExists
  else if is_external_clock st id then Err E_ClockAlreadyExists
  else Ok {| e_time := e_time st; e_state := e_state st; e_unc := e_unc st;
             e_clocks := e_clocks st; e_ext := e_ext st ++ [id]; e_links := e_links st |}.

Definition remove_external_clock (id : Z) (st : est) : res est :=
  match remove_first (Z.eqb id) (e_ext st) with
  | None => Err E_UnknownClock
  | Some (_, ext') => Ok {| e_time := e_time st; e_state := e_state st; e_unc := e_unc st;
                            e_clocks := e_clocks st; e_ext := ext'; e_links := e_links st |}
  end.

(* add_clock(id, initial_offset = (ov, ou), initial_frequency = (fv, fu), wander) *)
Definition add_clock (id : Z) (ov ou fv fu wander : A) (st : est) : res est :=
  if is_external_clock st id then Err E_ClockAlreadyExists
  else if is_internal_clock st id then Err E_ClockAlreadyExists
  else
    let info := {| ci_id := id; ci_base := m_rows (e_state st); ci_wander := wander |} in
    do s <- extend_vec (e_state st) [ov; fv];
    let u := extend (e_unc st) 2 (fun r c =>
               match r, c with
               | O, O => sq ou
               | S O, S O => sq fu
               | _, _ => f0 F
               end) in
    Ok {| e_time := e_time st; e_state := s; e_unc := u;
          e_clocks := e_clocks st ++ [info]; e_ext := e_ext st; e_links := e_links st |}.

Definition remove_clock (id : Z) (st : est) : res est :=
  match remove_first (fun c => ci_id c =? id) (e_clocks st) with
  | None => Err E_UnknownClock
  | Some (removed, rest) =>
      let clocks' := map (upd_clock (ci_base removed) CLOCK_SIZE) rest in
      let links' := map (upd_link (ci_base removed) CLOCK_SIZE) (e_links st) in
      do s <- splice_vec (e_state st) (ci_base removed) CLOCK_SIZE;
      do u <- splice_square (e_unc st) (ci_base removed) CLOCK_SIZE;
      Ok {| e_time := e_time st; e_state := s; e_unc := u;
            e_clocks := clocks'; e_ext := e_ext st; e_links := links' |}
  end.

(* add_link(id, initial_delay = (dv, du), decay_rate) *)
Definition add_link (id : linkid) (dv du decay : A) (st : est) : res est :=
  if negb (is_known_clock st (link_first id)) then Err E_UnknownClock
  else if negb (is_known_clock st (link_second id)) then Err E_UnknownClock
  else if existsb (fun l => linkid_eqb (li_id l) id) (e_links st) then Err E_LinkAlreadyExists
  else
    let info := {| li_id := id; li_index := m_rows (e_state st); li_decay := decay |} in
    do s <- extend_vec (e_state st) [dv];
    let u := extend (e_unc st) 1 (fun _ _ => sq du) in
    Ok {| e_time := e_time st; e_state := s; e_unc := u;
          e_clocks := e_clocks st; e_ext := e_ext st; e_links := e_links st ++ [info] |}.

Definition remove_link (id : linkid) (st : est) : res est :=
  match remove_first (fun l => linkid_eqb (li_id l) id) (e_links st) with
  | None => Err E_UnknownLink
  | Some (removed, rest) =>
      let links' := map (upd_link (li_index removed) LINK_SIZE) rest in
      let clocks' := map (upd_clock (li_index removed) LINK_SIZE) (e_clocks st) in
      do s <- splice_vec (e_state st) (li_index removed) LINK_SIZE;
      do u <- splice_square (e_unc st) (li_index removed) LINK_SIZE;
      Ok {| e_time := e_time st; e_state := s; e_unc := u;
            e_clocks := clocks'; e_ext := e_ext st; e_links := links' |}
  end.

(* queries: (value, uncertainty) *)
Definition entry (st : est) (i : nat) : res (A * A) :=
  if in_range (e_state st) i 0 && in_range (e_unc st) i i
  then Ok (mget (e_state st) i 0, fsqrt F (mget (e_unc st) i i))
  else Panic panic_index.

Definition clock_offset (st : est) (id : Z) : res (A * A) :=
  match get_clock_info st id with
  | None => Err E_UnknownClock
  | Some c => entry st (offset_index c)
  end.
Definition clock_frequency (st : est) (id : Z) : res (A * A) :=
  match get_clock_info st id with
  | None => Err E_UnknownClock
  | Some c => entry st (frequency_index c)
  end.
Definition link_delay (st : est) (id : linkid) : res (A * A) :=
  match get_link_info st id with
  | None => Err E_UnknownLink
  | Some l => entry st (li_index l)
  end.

(* ------------------------------------------- operations as data (histories) *)
Inductive op : Type :=
| OpProgress (new_time : Z)
| OpAbsorbFreq (id : Z) (change : A)
| OpAbsorbOffset (id : Z) (change : A)
| OpAbsorbSystem (id : Z) (change : Z)
| OpMeasure (lid : linkid) (forward : bool) (value uncertainty : A) (delay_link : bool)
| OpAddExternal (id : Z)
| OpRemoveExternal (id : Z)
| OpAddClock (id : Z) (ov ou fv fu wander : A)
| OpRemoveClock (id : Z)
| OpAddLink (id : linkid) (dv du decay : A)
| OpRemoveLink (id : linkid).

Definition apply (o : op) (st : est) : res est :=
  match o with
  | OpProgress t => progress_time t st
  | OpAbsorbFreq id ch => absorb_frequency_steer id ch st
  | OpAbsorbOffset id ch => absorb_offset_change id ch st
  | OpAbsorbSystem id ch => absorb_system_clock_offset_change id ch st
  | OpMeasure l f v u d => measurement l f v u d st
  | OpAddExternal id => add_external_clock id st
  | OpRemoveExternal id => remove_external_clock id st
  | OpAddClock id ov ou fv fu w => add_clock id ov ou fv fu w st
  | OpRemoveClock id => remove_clock id st
  | OpAddLink id dv du dc => add_link id dv du dc st
  | OpRemoveLink id => remove_link id st
  end.

(* the way every user of the estimator applies an operation (lib.rs:
   `state.filter = state.filter.clone().op(..)?`): the handle keeps the old
   state when the operation fails *)
Definition apply_keep (o : op) (st : est) : est :=
  match apply o st with Ok st' => st' | _ => st end.

Definition run_ops (ops : list op) (st : est) : est := fold_left (fun s o => apply_keep o s) ops st.

End Est.

(* an instance with exact integer "arithmetic", used for examples only *)
Definition z_ops : Ops Z := {|
  f0 := 0; f1 := 1; fm1 := -1; fn0 := 0; f2 := 2; f3 := 3;
  fadd := Z.add; fsub := Z.sub; fmul := Z.mul; fdiv := Z.div;
  fsqrt := Z.sqrt; fmid := fun a b => (a + b) / 2; fdt := fun d => d |}.
