(* C22 by composition: Server::handle from the bytes of the datagram.

     handle_bytes  =  NtpPacket::deserialize(message, keyset)      Model/Packet.v  [deserialize], server
                                                                    key-set context, AEAD decryption = oracle
                   ;  what handle_inner reads off the result       [summary]  (this file, NEW modelling)
                   ;  Server::handle's decision structure          Model/Server.v  [handle]

   Definitions only.  The decision model of Model/Server.v takes the decoder's outcome as the record
   [request]; here that record is COMPUTED from the decoder's result on the datagram:
     r_fbv     fallback_message_version(message) = bits 3..5 of the first byte, 0 for the empty datagram
     r_parse   Ok((packet, cookie)) / Err(DecryptError(packet)) / any other Err
     r_ver     packet.version()  (the header variant)
     r_client  packet.mode() == NtpAssociationMode::Client  (v3/v4: header.mode = 3; v5: NtpMode::Request,
               which is wire value 3 as well)
     r_cookie  cookie.is_some()
   The answer construction (response builders, NtpPacket::serialize into the caller's buffer) is NOT
   composed here: as in Model/Server.v its outcome enters through the bits [e_ser_ok]/[e_buf_ge4] of the
   environment, and the panic sites it can reach through the environment (clock, key set, root delay,
   "NTS shouldn't work with NTPv3") are the explicit sites 2004-2007 of Model/Server.v.

   Order of evaluation: the Rust code calls intended_action first and the decoder only when the action is
   not Ignore; here the decoder runs first.  Both are pure, so the results agree whenever the decoder does
   not panic, and a decoder panic is reported even where the code would not have decoded at all
   (over-approximation of the panics, which is the safe direction for a totality statement). *)
From V Require Export Model.Server Model.Packet.

Definition fallback_version (data : bytes) : Z :=
  match data with [] => 0 | b0 :: _ => (b0 / 8) mod 8 end.       (* (v & 0b0011_1000) >> 3 *)

Definition packet_version (p : packet) : version :=
  match p_header p with HV3 _ => V3 | HV4 _ => V4 | HV5 _ => V5 end.

(* NtpPacket::mode() as the wire value: 3 = Client (v5: Request) *)
Definition packet_mode (p : packet) : Z :=
  match p_header p with HV3 h | HV4 h => h_mode h | HV5 h => v_mode h end.

Definition summary (data : bytes) (r : res outcome) : request :=
  match r with
  | Ok (Accept p ck) =>
      {| r_fbv := fallback_version data; r_parse := POk; r_ver := packet_version p;
         r_client := packet_mode p =? 3;
         r_cookie := match ck with Some _ => true | None => false end |}
  | Ok (DecryptFailed p) =>
      {| r_fbv := fallback_version data; r_parse := PDecrypt; r_ver := packet_version p;
         r_client := packet_mode p =? 3; r_cookie := false |}
  | _ => {| r_fbv := fallback_version data; r_parse := PErr; r_ver := V4; r_client := false; r_cookie := false |}
  end.

(* one datagram through the server: [keys]/[id_offset] = the server's KeySet, [dec] = the AEAD *)
Definition handle_bytes (h : Z -> Z) (cfg : config) (c : cache) (e : env)
           (dec : oracle) (keys : list bytes) (id_offset : Z) (data : bytes) : res result :=
  match deserialize dec (ServerKeys keys id_offset) data with
  | Panic s => Panic s
  | r => handle h cfg c e (summary data r)
  end.

(* a history of datagrams through one server (one key set, one cipher) *)
Fixpoint handle_all_bytes (h : Z -> Z) (cfg : config) (c : cache) (dec : oracle) (keys : list bytes)
         (id_offset : Z) (l : list (env * bytes)) : res (cache * list result) :=
  match l with
  | [] => Ok (c, [])
  | (e, data) :: rest =>
    do r <- handle_bytes h cfg c e dec keys id_offset data;
    do y <- handle_all_bytes h cfg (o_cache r) dec keys id_offset rest;
    Ok (fst y, r :: snd y)
  end.

(* ------------------------------------------------------------------------- *)
(* correspondence: the summary of a datagram as the harness prints it
   [fallback version; parse 0|1|2; version 3|4|5 (0 when undecodable); client; cookie] *)

Definition parse_code (p : parse) : Z := match p with POk => 0 | PDecrypt => 1 | PErr => 2 end.

Definition summary_code (rq : request) : list Z :=
  [r_fbv rq; parse_code (r_parse rq);
   match r_parse rq with PErr => 0 | _ => version_u8 (r_ver rq) end;
   zb (r_client rq); zb (r_cookie rq)].

(* decoder summary of raw bytes under a table oracle and a key set; [-1; site] if the decoder model panics *)
Definition summary_of_bytes (t : table) (keys : list bytes) (id_offset : Z) (data : bytes) : list Z :=
  match deserialize (table_dec t) (ServerKeys keys id_offset) data with
  | Panic s => [-1; s]
  | r => summary_code (summary data r)
  end.

(* C22's scenarios: the scenario of Model/Server.v (decision model run on the summaries the harness read
   off the REAL decoder) followed, per datagram, by the summary this file computes from the BYTES for the
   datagrams whose bytes the driver knows (None: echo of the harness summary, nothing compared).  Those
   datagrams carry no material encrypted under a key of the server, so the oracle is the empty table
   (every decryption fails) and the key set is irrelevant. *)
Definition scenario_run_bytes
  (inp : (list Z * list Z * list (Z * Z) * list (list Z)) * list (option bytes)) : list (list Z) :=
  let '(sc, raws) := inp in
  let '(_, _, _, ops) := sc in
  scenario_run sc ++
  map (fun x : list Z * option bytes =>
         match snd x with
         | Some data => summary_of_bytes [] [] 0 data
         | None => firstn 5 (fst x)
         end) (combine ops raws).
