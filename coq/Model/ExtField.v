(* Extension fields of NTP packets: ntp-proto/src/packet/extension_fields.rs,
   packet/v5/extension_fields.rs, packet/mac.rs, packet/crypto.rs (the
   CipherProvider implementations) and keyset.rs (decode_cookie, KeySet as a
   CipherProvider).  Byte level, branch by branch; every Rust panic site on
   these paths is an explicit [Panic site].  The AEAD is an oracle
   [dec key nonce aad ciphertext : option plaintext] (function argument).
   The model mirrors the tree WITH the C24 repair (branch fix-c24: a v5
   reference-id request whose payload length is not a multiple of 4 is
   rejected by ExtensionField::decode).
   Definitions only. *)
From V Require Export Model.Bytes.
From V Require Import Gen.ConstPacket.
From Coq Require Import String Ascii.

(* ---- error classes (ParsingError variants; io::Error is one class) ---- *)
Definition E_InvalidVersion : Z := 1.
Definition E_IncorrectLength : Z := 2.
Definition E_MalformedNts : Z := 3.
Definition E_MalformedNonce : Z := 4.
Definition E_MalformedPlaceholder : Z := 5.
Definition E_V5_InvalidDraft : Z := 7.
Definition E_V5_MalformedTimescale : Z := 8.
Definition E_V5_MalformedMode : Z := 9.
Definition E_V5_InvalidFlags : Z := 10.
Definition E_IO : Z := 20.

(* ---- panic sites ---- *)
Definition S_FUEL : Z := 999.          (* not a Rust site: the model's loop fuel ran out *)
Definition S_EF_DATA_HEADER : Z := 101.   (* &data[header_size..] *)
Definition S_EF_AAD : Z := 102.           (* &data[..header_size + offset] *)
Definition S_EF_REMAINING : Z := 103.     (* &data[header_size + size..] *)
Definition S_REFREQ_LEN : Z := 104.       (* u16::try_from(msg.len()).expect(..) *)
Definition S_REFREQ_ASSERT : Z := 105.    (* assert_eq!(payload_len % 4, 0) in serialize *)
Definition S_REFRESP_LEN : Z := 106.      (* self.bytes.len().try_into().unwrap() in serialize *)
Definition S_MAC_KEYID : Z := 110.        (* data[0..4] *)
Definition S_MAC_REST : Z := 111.         (* &data[4..] *)
Definition S_COOKIE_ID : Z := 120.        (* cookie[0..4] *)
Definition S_COOKIE_LEN : Z := 121.       (* cookie[4], cookie[5] *)
Definition S_COOKIE_NONCE : Z := 122.     (* &cookie[6..22] *)
Definition S_COOKIE_REST : Z := 123.      (* cookie[22..] *)
Definition S_COOKIE_KEY : Z := 124.       (* AesSivCmac*::try_from(..).unwrap() *)
Definition S_ENC_COPY : Z := 130.         (* copy_within / slices of encode_encrypted *)

(* ---- typed fields ---- *)
Inductive ef : Type :=
| EfUid (b : bytes)
| EfCookie (b : bytes)
| EfPlaceholder (cookie_length : Z)
| EfInvalidNts
| EfDraft (b : bytes)
| EfPadding (n : Z)
| EfRefReq (payload_len offset : Z)
| EfRefResp (b : bytes)
| EfUnknown (type_id : Z) (b : bytes).

Record efdata : Type := mkEfdata {
  authenticated : list ef;
  encrypted : list ef;
  untrusted : list ef }.
Definition efdata_empty : efdata := mkEfdata [] [] [].

Record mac : Type := mkMac { keyid : Z; macbytes : bytes }.

Record cookie : Type := mkCookie { ck_alg : Z; ck_s2c : bytes; ck_c2s : bytes }.

(* the CipherProvider given to deserialize: NoCipher, a client's cipher (key
   identified by its bytes), or the server's KeySet (keys, id_offset) *)
Inductive ctx : Type :=
| NoKeys
| ClientKey (k : bytes)
| ServerKeys (keys : list bytes) (id_offset : Z).

Inductive holder : Type := HCookie (c : cookie) | HOther (k : bytes).
Definition holder_key (h : holder) : bytes :=
  match h with HCookie c => ck_c2s c | HOther k => k end.

Definition oracle : Type := bytes -> bytes -> bytes -> bytes -> option bytes.
(* key, nonce, associated data, ciphertext *)

(* ---- raw fields and the streamer ---- *)

(* RawExtensionField::deserialize: (type id, message bytes) *)
Definition raw_deserialize (data : bytes) (minimum : Z) (v5 : bool) : res (Z * bytes) :=
  match data with
  | b0 :: b1 :: b2 :: b3 :: _ =>
      let tid := b0 * 256 + b1 in
      let fl := b2 * 256 + b3 in
      if fl <? minimum then Err E_IncorrectLength
      else if negb v5 && negb (fl mod 4 =? 0) then Err E_IncorrectLength
      else match slice data 4 (nm4 fl) with
           | None => Err E_IncorrectLength
           | Some _ =>
               match slice data 4 fl with
               | None => Err E_IncorrectLength
               | Some m => Ok (tid, m)
               end
           end
  | _ => Err E_IncorrectLength
  end.

Definition wire_length (m : bytes) : Z := nm4 (2 + 2 + blen m).

(* one call of ExtensionFieldStreamer::next at [offset]:
   None = end of stream; Some (item, new offset) *)
Definition stream_next (buf : bytes) (cutoff minimum : Z) (v5 : bool) (offset : Z)
  : option (res (Z * bytes) * Z) :=
  if offset >? blen buf then None                 (* self.buffer.get(self.offset..)? *)
  else
    let remaining := bdrop offset buf in
    if blen remaining <=? cutoff then None
    else match raw_deserialize remaining minimum v5 with
         | Ok (tid, m) => Some (Ok (tid, m), offset + wire_length m)
         | Err e => Some (Err e, blen buf)
         | Panic s => Some (Panic s, blen buf)
         end.

(* ---- typed decode ---- *)

Definition refreq_decode (m : bytes) : res (Z * Z) :=
  if blen m >? 65535 then Panic S_REFREQ_LEN
  else match slice m 0 2 with
       | None => Err E_IncorrectLength
       | Some ob => Ok (blen m, be ob)
       end.

Definition decode_field (tid : Z) (m : bytes) (v5 : bool) : res ef :=
  if tid =? T_UID then Ok (EfUid m)
  else if tid =? T_COOKIE then Ok (EfCookie m)
  else if tid =? T_PLACEHOLDER then
    if all_zero m then Ok (EfPlaceholder (blen m mod 65536)) else Err E_MalformedPlaceholder
  else if (tid =? T_DRAFT) && v5 then
    if all_ascii m then Ok (EfDraft m) else Err E_V5_InvalidDraft
  else if (tid =? T_REFREQ) && v5 then
    do r <- refreq_decode m;
    let '(plen, off) := r in
    (* the C24 repair (fix-c24): a request for a number of octets that is not a whole number of words is rejected *)
    if plen mod 4 =? 0 then Ok (EfRefReq plen off) else Err E_IncorrectLength
  else if (tid =? T_REFRESP) && v5 then Ok (EfRefResp m)
  else Ok (EfUnknown tid m).

(* ---- the NTS authenticator field ---- *)

(* RawEncryptedField::from_message_bytes: (nonce, ciphertext) *)
Definition enc_from_message (m : bytes) : res (bytes * bytes) :=
  match m with
  | b0 :: b1 :: b2 :: b3 :: rest =>
      let nl := b0 * 256 + b1 in
      let cl := b2 * 256 + b3 in
      match slice rest 0 nl with
      | None => Err E_IncorrectLength
      | Some nonce =>
          let cs := 4 + nm4_u16 nl in
          match slice m cs (cs + cl) with
          | None => Err E_IncorrectLength
          | Some ct => Ok (nonce, ct)
          end
      end
  | _ => Err E_IncorrectLength
  end.

(* the fields inside the decrypted plaintext (cutoff 0, minimum 4); the
   iterator is collected into a Result, so the first error wins *)
Fixpoint inner_fields (fuel : nat) (pt : bytes) (v5 : bool) (offset : Z) : res (list ef) :=
  match fuel with
  | O => Panic S_FUEL
  | S fuel' =>
      match stream_next pt 0 EF_BARE_MINIMUM_SIZE v5 offset with
      | None => Ok []
      | Some (Err e, _) => Err e
      | Some (Panic s, _) => Panic s
      | Some (Ok (tid, m), off') =>
          if tid =? T_ENCRYPTED then Err E_MalformedNts
          else
            do f <- decode_field tid m v5;
            do rest <- inner_fields fuel' pt v5 off';
            Ok (f :: rest)
      end
  end.

(* ---- keyset.rs: decode_cookie and KeySet::get ---- *)

Definition cookie_of_plaintext (pt : bytes) : res (option cookie) :=
  match pt with
  | b0 :: b1 :: kb =>
      let alg := b0 * 256 + b1 in
      let mk w :=
        if blen kb =? 2 * w then
          let s2c := btake w kb in
          let c2s := bdrop w kb in
          if (blen s2c =? w) && (blen c2s =? w) then Ok (Some (mkCookie alg s2c c2s))
          else Panic S_COOKIE_KEY
        else Ok None in
      if alg =? AEAD_ID_256 then mk COOKIE_KEY_WIDTH_256
      else if alg =? AEAD_ID_512 then mk COOKIE_KEY_WIDTH_512
      else Ok None
  | _ => Ok None
  end.

(* Ok None = Err(DecryptError) *)
Definition decode_cookie (dec : oracle) (keys : list bytes) (id_offset : Z) (c : bytes)
  : res (option cookie) :=
  if blen c <? COOKIE_MIN_LEN_ID + COOKIE_MIN_LEN_CT + COOKIE_MIN_LEN_NONCE then Ok None
  else
    do idb <- range c 0 4 S_COOKIE_ID;
    let id := (be idb - id_offset) mod 2 ^ 32 in
    match (if id <? Z.of_nat (List.length keys) then nth_error keys (Z.to_nat id) else None) with   (* self.keys.get(id) *)
    | None => Ok None
    | Some key =>
        do c4 <- idx c 4 S_COOKIE_LEN;
        do c5 <- idx c 5 S_COOKIE_LEN;
        let ctl := c4 * 256 + c5 in
        do nonce <- range c 6 22 S_COOKIE_NONCE;
        do rest <- range c 22 (blen c) S_COOKIE_REST;
        match slice rest 0 ctl with
        | None => Ok None
        | Some ct =>
            match dec key nonce [] ct with
            | None => Ok None
            | Some pt => cookie_of_plaintext pt
            end
        end
    end.

(* impl CipherProvider for KeySet *)
Fixpoint keyset_get (dec : oracle) (keys : list bytes) (id_offset : Z)
         (context : list ef) (decoded : option cookie) : res (option cookie) :=
  match context with
  | [] => Ok decoded
  | EfCookie c :: rest =>
      match decoded with
      | Some _ => Ok None
      | None =>
          do r <- decode_cookie dec keys id_offset c;
          match r with
          | None => Ok None
          | Some ck => keyset_get dec keys id_offset rest (Some ck)
          end
      end
  | _ :: rest => keyset_get dec keys id_offset rest decoded
  end.

Definition cipher_get (dec : oracle) (cx : ctx) (context : list ef) : res (option holder) :=
  match cx with
  | NoKeys => Ok None
  | ClientKey k => Ok (Some (HOther k))
  | ServerKeys keys off =>
      do r <- keyset_get dec keys off context None;
      Ok (option_map HCookie r)
  end.

(* ---- ExtensionFieldData::deserialize ---- *)

Record lstate : Type := mkL {
  l_ef : efdata; l_size : Z; l_valid : bool; l_cookie : option cookie }.

Definition push_untrusted (st : lstate) (f : ef) : lstate :=
  mkL (mkEfdata (authenticated (l_ef st)) (encrypted (l_ef st)) (untrusted (l_ef st) ++ [f]))
      (l_size st) (l_valid st) (l_cookie st).
Definition push_invalid (st : lstate) : lstate :=
  mkL (mkEfdata (authenticated (l_ef st)) (encrypted (l_ef st)) (untrusted (l_ef st) ++ [EfInvalidNts]))
      (l_size st) false (l_cookie st).
Definition set_size (st : lstate) (s : Z) : lstate :=
  mkL (l_ef st) s (l_valid st) (l_cookie st).
Definition promote (st : lstate) (fs : list ef) (h : holder) : lstate :=
  mkL (mkEfdata (authenticated (l_ef st) ++ untrusted (l_ef st)) (encrypted (l_ef st) ++ fs) [])
      (l_size st) (l_valid st)
      (match h with HCookie c => Some c | HOther _ => None end).

Definition ef_cutoff (v5 : bool) : Z := if v5 then EF_CUTOFF_V5 else MAC_MAXIMUM_SIZE.

Fixpoint ef_loop (fuel : nat) (dec : oracle) (cx : ctx) (data : bytes) (hs : Z) (v5 : bool)
         (buf : bytes) (offset : Z) (st : lstate) : res lstate :=
  match fuel with
  | O => Panic S_FUEL
  | S fuel' =>
      match stream_next buf (ef_cutoff v5) EF_V4_UNENCRYPTED_MINIMUM_SIZE v5 offset with
      | None => Ok st
      | Some (Err e, _) => Err e
      | Some (Panic s, _) => Panic s
      | Some (Ok (tid, m), off') =>
          let st := set_size st (offset + wire_length m) in
          if tid =? T_ENCRYPTED then
            do nc <- enc_from_message m;
            let '(nonce, ct) := nc in
            do h <- cipher_get dec cx (untrusted (l_ef st));
            match h with
            | None => ef_loop fuel' dec cx data hs v5 buf off' (push_invalid st)
            | Some h =>
                do aad <- range data 0 (hs + offset) S_EF_AAD;
                match dec (holder_key h) nonce aad ct with
                | None => ef_loop fuel' dec cx data hs v5 buf off' (push_invalid st)
                | Some pt =>
                    do fs <- inner_fields (S (List.length pt)) pt v5 0;
                    ef_loop fuel' dec cx data hs v5 buf off' (promote st fs h)
                end
            end
          else
            do f <- decode_field tid m v5;
            ef_loop fuel' dec cx data hs v5 buf off' (push_untrusted st f)
      end
  end.

(* result: (efdata, remaining bytes, cookie, is_valid_nts) *)
Definition efdata_deserialize (dec : oracle) (cx : ctx) (data : bytes) (hs : Z) (v5 : bool)
  : res (efdata * bytes * option cookie * bool) :=
  do buf <- range data hs (blen data) S_EF_DATA_HEADER;
  do st <- ef_loop (S (List.length buf)) dec cx data hs v5 buf 0 (mkL efdata_empty 0 true None);
  do remaining <- range data (hs + l_size st) (blen data) S_EF_REMAINING;
  Ok (l_ef st, remaining, l_cookie st, l_valid st).

(* ---- mac.rs ---- *)
Definition mac_deserialize (data : bytes) : res mac :=
  if (blen data <? MAC_MINIMUM_SIZE) || (blen data >? MAC_MAXIMUM_SIZE) then Err E_IncorrectLength
  else
    do k <- range data 0 4 S_MAC_KEYID;
    do r <- range data 4 (blen data) S_MAC_REST;
    Ok (mkMac (be k) r).

(* ================= encoding ================= *)

(* a Cursor<&mut [u8]> that started at position 0: bytes written so far and
   the capacity of the underlying slice; write_all fails (WriteZero) when the
   bytes do not fit *)
Record writer : Type := mkW { w_out : bytes; w_cap : Z }.
Definition wr (w : writer) (bs : bytes) : res writer :=
  if blen (w_out w) + blen bs >? w_cap w then Err E_IO else Ok (mkW (w_out w ++ bs) (w_cap w)).

(* encode_framing *)
Definition encode_framing (w : writer) (tid data_length minimum : Z) (v5 : bool) : res writer :=
  if data_length >? 65535 - EF_HEADER_LENGTH then Err E_IO
  else
    let a := Z.max ((data_length + EF_HEADER_LENGTH) mod 65536) minimum in
    let a := if v5 then a else nm4_u16 a in
    do w <- wr w (to_be 2 tid);
    wr w (to_be 2 a).

(* encode_padding (write_zeros) *)
Definition encode_padding (w : writer) (data_length minimum : Z) : res writer :=
  if data_length >? 65535 - EF_HEADER_LENGTH then Err E_IO
  else
    let a := nm4 (Z.max (data_length + EF_HEADER_LENGTH) minimum) in
    wr w (zeros (a - data_length - EF_HEADER_LENGTH)).

Definition encode_bytes_field (w : writer) (tid : Z) (data : bytes) (minimum : Z) (v5 : bool) : res writer :=
  do w <- encode_framing w tid (blen data) minimum v5;
  do w <- wr w data;
  encode_padding w (blen data) minimum.

Definition refreq_serialize (w : writer) (plen off : Z) : res writer :=
  do w <- wr w (to_be 2 T_REFREQ_to);
  do w <- wr w (to_be 2 ((plen + 4) mod 65536));
  do w <- wr w (to_be 2 off);
  do w <- wr w [0; 0];
  if negb (plen mod 4 =? 0) then Panic S_REFREQ_ASSERT
  else wr w (zeros (4 * (plen / 4 - 1))).

Definition refresp_serialize (w : writer) (b : bytes) : res writer :=
  if blen b >? 65535 then Panic S_REFRESP_LEN
  else
    let len := (blen b + 4) mod 65536 in
    do w <- wr w (to_be 2 T_REFRESP_to);
    do w <- wr w (to_be 2 len);
    do w <- wr w b;
    if len mod 4 =? 0 then Ok w else wr w (zeros (4 - len mod 4)).

(* ExtensionField::serialize *)
Definition ef_serialize (w : writer) (f : ef) (minimum : Z) (v5 : bool) : res writer :=
  match f with
  | EfUnknown tid d => encode_bytes_field w tid d minimum v5
  | EfUid d => encode_bytes_field w T_UID_to d minimum v5
  | EfCookie d => encode_bytes_field w T_COOKIE_to d minimum v5
  | EfPlaceholder n => encode_bytes_field w T_PLACEHOLDER_to (zeros n) minimum v5
  | EfInvalidNts => Err E_IO
  | EfDraft d => encode_bytes_field w T_DRAFT_to d minimum v5
  | EfPadding n =>
      (* length - HEADER_LENGTH on usize: wraps in release, then "too long" *)
      let dl := (n - EF_HEADER_LENGTH) mod 2 ^ 64 in
      if dl >? 65535 - EF_HEADER_LENGTH then Err E_IO
      else encode_bytes_field w T_PADDING_to (zeros dl) minimum v5
  | EfRefReq plen off => refreq_serialize w plen off
  | EfRefResp b => refresp_serialize w b
  end.

Fixpoint ef_serialize_list (w : writer) (fs : list ef) (minimum : Z) (v5 : bool) : res writer :=
  match fs with
  | [] => Ok w
  | f :: fs' => do w <- ef_serialize w f minimum v5; ef_serialize_list w fs' minimum v5
  end.

(* the untrusted fields: RFC 7822 minimum sizes, the last one larger in v4 *)
Fixpoint ef_serialize_untrusted (w : writer) (fs : list ef) (v5 : bool) : res writer :=
  match fs with
  | [] => Ok w
  | f :: fs' =>
      let minimum := if v5 then EF_MIN_V5
                     else match fs' with [] => EF_MIN_V4_LAST | _ => EF_MIN_V4 end in
      do w <- ef_serialize w f minimum v5;
      ef_serialize_untrusted w fs' v5
  end.

(* the cipher given to serialize: none, or a key with the nonce the cipher
   will draw and its encryption function (oracle) *)
Definition enc_oracle : Type := bytes -> bytes -> bytes -> bytes -> bytes.
(* key, nonce, associated data, plaintext -> ciphertext *)

(* encode_encrypted with a cipher whose encrypt puts [nonce] ++ ciphertext
   in place (AesSivCmac256/512: 16-byte nonce, ciphertext = plaintext + 16) *)
Definition encode_encrypted (enc : enc_oracle) (key nonce : bytes) (w : writer) (fs : list ef) (v5 : bool)
  : res writer :=
  let header_start := blen (w_out w) in
  let aad := w_out w in
  do w1 <- wr w (to_be 2 T_ENCRYPTED_to ++ [0; 0; 0; 0; 0; 0]);
  do w2 <- ef_serialize_list w1 fs EF_MIN_ENCRYPTED v5;
  let pt := bdrop (header_start + 8) (w_out w2) in
  let room := w_cap w - header_start - 8 in                (* cur_extension_field[header_size..].len() *)
  if room <? blen nonce + blen pt then Err E_IO            (* prepend_slice *)
  else
    let ct := enc key nonce aad pt in
    if room <? blen nonce + blen ct then Err E_IO          (* the in-place buffer of the cipher *)
    else
      let pn := nm4 (blen nonce) in
      let pc := nm4 (blen ct) in
      if room + 8 <? 8 + pc + pn then Err E_IO
      else
        let sig := 8 + pn + pc in
        Ok (mkW (aad ++ to_be 2 T_ENCRYPTED_to ++ to_be 2 (sig mod 65536)
                     ++ to_be 2 (blen nonce mod 65536) ++ to_be 2 (blen ct mod 65536)
                     ++ nonce ++ zeros (pn - blen nonce) ++ ct ++ zeros (pc - blen ct))
                (w_cap w)).

(* ExtensionFieldData::serialize; [cipher] = None models NoCipher *)
Definition efdata_serialize (enc : enc_oracle) (cipher : option (bytes * bytes)) (w : writer)
           (d : efdata) (v5 : bool) : res writer :=
  do w <- match authenticated d, encrypted d with
          | [], [] => Ok w
          | _, _ =>
              match cipher with
              | None => Err E_IO
              | Some (key, nonce) =>
                  do w <- ef_serialize_list w (authenticated d) EF_MIN_AUTHENTICATED v5;
                  encode_encrypted enc key nonce w (encrypted d) v5
              end
          end;
  ef_serialize_untrusted w (untrusted d) v5.

Definition mac_serialize (w : writer) (m : mac) : res writer :=
  do w <- wr w (to_be 4 (keyid m));
  wr w (macbytes m).

(* the draft identification string as bytes *)
Definition draft_version_bytes : bytes :=
  map (fun a => Z.of_N (N_of_ascii a)) (list_ascii_of_string DRAFT_VERSION).

(* the census of panic-capable constructs this model was written against *)
Definition census_ok : bool :=
  (CENSUS_EF_PANICS =? 0) && (CENSUS_EF_RANGES =? 13) && (CENSUS_MAC_PANICS =? 1) &&
  (CENSUS_MAC_RANGES =? 2) && (CENSUS_V5EF_PANICS =? 4) && (CENSUS_V5_DESER_UNWRAPS =? 7) &&
  (CENSUS_MOD_DESER_UNWRAPS =? 7) && (CENSUS_MOD_UNREACHABLE =? 2) && (CENSUS_KS_DECODE_UNWRAPS =? 4) &&
  (T_UID =? T_UID_to) && (T_COOKIE =? T_COOKIE_to) && (T_PLACEHOLDER =? T_PLACEHOLDER_to) &&
  (T_ENCRYPTED =? T_ENCRYPTED_to) && (T_DRAFT =? T_DRAFT_to) && (T_PADDING =? T_PADDING_to) &&
  (T_REFREQ =? T_REFREQ_to) && (T_REFRESP =? T_REFRESP_to).
