(* Model of NtpSourceSnapshot::accept_synchronization (ntp-proto/src/source.rs),
   NtpSnapshot::from_used_sources and NtpManager::update_used_sources
   (ntp-proto/src/system.rs).  Definitions only.

   Reference ids are u32 values.  ReferenceId::from_ip (the IPv4 octets, or the
   first four bytes of the MD5 of an IPv6 address) is an oracle: the list of
   local addresses enters the model as the list of their ids.  The Bloom filter
   of a source enters as [Some b] with b = filter.contains_id(our server id)
   (bit-level facts: C34), [None] when the source has no complete filter. *)
From V Require Export Base.Prelude.
From V Require Import Gen.ConstSource Model.Bloom.
From Coq Require Import String Ascii.

(* the four bytes of a b"...." literal (with \0 escapes) as a big-endian u32 *)
Fixpoint lit_bytes (s : string) : list Z :=
  match s with
  | EmptyString => []
  | String "\"%char (String "0"%char r) => 0 :: lit_bytes r
  | String c r => Z.of_N (N_of_ascii c) :: lit_bytes r
  end.
Definition be32 (s : string) : Z := fold_left (fun a b => a * 256 + b) (lit_bytes s) 0.

Definition REFID_NONE : Z := be32 REFID_NONE_TEXT.
Definition REFID_PPS : Z := be32 REFID_PPS_TEXT.
Definition REFID_SOCK : Z := be32 REFID_SOCK_TEXT.
Definition REFID_CSPTP : Z := be32 REFID_CSPTP_TEXT.

Record snap := mkSnap {
  s_stratum : Z;                 (* u8 *)
  s_source_id : Z;               (* ReferenceId::from_ip(source address) *)
  s_reference_id : Z;            (* as reported by the server *)
  s_reach : Z;                   (* Reach(u8) *)
  s_bloom : option bool          (* Some (filter.contains_id(server_id)) *)
}.

Inductive accept_error := ServerUnreachable | Loop | Distance | Stratum.

Definition is_local (local_ids : list Z) (id : Z) : bool := existsb (fun l => l =? id) local_ids.

Definition accept_synchronization (local_stratum : Z) (local_ids : list Z) (s : snap)
  : option accept_error (* None = Ok(()) *) :=
  if s_stratum s >=? local_stratum then Some Stratum
  else if negb (s_stratum s =? 1) &&
          existsb (fun l => (l =? s_source_id s) || (l =? s_reference_id s)) local_ids
  then Some Loop
  else match s_bloom s with
       | Some true => Some Loop
       | _ => if s_reach s =? 0 then Some ServerUnreachable else None
       end.

(* what handle_timer / process_message hand to the controller *)
Definition usable (local_stratum : Z) (local_ids : list Z) (s : snap) : bool :=
  match accept_synchronization local_stratum local_ids s with None => true | Some _ => false end.

(* ---------- advertisement ---------- *)
Inductive source_snapshot :=
| SNtp (s : snap) (filter : option (list Z))      (* the 512 bytes, when complete *)
| SExternal (stratum source_id : Z).

Record ntp_snapshot := mkNtp { a_stratum : Z; a_reference_id : Z; a_filter : list Z }.

Definition first_of (x : source_snapshot) : Z * Z :=
  match x with
  | SNtp s _ => (s_stratum s, s_source_id s)
  | SExternal st id => (st, id)
  end.

Definition filters_of (used : list source_snapshot) : list (list Z) :=
  flat_map (fun x => match x with SNtp _ (Some f) => [f] | _ => [] end) used.

Definition from_used_sources (local_stratum : Z) (server_id : list Z) (used : list source_snapshot)
  : res ntp_snapshot :=
  let (st, rid) := match used with
                   | [] => (local_stratum, REFID_NONE)
                   | x :: _ => let (s, i) := first_of x in (Z.min (s + 1) 255, i)   (* saturating_add(1) on u8 *)
                   end in
  do f <- add_id (fold_left bf_add (filters_of used) bf_new) server_id;
  Ok (mkNtp st rid f).

Inductive source_type := TPps | TSock | TNtp | TCsptp.

Fixpoint lookup (table : list (Z * source_snapshot)) (id : Z) : option source_snapshot :=
  match table with
  | [] => None
  | (k, v) :: r => if k =? id then Some v else lookup r id
  end.

(* sources.map(..).collect::<Option<Vec<_>>>() : None as soon as one NTP source has not reported *)
Fixpoint resolve (table : list (Z * source_snapshot)) (used : list (Z * source_type))
  : option (list source_snapshot) :=
  match used with
  | [] => Some []
  | (id, ty) :: r =>
      match (match ty with
             | TPps => Some (SExternal 0 REFID_PPS)
             | TSock => Some (SExternal 0 REFID_SOCK)
             | TCsptp => Some (SExternal 0 REFID_CSPTP)
             | TNtp => lookup table id
             end) with
      | None => None
      | Some x => option_map (cons x) (resolve table r)
      end
  end.

(* returns the snapshot now published *)
Definition update_used_sources (local_stratum : Z) (server_id : list Z)
    (table : list (Z * source_snapshot)) (published : ntp_snapshot) (used : list (Z * source_type))
  : res ntp_snapshot :=
  match resolve table used with
  | Some l => from_used_sources local_stratum server_id l
  | None => Ok published
  end.

Definition all_reported (table : list (Z * source_snapshot)) (used : list (Z * source_type)) : Prop :=
  forall id, In (id, TNtp) used -> lookup table id <> None.

(* ---------- encodings for the correspondence (harness/ntp-proto/c33.rs) ---------- *)
Definition err_code (e : option accept_error) : Z :=
  match e with
  | None => 0
  | Some ServerUnreachable => 1
  | Some Loop => 2
  | Some Distance => 3
  | Some Stratum => 4
  end.

(* accept case: (local_stratum, local ids, stratum, source id, reference id, reach, bloom code)
   bloom code: 0 no filter, 1 filter without our id, 2 filter with our id *)
Definition bloom_of_code (c : Z) : option bool :=
  if c =? 0 then None else Some (c =? 2).

(* end to end: NtpManager + real sources.  A source is (clock id, source id, mode, stratum, refid):
   mode 0 created only, 1 one timer, 2 one timer and a usable answer reporting (stratum, refid) *)
Definition e2e_src : Type := Z * Z * Z * Z * Z.

Definition new_source_snap (sid : Z) : snap := mkSnap 16 sid REFID_NONE 0 None.   (* NtpSource::new, reach polled once *)

Definition e2e_final (x : e2e_src) : option snap :=
  match x with (_, sid, mode, st, rid) =>
    if mode =? 0 then None
    else if mode =? 1 then Some (new_source_snap sid)
    else Some (mkSnap st sid rid 1 None)
  end.

Definition e2e_flags (ls : Z) (ids : list Z) (x : e2e_src) : list Z :=
  match x with (_, sid, mode, st, rid) =>
    [if mode =? 0 then -1 else b2z (usable ls ids (new_source_snap sid));
     if mode <? 2 then -1 else b2z (usable ls ids (mkSnap st sid rid 1 None))]
  end.

Definition e2e_table (srcs : list e2e_src) : list (Z * source_snapshot) :=
  flat_map (fun x => match e2e_final x with
                     | Some s => [(fst (fst (fst (fst x))), SNtp s None)]
                     | None => []
                     end) srcs.

Inductive c33case :=
| CAccept (local_stratum : Z) (local_ids : list Z) (st sid rid reach bloom : Z)
| CAdvertise (local_stratum : Z)
             (table : list (Z * (Z * Z)))            (* clock id -> (stratum, source id) of reported NTP sources *)
             (updates : list (list (Z * Z)))         (* successive used lists: (clock id, type code 0 pps 1 sock 2 ntp 3 csptp) *)
| CEndToEnd (local_stratum : Z) (local_ids : list Z) (srcs : list e2e_src) (updates : list (list (Z * Z))).

Definition type_of_code (c : Z) : source_type :=
  match c with 0 => TPps | 1 => TSock | 2 => TNtp | _ => TCsptp end.

Definition mk_table (t : list (Z * (Z * Z))) : list (Z * source_snapshot) :=
  map (fun e => (fst e, SNtp (mkSnap (fst (snd e)) (snd (snd e)) 0 0 None) None)) t.

(* [own]: does the published filter contain our server id (the initial NtpSnapshot::default() has an
   empty filter; every computed advertisement contains the id: C33_advertise) *)
Fixpoint run_updates (ls : Z) (table : list (Z * source_snapshot)) (pub : ntp_snapshot) (own : Z)
    (ups : list (list (Z * Z))) : list Z :=
  match ups with
  | [] => []
  | u :: r =>
      let used := map (fun e => (fst e, type_of_code (snd e))) u in
      match update_used_sources ls [] table pub used with
      | Ok p => let own' := match resolve table used with Some _ => 1 | None => own end in
                [a_stratum p; a_reference_id p; own'] ++ run_updates ls table p own' r
      | _ => [-99]
      end
  end.

Definition run_c33 (c : c33case) : list Z :=
  match c with
  | CAccept ls ids st sid rid reach bl =>
      [err_code (accept_synchronization ls ids (mkSnap st sid rid reach (bloom_of_code bl)))]
  | CAdvertise ls t ups =>
      run_updates ls (mk_table t) (mkNtp DEFAULT_SNAPSHOT_STRATUM REFID_NONE bf_new) 0 ups
  | CEndToEnd ls ids srcs ups =>
      flat_map (e2e_flags ls ids) srcs ++
      run_updates ls (e2e_table srcs) (mkNtp DEFAULT_SNAPSHOT_STRATUM REFID_NONE bf_new) 0 ups
  end.
