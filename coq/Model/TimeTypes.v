(* Model of ntp-proto/src/time_types.rs (NtpTimestamp, NtpDuration,
   PollInterval) and statime-base/src/time_types.rs (Timestamp, Duration).
   Definitions only; lemmas are in Proofs/TimeTypes.v.

   Values are plain [Z]; the machine width appears only in the wrap /
   saturation of each operation (release semantics: no overflow checks, no
   debug assertions).  An NtpTimestamp is a Z in [0, 2^64), an NtpDuration a Z
   in [-2^63, 2^63) counting units of 2^-32 s, a PollInterval a Z in
   [-128, 128).  PTP: Timestamp in [0, 2^128), Duration in [-2^127, 2^127),
   units of 2^-64 s.

   NAMES (used by other models, keep stable):

     in_u64 in_i64 in_i8 in_u128 in_i128        range predicates (Prop)
     i64_min i64_max sat_i64                    (from Base.Prelude)

     tsub  a b   NtpTimestamp - NtpTimestamp  -> NtpDuration   (wrapping, as i64)
     tadd  t d   NtpTimestamp + NtpDuration   -> NtpTimestamp  (wrapping)
     tsubd t d   NtpTimestamp - NtpDuration   -> NtpTimestamp  (wrapping)
     tbefore a b NtpTimestamp::is_before

     dadd a b    NtpDuration + NtpDuration    (saturating)
     dsub a b    NtpDuration - NtpDuration    (saturating)
     dneg a      - NtpDuration                (saturating; repaired code, branch fix-c32)
     dabs a      NtpDuration::abs             (saturating; repaired code)
     dabs_diff a b   NtpDuration::abs_diff  = dabs (dsub a b)
     dmul a k    NtpDuration * integer scalar (saturating), k already cast to i64
     ddiv a k    NtpDuration / integer scalar : res Z   (saturating_div; Panic on k = 0)
     ddiv2 a     NtpDuration / 2  as a total function (= Z.quot a 2)
     dltb dleb   comparisons of durations (Z.ltb / Z.leb)
     dneg_wrap dabs_wrap ddiv_unrepaired   the operations of the UNREPAIRED code

     poll_inc poll_dec poll_force_inc poll_as_duration ...   PollInterval

     ptsub ptadd ptsubd  pdadd pdsub pdmul pddiv            PTP (128 bit)          *)
From V Require Export Base.Prelude.

(* ------------------------------------------------------------------ *)
(* ranges                                                              *)

Definition in_u64 (z : Z) : Prop := 0 <= z < 2 ^ 64.
Definition in_i64 (z : Z) : Prop := - 2 ^ 63 <= z < 2 ^ 63.
Definition in_u32 (z : Z) : Prop := 0 <= z < 2 ^ 32.
Definition in_i8 (z : Z) : Prop := - 128 <= z < 128.
Definition in_u128 (z : Z) : Prop := 0 <= z < 2 ^ 128.
Definition in_i128 (z : Z) : Prop := - 2 ^ 127 <= z < 2 ^ 127.

Definition i8_min : Z := -128.
Definition i8_max : Z := 127.
Definition sat_i8 (z : Z) : Z := clampZ i8_min i8_max z.
Definition i128_min : Z := - 2 ^ 127.
Definition i128_max : Z := 2 ^ 127 - 1.
Definition sat_i128 (z : Z) : Z := clampZ i128_min i128_max z.

(* ------------------------------------------------------------------ *)
(* NtpTimestamp (u64, wrapping)                                        *)

(* impl Sub for NtpTimestamp: self.timestamp.wrapping_sub(rhs.timestamp) as i64 *)
Definition tsub (a b : Z) : Z := to_signed 64 (wrap 64 (a - b)).
(* impl Add<NtpDuration>: self.timestamp.wrapping_add(rhs.duration as u64) *)
Definition tadd (t d : Z) : Z := wrap 64 (t + wrap 64 d).
(* impl Sub<NtpDuration>: self.timestamp.wrapping_sub(rhs.duration as u64) *)
Definition tsubd (t d : Z) : Z := wrap 64 (t - wrap 64 d).
(* is_before: self - other < NtpDuration::ZERO *)
Definition tbefore (a b : Z) : bool := tsub a b <? 0.
(* truncated_second_bits *)
Definition ttrunc (t bits : Z) : Z :=
  if bits >=? 32 then 0 else t - t mod 2 ^ (bits + 32).
(* from_seconds_nanos_since_ntp_era(seconds: u32, nanos: u32) *)
Definition t_from_secs_nanos (secs nanos : Z) : Z :=
  wrap 64 (secs * 2 ^ 32 + (nanos * 2 ^ 32) / 1000000000).

(* ------------------------------------------------------------------ *)
(* NtpDuration (i64, saturating)                                       *)

Definition dadd (a b : Z) : Z := sat_i64 (a + b).      (* saturating_add *)
Definition dsub (a b : Z) : Z := sat_i64 (a - b).      (* saturating_sub *)
Definition dmul (a k : Z) : Z := sat_i64 (a * k).      (* saturating_mul(k as i64) *)

(* the code as it is today on the unrepaired tree:
   Neg: `-self.duration`, abs: `self.duration.abs()` (wrap in release),
   Div: `self.duration / (rhs as i64)` (panics on 0 and on MIN / -1) *)
Definition dneg_wrap (a : Z) : Z := to_signed 64 (- a).
Definition dabs_wrap (a : Z) : Z := to_signed 64 (Z.abs a).
Definition ddiv_unrepaired (a k : Z) : res Z :=
  if k =? 0 then Panic 1
  else if (a =? i64_min) && (k =? -1) then Panic 2
  else Ok (Z.quot a k).

(* the repaired code (branch fix-c32): saturating_neg, saturating_abs,
   saturating_div *)
Definition dneg (a : Z) : Z := sat_i64 (- a).
Definition dabs (a : Z) : Z := sat_i64 (Z.abs a).
Definition ddiv (a k : Z) : res Z :=
  if k =? 0 then Panic 1 else Ok (sat_i64 (Z.quot a k)).
Definition ddiv2 (a : Z) : Z := Z.quot a 2.
Definition dabs_diff (a b : Z) : Z := dabs (dsub a b).
Definition dltb (a b : Z) : bool := a <? b.
Definition dleb (a b : Z) : bool := a <=? b.

(* Mul<FrequencyTolerance>: (self * rhs.ppm) / 1_000_000   (ppm : u32) *)
Definition dmul_ppm (a ppm : Z) : Z := Z.quot (dmul a ppm) 1000000.

(* wire formats.  from_bits_short: (u32 as i64) << 16 ; from_bits_time32: << 4 *)
Definition d_from_short (w : Z) : Z := w * 2 ^ 16.
Definition d_from_time32 (w : Z) : Z := w * 2 ^ 4.
(* to_bits_short: assert!(d >= 0); > 0x0000FFFFFFFFFFFF saturates; else (d & 0x0000FFFFFFFF0000) >> 16 *)
Definition d_to_short (d : Z) : res Z :=
  if d <? 0 then Panic 3
  else if d >? 2 ^ 48 - 1 then Ok (2 ^ 32 - 1)
  else Ok ((d mod 2 ^ 48) / 2 ^ 16).
(* to_bits_time32: assert!(d >= 0); u32::try_from(d >> 4).unwrap_or(u32::MAX) *)
Definition d_to_time32 (d : Z) : res Z :=
  if d <? 0 then Panic 4
  else let q := d / 2 ^ 4 in if q <? 2 ^ 32 then Ok q else Ok (2 ^ 32 - 1).

(* as_seconds_nanos: ((d >> 32) as i32, (((d & 0xFFFFFFFF) * 10^9) >> 32) as u32) *)
Definition d_secs_nanos (d : Z) : Z * Z :=
  (to_signed 32 (d / 2 ^ 32), ((d mod 2 ^ 32) * 1000000000) / 2 ^ 32).

(* from_exponent(input: i8) *)
Definition d_from_exponent (e : Z) : Z :=
  if e >? 30 then i64_max
  else if (e >? 0) then 2 ^ 32 * 2 ^ e
  else if (e >=? -32) then 2 ^ 32 / 2 ^ (- e)
  else 0.

(* log2: i8::MIN if zero, else 31 - leading_zeros(d) ;  leading_zeros of a
   negative i64 is 0 *)
Definition d_log2 (d : Z) : Z :=
  if d =? 0 then -128
  else if d <? 0 then 31
  else 31 - (64 - (Z.log2 d + 1)).

(* from_system_duration(seconds: u64, nanos < 10^9):
   ((seconds << 32) + ((nanos << 32) / 10^9)) reinterpreted as i64 *)
Definition d_from_system (secs nanos : Z) : Z :=
  to_signed 64 (wrap 64 (wrap 64 (secs * 2 ^ 32) + (nanos * 2 ^ 32) / 1000000000)).

(* ------------------------------------------------------------------ *)
(* PollInterval (i8)                                                   *)

Definition poll_never : Z := 127.
Definition poll_from_byte (b : Z) : Z := to_signed 8 b.
Definition poll_as_byte (p : Z) : Z := wrap 8 p.
(* unrepaired: Self(self.0 + 1).min(limits.max) with a wrapping + in release *)
Definition poll_inc_wrap (p lmax : Z) : Z := Z.min (to_signed 8 (p + 1)) lmax.
Definition poll_dec_wrap (p lmin : Z) : Z := Z.max (to_signed 8 (p - 1)) lmin.
(* repaired: saturating_add(1) / saturating_sub(1) *)
Definition poll_inc (p lmax : Z) : Z := Z.min (sat_i8 (p + 1)) lmax.
Definition poll_dec (p lmin : Z) : Z := Z.max (sat_i8 (p - 1)) lmin.
Definition poll_force_inc (p : Z) : Z := sat_i8 (p + 1).
(* as_duration: 1 << clamp(p.saturating_add(32), 0, 62) *)
Definition poll_as_duration (p : Z) : Z :=
  let b := sat_i8 (p + 32) in
  2 ^ (if b <? 0 then 0 else if b >? 62 then 62 else b).
(* as_system_duration: Duration::from_secs(1 << clamp(p, 0, 31)) -> seconds *)
Definition poll_as_system_secs (p : Z) : Z :=
  2 ^ (if p <? 0 then 0 else if p >? 31 then 31 else p).

(* ------------------------------------------------------------------ *)
(* PTP  (statime-base): Timestamp u128 wrapping, Duration i128 saturating *)

Definition ptsub (a b : Z) : Z := to_signed 128 (wrap 128 (a - b)).
Definition ptadd (t d : Z) : Z := wrap 128 (t + wrap 128 d).
Definition ptsubd (t d : Z) : Z := wrap 128 (t - wrap 128 d).
Definition pdadd (a b : Z) : Z := sat_i128 (a + b).
Definition pdsub (a b : Z) : Z := sat_i128 (a - b).
Definition pdmul (a k : Z) : Z := sat_i128 (a * k).
(* saturating_div: panics on 0, MIN / -1 = MAX *)
Definition pddiv (a k : Z) : res Z :=
  if k =? 0 then Panic 1 else Ok (sat_i128 (Z.quot a k)).
(* Timestamp::from_seconds_nanos_since_unix_epoch(seconds: u64, nanos: u32):
   (u128::from(seconds) << 64) + ((u128::from(nanos) << 64) / 10^9) ; the + can only
   overflow (wrap in release) for nanos >= 10^9 *)
Definition pt_from_secs_nanos (secs nanos : Z) : Z :=
  wrap 128 (secs * 2 ^ 64 + (nanos * 2 ^ 64) / 1000000000).
(* Duration::from_seconds_nanos(seconds: i64, nanos: u32):
   ((seconds as i128) << 64) + (((nanos as i128) << 64) / 10^9) ; the + can only
   overflow (wrap in release) for nanos >= 10^9 *)
Definition pd_from_secs_nanos (secs nanos : Z) : Z :=
  to_signed 128 (secs * 2 ^ 64 + (nanos * 2 ^ 64) / 1000000000).
