(* Byte-level model of ntp-proto/src/nts/record.rs: NtsRecord::parse and
   NtsRecord::serialize.  Definitions only.

   Bytes are Z (0..255).  A parser takes the bytes still available from the
   reader and returns the result together with the bytes it has NOT consumed
   (in every outcome, so that "bytes consumed" is defined for errors too).
   The reader is an in-memory reader: a read past the end is the end of file.

   Enum-with-Unknown types of the Rust code (NextProtocol, AeadAlgorithm,
   ErrorCode, WarningCode) are modelled by their u16 value: From<u16> and
   Into<u16> are mutually inverse on the values the parser produces (the
   harness reports any value for which that fails). *)
From V Require Export Base.Prelude.
From V Require Import Gen.ConstNts.

(* std::io::ErrorKind of the parser errors *)
Definition E_EOF : Z := 1.    (* UnexpectedEof *)
Definition E_DATA : Z := 2.   (* InvalidData *)

Definition zlen {A} (l : list A) : Z := Z.of_nat (length l).
Definition u16 (hi lo : Z) : Z := hi * 256 + lo.          (* read_u16: big endian *)
Definition be16 (v : Z) : list Z := [v / 256; v mod 256]. (* write_u16 *)

(* ---- UTF-8 validation (core::str::from_utf8, Unicode table 3-7) ---- *)
Definition in_rng (lo hi b : Z) : bool := (lo <=? b) && (b <=? hi).
Definition cont (b : Z) : bool := in_rng 128 191 b.

Fixpoint utf8_valid (l : list Z) : bool :=
  match l with
  | [] => true
  | b0 :: r0 =>
    if b0 <? 128 then utf8_valid r0
    else if in_rng 194 223 b0 then
      match r0 with
      | b1 :: r1 => cont b1 && utf8_valid r1
      | _ => false
      end
    else if in_rng 224 239 b0 then
      match r0 with
      | b1 :: b2 :: r2 =>
        (if b0 =? 224 then in_rng 160 191 b1
         else if b0 =? 237 then in_rng 128 159 b1 else cont b1)
        && cont b2 && utf8_valid r2
      | _ => false
      end
    else if in_rng 240 244 b0 then
      match r0 with
      | b1 :: b2 :: b3 :: r3 =>
        (if b0 =? 240 then in_rng 144 191 b1
         else if b0 =? 244 then in_rng 128 143 b1 else cont b1)
        && cont b2 && cont b3 && utf8_valid r3
      | _ => false
      end
    else false
  end.

(* ---- records ---- *)
Inductive record :=
| EndOfMessage
| NextProtocolR (ids : list Z)
| ErrorR (code : Z)
| WarningR (code : Z)
| AeadAlgorithmR (ids : list Z)
| NewCookieR (data : list Z)
| ServerR (name : list Z)                 (* the UTF-8 bytes of the str *)
| PortR (port : Z)
| UnknownR (ty : Z) (critical : bool) (data : list Z)
| KeepAliveR
| SupportedNextProtocolListR (ids : list Z)
| SupportedAlgorithmListR (descs : list (Z * Z))   (* (id, keysize) *)
| FixedKeyRequestR (c2s s2c : list Z)
| NtpServerDenyR (name : list Z)
| AuthenticationR (key : list Z).

(* complete big-endian u16 values of a window; None when a byte is left over *)
Fixpoint u16s (w : list Z) : option (list Z) :=
  match w with
  | [] => Some []
  | [_] => None
  | hi :: lo :: r => match u16s r with Some l => Some (u16 hi lo :: l) | None => None end
  end.

Fixpoint pairs (l : list Z) : option (list (Z * Z)) :=
  match l with
  | [] => Some []
  | [_] => None
  | a :: b :: r => match pairs r with Some p => Some ((a, b) :: p) | None => None end
  end.

(* Body parsers.  [size] is the announced body size (the limit of the Take),
   [w] the bytes the Take can deliver: the first [size] bytes of what is
   available, fewer when the input ends early.  Result: outcome and the bytes
   of [w] left unread. *)
Definition truncated (size : Z) (w : list Z) : bool := zlen w <? size.

(* `while reader.read(&mut buf) != 0 {}` then `limit() != 0 => UnexpectedEof` *)
Definition body_discard (r : record) (size : Z) (w : list Z) : res record * list Z :=
  if truncated size w then (Err E_EOF, []) else (Ok r, []).

(* `while reader.limit() != 0 { push(read_u16()?) }`: every read_u16 takes two
   bytes or meets the end (of the body: one byte left; of the input) *)
Definition body_u16s (mk : list Z -> record) (size : Z) (w : list Z) : res record * list Z :=
  match u16s w with
  | Some l => if truncated size w then (Err E_EOF, []) else (Ok (mk l), [])
  | None => (Err E_EOF, [])
  end.

Definition body_pairs (mk : list (Z * Z) -> record) (size : Z) (w : list Z) : res record * list Z :=
  match u16s w with
  | Some l =>
    match pairs l with
    | Some p => if truncated size w then (Err E_EOF, []) else (Ok (mk p), [])
    | None => (Err E_EOF, [])
    end
  | None => (Err E_EOF, [])
  end.

(* `read_u16()?` then `limit() != 0 => InvalidData` *)
Definition body_one (mk : Z -> record) (size : Z) (w : list Z) : res record * list Z :=
  match w with
  | hi :: lo :: r => if size =? 2 then (Ok (mk (u16 hi lo)), r) else (Err E_DATA, r)
  | _ => (Err E_EOF, [])
  end.

(* `vec![0; limit]; read_exact` *)
Definition body_bytes (mk : list Z -> record) (size : Z) (w : list Z) : res record * list Z :=
  if truncated size w then (Err E_EOF, []) else (Ok (mk w), []).

(* `read_to_string` (reads to the end of the body, then validates) then
   `limit() != 0 => UnexpectedEof` *)
Definition body_string (mk : list Z -> record) (size : Z) (w : list Z) : res record * list Z :=
  if utf8_valid w then
    if truncated size w then (Err E_EOF, []) else (Ok (mk w), [])
  else (Err E_DATA, []).

(* n = limit / 2; read_exact c2s; read_exact s2c; `limit() != 0 => InvalidData` *)
Definition body_fixed (size : Z) (w : list Z) : res record * list Z :=
  let h := size / 2 in
  if zlen w <? 2 * h then (Err E_EOF, [])
  else
    let hn := Z.to_nat h in
    let rest := skipn hn (skipn hn w) in
    if size =? 2 * h then (Ok (FixedKeyRequestR (firstn hn w) (firstn hn (skipn hn w))), rest)
    else (Err E_DATA, rest).

Definition parse_body (rt : Z) (crit : bool) (size : Z) (w : list Z) : res record * list Z :=
  if rt =? RT_END_OF_MESSAGE then body_discard EndOfMessage size w
  else if rt =? RT_NEXT_PROTOCOL then body_u16s NextProtocolR size w
  else if rt =? RT_ERROR then body_one ErrorR size w
  else if rt =? RT_WARNING then body_one WarningR size w
  else if rt =? RT_AEAD_ALGORITHM then body_u16s AeadAlgorithmR size w
  else if rt =? RT_NEW_COOKIE then body_bytes NewCookieR size w
  else if rt =? RT_SERVER then body_string ServerR size w
  else if rt =? RT_PORT then body_one PortR size w
  else if rt =? RT_KEEP_ALIVE then body_discard KeepAliveR size w
  else if rt =? RT_SUPPORTED_NEXT_PROTOCOL_LIST then body_u16s SupportedNextProtocolListR size w
  else if rt =? RT_SUPPORTED_ALGORITHM_LIST then body_pairs SupportedAlgorithmListR size w
  else if rt =? RT_FIXED_KEY_REQUEST then body_fixed size w
  else if rt =? RT_NTP_SERVER_DENY then body_string NtpServerDenyR size w
  else if rt =? RT_AUTHENTICATION then body_string AuthenticationR size w
  else body_bytes (UnknownR rt crit) size w.

(* NtsRecord::parse.  `record_type & 0x8000 != 0` and `record_type & 0x7FFF`
   on a u16 are the comparison with and the remainder by 2^15. *)
Definition parse_record (inp : list Z) : res record * list Z :=
  match inp with
  | t1 :: t0 :: r1 =>
    match r1 with
    | s1 :: s0 :: r2 =>
      let ty := u16 t1 t0 in
      let size := u16 s1 s0 in
      let crit := CRITICAL_MASK <=? ty in
      let rt := ty mod (TYPE_MASK + 1) in
      let n := Z.to_nat size in
      let '(x, wrest) := parse_body rt crit size (firstn n r2) in
      (x, wrest ++ skipn n r2)
    | _ => (Err E_EOF, [])
    end
  | _ => (Err E_EOF, [])
  end.

(* ---- serialisation ---- *)
(* record_type(): `n | CRITICAL_BIT`; for Unknown the stored 15-bit type or-ed
   with the bit, which is an addition because the type is below 2^15 for every
   parsed record (wf_record) *)
Definition rec_type (r : record) : Z :=
  match r with
  | EndOfMessage => ST_END_OF_MESSAGE + CRITICAL_BIT
  | NextProtocolR _ => ST_NEXT_PROTOCOL + CRITICAL_BIT
  | ErrorR _ => ST_ERROR + CRITICAL_BIT
  | WarningR _ => ST_WARNING + CRITICAL_BIT
  | AeadAlgorithmR _ => ST_AEAD_ALGORITHM + CRITICAL_BIT
  | NewCookieR _ => ST_NEW_COOKIE
  | ServerR _ => ST_SERVER + CRITICAL_BIT
  | PortR _ => ST_PORT + CRITICAL_BIT
  | UnknownR ty c _ => ty + (if c then CRITICAL_BIT else 0)
  | KeepAliveR => ST_KEEP_ALIVE
  | SupportedNextProtocolListR _ => ST_SUPPORTED_NEXT_PROTOCOL_LIST + CRITICAL_BIT
  | SupportedAlgorithmListR _ => ST_SUPPORTED_ALGORITHM_LIST + CRITICAL_BIT
  | FixedKeyRequestR _ _ => ST_FIXED_KEY_REQUEST + CRITICAL_BIT
  | NtpServerDenyR _ => ST_NTP_SERVER_DENY
  | AuthenticationR _ => ST_AUTHENTICATION
  end.

Definition ser_pair (d : Z * Z) : list Z := be16 (fst d) ++ be16 (snd d).

Definition rec_body (r : record) : list Z :=
  match r with
  | EndOfMessage | KeepAliveR => []
  | NextProtocolR ids | AeadAlgorithmR ids | SupportedNextProtocolListR ids => flat_map be16 ids
  | ErrorR c | WarningR c | PortR c => be16 c
  | NewCookieR d | UnknownR _ _ d => d
  | ServerR s | NtpServerDenyR s | AuthenticationR s => s
  | SupportedAlgorithmListR ds => flat_map ser_pair ds
  | FixedKeyRequestR c2s s2c => c2s ++ s2c
  end.

(* NtsRecord::serialize, when body_size fits a u16 ([ser_fits]); otherwise the
   Rust code answers InvalidInput after having written the type *)
Definition ser_record (r : record) : list Z :=
  be16 (rec_type r) ++ be16 (zlen (rec_body r)) ++ rec_body r.
Definition ser_fits (r : record) : Prop := zlen (rec_body r) <= 65535.

(* ---- encoding of values for the correspondence (flat list of integers) ---- *)
Definition enc_bytes (b : list Z) : list Z := zlen b :: b.
Definition enc_pair (d : Z * Z) : list Z := [fst d; snd d].
Definition enc_record (r : record) : list Z :=
  match r with
  | EndOfMessage => [0]
  | NextProtocolR ids => 1 :: enc_bytes ids
  | ErrorR c => [2; c]
  | WarningR c => [3; c]
  | AeadAlgorithmR ids => 4 :: enc_bytes ids
  | NewCookieR d => 5 :: enc_bytes d
  | ServerR s => 6 :: enc_bytes s
  | PortR p => [7; p]
  | KeepAliveR => [8]
  | SupportedNextProtocolListR ids => 9 :: enc_bytes ids
  | SupportedAlgorithmListR ds => 10 :: zlen ds :: flat_map enc_pair ds
  | FixedKeyRequestR a b => 12 :: enc_bytes a ++ enc_bytes b
  | NtpServerDenyR s => 13 :: enc_bytes s
  | AuthenticationR s => 14 :: enc_bytes s
  | UnknownR ty c d => 99 :: ty :: (if c then 1 else 0) :: enc_bytes d
  end.

(* outcome of one parser run: [0; consumed] ++ value ++ re-serialisation,
   [1; error; consumed], [2] for a panic *)
Definition enc_outcome {A} (enc : A -> list Z) (ser : A -> list Z) (inp : list Z)
  (o : res A * list Z) : list Z :=
  let consumed := zlen inp - zlen (snd o) in
  match fst o with
  | Ok a => 0 :: consumed :: enc a ++ enc_bytes (ser a)
  | Err e => [1; e; consumed]
  | Panic _ => [2]
  end.

Definition run_record (inp : list Z) : list Z :=
  enc_outcome enc_record ser_record inp (parse_record inp).

Fixpoint zlist_eqb (a b : list Z) : bool :=
  match a, b with
  | [], [] => true
  | x :: a', y :: b' => (x =? y) && zlist_eqb a' b'
  | _, _ => false
  end.
