(* Model of ntp-proto/src/nts/messages.rs: Request::parse / serialize and
   KeyExchangeResponse::parse / serialize (and the three small response
   serialisers).  Definitions only.

   Ciphers (Box<dyn Cipher>) are their key bytes: AesSivCmac256/512::try_from
   succeeds exactly on KEY256/KEY512 bytes and key_bytes() returns them. *)
From V Require Export Model.NtsRecord.
From V Require Import Gen.ConstNts.
From V Require Base.NtsHex.

(* NtsError classes (payload-carrying ones: class + 16 * payload) *)
Definition E_INVALID : Z := 3.
Definition E_CRITICAL : Z := 4.
Definition E_NO_PROTOCOL : Z := 5.
Definition E_NO_ALGORITHM : Z := 6.
Definition E_WARNING (c : Z) : Z := 7 + 16 * c.
Definition E_ERROR (c : Z) : Z := 8 + 16 * c.
Definition E_AEAD_UNSUPPORTED (v : Z) : Z := 10 + 16 * v.
Definition E_KEYSIZE : Z := 11.
Definition E_NOT_PERMITTED : Z := 12.

(* panic sites *)
Definition panic_fuel : Z := 3000.          (* model artefact: loop fuel exhausted *)
Definition panic_algorithms_0 : Z := 3001.  (* messages.rs `algorithms[0]` *)
Definition panic_protocols_0 : Z := 3002.   (* messages.rs `protocols[0]` *)

Definition KEY256 : Z := 32.
Definition KEY512 : Z := 64.

(* ---- the record loop shared by both message parsers ---- *)
Inductive step_result (St : Type) :=
| Continue (s : St)
| Break
| Stop (e : Z).
Arguments Continue {St} s.
Arguments Break {St}.
Arguments Stop {St} e.

(* `loop { let record = NtsRecord::parse(&mut reader).await?; match record {..} }`
   The fuel is a model artefact (every record takes at least four bytes);
   running out of it is reported as a panic so that the totality theorem
   excludes it. *)
Fixpoint msg_loop {St} (step : St -> record -> step_result St) (fuel : nat) (st : St)
  (inp : list Z) : res St * list Z :=
  match fuel with
  | O => (Panic panic_fuel, inp)
  | S f =>
    match parse_record inp with
    | (Ok r, rest) =>
      match step st r with
      | Continue st' => msg_loop step f st' rest
      | Break => (Ok st, rest)
      | Stop e => (Err e, rest)
      end
    | (Err e, rest) => (Err e, rest)
    | (Panic s, rest) => (Panic s, rest)
    end
  end.

(* `reader.take(MAX_MESSAGE_SIZE)`: the parser sees at most the first 4096
   bytes; what it leaves unread of them stays in front of the rest *)
Definition cap : nat := Z.to_nat MAX_MESSAGE_SIZE.
Definition capped {A} (raw : list Z -> res A * list Z) (b : list Z) : res A * list Z :=
  let '(x, wrest) := raw (firstn cap b) in (x, wrest ++ skipn cap b).

Definition is_some {A} (o : option A) : bool := match o with Some _ => true | None => false end.

(* ---- Request ---- *)
Inductive request :=
| KeyExchange (algorithms protocols : list Z) (denied : list (list Z))
| FixedKey (auth c2s s2c : list Z) (algorithm protocol : Z) (keep_alive : bool)
| Support (auth : list Z) (wants_protocols wants_algorithms keep_alive : bool).

Record rstate := mkR {
  r_protocols : option (list Z);
  r_algorithms : option (list Z);
  r_auth : option (list Z);
  r_denied : list (list Z);
  r_wp : bool;
  r_wa : bool;
  r_ka : bool;
  r_keys : option (list Z * list Z) }.

Definition rinit : rstate := mkR None None None [] false false false None.

Definition req_step (st : rstate) (r : record) : step_result rstate :=
  match r with
  | EndOfMessage => Break
  | NextProtocolR ids =>
    if is_some (r_protocols st) then Stop E_INVALID
    else Continue (mkR (Some ids) (r_algorithms st) (r_auth st) (r_denied st) (r_wp st) (r_wa st) (r_ka st) (r_keys st))
  | AeadAlgorithmR ids =>
    if is_some (r_algorithms st) then Stop E_INVALID
    else Continue (mkR (r_protocols st) (Some ids) (r_auth st) (r_denied st) (r_wp st) (r_wa st) (r_ka st) (r_keys st))
  | FixedKeyRequestR c2s s2c =>
    if is_some (r_keys st) then Stop E_INVALID
    else Continue (mkR (r_protocols st) (r_algorithms st) (r_auth st) (r_denied st) (r_wp st) (r_wa st) (r_ka st) (Some (c2s, s2c)))
  | SupportedAlgorithmListR _ =>
    if r_wa st then Stop E_INVALID
    else Continue (mkR (r_protocols st) (r_algorithms st) (r_auth st) (r_denied st) (r_wp st) true (r_ka st) (r_keys st))
  | SupportedNextProtocolListR _ =>
    if r_wp st then Stop E_INVALID
    else Continue (mkR (r_protocols st) (r_algorithms st) (r_auth st) (r_denied st) true (r_wa st) (r_ka st) (r_keys st))
  | NtpServerDenyR d =>
    Continue (mkR (r_protocols st) (r_algorithms st) (r_auth st) (r_denied st ++ [d]) (r_wp st) (r_wa st) (r_ka st) (r_keys st))
  | AuthenticationR k =>
    if is_some (r_auth st) then Stop E_INVALID
    else Continue (mkR (r_protocols st) (r_algorithms st) (Some k) (r_denied st) (r_wp st) (r_wa st) (r_ka st) (r_keys st))
  | KeepAliveR =>
    Continue (mkR (r_protocols st) (r_algorithms st) (r_auth st) (r_denied st) (r_wp st) (r_wa st) true (r_keys st))
  | UnknownR _ true _ => Stop E_CRITICAL
  | UnknownR _ false _ | ServerR _ | PortR _ => Continue st
  | ErrorR _ | WarningR _ | NewCookieR _ => Stop E_INVALID
  end.

Definition key_size_of (alg : Z) : option Z :=
  if alg =? AEAD_AES_SIV_CMAC_256 then Some KEY256
  else if alg =? AEAD_AES_SIV_CMAC_512 then Some KEY512
  else None.

Definition req_finish (st : rstate) : res request :=
  if r_wa st || r_wp st then
    match r_auth st, r_keys st, r_protocols st, r_algorithms st with
    | Some a, None, None, None => Ok (Support a (r_wp st) (r_wa st) (r_ka st))
    | _, _, _, _ => Err E_INVALID
    end
  else
    match r_keys st with
    | Some (c2s, s2c) =>
      match r_auth st, r_protocols st, r_algorithms st with
      | Some a, Some ps, Some als =>
        if negb (zlen ps =? 1) || negb (zlen als =? 1) then Err E_INVALID
        else
          match als with
          | [] => Panic panic_algorithms_0                 (* algorithms[0] *)
          | alg :: _ =>
            match key_size_of alg with
            | None => Err (E_AEAD_UNSUPPORTED alg)
            | Some k =>
              if (zlen c2s =? k) && (zlen s2c =? k) then
                match ps with
                | [] => Panic panic_protocols_0            (* protocols[0] *)
                | p :: _ => Ok (FixedKey a c2s s2c alg p (r_ka st))
                end
              else Err E_KEYSIZE
            end
          end
      | _, _, _ => Err E_INVALID
      end
    | None =>
      match r_protocols st, r_algorithms st with
      | Some ps, Some als => Ok (KeyExchange als ps (r_denied st))
      | _, _ => Err E_INVALID
      end
    end.

Definition parse_request_raw (inp : list Z) : res request * list Z :=
  let '(x, rest) := msg_loop req_step (S (length inp)) rinit inp in
  (res_bind x req_finish, rest).

Definition parse_request : list Z -> res request * list Z := capped parse_request_raw.

Definition ser_request (q : request) : list Z :=
  match q with
  | KeyExchange als ps denied =>
    ser_record (NextProtocolR ps) ++ ser_record (AeadAlgorithmR als)
    ++ flat_map (fun d => ser_record (NtpServerDenyR d)) denied
    ++ ser_record EndOfMessage
  | FixedKey a c2s s2c alg p ka =>
    ser_record (AuthenticationR a) ++ ser_record (FixedKeyRequestR c2s s2c)
    ++ ser_record (NextProtocolR [p]) ++ ser_record (AeadAlgorithmR [alg])
    ++ (if ka then ser_record KeepAliveR else [])
    ++ ser_record EndOfMessage
  | Support a wp wa ka =>
    ser_record (AuthenticationR a)
    ++ (if wp then ser_record (SupportedNextProtocolListR []) else [])
    ++ (if wa then ser_record (SupportedAlgorithmListR []) else [])
    ++ (if ka then ser_record KeepAliveR else [])
    ++ ser_record EndOfMessage
  end.

(* ---- KeyExchangeResponse ---- *)
Record response := mkResp {
  p_protocol : Z;
  p_algorithm : Z;
  p_cookies : list (list Z);
  p_server : option (list Z);
  p_port : option Z;
  p_keep_alive : bool }.

Record pstate := mkP {
  s_protocol : option Z;
  s_algorithm : option Z;
  s_cookies : list (list Z);
  s_server : option (list Z);
  s_port : option Z;
  s_ka : bool }.

Definition pinit : pstate := mkP None None [] None None false.

Definition resp_step (st : pstate) (r : record) : step_result pstate :=
  match r with
  | EndOfMessage => Break
  | NextProtocolR ids =>
    if is_some (s_protocol st) then Stop E_INVALID
    else match ids with
         | [] => Stop E_NO_PROTOCOL
         | [id] => Continue (mkP (Some id) (s_algorithm st) (s_cookies st) (s_server st) (s_port st) (s_ka st))
         | _ => Stop E_INVALID
         end
  | AeadAlgorithmR ids =>
    if is_some (s_algorithm st) then Stop E_INVALID
    else match ids with
         | [] => Stop E_NO_ALGORITHM
         | [id] => Continue (mkP (s_protocol st) (Some id) (s_cookies st) (s_server st) (s_port st) (s_ka st))
         | _ => Stop E_INVALID
         end
  | NewCookieR d =>
    if zlen (s_cookies st) <? DEFAULT_NUMBER_OF_COOKIES
    then Continue (mkP (s_protocol st) (s_algorithm st) (s_cookies st ++ [d]) (s_server st) (s_port st) (s_ka st))
    else Continue st
  | ServerR n =>
    if is_some (s_server st) then Stop E_INVALID
    else Continue (mkP (s_protocol st) (s_algorithm st) (s_cookies st) (Some n) (s_port st) (s_ka st))
  | PortR p =>
    if is_some (s_port st) then Stop E_INVALID
    else Continue (mkP (s_protocol st) (s_algorithm st) (s_cookies st) (s_server st) (Some p) (s_ka st))
  | KeepAliveR => Continue (mkP (s_protocol st) (s_algorithm st) (s_cookies st) (s_server st) (s_port st) true)
  | ErrorR c => Stop (E_ERROR c)
  | WarningR c => Stop (E_WARNING c)
  | UnknownR _ true _ => Stop E_CRITICAL
  | UnknownR _ false _ | AuthenticationR _ => Continue st
  | NtpServerDenyR _ | FixedKeyRequestR _ _ | SupportedAlgorithmListR _
  | SupportedNextProtocolListR _ => Stop E_INVALID
  end.

Definition resp_finish (st : pstate) : res response :=
  match s_protocol st, s_algorithm st with
  | Some p, Some a => Ok (mkResp p a (s_cookies st) (s_server st) (s_port st) (s_ka st))
  | _, _ => Err E_INVALID
  end.

Definition parse_response_raw (inp : list Z) : res response * list Z :=
  let '(x, rest) := msg_loop resp_step (S (length inp)) pinit inp in
  (res_bind x resp_finish, rest).

Definition parse_response : list Z -> res response * list Z := capped parse_response_raw.

Definition ser_response (p : response) : list Z :=
  ser_record (NextProtocolR [p_protocol p]) ++ ser_record (AeadAlgorithmR [p_algorithm p])
  ++ flat_map (fun c => ser_record (NewCookieR c)) (p_cookies p)
  ++ (match p_server p with Some n => ser_record (ServerR n) | None => [] end)
  ++ (match p_port p with Some v => ser_record (PortR v) | None => [] end)
  ++ (if p_keep_alive p then ser_record KeepAliveR else [])
  ++ ser_record EndOfMessage.

(* NoOverlapResponse, ErrorResponse, SupportsResponse serialisers *)
Definition ser_no_overlap_protocol : list Z :=
  ser_record (NextProtocolR []) ++ ser_record EndOfMessage.
Definition ser_no_overlap_algorithm (protocol : Z) : list Z :=
  ser_record (NextProtocolR [protocol]) ++ ser_record (AeadAlgorithmR []) ++ ser_record EndOfMessage.
Definition ser_error_response (code : Z) : list Z :=
  ser_record (ErrorR code) ++ ser_record EndOfMessage.
Definition ser_supports (algs : option (list (Z * Z))) (protos : option (list Z)) (ka : bool) : list Z :=
  (match algs with Some l => ser_record (SupportedAlgorithmListR l) | None => [] end)
  ++ (match protos with Some l => ser_record (SupportedNextProtocolListR l) | None => [] end)
  ++ (if ka then ser_record KeepAliveR else [])
  ++ ser_record EndOfMessage.

(* ---- encodings for the correspondence ---- *)
Definition b2z (b : bool) : Z := if b then 1 else 0.
Definition enc_request (q : request) : list Z :=
  match q with
  | KeyExchange als ps denied =>
    0 :: enc_bytes als ++ enc_bytes ps ++ zlen denied :: flat_map enc_bytes denied
  | FixedKey a c2s s2c alg p ka =>
    1 :: enc_bytes a ++ enc_bytes c2s ++ enc_bytes s2c ++ [alg; p; b2z ka]
  | Support a wp wa ka => 2 :: enc_bytes a ++ [b2z wp; b2z wa; b2z ka]
  end.

Definition enc_opt {A} (enc : A -> list Z) (o : option A) : list Z :=
  match o with Some a => 1 :: enc a | None => [0] end.
Definition enc_response (p : response) : list Z :=
  p_protocol p :: p_algorithm p :: zlen (p_cookies p) :: flat_map enc_bytes (p_cookies p)
  ++ enc_opt enc_bytes (p_server p) ++ enc_opt (fun v => [v]) (p_port p) ++ [b2z (p_keep_alive p)].

Definition run_request (inp : list Z) : list Z :=
  enc_outcome enc_request ser_request inp (parse_request inp).
Definition run_response (inp : list Z) : list Z :=
  enc_outcome enc_response ser_response inp (parse_response inp).

(* entry point of the correspondence: op 0 record, 1 request, 2 response *)
Definition run30 (c : Z * list Z) : list Z :=
  let '(op, inp) := c in
  if op =? 0 then run_record inp
  else if op =? 1 then run_request inp
  else run_response inp.

(* the same on the compact transport encoding of the cases files (hex digits
   in chunks: one very long string literal overflows the stack of coqc) *)
Definition run30s (c : Z * list String.string) : list Z :=
  run30 (fst c, flat_map NtsHex.hex_bytes (snd c)).
