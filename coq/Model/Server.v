(* Model of ntp-proto/src/server.rs: Server::{intended_action, handle_inner, handle},
   the decision structure over a summary of the parsed request, and of
   ntpd/src/daemon/server.rs: ServerStats::register (the eleven counters).
   Definitions only.

   What is NOT modelled here (inputs of the model instead):
   - the byte-level decoder NtpPacket::deserialize (properties C23/C24): the
     request is given as its parse summary [request];
   - response construction and serialisation (C16-C19): the answer is given as
     its kind, the outcome of `packet.serialize` into the caller's buffer as the
     bit [e_ser_ok];
   - IpFilter::is_in (C31): the two membership bits;
   - Instant::now(), the RandomState hash: [e_now] and the function [h];
   - the clock, the RwLock, the key set and the published system snapshot: the
     bits [e_clock_ok], [e_lock_ok], [e_keys_ok], [e_root_delay_nonneg], each
     guarding the explicit panic site it can trigger. *)
From V Require Export Base.Prelude Model.RateCache.

Inductive version := V3 | V4 | V5.
Inductive faction := FIgnore | FDeny.                                  (* FilterAction *)
Inductive response := RNak | RDeny | RIgnore | RProvideTime.           (* ServerResponse *)
Inductive reason := RateLimit | ParseError | InvalidCrypto | InternalError | Policy.  (* ServerReason *)
Inductive parse := POk | PDecrypt | PErr.    (* Ok / Err(DecryptError(packet)) / any other Err *)

Definition version_eqb (a b : version) : bool :=
  match a, b with V3, V3 | V4, V4 | V5, V5 => true | _, _ => false end.
Definition response_eqb (a b : response) : bool :=
  match a, b with RNak, RNak | RDeny, RDeny | RIgnore, RIgnore | RProvideTime, RProvideTime => true | _, _ => false end.
Definition version_u8 (v : version) : Z := match v with V3 => 3 | V4 => 4 | V5 => 5 end.
Definition response_of_action (a : faction) : response :=     (* impl From<FilterAction> for ServerResponse *)
  match a with FIgnore => RIgnore | FDeny => RDeny end.

(* summary of a datagram as the handler sees it *)
Record request := {
  r_fbv : Z;          (* fallback_message_version: bits 3..5 of the first byte, 0 for the empty datagram *)
  r_parse : parse;
  r_ver : version;    (* packet.version(), meaningful unless r_parse = PErr *)
  r_client : bool;    (* packet.mode() == Client, meaningful unless r_parse = PErr *)
  r_cookie : bool     (* the decoder returned Some(cookie): the NTS field authenticated under a server key *)
}.

Record config := {
  c_deny_action : faction;
  c_allow_action : faction;
  c_require_nts : option faction;
  c_accepted : list version;
  c_cutoff : Z
}.

(* everything else a call depends on *)
Record env := {
  e_addr : Z;                  (* the client address (numbered) *)
  e_in_deny : bool;            (* denyfilter.is_in(client_ip) *)
  e_in_allow : bool;           (* allowfilter.is_in(client_ip) *)
  e_now : Z;                   (* Instant::now() *)
  e_ser_ok : bool;             (* the built answer fits the caller's buffer (serialize returns Ok) *)
  e_buf_ge4 : bool;            (* the caller's buffer has room for the first four header bytes (written before root_delay) *)
  e_lock_ok : bool;            (* server_info.read() is not poisoned *)
  e_clock_ok : bool;           (* clock.now() returns Ok *)
  e_keys_ok : bool;            (* keyset: primary < |keys| and encryption of a cookie succeeds *)
  e_root_delay_nonneg : bool   (* published root_delay >= 0 *)
}.

Inductive answer := ATime | ADenyKiss | ANak.
Inductive output := OIgnore | ORespond (a : answer).
Definition registration := (Z * bool * reason * response)%type.   (* register(version, nts, reason, response) *)

Record result := { o_cache : cache; o_regs : list registration; o_out : output }.

(* explicit panic sites on the path of Server::handle (besides panic_cache_index) *)
Definition panic_lock_poisoned : Z := 2002.        (* self.server_info.read().unwrap() *)
Definition panic_unreachable_ignore : Z := 2003.   (* ServerResponse::Ignore => unreachable!() *)
Definition panic_nts_v3 : Z := 2004.               (* unreachable!("NTS shouldn't work with NTPv3") x3 *)
Definition panic_clock : Z := 2005.                (* clock.now().expect("Failed to read time") *)
Definition panic_keys : Z := 2006.                 (* self.keys[self.primary as usize] / expect("Failed to encrypt cookie") *)
Definition panic_root_delay : Z := 2007.           (* assert!(self.duration >= 0) in to_bits_short / to_bits_time32 *)

(* intended_action: deny list, then allow list, then the rate limit, then accept.
   The cache is consulted (and written) only in the third branch. *)
Definition intended_action (h : Z -> Z) (cfg : config) (c : cache) (e : env)
  : res (cache * response * reason) :=
  if e_in_deny e then Ok (c, response_of_action (c_deny_action cfg), Policy)
  else if negb (e_in_allow e) then Ok (c, response_of_action (c_allow_action cfg), Policy)
  else
    do x <- is_allowed h c (e_addr e) (e_now e) (c_cutoff cfg);
    let '(c', ok) := x in
    if negb ok then Ok (c', RIgnore, RateLimit) else Ok (c', RProvideTime, Policy).

Definition ignore_with (c : cache) (v : Z) (nts : bool) (why : reason) : res result :=
  Ok {| o_cache := c; o_regs := [(v, nts, why, RIgnore)]; o_out := OIgnore |}.

(* the part of handle_inner after a packet was obtained, and `handle`'s serialisation step *)
Definition respond (cfg : config) (c : cache) (e : env) (rq : request)
  (action : response) (why : reason) (cookie : bool) : res result :=
  let v := r_ver rq in
  if negb (existsb (version_eqb v) (c_accepted cfg)) then ignore_with c (version_u8 v) false Policy
  else
    let nts := cookie || response_eqb action RNak in
    let after_require_nts : option (response * reason) :=
      match nts, c_require_nts cfg with
      | false, Some FIgnore => None
      | false, Some FDeny => Some (RDeny, Policy)
      | _, _ => Some (action, why)
      end in
    match after_require_nts with
    | None => ignore_with c (version_u8 v) nts Policy
    | Some (action, why) =>
      if negb (e_lock_ok e) then Panic panic_lock_poisoned
      else
        let built : res answer :=
          match action with
          | RNak => match v with V3 => Panic panic_nts_v3 | _ => Ok ANak end
          | RDeny => if cookie then match v with V3 => Panic panic_nts_v3 | _ => Ok ADenyKiss end
                     else Ok ADenyKiss
          | RProvideTime =>
            if cookie then
              match v with
              | V3 => Panic panic_nts_v3
              | _ => if negb (e_clock_ok e) then Panic panic_clock
                     else if negb (e_keys_ok e) then Panic panic_keys
                     else Ok ATime
              end
            else if negb (e_clock_ok e) then Panic panic_clock else Ok ATime
          | RIgnore => Panic panic_unreachable_ignore
          end in
        do a <- built;
        (* packet.serialize: the header writer asserts root_delay >= 0; kiss answers carry root_delay 0 *)
        if match a with ATime => e_buf_ge4 e && negb (e_root_delay_nonneg e) | _ => false end then Panic panic_root_delay
        else if e_ser_ok e then
          Ok {| o_cache := c; o_regs := [(version_u8 v, nts, why, action)]; o_out := ORespond a |}
        else ignore_with c (version_u8 v) nts InternalError
    end.

Definition handle (h : Z -> Z) (cfg : config) (c : cache) (e : env) (rq : request) : res result :=
  do x <- intended_action h cfg c e;
  let '(c', action, why) := x in
  if response_eqb action RIgnore then ignore_with c' (r_fbv rq) false why
  else
    match r_parse rq with
    | POk =>
      if r_client rq then respond cfg c' e rq action why (r_cookie rq)
      else ignore_with c' (r_fbv rq) false ParseError
    | PDecrypt =>
      (* only client requests are ever answered, also when they fail to authenticate *)
      if negb (r_client rq) then ignore_with c' (r_fbv rq) false ParseError
      else if negb (response_eqb action RDeny) then respond cfg c' e rq RNak InvalidCrypto false
      else respond cfg c' e rq action why false
    | PErr => ignore_with c' (r_fbv rq) false ParseError
    end.

(* a history of datagrams through one server *)
Fixpoint handle_all (h : Z -> Z) (cfg : config) (c : cache) (l : list (env * request))
  : res (cache * list result) :=
  match l with
  | [] => Ok (c, [])
  | (e, rq) :: rest =>
    do r <- handle h cfg c e rq;
    do y <- handle_all h cfg (o_cache r) rest;
    Ok (fst y, r :: snd y)
  end.

(* ------------------------------------------------------------------------- *)
(* ntpd/src/daemon/server.rs: impl ServerStatHandler for ServerStats          *)

Record stats := {
  received : Z; accepted : Z; denied : Z; ignored : Z; rate_limited : Z; send_errors : Z;
  nts_received : Z; nts_accepted : Z; nts_denied : Z; nts_rate_limited : Z; nts_nak : Z
}.

Definition stats0 : stats := {|
  received := 0; accepted := 0; denied := 0; ignored := 0; rate_limited := 0; send_errors := 0;
  nts_received := 0; nts_accepted := 0; nts_denied := 0; nts_rate_limited := 0; nts_nak := 0 |}.

Definition is_rate (w : reason) : bool := match w with RateLimit => true | _ => false end.

(* counters are AtomicU64 with fetch_add: wrap at 2^64 *)
Definition inc (z : Z) : Z := wrap 64 (z + 1).

Definition register (s : stats) (r : registration) : stats :=
  let '(_, nts, why, resp) := r in
  let s1 := {| received := inc (received s);
               accepted := match resp with RProvideTime => inc (accepted s) | _ => accepted s end;
               denied := match resp with RDeny => inc (denied s) | _ => denied s end;
               ignored := match resp with RIgnore => if is_rate why then ignored s else inc (ignored s) | _ => ignored s end;
               rate_limited := match resp with RIgnore => if is_rate why then inc (rate_limited s) else rate_limited s | _ => rate_limited s end;
               send_errors := send_errors s;
               nts_received := nts_received s; nts_accepted := nts_accepted s; nts_denied := nts_denied s;
               nts_rate_limited := nts_rate_limited s;
               nts_nak := match resp with RNak => inc (nts_nak s) | _ => nts_nak s end |} in
  if nts then
    {| received := received s1; accepted := accepted s1; denied := denied s1; ignored := ignored s1;
       rate_limited := rate_limited s1; send_errors := send_errors s1;
       nts_received := inc (nts_received s1);
       nts_accepted := match resp with RProvideTime => inc (nts_accepted s1) | _ => nts_accepted s1 end;
       nts_denied := match resp with RDeny => inc (nts_denied s1) | _ => nts_denied s1 end;
       nts_rate_limited := match resp with RIgnore => if is_rate why then inc (nts_rate_limited s1) else nts_rate_limited s1 | _ => nts_rate_limited s1 end;
       nts_nak := nts_nak s1 |}
  else s1.

Definition register_all (s : stats) (l : list registration) : stats := fold_left register l s.

(* ------------------------------------------------------------------------- *)
(* encodings for the correspondence                                           *)

Definition version_of_code (z : Z) : version := match z with 3 => V3 | 5 => V5 | _ => V4 end.
Definition parse_of_code (z : Z) : parse := match z with 0 => POk | 1 => PDecrypt | _ => PErr end.
Definition faction_of_code (z : Z) : faction := match z with 1 => FDeny | _ => FIgnore end.
Definition reason_code (w : reason) : Z :=
  match w with RateLimit => 0 | ParseError => 1 | InvalidCrypto => 2 | InternalError => 3 | Policy => 4 end.
Definition reason_of_code (z : Z) : reason :=
  match z with 0 => RateLimit | 1 => ParseError | 2 => InvalidCrypto | 3 => InternalError | _ => Policy end.
Definition response_code (r : response) : Z :=
  match r with RNak => 0 | RDeny => 1 | RIgnore => 2 | RProvideTime => 3 end.
Definition response_of_code (z : Z) : response :=
  match z with 0 => RNak | 1 => RDeny | 2 => RIgnore | _ => RProvideTime end.
Definition bool_of (z : Z) : bool := negb (z =? 0).
Definition zb (b : bool) : Z := if b then 1 else 0.

(* answer kinds as the harness prints them: 0 nothing, 1 time, 3 DENY kiss, 5 NTS NAK *)
Definition output_code (o : output) : Z :=
  match o with OIgnore => 0 | ORespond ATime => 1 | ORespond ADenyKiss => 3 | ORespond ANak => 5 end.

(* one call: [fbv; parse; ver; client; cookie;  addr; in_deny; in_allow; now; ser_ok; buffer >= 4]  *)
Definition op_of (l : list Z) : env * request :=
  match l with
  | [fbv; p; v; cl; ck; a; d; al; now; ser; b4] =>
    ({| e_addr := a; e_in_deny := bool_of d; e_in_allow := bool_of al; e_now := now; e_ser_ok := bool_of ser;
        e_buf_ge4 := bool_of b4;
        e_lock_ok := true; e_clock_ok := true; e_keys_ok := true; e_root_delay_nonneg := true |},
     {| r_fbv := fbv; r_parse := parse_of_code p; r_ver := version_of_code v; r_client := bool_of cl; r_cookie := bool_of ck |})
  | _ => ({| e_addr := 0; e_in_deny := true; e_in_allow := false; e_now := 0; e_ser_ok := false; e_buf_ge4 := false;
             e_lock_ok := true; e_clock_ok := true; e_keys_ok := true; e_root_delay_nonneg := true |},
          {| r_fbv := 0; r_parse := PErr; r_ver := V4; r_client := false; r_cookie := false |})
  end.

Definition with_state (clock_ok root_ok : bool) (x : env * request) : env * request :=
  let '(e, rq) := x in
  ({| e_addr := e_addr e; e_in_deny := e_in_deny e; e_in_allow := e_in_allow e; e_now := e_now e;
      e_ser_ok := e_ser_ok e; e_buf_ge4 := e_buf_ge4 e; e_lock_ok := true; e_clock_ok := clock_ok; e_keys_ok := true;
      e_root_delay_nonneg := root_ok |}, rq).

(* a result: [output kind; number of registrations; then (version, nts, reason, response) each] *)
Definition result_code (r : result) : list Z :=
  output_code (o_out r) :: Z.of_nat (length (o_regs r)) ::
  flat_map (fun g : registration => let '(v, n, w, a) := g in [v; zb n; reason_code w; response_code a]) (o_regs r).

(* a scenario: configuration [deny action; allow action; require_nts (0 none,1 ignore,2 deny); cache size;
   cutoff; clock ok; root delay >= 0], accepted versions, slot table, calls.
   Output: per call the result code; [[-2]] alone when the model panics. *)
Definition scenario_run (inp : list Z * list Z * list (Z * Z) * list (list Z)) : list (list Z) :=
  let '(c, acc, tbl, ops) := inp in
  match c with
  | [da; aa; rn; n; cutoff; clock_ok; root_ok] =>
    let cfg := {| c_deny_action := faction_of_code da; c_allow_action := faction_of_code aa;
                  c_require_nts := match rn with 0 => None | 1 => Some FIgnore | _ => Some FDeny end;
                  c_accepted := map version_of_code acc; c_cutoff := cutoff |} in
    match handle_all (table_hash tbl) cfg (new_cache n)
            (map (fun o => with_state (bool_of clock_ok) (bool_of root_ok) (op_of o)) ops) with
    | Ok (_, rs) => map result_code rs
    | _ => [[-2]]
    end
  | _ => [[-3]]
  end.

Fixpoint zll_eqb (x y : list (list Z)) : bool :=
  match x, y with
  | [], [] => true
  | a :: r, b :: s => zlist_eqb a b && zll_eqb r s
  | _, _ => false
  end.

(* ServerStats: a list of (nts, reason, response) codes -> the eleven counters *)
Definition stats_run (l : list (Z * Z * Z)) : list Z :=
  let s := register_all stats0 (map (fun x => let '(n, w, a) := x in (0, bool_of n, reason_of_code w, response_of_code a)) l) in
  [received s; accepted s; denied s; ignored s; rate_limited s; send_errors s;
   nts_received s; nts_accepted s; nts_denied s; nts_rate_limited s; nts_nak s].
