(* Model of the controller message loop:
     ntp-proto/src/algorithm/mod.rs   TimeSyncControllerWrapper::run (one unbounded FIFO channel of
                                      (ClockId, SourceMessage | UsabilityChange | Dropped)), add_source,
                                      the source wrappers (send in program order, Dropped from Drop)
     ntp-proto/src/algorithm/kalman/mod.rs   add_source / remove_source / source_update /
                                      source_message / update_clock (early return, progress, candidate
                                      filter, select, combine, clock calls, steer_offset /
                                      steer_frequency / change_desired_frequency) and

                                      time_update (the timer path: ends a slew)
     ntp-proto/src/algorithm/mod.rs   the single-shot sleeper of `run` (armed by an update that returns
                                      next_update = Some(..), fires once, calls time_update)
   Definitions only.

   What is abstract: the float state of a snapshot (only its identity [snap_serial], its filter
   time and the interval keys select needs are kept; the rewriting of the stored snapshots by
   steering -- process_offset_steering / process_frequency_steering -- is not modelled), and the
   three functions of the selected snapshots that are float computations -- selection, the
   comparisons of the steering decision, leap vote -- which are the oracles of a [world];
   [real_world] / [tape_world] instantiate them with Model/Select.v and Model/Combine.v for the
   correspondence. *)
From V Require Export Base.Prelude.
From V Require Import Model.Select Model.Combine.

Record snap := mkSnap {
  snap_serial : Z;      (* which measurement of its source this is (identity of the message) *)
  snap_time : Z;        (* state.time, u64 *)
  snap_update : Z;      (* last_update, u64: the time update_clock is run for *)
  snap_leap : Z;        (* leap indicator code 0..4 *)
  snap_cand : cand      (* id, periodic, synchronised, interval keys *)
}.
Definition snap_id (s : snap) : Z := c_id (snap_cand s).
Definition with_time (t : Z) (s : snap) : snap :=
  mkSnap (snap_serial s) t (snap_update s) (snap_leap s) (snap_cand s).

(* sources: HashMap<ClockId, (Option<SourceSnapshot>, bool)> *)
Record entry := mkEntry { e_snap : option snap; e_usable : bool }.
Definition cmap : Type := list (Z * entry).

Fixpoint lookup (i : Z) (m : cmap) : option entry :=
  match m with [] => None | (j, e) :: r => if j =? i then Some e else lookup i r end.
Fixpoint remove (i : Z) (m : cmap) : cmap :=
  match m with [] => [] | (j, e) :: r => if j =? i then remove i r else (j, e) :: remove i r end.
Definition update (i : Z) (f : entry -> entry) (m : cmap) : cmap :=
  map (fun je => if fst je =? i then (fst je, f (snd je)) else je) m.
Definition insert (i : Z) (e : entry) (m : cmap) : cmap := (i, e) :: remove i m.

Record ctl := mkCtl {
  c_map : cmap;
  c_startup : bool;     (* in_startup *)
  c_slew : bool;        (* desired_freq != 0.0: a slew is in progress *)
  c_nsteer : nat        (* ghost: number of consensus steps so far (index of the steering oracle) *)
}.
Definition ctl_init : ctl := mkCtl [] true false 0.
Definition with_map (m : cmap) (c : ctl) : ctl := mkCtl m (c_startup c) (c_slew c) (c_nsteer c).

(* source-task operations and system events *)
Inductive op := Measure (s : snap) | SetUsable (b : bool) | DropSrc.
(* (id, None): the system calls add_source(id) under the controller mutex;
   (id, Some o): the message sent by the wrapper of source id, handled by `run` *)
Definition event : Type := (Z * option op)%type.

(* the three float comparisons of the steering decision of one consensus step:
     wi_offset   offset_delta.abs() > offset_uncertainty * steer_offset_threshold
     wi_big      change.abs() > step_threshold                       (in steer_offset)
     wi_freq     freq_delta.abs() > freq_uncertainty * steer_frequency_threshold *)
Record wish := mkWish { wi_offset : bool; wi_big : bool; wi_freq : bool }.
Definition nowish : wish := mkWish false false false.

Record world := mkWorld {
  w_select : list snap -> list snap;   (* select::select on the candidates *)
  w_wish : nat -> list snap -> wish;   (* the comparisons of the k-th consensus step (they depend on the whole float
                                          history: the step index stands for it, any outcome sequence is a world) *)
  w_vote : list snap -> option Z       (* combine's leap vote on the selection *)
}.

(* what one handled message / timer expiry makes visible *)
Record output := mkOut {
  o_clock : list Z;          (* NtpClock calls: 1 disable_ntp_algorithm, 2 error_estimate_update, 30+leap status_update, 4 step_clock, 5 set_frequency *)
  o_used : option (list Z);  (* InternalStateUpdate.used_sources *)
  o_next : bool              (* InternalStateUpdate.next_update is Some(..): the wrapper (re)arms its sleeper *)
}.
Definition out0 : output := mkOut [] None false.

(* the steering part of update_clock:
     if desired_freq == 0.0 && wi_offset { steer_offset } else if wi_freq { steer_frequency } else { nothing }
     steer_offset: wi_big -> step_clock (4), no timer; else start a slew: change_desired_frequency(nonzero)
                   -> steer_frequency -> set_frequency (5), next_update = Some(duration)
     steer_frequency: set_frequency (5)
   -> (clock calls, desired_freq != 0.0 afterwards, next_update is Some).
   (check_offset_steer's process::exit for an implausible step is not modelled: the process ends;
    a slew that returns has desired_freq = -freq * signum(change) with freq > 0, see Duration::from_secs_f64) *)
Definition steer (slew : bool) (w : wish) : list Z * bool * bool :=
  if negb slew && wi_offset w then
    if wi_big w then ([4], false, false) else ([5], true, true)
  else if wi_freq w then ([5], slew, false)
  else ([], slew, false).

(* time - sourcetime < NtpDuration::ZERO on wrapping u64 timestamps *)
Definition before (t s : Z) : bool := to_signed 64 (t - s) <? 0.

Definition ahead (t : Z) (je : Z * entry) : bool :=
  match e_snap (snd je) with Some s => before t (snap_time s) | None => false end.

(* progress_time: unchanged when the target time is before the filter time *)
Definition progress_snap (t : Z) (s : snap) : snap := if before t (snap_time s) then s else with_time t s.
Definition progress (t : Z) (m : cmap) : cmap :=
  map (fun je => (fst je, mkEntry (option_map (progress_snap t) (e_snap (snd je))) (e_usable (snd je)))) m.

(* the candidate filter of update_clock: usable and with a snapshot *)
Definition candidates (m : cmap) : list snap :=
  flat_map (fun je => if e_usable (snd je) then match e_snap (snd je) with Some s => [s] | None => [] end else []) m.

Definition update_clock (W : world) (c : ctl) (t : Z) : ctl * output :=
  if existsb (ahead t) (c_map c) then (c, out0)
  else
    let m := progress t (c_map c) in
    let sel := w_select W (candidates m) in
    match sel with
    | [] => (with_map m c, out0)                               (* "No consensus on current time" *)
    | _ :: _ =>
        let st := steer (c_slew c) (w_wish W (c_nsteer c) sel) in
        (mkCtl m false (snd (fst st)) (S (c_nsteer c)),
         mkOut ((if c_startup c then [1] else []) ++ fst (fst st) ++ [2]
                ++ match w_vote W sel with Some l => [30 + l] | None => [] end)
               (Some (map snap_id sel)) (snd st))
    end.

(* time_update: "End slew": change_desired_frequency(0.0, 0.0) -> steer_frequency -> exactly one
   set_frequency; desired_freq = 0.0; source_message Some, used_sources None, next_update None *)
Definition time_update (c : ctl) : ctl * output :=
  (mkCtl (c_map c) (c_startup c) false (c_nsteer c), mkOut [5] None false).

Definition store (i : Z) (s : snap) (m : cmap) : cmap :=
  update i (fun e => mkEntry (Some s) (e_usable e)) m.

Definition handle (W : world) (c : ctl) (ev : event) : ctl * output :=
  match ev with
  | (i, None) => (with_map (insert i (mkEntry None false) (c_map c)) c, out0)
  | (i, Some (SetUsable b)) =>
      (with_map (update i (fun e => mkEntry (e_snap e) b) (c_map c)) c, out0)
  | (i, Some DropSrc) => (with_map (remove i (c_map c)) c, out0)
  | (i, Some (Measure s)) =>
      match lookup i (c_map c) with
      | None => (c, out0)                                      (* "Update from non-existing source" *)
      | Some _ => update_clock W (with_map (store i s (c_map c)) c) (snap_update s)
      end
  end.

(* the argument select is called with while handling ev (None: select is not reached) *)
Definition select_input (c : ctl) (ev : event) : option (list snap) :=
  match ev with
  | (i, Some (Measure s)) =>
      match lookup i (c_map c) with
      | None => None
      | Some _ =>
          let m := store i s (c_map c) in
          if existsb (ahead (snap_update s)) m then None
          else Some (candidates (progress (snap_update s) m))
      end
  | _ => None
  end.

Fixpoint run_from (W : world) (c : ctl) (tr : list event) : ctl * list output :=
  match tr with
  | [] => (c, [])
  | ev :: r => let (c1, o) := handle W c ev in
               let (c2, os) := run_from W c1 r in (c2, o :: os)
  end.
Definition state_after (W : world) (tr : list event) : ctl := fst (run_from W ctl_init tr).

(* ---- the wrapper's loop with its timer (TimeSyncControllerWrapper::run) ----
   select! { message => handle it; if let Some(d) = update.next_update { sleeper.reset(now + d) }
             sleeper => time_update(); if let Some(d) = update.next_update { sleeper.reset(now + d) } }
   The sleeper is single-shot: enabled by reset, disabled when it fires.  [TimeUpdate] in a schedule
   = the sleeper's deadline passes while the loop is waiting; with a disabled sleeper nothing happens. *)
Record lstate := mkL { l_ctl : ctl; l_timer : bool (* sleeper enabled *) }.
Definition l_init : lstate := mkL ctl_init false.
Inductive tevent := Msg (ev : event) | TimeUpdate.

Definition thandle (W : world) (s : lstate) (te : tevent) : lstate * output :=
  match te with
  | Msg ev => let co := handle W (l_ctl s) ev in (mkL (fst co) (l_timer s || o_next (snd co)), snd co)
  | TimeUpdate =>
      if l_timer s then let co := time_update (l_ctl s) in (mkL (fst co) (o_next (snd co)), snd co)
      else (s, out0)
  end.

Fixpoint trun_from (W : world) (s : lstate) (tr : list tevent) : lstate * list output :=
  match tr with
  | [] => (s, [])
  | te :: r => let (s1, o) := thandle W s te in
               let (s2, os) := trun_from W s1 r in (s2, o :: os)
  end.
Definition tstate_after (W : world) (tr : list tevent) : lstate := fst (trun_from W l_init tr).
(* the messages of a schedule, timer expiries left out *)
Definition msgs (tr : list tevent) : list event :=
  flat_map (fun te => match te with Msg ev => [ev] | TimeUpdate => [] end) tr.

(* ---- schedules: interleavings of per-source scripts ---- *)
Definition ops_of (i : Z) (tr : list event) : list (option op) :=
  map snd (filter (fun ev => fst ev =? i) tr).
(* what the task of source i contributes: the system's add_source, then its messages in program order *)
Definition task_events (script : list op) : list (option op) := None :: map Some script.
(* Dropped is sent from Drop: it is the last thing a source wrapper ever sends *)
Definition script_ok (script : list op) : Prop :=
  forall a b, script = a ++ DropSrc :: b -> b = [].
(* tr is an interleaving of the scripts: its projection on every id is that id's task, order preserved *)
Definition interleaving (scripts : Z -> option (list op)) (tr : list event) : Prop :=
  forall i, ops_of i tr = match scripts i with Some sc => task_events sc | None => [] end.

(* ---- the per-source view: what the controller should know about one source,
        computed from that source's own events only ---- *)
Definition core : Type := (Z * Z * Z * cand)%type.      (* a snapshot without its filter time *)
Definition snap_core (s : snap) : core := (snap_serial s, snap_update s, snap_leap s, snap_cand s).
Definition view : Type := option (option core * bool).  (* None: not registered *)

Definition src_step (v : view) (o : option op) : view :=
  match o with
  | None => Some (None, false)
  | Some (SetUsable b) => match v with Some (s, _) => Some (s, b) | None => None end
  | Some (Measure s) => match v with Some (_, u) => Some (Some (snap_core s), u) | None => None end
  | Some DropSrc => None
  end.
Definition src_view (os : list (option op)) : view := fold_left src_step os None.

Definition view_of (i : Z) (c : ctl) : view :=
  option_map (fun e => (option_map snap_core (e_snap e), e_usable e)) (lookup i (c_map c)).

(* ---- instantiation used by the correspondence ---- *)
Definition real_select (cf : cfg) (l : list snap) : list snap :=
  match select cf (map snap_cand l) with
  | Ok sel => filter (fun s => existsb (fun c => c_id c =? snap_id s) sel) l
  | _ => []
  end.
Definition real_vote (l : list snap) : option Z :=
  match vote_leap (map (fun s => leap_of_code (snap_leap s)) l) with
  | Ok (Some v) => Some (leap_code v)
  | _ => None
  end.
(* configuration of the harness with steering thresholds infinite: no steering call *)
Definition real_world (cf : cfg) : world := mkWorld (real_select cf) (fun _ _ => nowish) real_vote.
(* steering configuration: the outcome of the float comparisons of the k-th consensus step is read
   off the implementation's run (code: 0 none, 1 frequency, 2 offset+small = slew, 3 offset+big = step) *)
Definition wish_of_code (z : Z) : wish :=
  match z with 1 => mkWish false false true | 2 => mkWish true false false | 3 => mkWish true true false
             | _ => nowish end.
Definition tape_world (cf : cfg) (tape : list Z) : world :=
  mkWorld (real_select cf) (fun k _ => wish_of_code (nth k tape 0)) real_vote.

(* a case: configuration and the operations of the harness line; IDrain = observe;
   ITime = virtual time passes beyond any armed deadline *)
Inductive item := IEv (e : event) | IDrain | ITime.

Fixpoint insert_sorted (x : Z) (l : list Z) : list Z :=
  match l with [] => [x] | y :: r => if x <=? y then x :: l else y :: insert_sorted x r end.
Definition sort_ids (l : list Z) : list Z := fold_right insert_sorted [] l.

Fixpoint insert_entry (x : Z * entry) (l : cmap) : cmap :=
  match l with [] => [x] | y :: r => if fst x <=? fst y then x :: l else y :: insert_entry x r end.
Definition sort_map (m : cmap) : cmap := fold_right insert_entry [] m.

Definition dump_entry (je : Z * entry) : list Z :=
  [fst je; if e_usable (snd je) then 1 else 0;
   match e_snap (snd je) with Some s => snap_serial s | None => -1 end;
   match e_snap (snd je) with Some s => snap_time s | None => 0 end].

(* observation at a drain: -1, clock calls since the last drain, the wrapper's used_sources
   (sorted), the controller map (sorted by id), desired_freq != 0, number of updates since the
   last drain that returned next_update = Some *)
Fixpoint observe (W : world) (s : lstate) (calls : list Z) (used : list Z) (arms : Z) (l : list item) : list Z :=
  match l with
  | [] => []
  | IDrain :: r =>
      (-1 :: Z.of_nat (length calls) :: calls) ++ (Z.of_nat (length used) :: sort_ids used)
      ++ (Z.of_nat (length (c_map (l_ctl s))) :: flat_map dump_entry (sort_map (c_map (l_ctl s))))
      ++ [if c_slew (l_ctl s) then 1 else 0; arms]
      ++ observe W s [] used 0 r
  | IEv e :: r =>
      let (s1, o) := thandle W s (Msg e) in
      observe W s1 (calls ++ o_clock o) (match o_used o with Some u => u | None => used end)
              (if o_next o then arms + 1 else arms) r
  | ITime :: r =>
      let (s1, o) := thandle W s TimeUpdate in
      observe W s1 (calls ++ o_clock o) (match o_used o with Some u => u | None => used end)
              (if o_next o then arms + 1 else arms) r
  end.

Definition msgloop_code (x : Z * Z * list Z * list item) : list Z :=
  match x with (m, mx, tape, l) => observe (tape_world (mkCfg m mx) tape) l_init [] [] 0 l end.
