(* Model of the numeric part of configuration loading:
   ntp-proto/src/config.rs  StepThreshold / ThresholdPart deserializers,
   deserialize_option_accumulated_step_panic_threshold,
   ntp-proto/src/time_types.rs  NtpDuration's Deserialize (float seconds).
   The input is the value the serde data format hands to the visitor
   (deserialize_any): the TOML / JSON parsers themselves are not modelled.
   Definitions only. *)
From V Require Export Base.Prelude.
From V Require Export Base.D3Float.
From Coq Require Import Floats.
From V Require Gen.ConstConfigNum.

(* what a self-describing format can hand to `deserialize_any` *)
Inductive scalar :=
| SFloat (bits : Z)        (* visit_f64, the value as its 64-bit pattern *)
| SInt (z : Z)             (* visit_i64 *)
| SUInt (z : Z)            (* visit_u64 (JSON numbers above i64::MAX) *)
| SStr (is_inf : bool)     (* visit_str; only equality with "inf" matters *)
| SOther.                  (* bool, unit, bytes: visitor default = invalid type *)

Inductive pval := PScalar (s : scalar) | PComposite.   (* a map or sequence as part value *)
Inductive key := KForward | KBackward | KOther.
Inductive tval := TScalar (s : scalar) | TMap (entries : list (key * pval)) | TSeq.

(* serde error classes *)
Definition EV_INVALID_VALUE : Z := 1.
Definition EV_INVALID_TYPE : Z := 2.
Definition EV_DUPLICATE_FIELD : Z := 3.
Definition EV_UNKNOWN_FIELD : Z := 4.

(* the debug assertion of NtpDuration::from_seconds is the only panic site on
   these paths; it is active in the debug profile only *)
Definition P_FROM_SECONDS_ASSERT : Z := 3901.
Definition from_seconds_profile (debug : bool) (v : float) : res Z :=
  if debug && (f64_is_nan v || f64_is_infinite v) then Panic P_FROM_SECONDS_ASSERT
  else Ok (from_seconds v).

(* the test shared by StepThresholdVisitor::visit_f64 and ThresholdPartVisitor::visit_f64 *)
Definition bad_threshold (v : float) : bool :=
  f64_is_nan v || f64_is_infinite v || f64_lt0 v.

(* visit_i64 / visit_u64 forward to visit_f64 (v as f64) *)
Definition number_of_scalar (s : scalar) : option float :=
  match s with
  | SFloat b => Some (f64_of_bits b)
  | SInt z => Some (f64_of_Z z)
  | SUInt z => Some (f64_of_Z z)
  | _ => None
  end.

(* ThresholdPart: Ok None = "inf" (no limit in this direction) *)
Definition threshold_part (debug : bool) (v : pval) : res (option Z) :=
  match v with
  | PComposite => Err EV_INVALID_TYPE
  | PScalar s =>
    match s with
    | SStr true => Ok None
    | SStr false => Err EV_INVALID_VALUE
    | SOther => Err EV_INVALID_TYPE
    | _ =>
      match number_of_scalar s with
      | None => Err EV_INVALID_TYPE
      | Some f =>
        if bad_threshold f then Err EV_INVALID_VALUE
        else do d <- from_seconds_profile debug f; Ok (Some d)
      end
    end
  end.

Record step_threshold := mk_st { st_forward : option Z; st_backward : option Z }.

(* visit_map: [fw]/[bw] are the `let mut forward = None` style accumulators
   (None = key not seen yet) *)
Fixpoint threshold_map (debug : bool) (es : list (key * pval))
  (fw bw : option (option Z)) : res step_threshold :=
  match es with
  | [] =>
      Ok {| st_forward := match fw with Some x => x | None => None end;
            st_backward := match bw with Some x => x | None => None end |}
  | (KForward, v) :: r =>
      match fw with
      | Some _ => Err EV_DUPLICATE_FIELD
      | None => do p <- threshold_part debug v; threshold_map debug r (Some p) bw
      end
  | (KBackward, v) :: r =>
      match bw with
      | Some _ => Err EV_DUPLICATE_FIELD
      | None => do p <- threshold_part debug v; threshold_map debug r fw (Some p)
      end
  | (KOther, _) :: _ => Err EV_UNKNOWN_FIELD
  end.

Definition step_threshold_of (debug : bool) (v : tval) : res step_threshold :=
  match v with
  | TSeq => Err EV_INVALID_TYPE
  | TMap es => threshold_map debug es None None
  | TScalar s =>
    match s with
    | SStr true => Ok {| st_forward := None; st_backward := None |}
    | SStr false => Err EV_INVALID_VALUE
    | SOther => Err EV_INVALID_TYPE
    | _ =>
      match number_of_scalar s with
      | None => Err EV_INVALID_TYPE
      | Some f =>
        if bad_threshold f then Err EV_INVALID_VALUE
        else do d <- from_seconds_profile debug f;
             Ok {| st_forward := Some d; st_backward := Some d |}
      end
    end
  end.

(* NtpDuration's Deserialize: an f64 (integers are converted by serde's
   primitive visitor), NaN and infinities rejected *)
Definition duration_of (debug : bool) (s : scalar) : res Z :=
  match number_of_scalar s with
  | None => Err EV_INVALID_TYPE
  | Some f =>
    if f64_is_nan f || f64_is_infinite f then Err EV_INVALID_VALUE
    else from_seconds_profile debug f
  end.

(* deserialize_option_accumulated_step_panic_threshold: 0 means "no threshold" *)
Definition accumulated_of (debug : bool) (s : scalar) : res (option Z) :=
  do d <- duration_of debug s; Ok (if d =? 0 then None else Some d).

(* ---- the [synchronization] section of a configuration document ----
   The derived (flattened) struct visitor takes the entries in document
   order; the first failing field aborts loading.  Other fields of the
   document are outside the model. *)
Inductive sync_field :=
| FSingle (v : tval)       (* single-step-panic-threshold *)
| FStartup (v : tval)      (* startup-step-panic-threshold *)
| FAccum (v : tval).       (* accumulated-step-panic-threshold *)

Record sync_cfg := mk_sync {
  c_single : step_threshold; c_startup : step_threshold; c_accum : option Z }.

(* default_single_step_panic_threshold / default_startup_step_panic_threshold / None *)
Definition default_sync : sync_cfg :=
  let d := from_seconds (f64_of_Z ConstConfigNum.CFG_DEFAULT_SINGLE_STEP_SECS) in
  {| c_single := {| st_forward := Some d; st_backward := Some d |};
     c_startup := {| st_forward := None;
                     st_backward := Some (from_seconds (f64_of_Z ConstConfigNum.CFG_DEFAULT_STARTUP_BACKWARD_SECS)) |};
     c_accum := None |}.

Fixpoint load_sync (debug : bool) (fs : list sync_field) (c : sync_cfg) : res sync_cfg :=
  match fs with
  | [] => Ok c
  | FSingle v :: r =>
      do st <- step_threshold_of debug v;
      load_sync debug r {| c_single := st; c_startup := c_startup c; c_accum := c_accum c |}
  | FStartup v :: r =>
      do st <- step_threshold_of debug v;
      load_sync debug r {| c_single := c_single c; c_startup := st; c_accum := c_accum c |}
  | FAccum v :: r =>
      do a <- match v with TScalar s => accumulated_of debug s | _ => Err EV_INVALID_TYPE end;
      load_sync debug r {| c_single := c_single c; c_startup := c_startup c; c_accum := a |}
  end.

(* ---- encodings for the correspondence (release profile) ---- *)
Definition opt_code (o : option Z) : list Z :=
  match o with None => [0] | Some d => [1; d] end.
Definition st_code (r : res step_threshold) : list Z :=
  match r with
  | Ok st => 0 :: opt_code (st_forward st) ++ opt_code (st_backward st)
  | Err e => [e]
  | Panic p => [-1; p]
  end.
Definition ropt_code (r : res (option Z)) : list Z :=
  match r with Ok o => 0 :: opt_code o | Err e => [e] | Panic p => [-1; p] end.
Definition rz_code (r : res Z) : list Z :=
  match r with Ok d => [0; d] | Err e => [e] | Panic p => [-1; p] end.

Inductive c39_case :=
| CThreshold (v : tval)
| CPart (v : pval)
| CDuration (s : scalar)
| CAccumulated (s : scalar)
| CSync (fs : list sync_field).

Definition run_c39 (c : c39_case) : list Z :=
  match c with
  | CThreshold v => st_code (step_threshold_of false v)
  | CPart v => ropt_code (threshold_part false v)
  | CDuration s => rz_code (duration_of false s)
  | CAccumulated s => ropt_code (accumulated_of false s)
  | CSync fs =>
      match load_sync false fs default_sync with
      | Ok c => 0 :: opt_code (st_forward (c_single c)) ++ opt_code (st_backward (c_single c))
                  ++ opt_code (st_forward (c_startup c)) ++ opt_code (st_backward (c_startup c))
                  ++ opt_code (c_accum c)
      | Err e => [e]
      | Panic p => [-1; p]
      end
  end.

Fixpoint cfg_list_eqb (a b : list Z) : bool :=
  match a, b with
  | [], [] => true
  | x :: a', y :: b' => (x =? y) && cfg_list_eqb a' b'
  | _, _ => false
  end.
