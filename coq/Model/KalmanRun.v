(* C06 -- the binary64 instance of Model/Kalman.v and the case codec of the
   correspondence check (inputs and outputs are lists of integers; floats travel as
   IEEE-754 bit patterns).  Definitions only. *)
From V Require Export Model.Kalman.
From V Require Import Gen.ConstKalman.
Close Scope float_scope.
Open Scope Z_scope.

Definition FROM_SECS : float -> Z := from_seconds_f (TT_FROM_SECONDS_ROUNDS =? 1).
Definition FloatOps : NumOps float :=
  mkNum float (fun f => f) PrimFloat.add PrimFloat.sub PrimFloat.mul PrimFloat.div PrimFloat.sqrt
        PrimFloat.opp PrimFloat.ltb PrimFloat.leb fmax PrimFloat.is_nan ffmod of_i64 FROM_SECS.

Definition fb := of_bits.
Definition tb := to_bits.
Definition nthz (l : list Z) (n : nat) : Z := nth n l 0.
Definition dec_period (z : Z) : option float := if z <? 0 then None else Some (fb z).

Definition dec_state (l : list Z) : kstate float :=
  mkK (fb (nthz l 0)) (fb (nthz l 1))
      (mkMat (fb (nthz l 2)) (fb (nthz l 3)) (fb (nthz l 4)) (fb (nthz l 5))) (nthz l 6).
Definition enc_state (k : kstate float) : list Z :=
  [tb (s0 k); tb (s1 k); tb (a00 (unc k)); tb (a01 (unc k)); tb (a10 (unc k)); tb (a11 (unc k)); ktime k].

Definition FUEL : nat := Z.to_nat 300.

Definition enc_noise (n : noise float) : list Z :=
  match n with
  | NBuf d i => map tb d ++ [i]
  | NFixed p a => [tb p; tb a]
  end.
Definition enc_meas (m : meas) : list Z := [m_delay m; m_offset m; m_time m; m_rdelay m; m_rdisp m].

(* dump of a source controller after an event: return flag, kind, observe(), desired poll,
   snapshot, internal state *)
Definition enc_source (cfg : algo_cfg float) (s : source_state float) (flag : Z) : list Z :=
  let obs := fst (observe FloatOps cfg s) in
  let sn := fst (source_snapshot FloatOps cfg s) in
  [flag] ++ obs ++ [desired_poll cfg s] ++
  match sn with
  | None => [0]
  | Some sn => [1] ++ enc_state (sn_state sn) ++ [tb (sn_wander sn); tb (sn_delay sn)]
  end ++
  match s with
  | Initial f =>
      [0; i_samples f; i_idx f] ++ map tb (i_data f) ++ enc_noise (i_noise f)
  | Stable f =>
      [1] ++ enc_state (f_state f) ++ [tb (f_wander f); f_prec_score f; f_poll_score f;
        if f_outlier f then 1 else 0; f_last_iter f] ++ enc_meas (f_last f) ++ enc_noise (f_noise f)
  end.

(* a 61-bit polynomial hash of a dump (the harness computes the same); comparing hashes
   keeps the cases files small: full dumps are available through op 21 *)
Definition hashl (l : list Z) : Z :=
  fold_left (fun h x => (h * 1000003 + x mod 2 ^ 64) mod (2 ^ 61 - 1)) l 0.
Definition kind_of (s : source_state float) : Z := match s with Initial _ => 0 | Stable _ => 1 end.
Definition out_source (full : bool) (cfg : algo_cfg float) (s : source_state float) (flag : Z) : list Z :=
  let d := enc_source cfg s flag in
  if full then d else [hashl d; nthz d 2; kind_of s].

(* events: 1 delay offset time rdelay rdisp mono e | 2 steer | 3 steer time *)
Fixpoint run_events (full : bool) (fuel : nat) (cfg : algo_cfg float) (period : option float) (stride : Z)
  (s : source_state float) (i : Z) (l : list Z) : list Z :=
  match fuel with
  | O => []
  | S k =>
      match l with
      | [] => []
      | 1 :: d :: o :: t :: rd :: rp :: mono :: e :: rest =>
          let r := fst (source_step FloatOps cfg period s (Measure (mkMeas d o t rd rp) mono (fb e))) in
          (if (i mod stride =? 0) || (match rest with [] => true | _ => false end)
           then out_source full cfg (fst r) (snd r) else [])
          ++ run_events full k cfg period stride (fst r) (i + 1) rest
      | 2 :: st :: rest =>
          let r := fst (source_step FloatOps cfg period s (Step (fb st))) in
          (if (i mod stride =? 0) || (match rest with [] => true | _ => false end)
           then out_source full cfg (fst r) (snd r) else [])
          ++ run_events full k cfg period stride (fst r) (i + 1) rest
      | 3 :: st :: t :: rest =>
          let r := fst (source_step FloatOps cfg period s (FreqChange (fb st) t)) in
          (if (i mod stride =? 0) || (match rest with [] => true | _ => false end)
           then out_source full cfg (fst r) (snd r) else [])
          ++ run_events full k cfg period stride (fst r) (i + 1) rest
      | _ => [-99]
      end
  end.

(* history input: 15 config numbers, noise kind (0 buffer | 1 precision accuracy), period, stride, events *)
Definition run_history (full : bool) (a : list Z) : list Z :=
  let cfg := mkCfg float (fb (nthz a 0)) (fb (nthz a 1)) (nthz a 2) (fb (nthz a 3))
                   (fb (nthz a 4)) (fb (nthz a 5)) (nthz a 6) (fb (nthz a 7))
                   (fb (nthz a 8)) (fb (nthz a 9)) (fb (nthz a 10)) (nthz a 11)
                   (nthz a 12) (nthz a 13) (nthz a 14) FUEL in
  let rest := skipn 15 a in
  match rest with
  | 0 :: per :: stride :: evs =>
      run_events full (length evs) cfg (dec_period per) stride (source_new FloatOps (NBuf (repeat 0%float 8) 0)) 0 evs
  | 1 :: p :: acc :: per :: stride :: evs =>
      run_events full (length evs) cfg (dec_period per) stride (source_new FloatOps (NFixed (fb p) (fb acc))) 0 evs
  | _ => [-98]
  end.

(* a long regular history (constant measurement every dt), given compactly: the event list is
   rebuilt here from the per-event oracles (mono, e) *)
Fixpoint regular_events (orc : list Z) (t dt d o rd rp : Z) : list Z :=
  match orc with
  | mono :: e :: rest =>
      1 :: d :: o :: wrap 64 (t + dt) :: rd :: rp :: mono :: e
        :: regular_events rest (wrap 64 (t + dt)) dt d o rd rp
  | _ => []
  end.
Definition run_regular (a : list Z) : list Z :=
  match skipn 15 a with
  | per :: stride :: t0 :: dt :: d :: o :: rd :: rp :: orc =>
      run_history false (firstn 15 a ++ [0; per; stride] ++ regular_events orc t0 dt d o rd rp)
  | _ => [-96]
  end.

Definition run (c : Z * list Z) : list Z :=
  let '(op, a) := c in
  match op with
  | 1 => enc_state (fst (progress_time FloatOps FUEL (dec_state a) (nthz a 7) (fb (nthz a 8)) (dec_period (nthz a 9))))
  | 2 => let '(k, p, w) := fst (absorb FloatOps FUEL (dec_state a) (fb (nthz a 7)) (fb (nthz a 8)) (fb (nthz a 9))
                                        (fb (nthz a 10)) (dec_period (nthz a 11)) false (fb (nthz a 12))) in
         enc_state k ++ [tb p; tb w]
  | 4 => enc_state (fst (merge FloatOps (dec_state a) (dec_state (skipn 7 a))))
  | 5 => enc_state (add_server_dispersion FloatOps (dec_state a) (fb (nthz a 7)))
  | 6 => enc_state (fst (k_offset_steering FloatOps FUEL (dec_state a) (fb (nthz a 7)) (dec_period (nthz a 8))))
  | 7 => enc_state (fst (k_frequency_steering FloatOps FUEL (dec_state a) (nthz a 7) (fb (nthz a 8)) (fb (nthz a 9))
                                              (dec_period (nthz a 10))))
  | 8 => [tb (fst (chi_1 FloatOps (fb (nthz a 1)) (fb (nthz a 0))))]
  | 9 => [FROM_SECS (fb (nthz a 0))]
  | 10 => [tb (fst (to_seconds FloatOps (nthz a 0)))]
  | 11 => [fst (root_dispersion FloatOps (fb (nthz a 0)) (fb (nthz a 1)) (fb (nthz a 2)) (fb (nthz a 3)) (nthz a 4) (nthz a 5))]
  | 12 => [tb (fst (buf_mean FloatOps (map fb a))); tb (fst (buf_variance FloatOps (map fb a)))]
  | 13 => [tb (ffmod (fb (nthz a 0)) (fb (nthz a 1)))]
  | 20 => run_history false a
  | 21 => run_history true a
  | 22 => run_regular a
  | _ => [-97]
  end.

Fixpoint list_eqb (a b : list Z) : bool :=
  match a, b with
  | [], [] => true
  | x :: a', y :: b' => (x =? y) && list_eqb a' b'
  | _, _ => false
  end.
