(* Model of ntpd/src/daemon/spawn/pool.rs (PoolSpawner) and of the bookkeeping of
   nts_pool.rs (NtsPoolSpawner).  Definitions only.

   The model mirrors the REPAIRED code (branch fix-c35: an address popped from
   known_ips that already has an active source is skipped).  The loop of the
   unrepaired code is kept as [draw_unrepaired] only to exhibit the defect. *)
From V Require Export Base.Prelude.
From V Require Import Gen.ConstSpawn.

(* a SocketAddr: (ip, port); the ip is an abstract identifier (the harness maps
   identifiers injectively to IPv4 / IPv6 addresses) *)
Definition addr := (Z * Z)%type.
Definition addr_eqb (a b : addr) : bool := (fst a =? fst b) && (snd a =? snd b).
Definition mem_addr (a : addr) (l : list addr) : bool := existsb (addr_eqb a) l.
Definition memZ (z : Z) (l : list Z) : bool := existsb (Z.eqb z) l.

(* PoolSourceConfig: count (usize) and ignore (Vec<IpAddr>); the name to resolve
   is represented by the DNS answers given with the operations *)
Record cfg := mkcfg { count : nat; ignore : list Z }.

(* PoolSpawner state.
   current : current_sources, in Vec order, (ClockId, addr)
   known   : known_ips as a STACK: head = LAST element of the Vec (Vec::pop takes it)
   next_id : the ClockId the next source gets (ClockId::new() is a global counter;
             the harness renumbers the ids of a case 0,1,2.. in order of creation) *)
Record pool := mkpool { current : list (Z * addr); known : list addr; next_id : Z }.
Definition pool0 : pool := mkpool [] [] 0.

Definition cur_addrs (cur : list (Z * addr)) : list addr := map snd cur.

(* the retain closure: keep ips not already connected to and not ignored *)
Definition keep (c : cfg) (cur : list (Z * addr)) (a : addr) : bool :=
  negb (mem_addr a (cur_addrs cur)) && negb (memZ (fst a) (ignore c)).

(* `while current.len() < count { if let Some(addr) = known.pop() { [skip if active]; push; send } else break }`
   returns the new state and the SpawnEvents sent, in order *)
Fixpoint draw (n : nat) (kn : list addr) (cur : list (Z * addr)) (nid : Z)
  : pool * list (Z * addr) :=
  if (length cur <? n)%nat then
    match kn with
    | [] => (mkpool cur [] nid, [])
    | a :: kn' =>
        if mem_addr a (cur_addrs cur) then draw n kn' cur nid          (* fix-c35: continue *)
        else let r := draw n kn' (cur ++ [(nid, a)]) (nid + 1) in
             (fst r, (nid, a) :: snd r)
    end
  else (mkpool cur kn nid, []).

(* the loop before the repair (no membership test) *)
Fixpoint draw_unrepaired (n : nat) (kn : list addr) (cur : list (Z * addr)) (nid : Z)
  : pool * list (Z * addr) :=
  if (length cur <? n)%nat then
    match kn with
    | [] => (mkpool cur [] nid, [])
    | a :: kn' => let r := draw_unrepaired n kn' (cur ++ [(nid, a)]) (nid + 1) in
                  (fst r, (nid, a) :: snd r)
    end
  else (mkpool cur kn nid, []).

(* known_ips.append(answer); known_ips.retain(keep): Vec order v ++ l, i.e. stack rev l ++ s *)
Definition after_lookup (c : cfg) (st : pool) (l : list addr) : list addr :=
  filter (keep c (current st)) (rev l ++ known st).

Definition try_spawn_with (drawf : nat -> list addr -> list (Z * addr) -> Z -> pool * list (Z * addr))
  (c : cfg) (st : pool) (dns : option (list addr)) : pool * list (Z * addr) :=
  let n := length (current st) in
  if (count c <=? n)%nat then (st, [])                               (* early return *)
  else if (length (known st) <? count c - n)%nat then
    match dns with
    | None => (st, [])                                               (* lookup_host failed: warn, return *)
    | Some l => drawf (count c) (after_lookup c st l) (current st) (next_id st)
    end
  else drawf (count c) (known st) (current st) (next_id st).

(* [dns] is the answer lookup_host would give in this round; it is consulted only
   when known_ips is too short *)
Definition try_spawn := try_spawn_with draw.
Definition try_spawn_unrepaired := try_spawn_with draw_unrepaired.

Definition is_complete (c : cfg) (st : pool) : bool := (count c <=? length (current st))%nat.

Definition drop_id (id : Z) (cur : list (Z * addr)) : list (Z * addr) :=
  filter (fun p => negb (fst p =? id)) cur.

(* handle_source_removed: the reason is not looked at *)
Definition handle_removed (st : pool) (id : Z) : pool :=
  mkpool (drop_id id (current st)) (known st) (next_id st).

Inductive reason := Demobilized | NetworkIssue | Unreachable.
Inductive op :=
| TrySpawn (dns : option (list addr))
| Removed (id : Z) (r : reason).

(* what an outside observer sees: SpawnEvents (create source id at addr) and the
   removal notifications given to the spawner *)
Inductive obs := Spawned (id : Z) (a : addr) | Gone (id : Z).

Definition step_with drawf (c : cfg) (st : pool) (o : op) : pool * list obs :=
  match o with
  | TrySpawn dns => let r := try_spawn_with drawf c st dns in
                    (fst r, map (fun e => Spawned (fst e) (snd e)) (snd r))
  | Removed id _ => (handle_removed st id, [Gone id])
  end.
Definition step := step_with draw.

Fixpoint exec_with drawf (c : cfg) (ops : list op) (st : pool) : pool * list obs :=
  match ops with
  | [] => (st, [])
  | o :: r => let s1 := step_with drawf c st o in
              let s2 := exec_with drawf c r (fst s1) in
              (fst s2, snd s1 ++ snd s2)
  end.
Definition exec := exec_with draw.

(* the observable trace of a history that starts with a new spawner *)
Definition trace (c : cfg) (ops : list op) : list obs := snd (exec c ops pool0).
Definition trace_unrepaired (c : cfg) (ops : list op) : list obs := snd (exec_with draw_unrepaired c ops pool0).

(* ---- specification side: the active sources, defined from the observable trace alone ---- *)
Definition apply_obs (acc : list (Z * addr)) (o : obs) : list (Z * addr) :=
  match o with
  | Spawned i a => acc ++ [(i, a)]
  | Gone i => drop_id i acc
  end.
Definition active_from (acc : list (Z * addr)) (tr : list obs) := fold_left apply_obs tr acc.
Definition active (tr : list obs) : list (Z * addr) := active_from [] tr.

(* the three requirements of C35 on a set of active sources *)
Definition Safe (c : cfg) (act : list (Z * addr)) : Prop :=
  (length act <= count c)%nat
  /\ NoDup (cur_addrs act)
  /\ (forall p, In p act -> ~ In (fst (snd p)) (ignore c)).

(* P holds for the active set after every prefix of the trace *)
Fixpoint always (P : list (Z * addr) -> Prop) (tr : list obs) (acc : list (Z * addr)) : Prop :=
  P acc /\ match tr with [] => True | o :: r => always P r (apply_obs acc o) end.

(* ---- encoding for the correspondence check ---- *)
Fixpoint enc_sources (l : list (Z * addr)) : list Z :=
  match l with [] => [] | (i, (ip, port)) :: r => i :: ip :: port :: enc_sources r end.
Fixpoint enc_addrs (l : list addr) : list Z :=
  match l with [] => [] | (ip, port) :: r => ip :: port :: enc_addrs r end.
Definition b2z (b : bool) : Z := if b then 1 else 0.

(* per op: TrySpawn -> [n; (id ip port)*n; complete]   Removed -> [complete]
   at the end:  [|current|; (id ip port)*; |known_ips|; (ip port)* in Vec order] *)
Fixpoint run_ops (c : cfg) (ops : list op) (st : pool) : list Z :=
  match ops with
  | [] => Z.of_nat (length (current st)) :: enc_sources (current st)
          ++ Z.of_nat (length (known st)) :: enc_addrs (rev (known st))
  | TrySpawn dns :: r =>
      let s := try_spawn c st dns in
      Z.of_nat (length (snd s)) :: enc_sources (snd s) ++ b2z (is_complete c (fst s)) :: run_ops c r (fst s)
  | Removed id _ :: r =>
      let s := handle_removed st id in
      b2z (is_complete c s) :: run_ops c r s
  end.

Definition run (i : nat * list Z * list op) : list Z :=
  match i with (n, ign, ops) => run_ops (mkcfg n ign) ops pool0 end.

Fixpoint zlist_eqb (a b : list Z) : bool :=
  match a, b with
  | [], [] => true
  | x :: a', y :: b' => (x =? y) && zlist_eqb a' b'
  | _, _ => false
  end.

(* ---- NTS pool (nts_pool.rs).  The model mirrors the REPAIRED code (branch fix-c35-nts: the
   resolved socket address is kept per source and a key exchange result whose resolved address
   already has a source is skipped); the loop of the unrepaired code (no address test) is kept,
   with chk = false, only to exhibit the defect.  The TCP connection, the key exchange and the
   resolution of the server the key exchange names are oracles.  One loop iteration of
   try_spawn: ---- *)
Inductive ke_outcome :=
| KeNoLookup                                  (* lookup() returned None: return Ok(()) *)
| KeOk (srv_name : option Z) (ke_remote : Z) (resolved : option Z)
                                              (* exchange_keys Ok; names are abstract identifiers;
                                                 resolved: the socket address (ip and port, one
                                                 abstract identifier) resolve_single_ntp_server
                                                 gives for ke_remote:ke_port, None = no address *)
| KeError                                     (* Ok(Err(e)): break *)
| KeTimeout.                                  (* Err(_): next iteration *)

(* current_sources: (ClockId, (remote name, socket address)) *)
Record ntspool := mkntspool { ncurrent : list (Z * (Z * Z)); nnext_id : Z }.
Definition nnames (cur : list (Z * (Z * Z))) : list Z := map (fun p => fst (snd p)) cur.
Definition naddrs (cur : list (Z * (Z * Z))) : list Z := map (fun p => snd (snd p)) cur.

Definition has_remote (name : Z) (cur : list (Z * (Z * Z))) : bool := memZ name (nnames cur).
Definition has_addr (a : Z) (cur : list (Z * (Z * Z))) : bool := memZ a (naddrs cur).

(* `for _ in 0..count.saturating_sub(current.len())` with one oracle outcome per iteration
   (a missing outcome is read as KeNoLookup) *)
Fixpoint nts_iter_with (chk : bool) (k : nat) (outs : list ke_outcome) (st : ntspool)
  : ntspool * list (Z * (Z * Z)) :=
  match k with
  | O => (st, [])
  | S k' =>
      match outs with
      | [] | KeNoLookup :: _ => (st, [])
      | KeError :: _ => (st, [])
      | KeTimeout :: r => nts_iter_with chk k' r st
      | KeOk srv remote resolved :: r =>
          let key := match srv with Some s => s | None => remote end in
          if has_remote key (ncurrent st) then nts_iter_with chk k' r st   (* "address we already had" *)
          else match resolved with
               | None => nts_iter_with chk k' r st
               | Some a =>
                   if chk && has_addr a (ncurrent st) then nts_iter_with chk k' r st   (* fix-c35-nts: continue *)
                   else
                     let st' := mkntspool (ncurrent st ++ [(nnext_id st, (key, a))]) (nnext_id st + 1) in
                     let res := nts_iter_with chk k' r st' in (fst res, (nnext_id st, (key, a)) :: snd res)
               end
      end
  end.
Definition nts_iter := nts_iter_with true.

Definition nts_try_spawn_with (chk : bool) (n : nat) (st : ntspool) (outs : list ke_outcome) :=
  nts_iter_with chk (n - length (ncurrent st)) outs st.
Definition nts_try_spawn := nts_try_spawn_with true.
Definition nts_removed (st : ntspool) (id : Z) : ntspool :=
  mkntspool (filter (fun p => negb (fst p =? id)) (ncurrent st)) (nnext_id st).

Inductive nts_op := NtsTrySpawn (outs : list ke_outcome) | NtsRemoved (id : Z).
Fixpoint nts_exec_with (chk : bool) (n : nat) (ops : list nts_op) (st : ntspool) : ntspool :=
  match ops with
  | [] => st
  | NtsTrySpawn outs :: r => nts_exec_with chk n r (fst (nts_try_spawn_with chk n st outs))
  | NtsRemoved id :: r => nts_exec_with chk n r (nts_removed st id)
  end.
Definition nts_exec := nts_exec_with true.
Definition nts_exec_unrepaired := nts_exec_with false.

(* ---- NTS pool: encoding for the correspondence check (harness/ntpd/c35n.rs) ----
   The harness runs a key exchange server on a loopback port whose behaviour per accepted
   connection is scripted; with enable_srv_resolution = false every loop iteration of try_spawn
   makes exactly one connection attempt, so the script IS the list of oracle outcomes:
     connection refused (listener closed)            -> KeNoLookup
     answer naming server k and port p               -> KeOk None k (the address of k:p, if any)
     connection dropped / no common protocol         -> KeError
     accepted and never answered (NTS_TIMEOUT, 5 s)  -> KeTimeout *)
Definition nts_is_complete (n : nat) (st : ntspool) : bool := (n <=? length (ncurrent st))%nat.

(* the number of connections the key exchange server accepts during one try_spawn with k loop
   iterations (independent of the state: every outcome that does not end the loop uses up exactly
   one iteration) *)
Fixpoint nts_conns (k : nat) (outs : list ke_outcome) : Z :=
  match k with
  | O => 0
  | S k' =>
      match outs with
      | [] | KeNoLookup :: _ => 0
      | KeError :: _ => 1
      | _ :: r => 1 + nts_conns k' r
      end
  end.

Fixpoint enc_nsources (l : list (Z * (Z * Z))) : list Z :=
  match l with [] => [] | (i, (k, a)) :: r => i :: k :: a :: enc_nsources r end.

(* per op: NtsTrySpawn -> [connections; n; (id name address)*n; complete]   NtsRemoved -> [complete]
   at the end: [|current_sources|; (id name address)*] *)
Fixpoint run_nts_ops (n : nat) (ops : list nts_op) (st : ntspool) : list Z :=
  match ops with
  | [] => Z.of_nat (length (ncurrent st)) :: enc_nsources (ncurrent st)
  | NtsTrySpawn outs :: r =>
      let s := nts_try_spawn n st outs in
      nts_conns (n - length (ncurrent st)) outs :: Z.of_nat (length (snd s)) :: enc_nsources (snd s)
        ++ b2z (nts_is_complete n (fst s)) :: run_nts_ops n r (fst s)
  | NtsRemoved id :: r =>
      let s := nts_removed st id in
      b2z (nts_is_complete n s) :: run_nts_ops n r s
  end.

Definition run_nts (i : nat * list nts_op) : list Z :=
  run_nts_ops (fst i) (snd i) (mkntspool [] 0).

(* ---- NTS pool with enable_srv_resolution = true: lookup() takes resolutions from the queue
   known_resolutions.  The harness replaces the queue before every try_spawn by scripted
   resolutions (each with its own port and scripted server behaviour) that end with a plain
   resolution whose port is closed, so the queue never runs empty without a connection error and
   the DNS is never asked.  The queue determines the oracle outcomes of the loop iterations: ---- *)
Inductive srv_beh :=
| SbOk (ke_remote : Z) (resolved : option Z) (* key exchange completes *)
| SbError                                    (* connection dropped / no common protocol *)
| SbTimeout                                  (* never answered *)
| SbRefused.                                 (* nothing listens at the resolved address *)
(* a KeResolutionResult: the SRV record name (if any) and what happens at its address *)
Definition srv_entry := (option Z * srv_beh)%type.

(* the `while let Some(addr) = known_resolutions.pop_front()` loop of lookup(): resolutions whose
   SRV name already has a source are dropped, so are those that cannot be connected to; the
   result is the resolution connected to (None: queue exhausted) and the queue left *)
Fixpoint srv_lookup (q : list srv_entry) (cur : list (Z * (Z * Z))) : option srv_entry * list srv_entry :=
  match q with
  | [] => (None, [])
  | (srv, b) :: r =>
      if match srv with Some s => has_remote s cur | None => false end then srv_lookup r cur
      else match b with
           | SbRefused => srv_lookup r cur
           | _ => (Some (srv, b), r)
           end
  end.

Definition srv_outcome (e : srv_entry) : ke_outcome :=
  match snd e with
  | SbOk remote resolved => KeOk (fst e) remote resolved
  | SbError => KeError
  | SbTimeout => KeTimeout
  | SbRefused => KeNoLookup
  end.

(* the outcomes of the (at most k) loop iterations of one try_spawn and the queue afterwards; the
   state between iterations is advanced with the model's own single iteration *)
Fixpoint srv_outcomes (k : nat) (q : list srv_entry) (st : ntspool) : list ke_outcome * list srv_entry :=
  match k with
  | O => ([], q)
  | S k' =>
      match srv_lookup q (ncurrent st) with
      | (None, r) => ([KeNoLookup], r)
      | (Some e, r) =>
          let o := srv_outcome e in
          match o with
          | KeError => ([o], r)
          | _ => let res := srv_outcomes k' r (fst (nts_iter 1 [o] st)) in (o :: fst res, snd res)
          end
      end
  end.

Inductive srv_op := SrvTrySpawn (q : list srv_entry) | SrvRemoved (id : Z).

(* like run_nts_ops, with the length of known_resolutions after each try_spawn in addition; the
   spawner's step is nts_try_spawn on the outcomes the queue determines *)
Fixpoint run_srv_ops (n : nat) (ops : list srv_op) (st : ntspool) : list Z :=
  match ops with
  | [] => Z.of_nat (length (ncurrent st)) :: enc_nsources (ncurrent st)
  | SrvTrySpawn q :: r =>
      let k := (n - length (ncurrent st))%nat in
      let oq := srv_outcomes k q st in
      let s := nts_try_spawn n st (fst oq) in
      nts_conns k (fst oq) :: Z.of_nat (length (snd s)) :: enc_nsources (snd s)
        ++ b2z (nts_is_complete n (fst s)) :: Z.of_nat (length (snd oq)) :: run_srv_ops n r (fst s)
  | SrvRemoved id :: r =>
      let s := nts_removed st id in
      b2z (nts_is_complete n s) :: run_srv_ops n r s
  end.

Definition run_srv (i : nat * list srv_op) : list Z :=
  run_srv_ops (fst i) (snd i) (mkntspool [] 0).

(* both kinds of NTS pool case in one list for the checker *)
Definition run_nts_any (i : nat * (list nts_op + list srv_op)) : list Z :=
  match snd i with
  | inl ops => run_nts (fst i, ops)
  | inr ops => run_srv (fst i, ops)
  end.
Definition nts_case (n : nat) (ops : list nts_op) : nat * (list nts_op + list srv_op) := (n, inl ops).
Definition srv_case (n : nat) (ops : list srv_op) : nat * (list nts_op + list srv_op) := (n, inr ops).

(* ---- link between the functions compared with the code and nts_exec (lemmas in Proofs/Pool.v) ---- *)
Definition nts_final (st : ntspool) : list Z :=
  Z.of_nat (length (ncurrent st)) :: enc_nsources (ncurrent st).

(* the oracle outcomes the scripted queues determine, as a history of the oracle model *)
Fixpoint srv_to_nts (n : nat) (ops : list srv_op) (st : ntspool) : list nts_op :=
  match ops with
  | [] => []
  | SrvTrySpawn q :: r =>
      let outs := fst (srv_outcomes (n - length (ncurrent st)) q st) in
      NtsTrySpawn outs :: srv_to_nts n r (fst (nts_try_spawn n st outs))
  | SrvRemoved id :: r => NtsRemoved id :: srv_to_nts n r (nts_removed st id)
  end.
