(* Model of ntpd/src/daemon/sockets.rs write_json / read_json: the length-
   prefixed JSON framing of the observation socket, over byte lists, generic
   in the payload codec (serde_json is not modelled: [encode]/[decode] are
   parameters).  Also the duration codec of the payload (NtpDuration is
   serialised as float seconds).  Definitions only. *)
From V Require Export Base.Prelude.
From V Require Export Base.D3Float.
From V Require Import Gen.ConstFraming.

Definition MAX_JSON_MESSAGE_SIZE : Z := 2 ^ MAX_JSON_MESSAGE_SIZE_LOG2.
Definition HEADER_SIZE : Z := 8.           (* write_u64 / read_u64: big endian *)
Definition USIZE_MAX : Z := 2 ^ 64 - 1.    (* 64-bit targets *)

(* std::io::Error classes of read_json *)
Definition E_EOF : Z := 1.                 (* UnexpectedEof from read_u64 / read_exact *)
Definition E_TOO_LARGE : Z := 2.           (* InvalidInput "message too large" *)
Definition E_UNREPRESENTABLE : Z := 3.     (* InvalidInput "message size cannot be represented" *)
Definition E_DECODE : Z := 4.              (* InvalidInput wrapping the serde_json error *)
Definition P_TO_VEC_UNWRAP : Z := 3801.    (* serde_json::to_vec(value).unwrap() *)

(* big-endian bytes of a u64 *)
Fixpoint be_bytes (n : nat) (z : Z) : list Z :=
  match n with
  | O => []
  | S k => (z / 256 ^ Z.of_nat k) mod 256 :: be_bytes k z
  end.

Section Codec.
  Context {V : Type}.
  Variable encode : V -> option (list Z).   (* serde_json::to_vec; None = serialisation error *)
  Variable decode : list Z -> option V.     (* serde_json::from_slice *)

  (* write_json: the bytes appended to the stream *)
  Definition write_json (v : V) : res (list Z) :=
    match encode v with
    | None => Panic P_TO_VEC_UNWRAP
    | Some bytes => Ok (be_bytes 8 (Z.of_nat (length bytes)) ++ bytes)
    end.

  (* read_json on the bytes available in the stream (then end of stream):
     result, number of bytes consumed from the stream, length of the caller's
     buffer afterwards *)
  Record read_result := mk_rr { rr_value : res V; rr_consumed : Z; rr_buffer_len : Z }.

  Definition read_json (stream : list Z) : read_result :=
    let avail := Z.of_nat (length stream) in
    if avail <? HEADER_SIZE then mk_rr (Err E_EOF) avail 0
    else
      let msg_size := be_Z (firstn 8 stream) in
      if msg_size >? MAX_JSON_MESSAGE_SIZE then mk_rr (Err E_TOO_LARGE) HEADER_SIZE 0
      else if msg_size >? USIZE_MAX then mk_rr (Err E_UNREPRESENTABLE) HEADER_SIZE 0
      else
        let rest := skipn 8 stream in
        if Z.of_nat (length rest) <? msg_size then mk_rr (Err E_EOF) avail msg_size
        else
          match decode (firstn (Z.to_nat msg_size) rest) with
          | Some v => mk_rr (Ok v) (HEADER_SIZE + msg_size) msg_size
          | None => mk_rr (Err E_DECODE) (HEADER_SIZE + msg_size) msg_size
          end.
End Codec.

(* the payload's duration codec: Serialize = to_seconds, Deserialize =
   from_seconds of a finite float (the JSON text of a finite f64 is assumed to
   parse back to the same f64: checked at run time, see the X cases) *)
Definition duration_roundtrip (d : Z) : Z := from_seconds (to_seconds d).

(* ---- executable instance for the correspondence: the payload codec is an
   oracle bit (does serde_json accept the payload slice?), the stream content
   beyond the header is irrelevant ---- *)
Definition oracle_decode (ok : bool) (payload : list Z) : option unit :=
  if ok then Some tt else None.
Definition class_of {A} (r : res A) : Z :=
  match r with Ok _ => 0 | Err e => e | Panic p => -1 end.
(* R: (header bytes actually present, bytes present after the header, oracle) *)
Definition run_read (hdr : list Z) (avail : Z) (ok : bool) : list Z :=
  let r := read_json (oracle_decode ok) (hdr ++ repeat 0 (Z.to_nat avail)) in
  [class_of (rr_value r); rr_consumed r; rr_buffer_len r].
(* W: payload length -> header value and total length written *)
Definition run_write (payload_len : Z) : list Z :=
  match write_json (fun n : Z => Some (repeat 0 (Z.to_nat n))) payload_len with
  | Ok bs => [be_Z (firstn 8 bs); Z.of_nat (length bs)]
  | _ => [-1]
  end.

Inductive c38_case :=
| CRead (hdr : list Z) (avail : Z) (ok : bool)
| CDurations (payload_len : Z) (raws : list Z)       (* raw durations written -> raw durations read *)
| CStateDurations (payload_len : Z) (secs : list Z)  (* f64 bits given in the JSON -> (before, after) raws *)
| CFloats (payload_len : Z).

Definition run_c38 (c : c38_case) : list Z :=
  match c with
  | CRead h a ok => run_read h a ok
  | CDurations n ds => run_write n ++ map duration_roundtrip ds
  | CStateDurations n bs =>
      run_write n ++
      flat_map (fun b => let d := from_seconds (f64_of_bits b) in [d; duration_roundtrip d]) bs
  | CFloats n => run_write n
  end.

Fixpoint frm_list_eqb (a b : list Z) : bool :=
  match a, b with
  | [], [] => true
  | x :: a', y :: b' => (x =? y) && frm_list_eqb a' b'
  | _, _ => false
  end.
