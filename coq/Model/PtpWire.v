(* Model of the PTP wire codec of statime-wire (messages/mod.rs, messages/header.rs,
   the ten body files, common/{timestamp,time_interval,port_identity,clock_identity,
   clock_quality,clock_accuracy,time_source,tlv}.rs) on the REPAIRED tree (branch fix-c41):
     - TlvSet::deserialize loops `while buffer.len() >= 4`, the iterator stops at `< 4`;
     - TlvSetBuilder::add refuses odd-length values;
     - serialisation refuses values without a wire encoding (version nibbles >= 16,
       ClockAccuracy::ProfileSpecific(v) with v > 0x7d, TimeSource::ProfileSpecific/Reserved
       payloads that decode to another variant).
   Definitions only.  Bytes are Z in 0..255, byte strings are lists.  Release semantics. *)
From V Require Export Base.Prelude.

Definition bytes := list Z.

(* error classes of statime_wire::Error *)
Definition E_SHORT : Z := 1.     (* Error::BufferTooShort *)
Definition E_INVALID : Z := 2.   (* Error::Invalid *)
Definition E_FUEL : Z := 99.     (* model artefact, excluded by tlv_scan_fuel_ok *)

(* panic sites *)
Definition P_TLV_ITER_UNWRAP : Z := 4101.  (* TlvSetIterator::next: Tlv::deserialize(..).unwrap() *)

(* ---------- integers on the wire ---------- *)
(* n-byte big-endian two's-complement encoding of v (to_be_bytes of the n-byte integer type) *)
Fixpoint be (n : nat) (v : Z) : bytes :=
  match n with
  | O => []
  | S k => be k (v / 256) ++ [v mod 256]
  end.
Definition unbe (l : bytes) : Z := fold_left (fun a b => a * 256 + b) l 0.

Definition slice (a b : nat) (l : bytes) : bytes := firstn (b - a) (skipn a l).
Definition byte (i : nat) (l : bytes) : Z := nth i l 0.
Definition b2z (b : bool) : Z := if b then 1 else 0.
Definition bit (k : Z) (x : Z) : bool := Z.land x (2 ^ k) >? 0.

(* ---------- common types ---------- *)
Record timestamp := mkTs { ts_secs : Z; ts_nanos : Z }.
Record port_id := mkPid { pid_clock : bytes (* 8 bytes *); pid_port : Z }.

(* ClockAccuracy: the 27 named accuracies 0x17..0x31 are kept by their code *)
Inductive accuracy := AccReserved | AccNamed (code : Z) | AccProfile (v : Z) | AccUnknown.
Record clock_quality := mkCq { cq_class : Z; cq_acc : accuracy; cq_var : Z }.

Inductive time_source :=
| TsAtomicClock | TsGnss | TsTerrestrialRadio | TsSerialTimeCode | TsPtp | TsNtp | TsHandSet
| TsOther | TsInternalOscillator | TsProfile (v : Z) | TsReserved (v : Z).

Inductive mgmt_action := MaReserved | MaGet | MaSet | MaResponse | MaCommand | MaAcknowledge.

(* Timestamp::deserialize on a slice: get(0..6), get(6..10), nanos > 10^9 rejected (sic: 10^9 itself passes) *)
Definition ts_de (b : bytes) : res timestamp :=
  if (length b <? 6)%nat then Err E_SHORT else
  if (length b <? 10)%nat then Err E_SHORT else
  let nanos := unbe (slice 6 10 b) in
  if nanos >? 1000000000 then Err E_INVALID
  else Ok (mkTs (unbe (slice 0 6 b)) nanos).
Definition ts_ser (t : timestamp) : bytes := be 6 (ts_secs t) ++ be 4 (ts_nanos t).

Definition pid_de (b : bytes) : port_id := mkPid (slice 0 8 b) (unbe (slice 8 10 b)).
Definition pid_ser (p : port_id) : bytes := pid_clock p ++ be 2 (pid_port p).

Definition acc_to_prim (a : accuracy) : Z :=
  match a with
  | AccReserved => 0
  | AccNamed c => c
  | AccProfile v => (128 + v) mod 256       (* 0x80 + value, u8, release wrap *)
  | AccUnknown => 254
  end.
Definition acc_from_prim (x : Z) : accuracy :=
  if (x <=? 22) || ((50 <=? x) && (x <=? 127)) || (x =? 255) then AccReserved
  else if x <=? 49 then AccNamed x
  else if x =? 254 then AccUnknown
  else AccProfile (x - 128).
(* repaired ClockQuality::serialize: Err(Invalid) for ProfileSpecific(v), v > 0x7d *)
Definition acc_encodable (a : accuracy) : bool :=
  match a with AccProfile v => v <=? 125 | _ => true end.
Definition cq_ser (q : clock_quality) : bytes :=
  [cq_class q; acc_to_prim (cq_acc q)] ++ be 2 (cq_var q).
Definition cq_de (b : bytes) : clock_quality :=
  mkCq (byte 0 b) (acc_from_prim (byte 1 b)) (unbe (slice 2 4 b)).

Definition tsrc_to_prim (t : time_source) : Z :=
  match t with
  | TsAtomicClock => 16 | TsGnss => 32 | TsTerrestrialRadio => 48 | TsSerialTimeCode => 57
  | TsPtp => 64 | TsNtp => 80 | TsHandSet => 96 | TsOther => 144 | TsInternalOscillator => 160
  | TsProfile v => v | TsReserved v => v
  end.
Definition tsrc_from_prim (x : Z) : time_source :=
  if x =? 16 then TsAtomicClock else if x =? 32 then TsGnss else if x =? 48 then TsTerrestrialRadio
  else if x =? 57 then TsSerialTimeCode else if x =? 64 then TsPtp else if x =? 80 then TsNtp
  else if x =? 96 then TsHandSet else if x =? 144 then TsOther else if x =? 160 then TsInternalOscillator
  else if (240 <=? x) && (x <=? 254) then TsProfile x else TsReserved x.
Definition tsrc_eqb (a b : time_source) : bool :=
  match a, b with
  | TsAtomicClock, TsAtomicClock | TsGnss, TsGnss | TsTerrestrialRadio, TsTerrestrialRadio
  | TsSerialTimeCode, TsSerialTimeCode | TsPtp, TsPtp | TsNtp, TsNtp | TsHandSet, TsHandSet
  | TsOther, TsOther | TsInternalOscillator, TsInternalOscillator => true
  | TsProfile x, TsProfile y => x =? y
  | TsReserved x, TsReserved y => x =? y
  | _, _ => false
  end.
(* repaired AnnounceMessage::serialize_content: from_primitive(to_primitive(t)) != t => Err(Invalid) *)
Definition tsrc_encodable (t : time_source) : bool := tsrc_eqb (tsrc_from_prim (tsrc_to_prim t)) t.

Definition action_to_prim (a : mgmt_action) : Z :=
  match a with MaGet => 0 | MaSet => 1 | MaResponse => 2 | MaCommand => 3 | MaAcknowledge => 4 | MaReserved => 5 end.
Definition action_from_prim (x : Z) : mgmt_action :=
  if x =? 0 then MaGet else if x =? 1 then MaSet else if x =? 2 then MaResponse
  else if x =? 3 then MaCommand else if x =? 4 then MaAcknowledge else MaReserved.

(* ---------- header ---------- *)
Record header := mkHeader {
  h_sdo : Z;            (* SdoId, 12 bits (type invariant) *)
  h_vmajor : Z; h_vminor : Z;
  h_domain : Z;
  h_alt_master : bool; h_two_step : bool; h_unicast : bool; h_prof1 : bool; h_prof2 : bool;
  h_leap61 : bool; h_leap59 : bool; h_utc_valid : bool; h_ptp_timescale : bool;
  h_time_traceable : bool; h_freq_traceable : bool; h_sync_uncertain : bool;
  h_correction : Z;     (* i64 *)
  h_source : port_id;
  h_seq : Z;
  h_log_interval : Z    (* i8 *)
}.

(* MessageType::try_from(u8) *)
Definition msgtype_ok (t : Z) : bool :=
  (t =? 0) || (t =? 1) || (t =? 2) || (t =? 3) || (t =? 8) || (t =? 9) || (t =? 10) || (t =? 11) || (t =? 12) || (t =? 13).

Definition flags6 (h : header) : Z :=
  b2z (h_alt_master h) + 2 * b2z (h_two_step h) + 4 * b2z (h_unicast h)
  + 32 * b2z (h_prof1 h) + 64 * b2z (h_prof2 h).
Definition flags7 (h : header) : Z :=
  b2z (h_leap61 h) + 2 * b2z (h_leap59 h) + 4 * b2z (h_utc_valid h) + 8 * b2z (h_ptp_timescale h)
  + 16 * b2z (h_time_traceable h) + 32 * b2z (h_freq_traceable h) + 64 * b2z (h_sync_uncertain h).

(* repaired Header::serialize_header refuses version nibbles >= 16 (Header::new(minor) does not validate) *)
Definition version_encodable (h : header) : bool := (h_vmajor h <? 16) && (h_vminor h <? 16).

(* the 34 bytes written by Header::serialize_header (all 34 positions are written) *)
Definition ser_header (h : header) (ty : Z) (mlen : Z) : bytes :=
  [ Z.lor ((((h_sdo h / 256) mod 256) * 16) mod 256) (Z.land ty 15);
    Z.lor (((h_vminor h) * 16) mod 256) (h_vmajor h) ]
  ++ be 2 mlen
  ++ [ h_domain h; (h_sdo h) mod 256; flags6 h; flags7 h ]
  ++ be 8 (h_correction h)
  ++ [0; 0; 0; 0]
  ++ pid_ser (h_source h)
  ++ be 2 (h_seq h)
  ++ [0; (h_log_interval h) mod 256].

(* Header::deserialize_header, for a buffer of at least 34 bytes: (header, type nibble, message_length) *)
Definition de_header (b : bytes) : header * Z * Z :=
  let b0 := byte 0 b in let b6 := byte 6 b in let b7 := byte 7 b in
  (mkHeader
     (Z.lor ((Z.land b0 240) * 16) (byte 5 b))
     (Z.land (byte 1 b) 15) ((byte 1 b) / 16)
     (byte 4 b)
     (bit 0 b6) (bit 1 b6) (bit 2 b6) (bit 5 b6) (bit 6 b6)
     (bit 0 b7) (bit 1 b7) (bit 2 b7) (bit 3 b7) (bit 4 b7) (bit 5 b7) (bit 6 b7)
     (to_signed 64 (unbe (slice 8 16 b)))
     (pid_de (slice 20 30 b))
     (unbe (slice 30 32 b))
     (to_signed 8 (byte 33 b)),
   Z.land b0 15,
   unbe (slice 2 4 b)).

(* ---------- bodies ---------- *)
Inductive body :=
| Sync (origin : timestamp)
| DelayReq (origin : timestamp)
| PDelayReq (origin : timestamp)
| PDelayResp (t : timestamp) (p : port_id)
| FollowUp (precise_origin : timestamp)
| DelayResp (t : timestamp) (p : port_id)
| PDelayRespFollowUp (t : timestamp) (p : port_id)
| Announce (origin : timestamp) (utc_offset : Z) (prio1 : Z) (q : clock_quality) (prio2 : Z)
           (gm : bytes) (steps : Z) (src : time_source)
| Signaling (target : port_id)
| Management (target : port_id) (start_hops hops : Z) (action : mgmt_action).

Definition body_type (b : body) : Z :=
  match b with
  | Sync _ => 0 | DelayReq _ => 1 | PDelayReq _ => 2 | PDelayResp _ _ => 3 | FollowUp _ => 8
  | DelayResp _ _ => 9 | PDelayRespFollowUp _ _ => 10 | Announce _ _ _ _ _ _ _ _ => 11
  | Signaling _ => 12 | Management _ _ _ _ => 13
  end.
Definition type_size (t : Z) : nat :=
  if t =? 0 then 10 else if t =? 1 then 10 else if t =? 2 then 20 else if t =? 3 then 20
  else if t =? 8 then 10 else if t =? 9 then 20 else if t =? 10 then 20 else if t =? 11 then 30
  else if t =? 12 then 10 else 14.
Definition body_size (b : body) : nat := type_size (body_type b).

Definition body_encodable (b : body) : bool :=
  match b with
  | Announce _ _ _ q _ _ _ src => acc_encodable (cq_acc q) && tsrc_encodable src
  | _ => true
  end.

(* what serialize_content leaves in the body area; [old] is the previous content of that
   area (announce leaves its byte 12 and management its byte 10 untouched) *)
Definition ser_body (b : body) (old : bytes) : bytes :=
  match b with
  | Sync t | DelayReq t | FollowUp t => ts_ser t
  | PDelayReq t => ts_ser t ++ [0; 0; 0; 0; 0; 0; 0; 0; 0; 0]
  | PDelayResp t p | DelayResp t p | PDelayRespFollowUp t p => ts_ser t ++ pid_ser p
  | Announce t utc p1 q p2 gm steps src =>
      ts_ser t ++ be 2 utc ++ [byte 12 old; p1] ++ cq_ser q ++ [p2] ++ gm ++ be 2 steps ++ [tsrc_to_prim src]
  | Signaling p => pid_ser p
  | Management p s hp a => pid_ser p ++ [byte 10 old; s; hp; action_to_prim a]
  end.

(* MessageBody::deserialize(message_type, buffer) *)
Definition de_body (ty : Z) (b : bytes) : res body :=
  if (length b <? type_size ty)%nat then Err E_SHORT else
  if ty =? 0 then do t <- ts_de (slice 0 10 b); Ok (Sync t)
  else if ty =? 1 then do t <- ts_de (slice 0 10 b); Ok (DelayReq t)
  else if ty =? 2 then do t <- ts_de (slice 0 20 b); Ok (PDelayReq t)
  else if ty =? 3 then do t <- ts_de (slice 0 10 b); Ok (PDelayResp t (pid_de (slice 10 20 b)))
  else if ty =? 8 then do t <- ts_de (slice 0 10 b); Ok (FollowUp t)
  else if ty =? 9 then do t <- ts_de (slice 0 10 b); Ok (DelayResp t (pid_de (slice 10 20 b)))
  else if ty =? 10 then do t <- ts_de (slice 0 10 b); Ok (PDelayRespFollowUp t (pid_de (slice 10 20 b)))
  else if ty =? 11 then
    do t <- ts_de (slice 0 10 b);
    Ok (Announce t (to_signed 16 (unbe (slice 10 12 b))) (byte 13 b) (cq_de (slice 14 18 b)) (byte 18 b)
                 (slice 19 27 b) (unbe (slice 27 29 b)) (tsrc_from_prim (byte 29 b)))
  else if ty =? 12 then Ok (Signaling (pid_de (slice 0 10 b)))
  else Ok (Management (pid_de (slice 0 10 b)) (byte 11 b) (byte 12 b) (action_from_prim (byte 13 b))).

(* ---------- TLV sets ---------- *)
(* TlvSet::deserialize (repaired: `while buffer.len() >= 4`): the number of bytes consumed *)
Fixpoint tlv_scan (fuel : nat) (buf : bytes) (total : nat) : res nat :=
  match fuel with
  | O => Err E_FUEL
  | S f =>
      if (4 <=? length buf)%nat then
        let len := unbe [byte 2 buf; byte 3 buf] in
        if Z.odd len then Err E_INVALID
        else if (length buf <? 4 + Z.to_nat len)%nat then Err E_SHORT
        else tlv_scan f (skipn (4 + Z.to_nat len) buf) (total + 4 + Z.to_nat len)
      else if (length buf =? 0)%nat then Ok total
      else Err E_SHORT
  end.
Definition tlvset_de (buf : bytes) : res bytes :=
  do total <- tlv_scan (S (length buf)) buf 0; Ok (firstn total buf).

(* TlvSet::tlvs(): the iterator (repaired: stops when fewer than 4 bytes remain);
   a TLV is (type as u16, value).  TlvType::from_primitive is injective on the named
   types, so comparing the enum equals comparing the u16 (checked exhaustively by the harness). *)
Definition tlv := (Z * bytes)%type.
Fixpoint tlv_iter (fuel : nat) (buf : bytes) : res (list tlv) :=
  match fuel with
  | O => Err E_FUEL
  | S f =>
      if (length buf <? 4)%nat then Ok []
      else
        let len := Z.to_nat (unbe [byte 2 buf; byte 3 buf]) in
        if (length buf <? 4 + len)%nat then Panic P_TLV_ITER_UNWRAP
        else do rest <- tlv_iter f (skipn (4 + len) buf);
             Ok ((unbe [byte 0 buf; byte 1 buf], slice 4 (4 + len) buf) :: rest)
  end.
Definition tlvs (set : bytes) : res (list tlv) := tlv_iter (S (length set)) set.

(* Tlv::serialize + TlvSetBuilder::add (repaired: odd value length => Invalid) over a backing
   buffer of [cap] bytes; the builder state is the bytes written so far *)
Definition tlv_ser (t : tlv) : bytes := be 2 (fst t) ++ be 2 (Z.of_nat (length (snd t))) ++ snd t.
Definition builder_add (cap : nat) (used : bytes) (t : tlv) : res bytes :=
  let n := length (snd t) in
  if Nat.odd n then Err E_INVALID
  else if 65535 <? Z.of_nat n then Err E_INVALID
  else if (cap - length used <? 4 + n)%nat then Err E_SHORT
  else Ok (used ++ tlv_ser t).
Fixpoint builder_add_all (cap : nat) (used : bytes) (ts : list tlv) : res bytes :=
  match ts with
  | [] => Ok used
  | t :: r => do u <- builder_add cap used t; builder_add_all cap u r
  end.
Definition build_tlvs (cap : nat) (ts : list tlv) : res bytes := builder_add_all cap [] ts.

(* ---------- messages ---------- *)
Record message := mkMsg { m_header : header; m_body : body; m_suffix : bytes }.

(* Message::serialize into [buf]: the written prefix *)
Definition msg_serialize (m : message) (buf : bytes) : res bytes :=
  let n := length buf in
  let bs := body_size (m_body m) in
  if (n <? 34)%nat then Err E_SHORT
  else if (n - 34 <? bs)%nat then Err E_SHORT
  else if 65535 <? Z.of_nat (34 + bs + length (m_suffix m)) then Err E_INVALID
  else if negb (version_encodable (m_header m)) then Err E_INVALID
  else if negb (body_encodable (m_body m)) then Err E_INVALID
  else if (n - 34 - bs <? length (m_suffix m))%nat then Err E_SHORT
  else Ok (ser_header (m_header m) (body_type (m_body m)) (Z.of_nat (34 + bs + length (m_suffix m)))
           ++ ser_body (m_body m) (slice 34 (34 + bs) buf)
           ++ m_suffix m).

(* Message::deserialize *)
Definition msg_deserialize (buf : bytes) : res message :=
  if (length buf <? 34)%nat then Err E_SHORT else
  let '(h, ty, mlen) := de_header buf in
  if negb (msgtype_ok ty) then Err E_INVALID
  else if mlen <? 34 then Err E_INVALID
  else if (length buf <? Z.to_nat mlen)%nat then Err E_SHORT
  else
    let content := slice 34 (Z.to_nat mlen) buf in
    do b <- de_body ty content;
    do suffix <- tlvset_de (skipn (body_size b) content);
    Ok (mkMsg h b suffix).

Definition message_length (buf : bytes) : nat := Z.to_nat (unbe (slice 2 4 buf)).

(* ---------- the reserved-position mask of C41_de_ser ---------- *)
(* what re-serialisation writes at position i of a message of type ty whose input byte there was x:
   reserved header bits and bytes, the control byte, reserved body bytes are transmitted as zero;
   enumerations are written with the canonical code of the value they were read as *)
Definition norm_byte (ty : Z) (i : nat) (x : Z) : Z :=
  if (i =? 6)%nat then Z.land x 103          (* 0x67: bits 3, 4, 7 reserved *)
  else if (i =? 7)%nat then Z.land x 127     (* bit 7 reserved *)
  else if ((16 <=? i) && (i <=? 19))%nat then 0
  else if (i =? 32)%nat then 0
  else if (ty =? 2) && ((44 <=? i) && (i <=? 53))%nat then 0
  else if (ty =? 11) && (i =? 46)%nat then 0
  else if (ty =? 11) && (i =? 49)%nat then acc_to_prim (acc_from_prim x)
  else if (ty =? 13) && (i =? 44)%nat then 0
  else if (ty =? 13) && (i =? 47)%nat then action_to_prim (action_from_prim x)
  else x.
Fixpoint mapi_from {A B} (f : nat -> A -> B) (i : nat) (l : list A) : list B :=
  match l with [] => [] | x :: r => f i x :: mapi_from f (S i) r end.
Definition normalise (b : bytes) : bytes := mapi_from (norm_byte (Z.land (byte 0 b) 15)) 0 b.

(* ---------- type invariants of the Rust values (ranges of the machine types) ---------- *)
Definition is_byte (x : Z) : Prop := 0 <= x < 256.
Definition bytes_ok (l : bytes) : Prop := Forall is_byte l.
Definition ts_ok (t : timestamp) : Prop := 0 <= ts_secs t < 2 ^ 48 /\ 0 <= ts_nanos t <= 1000000000.
Definition pid_ok (p : port_id) : Prop := bytes_ok (pid_clock p) /\ length (pid_clock p) = 8%nat /\ 0 <= pid_port p < 65536.
Definition acc_ok (a : accuracy) : Prop :=
  match a with AccNamed c => 23 <= c <= 49 | AccProfile v => is_byte v | _ => True end.
Definition cq_ok (q : clock_quality) : Prop := is_byte (cq_class q) /\ acc_ok (cq_acc q) /\ 0 <= cq_var q < 65536.
Definition tsrc_ok (t : time_source) : Prop :=
  match t with TsProfile v | TsReserved v => is_byte v | _ => True end.
Definition header_ok (h : header) : Prop :=
  0 <= h_sdo h < 4096 /\ is_byte (h_vmajor h) /\ is_byte (h_vminor h) /\ is_byte (h_domain h)
  /\ - 2 ^ 63 <= h_correction h < 2 ^ 63 /\ pid_ok (h_source h) /\ 0 <= h_seq h < 65536
  /\ -128 <= h_log_interval h < 128.
Definition body_ok (b : body) : Prop :=
  match b with
  | Sync t | DelayReq t | PDelayReq t | FollowUp t => ts_ok t
  | PDelayResp t p | DelayResp t p | PDelayRespFollowUp t p => ts_ok t /\ pid_ok p
  | Announce t utc p1 q p2 gm steps src =>
      ts_ok t /\ -32768 <= utc < 32768 /\ is_byte p1 /\ cq_ok q /\ is_byte p2
      /\ bytes_ok gm /\ length gm = 8%nat /\ 0 <= steps < 65536 /\ tsrc_ok src
  | Signaling p => pid_ok p
  | Management p s hp _ => pid_ok p /\ is_byte s /\ is_byte hp
  end.
Definition tlv_ok (t : tlv) : Prop := 0 <= fst t < 65536 /\ bytes_ok (snd t).

(* ---------- flat encodings for the correspondence ---------- *)
Definition enc_ts (t : timestamp) : list Z := [ts_secs t; ts_nanos t].
Definition enc_pid (p : port_id) : list Z := pid_clock p ++ [pid_port p].
Definition enc_acc (a : accuracy) : list Z :=
  match a with AccReserved => [0; 0] | AccNamed c => [1; c] | AccProfile v => [2; v] | AccUnknown => [3; 0] end.
Definition enc_tsrc (t : time_source) : list Z :=
  match t with
  | TsAtomicClock => [0; 0] | TsGnss => [1; 0] | TsTerrestrialRadio => [2; 0] | TsSerialTimeCode => [3; 0]
  | TsPtp => [4; 0] | TsNtp => [5; 0] | TsHandSet => [6; 0] | TsOther => [7; 0] | TsInternalOscillator => [8; 0]
  | TsProfile v => [9; v] | TsReserved v => [10; v]
  end.
Definition enc_action (a : mgmt_action) : Z :=
  match a with MaReserved => 0 | MaGet => 1 | MaSet => 2 | MaResponse => 3 | MaCommand => 4 | MaAcknowledge => 5 end.
Definition enc_header (h : header) : list Z :=
  [h_sdo h; h_vmajor h; h_vminor h; h_domain h;
   b2z (h_alt_master h); b2z (h_two_step h); b2z (h_unicast h); b2z (h_prof1 h); b2z (h_prof2 h);
   b2z (h_leap61 h); b2z (h_leap59 h); b2z (h_utc_valid h); b2z (h_ptp_timescale h);
   b2z (h_time_traceable h); b2z (h_freq_traceable h); b2z (h_sync_uncertain h);
   h_correction h] ++ enc_pid (h_source h) ++ [h_seq h; h_log_interval h].
Definition enc_body (b : body) : list Z :=
  body_type b ::
  match b with
  | Sync t | DelayReq t | PDelayReq t | FollowUp t => enc_ts t
  | PDelayResp t p | DelayResp t p | PDelayRespFollowUp t p => enc_ts t ++ enc_pid p
  | Announce t utc p1 q p2 gm steps src =>
      enc_ts t ++ [utc; p1; cq_class q] ++ enc_acc (cq_acc q) ++ [cq_var q; p2] ++ gm ++ [steps] ++ enc_tsrc src
  | Signaling p => enc_pid p
  | Management p s hp a => enc_pid p ++ [s; hp; enc_action a]
  end.
Definition enc_msg (m : message) : list Z := enc_header (m_header m) ++ enc_body (m_body m) ++ m_suffix m.

(* decoders of the flat encodings (harness input of the serialise operation) *)
Definition nz (i : nat) (l : list Z) : Z := nth i l 0.
Definition zb (z : Z) : bool := negb (z =? 0).
Definition dec_pid (l : list Z) : port_id := mkPid (firstn 8 l) (nz 8 l).
Definition dec_ts (l : list Z) : timestamp := mkTs (nz 0 l) (nz 1 l).
Definition dec_acc (k v : Z) : accuracy :=
  if k =? 0 then AccReserved else if k =? 1 then AccNamed v else if k =? 2 then AccProfile v else AccUnknown.
Definition dec_tsrc (k v : Z) : time_source :=
  if k =? 0 then TsAtomicClock else if k =? 1 then TsGnss else if k =? 2 then TsTerrestrialRadio
  else if k =? 3 then TsSerialTimeCode else if k =? 4 then TsPtp else if k =? 5 then TsNtp
  else if k =? 6 then TsHandSet else if k =? 7 then TsOther else if k =? 8 then TsInternalOscillator
  else if k =? 9 then TsProfile v else TsReserved v.
Definition dec_action (k : Z) : mgmt_action :=
  if k =? 1 then MaGet else if k =? 2 then MaSet else if k =? 3 then MaResponse
  else if k =? 4 then MaCommand else if k =? 5 then MaAcknowledge else MaReserved.
Definition dec_header (l : list Z) : header :=
  mkHeader (nz 0 l) (nz 1 l) (nz 2 l) (nz 3 l)
    (zb (nz 4 l)) (zb (nz 5 l)) (zb (nz 6 l)) (zb (nz 7 l)) (zb (nz 8 l))
    (zb (nz 9 l)) (zb (nz 10 l)) (zb (nz 11 l)) (zb (nz 12 l)) (zb (nz 13 l)) (zb (nz 14 l)) (zb (nz 15 l))
    (nz 16 l) (dec_pid (skipn 17 l)) (nz 26 l) (nz 27 l).
(* body: tag then fields, as produced by enc_body *)
Definition dec_body (l : list Z) : body :=
  let t := nz 0 l in let r := skipn 1 l in
  if t =? 0 then Sync (dec_ts r) else if t =? 1 then DelayReq (dec_ts r)
  else if t =? 2 then PDelayReq (dec_ts r)
  else if t =? 3 then PDelayResp (dec_ts r) (dec_pid (skipn 2 r))
  else if t =? 8 then FollowUp (dec_ts r)
  else if t =? 9 then DelayResp (dec_ts r) (dec_pid (skipn 2 r))
  else if t =? 10 then PDelayRespFollowUp (dec_ts r) (dec_pid (skipn 2 r))
  else if t =? 11 then
    Announce (dec_ts r) (nz 2 r) (nz 3 r) (mkCq (nz 4 r) (dec_acc (nz 5 r) (nz 6 r)) (nz 7 r)) (nz 8 r)
             (slice 9 17 r) (nz 17 r) (dec_tsrc (nz 18 r) (nz 19 r))
  else if t =? 12 then Signaling (dec_pid r)
  else Management (dec_pid r) (nz 9 r) (nz 10 r) (dec_action (nz 11 r)).

Definition enc_res {A} (enc : A -> list Z) (r : res A) : list Z :=
  match r with Ok a => 0 :: enc a | Err e => [- e] | Panic s => [- 1000 - s] end.

(* correspondence operation D: parse a datagram; on success also re-serialise into a zeroed
   buffer of the same length and parse that again.
   output: [-e] | 0 :: len(enc) :: enc(m) ++ (0 :: reser | [-e]) ++ [reparse_equal] *)
Definition list_eqb (a b : list Z) : bool :=
  (length a =? length b)%nat && forallb (fun p => fst p =? snd p) (combine a b).
Definition run_D (buf : bytes) : list Z :=
  match msg_deserialize buf with
  | Err e => [- e]
  | Panic s => [- 1000 - s]
  | Ok m =>
      let e := enc_msg m in
      let rs := msg_serialize m (repeat 0 (length buf)) in
      let again := match rs with
                   | Ok out => match msg_deserialize out with
                               | Ok m2 => b2z (list_eqb (enc_msg m2) e) | _ => 0 end
                   | _ => 0 end in
      0 :: Z.of_nat (length e) :: e ++ enc_res (fun x => x) rs ++ [again]
  end.

(* correspondence operation S: build a TLV set in a backing buffer of [cap] bytes from the
   listed TLVs, put it into a message, serialise into a buffer of [blen] bytes filled with
   [fill], parse the result.
   input: [cap; blen; fill; ntlv; (kind * 65536 + type; vlen; value...)*; header(28); body...]
   (kind selects how the harness builds the TlvType: from_primitive, Reserved, Legacy, Experimental)
   output: [-100-e] (builder) | [-e] (serialise) | 0 :: out_len :: out ++ (parse: 1 if equal to the
   original, 0 if different, -e on error) *)
Fixpoint dec_tlvs (n : nat) (l : list Z) : list tlv * list Z :=
  match n with
  | O => ([], l)
  | S k =>
      let ty := (nz 0 l) mod 65536 in let vl := Z.to_nat (nz 1 l) in
      let '(r, rest) := dec_tlvs k (skipn (2 + vl) l) in
      ((ty, firstn vl (skipn 2 l)) :: r, rest)
  end.
Definition run_S (inp : list Z) : list Z :=
  let cap := Z.to_nat (nz 0 inp) in let blen := Z.to_nat (nz 1 inp) in let fill := nz 2 inp in
  let '(ts, rest) := dec_tlvs (Z.to_nat (nz 3 inp)) (skipn 4 inp) in
  match build_tlvs cap ts with
  | Err e => [- 100 - e]
  | Panic s => [- 1000 - s]
  | Ok set =>
      let m := mkMsg (dec_header rest) (dec_body (skipn 28 rest)) set in
      match msg_serialize m (repeat fill blen) with
      | Err e => [- e]
      | Panic s => [- 1000 - s]
      | Ok out =>
          0 :: Z.of_nat (length out) :: out ++
          [match msg_deserialize out with
           | Ok m2 => b2z (list_eqb (enc_msg m2) (enc_msg m))
           | Err e => - e
           | Panic s => - 1000 - s
           end]
      end
  end.

(* correspondence operation T: the from_primitive / to_primitive tables, exhaustively *)
Definition range256 : list Z := map Z.of_nat (seq 0 256).
Definition run_T (k : Z) : list Z :=
  if k =? 0 then flat_map (fun x => enc_acc (acc_from_prim x) ++ [acc_to_prim (acc_from_prim x)]) range256
  else if k =? 1 then flat_map (fun x => enc_tsrc (tsrc_from_prim x) ++ [tsrc_to_prim (tsrc_from_prim x)]) range256
  else if k =? 2 then flat_map (fun x => [enc_action (action_from_prim x); action_to_prim (action_from_prim x)]) range256
  else [1].

(* dispatcher: first element 0 = D, 1 = S, 2 = T *)
Definition run_C41 (inp : list Z) : list Z :=
  let op := nz 0 inp in
  if op =? 0 then run_D (skipn 1 inp) else if op =? 1 then run_S (skipn 1 inp) else run_T (nz 1 inp).
Definition zlist_eqb (a b : list Z) : bool := list_eqb a b.

(* the harness reports a panic without its site: all model panics compare as [-1] *)
Definition canon_panic (l : list Z) : list Z :=
  match l with [x] => if x <=? -1000 then [-1] else l | _ => l end.
