(* Model of the NTP server's response path (builder P2b: C16, C17, C18, C19).

   Level: PARSED requests.  A [request] is what NtpPacket::deserialize (with the server's
   key set) reports about a datagram: version, mode, poll, transmit timestamp / client
   cookie, upgrade marker, the three extension-field lists (untrusted / authenticated /
   encrypted) with the kind, payload and length of every field, MAC length, the decoded
   cookie (algorithm) or the fact that an NTS authenticator failed, and for every NTS
   authenticator field its nonce length, ciphertext length and on-wire length.  The byte
   level decoder itself is builder P1's model.

   Modelled, branch by branch:
     ntp-proto/src/server.rs       Server::handle, handle_inner (after intended_action)
     ntp-proto/src/packet/mod.rs   timestamp_response, nts_timestamp_response, rate_limit_response,
                                   nts_rate_limit_response, deny_response, nts_deny_response,
                                   nts_nak_response, NtpHeaderV3V4::{timestamp,rate_limit,deny,nts_nak}_response,
                                   NtpHeaderV3V4::serialize, NtpPacket::serialize (incl. NTPv5 padding)
     ntp-proto/src/packet/v5/mod.rs NtpHeaderV5::{timestamp_response,kiss_response,rate_limit_response,
                                   deny_response,nts_nak_response,serialize}
     ntp-proto/src/packet/extension_fields.rs  encode_framing, encode_padding, the per-kind encoders,
                                   encode_padding_field, encode_encrypted (sizes), ExtensionFieldData::serialize
     ntp-proto/src/packet/v5/extension_fields.rs  ReferenceIdRequest::{to_response,serialize}, ReferenceIdResponse::serialize
   Release semantics (usize/u16 wrap written out).  Values not derived from the request that the
   code obtains elsewhere are inputs: reception time, clock reading, the server snapshot
   (stratum, leap, reference id, precision, the four wire encodings of root delay and root
   dispersion, the Bloom filter bytes); the NTPv5 server cookie is random and is written as zeros. *)
From V Require Export Base.Prelude.
From V Require Import Gen.ConstResponse.
From Coq Require String Ascii.

Definition len {A} (l : list A) : Z := Z.of_nat (List.length l).
Definition zeros (n : Z) : list Z := repeat 0 (Z.to_nat n).
Definition be16 (n : Z) : list Z := [(n / 256) mod 256; n mod 256].
Definition bytes_of_string (s : String.string) : list Z :=
  map (fun a => Z.of_N (Ascii.N_of_ascii a)) (String.list_ascii_of_string s).
Definition draft_bytes : list Z := bytes_of_string DRAFT_VERSION.
Definition is_nil {A} (l : list A) : bool := match l with [] => true | _ => false end.
Definition sumZ (l : list Z) : Z := fold_right Z.add 0 l.

(* next_multiple_of_usize(lhs, 4) / next_multiple_of_u16 *)
Definition next4 (n : Z) : Z := if n mod 4 =? 0 then n else n + (4 - n mod 4).
Definition next4_u16 (n : Z) : Z := wrap 16 (next4 n).

(* ---------------------------------------------------------------- fields *)
Inductive field : Type :=
| FUid (d : list Z)            (* unique identifier, payload bytes *)
| FCookie (n : Z)              (* NTS cookie of n bytes (content abstract) *)
| FPlaceholder (n : Z)         (* cookie placeholder, body of n zero bytes *)
| FInvalidNts                  (* an NTS authenticator field that could not be decrypted *)
| FDraft (d : list Z)          (* NTPv5 draft identification, string bytes *)
| FPadding (n : Z)             (* NTPv5 padding field of n bytes in total *)
| FRefReq (plen off : Z)       (* NTPv5 reference id request: payload length, offset *)
| FRefResp (d : list Z)        (* NTPv5 reference id response, payload bytes *)
| FUnknown (ty n : Z).         (* any other field: type id and payload length (content abstract) *)

Definition is_uid (f : field) : bool := match f with FUid _ => true | _ => false end.

(* ---------------------------------------------------------------- field encoders *)
(* encode_framing: type id and length field *)
Definition enc_framing (ty dlen min : Z) (v5 : bool) : res (list Z) :=
  if dlen >? 65535 - EF_HEADER_LENGTH then Err 1 else
  let a := Z.max (wrap 16 (dlen + EF_HEADER_LENGTH)) min in
  let a := if v5 then a else next4_u16 a in
  Ok (be16 ty ++ be16 a).

(* encode_padding: zero bytes after the value *)
Definition enc_padding (dlen min : Z) : res (list Z) :=
  if dlen >? 65535 - EF_HEADER_LENGTH then Err 1 else
  Ok (zeros (next4 (Z.max (dlen + EF_HEADER_LENGTH) min) - dlen - EF_HEADER_LENGTH)).

Definition enc_generic (ty : Z) (data : list Z) (min : Z) (v5 : bool) : res (list Z) :=
  do h <- enc_framing ty (len data) min v5;
  do p <- enc_padding (len data) min;
  Ok (h ++ data ++ p).

(* ExtensionField::serialize *)
Definition encode_field (v5 : bool) (min : Z) (f : field) : res (list Z) :=
  match f with
  | FUid d => enc_generic EF_UNIQUE_IDENTIFIER d min v5
  | FCookie n => enc_generic EF_NTS_COOKIE (zeros n) min v5
  | FPlaceholder n => enc_generic EF_NTS_PLACEHOLDER (zeros n) min v5
  | FInvalidNts => Err 2
  | FDraft d => enc_generic EF_DRAFT_ID d min v5
  | FPadding n =>
      (* encode_padding_field: length - HEADER_LENGTH on usize (wraps when length < 4) *)
      let dl := wrap 64 (n - EF_HEADER_LENGTH) in
      do h <- enc_framing EF_PADDING dl min v5;
      do p <- enc_padding dl min;
      Ok (h ++ zeros dl ++ p)
  | FRefReq plen off =>
      if negb (plen mod 4 =? 0) then Panic 1 else
      Ok (be16 EF_REFID_REQUEST ++ be16 (wrap 16 (plen + 4)) ++ be16 off ++ [0; 0]
          ++ zeros (4 * Z.max 0 (plen / 4 - 1)))
  | FRefResp d =>
      if len d >? 65535 then Panic 2 else
      let l := wrap 16 (len d + 4) in
      Ok (be16 EF_REFID_RESPONSE ++ be16 l ++ d ++ zeros ((4 - l mod 4) mod 4))
  | FUnknown ty n => enc_generic ty (zeros n) min v5
  end.

(* a list of fields, the minimum size may depend on being the last one *)
Fixpoint encode_fields (v5 : bool) (minf : bool -> Z) (fs : list field) : res (list Z) :=
  match fs with
  | [] => Ok []
  | f :: r =>
      do a <- encode_field v5 (minf (is_nil r)) f;
      do b <- encode_fields v5 minf r;
      Ok (a ++ b)
  end.

Definition min_untrusted (v5 is_last : bool) : Z :=
  if v5 then MIN_UNTRUSTED_V5 else if is_last then MIN_UNTRUSTED_V4_LAST else MIN_UNTRUSTED_V4.
Definition min_auth (_ : bool) : Z := MIN_AUTHENTICATED.
Definition min_enc (_ : bool) : Z := MIN_ENCRYPTED.

(* ---------------------------------------------------------------- requests *)
Record request : Type := {
  q_version : Z;                (* 3, 4, 5 *)
  q_mode : Z;                   (* low three bits of the first byte *)
  q_poll : Z;                   (* poll byte *)
  q_xmit : list Z;              (* 8 bytes: transmit timestamp (v3, v4) / client cookie (v5) *)
  q_upgrade : bool;             (* v4: the reference timestamp is the upgrade marker *)
  q_untrusted : list field;
  q_auth : list field;
  q_enc : list field;
  q_mac : Z;                    (* length of the trailing MAC, 0 if none *)
  q_cookie : option Z;          (* AEAD algorithm id of the decoded cookie (deserialize Ok) *)
  q_decrypt_failed : bool;      (* deserialize returned DecryptError *)
  q_auths : list (Z * Z * Z)    (* per NTS authenticator field: nonce length, ciphertext length, wire length *)
}.

(* on-wire size of a field as the decoder saw it (RawExtensionField::wire_length) *)
Definition fwire (f : field) : Z :=
  match f with
  | FUid d => next4 (4 + len d)
  | FCookie n => next4 (4 + n)
  | FPlaceholder n => next4 (4 + n)
  | FInvalidNts => 0            (* counted through q_auths *)
  | FDraft d => next4 (4 + len d)
  | FPadding n => 0             (* never produced by the decoder *)
  | FRefReq plen _ => next4 (4 + plen)
  | FRefResp d => next4 (4 + len d)
  | FUnknown _ n => next4 (4 + n)
  end.
Definition fields_wire (fs : list field) : Z := sumZ (map fwire fs).
Definition auths_wire (l : list (Z * Z * Z)) : Z := sumZ (map (fun a => snd a) l).

(* length of the request datagram *)
Definition request_len (q : request) : Z :=
  HEADER_V4_LENGTH + fields_wire (q_untrusted q) + fields_wire (q_auth q) + auths_wire (q_auths q) + q_mac q.

(* KeySet::encode_cookie: length of a fresh cookie for the session's algorithm *)
Definition cookie_len (alg : Z) : Z :=
  2 + 4 + 16 + 16 + 2 + 2 * (if alg =? AEAD_ID_512 then COOKIE_KEYWIDTH_512 else COOKIE_KEYWIDTH_256).

(* what the decoder guarantees about a request it reports (checked on every correspondence case) *)
Definition auth_ok (a : Z * Z * Z) : bool :=
  match a with (n, c, w) => (0 <=? n) && (0 <=? c) && (8 + next4 n + c <=? w) && (w mod 4 =? 0) && (w <=? 65535) end.
Definition field_ok (v5 : bool) (f : field) : bool :=
  match f with
  | FUid d => (len d <=? 65531) && (v5 || (len d mod 4 =? 0))
  | FCookie n | FPlaceholder n | FUnknown _ n => (0 <=? n) && (n <=? 65531) && (v5 || (n mod 4 =? 0))
  | FInvalidNts => true
  | FDraft d => len d <=? 65531
  | FPadding _ => false
  | FRefReq plen off => (2 <=? plen) && (plen <=? 65531) && (0 <=? off) && (off <=? 65535)
  | FRefResp d => len d <=? 65531
  end.
Definition has_draft (fs : list field) : bool :=
  existsb (fun f => match f with FDraft d => if list_eq_dec Z.eq_dec d draft_bytes then true else false | _ => false end) fs.
Definition wf_request (q : request) : bool :=
  let v5 := q_version q =? 5 in
  forallb (field_ok v5) (q_untrusted q) && forallb (field_ok v5) (q_auth q) && forallb (field_ok v5) (q_enc q)
  && forallb auth_ok (q_auths q)
  && negb (existsb (fun f => match f with FInvalidNts => true | _ => false end) (q_enc q))
  && (0 <=? q_mac q) && (q_mac q <=? MAC_MAXIMUM_SIZE) && ((q_mac q =? 0) || (4 <=? q_mac q))
  && (len (q_xmit q) =? 8)
  && (if q_version q =? 3 then is_nil (q_untrusted q) && is_nil (q_auth q) && is_nil (q_enc q) && is_nil (q_auths q)
                               && negb (q_decrypt_failed q) && negb (q_upgrade q)
                               && match q_cookie q with None => true | _ => false end
      else (q_version q =? 4) || (q_version q =? 5))
  && (if v5 then (q_mac q =? 0) && (q_decrypt_failed q || has_draft (q_untrusted q ++ q_auth q)) && negb (q_upgrade q) else true)
  && (if q_decrypt_failed q then true
      else match q_cookie q with
           | Some alg =>
               (* at least one authenticator, all of them decrypted: the ciphertexts hold the
                  encrypted fields plus one 16-byte tag each *)
               negb (is_nil (q_auths q))
               && (sumZ (map (fun a => snd (fst a)) (q_auths q)) =? fields_wire (q_enc q) + 16 * len (q_auths q))
               && ((alg =? AEAD_ID_256) || (alg =? AEAD_ID_512))
               (* the cookie that gave the keys is an authenticated field and is at least as long as a fresh one *)
               && existsb (fun f => match f with FCookie n => cookie_len alg <=? n | _ => false end) (q_auth q)
           | None => is_nil (q_auth q) && is_nil (q_enc q) && is_nil (q_auths q)
           end)
  && (request_len q <=? 65535).

(* ---------------------------------------------------------------- server state and configuration *)
Record sstate : Type := {
  s_stratum : Z;
  s_leap : Z;                   (* 0 NoWarning, 1 Leap61, 2 Leap59, 3 Unknown, 4 Unsynchronized *)
  s_refid : list Z;             (* 4 bytes *)
  s_precision : Z;              (* precision.log2() as a byte *)
  s_rdelay_short : list Z;      (* root_delay.to_bits_short() *)
  s_rdisp_short : list Z;       (* root_dispersion(recv).to_bits_short() *)
  s_rdelay_t32 : list Z;        (* root_delay.to_bits_time32() *)
  s_rdisp_t32 : list Z;         (* root_dispersion(recv).to_bits_time32() *)
  s_filter : list Z             (* bloom filter bytes *)
}.

Record config : Type := {
  c_intended : Z;               (* result of intended_action: 1 = Deny, 3 = ProvideTime (2 = Ignore never reaches the parser) *)
  c_require_nts : Z;            (* 0 = None, 1 = Some(Ignore), 2 = Some(Deny) *)
  c_accepted : list Z           (* accepted versions *)
}.

(* ---------------------------------------------------------------- headers *)
Definition leap_bits (l : Z) : Z := if l <? 3 then l else 3.
Definition zero8 : list Z := zeros 8.
Definition zero4 : list Z := zeros 4.

(* recv_timestamp.truncated_second_bits(7): clears the low 7 bits of the seconds and the fraction *)
Definition truncate_ref (recv : list Z) : list Z :=
  match recv with
  | [a; b; c; d; _; _; _; _] => [a; b; c; d - d mod 2 ^ REF_TS_TRUNCATE_BITS; 0; 0; 0; 0]
  | _ => recv
  end.

(* NtpHeaderV3V4::timestamp_response + serialize *)
Definition hdr34_time (ver : Z) (st : sstate) (q : request) (recv now : list Z) (upgrade : bool) : list Z :=
  [leap_bits (s_leap st) * 64 + ver * 8 + 4; s_stratum st; q_poll q; s_precision st]
  ++ s_rdelay_short st ++ s_rdisp_short st ++ s_refid st
  ++ (if upgrade then bytes_of_string UPGRADE_TIMESTAMP else truncate_ref recv)
  ++ q_xmit q ++ recv ++ now.

(* NtpHeaderV3V4::{rate_limit,deny,nts_nak}_response + serialize *)
Definition hdr34_kiss (ver : Z) (code : String.string) (q : request) : list Z :=
  [ver * 8 + 4; 0; 0; 0] ++ zero4 ++ zero4 ++ bytes_of_string code ++ zero8 ++ q_xmit q ++ zero8 ++ zero8.

(* NtpHeaderV5::timestamp_response + serialize (server cookie, random, written as zeros) *)
Definition hdr5_time (st : sstate) (q : request) (recv now : list Z) : list Z :=
  [leap_bits (s_leap st) * 64 + 5 * 8 + 4; s_stratum st; q_poll q; s_precision st]
  ++ s_rdelay_t32 st ++ s_rdisp_t32 st
  ++ [0; 0; 0; if s_stratum st <? 16 then 1 else 0]
  ++ zero8 ++ q_xmit q ++ recv ++ now.

(* PollInterval::force_inc on the i8 behind the poll byte *)
Definition poll_force_inc (p : Z) : Z :=
  let s := to_signed 8 p in wrap 8 (if s =? 127 then 127 else s + 1).

(* NtpHeaderV5::{rate_limit,deny,nts_nak}_response + serialize; kind 0 = rate, 1 = deny, 2 = nak *)
Definition hdr5_kiss (kind : Z) (q : request) : list Z :=
  [5 * 8 + 4; 0; (if kind =? 0 then poll_force_inc (q_poll q) else if kind =? 1 then 127 else 0); 0]
  ++ zero4 ++ zero4 ++ [0; 0; 0; if kind =? 2 then 4 else 0]
  ++ zero8 ++ q_xmit q ++ zero8 ++ zero8.

(* ---------------------------------------------------------------- answers *)
Record answer : Type := {
  a_ver : Z;
  a_header : list Z;
  a_untrusted : list field;
  a_auth : list field;
  a_enc : list field;
  a_cipher : bool;              (* serialize is given the session's server-to-client cipher *)
  a_desired : option Z          (* desired_size *)
}.

Inductive kind : Type := KTime | KNtsTime | KDeny | KNtsDeny | KNak | KRate | KNtsRate.

(* ReferenceIdRequest::to_response *)
Definition refid_response (filter : list Z) (plen off : Z) : option field :=
  if (off <=? len filter) && (plen <=? len filter - off)
  then Some (FRefResp (firstn (Z.to_nat plen) (skipn (Z.to_nat off) filter)))
  else None.

Definition echo_uid (fs : list field) : list field := filter is_uid fs.

(* the filter_map of the NTPv5 time answers *)
Fixpoint echo_v5 (filter : list Z) (fs : list field) : list field :=
  match fs with
  | [] => []
  | FUid d :: r => FUid d :: echo_v5 filter r
  | FRefReq plen off :: r =>
      match refid_response filter plen off with
      | Some x => x :: echo_v5 filter r
      | None => echo_v5 filter r
      end
  | _ :: r => echo_v5 filter r
  end.


(* the filter_map of nts_timestamp_response *)
Definition fresh_for (fresh : Z) (f : field) : option field :=
  match f with
  | FPlaceholder n => if fresh >? n then None else Some (FCookie fresh)
  | FCookie n => if fresh >? n then None else Some (FCookie fresh)
  | _ => None
  end.
Fixpoint filter_map {A B} (g : A -> option B) (l : list A) : list B :=
  match l with
  | [] => []
  | x :: r => match g x with Some y => y :: filter_map g r | None => filter_map g r end
  end.
(* tf: the shape of nts_timestamp_response in the tree (TAKE_AFTER_FILTER_SITES): false = take(MAX_COOKIES)
   is applied to the fields looked at (before the filter_map), true = to the cookies produced (after it) *)
Definition fresh_cookies (tf : bool) (alg : Z) (q : request) : list field :=
  if tf then firstn (Z.to_nat RESP_MAX_COOKIES) (filter_map (fresh_for (cookie_len alg)) (q_auth q ++ q_enc q))
  else filter_map (fresh_for (cookie_len alg)) (firstn (Z.to_nat RESP_MAX_COOKIES) (q_auth q ++ q_enc q)).

Definition draft_field : field := FDraft draft_bytes.

Definition mk_answer ver hdr u a e c d : answer :=
  {| a_ver := ver; a_header := hdr; a_untrusted := u; a_auth := a; a_enc := e; a_cipher := c; a_desired := d |}.

(* the seven response builders; [alg] is the decoded cookie's algorithm for the NTS ones *)
Definition build (tf : bool) (k : kind) (alg : Z) (st : sstate) (q : request) (recv now : list Z) (mlen : Z) : res answer :=
  let ver := q_version q in
  let plain_echo := echo_uid (q_untrusted q ++ q_auth q) in
  match k with
  | KTime =>
      if ver =? 3 then Ok (mk_answer 3 (hdr34_time 3 st q recv now false) [] [] [] false (Some mlen))
      else if ver =? 4 then
        Ok (mk_answer 4 (hdr34_time 4 st q recv now (q_upgrade q)) plain_echo [] [] false (Some mlen))
      else
        Ok (mk_answer 5 (hdr5_time st q recv now)
              (echo_v5 (s_filter st) (q_untrusted q ++ q_auth q) ++ [draft_field]) [] [] false (Some mlen))
  | KNtsTime =>
      if ver =? 3 then Panic 3
      else if ver =? 4 then
        Ok (mk_answer 4 (hdr34_time 4 st q recv now false) [] (echo_uid (q_auth q)) (fresh_cookies tf alg q) true (Some mlen))
      else
        Ok (mk_answer 5 (hdr5_time st q recv now) []
              (echo_v5 (s_filter st) (q_auth q) ++ [draft_field]) (fresh_cookies tf alg q) true (Some mlen))
  | KDeny | KRate | KNak =>
      let code := match k with KDeny => KISS_DENY | KRate => KISS_RATE | _ => KISS_NTSN end in
      let k5 := match k with KRate => 0 | KDeny => 1 | _ => 2 end in
      if ver =? 3 then
        match k with
        | KNak => Panic 4
        | _ => Ok (mk_answer 3 (hdr34_kiss 3 code q) [] [] [] false None)
        end
      else if ver =? 4 then Ok (mk_answer 4 (hdr34_kiss 4 code q) plain_echo [] [] false None)
      else Ok (mk_answer 5 (hdr5_kiss k5 q) (plain_echo ++ [draft_field]) [] [] false None)
  | KNtsDeny | KNtsRate =>
      let code := match k with KNtsDeny => KISS_DENY | _ => KISS_RATE end in
      let k5 := match k with KNtsRate => 0 | _ => 1 end in
      if ver =? 3 then Panic 5
      else if ver =? 4 then Ok (mk_answer 4 (hdr34_kiss 4 code q) [] (echo_uid (q_auth q)) [] true None)
      else Ok (mk_answer 5 (hdr5_kiss k5 q) [] (echo_uid (q_auth q) ++ [draft_field]) [] true None)
  end.

(* ---------------------------------------------------------------- serialize *)
(* an answer on the wire: the clear bytes before the NTS authenticator, the authenticator
   (field length, nonce length, ciphertext length, and the lengths of the cookies in its plaintext;
   nonce and ciphertext bytes are random), the clear bytes after it *)
Record wire : Type := { w_prefix : list Z; w_auth : option (Z * Z * Z * list Z); w_suffix : list Z }.
Definition wauth_len (a : option (Z * Z * Z * list Z)) : Z :=
  match a with Some (fl, _, _, _) => fl | None => 0 end.
Definition wire_len (w : wire) : Z := len (w_prefix w) + wauth_len (w_auth w) + len (w_suffix w).
Definition cookie_code (f : field) : Z := match f with FCookie n => n | _ => -2 end.

Definition serialize (a : answer) (B : Z) : res wire :=
  let v5 := a_ver a =? 5 in
  if a_ver a =? 3 then
    (if len (a_header a) <=? B then Ok {| w_prefix := a_header a; w_auth := None; w_suffix := [] |} else Err 3)
  else
    do ap <- (if negb (is_nil (a_auth a)) || negb (is_nil (a_enc a)) then
                if negb (a_cipher a) then Err 4 else
                do ab <- encode_fields v5 min_auth (a_auth a);
                do pb <- encode_fields v5 min_enc (a_enc a);
                let ct := len pb + 16 in
                Ok (ab, Some (8 + next4 NONCE_LEN_256 + next4 ct, NONCE_LEN_256, ct, map cookie_code (a_enc a)))
              else Ok ([], None));
    do ub <- encode_fields v5 (min_untrusted v5) (a_untrusted a);
    let w0 := {| w_prefix := a_header a ++ fst ap; w_auth := snd ap; w_suffix := ub |} in
    let written := wire_len w0 in
    do w1 <- (if v5 then
                match a_desired a with
                | Some d =>
                    if d >? written then
                      do p <- encode_field true MIN_V5_PADDING (FPadding (d - written));
                      Ok {| w_prefix := w_prefix w0; w_auth := w_auth w0; w_suffix := ub ++ p |}
                    else Ok w0
                | None => Ok w0
                end
              else Ok w0);
    if wire_len w1 <=? B then Ok w1 else Err 3.

(* ---------------------------------------------------------------- Server::handle *)
Inductive outcome : Type :=
| OIgnore (stats : list Z)               (* ServerAction::Ignore; stats = version, nts, reason, response *)
| ORespond (stats : list Z) (w : wire)
| OPanic (site : Z).

(* reasons: 0 RateLimit 1 ParseError 2 InvalidCrypto 3 InternalError 4 Policy;
   responses: 0 NTSNak 1 Deny 2 Ignore 3 ProvideTime *)
Definition decision (cfg : config) (q : request) : option (kind * Z * list Z) + list Z :=
  (* inl (kind, algorithm, stats on success) or inr stats of an Ignore *)
  let ver := q_version q in
  let action0 := c_intended cfg in
  (* only client-mode packets are answered, whether or not they authenticate *)
  if negb (q_mode q =? 3) then inr [ver; 0; 1; 2] else
  let action := if q_decrypt_failed q then (if action0 =? 1 then 1 else 0) else action0 in
  let reason := if q_decrypt_failed q && negb (action0 =? 1) then 2 else 4 in
  let cookie := if q_decrypt_failed q then None else q_cookie q in
  if negb (existsb (Z.eqb ver) (c_accepted cfg)) then inr [ver; 0; 4; 2] else
  let nts := match cookie with Some _ => true | None => action =? 0 end in
  if negb nts && (c_require_nts cfg =? 1) then inr [ver; 0; 4; 2] else
  let action := if negb nts && (c_require_nts cfg =? 2) then 1 else action in
  let reason := if negb nts && (c_require_nts cfg =? 2) then 4 else reason in
  let stats := [ver; if nts then 1 else 0; reason; action] in
  inl (Some
    (if action =? 0 then (KNak, 0, stats)
     else if action =? 1 then match cookie with Some alg => (KNtsDeny, alg, stats) | None => (KDeny, 0, stats) end
     else match cookie with Some alg => (KNtsTime, alg, stats) | None => (KTime, 0, stats) end)).

Definition respond (stats : list Z) (ra : res answer) (B : Z) : outcome :=
  match ra with
  | Panic s => OPanic s
  | Err _ => OIgnore [nth 0 stats 0; nth 1 stats 0; 3; 2]
  | Ok a =>
      match serialize a B with
      | Ok w => ORespond stats w
      | Err _ => OIgnore [nth 0 stats 0; nth 1 stats 0; 3; 2]
      | Panic s => OPanic s
      end
  end.

Definition handle (tf : bool) (cfg : config) (st : sstate) (q : request) (recv now : list Z) (mlen B : Z) : outcome :=
  match decision cfg q with
  | inr stats => OIgnore stats
  | inl None => OIgnore []
  | inl (Some (k, alg, stats)) => respond stats (build tf k alg st q recv now mlen) B
  end.

(* the daemon's server task: receives [mlen] bytes and calls handle with &mut send_buf[..length] *)
Definition daemon_reply (tf : bool) (cfg : config) (st : sstate) (q : request) (recv now : list Z) : outcome :=
  handle tf cfg st q recv now (request_len q) (request_len q).

(* ---------------------------------------------------------------- the known class of C17 *)
(* some echoed unique identifier is shorter on the wire than the minimum size at its place in the answer *)
Fixpoint short_uid (minf : bool -> Z) (fs : list field) : bool :=
  match fs with
  | [] => false
  | FUid d :: r => (next4 (4 + len d) <? next4 (Z.max (4 + len d) (minf (is_nil r)))) || short_uid minf r
  | _ :: r => short_uid minf r
  end.
Definition is_nts_kind (k : kind) : bool :=
  match k with KNtsTime | KNtsDeny | KNtsRate => true | _ => false end.
(* KnownClass_C17: (a) short echoed unique identifier, (b) NTS answer to a request whose authenticator has a
   nonce shorter than the answer's 16 bytes, (c) NTPv5 request without the draft identification whose NTS
   authenticator failed (the draft check is skipped on that path, the NAK/DENY answer adds the field) *)
Definition known_class_C17 (q : request) (k : kind) : bool :=
  let v5 := q_version q =? 5 in
  if is_nts_kind k then
    short_uid min_auth (echo_uid (q_auth q)) || existsb (fun a => fst (fst a) <? NONCE_LEN_256) (q_auths q)
  else
    short_uid (min_untrusted v5) (echo_uid (q_untrusted q ++ q_auth q))
    || (v5 && q_decrypt_failed q && negb (has_draft (q_untrusted q ++ q_auth q))).

(* ---------------------------------------------------------------- correspondence entry point *)
Definition tree_tf : bool := TAKE_AFTER_FILTER_SITES =? 2.

Record case : Type := {
  k_op : Z;                     (* 0 = Server::handle; 1..7 = builder KTime KNtsTime KDeny KNtsDeny KNak KRate KNtsRate + serialize *)
  k_cfg : config;
  k_state : sstate;
  k_recv : list Z;
  k_now : list Z;
  k_req : option request;       (* None: the decoder rejected the datagram *)
  k_first : Z;                  (* first byte of the datagram (fallback version) *)
  k_mlen : Z;                   (* datagram length *)
  k_buf : Z                     (* buffer length *)
}.

Definition kind_of (n : Z) : kind :=
  if n =? 1 then KTime else if n =? 2 then KNtsTime else if n =? 3 then KDeny else if n =? 4 then KNtsDeny
  else if n =? 5 then KNak else if n =? 6 then KRate else KNtsRate.

(* (outcome, request length by the model's formula, request well-formed) *)
Definition run_tf (tf : bool) (c : case) : outcome * Z * bool :=
  match k_req c with
  | None => (OIgnore [(k_first c / 8) mod 8; 0; 1; 2], k_mlen c, true)
  | Some q =>
      (if k_op c =? 0 then handle tf (k_cfg c) (k_state c) q (k_recv c) (k_now c) (k_mlen c) (k_buf c)
       else
         let alg := match q_cookie q with Some a => a | None => 0 end in
         match build tf (kind_of (k_op c)) alg (k_state c) q (k_recv c) (k_now c) (k_mlen c) with
         | Ok a => match serialize a (k_buf c) with
                   | Ok w => ORespond [] w
                   | Err _ => OIgnore []
                   | Panic s => OPanic s
                   end
         | Err _ => OIgnore []
         | Panic s => OPanic s
         end,
       request_len q, wf_request q)
  end.

Definition run (c : case) : outcome * Z * bool := run_tf tree_tf c.

Definition lZ_eqb (a b : list Z) : bool := if list_eq_dec Z.eq_dec a b then true else false.
Definition wire_eqb (a b : wire) : bool :=
  lZ_eqb (w_prefix a) (w_prefix b) && lZ_eqb (w_suffix a) (w_suffix b) &&
  match w_auth a, w_auth b with
  | None, None => true
  | Some (f1, n1, c1, l1), Some (f2, n2, c2, l2) => (f1 =? f2) && (n1 =? n2) && (c1 =? c2) && lZ_eqb l1 l2
  | _, _ => false
  end.
Definition outcome_eqb (a b : outcome) : bool :=
  match a, b with
  | OIgnore s1, OIgnore s2 => lZ_eqb s1 s2
  | ORespond s1 w1, ORespond s2 w2 => lZ_eqb s1 s2 && wire_eqb w1 w2
  | OPanic _, OPanic _ => true
  | _, _ => false
  end.
Definition result_eqb (a b : outcome * Z * bool) : bool :=
  match a, b with (o1, l1, w1), (o2, l2, w2) => outcome_eqb o1 o2 && (l1 =? l2) && Bool.eqb w1 w2 end.
