(* Correspondence entry point of C32: one function from (operation code,
   arguments) to the list of integers the harness prints for that operation
   (harness/ntp-proto/c32.rs, harness/statime-base/c32.rs).  A panic of the
   implementation is the empty list.  Floats are 64-bit patterns. *)
From V Require Export Model.TimeTypes Model.FloatConv.

Definition b2z (b : bool) : Z := if b then 1 else 0.
Definition of_res (r : res Z) (n : nat) : list Z :=
  match r with Ok v => repeat v n | _ => [] end.

Definition run_time (l : list Z) : list Z :=
  match l with
  (* NtpTimestamp *)
  | [1; a; b] => [tsub a b]
  | [2; t; d] => [tadd t d; tadd t d]
  | [3; t; d] => [tsubd t d; tsubd t d]
  | [4; a; b] => let d := tsub a b in [d; tadd b d; tsubd a d]
  | [5; a; b] => [b2z (tbefore a b)]
  | [6; t; bits] => [ttrunc t bits]
  | [7; s; n] => [t_from_secs_nanos s n]
  (* NtpDuration *)
  | [10; a; b] => [dadd a b; dadd a b]
  | [11; a; b] => [dsub a b; dsub a b]
  | [12; a] => [dneg a]
  | [13; a] => [dabs a]
  | [14; a; b] => [dabs_diff a b]
  | [15; a; k] => [dmul a k; dmul a k; dmul a k]
  | [16; a; k] => of_res (ddiv a k) 2
  | [17; a; ppm] => of_res (ddiv (dmul a ppm) 1000000) 1
  | [20; w] => [d_from_short w]
  | [21; d] => of_res (d_to_short d) 1
  | [22; w] => [d_from_time32 w]
  | [23; d] => of_res (d_to_time32 d) 1
  | [24; d] => match d_to_short d with Ok w => [w; d_from_short w] | _ => [] end
  | [25; d] => match d_to_time32 d with Ok w => [w; d_from_time32 w] | _ => [] end
  | [26; d] => let '(s, n) := d_secs_nanos d in [s; n]
  | [27; e] => [d_from_exponent e]
  | [28; d] => [d_log2 d]
  | [29; s; n] => [d_from_system s n]
  (* PollInterval *)
  | [30; p; lmin; lmax] => [poll_inc p lmax]
  | [31; p; lmin; lmax] => [poll_dec p lmin]
  | [32; p] => [poll_force_inc p]
  | [33; p] => [poll_as_duration p]
  | [34; p] => [poll_as_system_secs p]
  | [35; b] => [poll_from_byte b]
  | [36; p] => [poll_as_byte p]
  (* NtpDuration <-> f64 *)
  | [40; d] => [bits_of_sf (to_seconds d)]
  | [41; b] => [from_seconds (sf_of_bits b)]
  | [42; d] => let s := to_seconds d in [bits_of_sf s; from_seconds s]
  (* PTP (statime-base) *)
  | [50; a; b] => [ptsub a b]
  | [51; t; d] => [ptadd t d; ptadd t d]
  | [52; t; d] => [ptsubd t d; ptsubd t d]
  | [53; a; b] => let d := ptsub a b in [d; ptadd b d; ptsubd a d]
  | [54; a; b] => [pdadd a b; pdadd a b]
  | [55; a; b] => [pdsub a b; pdsub a b]
  | [56; a; k] => [pdmul a k; pdmul a k; pdmul a k]
  | [57; a; k] => of_res (pddiv a k) 1
  | [58; s; n] => [pt_from_secs_nanos s n]
  | [59; s; n] => [pd_from_secs_nanos s n]
  | [60; d] => [bits_of_sf (p_as_seconds d)]
  | [61; b] => [p_from_f64_seconds (sf_of_bits b)]
  | [62; d] => let s := p_as_seconds d in [bits_of_sf s; p_from_f64_seconds s]
  | _ => [-999]
  end.

Fixpoint zlist_eqb (a b : list Z) : bool :=
  match a, b with
  | [], [] => true
  | x :: a', y :: b' => (x =? y) && zlist_eqb a' b'
  | _, _ => false
  end.

(* the same dispatcher for the UNREPAIRED tree (negation, abs, division and
   PollInterval inc/dec as they are before the fix); used by the driver only
   to classify a disagreement, never by a theorem *)
Definition run_time_unrepaired (l : list Z) : list Z :=
  match l with
  | [12; a] => [dneg_wrap a]
  | [13; a] => [dabs_wrap a]
  | [14; a; b] => [dabs_wrap (dsub a b)]
  | [16; a; k] => of_res (ddiv_unrepaired a k) 2
  | [30; p; lmin; lmax] => [poll_inc_wrap p lmax]
  | [31; p; lmin; lmax] => [poll_dec_wrap p lmin]
  | _ => run_time l
  end.
