(* Executable instance of Model/Estimator.v on binary64 and the encodings used by
   the correspondence checks of C42 (harness/statime-algo/c42.rs).  Definitions only. *)
From V Require Export Model.FloatBits.

Definition fb : Z -> float := float_of_bits.
Definition fest : Type := @est float.
Definition fop : Type := @op float.

Definition zn (n : nat) : Z := Z.of_nat n.

(* raw state, in the order printed by `dump` of the harness *)
Definition dump_est (st : fest) : list Z :=
  [e_time st; zn (m_rows (e_state st)); zn (m_cols (e_state st));
   zn (m_rows (e_unc st)); zn (m_cols (e_unc st)); zn (length (e_clocks st))]
  ++ flat_map (fun c => [ci_id c; zn (ci_base c); bits_of_float (ci_wander c)]) (e_clocks st)
  ++ [zn (length (e_ext st))] ++ e_ext st
  ++ [zn (length (e_links st))]
  ++ flat_map (fun l => [snd (li_id l); zn (li_index l); bits_of_float (li_decay l)]) (e_links st)
  ++ map bits_of_float (m_data (e_state st))
  ++ map bits_of_float (m_data (e_unc st)).

Definition code_of {X} (r : res X) : Z :=
  match r with Ok _ => 0 | Err e => e | Panic _ => -1 end.

(* a history: Some op, or None = print the raw state here *)
Fixpoint run_hist (ops : list (option fop)) (st : fest) : list Z :=
  match ops with
  | [] => dump_est st
  | None :: r => 0 :: dump_est st ++ run_hist r st
  | Some o :: r =>
      match apply float_ops o st with
      | Ok st' => 0 :: run_hist r st'
      | Err e => e :: run_hist r st
      | Panic _ => -1 :: run_hist r st
      end
  end.

Definition c42_run (inp : Z * list (option fop)) : list Z :=
  run_hist (snd inp) (empty float_ops (fst inp)).

Fixpoint list_eqb (a b : list Z) : bool :=
  match a, b with
  | [], [] => true
  | x :: a', y :: b' => (x =? y) && list_eqb a' b'
  | _, _ => false
  end.
