(* Executable instance of Model/Estimator.v on binary64 and the encodings used by
   the correspondence checks of C42 (harness/statime-algo/c42.rs).  Definitions only. *)
From V Require Export Model.FloatBits.

Definition fb : Z -> float := float_of_bits.
Definition fest : Type := @est float.
Definition fop : Type := @op float.

Definition zn (n : nat) : Z := Z.of_nat n.

(* raw state, in the order printed by `dump` of the harness: the integers and,
   separately, the floats (vector, matrix, wander and decay values) *)
Definition dump_ints (st : fest) : list Z :=
  [e_time st; zn (m_rows (e_state st)); zn (m_cols (e_state st));
   zn (m_rows (e_unc st)); zn (m_cols (e_unc st)); zn (length (e_clocks st))]
  ++ flat_map (fun c => [ci_id c; zn (ci_base c)]) (e_clocks st)
  ++ [zn (length (e_ext st))] ++ e_ext st
  ++ [zn (length (e_links st))]
  ++ flat_map (fun l => [snd (li_id l); zn (li_index l)]) (e_links st).
Definition dump_floats (st : fest) : list float :=
  map (@ci_wander float) (e_clocks st) ++ map (@li_decay float) (e_links st)
  ++ m_data (e_state st) ++ m_data (e_unc st).

Definition code_of {X} (r : res X) : Z :=
  match r with Ok _ => 0 | Err e => e | Panic _ => -1 end.

(* a history: Some op, or None = print the raw state here.  Result: the result
   class of every operation and the raw states at the checkpoints and at the end *)
Fixpoint run_hist (ops : list (option fop)) (st : fest) : list Z * list float :=
  match ops with
  | [] => (dump_ints st, dump_floats st)
  | None :: r => let (i, f) := run_hist r st in (0 :: dump_ints st ++ i, dump_floats st ++ f)
  | Some o :: r =>
      match apply float_ops o st with
      | Ok st' => let (i, f) := run_hist r st' in (0 :: i, f)
      | Err e => let (i, f) := run_hist r st in (e :: i, f)
      | Panic _ => let (i, f) := run_hist r st in (-1 :: i, f)
      end
  end.

Definition c42_run (inp : Z * list (option fop)) : list Z * list float :=
  run_hist (snd inp) (empty float_ops (fst inp)).

Fixpoint list_eqb (a b : list Z) : bool :=
  match a, b with
  | [], [] => true
  | x :: a', y :: b' => (x =? y) && list_eqb a' b'
  | _, _ => false
  end.
(* floats are compared as bit patterns (NaNs canonicalised) *)
Definition out_eqb (a b : list Z * list float) : bool :=
  list_eqb (fst a) (fst b) && list_eqb (map bits_of_float (snd a)) (map bits_of_float (snd b)).
Definition c42_case : Type := (N * (Z * list (option fop)) * (list Z * list float))%type.
