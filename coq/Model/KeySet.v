(* Model of ntp-proto/src/keyset.rs: KeySet {keys; id_offset; primary},
   KeySetProvider::{new, rotate}, KeySet::{encode_cookie, decode_cookie}
   (C26).  Definitions only.

   AES-SIV (packet/crypto.rs, crate aes-siv) is not modelled: [enc]/[dec] are
   parameters (Section variables).  Random values (fresh keys of [rotate] and
   [new], the 16-byte nonce of [encrypt]) are arguments of the model
   functions.  Byte strings are [list Z]; u16/u32 values are [Z] with the
   wrap written out.  Release semantics: the three [debug_assert_eq!] of
   encode_cookie are comments. *)
From V Require Export Base.Prelude.
From V Require Import Gen.ConstKeyset.

Definition bytes := list Z.
Definition is_byte (b : Z) : Prop := 0 <= b < 256.
Definition bytes_ok (l : bytes) : Prop := Forall is_byte l.

(* big-endian integer <-> bytes (u16::to_be_bytes, u32::from_be_bytes, ...) *)
Fixpoint be_enc (n : nat) (z : Z) : bytes :=
  match n with O => [] | S m => be_enc m (z / 256) ++ [z mod 256] end.
Definition be_dec (l : bytes) : Z := fold_left (fun a b => a * 256 + b) l 0.

Definition lenZ {A} (l : list A) : Z := Z.of_nat (length l).

(* ---------------------------------------------------------------- cookies *)

(* DecodedServerCookie: algorithm (as its u16 id) and the two session keys *)
Record cookie := { c_alg : Z; c_s2c : bytes; c_c2s : bytes }.

(* DecodedServerCookie::plaintext *)
Definition plaintext (c : cookie) : bytes := be_enc 2 (c_alg c) ++ c_s2c c ++ c_c2s c.

(* what key exchange produces: a known algorithm with keys of its width *)
Definition wf_cookie (c : cookie) : Prop :=
  bytes_ok (c_s2c c) /\ bytes_ok (c_c2s c) /\
  ((c_alg c = ALG_SIV_CMAC_256 /\ lenZ (c_s2c c) = KEY_WIDTH_256 /\ lenZ (c_c2s c) = KEY_WIDTH_256) \/
   (c_alg c = ALG_SIV_CMAC_512 /\ lenZ (c_s2c c) = KEY_WIDTH_512 /\ lenZ (c_c2s c) = KEY_WIDTH_512)).

(* ---------------------------------------------------------------- key sets *)

Record keyset := { keys : list bytes; id_offset : Z (* u32 *); primary : Z (* u32 *) }.

(* KeySetProvider::new(history): one random key *)
Definition new_keyset (fresh : bytes) : keyset := {| keys := [fresh]; id_offset := 0; primary := 0 |}.

(* KeySetProvider::rotate.  [history : usize] is a [nat]: [length - history]
   on nat is exactly [saturating_sub].  No panic site is reachable: the slice
   bounds are [len.saturating_sub(h) .. len], try_from gets a 64-byte key,
   and [keys.len() as u32 - 1] has keys.len() >= 1. *)
Definition rotate (history : nat) (ks : keyset) (fresh : bytes) : keyset :=
  let drop := (length (keys ks) - history)%nat in
  let keys' := skipn drop (keys ks) ++ [fresh] in
  {| keys := keys';
     id_offset := wrap 32 (id_offset ks + wrap 32 (Z.of_nat drop));
     primary := wrap 32 (wrap 32 (lenZ keys') - 1) |}.

Definition rotate_many (history : nat) (ks : keyset) (fresh : list bytes) : keyset :=
  fold_left (rotate history) fresh ks.

Definition err_decrypt : Z := 1.               (* DecryptError *)
Definition panic_encode_primary_index : Z := 2601.  (* self.keys[self.primary as usize] *)

Definition hdr_len : Z := COOKIE_ID_LEN + COOKIE_LEN_LEN + COOKIE_NONCE_LEN.   (* 22 *)

(* the four fields of a cookie as decode_cookie slices them *)
Definition ck_id (b : bytes) : Z := be_dec (firstn (Z.to_nat COOKIE_ID_LEN) b).
Definition ck_len (b : bytes) : Z :=
  be_dec (firstn (Z.to_nat COOKIE_LEN_LEN) (skipn (Z.to_nat COOKIE_ID_LEN) b)).
Definition ck_nonce (b : bytes) : bytes :=
  firstn (Z.to_nat COOKIE_NONCE_LEN) (skipn (Z.to_nat (COOKIE_ID_LEN + COOKIE_LEN_LEN)) b).
Definition ck_ct (b : bytes) : bytes := firstn (Z.to_nat (ck_len b)) (skipn (Z.to_nat hdr_len) b).

(* the plaintext parser at the end of decode_cookie *)
Definition parse_plaintext (p : bytes) : res cookie :=
  match p with
  | b0 :: b1 :: kb =>
      let alg := be_dec [b0; b1] in
      if alg =? ALG_SIV_CMAC_256 then
        if lenZ kb =? 2 * KEY_WIDTH_256
        then Ok {| c_alg := alg; c_s2c := firstn (Z.to_nat KEY_WIDTH_256) kb; c_c2s := skipn (Z.to_nat KEY_WIDTH_256) kb |}
        else Err err_decrypt
      else if alg =? ALG_SIV_CMAC_512 then
        if lenZ kb =? 2 * KEY_WIDTH_512
        then Ok {| c_alg := alg; c_s2c := firstn (Z.to_nat KEY_WIDTH_512) kb; c_c2s := skipn (Z.to_nat KEY_WIDTH_512) kb |}
        else Err err_decrypt
      else Err err_decrypt
  | _ => Err err_decrypt
  end.

(* `keys.get(i)` / `keys[i]` with a machine-integer index; the range test comes
   first so that a wrapped (huge) index is never turned into a unary number *)
Definition nth_key (l : list bytes) (i : Z) : option bytes :=
  if (0 <=? i) && (i <? lenZ l) then nth_error l (Z.to_nat i) else None.

Section Cookies.
  (* AEAD_AES_SIV_CMAC_512 as used by AesSivCmac512::{encrypt, decrypt}:
     key, nonce, associated data, plaintext/ciphertext *)
  Variable enc : bytes -> bytes -> bytes -> bytes -> bytes.
  Variable dec : bytes -> bytes -> bytes -> bytes -> option bytes.

  (* KeySet::encode_cookie; [nonce] is the random nonce drawn by encrypt.
     id(4) || ciphertext length(2, `as u16`) || nonce || ciphertext *)
  Definition encode_cookie (ks : keyset) (c : cookie) (nonce : bytes) : res bytes :=
    match nth_key (keys ks) (primary ks) with
    | None => Panic panic_encode_primary_index
    | Some k =>
        let ct := enc k nonce [] (plaintext c) in
        Ok (be_enc (Z.to_nat COOKIE_ID_LEN) (wrap 32 (primary ks + id_offset ks))
            ++ be_enc (Z.to_nat COOKIE_LEN_LEN) (wrap 16 (lenZ ct)) ++ nonce ++ ct)
    end.

  (* KeySet::decode_cookie, check by check *)
  Definition decode_cookie (ks : keyset) (b : bytes) : res cookie :=
    if lenZ b <? hdr_len then Err err_decrypt else
    let idx := wrap 32 (ck_id b - id_offset ks) in
    match nth_key (keys ks) idx with
    | None => Err err_decrypt
    | Some k =>
        if lenZ (skipn (Z.to_nat hdr_len) b) <? ck_len b then Err err_decrypt else
        match dec k (ck_nonce b) [] (ck_ct b) with
        | None => Err err_decrypt
        | Some p => parse_plaintext p
        end
    end.
  (* INT-CTXT for one presented byte string [b]: if its ciphertext part is
     valid under a server key then that (key, nonce, ciphertext) was produced
     by the server (is in [issued]).  This is the idealisation "forgery
     probability zero"; it is a premise about the presented bytes, used by the
     tamper theorem, not an assumption about [dec]. *)
  Definition unforged (ks : keyset) (issued : list (bytes * bytes * bytes)) (b : bytes) : Prop :=
    forall k p, In k (keys ks) -> dec k (ck_nonce b) [] (ck_ct b) = Some p ->
      In (k, ck_nonce b, ck_ct b) issued.
End Cookies.

(* The AEAD interface: what the theorems assume about enc/dec (all of them
   about well-typed byte strings).  The first four are facts of every
   deterministic AEAD with a 16-byte tag whose decryption re-derives the tag
   (AES-SIV, RFC 5297); the fifth is an idealisation (holds for independent
   random keys up to a negligible probability). *)
Definition enc_t := bytes -> bytes -> bytes -> bytes -> bytes.
Definition dec_t := bytes -> bytes -> bytes -> bytes -> option bytes.
Definition aead_correct (enc : enc_t) (dec : dec_t) : Prop :=
  forall k n a p, bytes_ok p -> dec k n a (enc k n a p) = Some p.
Definition aead_sound (enc : enc_t) (dec : dec_t) : Prop :=
  forall k n a c p, dec k n a c = Some p -> c = enc k n a p.
Definition aead_tag16 (enc : enc_t) : Prop :=
  forall k n a p, lenZ (enc k n a p) = lenZ p + ENCODE_TAG_LEN.
Definition aead_bytes (dec : dec_t) : Prop :=
  forall k n a c p, dec k n a c = Some p -> bytes_ok p.
Definition aead_key_separation (enc : enc_t) (dec : dec_t) : Prop :=
  forall k k' n n' a a' p p', bytes_ok k -> bytes_ok k' ->
    dec k' n' a' (enc k n a p) = Some p' -> k' = k.

(* A toy AEAD that satisfies all five hypotheses (Proofs/KeySet.v, the toy_ lemmas): shows
   that they are jointly satisfiable, and runs the non-vacuity examples.  The
   "tag" records key, nonce and associated data as numbers. *)
Fixpoint bytes_eqb (a b : bytes) : bool :=
  match a, b with
  | [], [] => true
  | x :: a', y :: b' => (x =? y) && bytes_eqb a' b'
  | _, _ => false
  end.
Definition toy_tag (k n a : bytes) : bytes :=
  [lenZ k; be_dec k; lenZ n; be_dec n; lenZ a; be_dec a; 0; 0; 0; 0; 0; 0; 0; 0; 0; 0].
Definition toy_enc : enc_t := fun k n a p => p ++ toy_tag k n a.
Definition all_bytes (p : bytes) : bool := forallb (fun b => (0 <=? b) && (b <? 256)) p.
Definition toy_dec : dec_t := fun k n a c =>
  let p := firstn (length c - 16) c in
  if (16 <=? length c)%nat && bytes_eqb c (toy_enc k n a p) && all_bytes p then Some p else None.

(* ---------------------------------------------------------------- well-formedness *)

Definition key_ok (k : bytes) : Prop := lenZ k = FILE_KEY_LEN /\ bytes_ok k.

(* what every reachable key set satisfies: [primary] indexes a key, the u32
   fields are in range *)
Definition KeysOk (ks : keyset) : Prop :=
  0 <= primary ks < lenZ (keys ks) /\ 0 <= id_offset ks < 2 ^ 32 /\ lenZ (keys ks) <= 2 ^ 32.

(* new cookies are issued under the most recently generated key *)
Definition newest (ks : keyset) : Prop := KeysOk ks /\ primary ks = lenZ (keys ks) - 1.

(* ---------------------------------------------------------------- correspondence driver *)

(* byte strings cross the harness/model boundary packed as (length, big-endian number) *)
Fixpoint unpack_acc (n : nat) (z : Z) (acc : bytes) : bytes :=
  match n with O => acc | S m => unpack_acc m (z / 256) (z mod 256 :: acc) end.
Definition B (n : Z) (z : Z) : bytes := unpack_acc (Z.to_nat n) z [].

(* table of genuine encryptions, produced and verified with the real cipher by
   the harness: (key, nonce, plaintext, ciphertext) *)
Definition aead_table := list (bytes * bytes * bytes * bytes).
Definition tbl_enc (t : aead_table) (k n a p : bytes) : bytes :=
  match find (fun e => match e with (k', n', p', _) => bytes_eqb k k' && bytes_eqb n n' && bytes_eqb p p' end) t with
  | Some (_, _, _, c) => c
  | None => []
  end.
Definition tbl_dec (t : aead_table) (k n a c : bytes) : option bytes :=
  match find (fun e => match e with (k', n', _, c') => bytes_eqb k k' && bytes_eqb n n' && bytes_eqb c c' end) t with
  | Some (_, _, p, _) => Some p
  | None => None
  end.

Inductive op :=
| OpRotate (fresh : bytes)
| OpIssue (alg : Z) (s2c c2s nonce : bytes)     (* issue a cookie, remember it in the next slot *)
| OpDecode (slot : nat)
| OpFlip (slot : nat) (pos : nat) (x : Z)        (* decode the slot's cookie with byte [pos] replaced by [x] *)
| OpTrunc (slot : nat) (n : nat)                 (* decode the first n bytes *)
| OpPad (slot : nat) (suffix : bytes)            (* decode with trailing bytes added *)
| OpRaw (b : bytes).                             (* decode arbitrary bytes *)

Fixpoint set_nth (l : bytes) (pos : nat) (x : Z) : bytes :=
  match l, pos with
  | [], _ => []
  | _ :: r, O => x :: r
  | y :: r, S p => y :: set_nth r p x
  end.

(* result encoding: rotate -> 1 :: id_offset :: primary :: packed keys;
   issue -> [2; length; packed cookie] or [-2] (panic); decode -> 3 :: alg :: keys, [4] (error) *)
Definition out_state (ks : keyset) : list Z :=
  1 :: id_offset ks :: primary ks :: lenZ (keys ks) :: map be_dec (keys ks).
Definition out_decode (r : res cookie) : list Z :=
  match r with
  | Ok c => [3; c_alg c; lenZ (c_s2c c); be_dec (c_s2c c); lenZ (c_c2s c); be_dec (c_c2s c)]
  | Err _ => [4]
  | Panic _ => [-2]
  end.

Section Run.
  Variable history : nat.
  Variable t : aead_table.
  Fixpoint run_ops (ks : keyset) (slots : list bytes) (ops : list op) : list (list Z) :=
    match ops with
    | [] => []
    | o :: rest =>
      let dcd b := out_decode (decode_cookie (tbl_dec t) ks b) in
      let slot i := nth i slots [] in
      match o with
      | OpRotate f => let ks' := rotate history ks f in out_state ks' :: run_ops ks' slots rest
      | OpIssue a s c n =>
          match encode_cookie (tbl_enc t) ks {| c_alg := a; c_s2c := s; c_c2s := c |} n with
          | Ok b => [2; lenZ b; be_dec b] :: run_ops ks (slots ++ [b]) rest
          | _ => [-2] :: run_ops ks (slots ++ [[]]) rest
          end
      | OpDecode i => dcd (slot i) :: run_ops ks slots rest
      | OpFlip i p x => dcd (set_nth (slot i) p x) :: run_ops ks slots rest
      | OpTrunc i n => dcd (firstn n (slot i)) :: run_ops ks slots rest
      | OpPad i s => dcd (slot i ++ s) :: run_ops ks slots rest
      | OpRaw b => dcd b :: run_ops ks slots rest
      end
    end.
End Run.

Fixpoint lz_eqb (a b : list Z) : bool :=
  match a, b with
  | [], [] => true
  | x :: a', y :: b' => (x =? y) && lz_eqb a' b'
  | _, _ => false
  end.
Fixpoint llz_eqb (a b : list (list Z)) : bool :=
  match a, b with
  | [], [] => true
  | x :: a', y :: b' => lz_eqb x y && llz_eqb a' b'
  | _, _ => false
  end.

(* a case: history, initial key set, table, ops.  The first output line is the initial state. *)
Definition run_c26 (i : nat * keyset * aead_table * list op) : list (list Z) :=
  match i with (h, ks, t, ops) => out_state ks :: run_ops h t ks [] ops end.
