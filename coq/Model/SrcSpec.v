(* Specification-side vocabulary for C11 and C13 over Model/SrcCore.v:
   what a history delivered, what was sent, the ghost record of answered
   polls.  Definitions only. *)
From V Require Export Model.SrcCore.
From V Require Import Gen.ConstSource.
From Coq Require Export Sorted.

Section Spec.
Context {C : Type}.
Variable dflt : C.
Variable clen : C -> Z.

Notation src := (src C).
Notation event := (event C).
Notation action := (action C).

(* well-formed machine state *)
Definition src_inv (st : src) : Prop :=
  0 <= reach st < 256 /\ 0 <= tries st <= usize_max /\
  match nts st with Some s => stash_inv s | None => True end.

(* ---------- C13 ---------- *)

(* the cookies the client holds, oldest first *)
Definition held (st : src) : list C :=
  match nts st with Some s => abs dflt s | None => [] end.

Definition sent_of (acts : list action) : list C :=
  flat_map (fun a => match a with SendNts c _ => [c] | _ => [] end) acts.

(* the cookies put into requests over a whole history, in order *)
Definition sent_cookies (tr : list (list action * src)) : list C :=
  flat_map (fun o => sent_of (fst o)) tr.

(* every cookie that was ever handed to the client, in order of arrival
   (whether or not the datagram carrying it was accepted) *)
Definition delivered (evs : list event) : list C :=
  flat_map (fun e => match e with Usable cs => cs | StoreCookie c => [c] | _ => [] end) evs.

(* the cookies that actually reached CookieStash::store, in order *)
Definition stored_by (st : src) (e : event) : list C :=
  match nts st, e with
  | Some _, StoreCookie c => [c]
  | Some _, Usable cs => if pending st then cs else []
  | _, _ => []
  end.
Fixpoint stored (st : src) (evs : list event) : list C :=
  match evs with
  | [] => []
  | e :: r => stored_by st e ++ stored (snd (step dflt clen st e)) r
  end.

(* l1 is obtained from l2 by deleting elements: every element of l1 is matched
   to its own position of l2, positions increasing *)
Inductive subseq : list C -> list C -> Prop :=
| subseq_nil : subseq [] []
| subseq_skip : forall x l1 l2, subseq l1 l2 -> subseq l1 (x :: l2)
| subseq_take : forall x l1 l2, subseq l1 l2 -> subseq (x :: l1) (x :: l2).

(* how many cookies (the one sent plus one per placeholder) a request asks for *)
Definition asked (a : action) : Z :=
  match a with SendNts _ p => 1 + p | _ => 0 end.

(* ---------- C11 ---------- *)

(* ghost record of poll attempts, newest first: was the attempt followed by a
   usable answer before the next attempt.  An attempt is a timer firing that
   got past the reachability test (for a plain source: a request sent). *)
Definition hist_step (h : list bool) (st : src) (e : event) : list bool :=
  match e with
  | Timer => if reset_due st then h else false :: h
  | Usable _ => if pending st then match h with _ :: t => true :: t | [] => [] end else h
  | _ => h
  end.

Fixpoint hist_run (h : list bool) (st : src) (evs : list event) : list bool :=
  match evs with
  | [] => h
  | e :: r => hist_run (hist_step h st e) (snd (step dflt clen st e)) r
  end.

(* the register an 8-bit window of the record denotes *)
Fixpoint bits (n : nat) (h : list bool) : Z :=
  match n, h with
  | O, _ => 0
  | _, [] => 0
  | S n', b :: t => (if b then 1 else 0) + 2 * bits n' t
  end.

(* attempts since the last usable answer (None: never answered) *)
Fixpoint since_last (h : list bool) : option Z :=
  match h with
  | [] => None
  | true :: _ => Some 0
  | false :: t => option_map Z.succ (since_last t)
  end.

Definition none_answered (n : nat) (h : list bool) : Prop :=
  forall i, (i < n)%nat -> nth i h false = false.

(* a history in which every request is answered usably before the next timer *)
Fixpoint prompt (awaiting : bool) (evs : list event) : Prop :=
  match evs with
  | [] => True
  | Timer :: r => awaiting = false /\ prompt true r
  | Usable _ :: r => prompt false r
  | _ :: r => prompt awaiting r
  end.

Definition is_send (a : action) : bool :=
  match a with SendPlain | SendNts _ _ => true | _ => false end.
Definition is_reset (a : action) : bool :=
  match a with Reset | Demobilize => true | _ => false end.

Definition no_usable (evs : list event) : Prop :=
  forall e, In e evs -> match e with Usable _ => False | _ => True end.

End Spec.
