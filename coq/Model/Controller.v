(* Model of the steering part of ntp-proto/src/algorithm/kalman/mod.rs
   (KalmanClockController: check_offset_steer, steer_offset,
   change_desired_frequency, steer_frequency, time_update and the steering
   decision of update_clock) and of config.rs StepThreshold::is_within.
   Definitions only; lemmas are in Proofs/Controller.v.

   Durations are Z (units of 2^-32 s, i64 range) with the operations of
   Model/TimeTypes.v.  f64 values are Coq primitive floats (hardware binary64,
   bit-exact for + - * / sqrt abs and comparisons); the Rust operations that
   are not primitives (signum, min, clamp, floor, `as i64`, from_seconds,
   to_bits/from_bits) are defined below from them, mirroring `core`.

   Release semantics.  `process::exit` in check_offset_steer (`panic!` under
   cfg(test)) is the [Panic site_exit_*] result; the two genuine panic sites of
   the modelled path are Duration::from_secs_f64 in the slew branch and the
   `assert!(min <= max)` of f64::clamp.

   What is NOT modelled here: source bookkeeping, selection and combination
   (C03/C37/C06): an [Update] operation carries the combined estimate the
   implementation computed (oracle input; theorems quantify over all of them). *)
From V Require Export Base.Prelude.
From V Require Import Model.TimeTypes Gen.ConstController.
From Coq Require Import Floats Uint63.

(* ------------------------------------------------------------------ *)
(* f64 kit                                                             *)

Definition fzero : float := 0%float.
Definition fone : float := 1%float.
Definition f_is_nan (x : float) : bool := negb (PrimFloat.eqb x x).

(* u64 bit pattern <-> float (all NaNs are one value: 0x7ff8000000000000) *)
Definition nan_bits : Z := 0x7ff8000000000000.
Definition f_of_bits (b : Z) : float :=
  let s := Z.odd (b / 2 ^ 63) in
  let e := (b / 2 ^ 52) mod 2 ^ 11 in
  let m := b mod 2 ^ 52 in
  if e =? 2047 then
    (if m =? 0 then (if s then neg_infinity else infinity) else nan)
  else if e =? 0 then
    (if m =? 0 then (if s then neg_zero else zero)
     else SF2Prim (S754_finite s (Z.to_pos m) (-1074)))
  else SF2Prim (S754_finite s (Z.to_pos (m + 2 ^ 52)) (e - 1075)).

Definition f_to_bits (x : float) : Z :=
  match Prim2SF x with
  | S754_nan => nan_bits
  | S754_zero s => if s then 2 ^ 63 else 0
  | S754_infinity s => (if s then 2 ^ 63 else 0) + 2047 * 2 ^ 52
  | S754_finite s m e =>
      (if s then 2 ^ 63 else 0) +
      (if Zpos m <? 2 ^ 52 then Zpos m else (e + 1075) * 2 ^ 52 + (Zpos m - 2 ^ 52))
  end.

(* f64::signum: NaN -> NaN, otherwise 1.0 with the sign bit of x (also for zeros) *)
Definition f_signum (x : float) : float :=
  if f_is_nan x then nan else if get_sign x then (-1)%float else 1%float.

(* f64::min: a NaN operand is ignored *)
Definition f_min (a b : float) : float :=
  if f_is_nan a then b else if f_is_nan b then a
  else if PrimFloat.ltb a b then a else b.

Definition site_clamp : Z := 103.
(* f64::clamp: assert!(min <= max); if x < min {min} ; if x > max {max}; NaN stays *)
Definition f_clamp (x lo hi : float) : res float :=
  if PrimFloat.leb lo hi then
    let x1 := if PrimFloat.ltb x lo then lo else x in
    Ok (if PrimFloat.ltb hi x1 then hi else x1)
  else Panic site_clamp.

(* the mathematical integer floor / truncation of a finite float *)
Definition sf_floor (s : bool) (m : positive) (e : Z) : Z :=
  let v := if s then Zneg m else Zpos m in
  if 0 <=? e then v * 2 ^ e else v / 2 ^ (- e).
Definition sf_trunc (s : bool) (m : positive) (e : Z) : Z :=
  let v := if s then Zneg m else Zpos m in
  if 0 <=? e then v * 2 ^ e else Z.quot v (2 ^ (- e)).

(* `x as i64` (saturating, NaN -> 0) *)
Definition f_as_i64 (x : float) : Z :=
  match Prim2SF x with
  | S754_nan => 0
  | S754_zero _ => 0
  | S754_infinity s => if s then i64_min else i64_max
  | S754_finite s m e => sat_i64 (sf_trunc s m e)
  end.

(* exact for |z| < 2^53 (used for |z| <= 2^31 only) *)
Definition f_of_Z (z : Z) : float :=
  let a := PrimFloat.of_uint63 (Uint63.of_Z (Z.abs z)) in
  if z <? 0 then PrimFloat.opp a else a.

(* NtpDuration::from_seconds (release: the debug_assert on NaN/inf is inactive)
     let i = seconds.floor(); let f = seconds - i;
     match i as i64 { i if i32::try_from(i).is_ok() => (i << 32) | (f * u32::MAX as f64) as i64,
                      i if i < i32::MIN => i64::MIN, i if i > i32::MAX => i64::MAX } *)
Definition from_seconds (x : float) : Z :=
  match Prim2SF x with
  | S754_nan => 0
  | S754_zero _ => 0
  | S754_infinity s => if s then i64_min else i64_max
  | S754_finite s m e =>
      let iz := sf_floor s m e in
      if iz <? - 2 ^ 31 then i64_min
      else if 2 ^ 31 - 1 <? iz then i64_max
      else
        let f := PrimFloat.sub x (f_of_Z iz) in
        let frac := f_as_i64 (PrimFloat.mul f 4294967295%float) in
        to_signed 64 (Z.lor (iz * 2 ^ 32) frac)
  end.

Definition site_duration_negative : Z := 101.
Definition site_duration_overflow : Z := 102.
(* Duration::from_secs_f64 panics on negative, NaN and >= 2^64 seconds; its value
   (next_update) is not part of the model *)
Definition duration_check (y : float) : res unit :=
  if PrimFloat.ltb y 0%float then Panic site_duration_negative
  else if PrimFloat.ltb y 18446744073709551616%float then Ok tt
  else Panic site_duration_overflow.

(* ------------------------------------------------------------------ *)
(* which NtpDuration::abs / Neg the repository has (Gen/ConstController.v) *)

Definition repo_sat_abs : bool := ABS_WRAP_SITES =? 0.
Definition repo_sat_neg : bool := NEG_WRAP_SITES =? 0.

Record arith := { sat_abs : bool; sat_neg : bool }.
Definition repo_arith : arith := {| sat_abs := repo_sat_abs; sat_neg := repo_sat_neg |}.
Definition k_abs (ar : arith) (d : Z) : Z := if sat_abs ar then dabs d else dabs_wrap d.
Definition k_neg (ar : arith) (d : Z) : Z := if sat_neg ar then dneg d else dneg_wrap d.

(* ------------------------------------------------------------------ *)
(* configuration, state, clock calls                                   *)

Record thr := { fwd : option Z; bwd : option Z }.

Record cfg := {
  c_startup : thr;              (* startup_step_panic_threshold *)
  c_single : thr;               (* single_step_panic_threshold *)
  c_acc : option Z;             (* accumulated_step_panic_threshold *)
  c_step_threshold : float;
  c_slew_max : float;           (* slew_maximum_frequency_offset *)
  c_slew_min_dur : float;       (* slew_minimum_duration *)
  c_max_freq : float;           (* maximum_frequency_steer *)
  c_off_thr : float;            (* steer_offset_threshold *)
  c_off_left : float;           (* steer_offset_leftover *)
  c_freq_thr : float;           (* steer_frequency_threshold *)
  c_freq_left : float           (* steer_frequency_leftover *)
}.

Record st := {
  freq_offset : float;
  desired_freq : float;
  in_startup : bool;
  acc : Z                       (* timedata.accumulated_steps *)
}.

Definition init_st (kernel_freq : float) : st :=
  {| freq_offset := kernel_freq; desired_freq := fzero; in_startup := true; acc := 0 |}.

Inductive call :=
| DisableNtp
| Step (d : Z)
| SetFreq (f : float)
| ErrEst
| Status.

Definition site_exit_startup : Z := 1.
Definition site_exit_running : Z := 2.
Definition is_exit (site : Z) : bool := (site =? site_exit_startup) || (site =? site_exit_running).

(* StepThreshold::is_within:
   forward.is_none_or(|v| duration < v) && backward.is_none_or(|v| duration > -v) *)
Definition is_within (ar : arith) (t : thr) (d : Z) : bool :=
  (match fwd t with None => true | Some v => d <? v end) &&
  (match bwd t with None => true | Some v => k_neg ar v <? d end).

Definition set_acc (s : st) (a : Z) : st :=
  {| freq_offset := freq_offset s; desired_freq := desired_freq s; in_startup := in_startup s; acc := a |}.
Definition set_freq_offset (s : st) (f : float) : st :=
  {| freq_offset := f; desired_freq := desired_freq s; in_startup := in_startup s; acc := acc s |}.
Definition set_desired (s : st) (f : float) : st :=
  {| freq_offset := freq_offset s; desired_freq := f; in_startup := in_startup s; acc := acc s |}.
Definition set_startup (s : st) (b : bool) : st :=
  {| freq_offset := freq_offset s; desired_freq := desired_freq s; in_startup := b; acc := acc s |}.

(* check_offset_steer on the already converted duration *)
Definition check_step (ar : arith) (c : cfg) (s : st) (d : Z) : res st :=
  if in_startup s then
    if is_within ar (c_startup c) d then Ok s else Panic site_exit_startup
  else
    let a := dadd (acc s) (k_abs ar d) in
    if negb (is_within ar (c_single c) d)
       || (match c_acc c with Some v => v <? a | None => false end)
    then Panic site_exit_running
    else Ok (set_acc s a).

(* the result of one operation: the clock calls made, and the new state or
   the panic/exit that ended it *)
Definition outcome := (list call * res st)%type.

Definition steer_frequency (c : cfg) (s : st) (change : float) : outcome :=
  let m := c_max_freq c in
  match f_clamp (PrimFloat.sub (PrimFloat.mul (PrimFloat.add fone (freq_offset s))
                                              (PrimFloat.add fone change)) fone)
                (PrimFloat.opp m) m with
  | Ok nf => ([SetFreq nf], Ok (set_freq_offset s nf))
  | Err e => ([], Err e)
  | Panic p => ([], Panic p)
  end.

Definition change_desired_frequency (c : cfg) (s : st) (new_freq freq_delta : float) : outcome :=
  let change := PrimFloat.add (PrimFloat.sub (desired_freq s) new_freq) freq_delta in
  steer_frequency c (set_desired s new_freq) change.

Definition slew_freq (c : cfg) (change : float) : float :=
  f_min (c_slew_max c) (PrimFloat.div (PrimFloat.abs change) (c_slew_min_dur c)).

Definition steer_offset (ar : arith) (c : cfg) (s : st) (change freq_delta : float) : outcome :=
  if PrimFloat.ltb (c_step_threshold c) (PrimFloat.abs change) then
    let d := from_seconds change in
    match check_step ar c s d with
    | Ok s' => ([Step d], Ok s')
    | Err e => ([], Err e)
    | Panic p => ([], Panic p)
    end
  else
    let freq := slew_freq c change in
    match duration_check (PrimFloat.div (PrimFloat.abs change) freq) with
    | Ok _ => change_desired_frequency c s
                (PrimFloat.mul (PrimFloat.opp freq) (f_signum change)) freq_delta
    | Err e => ([], Err e)
    | Panic p => ([], Panic p)
    end.

(* the combined estimate: offset, frequency, offset variance, frequency variance *)
Record est := { e_off : float; e_freq : float; e_p00 : float; e_p11 : float }.

Inductive op :=
| Update (e : option est) (leap : bool)  (* update_clock; None = no consensus / early return *)
| TimeUpdate                              (* time_update: end of slew *)
| SteerOffset (change freq_delta : float) (* direct call *)
| SteerFreq (change : float).             (* direct call *)

Definition seq (o : outcome) (k : st -> outcome) : outcome :=
  match o with
  | (cs, Ok s) => let (cs2, r) := k s in (cs ++ cs2, r)
  | (cs, r) => (cs, r)
  end.

Definition update_clock (ar : arith) (c : cfg) (s : st) (e : est) (leap : bool) : outcome :=
  let pre := if in_startup s then [DisableNtp] else [] in
  let freq_delta := PrimFloat.sub (e_freq e) (desired_freq s) in
  let freq_unc := PrimFloat.sqrt (e_p11 e) in
  let off_delta := e_off e in
  let off_unc := PrimFloat.sqrt (e_p00 e) in
  let steer :=
    if PrimFloat.eqb (desired_freq s) fzero
       && PrimFloat.ltb (PrimFloat.mul off_unc (c_off_thr c)) (PrimFloat.abs off_delta)
    then steer_offset ar c s
           (PrimFloat.sub off_delta
              (PrimFloat.mul (PrimFloat.mul off_unc (c_off_left c)) (f_signum off_delta)))
           freq_delta
    else if PrimFloat.ltb (PrimFloat.mul freq_unc (c_freq_thr c)) (PrimFloat.abs freq_delta)
    then steer_frequency c s
           (PrimFloat.sub freq_delta
              (PrimFloat.mul (PrimFloat.mul freq_unc (c_freq_left c)) (f_signum freq_delta)))
    else ([], Ok s) in
  seq (pre, Ok s) (fun _ =>
  seq steer (fun s' =>
    (ErrEst :: (if leap then [Status] else []), Ok (set_startup s' false)))).

Definition step (ar : arith) (c : cfg) (s : st) (o : op) : outcome :=
  match o with
  | Update None _ => ([], Ok s)
  | Update (Some e) leap => update_clock ar c s e leap
  | TimeUpdate => change_desired_frequency c s fzero fzero
  | SteerOffset ch fd => steer_offset ar c s ch fd
  | SteerFreq ch => steer_frequency c s ch
  end.

(* a whole history: stops at the first exit/panic *)
Fixpoint run (ar : arith) (c : cfg) (s : st) (ops : list op) : outcome :=
  match ops with
  | [] => ([], Ok s)
  | o :: r => seq (step ar c s o) (fun s' => run ar c s' r)
  end.

(* ------------------------------------------------------------------ *)
(* wire encoding for the correspondence (harness/ntp-proto/k1_common.rs) *)

Inductive wop :=
| WUpdate (e : option (Z * Z * Z * Z)) (leap : bool)  (* bits of offset, frequency, p00, p11 *)
| WTimeUpdate
| WSteerOffset (change fd : Z)
| WSteerFreq (change : Z).

Definition op_of_wire (w : wop) : op :=
  match w with
  | WUpdate None l => Update None l
  | WUpdate (Some (o, f, p0, p1)) l =>
      Update (Some {| e_off := f_of_bits o; e_freq := f_of_bits f;
                      e_p00 := f_of_bits p0; e_p11 := f_of_bits p1 |}) l
  | WTimeUpdate => TimeUpdate
  | WSteerOffset a b => SteerOffset (f_of_bits a) (f_of_bits b)
  | WSteerFreq a => SteerFreq (f_of_bits a)
  end.

(* thresholds: startup fwd/bwd, single fwd/bwd, accumulated; then the eight f64 fields as bits *)
Record wcfg := {
  w_thr : (option Z * option Z) * (option Z * option Z) * option Z;
  w_floats : list Z
}.

Definition cfg_of_wire (w : wcfg) : cfg :=
  let '((sf, sb), (gf, gb), a) := w_thr w in
  let g := fun n => f_of_bits (nth n (w_floats w) 0) in
  {| c_startup := {| fwd := sf; bwd := sb |};
     c_single := {| fwd := gf; bwd := gb |};
     c_acc := a;
     c_step_threshold := g 0%nat; c_slew_max := g 1%nat; c_slew_min_dur := g 2%nat;
     c_max_freq := g 3%nat; c_off_thr := g 4%nat; c_off_left := g 5%nat;
     c_freq_thr := g 6%nat; c_freq_left := g 7%nat |}.

Definition call_code (c : call) : list Z :=
  match c with
  | DisableNtp => [1]
  | Step d => [2; d]
  | SetFreq f => [3; f_to_bits f]
  | ErrEst => [4]
  | Status => [5]
  end.

(* class of a panic as the harness can observe it: 1 threshold exit, 2 Duration, 3 clamp *)
Definition site_class (p : Z) : Z :=
  if is_exit p then 1
  else if (p =? site_duration_negative) || (p =? site_duration_overflow) then 2
  else if p =? site_clamp then 3 else 9.

Definition st_code (s : st) : list Z :=
  [9; (if in_startup s then 1 else 0); acc s; f_to_bits (freq_offset s); f_to_bits (desired_freq s)].

(* per operation: the calls, then the state reached (9 ...) or the end (7 class) *)
Fixpoint run_code (ar : arith) (c : cfg) (s : st) (ops : list op) : list Z :=
  match ops with
  | [] => []
  | o :: r =>
      match step ar c s o with
      | (cs, Ok s') => flat_map call_code cs ++ st_code s' ++ run_code ar c s' r
      | (cs, Panic p) => flat_map call_code cs ++ [7; site_class p]
      | (cs, Err _) => flat_map call_code cs ++ [8]
      end
  end.

(* a case: configuration, kernel frequency bits, initial in_startup, operations *)
Definition case_code (i : wcfg * Z * bool * list wop) : list Z :=
  let '(w, f0, su, ops) := i in
  run_code repo_arith (cfg_of_wire w) (set_startup (init_st (f_of_bits f0)) su) (map op_of_wire ops).

Fixpoint zlist_eqb (a b : list Z) : bool :=
  match a, b with
  | [], [] => true
  | x :: a', y :: b' => (x =? y) && zlist_eqb a' b'
  | _, _ => false
  end.

(* unit checks of the conversions: from_seconds on bit patterns *)
Definition from_seconds_bits (b : Z) : Z := from_seconds (f_of_bits b).

(* the case as the drivers send it: the history, plus f64 patterns whose from_seconds the harness
   reported (one per direct steer_offset) *)
Definition case_code_fs (i : (wcfg * Z * bool * list wop) * list Z) : list Z :=
  case_code (fst i) ++ 0 :: map from_seconds_bits (snd i).

(* ------------------------------------------------------------------ *)
(* specification vocabulary used by Props/C01.v and Props/C02.v        *)

Definition opt_in_i64 (o : option Z) : Prop :=
  match o with Some v => in_i64 v | None => True end.
Definition thr_wf (t : thr) : Prop := opt_in_i64 (fwd t) /\ opt_in_i64 (bwd t).
(* the thresholds are values of the i64 duration type (a typing fact, not a restriction) *)
Definition cfg_wf (c : cfg) : Prop :=
  thr_wf (c_startup c) /\ thr_wf (c_single c) /\ opt_in_i64 (c_acc c).

(* the mathematical reading of a step threshold: strictly less than `forward`
   forwards, strictly less than `backward` backwards; None = unbounded *)
Definition within (t : thr) (d : Z) : Prop :=
  (forall f, fwd t = Some f -> d < f) /\ (forall b, bwd t = Some b -> - b < d).

(* the negation used by is_within is the mathematical one: always for the
   saturating Neg, and for the wrapping Neg unless the backward threshold is i64::MIN *)
Definition neg_ok (ar : arith) (t : thr) : Prop :=
  sat_neg ar = true \/ bwd t <> Some i64_min.

(* a history with, per operation, the state it ran in and the calls it made *)
Fixpoint trace (ar : arith) (c : cfg) (s : st) (ops : list op) : list (st * list call) * res st :=
  match ops with
  | [] => ([], Ok s)
  | o :: r =>
      match step ar c s o with
      | (cs, Ok s') => let (t, e) := trace ar c s' r in ((s, cs) :: t, e)
      | (cs, x) => ([(s, cs)], x)
      end
  end.

Definition steps_of (cs : list call) : list Z :=
  flat_map (fun c => match c with Step d => [d] | _ => [] end) cs.
Definition freqs_of (cs : list call) : list float :=
  flat_map (fun c => match c with SetFreq f => [f] | _ => [] end) cs.
(* steps made while in_startup was still set / afterwards *)
Definition startup_steps (t : list (st * list call)) : list Z :=
  flat_map (fun x => if in_startup (fst x) then steps_of (snd x) else []) t.
Definition later_steps (t : list (st * list call)) : list Z :=
  flat_map (fun x => if in_startup (fst x) then [] else steps_of (snd x)) t.
Definition sum_abs (l : list Z) : Z := fold_right (fun d a => Z.abs d + a) 0 l.

Definition is_consensus_update (o : op) : bool :=
  match o with Update (Some _) _ => true | _ => false end.

(* a step of d would violate a threshold in state s *)
Definition violates (c : cfg) (s : st) (d : Z) : Prop :=
  if in_startup s then ~ within (c_startup c) d
  else ~ within (c_single c) d \/
       (exists a, c_acc c = Some a /\ a < Z.min (acc s + Z.abs d) i64_max).
