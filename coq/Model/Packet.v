(* NTP packets: ntp-proto/src/packet/mod.rs (NtpHeaderV3V4, NtpPacket::
   deserialize / serialize) and packet/v5/mod.rs (NtpHeaderV5).  Definitions
   only; the flat encodings at the end are what the correspondence checks
   compare with the harness output. *)
From V Require Export Model.ExtField.
From V Require Import Gen.ConstPacket.

(* panic sites of this file *)
Definition S_DATA0 : Z := 201.          (* data[0] in NtpPacket::deserialize *)
Definition S_HDR_INDEX : Z := 202.      (* data[i], data[a..b].try_into().unwrap() in the header parsers *)
Definition S_LEAP_UNREACHABLE : Z := 203.
Definition S_MODE_UNREACHABLE : Z := 204.
Definition S_V3_MAC_SLICE : Z := 205.   (* &data[header_size..] *)
Definition S_NEG_DURATION : Z := 206.   (* assert!(self.duration >= 0) in to_bits_short / to_bits_time32 *)

(* leap indicator codes: 0 NoWarning, 1 Leap61, 2 Leap59, 3 Unknown, 4 Unsynchronized *)
Definition leap_from_bits (b : Z) : res Z :=
  if b =? 0 then Ok 0 else if b =? 1 then Ok 1 else if b =? 2 then Ok 2
  else if b =? 3 then Ok 4 else Panic S_LEAP_UNREACHABLE.
Definition leap_to_bits (l : Z) : Z := if l <? 3 then l else 3.

Definition mode_from_bits (b : Z) : res Z :=
  if (0 <=? b) && (b <=? 7) then Ok b else Panic S_MODE_UNREACHABLE.

Record hdr34 : Type := mkH34 {
  h_leap : Z; h_mode : Z; h_stratum : Z; h_poll : Z; h_precision : Z;
  h_root_delay : Z; h_root_disp : Z; h_refid : Z;
  h_ref_ts : Z; h_origin_ts : Z; h_recv_ts : Z; h_xmit_ts : Z }.

Record hdr5 : Type := mkH5 {
  v_leap : Z; v_mode : Z; v_stratum : Z; v_poll : Z; v_precision : Z;
  v_timescale : Z; v_era : Z; v_flags : Z;          (* flags: bit0 synchronized, bit1 interleaved, bit2 authnak *)
  v_root_delay : Z; v_root_disp : Z;
  v_server_cookie : Z; v_client_cookie : Z; v_recv_ts : Z; v_xmit_ts : Z }.

Inductive header : Type := HV3 (h : hdr34) | HV4 (h : hdr34) | HV5 (h : hdr5).

Record packet : Type := mkPacket { p_header : header; p_ef : efdata; p_mac : option mac }.

Definition field (data : bytes) (lo hi : Z) : res Z :=
  do b <- range data lo hi S_HDR_INDEX; Ok (be b).

(* NtpHeaderV3V4::deserialize *)
Definition hdr34_deserialize (data : bytes) : res hdr34 :=
  if blen data <? HDR34_WIRE_LENGTH then Err E_IncorrectLength
  else
    do d0 <- idx data 0 S_HDR_INDEX;
    do leap <- leap_from_bits ((d0 / 64) mod 4);      (* (data[0] & 0xC0) >> 6 *)
    do mode <- mode_from_bits (d0 mod 8);             (* data[0] & 0x07 *)
    do stratum <- idx data 1 S_HDR_INDEX;
    do poll <- idx data 2 S_HDR_INDEX;
    do precision <- idx data 3 S_HDR_INDEX;
    do rdel <- field data 4 8;
    do rdisp <- field data 8 12;
    do refid <- field data 12 16;
    do t1 <- field data 16 24;
    do t2 <- field data 24 32;
    do t3 <- field data 32 40;
    do t4 <- field data 40 48;
    Ok (mkH34 leap mode stratum poll precision (rdel * 65536) (rdisp * 65536) refid t1 t2 t3 t4).

(* NtpDuration::to_bits_short *)
Definition to_bits_short (d : Z) : res bytes :=
  if d <? 0 then Panic S_NEG_DURATION
  else Ok (to_be 4 (if d >? 281474976710655 then 4294967295 else (d / 65536) mod 2 ^ 32)).

(* NtpDuration::to_bits_time32 *)
Definition to_bits_time32 (d : Z) : res bytes :=
  if d <? 0 then Panic S_NEG_DURATION
  else Ok (to_be 4 (if d / 16 >? 4294967295 then 4294967295 else d / 16)).

Definition hdr34_serialize (w : writer) (h : hdr34) (version : Z) : res writer :=
  do w <- wr w [leap_to_bits (h_leap h) * 64 + version * 8 + h_mode h];
  do w <- wr w [h_stratum h; h_poll h; h_precision h];
  do b <- to_bits_short (h_root_delay h);
  do w <- wr w b;
  do b <- to_bits_short (h_root_disp h);
  do w <- wr w b;
  do w <- wr w (to_be 4 (h_refid h));
  do w <- wr w (to_be 8 (h_ref_ts h));
  do w <- wr w (to_be 8 (h_origin_ts h));
  do w <- wr w (to_be 8 (h_recv_ts h));
  wr w (to_be 8 (h_xmit_ts h)).

(* v5 *)
Definition v5_mode_from_bits (b : Z) : res Z :=
  if (b =? 3) || (b =? 4) then Ok b else Err E_V5_MalformedMode.
Definition v5_timescale_from_bits (b : Z) : res Z :=
  if (0 <=? b) && (b <=? 3) then Ok b else Err E_V5_MalformedTimescale.
Definition v5_flags_from_bits (b0 b1 : Z) : res Z :=
  if negb (b0 =? 0) || negb ((b1 / 8) mod 32 =? 0) then Err E_V5_InvalidFlags   (* bits[1] & 0b1111_1000 != 0 *)
  else Ok (b1 mod 8).

Definition fix_leap (flags leap : Z) : Z :=
  let synchronized := flags mod 2 =? 1 in
  if synchronized && (leap =? 4) then 3
  else if negb synchronized then 4
  else leap.

Definition hdr5_deserialize (data : bytes) : res hdr5 :=
  if blen data <? HDR5_WIRE_LENGTH then Err E_IncorrectLength
  else
    do d0 <- idx data 0 S_HDR_INDEX;
    let version := (d0 / 8) mod 8 in
    if negb (version =? 5) then Err E_InvalidVersion
    else
      do leap <- leap_from_bits ((d0 / 64) mod 4);
      do mode <- v5_mode_from_bits (d0 mod 8);
      do stratum <- idx data 1 S_HDR_INDEX;
      do poll <- idx data 2 S_HDR_INDEX;
      do precision <- idx data 3 S_HDR_INDEX;
      do rdel <- field data 4 8;
      do rdisp <- field data 8 12;
      do d12 <- idx data 12 S_HDR_INDEX;
      do timescale <- v5_timescale_from_bits d12;
      do era <- idx data 13 S_HDR_INDEX;
      do fb <- range data 14 16 S_HDR_INDEX;
      do flags <- v5_flags_from_bits (nth 0 fb 0) (nth 1 fb 0);
      do sc <- field data 16 24;
      do cc <- field data 24 32;
      do t3 <- field data 32 40;
      do t4 <- field data 40 48;
      Ok (mkH5 (fix_leap flags leap) mode stratum poll precision timescale era flags
               (rdel * 16) (rdisp * 16) sc cc t3 t4).

Definition hdr5_serialize (w : writer) (h : hdr5) : res writer :=
  do w <- wr w [leap_to_bits (v_leap h) * 64 + HDR5_VERSION * 8 + v_mode h];
  do w <- wr w [v_stratum h; v_poll h; v_precision h];
  do b <- to_bits_time32 (v_root_delay h);
  do w <- wr w b;
  do b <- to_bits_time32 (v_root_disp h);
  do w <- wr w b;
  do w <- wr w [v_timescale h];
  do w <- wr w [v_era h];
  do w <- wr w [0; v_flags h];
  do w <- wr w (to_be 8 (v_server_cookie h));
  do w <- wr w (to_be 8 (v_client_cookie h));
  do w <- wr w (to_be 8 (v_recv_ts h));
  wr w (to_be 8 (v_xmit_ts h)).

(* ---- NtpPacket::deserialize ---- *)

(* Ok(packet, cookie)  or  Err(DecryptError(packet)); the other errors are Err codes *)
Inductive outcome : Type :=
| Accept (p : packet) (c : option cookie)
| DecryptFailed (p : packet).

Definition construct_packet (h : header) (remaining : bytes) (d : efdata) : res packet :=
  match remaining with
  | [] => Ok (mkPacket h d None)
  | _ => do m <- mac_deserialize remaining; Ok (mkPacket h d (Some m))
  end.

Definition with_fields (dec : oracle) (cx : ctx) (data : bytes) (h : header) (hs : Z) (v5 : bool)
  : res outcome :=
  do r <- efdata_deserialize dec cx data hs v5;
  let '(d, remaining, ck, valid) := r in
  do p <- construct_packet h remaining d;
  if valid then Ok (Accept p ck) else Ok (DecryptFailed p).

(* draft_id: the first draft identification among untrusted, then authenticated *)
Fixpoint first_draft (fs : list ef) : option bytes :=
  match fs with
  | [] => None
  | EfDraft b :: _ => Some b
  | _ :: r => first_draft r
  end.
Definition draft_id (p : packet) : option bytes :=
  first_draft (untrusted (p_ef p) ++ authenticated (p_ef p)).

Definition deserialize (dec : oracle) (cx : ctx) (data : bytes) : res outcome :=
  match data with
  | [] => Err E_IncorrectLength
  | _ =>
      do d0 <- idx data 0 S_DATA0;
      let version := (d0 / 8) mod 8 in              (* (data[0] & 0b0011_1000) >> 3 *)
      if version =? 3 then
        do h <- hdr34_deserialize data;
        do m <- (if HDR34_WIRE_LENGTH =? blen data then Ok None
                 else do r <- range data HDR34_WIRE_LENGTH (blen data) S_V3_MAC_SLICE;
                      do m <- mac_deserialize r; Ok (Some m));
        Ok (Accept (mkPacket (HV3 h) efdata_empty m) None)
      else if version =? 4 then
        do h <- hdr34_deserialize data;
        with_fields dec cx data (HV4 h) HDR34_WIRE_LENGTH false
      else if version =? 5 then
        do h <- hdr5_deserialize data;
        do o <- with_fields dec cx data (HV5 h) HDR5_WIRE_LENGTH true;
        match o with
        | DecryptFailed p => Ok (DecryptFailed p)
        | Accept p ck =>
            match draft_id p with
            | Some id => if bytes_eqb id draft_version_bytes then Ok (Accept p ck)
                         else Err E_V5_InvalidDraft
            | None => Err E_V5_InvalidDraft
            end
        end
      else Err E_InvalidVersion
  end.

(* ---- NtpPacket::serialize into a cursor of capacity [cap] starting at 0 ---- *)
Definition serialize (enc : enc_oracle) (cipher : option (bytes * bytes)) (cap : Z)
           (desired_size : option Z) (p : packet) : res bytes :=
  let w := mkW [] cap in
  do w <- match p_header p with
          | HV3 h => hdr34_serialize w h 3
          | HV4 h => hdr34_serialize w h 4
          | HV5 h => hdr5_serialize w h
          end;
  do w <- match p_header p with
          | HV3 _ => Ok w
          | HV4 _ => efdata_serialize enc cipher w (p_ef p) false
          | HV5 _ => efdata_serialize enc cipher w (p_ef p) true
          end;
  do w <- match p_mac p with Some m => mac_serialize w m | None => Ok w end;
  do w <- match p_header p, desired_size with
          | HV5 _, Some ds =>
              let written := blen (w_out w) in
              if ds >? written then ef_serialize w (EfPadding (ds - written)) V5_PADDING_MIN true
              else Ok w
          | _, _ => Ok w
          end;
  Ok (w_out w).

(* ================= flat encodings for the correspondence ================= *)

Definition enc_bytes (b : bytes) : list Z := blen b :: b.

Definition enc_ef (f : ef) : list Z :=
  match f with
  | EfUid b => 1 :: enc_bytes b
  | EfCookie b => 2 :: enc_bytes b
  | EfPlaceholder n => [3; n]
  | EfInvalidNts => [4]
  | EfDraft b => 5 :: enc_bytes b
  | EfPadding n => [6; n]
  | EfRefReq pl off => [7; pl; off]
  | EfRefResp b => 8 :: enc_bytes b
  | EfUnknown t b => 9 :: t :: enc_bytes b
  end.

Definition enc_efs (fs : list ef) : list Z := Z.of_nat (List.length fs) :: flat_map enc_ef fs.

Definition enc_header (h : header) : list Z :=
  match h with
  | HV3 h | HV4 h =>
      [h_leap h; h_mode h; h_stratum h; h_poll h; h_precision h; h_root_delay h; h_root_disp h;
       h_refid h; h_ref_ts h; h_origin_ts h; h_recv_ts h; h_xmit_ts h]
  | HV5 h =>
      [v_leap h; v_mode h; v_stratum h; v_poll h; v_precision h; v_timescale h; v_era h; v_flags h;
       v_root_delay h; v_root_disp h; v_server_cookie h; v_client_cookie h; v_recv_ts h; v_xmit_ts h]
  end.
Definition header_version (h : header) : Z :=
  match h with HV3 _ => 3 | HV4 _ => 4 | HV5 _ => 5 end.

Definition enc_packet (p : packet) : list Z :=
  header_version (p_header p) :: enc_header (p_header p)
  ++ enc_efs (authenticated (p_ef p)) ++ enc_efs (encrypted (p_ef p)) ++ enc_efs (untrusted (p_ef p))
  ++ match p_mac p with None => [0] | Some m => 1 :: keyid m :: enc_bytes (macbytes m) end.

Definition enc_cookie (c : option cookie) : list Z :=
  match c with
  | None => [0]
  | Some c => 1 :: ck_alg c :: enc_bytes (ck_s2c c) ++ enc_bytes (ck_c2s c)
  end.

(* 0 :: packet ++ cookie  = Ok;  1 :: packet = Err(DecryptError(packet));
   [2; e] = another parsing error;  [3; site] = panic *)
Definition enc_outcome (r : res outcome) : list Z :=
  match r with
  | Ok (Accept p c) => 0 :: enc_packet p ++ enc_cookie c
  | Ok (DecryptFailed p) => 1 :: enc_packet p
  | Err e => [2; e]
  | Panic s => [3; s]
  end.

Definition enc_ser (r : res bytes) : list Z :=
  match r with
  | Ok b => 0 :: enc_bytes b
  | Err e => [2; e]
  | Panic s => [3; s]
  end.

(* oracle given as a finite table: (key, nonce, aad, ciphertext, plaintext) *)
Definition table : Type := list (bytes * bytes * bytes * bytes * bytes).
Fixpoint table_dec (t : table) : oracle :=
  fun k n a c =>
    match t with
    | [] => None
    | (k', n', a', c', p) :: t' =>
        if bytes_eqb k k' && bytes_eqb n n' && bytes_eqb a a' && bytes_eqb c c' then Some p
        else table_dec t' k n a c
    end.

Definition no_enc : enc_oracle := fun _ _ _ _ => [].

(* C23: one decode *)
Definition run_decode (i : ctx * table * bytes) : list Z :=
  let '(cx, t, data) := i in enc_outcome (deserialize (table_dec t) cx data).

(* C24: decode without keys; if accepted, encode (NoCipher, capacity cap),
   decode that, encode again *)
Definition run_roundtrip (i : Z * bytes) : list Z :=
  let '(cap, data) := i in
  let r := deserialize (table_dec []) NoKeys data in
  enc_outcome r ++
  match r with
  | Ok (Accept p _) =>
      let s1 := serialize no_enc None cap None p in
      enc_ser s1 ++
      match s1 with
      | Ok b1 =>
          let r1 := deserialize (table_dec []) NoKeys b1 in
          enc_outcome r1 ++
          match r1 with
          | Ok (Accept p1 _) => enc_ser (serialize no_enc None cap None p1)
          | _ => []
          end
      | _ => []
      end
  | _ => []
  end.

Fixpoint list_eqb (a b : list Z) : bool :=
  match a, b with
  | [], [] => true
  | x :: a', y :: b' => (x =? y) && list_eqb a' b'
  | _, _ => false
  end.
