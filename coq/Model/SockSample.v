(* Model of ntpd/src/daemon/sock_source.rs: the path from a datagram on the
   GPSd socket to the measurement handed to the source controller
   (recv into the fixed buffer, receive_sample, deserialize_sample, the
   Measurement built in SockSourceTask::run).  Definitions only. *)
From V Require Export Base.Prelude.
From V Require Export Base.D3Float.
From V Require Import Gen.ConstSock.
From Coq Require Import Floats.

(* struct SockSample; the offset is kept as the 64-bit pattern read from the
   wire (f64::from_le_bytes), pulse/leap/magic are i32 *)
Record sample := mk_sample { s_offset : Z; s_pulse : Z; s_leap : Z; s_magic : Z }.

(* enum SampleError, as a small enum (messages are never compared) *)
Definition E_IO : Z := 1.
Definition E_SLICE : Z := 2.      (* SliceError: unreachable, slices of a fixed array *)
Definition E_SIZE : Z := 3.
Definition E_MAGIC : Z := 4.
Definition E_PULSE : Z := 5.
Definition E_OFFSET : Z := 6.

(* panic sites of the path *)
Definition P_SLICE_RANGE : Z := 4001.   (* buf[lo..hi] with hi > buf.len() *)
Definition P_COPY_LEN : Z := 4002.      (* copy_from_slice length mismatch / slice range in receive_sample *)

(* buf[lo..hi].try_into::<[u8; width]>().map_err(SliceError)? then from_le_bytes *)
Definition field (lo hi width : Z) (buf : list Z) : res Z :=
  if (Z.of_nat (length buf) <? hi) || (hi <? lo) then Panic P_SLICE_RANGE
  else if negb (hi - lo =? width) then Err E_SLICE
  else Ok (le_Z (slice (Z.to_nat lo) (Z.to_nat hi) buf)).

(* the struct literal: fields are evaluated in source order, each with `?` *)
Definition parse_fields (buf : list Z) : res sample :=
  do off <- field SOCK_OFFSET_LO SOCK_OFFSET_HI 8 buf;
  do pulse <- field SOCK_PULSE_LO SOCK_PULSE_HI 4 buf;
  do leap <- field SOCK_LEAP_LO SOCK_LEAP_HI 4 buf;
  do magic <- field SOCK_MAGIC_LO SOCK_MAGIC_HI 4 buf;
  Ok {| s_offset := off; s_pulse := to_signed 32 pulse;
        s_leap := to_signed 32 leap; s_magic := to_signed 32 magic |}.

(* fn deserialize_sample(result: Result<usize, io::Error>, buf: [u8; SOCK_SAMPLE_SIZE])
   [result]: None = Err(io error), Some n = Ok(n) *)
Definition deserialize_sample (result : option Z) (buf : list Z) : res sample :=
  match result with
  | None => Err E_IO
  | Some size =>
    if negb (size =? SOCK_SAMPLE_SIZE) then Err E_SIZE
    else
      do s <- parse_fields buf;
      if negb (s_magic s =? SOCK_MAGIC) then Err E_MAGIC
      else if negb (s_pulse s =? 0) then Err E_PULSE
      else if negb (f64_is_finite (f64_of_bits (s_offset s))) then Err E_OFFSET
      else Ok s
  end.

(* The kernel interface (trusted, checked at run time on a real socket):
   recv on a datagram socket copies at most the buffer's size, discards the
   rest of the datagram and returns the number of bytes copied; the buffer is
   zero-initialised on every loop iteration. *)
Definition pad_to (n : nat) (l : list Z) : list Z :=
  firstn n l ++ repeat 0 (n - length l).
Definition recv (bufsize : Z) (dgram : list Z) : Z * list Z :=
  (Z.min (Z.of_nat (length dgram)) bufsize, pad_to (Z.to_nat bufsize) dgram).

Definition SOCK_RECV_BUFFER_SIZE : Z := SOCK_SAMPLE_SIZE + SOCK_RECV_EXTRA.

(* fn receive_sample(result, buf: [u8; SOCK_RECV_BUFFER_SIZE]) *)
Definition receive_sample (result : option Z) (buf : list Z) : res sample :=
  if Z.of_nat (length buf) <? SOCK_SAMPLE_SIZE then Panic P_COPY_LEN
  else deserialize_sample result (firstn (Z.to_nat SOCK_SAMPLE_SIZE) buf).

(* one loop iteration up to the decision: datagram -> sample or error *)
Definition handle_datagram (dgram : list Z) : res sample :=
  let '(size, buf) := recv SOCK_RECV_BUFFER_SIZE dgram in
  receive_sample (Some size) buf.

(* the leap indicator of the measurement: codes as in Model/Combine.v *)
Definition leap_of_sample (l : Z) : Z :=
  if l =? 0 then 0 else if l =? 1 then 1 else if l =? 2 then 2 else 3.

(* Measurement { sender_ts: time - from_seconds(offset), receiver_ts: time, leap, .. }
   NtpTimestamp - NtpDuration is wrapping_sub on u64 *)
Record measurement := mk_meas { m_sender_ts : Z; m_receiver_ts : Z; m_leap : Z }.
Definition measurement_of (time : Z) (s : sample) : measurement :=
  {| m_sender_ts := wrap 64 (time - from_seconds (f64_of_bits (s_offset s)));
     m_receiver_ts := time;
     m_leap := leap_of_sample (s_leap s) |}.

(* what the source controller computes from it (OneWaySourceControllerWrapper):
   offset = sender_ts - receiver_ts, wrapping difference read as i64 *)
Definition measured_offset (m : measurement) : Z :=
  to_signed 64 (m_sender_ts m - m_receiver_ts m).

(* the whole iteration: the controller receives a measurement or nothing *)
Definition task_step (time : Z) (dgram : list Z) : option measurement :=
  match handle_datagram dgram with
  | Ok s => Some (measurement_of time s)
  | _ => None
  end.

(* ---- encodings for the correspondence ---- *)
(* deserialize_sample: [code; offset bits; pulse; leap; magic], code 0 = Ok *)
Definition sample_code (r : res sample) : list Z :=
  match r with
  | Ok s => [0; s_offset s; s_pulse s; s_leap s; s_magic s]
  | Err e => [e]
  | Panic p => [-1; p]
  end.
Definition run_deserialize (c : Z * list Z) : list Z :=
  let '(size, buf) := c in
  sample_code (deserialize_sample (if size <? 0 then None else Some size) buf).
(* the socket task: [] = nothing handed on, else [sender_ts; receiver_ts; leap] *)
Definition run_task (c : Z * list Z) : list Z :=
  let '(time, dgram) := c in
  match task_step time dgram with
  | None => []
  | Some m => [m_sender_ts m; m_receiver_ts m; m_leap m]
  end.
Definition run_c40 (c : Z * Z * list Z) : list Z :=
  let '(op, a, bs) := c in
  if op =? 0 then run_deserialize (a, bs) else run_task (a, bs).

Fixpoint list_Z_eqb (a b : list Z) : bool :=
  match a, b with
  | [], [] => true
  | x :: a', y :: b' => (x =? y) && list_Z_eqb a' b'
  | _, _ => false
  end.
