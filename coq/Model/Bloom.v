(* Model of ntp-proto/src/packet/v5/server_reference_id.rs (BloomFilter,
   ServerId, RemoteBloomFilter) and of ReferenceIdRequest::to_response
   (packet/v5/extension_fields.rs).  Definitions only.

   A filter is the list of its 512 bytes (values 0..255); a server id is the
   list of its ten 12-bit indices; a client cookie is the 8-byte value as an
   integer.  Panic sites: [idx] indexing in set_bit/is_set (unreachable for
   12-bit indices), the expect in next_request, the slice + copy_from_slice in
   handle_response. *)
From V Require Export Base.Prelude.
From V Require Import Gen.ConstSource.

Definition NBYTES : nat := Z.to_nat BLOOM_BYTES.

Fixpoint updz (i : nat) (x : Z) (l : list Z) : list Z :=
  match l, i with
  | [], _ => []
  | _ :: r, O => x :: r
  | y :: r, S j => y :: updz j x r
  end.

Definition bf_new : list Z := repeat 0 NBYTES.

(* U12::byte_and_mask *)
Definition byte_of (idx : Z) : nat := Z.to_nat (idx / 8).
Definition mask_of (idx : Z) : Z := 2 ^ (idx mod 8).

Definition panic_bloom_index : Z := 3401.
Definition panic_next_request : Z := 3402.
Definition panic_copy_chunk : Z := 3403.

Definition set_bit (f : list Z) (idx : Z) : res (list Z) :=
  if (byte_of idx <? length f)%nat
  then Ok (updz (byte_of idx) (Z.lor (nth (byte_of idx) f 0) (mask_of idx)) f)
  else Panic panic_bloom_index.

Definition is_set (f : list Z) (idx : Z) : res bool :=
  if (byte_of idx <? length f)%nat
  then Ok (negb (Z.land (nth (byte_of idx) f 0) (mask_of idx) =? 0))
  else Panic panic_bloom_index.

(* other.0.iter().all(|idx| self.is_set( *idx )) : stops at the first unset bit *)
Fixpoint contains_id (f : list Z) (id : list Z) : res bool :=
  match id with
  | [] => Ok true
  | i :: r => do b <- is_set f i; if b then contains_id f r else Ok false
  end.

Fixpoint add_id (f : list Z) (id : list Z) : res (list Z) :=
  match id with
  | [] => Ok f
  | i :: r => do f' <- set_bit f i; add_id f' r
  end.

(* zip: stops at the shorter list; both are 512 long *)
Fixpoint bf_add (f g : list Z) : list Z :=
  match f, g with
  | a :: f', b :: g' => Z.lor a b :: bf_add f' g'
  | _, _ => f
  end.

Definition bf_union (fs : list (list Z)) : list Z := fold_left bf_add fs bf_new.

Fixpoint popcount8 (fuel : nat) (b : Z) : Z :=
  match fuel with O => 0 | S k => (if Z.odd b then 1 else 0) + popcount8 k (b / 2) end.
(* sum of u16 (cannot overflow: at most 4096) *)
Definition count_ones (f : list Z) : Z := fold_left (fun a b => a + popcount8 8 b) f 0.

Definition id_ok (id : list Z) : Prop := Forall (fun i => 0 <= i <= U12_MAX) id.
Definition bf_ok (f : list Z) : Prop := length f = NBYTES /\ Forall (fun b => 0 <= b < 256) f.

(* ---------- ReferenceIdRequest ---------- *)
Record request := mkReq { payload_len : Z; req_offset : Z }.   (* both u16 *)

(* ReferenceIdRequest::new (release arithmetic: the u16 sum wraps) *)
Definition request_new (plen off : Z) : option request :=
  if negb (plen mod 4 =? 0) then None
  else if (plen + off) mod 65536 >? REQUEST_MAX_END then None
  else Some (mkReq plen off).

Definition slice (f : list Z) (off len : nat) : list Z := firstn len (skipn off f).

(* filter.as_bytes().get(offset..)?.get(..payload_len)? *)
Definition to_response (r : request) (f : list Z) : option (list Z) :=
  let off := Z.to_nat (req_offset r) in
  let len := Z.to_nat (payload_len r) in
  if (off <=? length f)%nat then
    if (len <=? length f - off)%nat then Some (slice f off len) else None
  else None.

(* ---------- RemoteBloomFilter ---------- *)
Record rbf := mkRbf {
  filter : list Z;
  chunk : Z;                          (* u16 *)
  last_req : option (Z * Z);          (* (offset, cookie) *)
  next : Z;                           (* u16 *)
  filled : bool
}.

Definition rbf_new (cs : Z) : option rbf :=
  if negb (cs mod 4 =? 0) then None
  else if (cs =? 0) || (cs >? 512) then None
  else if negb (512 mod cs =? 0) then None
  else Some (mkRbf bf_new cs None 0 false).

Definition full_filter (r : rbf) : option (list Z) :=
  if filled r then Some (filter r) else None.

Definition next_request (r : rbf) (cookie : Z) : res (rbf * request) :=
  let off := next r in
  match request_new (chunk r) off with
  | Some q => Ok (mkRbf (filter r) (chunk r) (Some (off, cookie)) (next r) (filled r), q)
  | None => Panic panic_next_request
  end.

Definition E_not_awaiting : Z := 1.
Definition E_mismatched_cookie : Z := 2.
Definition E_mismatched_length : Z := 3.

Definition splice (l : list Z) (off : nat) (b : list Z) : list Z :=
  firstn off l ++ b ++ skipn (off + length b) l.

Definition handle_response (r : rbf) (cookie : Z) (bytes : list Z) : res rbf :=
  match last_req r with
  | None => Err E_not_awaiting
  | Some (off, expected) =>
    if negb (cookie =? expected) then Err E_mismatched_cookie
    else if negb (Z.of_nat (length bytes) =? chunk r) then Err E_mismatched_length
    else if (Z.to_nat off + Z.to_nat (chunk r) <=? length (filter r))%nat then
      let nx := ((next r + chunk r) mod 65536) mod BLOOM_BYTES in
      Ok (mkRbf (splice (filter r) (Z.to_nat off) bytes) (chunk r) None nx
                (filled r || (nx =? 0)))
    else Panic panic_copy_chunk
  end.

(* ---------- histories of a client/server pair ---------- *)
Inductive bevent :=
| Req (cookie : Z)                       (* client builds its next request *)
| Resp (cookie : Z) (bytes : list Z).    (* a ReferenceIdResponse reaches the client *)

(* one step; a rejected response leaves the state as it was (the caller only logs) *)
Definition bstep (r : rbf) (e : bevent) : res rbf :=
  match e with
  | Req c => do x <- next_request r c; Ok (fst x)
  | Resp c b => match handle_response r c b with
                | Ok r' => Ok r'
                | Err _ => Ok r
                | Panic s => Panic s
                end
  end.

Fixpoint brun (r : rbf) (evs : list bevent) : res rbf :=
  match evs with
  | [] => Ok r
  | e :: t => do r' <- bstep r e; brun r' t
  end.

Definition accepted (r : rbf) (e : bevent) : bool :=
  match e with
  | Resp c b => match handle_response r c b with Ok _ => true | _ => false end
  | Req _ => false
  end.

(* the network only ever hands the client, for the request that is outstanding,
   the server's answer to that very request (wrong-size or wrong-cookie data is
   unconstrained) *)
Definition honest_step (f : list Z) (r : rbf) (e : bevent) : Prop :=
  match e, last_req r with
  | Resp c b, Some (off, ec) =>
      c = ec -> Z.of_nat (length b) = chunk r ->
      Some b = to_response (mkReq (chunk r) off) f
  | _, _ => True
  end.

Fixpoint honest (f : list Z) (r : rbf) (evs : list bevent) : Prop :=
  match evs with
  | [] => True
  | e :: t => honest_step f r e /\
              match bstep r e with Ok r' => honest f r' t | _ => True end
  end.

Fixpoint n_accepted (r : rbf) (evs : list bevent) : nat :=
  match evs with
  | [] => O
  | e :: t => (if accepted r e then 1 else 0) +
              match bstep r e with Ok r' => n_accepted r' t | _ => O end
  end.

(* a discipline that implies [honest]: every request uses a cookie not used
   before, and every response that carries the cookie of some earlier request
   carries the server's answer to that request *)
Fixpoint disciplined (f : list Z) (cs : Z) (r : rbf) (seen : list (Z * Z)) (evs : list bevent) : Prop :=
  match evs with
  | [] => True
  | Req c :: t => ~ In c (map snd seen) /\
                  match bstep r (Req c) with Ok r' => disciplined f cs r' ((next r, c) :: seen) t | _ => True end
  | Resp c b :: t =>
      (forall off, In (off, c) seen -> Z.of_nat (length b) = cs -> Some b = to_response (mkReq cs off) f) /\
      match bstep r (Resp c b) with Ok r' => disciplined f cs r' seen t | _ => True end
  end.

(* ---------- encodings for the correspondence ---------- *)
(* sparse form of a filter: (index, byte) for the non-zero bytes *)
Fixpoint sparse_from (i : Z) (f : list Z) : list Z :=
  match f with
  | [] => []
  | b :: r => (if b =? 0 then [] else [i; b]) ++ sparse_from (i + 1) r
  end.
Definition sparse (f : list Z) : list Z := sparse_from 0 f.

Fixpoint unsparse (s : list Z) (f : list Z) : list Z :=
  match s with
  | i :: b :: r => unsparse r (updz (Z.to_nat i) b f)
  | _ => f
  end.

Definition junk (seed : Z) (len : nat) : list Z :=
  map (fun i => (seed + 7 * Z.of_nat i) mod 256) (seq 0 len).

(* ---------- the cases of the correspondence (harness/ntp-proto/c34.rs) ---------- *)
Definition checksum (l : list Z) : Z :=
  fst (fold_left (fun (a : Z * Z) b => ((fst a + snd a * b) mod 1000003, snd a + 1)) l (0, 1)).

Inductive bop := BAdd (id : list Z) | BUnion (ids : list (list Z)) | BQuery (id : list Z).

Fixpoint add_ids (f : list Z) (ids : list (list Z)) : res (list Z) :=
  match ids with
  | [] => Ok f
  | id :: r => do f' <- add_id f id; add_ids f' r
  end.

Fixpoint run_bloom (f : list Z) (ops : list bop) : list Z :=
  match ops with
  | [] => [checksum f]
  | BAdd id :: r =>
      match add_id f id with Ok f' => count_ones f' :: run_bloom f' r | _ => [-99] end
  | BUnion ids :: r =>
      match add_ids bf_new ids with
      | Ok g => let f' := bf_add f g in count_ones f' :: run_bloom f' r
      | _ => [-99]
      end
  | BQuery id :: r =>
      match contains_id f id with
      | Ok b => (if b then 1 else 0) :: run_bloom f r
      | _ => [-99]
      end
  end.

Inductive hev :=
| HQ (c : Z)                           (* next_request with this client cookie *)
| HD (k : nat)                         (* the server's answer to the k-th request made so far *)
| HJ (c : Z) (len : nat) (seed : Z)    (* [junk seed len] with cookie c *)
| HS (plen off : Z).                   (* server side: to_response of an arbitrary request *)

Definition b2z (b : bool) : Z := if b then 1 else 0.

Definition deliver (r : rbf) (c : Z) (b : list Z) : rbf * list Z :=
  match handle_response r c b with
  | Ok r' => (r', [0; next r'; b2z (filled r')])
  | Err e => (r, [e; next r; b2z (filled r)])
  | Panic _ => (r, [-99])
  end.

Fixpoint run_remote (f : list Z) (r : rbf) (reqs : list (Z * Z)) (evs : list hev) : list Z :=
  match evs with
  | [] => (match full_filter r with Some g => [1; checksum g] | None => [-1] end) ++ [checksum (filter r)]
  | HQ c :: t =>
      match next_request r c with
      | Ok (r', q) => [req_offset q; payload_len q] ++ run_remote f r' (reqs ++ [(req_offset q, c)]) t
      | _ => [-99]
      end
  | HD k :: t =>
      match nth_error reqs k with
      | Some (off, c) =>
          match to_response (mkReq (chunk r) off) f with
          | Some b => let (r', o) := deliver r c b in o ++ run_remote f r' reqs t
          | None => [-98]
          end
      | None => [-97] ++ run_remote f r reqs t
      end
  | HJ c len seed :: t => let (r', o) := deliver r c (junk seed len) in o ++ run_remote f r' reqs t
  | HS plen off :: t =>
      (match to_response (mkReq plen off) f with
       | Some b => [Z.of_nat (length b); checksum b]
       | None => [-1]
       end) ++ run_remote f r reqs t
  end.

Inductive bcase :=
| CaseBloom (ops : list bop)
| CaseRemote (cs : Z) (fsparse : list Z) (evs : list hev).

Definition run_c34 (c : bcase) : list Z :=
  match c with
  | CaseBloom ops => run_bloom bf_new ops
  | CaseRemote cs fs evs =>
      match rbf_new cs with
      | None => [-1]
      | Some r => run_remote (unsparse fs bf_new) r [] evs
      end
  end.

Fixpoint zl_eqb (a b : list Z) : bool :=
  match a, b with
  | [], [] => true
  | x :: a', y :: b' => (x =? y) && zl_eqb a' b'
  | _, _ => false
  end.
