(* Model of ntp-proto/src/server.rs: TimestampedCache<IpAddr> (new, index, is_allowed).
   Definitions only.

   Addresses are Z (an injective numbering of the IpAddr values), instants are Z
   nanoseconds on the monotonic clock, durations are Z nanoseconds.  The hash
   function of the cache (std RandomState, re-seeded per process) is the
   function argument [h]: nothing is assumed about it, the correspondence reads
   the slot the implementation used back through the private `index` method. *)
From V Require Export Base.Prelude.

Definition entry := option (Z * Z).          (* Option<(T, Instant)> *)
Definition cache := list entry.              (* Vec<Option<(T, Instant)>> *)

(* TimestampedCache::new(length): `length` empty slots *)
Definition new_cache (n : Z) : cache := repeat None (Z.to_nat n).

(* index(): `hash_one(item) as usize % self.elements.len()` *)
Definition slot_of (h : Z -> Z) (len : Z) (a : Z) : Z := (h a) mod len.

(* Instant::duration_since saturates to zero when `earlier` is later than self *)
Definition dur_since (t told : Z) : Z := Z.max 0 (t - told).

Fixpoint upd (c : cache) (i : nat) (e : entry) : cache :=
  match c, i with
  | [], _ => []
  | _ :: r, O => e :: r
  | x :: r, S k => x :: upd r k e
  end.

(* `self.elements[index]`: the only indexing on the path *)
Definition panic_cache_index : Z := 2001.

(* is_allowed(item, timestamp, cutoff) -> bool, with the new cache contents.
   Rust order: empty => true; compute index; remember the occupant's timestamp
   if the occupant is the same item; overwrite the slot unconditionally; then
   compare `timestamp.duration_since(old) >= cutoff`. *)
Definition is_allowed (h : Z -> Z) (c : cache) (a t cutoff : Z) : res (cache * bool) :=
  match c with
  | [] => Ok (c, true)
  | _ :: _ =>
    let i := Z.to_nat (slot_of h (Z.of_nat (length c)) a) in
    match nth_error c i with
    | None => Panic panic_cache_index
    | Some occupant =>
      let timestamp_if_same :=
        match occupant with
        | Some (v, told) => if a =? v then Some told else None
        | None => None
        end in
      let c' := upd c i (Some (a, t)) in
      match timestamp_if_same with
      | Some told => Ok (c', cutoff <=? dur_since t told)
      | None => Ok (c', true)
      end
    end
  end.

(* a history of calls (address, instant) from a given cache: the verdicts, in order *)
Fixpoint run_from (h : Z -> Z) (cutoff : Z) (c : cache) (calls : list (Z * Z)) : res (cache * list bool) :=
  match calls with
  | [] => Ok (c, [])
  | (a, t) :: rest =>
    do x <- is_allowed h c a t cutoff;
    let '(c1, b) := x in
    do y <- run_from h cutoff c1 rest;
    let '(c2, bs) := y in
    Ok (c2, b :: bs)
  end.

Definition verdicts (h : Z -> Z) (n cutoff : Z) (calls : list (Z * Z)) : res (list bool) :=
  do x <- run_from h cutoff (new_cache n) calls; Ok (snd x).

(* specification vocabulary: the most recent call of a history that used slot s *)
Definition last_on_slot (h : Z -> Z) (n : Z) (s : Z) (pre : list (Z * Z)) : option (Z * Z) :=
  find (fun c => slot_of h n (fst c) =? s) (rev pre).

(* ---- encoding for the correspondence -------------------------------------
   input: (n, cutoff, slot table [(address, slot read back from the implementation)], calls)
   output: (verdicts as 0/1, final cache as [(address, instant)] with (-1,-1) for an empty slot);
   [-2] in front = the model panics *)
Definition table_hash (tbl : list (Z * Z)) (a : Z) : Z :=
  match find (fun p => fst p =? a) tbl with Some p => snd p | None => 0 end.

Definition entry_code (e : entry) : Z * Z :=
  match e with Some (a, t) => (a, t) | None => (-1, -1) end.

Definition cache_run (inp : Z * Z * list (Z * Z) * list (Z * Z)) : list Z * list (Z * Z) :=
  let '(n, cutoff, tbl, calls) := inp in
  match run_from (table_hash tbl) cutoff (new_cache n) calls with
  | Ok (c, bs) => (map (fun b : bool => if b then 1 else 0) bs, map entry_code c)
  | _ => ([-2], [])
  end.

Fixpoint zlist_eqb (x y : list Z) : bool :=
  match x, y with
  | [], [] => true
  | a :: r, b :: s => (a =? b) && zlist_eqb r s
  | _, _ => false
  end.

Fixpoint zzlist_eqb (x y : list (Z * Z)) : bool :=
  match x, y with
  | [], [] => true
  | (a1, a2) :: r, (b1, b2) :: s => (a1 =? b1) && (a2 =? b2) && zzlist_eqb r s
  | _, _ => false
  end.

Definition cache_out_eqb (x y : list Z * list (Z * Z)) : bool :=
  zlist_eqb (fst x) (fst y) && zzlist_eqb (snd x) (snd y).
