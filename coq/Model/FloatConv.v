(* Bit-exact model of the float conversions of the time types:
     ntp-proto   NtpDuration::to_seconds / from_seconds
     statime-base Duration::as_seconds / from_f64_seconds
   Definitions only.

   binary64 values are [spec_float]s (Coq.Floats.SpecFloat) and the IEEE-754
   operations are the library's SFadd/SFsub/SFmul/SFdiv at prec = 53,
   emax = 1024 (round to nearest even): plain Gallina functions (they are the
   specification the primitive floats are axiomatised against), so nothing
   here depends on an axiom and the model runs under vm_compute.  Floats cross
   the harness boundary as 64-bit patterns ([sf_of_bits] / [bits_of_sf]).

   Rust operations that are not IEEE primitives are defined from the
   decomposition (sign, mantissa, exponent), mirroring core:
     f64::floor                 [sf_floor]
     f64 as i64 / as i128       [sf_to_int]   (truncate toward zero, saturate, NaN -> 0)
     i64 / i128 / u128 as f64   [sf_of_Z]     (round to nearest even)            *)
From V Require Export Model.TimeTypes.
From Coq Require Export SpecFloat.

Definition prec : Z := 53.
Definition emax : Z := 1024.

Definition fadd := SFadd prec emax.
Definition fsub := SFsub prec emax.
Definition fmul := SFmul prec emax.
Definition fdiv := SFdiv prec emax.

(* integer -> binary64, round to nearest even ([x as f64] for integer x) *)
Definition sf_of_Z (z : Z) : spec_float := binary_normalize prec emax z 0 false.

(* the 64-bit pattern *)
Definition sf_of_bits (b : Z) : spec_float :=
  let s := Z.testbit b 63 in
  let e := (b / 2 ^ 52) mod 2 ^ 11 in
  let m := b mod 2 ^ 52 in
  if e =? 0 then (if m =? 0 then S754_zero s else S754_finite s (Z.to_pos m) (-1074))
  else if e =? 2047 then (if m =? 0 then S754_infinity s else S754_nan)
  else S754_finite s (Z.to_pos (m + 2 ^ 52)) (e - 1075).

(* only for canonical (valid_binary) finite values; NaN is printed as the
   canonical quiet NaN of Rust's f64::NAN *)
Definition bits_of_sf (x : spec_float) : Z :=
  match x with
  | S754_zero s => if s then 2 ^ 63 else 0
  | S754_infinity s => (if s then 2 ^ 63 else 0) + 2047 * 2 ^ 52
  | S754_nan => 2047 * 2 ^ 52 + 2 ^ 51
  | S754_finite s m e =>
      (if s then 2 ^ 63 else 0) +
      (if Z.pos m <? 2 ^ 52 then Z.pos m            (* subnormal: e = -1074 *)
       else (e + 1075) * 2 ^ 52 + (Z.pos m - 2 ^ 52))
  end.

(* f64::floor *)
Definition sf_floor (x : spec_float) : spec_float :=
  match x with
  | S754_finite s m e =>
      if 0 <=? e then x
      else
        let d := 2 ^ (- e) in
        let q := Z.pos m / d in
        let r := Z.pos m mod d in
        if s then
          sf_of_Z (- (if r =? 0 then q else q + 1))      (* never zero: q + 1 >= 1 or r = 0, q >= 1 *)
        else if q =? 0 then S754_zero false else sf_of_Z q
  | _ => x
  end.

(* `x as iN` for N = bits: truncate toward zero, saturate, NaN -> 0 *)
Definition sf_to_int (bits : Z) (x : spec_float) : Z :=
  let lo := - 2 ^ (bits - 1) in
  let hi := 2 ^ (bits - 1) - 1 in
  match x with
  | S754_zero _ => 0
  | S754_nan => 0
  | S754_infinity s => if s then lo else hi
  | S754_finite s m e =>
      let a := if 0 <=? e then Z.pos m * 2 ^ e else Z.pos m / 2 ^ (- e) in
      clampZ lo hi (if s then - a else a)
  end.

(* ---- NtpDuration ---------------------------------------------------- *)

Definition u32max_f : spec_float := sf_of_Z (2 ^ 32 - 1).       (* u32::MAX as f64, exact *)

(* self.duration as f64 / u32::MAX as f64 *)
Definition to_seconds (d : Z) : spec_float := fdiv (sf_of_Z d) u32max_f.

(* from_seconds (release semantics: the debug_assert on NaN/inf is inactive):
     let i = seconds.floor(); let f = seconds - i;
     match i as i64 {
       i if i32::try_from(i).is_ok() => (i << 32) | (f * u32::MAX as f64) as i64,
       i if i < i32::MIN as i64 => i64::MIN,
       i if i > i32::MAX as i64 => i64::MAX, _ => unreachable!() }          *)
Definition from_seconds (x : spec_float) : Z :=
  let fi := sf_floor x in
  let f := fsub x fi in
  let i := sf_to_int 64 fi in
  if (- 2 ^ 31 <=? i) && (i <=? 2 ^ 31 - 1) then
    to_signed 64 (Z.lor (i * 2 ^ 32) (sf_to_int 64 (fmul f u32max_f)))
  else if i <? - 2 ^ 31 then i64_min
  else i64_max.

(* ---- statime-base Duration ------------------------------------------ *)

Definition two64_f : spec_float := sf_of_Z (2 ^ 64).             (* (1u128 << 64) as f64, exact *)

(* (self.0 as f64) / ((1u128 << 64) as f64) *)
Definition p_as_seconds (d : Z) : spec_float := fdiv (sf_of_Z d) two64_f.
(* (value * ((1u128 << 64) as f64)) as i128 *)
Definition p_from_f64_seconds (x : spec_float) : Z := sf_to_int 128 (fmul x two64_f).

(* ---- exact-arithmetic reference of the NTP round trip ---------------- *)
(* what to_seconds followed by from_seconds computes when every float
   operation is replaced by the exact rational one: seconds = d / (2^32-1),
   i = floor, f * (2^32-1) = d mod (2^32-1) *)
Definition roundtrip_exact (d : Z) : Z :=
  let u := 2 ^ 32 - 1 in
  let i := d / u in
  if (- 2 ^ 31 <=? i) && (i <=? 2 ^ 31 - 1) then i * 2 ^ 32 + d mod u
  else if i <? - 2 ^ 31 then i64_min
  else i64_max.
