#!/bin/sh
# MANIFEST.setup_cmd: build the framework from files on disk only (offline)
cd "$(dirname "$0")" || exit 1
export CARGO_NET_OFFLINE=true
exec python3 -m tools.setup
